package main

// C19 fact generator -> Gen/DryRunFacts.lean
//
//   dryFns      every function of package callbacks that is reachable from a registered callback (through calls to
//               package-level functions): ALL its calls in source order, each with the conditions that dominate it
//               (same dominance rule as Gen.callSites: enclosing ifs, early returns, boolean aliases)
//   dryReads    every syntactic occurrence of the selector `.DryRun` in non-test code of the packages ., callbacks,
//               migrator with HOW it is read: "if" (inside an if condition), "alias:<v>" (right side of `v := <bool
//               expr>`, the alias being used in if conditions only), "assign" (left side of an assignment), or
//               "other:<statement>" (anything the dominance rule cannot see through: argument, switch, loop, return,
//               plain variable copy, alias that escapes)
//   dryRootGuarded  for the functions outside package callbacks that read DryRun: the calls dominated by a DryRun atom
//   txSites     every call of Transaction / Begin / BeginTx / Commit / Rollback / SavePoint / RollbackTo in the
//               packages ., callbacks, migrator with receiver and dominating conditions

import (
	"fmt"
	"go/ast"
	"go/token"
	"sort"
	"strings"
)

func init() {
	extraGens = append(extraGens, func(o *out, pkgs map[string]map[string]*ast.File, all []funcInfo, repo string) {
		genC19(o, pkgs, all)
	})
}

func c19CalleeName(c *ast.CallExpr) (name, recv string) {
	switch f := c.Fun.(type) {
	case *ast.SelectorExpr:
		return f.Sel.Name, src(f.X)
	case *ast.Ident:
		return f.Name, ""
	case *ast.FuncLit:
		return "func-literal", ""
	case *ast.ParenExpr:
		return "paren", src(f.X)
	case *ast.IndexExpr:
		return "index", src(f.X)
	}
	return "expr", src(c.Fun)
}

func c19HasDry(gs []string) bool {
	for _, g := range gs {
		if strings.Contains(g, "DryRun") {
			return true
		}
	}
	return false
}

func c19Arg0(c *ast.CallExpr) string {
	if len(c.Args) == 0 {
		return ""
	}
	s := src(c.Args[0])
	if len(s) > 60 {
		s = s[:60]
	}
	return s
}

func genC19(o *out, pkgs map[string]map[string]*ast.File, all []funcInfo) {
	var b strings.Builder
	b.WriteString(`structure DCall where
  what : String        -- callee name (selector or identifier)
  recv : String        -- receiver expression ("" for a plain identifier)
  arg0 : String        -- first argument (truncated)
  pkgLocal : Bool      -- the callee is a package-level function of package callbacks
  guards : List String
  inClosure : Bool
deriving Repr, DecidableEq

structure DFn where
  file : String
  name : String
  calls : List DCall
deriving Repr, DecidableEq

structure DryRead where
  pkg : String
  file : String
  fn : String
  how : String         -- "if" | "alias" | "assign" | "other:<statement>"
deriving Repr, DecidableEq

structure TxSite where
  file : String
  fn : String
  method : String
  recv : String
  guards : List String
deriving Repr, DecidableEq

`)

	// ---- package-level functions of callbacks ---------------------------------------------------
	cbFns := map[string]funcInfo{}
	for _, fi := range all {
		if strings.HasPrefix(fi.file, "callbacks/") && fi.decl.Recv == nil {
			cbFns[fi.name] = fi
		}
	}
	// registered handlers: RegisterDefaultCallbacks' second arguments
	var roots []string
	if reg, ok := cbFns["RegisterDefaultCallbacks"]; ok {
		ast.Inspect(reg.decl.Body, func(n ast.Node) bool {
			c, ok := n.(*ast.CallExpr)
			if !ok || len(c.Args) != 2 {
				return true
			}
			if sel, ok := c.Fun.(*ast.SelectorExpr); ok && (sel.Sel.Name == "Register" || sel.Sel.Name == "Replace") {
				h := src(c.Args[1])
				if i := strings.Index(h, "("); i >= 0 {
					h = h[:i]
				}
				roots = append(roots, h)
			}
			return true
		})
	}
	type callRow struct {
		what, recv, arg0 string
		local            bool
		guards           []string
		inLit            bool
	}
	body := map[string][]callRow{}
	seen := map[string]bool{}
	work := append([]string(nil), roots...)
	for len(work) > 0 {
		n := work[0]
		work = work[1:]
		if seen[n] {
			continue
		}
		seen[n] = true
		fi, ok := cbFns[n]
		if !ok {
			continue
		}
		var rows []callRow
		walkFunc(fi, func(c *ast.CallExpr, known []string, inLit int) {
			name, recv := c19CalleeName(c)
			_, local := cbFns[name]
			local = local && recv == ""
			rows = append(rows, callRow{name, recv, c19Arg0(c), local, append([]string(nil), known...), inLit > 0})
			if local && !seen[name] {
				work = append(work, name)
			}
		})
		body[n] = rows
	}
	var names []string
	for n := range body {
		names = append(names, n)
	}
	sort.Strings(names)
	// keep the table small: a call is listed when it is guarded by a DryRun atom, or is package-local, or is one of
	// the calls the model distinguishes (driver / transaction / hooks / statement shaping API / nested finishers)
	interesting := map[string]bool{"ExecContext": true, "QueryContext": true, "QueryRowContext": true, "PrepareContext": true,
		"Begin": true, "BeginTx": true, "Commit": true, "Rollback": true, "Transaction": true, "SavePoint": true, "RollbackTo": true,
		"AddClause": true, "AddClauseIfNotExists": true, "Build": true, "SetColumn": true, "AddVar": true, "WriteString": true,
		"WriteQuoted": true, "WriteByte": true, "AddError": true, "Session": true, "Create": true, "Save": true, "Updates": true,
		"Update": true, "Delete": true, "Find": true, "First": true, "Scan": true, "Close": true, "RowsAffected": true,
		"LastInsertId": true, "Set": true, "Parse": true, "SelectAndOmitColumns": true, "Clauses": true, "Get": true,
		"InstanceSet": true, "InstanceGet": true}
	for k := range hookMethods {
		interesting[k] = true
	}
	b.WriteString("/-- package callbacks: the functions reachable from the registered callbacks; calls in source order -/\ndef dryFns : List DFn := [\n")
	nCalls := 0
	for i, n := range names {
		var cs []string
		for _, r := range body[n] {
			if !(c19HasDry(r.guards) || r.local || interesting[r.what]) {
				continue
			}
			nCalls++
			cs = append(cs, fmt.Sprintf("{ what := %s, recv := %s, arg0 := %s, pkgLocal := %s, guards := %s, inClosure := %s }",
				lstr(r.what), lstr(r.recv), lstr(r.arg0), lbool(r.local), lstrs(r.guards), lbool(r.inLit)))
		}
		if i > 0 {
			b.WriteString(",\n")
		}
		fmt.Fprintf(&b, "  { file := %s, name := %s, calls := [\n      %s ] }", lstr(cbFns[n].file), lstr(n), strings.Join(cs, ",\n      "))
	}
	b.WriteString("\n]\n\n")
	// condition atoms of these functions that mention DryRun in another spelling than the two the model interprets
	var odd []string
	for _, n := range names {
		for _, r := range body[n] {
			for _, g := range r.guards {
				if strings.Contains(g, "DryRun") && g != "!db.DryRun" && g != "db.DryRun" {
					odd = append(odd, fmt.Sprintf("  (%s, %s)", lstr(n), lstr(g)))
				}
			}
		}
	}
	b.WriteString("/-- (function, atom): dominating conditions that mention DryRun but are neither `!db.DryRun` nor `db.DryRun` -/\ndef dryAtomsOther : List (String × String) := [\n" + strings.Join(odd, ",\n") + "\n]\n\n")
	o.facts["c19DryFns"] = len(names)
	o.facts["c19DryCalls"] = nCalls

	// ---- every read of .DryRun and how it is read -----------------------------------------------
	var reads []string
	type rootGuard struct{ file, fn, what, recv string }
	var rootGuarded []string
	for _, fi := range all {
		if !(pkgOf(fi.file) == "." || pkgOf(fi.file) == "callbacks" || pkgOf(fi.file) == "migrator") {
			continue
		}
		has := false
		ast.Inspect(fi.decl.Body, func(n ast.Node) bool {
			if s, ok := n.(*ast.SelectorExpr); ok && s.Sel.Name == "DryRun" {
				has = true
			}
			return true
		})
		if !has {
			continue
		}
		for _, h := range c19ReadKinds(fi.decl.Body) {
			reads = append(reads, fmt.Sprintf("  { pkg := %s, file := %s, fn := %s, how := %s }", lstr(pkgOf(fi.file)), lstr(fi.file), lstr(fi.name), lstr(h)))
		}
		if pkgOf(fi.file) != "callbacks" {
			fi := fi
			walkFunc(fi, func(c *ast.CallExpr, known []string, inLit int) {
				if !c19HasDry(known) {
					return
				}
				name, recv := c19CalleeName(c)
				rootGuarded = append(rootGuarded, fmt.Sprintf("  (%s, %s, %s)", lstr(fi.name), lstr(name), lstr(recv)))
			})
		}
	}
	b.WriteString("/-- every occurrence of `.DryRun` (packages ., callbacks, migrator) and how it is read -/\ndef dryReads : List DryRead := [\n" + strings.Join(reads, ",\n") + "\n]\n\n")
	b.WriteString("/-- outside package callbacks: (function, callee, receiver) of every call dominated by a DryRun atom -/\ndef dryRootGuarded : List (String × String × String) := [\n" + strings.Join(rootGuarded, ",\n") + "\n]\n\n")

	// ---- non-call effects dominated by a DryRun test (package callbacks, functions of the table) -----
	var effs []string
	for _, n := range names {
		for _, e := range c19Effects(cbFns[n].decl.Body) {
			effs = append(effs, fmt.Sprintf("  (%s, %s, %s)", lstr(n), lstr(e[0]), lstr(e[1])))
		}
	}
	b.WriteString("/-- (function, kind, text): assignments (left sides), inc/dec, break/continue/goto, send and go statements that are\n    executed depending on a DryRun test (inside either branch of an `if` on DryRun, or after an early return on it) -/\ndef dryEffects : List (String × String × String) := [\n" + strings.Join(effs, ",\n") + "\n]\n\n")

	// ---- transaction control call sites ---------------------------------------------------------
	txm := map[string]bool{"Transaction": true, "Begin": true, "BeginTx": true, "Commit": true, "Rollback": true, "SavePoint": true, "RollbackTo": true}
	var sites []string
	for _, fi := range all {
		p := pkgOf(fi.file)
		if !(p == "." || p == "callbacks" || p == "migrator") {
			continue
		}
		fi := fi
		walkFunc(fi, func(c *ast.CallExpr, known []string, inLit int) {
			sel, ok := c.Fun.(*ast.SelectorExpr)
			if !ok || !txm[sel.Sel.Name] {
				return
			}
			sites = append(sites, fmt.Sprintf("  { file := %s, fn := %s, method := %s, recv := %s, guards := %s }",
				lstr(fi.file), lstr(fi.name), lstr(sel.Sel.Name), lstr(src(sel.X)), lstrs(known)))
		})
	}
	b.WriteString("/-- every Transaction/Begin/BeginTx/Commit/Rollback/SavePoint/RollbackTo call (packages ., callbacks, migrator) -/\ndef txSites : List TxSite := [\n" + strings.Join(sites, ",\n") + "\n]\n")
	o.facts["c19TxSites"] = len(sites)
	o.write("DryRunFacts", b.String())
}

// c19ReadKinds classifies every `.DryRun` selector occurrence of one function body.
func c19ReadKinds(body *ast.BlockStmt) []string {
	type span struct{ lo, hi token.Pos }
	var ifConds []span
	aliasOf := map[*ast.SelectorExpr]string{}
	assignLhs := map[*ast.SelectorExpr]bool{}
	aliasNames := map[string]bool{}
	hasDry := func(n ast.Node) (found []*ast.SelectorExpr) {
		ast.Inspect(n, func(m ast.Node) bool {
			if s, ok := m.(*ast.SelectorExpr); ok && s.Sel.Name == "DryRun" {
				found = append(found, s)
			}
			return true
		})
		return
	}
	ast.Inspect(body, func(n ast.Node) bool {
		switch x := n.(type) {
		case *ast.IfStmt:
			ifConds = append(ifConds, span{x.Cond.Pos(), x.Cond.End()})
		case *ast.AssignStmt:
			for _, l := range x.Lhs {
				if s, ok := l.(*ast.SelectorExpr); ok && s.Sel.Name == "DryRun" {
					assignLhs[s] = true
				}
			}
			// the alias forms the dominance rule understands: v := <&&, ||, ==, !=, !> expression
			if x.Tok == token.DEFINE && len(x.Lhs) == 1 && len(x.Rhs) == 1 {
				if id, ok := x.Lhs[0].(*ast.Ident); ok {
					okForm := false
					switch r := x.Rhs[0].(type) {
					case *ast.BinaryExpr:
						okForm = r.Op == token.LAND || r.Op == token.LOR || r.Op == token.EQL || r.Op == token.NEQ
					case *ast.UnaryExpr:
						okForm = r.Op == token.NOT
					}
					if okForm {
						for _, s := range hasDry(x.Rhs[0]) {
							aliasOf[s] = id.Name
							aliasNames[id.Name] = true
						}
					}
				}
			}
		}
		return true
	})
	inIf := func(p token.Pos) bool {
		for _, s := range ifConds {
			if s.lo <= p && p < s.hi {
				return true
			}
		}
		return false
	}
	// an alias must be used in if conditions only (its definition aside)
	escaped := map[string]bool{}
	defPos := map[token.Pos]bool{}
	ast.Inspect(body, func(n ast.Node) bool {
		if as, ok := n.(*ast.AssignStmt); ok && as.Tok == token.DEFINE && len(as.Lhs) == 1 {
			if id, ok := as.Lhs[0].(*ast.Ident); ok && aliasNames[id.Name] {
				defPos[id.Pos()] = true
			}
		}
		return true
	})
	ast.Inspect(body, func(n ast.Node) bool {
		if id, ok := n.(*ast.Ident); ok && aliasNames[id.Name] && !defPos[id.Pos()] && !inIf(id.Pos()) {
			escaped[id.Name] = true
		}
		return true
	})
	// enclosing statement text for "other"
	var out []string
	var stack []ast.Node
	ast.Inspect(body, func(n ast.Node) bool {
		if n == nil {
			stack = stack[:len(stack)-1]
			return true
		}
		stack = append(stack, n)
		s, ok := n.(*ast.SelectorExpr)
		if !ok || s.Sel.Name != "DryRun" {
			return true
		}
		switch {
		case assignLhs[s]:
			out = append(out, "assign")
		case inIf(s.Pos()):
			out = append(out, "if")
		case aliasOf[s] != "" && !escaped[aliasOf[s]]:
			out = append(out, "alias")
		default:
			txt := src(s)
			for i := len(stack) - 1; i >= 0; i-- {
				if st, ok := stack[i].(ast.Stmt); ok {
					txt = src(st)
					break
				}
			}
			if len(txt) > 80 {
				txt = txt[:80]
			}
			out = append(out, "other:"+txt)
		}
		return true
	})
	return out
}

// c19Effects lists the non-call effect statements whose execution depends on a DryRun test.
func c19Effects(body *ast.BlockStmt) [][2]string {
	aliases := map[string]bool{}
	mentions := func(e ast.Expr) bool {
		found := false
		ast.Inspect(e, func(n ast.Node) bool {
			switch x := n.(type) {
			case *ast.SelectorExpr:
				if x.Sel.Name == "DryRun" {
					found = true
				}
			case *ast.Ident:
				if aliases[x.Name] {
					found = true
				}
			}
			return true
		})
		return found
	}
	var out [][2]string
	var block func(stmts []ast.Stmt, dry bool)
	var stmt func(s ast.Stmt, dry bool)
	lits := func(n ast.Node, dry bool) {
		if n == nil {
			return
		}
		ast.Inspect(n, func(m ast.Node) bool {
			if fl, ok := m.(*ast.FuncLit); ok {
				block(fl.Body.List, dry)
				return false
			}
			return true
		})
	}
	block = func(stmts []ast.Stmt, dry bool) {
		for _, s := range stmts {
			stmt(s, dry)
			if is, ok := s.(*ast.IfStmt); ok && is.Else == nil && endsWithReturn(is.Body) && mentions(is.Cond) {
				dry = true
			}
		}
	}
	stmt = func(s ast.Stmt, dry bool) {
		switch x := s.(type) {
		case nil:
		case *ast.BlockStmt:
			block(x.List, dry)
		case *ast.IfStmt:
			stmt(x.Init, dry)
			d := dry || mentions(x.Cond)
			block(x.Body.List, d)
			if x.Else != nil {
				stmt(x.Else, d)
			}
		case *ast.AssignStmt:
			if x.Tok == token.DEFINE {
				for _, r := range x.Rhs {
					if mentions(r) && len(x.Lhs) == 1 {
						if id, ok := x.Lhs[0].(*ast.Ident); ok {
							aliases[id.Name] = true
						}
					}
				}
			} else if dry {
				for _, l := range x.Lhs {
					if id, ok := l.(*ast.Ident); ok && id.Name == "_" {
						continue
					}
					out = append(out, [2]string{"assign", src(l)})
				}
			}
			for _, r := range x.Rhs {
				lits(r, dry)
			}
		case *ast.IncDecStmt:
			if dry {
				out = append(out, [2]string{"incdec", src(x.X)})
			}
		case *ast.BranchStmt:
			if dry {
				out = append(out, [2]string{"branch", x.Tok.String()})
			}
		case *ast.SendStmt:
			if dry {
				out = append(out, [2]string{"send", src(x.Chan)})
			}
		case *ast.GoStmt:
			if dry {
				out = append(out, [2]string{"go", src(x.Call.Fun)})
			}
			lits(x.Call, dry)
		case *ast.DeferStmt:
			lits(x.Call, dry)
		case *ast.ExprStmt:
			lits(x.X, dry)
		case *ast.ReturnStmt:
			for _, r := range x.Results {
				lits(r, dry)
			}
		case *ast.ForStmt:
			stmt(x.Init, dry)
			stmt(x.Post, dry)
			block(x.Body.List, dry)
		case *ast.RangeStmt:
			block(x.Body.List, dry)
		case *ast.SwitchStmt:
			stmt(x.Init, dry)
			d := dry || (x.Tag != nil && mentions(x.Tag))
			for _, c := range x.Body.List {
				cc := c.(*ast.CaseClause)
				dd := d
				for _, e := range cc.List {
					if mentions(e) {
						dd = true
					}
				}
				block(cc.Body, dd)
			}
		case *ast.TypeSwitchStmt:
			for _, c := range x.Body.List {
				block(c.(*ast.CaseClause).Body, dry)
			}
		case *ast.SelectStmt:
			for _, c := range x.Body.List {
				block(c.(*ast.CommClause).Body, dry)
			}
		case *ast.LabeledStmt:
			stmt(x.Stmt, dry)
		}
	}
	block(body.List, false)
	return out
}
