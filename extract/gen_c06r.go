package main

// C06 round 2 fact generator → Gen/C06Round2.lean.  Dumb syntactic facts about
//   statement.go Statement.clone      — the copy loops (`for k, c := range stmt.Clauses { … }`, Preloads, the
//                                       Settings.Range callback): every statement of each loop body as source text
//                                       and the number of guards (if / switch / continue / break / return / goto) in it
//   callbacks/query.go AfterQuery     — the `if` that restores the FROM clause: its condition, the fields of the
//                                       clause.From literal it stores, the statements of its body
//   callbacks/query.go BuildQuerySQL  — how `fromClause` is initialised and every assignment to `fromClause.Joins`
//   utils/utils.go RTrimSlice         — its body
//   finisher_api.go Count             — every write to the statement's Clauses / Model / Dest / Selects / Distinct, in
//                                       order, tagged "defer:" when it sits in a deferred call

import (
	"fmt"
	"go/ast"
	"strings"
)

func init() {
	extraGens = append(extraGens, func(o *out, pkgs map[string]map[string]*ast.File, all []funcInfo, repo string) {
		genC06Round2(o, pkgs)
	})
}

func c06rGuards(n ast.Node) int {
	cnt := 0
	ast.Inspect(n, func(x ast.Node) bool {
		switch x.(type) {
		case *ast.IfStmt, *ast.SwitchStmt, *ast.TypeSwitchStmt, *ast.BranchStmt, *ast.ReturnStmt, *ast.SelectStmt:
			cnt++
		}
		return true
	})
	return cnt
}

func c06rStmts(b *ast.BlockStmt) []string {
	var out []string
	if b == nil {
		return out
	}
	for _, s := range b.List {
		out = append(out, src(s))
	}
	return out
}

func c06rTriples(ts [][3]string) string {
	q := make([]string, len(ts))
	for i, t := range ts {
		q[i] = "(" + lstr(t[0]) + ", " + lstr(t[1]) + ", " + lstr(t[2]) + ")"
	}
	return "[" + strings.Join(q, ", ") + "]"
}

func genC06Round2(o *out, pkgs map[string]map[string]*ast.File) {
	var b strings.Builder

	// ---- Statement.clone: copy loops
	type loop struct {
		x      string
		body   []string
		guards int
	}
	var loops []loop
	var settings []string
	settingsGuards := 0
	var ifs [][2]string
	if cl := findFunc(pkgs["."], "Statement.clone"); cl != nil {
		for _, st := range cl.Body.List {
			switch s := st.(type) {
			case *ast.RangeStmt:
				loops = append(loops, loop{x: src(s.X), body: c06rStmts(s.Body), guards: c06rGuards(s.Body)})
			case *ast.IfStmt:
				ifs = append(ifs, [2]string{src(s.Cond), strings.Join(c06rStmts(s.Body), " ; ")})
				// a copy loop hidden inside an if
				ast.Inspect(s.Body, func(x ast.Node) bool {
					if r, ok := x.(*ast.RangeStmt); ok {
						loops = append(loops, loop{x: "if " + src(s.Cond) + ": " + src(r.X), body: c06rStmts(r.Body), guards: c06rGuards(r.Body) + 1})
					}
					return true
				})
			case *ast.ExprStmt:
				if c, ok := s.X.(*ast.CallExpr); ok && strings.HasSuffix(src(c.Fun), ".Settings.Range") && len(c.Args) == 1 {
					if fl, ok := c.Args[0].(*ast.FuncLit); ok {
						settings = c06rStmts(fl.Body)
						// the callback's own `return true` is its last statement: count the guards before it
						for i, x := range fl.Body.List {
							if i == len(fl.Body.List)-1 {
								if r, ok := x.(*ast.ReturnStmt); ok && len(r.Results) == 1 && src(r.Results[0]) == "true" {
									continue
								}
							}
							settingsGuards += c06rGuards(x)
						}
					}
				}
			}
		}
	}
	var lp []string
	for _, l := range loops {
		lp = append(lp, fmt.Sprintf("(%s, %s, %d)", lstr(l.x), lstrs(l.body), l.guards))
	}
	fmt.Fprintf(&b, "/-- statement.go `Statement.clone`: every `for … range X` loop: (X, the statements of its body as source text, number of\n    if / switch / continue / break / return nodes inside the body) -/\ndef cloneRangeLoops : List (String × List String × Nat) := [%s]\n\n", strings.Join(lp, ", "))
	fmt.Fprintf(&b, "/-- … the body of the callback passed to `stmt.Settings.Range` and the guards in front of its final `return true` -/\ndef cloneSettingsRange : List String := %s\ndef cloneSettingsGuards : Nat := %d\n\n", lstrs(settings), settingsGuards)
	fmt.Fprintf(&b, "/-- … every top-level `if` of clone: (condition, body) -/\ndef cloneIfs : List (String × String) := %s\n\n", pairs(ifs))

	// ---- AfterQuery: FROM restore
	guard, store := "", []string{}
	var lit [][2]string
	if aq := findFunc(pkgs["callbacks"], "AfterQuery"); aq != nil {
		for _, st := range aq.Body.List {
			s, ok := st.(*ast.IfStmt)
			if !ok || !strings.Contains(src(s), "clause.From") {
				continue
			}
			guard = strings.TrimSpace(src(s.Init) + " ; " + src(s.Cond))
			store = c06rStmts(s.Body)
			lit, _ = literalFields(s.Body, "clause.From")
			break
		}
	}
	fmt.Fprintf(&b, "/-- callbacks/query.go `AfterQuery`: the `if` restoring the FROM clause — init ; condition -/\ndef afterQueryFromGuard : String := %s\n", lstr(guard))
	fmt.Fprintf(&b, "/-- … the statements of its body -/\ndef afterQueryFromStore : List String := %s\n", lstrs(store))
	fmt.Fprintf(&b, "/-- … the fields of the `clause.From{…}` literal it stores -/\ndef afterQueryFromLiteral : List (String × String) := %s\n\n", pairs(lit))

	// ---- BuildQuerySQL: fromClause
	var init []string
	appends, other := 0, 0
	var appendLoops []string
	if bq := findFunc(pkgs["callbacks"], "BuildQuerySQL"); bq != nil {
		var stack []ast.Node
		ast.Inspect(bq.Body, func(x ast.Node) bool {
			if x == nil {
				stack = stack[:len(stack)-1]
				return true
			}
			stack = append(stack, x)
			switch s := x.(type) {
			case *ast.AssignStmt:
				for i, l := range s.Lhs {
					switch src(l) {
					case "fromClause":
						init = append(init, src(s))
					case "fromClause.Joins":
						if i < len(s.Rhs) && strings.HasPrefix(src(s.Rhs[i]), "append(fromClause.Joins,") {
							appends++
							// the innermost enclosing range loop over Statement.Joins
							enc := ""
							for j := len(stack) - 1; j >= 0; j-- {
								if r, ok := stack[j].(*ast.RangeStmt); ok {
									enc = src(r.X)
									if enc == "db.Statement.Joins" {
										break
									}
								}
							}
							appendLoops = append(appendLoops, enc)
						} else {
							other++
						}
					}
				}
			}
			return true
		})
	}
	fmt.Fprintf(&b, "/-- callbacks/query.go `BuildQuerySQL`: assignments to the variable `fromClause` -/\ndef buildFromInit : List String := %s\n", lstrs(init))
	fmt.Fprintf(&b, "/-- … `fromClause.Joins = append(fromClause.Joins, …)` assignments, the range loop each sits in, and OTHER assignments to fromClause.Joins -/\ndef buildFromJoinAppends : Nat := %d\ndef buildFromJoinAppendLoops : List String := %s\ndef buildFromJoinOther : Nat := %d\n\n", appends, lstrs(appendLoops), other)

	rt := ""
	if f := findFunc(pkgs["utils"], "RTrimSlice"); f != nil {
		rt = src(f.Body)
	}
	fmt.Fprintf(&b, "/-- utils/utils.go `RTrimSlice` body -/\ndef rtrimSliceSrc : String := %s\n\n", lstr(rt))

	// ---- Count: writes to the statement
	var writes [][3]string
	if cf := findFunc(pkgs["."], "DB.Count"); cf != nil {
		var walk func(n ast.Node, tag string)
		walk = func(n ast.Node, tag string) {
			ast.Inspect(n, func(x ast.Node) bool {
				switch s := x.(type) {
				case *ast.DeferStmt:
					if fl, ok := s.Call.Fun.(*ast.FuncLit); ok {
						walk(fl.Body, "defer")
					} else if src(s.Call.Fun) == "delete" && len(s.Call.Args) == 2 {
						writes = append(writes, [3]string{"defer", src(s.Call.Args[0]) + "[" + src(s.Call.Args[1]) + "]", "delete"})
					}
					return false
				case *ast.AssignStmt:
					for i, l := range s.Lhs {
						t := src(l)
						if strings.HasPrefix(t, "tx.Statement.") || strings.HasPrefix(t, "db.Statement.") {
							r := ""
							if i < len(s.Rhs) {
								r = src(s.Rhs[i])
							}
							writes = append(writes, [3]string{tag, t, r})
						}
					}
				case *ast.CallExpr:
					if src(s.Fun) == "delete" && len(s.Args) == 2 {
						writes = append(writes, [3]string{tag, src(s.Args[0]) + "[" + src(s.Args[1]) + "]", "delete"})
					}
					if strings.HasSuffix(src(s.Fun), ".Statement.AddClause") && len(s.Args) == 1 {
						a := src(s.Args[0])
						if i := strings.Index(a, "{"); i > 0 {
							a = a[:i]
						}
						writes = append(writes, [3]string{tag, "AddClause", a})
					}
				}
				return true
			})
		}
		walk(cf.Body, "now")
	}
	fmt.Fprintf(&b, "/-- finisher_api.go `Count`: every write to the statement in source order: (\"now\" | \"defer\", target, value) -/\ndef countStmtWrites : List (String × String × String) := %s\n", c06rTriples(writes))
	o.write("C06Round2", b.String())
}
