package main

// C16 (round 2) fact generator → Gen/UpsertFacts.lean
//
//   clause/on_conflict.go   the fields of `type OnConflict struct`; the fields `OnConflict.Build` reads
//   callbacks/create.go     ConvertToCreateValues, block `if onConflict, _ := …; onConflict.UpdateAll {…}`: which
//                           fields of the local `onConflict` the block assigns, and what it hands back to
//                           `stmt.AddClause(…)` (the variable itself, or a literal — then which fields the literal
//                           carries over as `F: onConflict.F`)
//   finisher_api.go         DB.Save: which Statement fields the definition of `selectedUpdate` reads, and which
//                           conditions guard the appended "*" and the upsert fallback

import (
	"go/ast"
	"sort"
	"strings"
)

func init() {
	extraGens = append(extraGens, func(o *out, pkgs map[string]map[string]*ast.File, all []funcInfo, repo string) {
		genUpsertFacts(o, pkgs)
	})
}

func c16uniq(in []string) []string {
	sort.Strings(in)
	out := []string{}
	for i, s := range in {
		if i == 0 || s != in[i-1] {
			out = append(out, s)
		}
	}
	return out
}

func c16FindFunc(files map[string]*ast.File, recv, name string) *ast.FuncDecl {
	for _, f := range files {
		for _, d := range f.Decls {
			fd, ok := d.(*ast.FuncDecl)
			if !ok || fd.Name.Name != name || fd.Body == nil {
				continue
			}
			r := ""
			if fd.Recv != nil && len(fd.Recv.List) == 1 {
				r = strings.TrimPrefix(src(fd.Recv.List[0].Type), "*")
			}
			if r == recv {
				return fd
			}
		}
	}
	return nil
}

func genUpsertFacts(o *out, pkgs map[string]map[string]*ast.File) {
	// ---- clause.OnConflict: fields, and what Build reads
	var ocFields []string
	for _, f := range pkgs["clause"] {
		ast.Inspect(f, func(n ast.Node) bool {
			ts, ok := n.(*ast.TypeSpec)
			if !ok || ts.Name.Name != "OnConflict" {
				return true
			}
			if st, ok := ts.Type.(*ast.StructType); ok {
				for _, fl := range st.Fields.List {
					for _, nm := range fl.Names {
						ocFields = append(ocFields, nm.Name)
					}
				}
			}
			return false
		})
	}
	var buildReads []string
	if fd := c16FindFunc(pkgs["clause"], "OnConflict", "Build"); fd != nil && fd.Recv != nil && len(fd.Recv.List[0].Names) == 1 {
		rv := fd.Recv.List[0].Names[0].Name
		ast.Inspect(fd.Body, func(n ast.Node) bool {
			if se, ok := n.(*ast.SelectorExpr); ok {
				if id, ok := se.X.(*ast.Ident); ok && id.Name == rv {
					buildReads = append(buildReads, se.Sel.Name)
				}
			}
			return true
		})
	}
	buildReads = c16uniq(buildReads)

	// ---- the UpdateAll block of ConvertToCreateValues
	blockFound := false
	var assigns, reAddFields []string
	reAddWhole := false
	reAdds := 0
	if fd := c16FindFunc(pkgs["callbacks"], "", "ConvertToCreateValues"); fd != nil {
		ast.Inspect(fd.Body, func(n ast.Node) bool {
			is, ok := n.(*ast.IfStmt)
			if !ok || is.Init == nil || !strings.HasSuffix(src(is.Cond), ".UpdateAll") {
				return true
			}
			as, ok := is.Init.(*ast.AssignStmt)
			if !ok || len(as.Lhs) == 0 {
				return true
			}
			v, ok := as.Lhs[0].(*ast.Ident)
			if !ok || src(is.Cond) != v.Name+".UpdateAll" {
				return true
			}
			blockFound = true
			ast.Inspect(is.Body, func(m ast.Node) bool {
				switch x := m.(type) {
				case *ast.AssignStmt:
					for _, l := range x.Lhs {
						if se, ok := l.(*ast.SelectorExpr); ok {
							if id, ok := se.X.(*ast.Ident); ok && id.Name == v.Name {
								assigns = append(assigns, se.Sel.Name)
							}
						}
						if id, ok := l.(*ast.Ident); ok && id.Name == v.Name {
							assigns = append(assigns, "*") // the whole variable is overwritten
						}
					}
				case *ast.CallExpr:
					if se, ok := x.Fun.(*ast.SelectorExpr); ok && se.Sel.Name == "AddClause" && len(x.Args) == 1 {
						reAdds++
						switch a := x.Args[0].(type) {
						case *ast.Ident:
							if a.Name == v.Name {
								reAddWhole = true
							}
						case *ast.CompositeLit:
							if strings.HasSuffix(src(a.Type), "OnConflict") {
								for _, el := range a.Elts {
									if kv, ok := el.(*ast.KeyValueExpr); ok {
										if k, ok := kv.Key.(*ast.Ident); ok && src(kv.Value) == v.Name+"."+k.Name {
											reAddFields = append(reAddFields, k.Name)
										}
									}
								}
							}
						}
					}
				}
				return true
			})
			return false
		})
	}
	assigns = c16uniq(assigns)
	reAddFields = c16uniq(reAddFields)
	if reAdds != 1 {
		// not the shape this generator understands: claim nothing
		reAddWhole = false
		reAddFields = []string{}
	}

	// ---- DB.Save: selectedUpdate
	var selReads []string
	selDef, starGuard, fallbackGuard := "unknown", "unknown", "unknown"
	if fd := c16FindFunc(pkgs["."], "DB", "Save"); fd != nil {
		ast.Inspect(fd.Body, func(n ast.Node) bool {
			switch x := n.(type) {
			case *ast.AssignStmt:
				if len(x.Lhs) == 1 && len(x.Rhs) == 1 {
					if id, ok := x.Lhs[0].(*ast.Ident); ok && id.Name == "selectedUpdate" {
						selDef = src(x.Rhs[0])
						ast.Inspect(x.Rhs[0], func(m ast.Node) bool {
							if se, ok := m.(*ast.SelectorExpr); ok && strings.HasSuffix(src(se.X), ".Statement") {
								selReads = append(selReads, se.Sel.Name)
							}
							return true
						})
					}
				}
			case *ast.IfStmt:
				body := src(x.Body)
				if strings.Contains(body, `append(tx.Statement.Selects, "*")`) && starGuard == "unknown" {
					starGuard = src(x.Cond)
				}
				if strings.Contains(body, "UpdateAll: true") && strings.Contains(body, "Create(value)") && strings.Contains(src(x.Cond), "RowsAffected") {
					fallbackGuard = src(x.Cond)
				}
			}
			return true
		})
	}
	selReads = c16uniq(selReads)

	var b strings.Builder
	b.WriteString("/-- clause/on_conflict.go: the fields of `type OnConflict struct` -/\n")
	b.WriteString("def ocFields : List String := " + lstrs(ocFields) + "\n\n")
	b.WriteString("/-- clause/on_conflict.go: the fields `OnConflict.Build` reads -/\n")
	b.WriteString("def ocBuildReads : List String := " + lstrs(buildReads) + "\n\n")
	b.WriteString("/-- callbacks/create.go ConvertToCreateValues: the `if onConflict, _ := …; onConflict.UpdateAll` block exists -/\n")
	b.WriteString("def ocExpandFound : Bool := " + lbool(blockFound) + "\n\n")
	b.WriteString("/-- … the fields of the local `onConflict` it assigns (\"*\" = the whole variable) -/\n")
	b.WriteString("def ocExpandAssigns : List String := " + lstrs(assigns) + "\n\n")
	b.WriteString("/-- … it hands the variable itself back to `stmt.AddClause` (exactly one AddClause call in the block) -/\n")
	b.WriteString("def ocExpandReAddsWhole : Bool := " + lbool(reAddWhole) + "\n\n")
	b.WriteString("/-- … or a `clause.OnConflict{…}` literal: the fields it carries over as `F: onConflict.F` -/\n")
	b.WriteString("def ocExpandReAddFields : List String := " + lstrs(reAddFields) + "\n\n")
	b.WriteString("/-- finisher_api.go DB.Save: the Statement fields read by the definition of `selectedUpdate` -/\n")
	b.WriteString("def saveSelectedReads : List String := " + lstrs(selReads) + "\n\n")
	b.WriteString("def saveSelectedDef : String := " + lstr(selDef) + "\n\n")
	b.WriteString("/-- … the condition under which \"*\" is appended to Statement.Selects -/\n")
	b.WriteString("def saveStarGuard : String := " + lstr(starGuard) + "\n\n")
	b.WriteString("/-- … the condition of the `Clauses(OnConflict{UpdateAll: true}).Create(value)` fallback -/\n")
	b.WriteString("def saveFallbackGuard : String := " + lstr(fallbackGuard) + "\n")
	o.write("UpsertFacts", b.String())
	o.facts["ocExpandAssigns"] = assigns
	o.facts["ocExpandReAddsWhole"] = reAddWhole
	o.facts["saveSelectedReads"] = selReads
}
