package main

// C03 fact generator: two syntactic facts about the LastInsertId back-fill of callbacks/create.go `Create` that tell whether
// the repairs of the findings F25-C03-lastinsertid-into-generated-key and F26-C03-maps-preset-keys-overwritten are present in
// the tree that is being verified.
//
//	backfillCreateFound     : callbacks has a function Create whose body calls `.LastInsertId()`
//	backfillGuardsKeyKind   : after that call there is an `if` (no else) whose init/condition reads `.AutoIncrement` or
//	                          `.GORMDataType` (of the prioritized primary field) and whose body returns: the insert id is
//	                          handed out only to a key it can stand for (an auto-increment / integer key)
//	backfillMapsLoopFound   : the `case []map[string]interface{}, *[]map[string]interface{}` clause of the back-fill switch
//	                          contains a `range` loop with an assignment `m[…] = insertID`
//	backfillMapsSkipPreset  : that assignment sits under an `if` whose init/condition READS the map (an index expression or a
//	                          call taking the loop variable) — not merely compares it with nil: a map that already carries a
//	                          key is looked at before the insert id is written into it
//
// The facts only select which transcription of the guard / of the map loop the Lean model uses (Model/Scan.lean
// `backfillGuard`, `backfillMaps`); whether the code behaves like the selected transcription is judged by the correspondence
// suites (backfill-loops, create-maps) on every run.

import (
	"go/ast"
	"go/token"
	"strings"
)

func init() {
	extraGens = append(extraGens, func(o *out, pkgs map[string]map[string]*ast.File, all []funcInfo, repo string) {
		genBackfillFacts(o, pkgs["callbacks"])
	})
}

func c03HasSel(n ast.Node, names ...string) bool {
	found := false
	if n == nil {
		return false
	}
	ast.Inspect(n, func(m ast.Node) bool {
		if s, ok := m.(*ast.SelectorExpr); ok {
			for _, nm := range names {
				if s.Sel.Name == nm {
					found = true
				}
			}
		}
		return true
	})
	return found
}

func c03BodyReturns(b *ast.BlockStmt) bool {
	if b == nil {
		return false
	}
	for _, st := range b.List {
		if _, ok := st.(*ast.ReturnStmt); ok {
			return true
		}
	}
	return false
}

// c03ReadsMap: does `n` contain an index expression on, or a call with the argument, identifier `name`?
func c03ReadsMap(n ast.Node, name string) bool {
	found := false
	if n == nil || name == "" {
		return false
	}
	isName := func(e ast.Expr) bool {
		id, ok := e.(*ast.Ident)
		return ok && id.Name == name
	}
	ast.Inspect(n, func(m ast.Node) bool {
		switch x := m.(type) {
		case *ast.IndexExpr:
			if isName(x.X) {
				found = true
			}
		case *ast.CallExpr:
			if id, ok := x.Fun.(*ast.Ident); ok && id.Name == "len" {
				return true
			}
			for _, a := range x.Args {
				if isName(a) {
					found = true
				}
			}
		}
		return true
	})
	return found
}

func genBackfillFacts(o *out, cb map[string]*ast.File) {
	createFound, guardsKind, loopFound, skipPreset := false, false, false, false
	for _, f := range cb {
		for _, d := range f.Decls {
			fd, ok := d.(*ast.FuncDecl)
			if !ok || fd.Recv != nil || fd.Name.Name != "Create" || fd.Body == nil {
				continue
			}
			var lastID token.Pos
			ast.Inspect(fd.Body, func(n ast.Node) bool {
				if call, ok := n.(*ast.CallExpr); ok {
					if s, ok := call.Fun.(*ast.SelectorExpr); ok && s.Sel.Name == "LastInsertId" && lastID == token.NoPos {
						lastID = call.Pos()
					}
				}
				return true
			})
			if lastID == token.NoPos {
				continue
			}
			createFound = true
			ast.Inspect(fd.Body, func(n ast.Node) bool {
				switch x := n.(type) {
				case *ast.IfStmt:
					if x.Pos() > lastID && x.Else == nil && c03BodyReturns(x.Body) &&
						(c03HasSel(x.Init, "AutoIncrement", "GORMDataType") || c03HasSel(x.Cond, "AutoIncrement", "GORMDataType")) {
						guardsKind = true
					}
				case *ast.CaseClause:
					if x.Pos() < lastID {
						return true
					}
					isMaps := false
					for _, e := range x.List {
						if strings.ReplaceAll(src(e), " ", "") == "[]map[string]interface{}" {
							isMaps = true
						}
					}
					if !isMaps {
						return true
					}
					for _, st := range x.Body {
						ast.Inspect(st, func(m ast.Node) bool {
							rs, ok := m.(*ast.RangeStmt)
							if !ok {
								return true
							}
							loopVar := ""
							if id, ok := rs.Value.(*ast.Ident); ok {
								loopVar = id.Name
							}
							c03MapLoop(rs.Body, loopVar, false, &loopFound, &skipPreset)
							return false
						})
					}
				}
				return true
			})
		}
	}
	var b strings.Builder
	b.WriteString("/-- callbacks/create.go has a function Create that calls `.LastInsertId()` (the no-RETURNING key back-fill) -/\n")
	b.WriteString("def backfillCreateFound : Bool := " + lbool(createFound) + "\n\n")
	b.WriteString("/-- … followed by an `if … { return }` that reads `.AutoIncrement` / `.GORMDataType` of the prioritized primary field: the\n    insert id is handed out only to an auto-increment / integer key (repair of F25-C03-lastinsertid-into-generated-key) -/\n")
	b.WriteString("def backfillGuardsKeyKind : Bool := " + lbool(guardsKind) + "\n\n")
	b.WriteString("/-- the slice-of-maps clause of the back-fill switch has a `range` loop assigning `m[…] = insertID` -/\n")
	b.WriteString("def backfillMapsLoopFound : Bool := " + lbool(loopFound) + "\n\n")
	b.WriteString("/-- … and the assignment is guarded by an `if` that READS the map (index expression / call on the loop variable): a map\n    that already carries a key keeps it (repair of F26-C03-maps-preset-keys-overwritten) -/\n")
	b.WriteString("def backfillMapsSkipPreset : Bool := " + lbool(skipPreset) + "\n")
	o.write("BackfillFacts", b.String())
	o.facts["backfillGuardsKeyKind"] = guardsKind
	o.facts["backfillMapsSkipPreset"] = skipPreset
}

// c03MapLoop walks the body of the range loop: `reads` = some enclosing `if` of the current statement reads the map
func c03MapLoop(n ast.Node, loopVar string, reads bool, loopFound, skipPreset *bool) {
	switch x := n.(type) {
	case *ast.BlockStmt:
		for _, st := range x.List {
			c03MapLoop(st, loopVar, reads, loopFound, skipPreset)
		}
	case *ast.IfStmt:
		r := reads || c03ReadsMap(x.Init, loopVar) || c03ReadsMap(x.Cond, loopVar)
		c03MapLoop(x.Body, loopVar, r, loopFound, skipPreset)
		if x.Else != nil {
			c03MapLoop(x.Else, loopVar, reads, loopFound, skipPreset)
		}
	case *ast.AssignStmt:
		if len(x.Lhs) == 1 && len(x.Rhs) == 1 {
			if ix, ok := x.Lhs[0].(*ast.IndexExpr); ok {
				if id, ok := ix.X.(*ast.Ident); ok && id.Name == loopVar && src(x.Rhs[0]) == "insertID" {
					*loopFound = true
					if reads {
						*skipPreset = true
					}
				}
			}
		}
	}
}
