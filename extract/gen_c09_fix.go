package main

// C09 fact generator (repair of F26-C09-empty-where-entry): does callbacks/helper.go checkMissingWhereConditions look at
// the NUMBER of expressions of the WHERE entry also when the soft_delete_enabled marker is absent?
//
//	guardFnFound            : callbacks has a function checkMissingWhereConditions
//	guardSoftBranchFound    : it contains an `if` whose init/condition mentions "soft_delete_enabled" and whose THEN branch
//	                          compares `len(….Exprs)` with 1 (the soft-delete rule: more than the filter is required)
//	guardRejectsEmptyWhere  : it compares `len(….Exprs)` with zero (`> 0`, `!= 0`, `== 0`, `>= 1`, `< 1`, either operand
//	                          order) somewhere OUTSIDE that THEN branch (its else-branch counts as outside): an entry that
//	                          holds no expression is treated as a missing condition
//
// The fact only selects which transcription of the guard the Lean model uses (Model/Where.lean `missingWhere`); whether the
// code behaves like the selected transcription is judged by the correspondence suites (guard, reuse) on every run.

import (
	"go/ast"
	"go/token"
	"strings"
)

func init() {
	extraGens = append(extraGens, func(o *out, pkgs map[string]map[string]*ast.File, all []funcInfo, repo string) {
		genGuardWhereFacts(o, pkgs["callbacks"])
	})
}

// c09LenExprsCmp: is `e` a comparison of `len(<x>.Exprs)` with the integer literal `lit` using one of `ops`
// (`flipped` = the operators to accept when the literal is the LEFT operand)?
func c09LenExprsCmp(e ast.Expr, lit string, ops, flipped []token.Token) bool {
	be, ok := e.(*ast.BinaryExpr)
	if !ok {
		return false
	}
	isLen := func(x ast.Expr) bool {
		call, ok := x.(*ast.CallExpr)
		if !ok || len(call.Args) != 1 {
			return false
		}
		if id, ok := call.Fun.(*ast.Ident); !ok || id.Name != "len" {
			return false
		}
		sel, ok := call.Args[0].(*ast.SelectorExpr)
		return ok && sel.Sel.Name == "Exprs"
	}
	isLit := func(x ast.Expr) bool {
		bl, ok := x.(*ast.BasicLit)
		return ok && bl.Kind == token.INT && bl.Value == lit
	}
	has := func(ts []token.Token, t token.Token) bool {
		for _, x := range ts {
			if x == t {
				return true
			}
		}
		return false
	}
	return isLen(be.X) && isLit(be.Y) && has(ops, be.Op) || isLit(be.X) && isLen(be.Y) && has(flipped, be.Op)
}

func c09CmpZero(e ast.Expr) bool {
	return c09LenExprsCmp(e, "0", []token.Token{token.GTR, token.NEQ, token.EQL, token.LEQ}, []token.Token{token.LSS, token.NEQ, token.EQL, token.GEQ}) ||
		c09LenExprsCmp(e, "1", []token.Token{token.GEQ, token.LSS}, []token.Token{token.LEQ, token.GTR})
}

func c09CmpOne(e ast.Expr) bool {
	return c09LenExprsCmp(e, "1", []token.Token{token.GTR, token.LEQ}, []token.Token{token.LSS, token.GEQ}) ||
		c09LenExprsCmp(e, "2", []token.Token{token.GEQ, token.LSS}, []token.Token{token.LEQ, token.GTR})
}

func c09Any(n ast.Node, skip ast.Node, pred func(ast.Expr) bool) bool {
	found := false
	ast.Inspect(n, func(m ast.Node) bool {
		if m == nil || m == skip {
			return false
		}
		if e, ok := m.(ast.Expr); ok && pred(e) {
			found = true
		}
		return true
	})
	return found
}

func genGuardWhereFacts(o *out, cb map[string]*ast.File) {
	fnFound, softFound, rejectsEmpty := false, false, false
	for _, f := range cb {
		for _, d := range f.Decls {
			fd, ok := d.(*ast.FuncDecl)
			if !ok || fd.Recv != nil || fd.Name.Name != "checkMissingWhereConditions" || fd.Body == nil {
				continue
			}
			fnFound = true
			// the `if` of the soft-delete marker
			var softThen *ast.BlockStmt
			ast.Inspect(fd.Body, func(n ast.Node) bool {
				is, ok := n.(*ast.IfStmt)
				if !ok || softThen != nil {
					return true
				}
				if strings.Contains(src(is.Init), `"soft_delete_enabled"`) || strings.Contains(src(is.Cond), `"soft_delete_enabled"`) {
					softThen = is.Body
				}
				return true
			})
			if softThen != nil && c09Any(softThen, nil, c09CmpOne) {
				softFound = true
			}
			var skip ast.Node
			if softThen != nil {
				skip = softThen
			}
			rejectsEmpty = c09Any(fd.Body, skip, c09CmpZero)
		}
	}
	var b strings.Builder
	b.WriteString("/-- callbacks/helper.go has a function checkMissingWhereConditions -/\n")
	b.WriteString("def guardFnFound : Bool := " + lbool(fnFound) + "\n\n")
	b.WriteString("/-- … with an `if` on the \"soft_delete_enabled\" marker whose THEN branch compares `len(….Exprs)` with 1 -/\n")
	b.WriteString("def guardSoftBranchFound : Bool := " + lbool(softFound) + "\n\n")
	b.WriteString("/-- … and, outside that THEN branch, a comparison of `len(….Exprs)` with zero: a WHERE entry that holds no expression\n    counts as a missing condition (repair of F26-C09-empty-where-entry) -/\n")
	b.WriteString("def guardRejectsEmptyWhere : Bool := " + lbool(rejectsEmpty) + "\n")
	o.write("GuardWhereFacts", b.String())
	o.facts["guardRejectsEmptyWhere"] = rejectsEmpty
}
