package main

// C05 (round 4) fact generator: WHERE a write runs – the wrapping decisions around the batches of CreateInBatches.
//
// Gen/EnclFacts.lean
//
//	createInBatchesSrc / createFinisherSrc / transactionSrc
//	                   bodies of finisher_api.go DB.CreateInBatches, DB.Create, DB.Transaction (normalised text), for the
//	                   transcription in Model/Stages.lean (Stg.createInBatches / Stg.transaction)
//	cibWrapDecision    every `if` of DB.CreateInBatches one of whose branches hands `callFc` on:
//	                     (condition, calls mentioning callFc in the then-branch, … in the else-branch)
//	                   = which conditions skip the Transaction wrapper
//	cibBatchCalls      the calls made inside the `callFc` closure, with receiver: (call, dominating conditions)
//	createDelegation   DB.Create: (condition, call) of every call to CreateInBatches
//	txBlockCalls       DB.Transaction: SavePoint / RollbackTo / Begin / Commit / Rollback / fc(…) calls with the
//	                   conditions that dominate them and whether they sit inside a (deferred) closure

import (
	"fmt"
	"go/ast"
	"strings"
)

func init() {
	extraGens = append(extraGens, func(o *out, pkgs map[string]map[string]*ast.File, all []funcInfo, repo string) {
		genEnclFacts(o, all)
	})
}

func mentionsIdent(n ast.Node, name string) bool {
	found := false
	ast.Inspect(n, func(x ast.Node) bool {
		if id, ok := x.(*ast.Ident); ok && id.Name == name {
			found = true
		}
		return !found
	})
	return found
}

// callsMentioning: outermost call expressions under n that mention identifier name
func callsMentioning(n ast.Node, name string) []string {
	out := []string{}
	if n == nil {
		return out
	}
	ast.Inspect(n, func(x ast.Node) bool {
		if c, ok := x.(*ast.CallExpr); ok && mentionsIdent(c, name) {
			// skip wrappers like tx.AddError(<call>): descend to the innermost call that still mentions the name
			inner := false
			for _, a := range c.Args {
				if ic, ok := a.(*ast.CallExpr); ok && mentionsIdent(ic, name) {
					inner = true
				}
			}
			if !inner {
				out = append(out, src(c))
				return false
			}
		}
		return true
	})
	return out
}

func genEnclFacts(o *out, all []funcInfo) {
	var b strings.Builder
	find := func(name string) *funcInfo {
		for i := range all {
			if all[i].file == "finisher_api.go" && all[i].name == name {
				return &all[i]
			}
		}
		return nil
	}
	body := func(name string) string {
		if fi := find(name); fi != nil {
			return src(fi.decl.Body)
		}
		return "MISSING"
	}
	fmt.Fprintf(&b, "def createInBatchesSrc : String := %s\n\n", lstr(body("DB.CreateInBatches")))
	fmt.Fprintf(&b, "def createFinisherSrc : String := %s\n\n", lstr(body("DB.Create")))
	fmt.Fprintf(&b, "def transactionSrc : String := %s\n\n", lstr(body("DB.Transaction")))

	var wrap, batch, deleg, txc []string
	if fi := find("DB.CreateInBatches"); fi != nil {
		ast.Inspect(fi.decl.Body, func(n ast.Node) bool {
			if is, ok := n.(*ast.IfStmt); ok {
				th := callsMentioning(is.Body, "callFc")
				var el []string
				if is.Else != nil {
					el = callsMentioning(is.Else, "callFc")
				}
				// only the innermost deciding `if` (its own branches hold the calls directly)
				direct := func(blk ast.Node) bool {
					d := false
					if blk == nil {
						return false
					}
					ast.Inspect(blk, func(x ast.Node) bool {
						if x == blk {
							return true
						}
						if _, ok := x.(*ast.IfStmt); ok && x != is.Else {
							return false
						}
						if _, ok := x.(*ast.FuncLit); ok {
							return false
						}
						if c, ok := x.(*ast.CallExpr); ok && mentionsIdent(c, "callFc") {
							d = true
						}
						return true
					})
					return d
				}
				if direct(is.Body) || (is.Else != nil && direct(is.Else)) {
					if el == nil {
						el = []string{}
					}
					wrap = append(wrap, fmt.Sprintf("(%s, %s, %s)", lstr(src(is.Cond)), lstrs(th), lstrs(el)))
				}
			}
			return true
		})
		walkFunc(*fi, func(c *ast.CallExpr, known []string, inLit int) {
			if inLit == 0 {
				return
			}
			if _, ok := c.Fun.(*ast.SelectorExpr); !ok {
				return
			}
			s := src(c)
			if strings.Contains(s, "getInstance") || strings.Contains(s, "Execute") || strings.Contains(s, "Slice(") {
				batch = append(batch, fmt.Sprintf("(%s, %s)", lstr(s), lstrs(known)))
			}
		})
	}
	if fi := find("DB.Create"); fi != nil {
		walkFunc(*fi, func(c *ast.CallExpr, known []string, inLit int) {
			if sel, ok := c.Fun.(*ast.SelectorExpr); ok && sel.Sel.Name == "CreateInBatches" {
				deleg = append(deleg, fmt.Sprintf("(%s, %s)", lstrs(known), lstr(src(c))))
			}
		})
	}
	if fi := find("DB.Transaction"); fi != nil {
		walkFunc(*fi, func(c *ast.CallExpr, known []string, inLit int) {
			name := ""
			switch f := c.Fun.(type) {
			case *ast.SelectorExpr:
				name = f.Sel.Name
			case *ast.Ident:
				name = f.Name
			}
			switch name {
			case "SavePoint", "RollbackTo", "Begin", "Commit", "Rollback", "fc":
				what := name
				if f, ok := c.Fun.(*ast.SelectorExpr); ok {
					what = src(f.X) + "." + name
				}
				txc = append(txc, fmt.Sprintf("(%s, %s, %s)", lstr(what), lstrs(known), lbool(inLit > 0)))
			}
		})
	}
	b.WriteString("/-- DB.CreateInBatches: the `if` that decides whether the batches get the Transaction wrapper:\n    condition, calls handing callFc on in the then-branch, in the else-branch -/\ndef cibWrapDecision : List (String × List String × List String) := [\n  " + strings.Join(wrap, ",\n  ") + "\n]\n\n")
	b.WriteString("/-- DB.CreateInBatches, inside the callFc closure: handle derivation / slicing / pipeline execution calls with their dominating conditions -/\ndef cibBatchCalls : List (String × List String) := [\n  " + strings.Join(batch, ",\n  ") + "\n]\n\n")
	b.WriteString("/-- DB.Create: calls of CreateInBatches with their dominating conditions -/\ndef createDelegation : List (List String × String) := [\n  " + strings.Join(deleg, ",\n  ") + "\n]\n\n")
	b.WriteString("/-- DB.Transaction: transaction-control calls and the block call: (call, dominating conditions, inside a closure) -/\ndef txBlockCalls : List (String × List String × Bool) := [\n  " + strings.Join(txc, ",\n  ") + "\n]\n")
	o.write("EnclFacts", b.String())
}
