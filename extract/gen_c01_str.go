package main

// C01 fact generator (registers itself; writes Gen/BindStr.lean): TEXT TESTS.
//
// Where does gorm decide by LOOKING AT THE TEXT of a string argument what the string is (a value to bind / a
// column or relation name to quote / an SQL template to write)?  Every branch condition (if / else-if condition,
// including the init statement; switch tag; case expression; for condition) in the packages that take caller strings
// (package gorm itself, callbacks, clause) that calls a function of `strconv`, `strings`, `regexp`, `unicode`, `utf8`
// or a method `.MatchString` / `.FindStringSubmatch`…:  (function, file, called text functions, the printed condition).
//
// The model `Gorm.Bind.buildCond` (Model/BindStr.lean) transcribes ONE of them completely - the string arm of
// Statement.BuildCondition, whose first test is `_, err := strconv.Atoi(s); err != nil` - and Props/C01 pins the
// whole table: replacing the parse function (ParseUint, ParseInt with another base, ParseFloat…), trimming before
// the test, or a changed `strings.Contains(s, "?")`/`strings.Count(v, "?") >= len(args)` dispatch changes the table.

import (
	"go/ast"
	"sort"
	"strings"
)

func init() {
	extraGens = append(extraGens, func(o *out, pkgs map[string]map[string]*ast.File, all []funcInfo, repo string) {
		genBindStr(o, pkgs)
	})
}

var c01TextPkgs = map[string]bool{"strconv": true, "strings": true, "regexp": true, "unicode": true, "utf8": true}
var c01TextMethods = map[string]bool{"MatchString": true, "FindStringSubmatch": true, "FindAllStringSubmatch": true, "FindStringIndex": true, "Match": true}

// c01TextCalls: the text-inspecting calls inside n, in source order (e.g. "strconv.Atoi", "strings.Contains", "regexp.MatchString")
func c01TextCalls(n ast.Node) []string {
	var r []string
	if n == nil {
		return r
	}
	ast.Inspect(n, func(x ast.Node) bool {
		if _, ok := x.(*ast.FuncLit); ok {
			return false
		}
		c, ok := x.(*ast.CallExpr)
		if !ok {
			return true
		}
		if sel, ok := c.Fun.(*ast.SelectorExpr); ok {
			if id, ok := sel.X.(*ast.Ident); ok && c01TextPkgs[id.Name] {
				r = append(r, id.Name+"."+sel.Sel.Name)
			} else if c01TextMethods[sel.Sel.Name] {
				r = append(r, "regexp."+sel.Sel.Name)
			}
		}
		return true
	})
	return r
}

type c01TextTest struct {
	fn, file, kind, cond string
	calls                []string
}

func genBindStr(o *out, pkgs map[string]map[string]*ast.File) {
	var tests []c01TextTest
	for _, rel := range []string{".", "callbacks", "clause"} {
		for _, fi := range funcsOf(pkgs[rel]) {
			if fi.decl.Body == nil || strings.HasSuffix(fi.file, "_test.go") {
				continue
			}
			add := func(kind string, init ast.Stmt, cond ast.Node) {
				var calls []string
				text := ""
				if init != nil {
					calls = append(calls, c01TextCalls(init)...)
					text = src(init) + "; "
				}
				calls = append(calls, c01TextCalls(cond)...)
				if len(calls) == 0 {
					return
				}
				tests = append(tests, c01TextTest{fn: fi.name, file: fi.file, kind: kind, cond: text + src(cond), calls: calls})
			}
			ast.Inspect(fi.decl.Body, func(x ast.Node) bool {
				switch s := x.(type) {
				case *ast.IfStmt:
					add("if", s.Init, s.Cond)
				case *ast.SwitchStmt:
					if s.Tag != nil {
						add("switch", s.Init, s.Tag)
					}
				case *ast.CaseClause:
					for _, e := range s.List {
						add("case", nil, e)
					}
				case *ast.ForStmt:
					if s.Cond != nil {
						add("for", nil, s.Cond)
					}
				}
				return true
			})
		}
	}
	sort.SliceStable(tests, func(i, j int) bool {
		if tests[i].file != tests[j].file {
			return tests[i].file < tests[j].file
		}
		return false // source order inside a file (funcsOf is sorted by file, Inspect is in source order)
	})
	var b strings.Builder
	b.WriteString("/-- a branch condition that inspects the TEXT of a string (`kind`: if | switch | case | for; `cond`: the printed condition,\n    `init; cond` for an if with an init statement; `calls`: the strconv / strings / regexp / unicode functions it calls, in source order) -/\n")
	b.WriteString("structure TextTest where\n  fn : String\n  file : String\n  kind : String\n  calls : List String\n  cond : String\nderiving Repr, DecidableEq\n\n")
	b.WriteString("def textTests : List TextTest := [\n")
	for i, t := range tests {
		cs := make([]string, len(t.calls))
		for k, c := range t.calls {
			cs[k] = lstr(c)
		}
		b.WriteString("  { fn := " + lstr(t.fn) + ", file := " + lstr(t.file) + ", kind := " + lstr(t.kind) + ", calls := [" + strings.Join(cs, ", ") + "], cond := " + lstr(t.cond) + " }")
		if i+1 < len(tests) {
			b.WriteString(",")
		}
		b.WriteString("\n")
	}
	b.WriteString("]\n")
	o.write("BindStr", b.String())
	o.facts["c01_text_tests"] = len(tests)
}
