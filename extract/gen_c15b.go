package main

// C15 (round 3) fact generator: the HOLDER DISCIPLINE of scan.go (*DB).scanIntoStruct → Gen/ScanPoolFacts.lean.
//
// scanIntoStruct borrows one scan holder per column from field.NewValuePool (a process-wide sync.Pool shared by every
// field of the same Go type) for every row:  range fields { Get }  →  rows.Scan(values...)  →  range fields { Set; Put }.
// "All read paths report the same rows and values" with several goroutines reading at once rests on that order.
// This generator regenerates the statement order as data; Model/ScanPool.lean interprets it (`rowsRun`), the theorems
// of Lemmas/ScanPool.lean hold for every `disciplined` order and Props/C15.lean demands that the regenerated order is
// disciplined — hoisting the Get out of the per-row path, deferring / moving the Put, or touching the pool somewhere
// else breaks an obligation.
//
//	scanIntoStructOrder : List (Nat × List (Nat × Nat × Bool))
//	    top-level statements of the function body in source order that matter:
//	      (0, body)  `for … := range fields { … }` with the pool statements of its body in source order
//	      (1, [])    a statement calling `rows.Scan(…)`
//	    body entries (kind, guard, deferred):
//	      kind  0 = `values[…] = <pool>.Get()`   1 = `<pool>.Put(…)`   2 = any other READ of `values[…]`
//	            (field.Set(ctx, v, values[idx]), reflect.ValueOf(values[idx]) …; consecutive reads are merged)
//	      guard 0 = only the `field != nil` / `field == nil → continue` test both loops share
//	            1 = additionally `values[idx] == nil`        2 = any other enclosing condition / inner loop / closure
//	      deferred = the call is a `defer` (or sits in a deferred closure)
//	poolCallsOutsideFieldLoops : Nat   Get/Put calls on a value pool in package gorm and gorm/callbacks that are NOT
//	                                   inside a `range fields` loop of scanIntoStruct
//	scanIntoStructCallSites / scanIntoStructValuesLocal : the callers in gorm.Scan pass the `values` slice that Scan
//	                                   allocates per call (`values = make([]interface{}, len(columns))`, a local)
//	poolNewSites / poolNewFresh      : every `sync.Pool{New: func…}` literal of package schema returns a fresh
//	                                   allocation (reflect.New(…) / &T{…} / new(T)), never a captured object

import (
	"fmt"
	"go/ast"
	"go/token"
	"regexp"
	"sort"
	"strings"
)

func init() {
	extraGens = append(extraGens, func(o *out, pkgs map[string]map[string]*ast.File, all []funcInfo, repo string) {
		genScanPoolFacts(o, pkgs)
	})
}

var c15bPoolRe = regexp.MustCompile(`(?i)pool`)

// pool call: <recv>.Get() / <recv>.Put(x) where the receiver's source mentions a pool
func c15bPoolCall(n ast.Node) (kind int, ok bool) {
	call, isCall := n.(*ast.CallExpr)
	if !isCall {
		return 0, false
	}
	sel, isSel := call.Fun.(*ast.SelectorExpr)
	if !isSel || !c15bPoolRe.MatchString(src(sel.X)) {
		return 0, false
	}
	switch {
	case sel.Sel.Name == "Get" && len(call.Args) == 0:
		return 0, true
	case sel.Sel.Name == "Put" && len(call.Args) == 1:
		return 1, true
	}
	return 0, false
}

type c15bTok struct {
	pos            token.Pos
	kind, guard    int
	deferred, read bool
}

// c15bIsFieldGuard: `field != nil` (then-branch = field columns) or `field == nil` (body must leave the iteration)
func c15bFieldCond(e ast.Expr) string {
	s := src(e)
	switch s {
	case "field != nil", "nil != field":
		return "nonnil"
	case "field == nil", "nil == field":
		return "nil"
	}
	return ""
}

func c15bSlotNilCond(e ast.Expr) bool {
	be, ok := e.(*ast.BinaryExpr)
	if !ok || be.Op != token.EQL {
		return false
	}
	x, y := src(be.X), src(be.Y)
	return (strings.HasPrefix(x, "values[") && y == "nil") || (x == "nil" && strings.HasPrefix(y, "values["))
}

func c15bJoinGuard(g, add int) int {
	if g == 0 {
		return add
	}
	if g == add {
		return g
	}
	return 2
}

// c15bCollect walks the statements of a `range fields` body and appends the pool tokens in source order.
func c15bCollect(stmts []ast.Stmt, guard int, deferred bool, toks *[]c15bTok) {
	for _, st := range stmts {
		c15bStmt(st, guard, deferred, toks)
	}
}

func c15bStmt(st ast.Stmt, guard int, deferred bool, toks *[]c15bTok) {
	switch x := st.(type) {
	case *ast.IfStmt:
		if x.Init != nil {
			c15bStmt(x.Init, guard, deferred, toks)
		}
		switch c15bFieldCond(x.Cond) {
		case "nonnil":
			c15bCollect(x.Body.List, guard, deferred, toks)
			if x.Else != nil { // the non-field columns: pool statements there are outside the discipline
				c15bStmt(x.Else, 2, deferred, toks)
			}
			return
		case "nil":
			// `if field == nil { continue }`: the rest of the body is the field branch; pool statements inside the
			// guard body itself would run for non-field columns
			c15bCollect(x.Body.List, 2, deferred, toks)
			if x.Else != nil {
				c15bStmt(x.Else, guard, deferred, toks)
			}
			return
		}
		g := 2
		if c15bSlotNilCond(x.Cond) { // a nil test of the SLOT, not a read of the holder
			g = c15bJoinGuard(guard, 1)
		} else {
			c15bExpr(x.Cond, guard, deferred, toks)
		}
		c15bCollect(x.Body.List, g, deferred, toks)
		if x.Else != nil {
			c15bStmt(x.Else, 2, deferred, toks)
		}
	case *ast.BlockStmt:
		c15bCollect(x.List, guard, deferred, toks)
	case *ast.ForStmt:
		c15bCollect(x.Body.List, 2, deferred, toks)
	case *ast.RangeStmt:
		c15bExpr(x.X, guard, deferred, toks)
		c15bCollect(x.Body.List, 2, deferred, toks)
	case *ast.SwitchStmt, *ast.TypeSwitchStmt, *ast.SelectStmt:
		c15bExpr(x, 2, deferred, toks)
	case *ast.DeferStmt:
		c15bExpr(x.Call, guard, true, toks)
	case *ast.GoStmt:
		c15bExpr(x.Call, 2, deferred, toks)
	case *ast.AssignStmt:
		// `values[idx] = <pool>.Get()`: the left-hand side is a write of the slot, not a read of the holder
		for _, r := range x.Rhs {
			c15bExpr(r, guard, deferred, toks)
		}
		for _, l := range x.Lhs {
			if ix, ok := l.(*ast.IndexExpr); ok && src(ix.X) == "values" {
				c15bExpr(ix.Index, guard, deferred, toks)
				continue
			}
			c15bExpr(l, guard, deferred, toks)
		}
	default:
		c15bExpr(st, guard, deferred, toks)
	}
}

// c15bExpr records pool calls and reads of `values[…]` inside an arbitrary node (source order by position).
func c15bExpr(n ast.Node, guard int, deferred bool, toks *[]c15bTok) {
	if n == nil {
		return
	}
	var visit func(n ast.Node, guard int) bool
	visit = func(n ast.Node, guard int) bool {
		switch x := n.(type) {
		case *ast.FuncLit:
			// a closure: when it runs is unknown unless it is the deferred call itself
			ast.Inspect(x.Body, func(m ast.Node) bool { return visit(m, 2) })
			return false
		case *ast.CallExpr:
			if k, ok := c15bPoolCall(x); ok {
				*toks = append(*toks, c15bTok{pos: x.Pos(), kind: k, guard: guard, deferred: deferred})
				if k == 1 { // the argument of Put is the hand-back, not a read of the holder
					if ix, ok := x.Args[0].(*ast.IndexExpr); ok && src(ix.X) == "values" {
						return false
					}
				}
			}
		case *ast.IndexExpr:
			if src(x.X) == "values" {
				*toks = append(*toks, c15bTok{pos: x.Pos(), kind: 2, guard: guard, deferred: deferred, read: true})
			}
		}
		return true
	}
	ast.Inspect(n, func(m ast.Node) bool { return visit(m, guard) })
}

func c15bIsRowsScan(st ast.Stmt) bool {
	found := false
	ast.Inspect(st, func(n ast.Node) bool {
		if _, ok := n.(*ast.FuncLit); ok {
			return false
		}
		if call, ok := n.(*ast.CallExpr); ok {
			if sel, ok := call.Fun.(*ast.SelectorExpr); ok && sel.Sel.Name == "Scan" && src(sel.X) == "rows" {
				found = true
			}
		}
		return true
	})
	return found
}

func c15bCountPoolCalls(n ast.Node) int {
	c := 0
	ast.Inspect(n, func(m ast.Node) bool {
		if _, ok := c15bPoolCall(m); ok {
			c++
		}
		return true
	})
	return c
}

func genScanPoolFacts(o *out, pkgs map[string]map[string]*ast.File) {
	type top struct {
		kind int
		body []c15bTok
	}
	var tops []top
	found := false
	inLoops := 0
	var sis *ast.FuncDecl
	for _, f := range pkgs["."] {
		for _, d := range f.Decls {
			if fd, ok := d.(*ast.FuncDecl); ok && fd.Body != nil && fd.Name.Name == "scanIntoStruct" {
				sis = fd
			}
		}
	}
	if sis != nil {
		found = true
		for _, st := range sis.Body.List {
			if rs, ok := st.(*ast.RangeStmt); ok && src(rs.X) == "fields" {
				var toks []c15bTok
				c15bCollect(rs.Body.List, 0, false, &toks)
				sort.SliceStable(toks, func(i, j int) bool { return toks[i].pos < toks[j].pos })
				var body []c15bTok
				for _, t := range toks {
					if t.kind != 2 {
						inLoops++
					}
					if t.kind == 2 && len(body) > 0 && body[len(body)-1].kind == 2 {
						continue // consecutive reads are one `set`
					}
					body = append(body, t)
				}
				tops = append(tops, top{0, body})
				continue
			}
			if c15bIsRowsScan(st) {
				tops = append(tops, top{1, nil})
			}
		}
	}
	// pool calls of package gorm and callbacks outside the field loops of scanIntoStruct
	total := 0
	for _, rel := range []string{".", "callbacks"} {
		for _, f := range pkgs[rel] {
			total += c15bCountPoolCalls(f)
		}
	}
	outside := total - inLoops

	// callers of scanIntoStruct: all inside gorm.Scan, passing Scan's local `values` (made per call)
	sites, valuesLocal := 0, true
	var scanFn *ast.FuncDecl
	for _, f := range pkgs["."] {
		for _, d := range f.Decls {
			fd, ok := d.(*ast.FuncDecl)
			if !ok || fd.Body == nil {
				continue
			}
			ast.Inspect(fd.Body, func(n ast.Node) bool {
				call, ok := n.(*ast.CallExpr)
				if !ok {
					return true
				}
				if sel, ok := call.Fun.(*ast.SelectorExpr); ok && sel.Sel.Name == "scanIntoStruct" {
					sites++
					if !(fd.Name.Name == "Scan" && fd.Recv == nil && len(call.Args) >= 3 && src(call.Args[2]) == "values") {
						valuesLocal = false
					}
				}
				return true
			})
			if fd.Name.Name == "Scan" && fd.Recv == nil {
				scanFn = fd
			}
		}
	}
	// the scratch tables gorm.Scan writes through for every row — `values` (column → holder) and `fields` (column →
	// field) — are variables of the function initialised by make(…): nothing survives the call, nothing is shared
	made := map[string]bool{}
	if scanFn != nil {
		ast.Inspect(scanFn.Body, func(n ast.Node) bool {
			switch x := n.(type) {
			case *ast.ValueSpec:
				for i, nm := range x.Names {
					if i < len(x.Values) && strings.HasPrefix(src(x.Values[i]), "make(") {
						made[nm.Name] = true
					}
				}
			case *ast.AssignStmt:
				if x.Tok == token.DEFINE {
					for i, l := range x.Lhs {
						if i < len(x.Rhs) && strings.HasPrefix(src(x.Rhs[i]), "make(") {
							made[src(l)] = true
						}
					}
				}
			}
			return true
		})
	}
	madeLocal := made["values"]
	fieldsLocal := made["fields"]
	// … and scanIntoStruct receives exactly those two
	if sis != nil && sis.Type.Params != nil {
		names := []string{}
		for _, f := range sis.Type.Params.List {
			for _, n := range f.Names {
				names = append(names, n.Name)
			}
		}
		pos := map[string]int{}
		for i, n := range names {
			pos[n] = i
		}
		for _, f := range pkgs["."] {
			ast.Inspect(f, func(n ast.Node) bool {
				call, ok := n.(*ast.CallExpr)
				if !ok {
					return true
				}
				if sel, ok := call.Fun.(*ast.SelectorExpr); ok && sel.Sel.Name == "scanIntoStruct" {
					if i, ok := pos["fields"]; !ok || i >= len(call.Args) || src(call.Args[i]) != "fields" {
						fieldsLocal = false
					}
				}
				return true
			})
		}
	} else {
		fieldsLocal = false
	}
	valuesLocal = valuesLocal && madeLocal && sites > 0

	// sync.Pool{New: func…} literals of package schema
	newSites, newFresh := 0, true
	for _, f := range pkgs["schema"] {
		ast.Inspect(f, func(n ast.Node) bool {
			cl, ok := n.(*ast.CompositeLit)
			if !ok || src(cl.Type) != "sync.Pool" {
				return true
			}
			for _, el := range cl.Elts {
				kv, ok := el.(*ast.KeyValueExpr)
				if !ok || src(kv.Key) != "New" {
					continue
				}
				newSites++
				fl, ok := kv.Value.(*ast.FuncLit)
				if !ok {
					newFresh = false
					continue
				}
				rets := 0
				ast.Inspect(fl.Body, func(m ast.Node) bool {
					if inner, ok := m.(*ast.FuncLit); ok && inner != fl {
						return false
					}
					if r, ok := m.(*ast.ReturnStmt); ok {
						rets++
						if len(r.Results) != 1 || !c15bFreshExpr(r.Results[0], fl) {
							newFresh = false
						}
					}
					return true
				})
				if rets == 0 {
					newFresh = false
				}
			}
			return true
		})
	}

	// the map destinations: prepareValues builds every holder anew for each row (reflect.New(…).Interface() / new(T))
	pvFound, pvFresh := false, true
	for _, f := range pkgs["."] {
		for _, d := range f.Decls {
			fd, ok := d.(*ast.FuncDecl)
			if !ok || fd.Body == nil || fd.Name.Name != "prepareValues" {
				continue
			}
			ast.Inspect(fd.Body, func(n ast.Node) bool {
				as, ok := n.(*ast.AssignStmt)
				if !ok {
					return true
				}
				for i, l := range as.Lhs {
					if ix, ok := l.(*ast.IndexExpr); ok && src(ix.X) == "values" && i < len(as.Rhs) {
						pvFound = true
						if !c15bFreshExpr(as.Rhs[i], &ast.FuncLit{Body: fd.Body}) {
							pvFresh = false
						}
					}
				}
				return true
			})
		}
	}
	pvFresh = pvFresh && pvFound

	var b strings.Builder
	b.WriteString("/-- scan.go has a function scanIntoStruct -/\n")
	b.WriteString("def scanIntoStructFound : Bool := " + lbool(found) + "\n\n")
	b.WriteString("/-- statement order of scanIntoStruct (see extract/gen_c15b.go for the encoding):\n    (0, body) = `for … range fields` with body entries (kind 0 Get / 1 Put / 2 read of values[idx], guard 0 always /\n    1 `values[idx] == nil` / 2 other, deferred); (1, []) = `rows.Scan(…)` -/\n")
	b.WriteString("def scanIntoStructOrder : List (Nat × List (Nat × Nat × Bool)) :=\n  [")
	for i, t := range tops {
		if i > 0 {
			b.WriteString(",\n   ")
		}
		var es []string
		for _, e := range t.body {
			es = append(es, fmt.Sprintf("(%d, %d, %s)", e.kind, e.guard, lbool(e.deferred)))
		}
		b.WriteString(fmt.Sprintf("(%d, [%s])", t.kind, strings.Join(es, ", ")))
	}
	b.WriteString("]\n\n")
	b.WriteString("/-- Get/Put calls on a value pool in package gorm / gorm/callbacks outside the `range fields` loops of scanIntoStruct -/\n")
	b.WriteString(fmt.Sprintf("def scanPoolCallsOutsideFieldLoops : Nat := %d\n\n", outside))
	b.WriteString("/-- calls of scanIntoStruct in package gorm -/\n")
	b.WriteString(fmt.Sprintf("def scanIntoStructCallSites : Nat := %d\n\n", sites))
	b.WriteString("/-- every caller is gorm.Scan passing the `values` slice it allocates per call (`values = make([]interface{}, …)`, a local variable) -/\n")
	b.WriteString("def scanIntoStructValuesLocal : Bool := " + lbool(valuesLocal) + "\n\n")
	b.WriteString("/-- … and the column → field table `fields` is likewise made by gorm.Scan for this call and passed on unchanged -/\n")
	b.WriteString("def scanIntoStructFieldsLocal : Bool := " + lbool(fieldsLocal) + "\n\n")
	b.WriteString("/-- scan.go prepareValues (map destinations) assigns every `values[idx]` a holder allocated on the spot -/\n")
	b.WriteString("def prepareValuesFresh : Bool := " + lbool(pvFresh) + "\n\n")
	b.WriteString("/-- `sync.Pool{New: func…}` literals of package schema -/\n")
	b.WriteString(fmt.Sprintf("def scanPoolNewSites : Nat := %d\n\n", newSites))
	b.WriteString("/-- each of them returns a fresh allocation (reflect.New(…).Interface(), &T{…}, new(T)) built inside the function -/\n")
	b.WriteString("def scanPoolNewFresh : Bool := " + lbool(newFresh) + "\n")
	o.write("ScanPoolFacts", b.String())
	o.facts["scanIntoStructOrderTops"] = len(tops)
	o.facts["poolCallsOutsideFieldLoops"] = outside
}

// c15bFreshExpr: the returned expression allocates: `reflect.New(…)[.Interface()]`, `&T{…}`, `new(T)`; composite
// literal fields may refer to anything (the holder itself is new).  An identifier is fresh only when it was defined
// inside the function by such an expression.
func c15bFreshExpr(e ast.Expr, fl *ast.FuncLit) bool {
	switch x := e.(type) {
	case *ast.ParenExpr:
		return c15bFreshExpr(x.X, fl)
	case *ast.UnaryExpr:
		if x.Op == token.AND {
			_, ok := x.X.(*ast.CompositeLit)
			return ok
		}
	case *ast.CallExpr:
		s := src(x.Fun)
		if s == "new" || s == "reflect.New" {
			return true
		}
		if sel, ok := x.Fun.(*ast.SelectorExpr); ok && (sel.Sel.Name == "Interface" || sel.Sel.Name == "Addr") {
			return c15bFreshExpr(sel.X, fl)
		}
	case *ast.Ident:
		fresh := false
		ast.Inspect(fl.Body, func(m ast.Node) bool {
			if as, ok := m.(*ast.AssignStmt); ok && as.Tok == token.DEFINE {
				for i, l := range as.Lhs {
					if src(l) == x.Name && i < len(as.Rhs) && c15bFreshExpr(as.Rhs[i], fl) {
						fresh = true
					}
				}
			}
			return true
		})
		return fresh
	}
	return false
}
