package main

// C03 (round 4) fact generator: two syntactic facts about schema/schema.go `ParseWithSpecialTableName` that the model
// Model/SchemaAttrs.lean transcribes (`AField.dbDefault`, `keyCandidate`) and the theorems
// C03_db_default_returned_any_permission / C03_id_field_is_key_any_column depend on:
//
//	defaultDBLoopFound  : there is an `if` whose body appends to `schema.FieldsWithDefaultDBValue` inside a loop that
//	                      ranges over `schema.Fields`
//	defaultDBCondReads  : the field selectors the condition of that `if` reads (sorted, without duplicates) — the model
//	                      reads DataType, HasDefaultValue, DefaultValueInterface and NO permission
//	priorityLookups     : the right-hand sides assigned to the variable `prioritizedPrimaryField`, in source order — the
//	                      model uses `LookUpField("id")` then `LookUpField("ID")` (column names first, Go names second)
//	priorityNeedsColumn : every assignment `schema.PrioritizedPrimaryField = prioritizedPrimaryField` (there is at least
//	                      one) sits under an `if` whose condition demands `prioritizedPrimaryField.DBName != ""` — the
//	                      repair of finding F28 (a field named ID that has no column is no key); the model's
//	                      `prioritize` takes it as its `needCol` parameter
//
// Whether the code BEHAVES like the transcription is judged by the `attrs` correspondence suite on every run; the facts make
// a change of these two places visible as a broken proof obligation as well.

import (
	"go/ast"
	"sort"
	"strings"
)

func init() {
	extraGens = append(extraGens, func(o *out, pkgs map[string]map[string]*ast.File, all []funcInfo, repo string) {
		genSchemaDeclFacts(o, pkgs["schema"])
	})
}

func genSchemaDeclFacts(o *out, sp map[string]*ast.File) {
	loopFound := false
	reads := map[string]bool{}
	var lookups []string
	prioAssigns, prioGuarded := 0, 0
	isPrioAssign := func(n ast.Node) bool {
		as, ok := n.(*ast.AssignStmt)
		return ok && len(as.Lhs) == 1 && len(as.Rhs) == 1 &&
			strings.ReplaceAll(src(as.Lhs[0]), " ", "") == "schema.PrioritizedPrimaryField" &&
			strings.ReplaceAll(src(as.Rhs[0]), " ", "") == "prioritizedPrimaryField"
	}
	for _, f := range sp {
		for _, d := range f.Decls {
			fd, ok := d.(*ast.FuncDecl)
			if !ok || fd.Name.Name != "ParseWithSpecialTableName" || fd.Body == nil {
				continue
			}
			ast.Inspect(fd.Body, func(n ast.Node) bool {
				if isPrioAssign(n) {
					prioAssigns++
				}
				if is, ok := n.(*ast.IfStmt); ok && !strings.Contains(src(is.Cond), "||") &&
					strings.Contains(strings.ReplaceAll(src(is.Cond), " ", ""), "prioritizedPrimaryField.DBName!=\"\"") {
					ast.Inspect(is.Body, func(m ast.Node) bool {
						if isPrioAssign(m) {
							prioGuarded++
						}
						return true
					})
				}
				switch x := n.(type) {
				case *ast.RangeStmt:
					if strings.ReplaceAll(src(x.X), " ", "") != "schema.Fields" {
						return true
					}
					loopVar := ""
					if id, ok := x.Value.(*ast.Ident); ok {
						loopVar = id.Name
					}
					for _, st := range x.Body.List {
						is, ok := st.(*ast.IfStmt)
						if !ok {
							continue
						}
						appends := false
						ast.Inspect(is.Body, func(m ast.Node) bool {
							if as, ok := m.(*ast.AssignStmt); ok && len(as.Lhs) == 1 &&
								strings.ReplaceAll(src(as.Lhs[0]), " ", "") == "schema.FieldsWithDefaultDBValue" {
								appends = true
							}
							return true
						})
						if !appends {
							continue
						}
						loopFound = true
						ast.Inspect(is.Cond, func(m ast.Node) bool {
							if s, ok := m.(*ast.SelectorExpr); ok {
								if id, ok := s.X.(*ast.Ident); ok && id.Name == loopVar {
									reads[s.Sel.Name] = true
								}
							}
							return true
						})
					}
				case *ast.AssignStmt:
					if len(x.Lhs) == 1 && len(x.Rhs) == 1 {
						if id, ok := x.Lhs[0].(*ast.Ident); ok && id.Name == "prioritizedPrimaryField" {
							lookups = append(lookups, strings.ReplaceAll(src(x.Rhs[0]), " ", ""))
						}
					}
				}
				return true
			})
		}
	}
	var rs []string
	for k := range reads {
		rs = append(rs, k)
	}
	sort.Strings(rs)
	lstr := func(l []string) string {
		var qs []string
		for _, s := range l {
			qs = append(qs, "\""+strings.ReplaceAll(strings.ReplaceAll(s, "\\", "\\\\"), "\"", "\\\"")+"\"")
		}
		return "[" + strings.Join(qs, ", ") + "]"
	}
	var b strings.Builder
	b.WriteString("/-- schema/schema.go ParseWithSpecialTableName has a loop over `schema.Fields` with an `if` that appends to\n    `schema.FieldsWithDefaultDBValue` -/\n")
	b.WriteString("def defaultDBLoopFound : Bool := " + lbool(loopFound) + "\n\n")
	b.WriteString("/-- the selectors of the loop variable which the condition of that `if` reads (sorted) -/\n")
	b.WriteString("def defaultDBCondReads : List String := " + lstr(rs) + "\n\n")
	b.WriteString("/-- the expressions assigned to the variable `prioritizedPrimaryField`, in source order -/\n")
	b.WriteString("def priorityLookups : List String := " + lstr(lookups) + "\n\n")
	needCol := prioAssigns > 0 && prioGuarded == prioAssigns
	b.WriteString("/-- every `schema.PrioritizedPrimaryField = prioritizedPrimaryField` sits under an `if` that demands\n    `prioritizedPrimaryField.DBName != \"\"` (the repair of finding F28) -/\n")
	b.WriteString("def priorityNeedsColumn : Bool := " + lbool(needCol) + "\n")
	o.write("SchemaDeclFacts", b.String())
	o.facts["defaultDBCondReads"] = rs
	o.facts["priorityLookups"] = lookups
	o.facts["priorityNeedsColumn"] = needCol
}
