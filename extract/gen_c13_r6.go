package main

// C13 fact generator (round 6): Gen/AssocSessions.lean -- the nested operations that the association-saving callbacks
// issue (callbacks/associations.go) and the Session literals that configure them.  Purely syntactic:
//
//	assocNestedOps   every call `<chain>.<Finisher>(<arg>)` (Finisher one of Create / Save / Updates / Update / Delete /
//	                 First / Find / Exec) inside a function of callbacks/associations.go whose receiver chain contains a
//	                 `gorm.Session{…}` literal: (enclosing function, finisher, source of the first argument,
//	                 the (field, value source) pairs of ALL Session literals of the chain in source order,
//	                 is the call's .Error handed to db.AddError)
//	callbackSessionLits every Session literal of association.go and callbacks/*.go: (file, function, (field, value) pairs)
//	assocSessionLits every `gorm.Session{…}` literal of the file: (enclosing function, (field, value source) pairs)
//
// The join-table rows of a many2many relation are created by `….Create(joins.Interface())` in SaveAfterAssociations; the
// records of a custom join model (SetupJoinTable) get their hooks iff that chain's SkipHooks is the statement's own flag.

import (
	"go/ast"
	"sort"
	"strings"
)

func init() {
	extraGens = append(extraGens, func(o *out, pkgs map[string]map[string]*ast.File, all []funcInfo, repo string) {
		genAssocSessions(o, all)
	})
}

var c13r6Finishers = map[string]bool{"Create": true, "Save": true, "Updates": true, "Update": true, "Delete": true, "First": true, "Find": true, "Exec": true}

func genAssocSessions(o *out, all []funcInfo) {
	type nested struct {
		fn, fin, arg string
		fields       [][2]string
		addErr       bool
	}
	var ops []nested
	type lit struct {
		fn     string
		fields [][2]string
	}
	var lits []lit
	for _, fi := range all {
		if fi.file != "callbacks/associations.go" || fi.decl.Body == nil {
			continue
		}
		ast.Inspect(fi.decl.Body, func(y ast.Node) bool {
			if cl, ok := y.(*ast.CompositeLit); ok && cl.Type != nil && src(cl.Type) == "gorm.Session" {
				l := lit{fn: fi.name}
				for _, el := range cl.Elts {
					if kv, ok := el.(*ast.KeyValueExpr); ok {
						l.fields = append(l.fields, [2]string{src(kv.Key), src(kv.Value)})
					}
				}
				lits = append(lits, l)
			}
			return true
		})
		// calls whose `.Error` is the argument of db.AddError
		added := map[ast.Node]bool{}
		ast.Inspect(fi.decl.Body, func(x ast.Node) bool {
			if c, ok := x.(*ast.CallExpr); ok && src(c.Fun) == "db.AddError" && len(c.Args) == 1 {
				if s, ok := c.Args[0].(*ast.SelectorExpr); ok && s.Sel.Name == "Error" {
					added[s.X] = true
				}
			}
			return true
		})
		ast.Inspect(fi.decl.Body, func(x ast.Node) bool {
			c, ok := x.(*ast.CallExpr)
			if !ok {
				return true
			}
			sel, ok := c.Fun.(*ast.SelectorExpr)
			if !ok || !c13r6Finishers[sel.Sel.Name] {
				return true
			}
			var fields [][2]string
			found := false
			ast.Inspect(sel.X, func(y ast.Node) bool {
				if cl, ok := y.(*ast.CompositeLit); ok && cl.Type != nil && src(cl.Type) == "gorm.Session" {
					found = true
					for _, el := range cl.Elts {
						if kv, ok := el.(*ast.KeyValueExpr); ok {
							fields = append(fields, [2]string{src(kv.Key), src(kv.Value)})
						}
					}
				}
				return true
			})
			if !found {
				return true
			}
			arg := ""
			if len(c.Args) > 0 {
				arg = src(c.Args[0])
			}
			ops = append(ops, nested{fi.name, sel.Sel.Name, arg, fields, added[c]})
			return true
		})
	}
	sort.SliceStable(ops, func(i, j int) bool { return ops[i].fn < ops[j].fn })
	var b strings.Builder
	b.WriteString("/-- callbacks/associations.go: every nested finisher call whose receiver chain carries a `gorm.Session{…}` literal:\n    (enclosing function, finisher, first argument, (field, value) pairs of the chain's Session literals in source order,\n    the call's `.Error` goes to db.AddError) -/\n")
	b.WriteString("def assocNestedOps : List (String × String × String × List (String × String) × Bool) := [")
	for i, n := range ops {
		if i > 0 {
			b.WriteString(",\n  ")
		}
		b.WriteString("(" + lstr(n.fn) + ", " + lstr(n.fin) + ", " + lstr(n.arg) + ", [")
		for j, f := range n.fields {
			if j > 0 {
				b.WriteString(", ")
			}
			b.WriteString("(" + lstr(f[0]) + ", " + lstr(f[1]) + ")")
		}
		b.WriteString("], " + lbool(n.addErr) + ")")
	}
	b.WriteString("]\n\n")
	sort.SliceStable(lits, func(i, j int) bool { return lits[i].fn < lits[j].fn })
	b.WriteString("/-- callbacks/associations.go: EVERY `gorm.Session{…}` literal (enclosing function, (field, value source) pairs) -/\n")
	b.WriteString("def assocSessionLits : List (String × List (String × String)) := [")
	for i, l := range lits {
		if i > 0 {
			b.WriteString(",\n  ")
		}
		b.WriteString("(" + lstr(l.fn) + ", [")
		for j, f := range l.fields {
			if j > 0 {
				b.WriteString(", ")
			}
			b.WriteString("(" + lstr(f[0]) + ", " + lstr(f[1]) + ")")
		}
		b.WriteString("])")
	}
	b.WriteString("]\n")
	// every Session literal of association.go (package gorm: `Session{…}`) and callbacks/*.go (`gorm.Session{…}`)
	type flit struct {
		file, fn string
		fields   [][2]string
	}
	var flits []flit
	for _, fi := range all {
		if fi.decl.Body == nil || !(fi.file == "association.go" || (strings.HasPrefix(fi.file, "callbacks/") && !strings.HasSuffix(fi.file, "_test.go"))) {
			continue
		}
		want := "gorm.Session"
		if fi.file == "association.go" {
			want = "Session"
		}
		ast.Inspect(fi.decl.Body, func(y ast.Node) bool {
			if cl, ok := y.(*ast.CompositeLit); ok && cl.Type != nil && src(cl.Type) == want {
				l := flit{file: fi.file, fn: fi.name}
				for _, el := range cl.Elts {
					if kv, ok := el.(*ast.KeyValueExpr); ok {
						l.fields = append(l.fields, [2]string{src(kv.Key), src(kv.Value)})
					}
				}
				flits = append(flits, l)
			}
			return true
		})
	}
	sort.SliceStable(flits, func(i, j int) bool {
		if flits[i].file != flits[j].file {
			return flits[i].file < flits[j].file
		}
		return flits[i].fn < flits[j].fn
	})
	b.WriteString("\n/-- association.go and callbacks/*.go: EVERY Session literal (file, enclosing function, (field, value source) pairs) -/\n")
	b.WriteString("def callbackSessionLits : List (String × String × List (String × String)) := [")
	for i, l := range flits {
		if i > 0 {
			b.WriteString(",\n  ")
		}
		b.WriteString("(" + lstr(l.file) + ", " + lstr(l.fn) + ", [")
		for j, f := range l.fields {
			if j > 0 {
				b.WriteString(", ")
			}
			b.WriteString("(" + lstr(f[0]) + ", " + lstr(f[1]) + ")")
		}
		b.WriteString("])")
	}
	b.WriteString("]\n")
	o.write("AssocSessions", b.String())
	o.facts["assocNestedOps"] = len(ops)
}
