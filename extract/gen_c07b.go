package main

// C07 (round 2) fact generator → Gen/SharedConfig.lean.  Purely syntactic, names only.
//
//  cfgWriteSites   every assignment (root, callbacks, migrator packages) whose target path selects a field of
//                  `type Config` (Logger, Dialector, ConnPool, callbacks, NowFunc, …) or the `Config` pointer of a *DB —
//                  not through `.Statement.` — with WHERE THE BASE VARIABLE COMES FROM inside that function
//                  (receiver / parameter / getInstance() result / Session() result / &DB{…} literal / value copy
//                  `*x.Config` / alias of `x.Config`) and whether the write is PRIVATE: it can only reach a Config that
//                  this function allocated itself (value copy, or a *DB whose Config was set to the address of a value
//                  copy earlier in the function).
//  lockMapSites    every place where a struct that contains a sync.Mutex/RWMutex together with a map is CONSTRUCTED or has
//                  its map / lock field ASSIGNED: where the map comes from and where the lock comes from (fresh / absent /
//                  taken from an existing owner expression).  A lock guards its map only if both come from the same owner.
//  poolNewSites    every sync.Pool{New: func…} literal of the schema package: which fields of the returned holder literal
//                  are built from identifiers CAPTURED from outside the New closure (shared by every holder the pool makes).

import (
	"fmt"
	"go/ast"
	"go/token"
	"sort"
	"strings"
)

func init() {
	extraGens = append(extraGens, func(o *out, pkgs map[string]map[string]*ast.File, all []funcInfo, repo string) {
		genC07SharedConfig(o, pkgs, all)
	})
}

func c07bStructFields(pkgs map[string]map[string]*ast.File, pkg, name string) []string {
	var out []string
	for _, f := range pkgs[pkg] {
		ast.Inspect(f, func(n ast.Node) bool {
			ts, ok := n.(*ast.TypeSpec)
			if !ok || ts.Name.Name != name {
				return true
			}
			st, ok := ts.Type.(*ast.StructType)
			if !ok {
				return true
			}
			for _, fl := range st.Fields.List {
				if len(fl.Names) == 0 { // embedded
					t := src(fl.Type)
					t = strings.TrimPrefix(t, "*")
					if i := strings.LastIndex(t, "."); i >= 0 {
						t = t[i+1:]
					}
					out = append(out, t)
				}
				for _, id := range fl.Names {
					out = append(out, id.Name)
				}
			}
			return false
		})
	}
	return out
}

// c07bCallTail: for `a.b.Session(x)` returns "Session"; for `f(x)` returns "f"
func c07bCallTail(e ast.Expr) string {
	c, ok := e.(*ast.CallExpr)
	if !ok {
		return ""
	}
	switch f := c.Fun.(type) {
	case *ast.SelectorExpr:
		return f.Sel.Name
	case *ast.Ident:
		return f.Name
	}
	return ""
}

func c07bIsCompositeOf(e ast.Expr, names ...string) (*ast.CompositeLit, bool) {
	if u, ok := e.(*ast.UnaryExpr); ok && u.Op == token.AND {
		e = u.X
	}
	cl, ok := e.(*ast.CompositeLit)
	if !ok || cl.Type == nil {
		return nil, false
	}
	t := src(cl.Type)
	if i := strings.LastIndex(t, "."); i >= 0 {
		t = t[i+1:]
	}
	for _, n := range names {
		if t == n {
			return cl, true
		}
	}
	return nil, false
}

type c07bOrigin struct {
	kind    string    // recv | param | getInstance | Session | literal | copy | alias | other
	private bool      // the variable's Config is one this function allocated
	pos     token.Pos // where it became private
}

func genC07SharedConfig(o *out, pkgs map[string]map[string]*ast.File, all []funcInfo) {
	cfgFields := c07bStructFields(pkgs, ".", "Config")
	isCfg := map[string]bool{}
	for _, f := range cfgFields {
		isCfg[f] = true
	}
	var b strings.Builder
	b.WriteString("/-- fields of `type Config` (gorm.go), embedded types by their type name -/\ndef configFields : List String := " + lstrs(cfgFields) + "\n\n")

	// ---------------- A. writes to Config fields ----------------
	type site struct {
		file, fn, base, origin, path, field string
		elem, private                       bool
	}
	var sites []site
	for _, fi := range all {
		if strings.HasPrefix(fi.file, "schema/") || strings.HasPrefix(fi.file, "clause/") || strings.HasPrefix(fi.file, "utils/") {
			continue
		}
		org := map[string]*c07bOrigin{}
		hist := map[string][]*c07bOrigin{} // every classification of a local, in source order
		copies := map[string]bool{} // locals holding a VALUE copy of a Config
		if fi.decl.Recv != nil {
			for _, f := range fi.decl.Recv.List {
				for _, id := range f.Names {
					org[id.Name] = &c07bOrigin{kind: "recv"}
				}
			}
		}
		if fi.decl.Type.Params != nil {
			for _, f := range fi.decl.Type.Params.List {
				for _, id := range f.Names {
					org[id.Name] = &c07bOrigin{kind: "param"}
				}
			}
		}
		if fi.decl.Type.Results != nil {
			for _, f := range fi.decl.Type.Results.List {
				for _, id := range f.Names {
					org[id.Name] = &c07bOrigin{kind: "other"}
				}
			}
		}
		classify := func(name string, rhs ast.Expr, pos token.Pos) {
			if name == "_" {
				return
			}
			og := &c07bOrigin{kind: "other"}
			switch {
			case c07bCallTail(rhs) == "getInstance":
				og.kind = "getInstance"
			case c07bCallTail(rhs) == "Session" || c07bCallTail(rhs) == "WithContext" || c07bCallTail(rhs) == "Debug" || c07bCallTail(rhs) == "Begin":
				og.kind, og.private = "Session", true
			default:
				if st, ok := rhs.(*ast.StarExpr); ok && strings.HasSuffix(src(st.X), "Config") {
					og.kind, og.private = "copy", true
					copies[name] = true
				} else if sel, ok := rhs.(*ast.SelectorExpr); ok && sel.Sel.Name == "Config" {
					og.kind = "alias"
				} else if cl, ok := c07bIsCompositeOf(rhs, "DB"); ok {
					og.kind = "literal"
					for _, el := range cl.Elts {
						if kv, ok := el.(*ast.KeyValueExpr); ok && src(kv.Key) == "Config" {
							if u, ok := kv.Value.(*ast.UnaryExpr); ok && u.Op == token.AND {
								if id, ok := u.X.(*ast.Ident); ok && copies[id.Name] {
									og.private = true
								}
							}
						}
					}
				} else if _, ok := c07bIsCompositeOf(rhs, "Config"); ok {
					og.kind, og.private = "literal", true
				}
			}
			og.pos = pos
			org[name] = og
			hist[name] = append(hist[name], og)
		}
		// pass 1 (source order): where locals come from; `x.Config = &copy` makes x private from there on
		var walk func(n ast.Node)
		handleAssign := func(as *ast.AssignStmt) {
			if len(as.Lhs) == len(as.Rhs) {
				for i, l := range as.Lhs {
					if id, ok := l.(*ast.Ident); ok {
						if _, known := org[id.Name]; !known || as.Tok == token.DEFINE || true {
							// a re-assignment re-classifies (tx = tx.getInstance())
							if prev, ok := org[id.Name]; ok && (prev.kind == "recv" || prev.kind == "param") && as.Tok != token.DEFINE {
								continue // the receiver / a parameter keeps its origin
							}
							classify(id.Name, as.Rhs[i], as.Pos())
						}
					}
				}
			}
		}
		type pending struct {
			lhs ast.Expr
			pos token.Pos
			rhs ast.Expr
		}
		var writes []pending
		walk = func(n ast.Node) {
			ast.Inspect(n, func(m ast.Node) bool {
				switch x := m.(type) {
				case *ast.AssignStmt:
					handleAssign(x)
					for i, l := range x.Lhs {
						if _, isId := l.(*ast.Ident); isId {
							continue
						}
						var r ast.Expr
						if len(x.Rhs) == len(x.Lhs) {
							r = x.Rhs[i]
						}
						writes = append(writes, pending{l, x.Pos(), r})
					}
				case *ast.ValueSpec:
					for i, id := range x.Names {
						if i < len(x.Values) {
							classify(id.Name, x.Values[i], x.Pos())
						}
					}
				case *ast.IncDecStmt:
					writes = append(writes, pending{x.X, x.Pos(), nil})
				}
				return true
			})
		}
		walk(fi.decl.Body)
		sort.SliceStable(writes, func(i, j int) bool { return writes[i].pos < writes[j].pos })
		// `x.Config = &copy`: from that position on, writes through x are private
		privFrom := map[string]token.Pos{}
		for _, w := range writes {
			base, path, field, _, ok := lhsParts(w.lhs)
			if !ok || field != "Config" || path != "Config" || w.rhs == nil {
				continue
			}
			if u, ok := w.rhs.(*ast.UnaryExpr); ok && u.Op == token.AND {
				if id, ok := u.X.(*ast.Ident); ok && copies[id.Name] {
					if _, seen := privFrom[base]; !seen {
						privFrom[base] = w.pos
					}
				}
			}
		}
		for _, w := range writes {
			base, path, _, elem, ok := lhsParts(w.lhs)
			if !ok {
				continue
			}
			segs := strings.Split(path, ".")
			// the path must not run through the statement, and must touch a Config field (directly, or `.Config.` first)
			if strings.Contains("."+path+".", ".Statement.") || strings.Contains("."+path+".", ".Schema.") {
				continue
			}
			first := segs[0]
			if first == "Config" && len(segs) > 1 {
				first = segs[1]
			}
			og := org[base]
			// the classification in force at the write: the latest (re)definition of the local before it
			for _, h := range hist[base] {
				if h.pos <= w.pos {
					og = h
				}
			}
			kind, private := "other", false
			if og != nil {
				kind, private = og.kind, og.private
			}
			isDBish := kind == "recv" || kind == "param" || kind == "getInstance" || kind == "Session" || kind == "literal" || kind == "copy" || kind == "alias"
			if !(isCfg[first] || (segs[0] == "Config" && len(segs) == 1)) || !isDBish {
				continue
			}
			// receivers / parameters that are not a *DB / *Config (e.g. a `processor`, a `Migrator`) are told apart by type name
			if kind == "recv" || kind == "param" {
				if t := c07bVarType(fi.decl, base); !(t == "DB" || t == "Config" || t == "Migrator") {
					continue
				}
			}
			if p, ok := privFrom[base]; ok && w.pos > p {
				private = true
			}
			if segs[0] == "Config" && len(segs) == 1 {
				// replacing the Config pointer of a *DB: private iff the new Config is the address of a value copy
				private = privFrom[base] == w.pos && w.pos != 0
				if kind == "literal" || kind == "Session" {
					private = true
				}
			}
			sites = append(sites, site{fi.file, fi.name, base, kind, path, first, elem, private})
		}
	}
	b.WriteString("structure CfgWrite where\n  file : String\n  fn : String\n  base : String\n  origin : String\n  path : String\n  field : String\n  elem : Bool\n  priv : Bool\nderiving Repr, DecidableEq\n\n")
	b.WriteString("/-- every assignment to a field of Config / to the Config pointer of a *DB (root, callbacks, migrator packages; not through\n  `.Statement.`): `origin` = where the base variable comes from in that function, `priv` = the write can only reach a Config\n  allocated by this very function (value copy `*x.Config`, or a *DB whose Config was pointed at such a copy before the write) -/\ndef cfgWriteSites : List CfgWrite := [\n")
	for i, s := range sites {
		sep := ","
		if i == len(sites)-1 {
			sep = ""
		}
		b.WriteString(fmt.Sprintf("  { file := %s, fn := %s, base := %s, origin := %s, path := %s, field := %s, elem := %s, priv := %s }%s\n",
			lstr(s.file), lstr(s.fn), lstr(s.base), lstr(s.origin), lstr(s.path), lstr(s.field), lbool(s.elem), lbool(s.private), sep))
	}
	b.WriteString("]\n\n")
	o.facts["cfgWriteSites"] = len(sites)

	// ---------------- B. structs with a lock and a map ----------------
	type lm struct{ pkg, name, muxField, mapField string }
	var lms []lm
	for _, pkg := range []string{".", "callbacks", "schema", "migrator", "clause", "utils"} {
		var fnames []string
		for n := range pkgs[pkg] {
			fnames = append(fnames, n)
		}
		sort.Strings(fnames)
		for _, fname := range fnames {
			ast.Inspect(pkgs[pkg][fname], func(n ast.Node) bool {
				ts, ok := n.(*ast.TypeSpec)
				if !ok {
					return true
				}
				st, ok := ts.Type.(*ast.StructType)
				if !ok {
					return true
				}
				var muxes, maps []string
				for _, fl := range st.Fields.List {
					t := strings.TrimPrefix(src(fl.Type), "*")
					for _, id := range fl.Names {
						if t == "sync.Mutex" || t == "sync.RWMutex" {
							muxes = append(muxes, id.Name)
						}
						if _, isMap := fl.Type.(*ast.MapType); isMap {
							maps = append(maps, id.Name)
						}
					}
				}
				for _, mx := range muxes {
					for _, mp := range maps {
						lms = append(lms, lm{pkg, ts.Name.Name, mx, mp})
					}
				}
				return true
			})
		}
	}
	b.WriteString("structure LockMapStruct where\n  pkg : String\n  name : String\n  mux : String\n  map : String\nderiving Repr, DecidableEq\n\n")
	b.WriteString("/-- struct types that contain a sync.Mutex/RWMutex (value or pointer) together with a map -/\ndef lockMapStructs : List LockMapStruct := [\n")
	for i, s := range lms {
		sep := ","
		if i == len(lms)-1 {
			sep = ""
		}
		b.WriteString(fmt.Sprintf("  { pkg := %s, name := %s, mux := %s, map := %s }%s\n", lstr(s.pkg), lstr(s.name), lstr(s.muxField), lstr(s.mapField), sep))
	}
	b.WriteString("]\n\n")

	srcKind := func(e ast.Expr) string {
		if e == nil {
			return "absent"
		}
		switch x := e.(type) {
		case *ast.CallExpr:
			if id, ok := x.Fun.(*ast.Ident); ok && (id.Name == "make" || id.Name == "new") {
				return "fresh"
			}
			return "expr:" + src(e)
		case *ast.CompositeLit:
			return "fresh"
		case *ast.UnaryExpr:
			if _, ok := x.X.(*ast.CompositeLit); ok && x.Op == token.AND {
				return "fresh"
			}
			return "expr:" + src(e)
		case *ast.SelectorExpr:
			return "from:" + src(x.X)
		case *ast.Ident:
			if x.Name == "nil" {
				return "nil"
			}
			return "expr:" + x.Name
		}
		return "expr:" + src(e)
	}
	type lmSite struct{ file, fn, strct, kind, mapSrc, muxSrc string }
	var lmSites []lmSite
	for _, fi := range all {
		ast.Inspect(fi.decl.Body, func(n ast.Node) bool {
			switch x := n.(type) {
			case *ast.CompositeLit:
				if x.Type == nil {
					return true
				}
				t := src(x.Type)
				if i := strings.LastIndex(t, "."); i >= 0 {
					t = t[i+1:]
				}
				for _, s := range lms {
					if s.name != t {
						continue
					}
					var mp, mx ast.Expr
					for _, el := range x.Elts {
						if kv, ok := el.(*ast.KeyValueExpr); ok {
							if src(kv.Key) == s.mapField {
								mp = kv.Value
							}
							if src(kv.Key) == s.muxField {
								mx = kv.Value
							}
						}
					}
					lmSites = append(lmSites, lmSite{fi.file, fi.name, s.name, "literal", srcKind(mp), srcKind(mx)})
				}
			case *ast.AssignStmt:
				if len(x.Lhs) != len(x.Rhs) {
					return true
				}
				for i, l := range x.Lhs {
					sel, ok := l.(*ast.SelectorExpr)
					if !ok {
						continue
					}
					for _, s := range lms {
						// names only: an assignment to a field called like the map / the lock of a lock+map struct, through a
						// variable of that struct type (receiver / parameter type or a local built from its constructor / literal)
						if !c07bVarMayBe(fi.decl, src(sel.X), s.name) {
							continue
						}
						if sel.Sel.Name == s.mapField {
							lmSites = append(lmSites, lmSite{fi.file, fi.name, s.name, "assign", srcKind(x.Rhs[i]), "unchanged"})
						} else if sel.Sel.Name == s.muxField {
							lmSites = append(lmSites, lmSite{fi.file, fi.name, s.name, "assign", "unchanged", srcKind(x.Rhs[i])})
						}
					}
				}
			}
			return true
		})
	}
	b.WriteString("structure LockMapSite where\n  file : String\n  fn : String\n  strct : String\n  kind : String\n  mapKind : String\n  mapOwner : String\n  muxKind : String\n  muxOwner : String\nderiving Repr, DecidableEq\n\n")
	b.WriteString("/-- every composite literal of a lock+map struct and every assignment to its map / lock field: where the map and the lock\n  come from: kind `fresh` | `absent` | `nil` | `unchanged` | `from` (field of the existing value `owner`) | `expr` (any other\n  expression, source text in `owner`) -/\ndef lockMapSites : List LockMapSite := [\n")
	for i, s := range lmSites {
		sep := ","
		if i == len(lmSites)-1 {
			sep = ""
		}
		split := func(x string) (string, string) {
			if i := strings.Index(x, ":"); i >= 0 {
				return x[:i], x[i+1:]
			}
			return x, ""
		}
		mk, mo := split(s.mapSrc)
		xk, xo := split(s.muxSrc)
		b.WriteString(fmt.Sprintf("  { file := %s, fn := %s, strct := %s, kind := %s, mapKind := %s, mapOwner := %s, muxKind := %s, muxOwner := %s }%s\n",
			lstr(s.file), lstr(s.fn), lstr(s.strct), lstr(s.kind), lstr(mk), lstr(mo), lstr(xk), lstr(xo), sep))
	}
	b.WriteString("]\n\n")
	o.facts["lockMapSites"] = len(lmSites)

	// ---------------- C. sync.Pool New functions of the schema package ----------------
	type poolSite struct {
		file, fn, ret string
		captured      []string
	}
	var pools []poolSite
	for _, fi := range all {
		if !strings.HasPrefix(fi.file, "schema/") {
			continue
		}
		c07bPoolLits(fi.decl.Body, func(newFn *ast.FuncLit) {
			locals := c07bLocals(newFn)
			ast.Inspect(newFn.Body, func(n ast.Node) bool {
				if fl, ok := n.(*ast.FuncLit); ok && fl != newFn {
					return false
				}
				rs, ok := n.(*ast.ReturnStmt)
				if !ok || len(rs.Results) != 1 {
					return true
				}
				ps := poolSite{file: fi.file, fn: fi.name}
				res := rs.Results[0]
				if u, ok := res.(*ast.UnaryExpr); ok && u.Op == token.AND {
					res = u.X
				}
				if cl, ok := res.(*ast.CompositeLit); ok {
					ps.ret = "literal:" + src(cl.Type)
					for _, el := range cl.Elts {
						if kv, ok := el.(*ast.KeyValueExpr); ok {
							if c07bUsesOuter(kv.Value, locals) {
								ps.captured = append(ps.captured, src(kv.Key))
							}
						}
					}
				} else {
					ps.ret = "expr:" + src(res)
					// a call chain rooted in reflect.New / new / make allocates; anything else hands out an outer value
					if !(strings.HasPrefix(src(res), "reflect.New(") || strings.HasPrefix(src(res), "new(") || strings.HasPrefix(src(res), "make(")) && c07bUsesOuter(res, locals) {
						ps.captured = append(ps.captured, "<result>")
					}
				}
				pools = append(pools, ps)
				return true
			})
		})
	}
	// package-level pool initialisers (schema/pool.go)
	for fname, f := range pkgs["schema"] {
		for _, d := range f.Decls {
			gd, ok := d.(*ast.GenDecl)
			if !ok || gd.Tok != token.VAR {
				continue
			}
			c07bPoolLits(gd, func(newFn *ast.FuncLit) {
				locals := c07bLocals(newFn)
				ast.Inspect(newFn.Body, func(n ast.Node) bool {
					rs, ok := n.(*ast.ReturnStmt)
					if !ok || len(rs.Results) != 1 {
						return true
					}
					ps := poolSite{file: fname, fn: "<package var>", ret: "expr:" + src(rs.Results[0])}
					s := src(rs.Results[0])
					if !(strings.HasPrefix(s, "reflect.New(") || strings.HasPrefix(s, "new(") || strings.HasPrefix(s, "make(")) && c07bUsesOuter(rs.Results[0], locals) {
						ps.captured = append(ps.captured, "<result>")
					}
					pools = append(pools, ps)
					return true
				})
			})
		}
	}
	sort.SliceStable(pools, func(i, j int) bool { return pools[i].file+pools[i].fn < pools[j].file+pools[j].fn })
	b.WriteString("structure PoolNew where\n  file : String\n  fn : String\n  ret : String\n  captured : List String\nderiving Repr, DecidableEq\n\n")
	b.WriteString("/-- `sync.Pool{New: func() …}` literals of the schema package: what New returns and which fields of the returned holder are\n  built from identifiers captured from OUTSIDE the New closure (= shared by every holder this pool ever creates) -/\ndef poolNewSites : List PoolNew := [\n")
	for i, s := range pools {
		sep := ","
		if i == len(pools)-1 {
			sep = ""
		}
		b.WriteString(fmt.Sprintf("  { file := %s, fn := %s, ret := %s, captured := %s }%s\n", lstr(s.file), lstr(s.fn), lstr(s.ret), lstrs(s.captured), sep))
	}
	b.WriteString("]\n\n")
	o.facts["poolNewSites"] = len(pools)
	o.write("SharedConfig", b.String())
}

// c07bVarType: declared type name (without * and package) of the receiver / parameter `name`, "" if unknown
func c07bVarType(fd *ast.FuncDecl, name string) string {
	find := func(fl *ast.FieldList) string {
		if fl == nil {
			return ""
		}
		for _, f := range fl.List {
			for _, id := range f.Names {
				if id.Name == name {
					t := strings.TrimPrefix(src(f.Type), "*")
					if i := strings.LastIndex(t, "."); i >= 0 {
						t = t[i+1:]
					}
					return t
				}
			}
		}
		return ""
	}
	if t := find(fd.Recv); t != "" {
		return t
	}
	return find(fd.Type.Params)
}

// c07bVarMayBe: may the expression (an identifier or a selector chain) denote a value of struct type `typ`?  Receiver /
// parameter of that type, a local defined from `New<typ>(…)`, `&<typ>{…}` or `<typ>{…}`, or a selector whose last name
// equals the type name (embedded field, e.g. tx.PreparedStmtDB) or "Relationships".
func c07bVarMayBe(fd *ast.FuncDecl, expr, typ string) bool {
	if i := strings.LastIndex(expr, "."); i >= 0 {
		last := expr[i+1:]
		return last == typ
	}
	if c07bVarType(fd, expr) == typ {
		return true
	}
	found := false
	ast.Inspect(fd.Body, func(n ast.Node) bool {
		as, ok := n.(*ast.AssignStmt)
		if !ok || len(as.Lhs) != len(as.Rhs) {
			return true
		}
		for i, l := range as.Lhs {
			if id, ok := l.(*ast.Ident); ok && id.Name == expr {
				if _, ok := c07bIsCompositeOf(as.Rhs[i], typ); ok {
					found = true
				}
				if t := c07bCallTail(as.Rhs[i]); t == "New"+typ {
					found = true
				}
				if ta, ok := as.Rhs[i].(*ast.TypeAssertExpr); ok && strings.HasSuffix(strings.TrimPrefix(src(ta.Type), "*"), typ) {
					found = true
				}
			}
		}
		return true
	})
	return found
}

// c07bPoolLits calls f with the New function literal of every `sync.Pool{New: func…}` composite literal under n
func c07bPoolLits(n ast.Node, f func(newFn *ast.FuncLit)) {
	ast.Inspect(n, func(m ast.Node) bool {
		cl, ok := m.(*ast.CompositeLit)
		if !ok || cl.Type == nil || src(cl.Type) != "sync.Pool" {
			return true
		}
		for _, el := range cl.Elts {
			if kv, ok := el.(*ast.KeyValueExpr); ok && src(kv.Key) == "New" {
				if fl, ok := kv.Value.(*ast.FuncLit); ok {
					f(fl)
				}
			}
		}
		return true
	})
}

// c07bLocals: identifiers defined inside the function literal (parameters, :=, var)
func c07bLocals(fl *ast.FuncLit) map[string]bool {
	out := map[string]bool{}
	if fl.Type.Params != nil {
		for _, p := range fl.Type.Params.List {
			for _, id := range p.Names {
				out[id.Name] = true
			}
		}
	}
	ast.Inspect(fl.Body, func(n ast.Node) bool {
		switch x := n.(type) {
		case *ast.AssignStmt:
			if x.Tok == token.DEFINE {
				for _, l := range x.Lhs {
					if id, ok := l.(*ast.Ident); ok {
						out[id.Name] = true
					}
				}
			}
		case *ast.ValueSpec:
			for _, id := range x.Names {
				out[id.Name] = true
			}
		}
		return true
	})
	return out
}

// c07bUsesOuter: does the expression mention a VALUE identifier that is not defined inside the closure?  Type names in
// conversions / assertions and selector field names are not values.
func c07bUsesOuter(e ast.Expr, locals map[string]bool) bool {
	uses := false
	var visit func(n ast.Node)
	visit = func(n ast.Node) {
		switch x := n.(type) {
		case nil:
		case *ast.Ident:
			if !locals[x.Name] && x.Name != "nil" && x.Name != "true" && x.Name != "false" {
				uses = true
			}
		case *ast.SelectorExpr:
			// pkg.Name (reflect.New) is not a captured value; x.f captures x
			if id, ok := x.X.(*ast.Ident); ok && (id.Name == "reflect" || id.Name == "sync" || id.Name == "time") {
				return
			}
			visit(x.X)
		case *ast.CallExpr:
			visit(x.Fun)
			for _, a := range x.Args {
				visit(a)
			}
		case *ast.TypeAssertExpr:
			visit(x.X)
		case *ast.UnaryExpr:
			visit(x.X)
		case *ast.StarExpr:
			visit(x.X)
		case *ast.ParenExpr:
			visit(x.X)
		case *ast.CompositeLit:
			for _, el := range x.Elts {
				if kv, ok := el.(*ast.KeyValueExpr); ok {
					visit(kv.Value)
				} else {
					visit(el)
				}
			}
		case *ast.IndexExpr:
			visit(x.X)
			visit(x.Index)
		case *ast.BinaryExpr:
			visit(x.X)
			visit(x.Y)
		}
	}
	visit(e)
	return uses
}
