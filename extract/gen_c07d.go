package main

// C07 (round 4) fact generator → Gen/SharedState.lean.  Unlike the earlier generators this one type-checks gorm's own packages
// with go/types (every import outside gorm.io/gorm is replaced by an EMPTY fake package: selections on gorm's own structs
// resolve exactly, expressions of foreign types are `invalid` and only their source text is used).
//
//  pkgVars          every PACKAGE-LEVEL variable of gorm / schema / callbacks / clause / utils / migrator / logger: declared type,
//                   head of its initialiser, a kind ("error", "regexp", "sync", "func", "scalar", "rtype", "table" = composite
//                   literal of map / slice / array / struct values, "iface-check" = `var _ I = …`, else "other:<head>"), how many
//                   statements outside the declaration write it or write THROUGH it (v = …, v[k] = …, v.F = …, delete(v, …),
//                   v.F[k] = …) and in which functions, and the methods called on it.  A package-level object is shared by every
//                   goroutine of the process: anything that is not immutable / internally synchronised must be on an allow-list.
//  recvStmtWrites   every write through the RECEIVER `db` of a method of *DB (root package) to the receiver's Statement / Error /
//                   RowsAffected / Config: assignments, element writes, delete(), append-assign, and calls of Statement methods
//                   that (transitively) write their receiver.  `rebound` = the receiver identifier was re-assigned earlier in the
//                   function (`db = db.getInstance()`): the write then goes to the new instance.  For a shared handle the receiver
//                   IS the shared base every other goroutine clones in getInstance.
//  stmtMutators     the methods of *Statement that write their receiver (directly or through another such method)
//  schemaWrites     every write (all seven packages) whose target is a field / map element / slice element of a struct the
//                   schema cache hands out: Schema, Field, Relationships, Relationship, Polymorphic, Reference
//  schemaCallers    for every function that contains such a write: who calls it (all seven packages, resolved by go/types)

import (
	"fmt"
	"go/ast"
	"go/parser"
	"go/printer"
	"go/token"
	"go/types"
	"os"
	"path/filepath"
	"sort"
	"strings"
)

func init() {
	extraGens = append(extraGens, func(o *out, pkgs map[string]map[string]*ast.File, all []funcInfo, repo string) {
		genC07SharedState(o, repo)
	})
}

const c07dMod = "gorm.io/gorm"

type c07dPkg struct {
	rel   string
	files []*ast.File
	names []string
	tpkg  *types.Package
	info  *types.Info
}

type c07dWorld struct {
	repo string
	fset *token.FileSet
	pkgs map[string]*c07dPkg // import path -> package
}

func (w *c07dWorld) Import(path string) (*types.Package, error) {
	if path == c07dMod || strings.HasPrefix(path, c07dMod+"/") {
		p, err := w.load(path)
		if err != nil {
			return nil, err
		}
		return p.tpkg, nil
	}
	name := path
	if i := strings.LastIndex(name, "/"); i >= 0 {
		name = name[i+1:]
	}
	fp := types.NewPackage(path, name)
	fp.MarkComplete()
	return fp, nil
}

func (w *c07dWorld) load(path string) (*c07dPkg, error) {
	if p, ok := w.pkgs[path]; ok {
		return p, nil
	}
	rel := strings.TrimPrefix(strings.TrimPrefix(path, c07dMod), "/")
	if rel == "" {
		rel = "."
	}
	p := &c07dPkg{rel: rel}
	w.pkgs[path] = p
	dir := filepath.Join(w.repo, rel)
	ents, err := os.ReadDir(dir)
	if err != nil {
		return nil, err
	}
	for _, e := range ents {
		n := e.Name()
		if e.IsDir() || !strings.HasSuffix(n, ".go") || strings.HasSuffix(n, "_test.go") {
			continue
		}
		f, err := parser.ParseFile(w.fset, filepath.Join(dir, n), nil, 0)
		if err != nil {
			continue
		}
		p.files = append(p.files, f)
		p.names = append(p.names, filepath.ToSlash(filepath.Join(rel, n)))
	}
	p.info = &types.Info{Types: map[ast.Expr]types.TypeAndValue{}, Defs: map[*ast.Ident]types.Object{}, Uses: map[*ast.Ident]types.Object{},
		Selections: map[*ast.SelectorExpr]*types.Selection{}}
	conf := types.Config{Importer: w, Error: func(error) {}, FakeImportC: true, DisableUnusedImportCheck: true}
	p.tpkg, _ = conf.Check(path, w.fset, p.files, p.info)
	return p, nil
}

func (w *c07dWorld) src(n ast.Node) string {
	if n == nil {
		return ""
	}
	var b strings.Builder
	_ = printer.Fprint(&b, w.fset, n)
	return strings.Join(strings.Fields(b.String()), " ")
}

// ---- helpers ---------------------------------------------------------------------------------------------

func c07dFnName(fd *ast.FuncDecl) string {
	if fd == nil {
		return "<package>"
	}
	name := fd.Name.Name
	if fd.Recv != nil && len(fd.Recv.List) > 0 {
		t := fd.Recv.List[0].Type
		if st, ok := t.(*ast.StarExpr); ok {
			t = st.X
		}
		if ix, ok := t.(*ast.IndexExpr); ok {
			t = ix.X
		}
		if id, ok := t.(*ast.Ident); ok {
			name = id.Name + "." + name
		}
	}
	return name
}

// c07dTargets: the written locations of a statement / expression: (target expression, how)
func c07dTargets(n ast.Node) (out [][2]interface{}) {
	switch s := n.(type) {
	case *ast.AssignStmt:
		if s.Tok == token.DEFINE {
			return nil
		}
		for i, l := range s.Lhs {
			how := "assign"
			if len(s.Rhs) == len(s.Lhs) {
				if c, ok := s.Rhs[i].(*ast.CallExpr); ok {
					if id, ok := c.Fun.(*ast.Ident); ok && id.Name == "append" {
						how = "append"
					}
				}
			}
			if s.Tok != token.ASSIGN {
				how = "assign-op"
			}
			out = append(out, [2]interface{}{l, how})
		}
	case *ast.IncDecStmt:
		out = append(out, [2]interface{}{s.X, "incdec"})
	case *ast.RangeStmt:
		if s.Tok == token.ASSIGN {
			if s.Key != nil {
				out = append(out, [2]interface{}{s.Key, "assign"})
			}
			if s.Value != nil {
				out = append(out, [2]interface{}{s.Value, "assign"})
			}
		}
	case *ast.CallExpr:
		if id, ok := s.Fun.(*ast.Ident); ok && (id.Name == "delete" || id.Name == "clear") && len(s.Args) >= 1 {
			out = append(out, [2]interface{}{s.Args[0], id.Name})
		}
	}
	return out
}

// c07dPeel walks a written expression from the written location down to its base identifier.  steps: the selector / index
// steps met on the way, outermost first.
type c07dStep struct {
	sel  *ast.SelectorExpr // nil for an index / deref step
	kind string            // "field" | "index" | "deref"
}

func c07dPeel(e ast.Expr) (steps []c07dStep, base *ast.Ident) {
	for {
		switch x := e.(type) {
		case *ast.ParenExpr:
			e = x.X
		case *ast.StarExpr:
			steps = append(steps, c07dStep{kind: "deref"})
			e = x.X
		case *ast.IndexExpr:
			steps = append(steps, c07dStep{kind: "index"})
			e = x.X
		case *ast.SliceExpr:
			e = x.X
		case *ast.SelectorExpr:
			steps = append(steps, c07dStep{sel: x, kind: "field"})
			e = x.X
		case *ast.Ident:
			return steps, x
		default:
			return steps, nil
		}
	}
}

func c07dNamed(t types.Type) *types.Named {
	for {
		switch x := t.(type) {
		case *types.Pointer:
			t = x.Elem()
		case *types.Named:
			return x
		default:
			if a, ok := t.(*types.Alias); ok {
				t = types.Unalias(a)
				continue
			}
			return nil
		}
	}
}

func c07dIsPointer(t types.Type) bool {
	_, ok := types.Unalias(t).Underlying().(*types.Pointer)
	return ok
}

// ---- the generator ---------------------------------------------------------------------------------------

type c07dVar struct {
	pkg, name, file, typ, init, kind string
	writes                             int
	writers, calls                     []string
	obj                                types.Object
}

var c07dCachedStructs = map[string]bool{"Schema": true, "Field": true, "Relationships": true, "Relationship": true, "Polymorphic": true, "Reference": true}

func genC07SharedState(o *out, repo string) {
	w := &c07dWorld{repo: repo, fset: token.NewFileSet(), pkgs: map[string]*c07dPkg{}}
	order := []string{"utils", "clause", "logger", "schema", ".", "callbacks", "migrator"}
	var loaded []*c07dPkg
	for _, rel := range order {
		path := c07dMod
		if rel != "." {
			path += "/" + rel
		}
		p, err := w.load(path)
		if err != nil || p.tpkg == nil {
			fmt.Fprintln(os.Stderr, "gen_c07d: cannot load", path, err)
			continue
		}
		loaded = append(loaded, p)
	}
	pkgLabel := func(rel string) string {
		if rel == "." {
			return "gorm"
		}
		return rel
	}

	// ---------- A. package-level variables ----------
	var vars []*c07dVar
	byObj := map[types.Object]*c07dVar{}
	for _, p := range loaded {
		for fi, f := range p.files {
			for _, d := range f.Decls {
				gd, ok := d.(*ast.GenDecl)
				if !ok || gd.Tok != token.VAR {
					continue
				}
				for _, sp := range gd.Specs {
					vs := sp.(*ast.ValueSpec)
					for i, id := range vs.Names {
						v := &c07dVar{pkg: pkgLabel(p.rel), name: id.Name, file: p.names[fi], typ: w.src(vs.Type)}
						var init ast.Expr
						if i < len(vs.Values) {
							init = vs.Values[i]
						} else if len(vs.Values) == 1 && len(vs.Names) > 1 {
							init = vs.Values[0]
						}
						v.init, v.kind = c07dClassify(w, vs.Type, init, id.Name)
						v.obj = p.info.Defs[id]
						vars = append(vars, v)
						if v.obj != nil {
							byObj[v.obj] = v
						}
					}
				}
			}
		}
	}

	// ---------- walk every function of every package ----------
	type rw struct{ file, fn, target, how string; exported, rebound, inLit bool; line int }
	var recvWrites []rw
	type sw struct{ pkg, file, fn, strct, field, how string; inLit bool; line int }
	var schemaWrites []sw
	type edge struct{ pkg, caller, callee string }
	var edges []edge
	// Statement methods: direct receiver writes + calls of other Statement methods on the receiver
	stmtDirect := map[string]bool{}
	stmtCalls := map[string][]string{}
	type pendingCall struct{ file, fn, method string; exported, rebound, inLit bool; line int }
	var recvStmtCalls []pendingCall
	schemaPkg := w.pkgs[c07dMod+"/schema"]
	funcObjName := func(obj types.Object) string { // "Schema.LookUpField" / "ParseWithSpecialTableName"
		fn, ok := obj.(*types.Func)
		if !ok {
			return ""
		}
		sig, _ := fn.Type().(*types.Signature)
		if sig != nil && sig.Recv() != nil {
			if n := c07dNamed(sig.Recv().Type()); n != nil {
				return n.Obj().Name() + "." + fn.Name()
			}
		}
		return fn.Name()
	}

	for _, p := range loaded {
		for fi, f := range p.files {
			file := p.names[fi]
			for _, d := range f.Decls {
				fd, ok := d.(*ast.FuncDecl)
				if !ok || fd.Body == nil {
					continue
				}
				fn := c07dFnName(fd)
				var recvObj types.Object
				recvIsDB, recvIsStmt := false, false
				if fd.Recv != nil && len(fd.Recv.List) > 0 && len(fd.Recv.List[0].Names) > 0 {
					recvObj = p.info.Defs[fd.Recv.List[0].Names[0]]
					if recvObj != nil {
						if n := c07dNamed(recvObj.Type()); n != nil && n.Obj().Pkg() != nil && n.Obj().Pkg().Path() == c07dMod {
							recvIsDB = n.Obj().Name() == "DB" && c07dIsPointer(recvObj.Type())
							recvIsStmt = n.Obj().Name() == "Statement" && c07dIsPointer(recvObj.Type())
						}
					}
				}
				// positions where the receiver identifier itself is re-assigned
				var rebinds []token.Pos
				if recvObj != nil {
					ast.Inspect(fd.Body, func(n ast.Node) bool {
						if as, ok := n.(*ast.AssignStmt); ok && as.Tok == token.ASSIGN {
							for _, l := range as.Lhs {
								if id, ok := l.(*ast.Ident); ok && p.info.Uses[id] == recvObj {
									rebinds = append(rebinds, as.Pos())
								}
							}
						}
						return true
					})
				}
				reboundAt := func(pos token.Pos) bool {
					for _, r := range rebinds {
						if r < pos {
							return true
						}
					}
					return false
				}
				litDepth := 0
				var visit func(n ast.Node) bool
				visit = func(n ast.Node) bool {
					if n == nil {
						return true
					}
					if fl, ok := n.(*ast.FuncLit); ok {
						litDepth++
						ast.Inspect(fl.Body, visit)
						litDepth--
						return false
					}
					line := w.fset.Position(n.Pos()).Line
					for _, t := range c07dTargets(n) {
						target, how := t[0].(ast.Expr), t[1].(string)
						steps, base := c07dPeel(target)
						if base == nil {
							continue
						}
						baseObj := p.info.Uses[base]
						if baseObj == nil {
							baseObj = p.info.Defs[base]
						}
						// A: writes to / through a package-level variable
						if v, ok := byObj[baseObj]; ok {
							v.writes++
							v.writers = append(v.writers, fn)
						}
						// B: writes through the receiver of a *DB method
						if recvIsDB && baseObj == recvObj && len(steps) > 0 {
							var path []string
							for i := len(steps) - 1; i >= 0; i-- {
								switch steps[i].kind {
								case "field":
									path = append(path, steps[i].sel.Sel.Name)
								case "index":
									path = append(path, "[]")
								}
							}
							recvWrites = append(recvWrites, rw{file: file, fn: fn, target: strings.Join(path, "."), how: how,
								exported: ast.IsExported(fd.Name.Name), rebound: reboundAt(n.Pos()), inLit: litDepth > 0, line: line})
						}
						// Statement methods writing their receiver
						if recvIsStmt && baseObj == recvObj && len(steps) > 0 {
							stmtDirect[fd.Name.Name] = true
						}
						// C: writes into the structs the schema cache hands out (outermost such field selection)
						elem := false
						for _, st := range steps {
							if st.kind != "field" {
								elem = true
								continue
							}
							sel := p.info.Selections[st.sel]
							if sel == nil || sel.Kind() != types.FieldVal {
								continue
							}
							n := c07dNamed(sel.Recv())
							if n == nil || n.Obj().Pkg() == nil || n.Obj().Pkg().Path() != c07dMod+"/schema" || !c07dCachedStructs[n.Obj().Name()] {
								continue
							}
							// a plain field assignment on a local VALUE copy is private to the function
							if !elem {
								if id, ok := st.sel.X.(*ast.Ident); ok {
									if ob := p.info.Uses[id]; ob != nil && !c07dIsPointer(ob.Type()) {
										if _, isVar := ob.(*types.Var); isVar && ob.Parent() != ob.Pkg().Scope() {
											break
										}
									}
								}
							}
							h := how
							if elem {
								h = "elem-" + how
							}
							schemaWrites = append(schemaWrites, sw{pkg: pkgLabel(p.rel), file: file, fn: fn, strct: n.Obj().Name(), field: st.sel.Sel.Name, how: h, inLit: litDepth > 0, line: line})
							break
						}
					}
					if call, ok := n.(*ast.CallExpr); ok {
						if sel, ok := call.Fun.(*ast.SelectorExpr); ok {
							// methods called on a package-level variable
							if id, ok := sel.X.(*ast.Ident); ok {
								if v, ok := byObj[p.info.Uses[id]]; ok {
									v.calls = append(v.calls, sel.Sel.Name)
								}
							}
							// Statement methods called on the Statement method's own receiver
							if recvIsStmt {
								if id, ok := sel.X.(*ast.Ident); ok && p.info.Uses[id] == recvObj {
									stmtCalls[fd.Name.Name] = append(stmtCalls[fd.Name.Name], sel.Sel.Name)
								}
							}
							// db.Statement.M(…) through the receiver of a *DB method
							if recvIsDB {
								if inner, ok := sel.X.(*ast.SelectorExpr); ok && inner.Sel.Name == "Statement" {
									if id, ok := inner.X.(*ast.Ident); ok && p.info.Uses[id] == recvObj {
										recvStmtCalls = append(recvStmtCalls, pendingCall{file: file, fn: fn, method: sel.Sel.Name, exported: ast.IsExported(fd.Name.Name),
											rebound: reboundAt(n.Pos()), inLit: litDepth > 0, line: line})
									}
								}
							}
						}
						// call edges into the schema package
						var callee types.Object
						switch fx := call.Fun.(type) {
						case *ast.Ident:
							callee = p.info.Uses[fx]
						case *ast.SelectorExpr:
							callee = p.info.Uses[fx.Sel]
						}
						if callee != nil && callee.Pkg() != nil && schemaPkg != nil && callee.Pkg() == schemaPkg.tpkg {
							if name := funcObjName(callee); name != "" {
								edges = append(edges, edge{pkg: pkgLabel(p.rel), caller: fn, callee: name})
							}
						}
					}
					return true
				}
				ast.Inspect(fd.Body, visit)
			}
		}
	}

	// Statement mutators: closure of "writes its receiver directly" under "calls such a method on its receiver"
	mut := map[string]bool{}
	for m := range stmtDirect {
		mut[m] = true
	}
	for changed := true; changed; {
		changed = false
		for m, cs := range stmtCalls {
			if mut[m] {
				continue
			}
			for _, c := range cs {
				if mut[c] {
					mut[m] = true
					changed = true
					break
				}
			}
		}
	}
	var mutNames []string
	for m := range mut {
		mutNames = append(mutNames, m)
	}
	sort.Strings(mutNames)
	for _, c := range recvStmtCalls {
		if mut[c.method] {
			recvWrites = append(recvWrites, rw{file: c.file, fn: c.fn, target: "Statement", how: "method:" + c.method, exported: c.exported, rebound: c.rebound, inLit: c.inLit, line: c.line})
		}
	}
	sort.SliceStable(recvWrites, func(i, j int) bool {
		if recvWrites[i].file != recvWrites[j].file {
			return recvWrites[i].file < recvWrites[j].file
		}
		return recvWrites[i].line < recvWrites[j].line
	})

	// ---------- output ----------
	var b strings.Builder
	b.WriteString("structure PkgVar where\n  pkg : String\n  name : String\n  file : String\n  typ : String\n  init : String\n  kind : String\n  writes : Nat\n  writers : List String\n  calls : List String\nderiving Repr, DecidableEq\n\n")
	b.WriteString("/-- every package-level variable of the gorm, schema, callbacks, clause, utils, migrator and logger packages (non-test files):\n    `kind` classifies declared type / initialiser; `writes` counts statements outside the declaration that assign it or write through\n    it (element / field / delete), `writers` the functions they are in, `calls` the methods invoked on it -/\n")
	b.WriteString("def pkgVars : List PkgVar := [\n")
	sort.SliceStable(vars, func(i, j int) bool {
		if vars[i].pkg != vars[j].pkg {
			return vars[i].pkg < vars[j].pkg
		}
		if vars[i].file != vars[j].file {
			return vars[i].file < vars[j].file
		}
		return vars[i].name < vars[j].name
	})
	for i, v := range vars {
		sep := ","
		if i == len(vars)-1 {
			sep = ""
		}
		fmt.Fprintf(&b, "  { pkg := %s, name := %s, file := %s, typ := %s, init := %s, kind := %s, writes := %d, writers := %s, calls := %s }%s\n",
			lstr(v.pkg), lstr(v.name), lstr(v.file), lstr(v.typ), lstr(v.init), lstr(v.kind), v.writes, lstrs(c07dUniq(v.writers)), lstrs(c07dUniq(v.calls)), sep)
	}
	b.WriteString("]\n\n")

	b.WriteString("structure RecvWrite where\n  file : String\n  fn : String\n  line : Nat\n  target : String\n  how : String\n  exported : Bool\n  rebound : Bool\n  inLit : Bool\nderiving Repr, DecidableEq\n\n")
	b.WriteString("/-- root package, methods of *DB: every write through the RECEIVER to its Statement / Error / RowsAffected / Config … (assignment,\n    element write, delete, append-assign, call of a Statement method that writes its receiver); `rebound` = the receiver identifier was\n    re-assigned before the write (`db = db.getInstance()`) -/\n")
	b.WriteString("def recvWrites : List RecvWrite := [\n")
	for i, r := range recvWrites {
		sep := ","
		if i == len(recvWrites)-1 {
			sep = ""
		}
		fmt.Fprintf(&b, "  { file := %s, fn := %s, line := %d, target := %s, how := %s, exported := %s, rebound := %s, inLit := %s }%s\n",
			lstr(r.file), lstr(r.fn), r.line, lstr(r.target), lstr(r.how), lbool(r.exported), lbool(r.rebound), lbool(r.inLit), sep)
	}
	b.WriteString("]\n\n")
	fmt.Fprintf(&b, "/-- methods of *Statement that write their receiver, directly or through another such method called on the receiver -/\ndef stmtMutators : List String := %s\n\n", lstrs(mutNames))

	b.WriteString("structure SchemaWrite where\n  pkg : String\n  file : String\n  fn : String\n  line : Nat\n  strct : String\n  field : String\n  how : String\n  inLit : Bool\nderiving Repr, DecidableEq\n\n")
	b.WriteString("/-- all seven packages: every write whose target is a field / element of a struct the schema cache hands out (Schema, Field,\n    Relationships, Relationship, Polymorphic, Reference), resolved by go/types; `inLit` = inside a function literal -/\n")
	b.WriteString("def schemaWrites : List SchemaWrite := [\n")
	sort.SliceStable(schemaWrites, func(i, j int) bool {
		if schemaWrites[i].file != schemaWrites[j].file {
			return schemaWrites[i].file < schemaWrites[j].file
		}
		return schemaWrites[i].line < schemaWrites[j].line
	})
	writerFns := map[string]bool{}
	for i, s := range schemaWrites {
		sep := ","
		if i == len(schemaWrites)-1 {
			sep = ""
		}
		writerFns[s.fn] = true
		fmt.Fprintf(&b, "  { pkg := %s, file := %s, fn := %s, line := %d, strct := %s, field := %s, how := %s, inLit := %s }%s\n",
			lstr(s.pkg), lstr(s.file), lstr(s.fn), s.line, lstr(s.strct), lstr(s.field), lstr(s.how), lbool(s.inLit), sep)
	}
	b.WriteString("]\n\n")

	b.WriteString("structure SchemaCall where\n  pkg : String\n  caller : String\n  callee : String\nderiving Repr, DecidableEq\n\n")
	b.WriteString("/-- who calls the functions of the schema package that contain one of `schemaWrites` (distinct (package, caller, callee)) -/\n")
	b.WriteString("def schemaCallers : List SchemaCall := [\n")
	seen := map[string]bool{}
	var es []edge
	for _, e := range edges {
		if !writerFns[e.callee] {
			continue
		}
		k := e.pkg + "|" + e.caller + "|" + e.callee
		if seen[k] {
			continue
		}
		seen[k] = true
		es = append(es, e)
	}
	sort.SliceStable(es, func(i, j int) bool {
		if es[i].callee != es[j].callee {
			return es[i].callee < es[j].callee
		}
		if es[i].pkg != es[j].pkg {
			return es[i].pkg < es[j].pkg
		}
		return es[i].caller < es[j].caller
	})
	for i, e := range es {
		sep := ","
		if i == len(es)-1 {
			sep = ""
		}
		fmt.Fprintf(&b, "  { pkg := %s, caller := %s, callee := %s }%s\n", lstr(e.pkg), lstr(e.caller), lstr(e.callee), sep)
	}
	b.WriteString("]\n")
	o.write("SharedState", b.String())
}

func c07dUniq(ss []string) []string {
	m := map[string]bool{}
	var out []string
	for _, s := range ss {
		if !m[s] {
			m[s] = true
			out = append(out, s)
		}
	}
	sort.Strings(out)
	return out
}

// c07dClassify: (head of the initialiser, kind)
func c07dClassify(w *c07dWorld, typ ast.Expr, init ast.Expr, name string) (string, string) {
	ts := w.src(typ)
	head := ""
	var lit *ast.CompositeLit
	switch x := init.(type) {
	case nil:
		head = ""
	case *ast.BasicLit:
		head = "basic"
	case *ast.Ident:
		head = "ident:" + x.Name
	case *ast.FuncLit:
		head = "func"
	case *ast.CompositeLit:
		head = "lit:" + w.src(x.Type)
		lit = x
	case *ast.UnaryExpr:
		if cl, ok := x.X.(*ast.CompositeLit); ok && x.Op == token.AND {
			head = "lit:&" + w.src(cl.Type)
		} else {
			head = "expr:" + w.src(x)
		}
	case *ast.CallExpr:
		head = "call:" + w.src(x.Fun)
		if _, ok := x.Fun.(*ast.FuncLit); ok {
			head = "call:func-literal"
		}
		if p, ok := x.Fun.(*ast.ParenExpr); ok { // conversion (*T)(nil)
			head = "conv:" + w.src(p.X)
		}
	default:
		head = "expr:" + w.src(init)
	}
	all := ts + " " + head
	switch {
	case name == "_":
		return head, "iface-check"
	case ts == "error" || head == "call:errors.New" || head == "call:fmt.Errorf":
		return head, "error"
	case head == "call:regexp.MustCompile":
		return head, "regexp"
	case strings.Contains(all, "sync.") || strings.Contains(all, "atomic."):
		return head, "sync"
	case head == "func" || strings.HasPrefix(ts, "func("):
		return head, "func"
	case strings.HasPrefix(head, "call:reflect.TypeOf") || strings.HasPrefix(head, "call:reflect.TypeFor"):
		return head, "rtype"
	case head == "basic" || ts == "string" || ts == "bool" || ts == "int" || ts == "int64" || ts == "uint" || ts == "time.Duration":
		return head, "scalar"
	case lit != nil:
		return head, "table"
	}
	return head, "other:" + head
}
