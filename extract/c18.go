package main

// C18: guarded-statement view of the functions that bind / carry Statement.Context
// (gorm.go Session, getInstance).  For every simple statement of the body, in source order:
// the path condition (the enclosing if-conditions as and/or/not trees over source atoms, negated
// for else branches and after early returns; switch/for/select/closure bodies get an `opaque`
// element), the assignment's left-hand sides split into selector components, the right-hand
// sides as text (composite literals as type + field table) and every expression written
// anywhere inside the statement.  Nothing is classified here: the Lean model
// (Model/SessionRun.lean) decides which statements touch the statement / its context and
// refuses (theorem fails) whatever it does not recognise.

import (
	"fmt"
	"go/ast"
	"go/token"
	"os"
	"path/filepath"
	"sort"
	"strings"
)

type c18Stmt struct {
	path   []string // Lean Cond terms
	kind   string
	lhs    [][]string
	rhs    []string
	lit    [][2]string
	writes [][]string
	src    string
}

func c18Cond(e ast.Expr) string {
	switch x := e.(type) {
	case *ast.ParenExpr:
		return c18Cond(x.X)
	case *ast.UnaryExpr:
		if x.Op == token.NOT {
			return "(.not " + c18Cond(x.X) + ")"
		}
	case *ast.BinaryExpr:
		if x.Op == token.LAND {
			return "(.and " + c18Cond(x.X) + " " + c18Cond(x.Y) + ")"
		}
		if x.Op == token.LOR {
			return "(.or " + c18Cond(x.X) + " " + c18Cond(x.Y) + ")"
		}
	}
	return "(.atom " + lstr(src(e)) + ")"
}

func c18SelPath(e ast.Expr) []string {
	switch x := e.(type) {
	case *ast.Ident:
		return []string{x.Name}
	case *ast.SelectorExpr:
		return append(c18SelPath(x.X), x.Sel.Name)
	case *ast.ParenExpr:
		return c18SelPath(x.X)
	case *ast.StarExpr:
		return c18SelPath(x.X)
	case *ast.IndexExpr:
		return append(c18SelPath(x.X), "[]")
	}
	return []string{src(e)}
}

// every expression assigned / inc-dec'ed anywhere inside n (closures included)
func c18Writes(n ast.Node) [][]string {
	var out [][]string
	if n == nil {
		return out
	}
	ast.Inspect(n, func(m ast.Node) bool {
		switch x := m.(type) {
		case *ast.AssignStmt:
			for _, l := range x.Lhs {
				out = append(out, c18SelPath(l))
			}
		case *ast.IncDecStmt:
			out = append(out, c18SelPath(x.X))
		case *ast.ValueSpec:
			for _, nm := range x.Names {
				out = append(out, []string{nm.Name})
			}
		case *ast.RangeStmt:
			if x.Key != nil {
				out = append(out, c18SelPath(x.Key))
			}
			if x.Value != nil {
				out = append(out, c18SelPath(x.Value))
			}
		}
		return true
	})
	return out
}

func c18Rhs(e ast.Expr) (string, [][2]string) {
	inner := e
	amp := ""
	if u, ok := e.(*ast.UnaryExpr); ok && u.Op == token.AND {
		inner = u.X
		amp = "&"
	}
	if cl, ok := inner.(*ast.CompositeLit); ok {
		var fs [][2]string
		for _, el := range cl.Elts {
			if kv, ok := el.(*ast.KeyValueExpr); ok {
				fs = append(fs, [2]string{src(kv.Key), src(kv.Value)})
			} else {
				fs = append(fs, [2]string{"", src(el)})
			}
		}
		return amp + src(cl.Type) + "{}", fs
	}
	return src(e), nil
}

type c18Walker struct{ out []c18Stmt }

func (w *c18Walker) emit(path []string, s c18Stmt) {
	s.path = append([]string(nil), path...)
	w.out = append(w.out, s)
}

func (w *c18Walker) block(stmts []ast.Stmt, path []string) {
	path = append([]string(nil), path...)
	for _, s := range stmts {
		w.stmt(s, path)
		if is, ok := s.(*ast.IfStmt); ok && is.Else == nil && endsWithReturn(is.Body) {
			path = append(path, "(.not "+c18Cond(is.Cond)+")")
		}
	}
}

func (w *c18Walker) opaque(what string, n ast.Node) string {
	return "(.opaque " + lstr(what+" "+trunc120(src(n))) + ")"
}

func trunc120(s string) string {
	if len(s) > 120 {
		return s[:120]
	}
	return s
}

func (w *c18Walker) stmt(s ast.Stmt, path []string) {
	switch x := s.(type) {
	case nil:
	case *ast.BlockStmt:
		w.block(x.List, path)
	case *ast.IfStmt:
		if x.Init != nil {
			w.stmt(x.Init, path)
		}
		c := c18Cond(x.Cond)
		w.block(x.Body.List, append(append([]string(nil), path...), c))
		if x.Else != nil {
			ep := append(append([]string(nil), path...), "(.not "+c+")")
			switch e := x.Else.(type) {
			case *ast.BlockStmt:
				w.block(e.List, ep)
			default:
				w.stmt(e, ep)
			}
		}
	case *ast.AssignStmt:
		st := c18Stmt{kind: "assign", src: src(x), writes: c18Writes(x)}
		if x.Tok != token.ASSIGN && x.Tok != token.DEFINE {
			st.kind = "opassign"
		}
		for _, l := range x.Lhs {
			st.lhs = append(st.lhs, c18SelPath(l))
		}
		for _, r := range x.Rhs {
			t, lit := c18Rhs(r)
			st.rhs = append(st.rhs, t)
			if len(x.Rhs) == 1 {
				st.lit = lit
			}
		}
		w.emit(path, st)
	case *ast.DeclStmt:
		gd, ok := x.Decl.(*ast.GenDecl)
		if !ok {
			w.emit(path, c18Stmt{kind: "other", src: src(x), writes: c18Writes(x)})
			return
		}
		for _, sp := range gd.Specs {
			vs, ok := sp.(*ast.ValueSpec)
			if !ok {
				continue
			}
			st := c18Stmt{kind: "assign", src: src(vs), writes: c18Writes(vs)}
			if len(vs.Values) == 0 {
				st.kind = "decl"
			}
			for _, nm := range vs.Names {
				st.lhs = append(st.lhs, []string{nm.Name})
			}
			for _, r := range vs.Values {
				t, lit := c18Rhs(r)
				st.rhs = append(st.rhs, t)
				if len(vs.Values) == 1 {
					st.lit = lit
				}
			}
			w.emit(path, st)
		}
	case *ast.ExprStmt:
		w.emit(path, c18Stmt{kind: "expr", rhs: []string{src(x.X)}, src: src(x), writes: c18Writes(x)})
	case *ast.ReturnStmt:
		st := c18Stmt{kind: "return", src: src(x), writes: c18Writes(x)}
		for _, r := range x.Results {
			st.rhs = append(st.rhs, src(r))
		}
		w.emit(path, st)
	case *ast.DeferStmt:
		w.emit(path, c18Stmt{kind: "defer", rhs: []string{src(x.Call)}, src: src(x), writes: c18Writes(x)})
	case *ast.GoStmt:
		w.emit(path, c18Stmt{kind: "go", rhs: []string{src(x.Call)}, src: src(x), writes: c18Writes(x)})
	case *ast.IncDecStmt:
		w.emit(path, c18Stmt{kind: "opassign", lhs: [][]string{c18SelPath(x.X)}, src: src(x), writes: c18Writes(x)})
	case *ast.SwitchStmt:
		if x.Init != nil {
			w.stmt(x.Init, path)
		}
		for _, c := range x.Body.List {
			cc := c.(*ast.CaseClause)
			w.block(cc.Body, append(append([]string(nil), path...), w.opaque("switch-case", cc)))
		}
	case *ast.TypeSwitchStmt:
		if x.Init != nil {
			w.stmt(x.Init, path)
		}
		w.stmt(x.Assign, append(append([]string(nil), path...), w.opaque("type-switch", x.Assign)))
		for _, c := range x.Body.List {
			cc := c.(*ast.CaseClause)
			w.block(cc.Body, append(append([]string(nil), path...), w.opaque("type-switch-case", cc)))
		}
	case *ast.ForStmt:
		p := append(append([]string(nil), path...), w.opaque("for", x))
		w.stmt(x.Init, p)
		w.stmt(x.Post, p)
		w.block(x.Body.List, p)
	case *ast.RangeStmt:
		p := append(append([]string(nil), path...), w.opaque("range", x))
		w.emit(p, c18Stmt{kind: "other", src: "range " + src(x.X), writes: c18Writes(&ast.RangeStmt{Key: x.Key, Value: x.Value, X: x.X, Body: &ast.BlockStmt{}})})
		w.block(x.Body.List, p)
	case *ast.SelectStmt:
		for _, c := range x.Body.List {
			cc := c.(*ast.CommClause)
			p := append(append([]string(nil), path...), w.opaque("select-case", cc))
			w.stmt(cc.Comm, p)
			w.block(cc.Body, p)
		}
	case *ast.LabeledStmt:
		w.stmt(x.Stmt, path)
	default:
		w.emit(path, c18Stmt{kind: "other", src: src(s), writes: c18Writes(s)})
	}
}

func c18Paths(ps [][]string) string {
	q := make([]string, len(ps))
	for i, p := range ps {
		q[i] = lstrs(p)
	}
	return "[" + strings.Join(q, ", ") + "]"
}

func c18Body(fd *ast.FuncDecl) string {
	w := &c18Walker{}
	if fd != nil {
		w.block(fd.Body.List, nil)
	}
	var rows []string
	for _, s := range w.out {
		rows = append(rows, fmt.Sprintf("  { path := [%s], kind := %s, lhs := %s, rhs := %s, lit := %s, writes := %s, src := %s }",
			strings.Join(s.path, ", "), lstr(s.kind), c18Paths(s.lhs), lstrs(s.rhs), pairs(s.lit), c18Paths(s.writes), lstr(trunc120(s.src))))
	}
	return "[\n" + strings.Join(rows, ",\n") + "\n]"
}

// genC18 writes Gen/SessionBody.lean (own header: the shapes live in Model/SessionShape.lean).
func c18ContextHolders(pkgs map[string]map[string]*ast.File) []string {
	var out []string
	var rels []string
	for rel := range pkgs {
		rels = append(rels, rel)
	}
	sort.Strings(rels)
	for _, rel := range rels {
		var names []string
		for n := range pkgs[rel] {
			names = append(names, n)
		}
		sort.Strings(names)
		for _, fn := range names {
			ast.Inspect(pkgs[rel][fn], func(n ast.Node) bool {
				ts, ok := n.(*ast.TypeSpec)
				if !ok {
					return true
				}
				st, ok := ts.Type.(*ast.StructType)
				if !ok {
					return true
				}
				for _, fl := range st.Fields.List {
					if src(fl.Type) != "context.Context" {
						continue
					}
					if len(fl.Names) == 0 {
						out = append(out, fmt.Sprintf("  (%s, %s, %s)", lstr(fn), lstr(ts.Name.Name), lstr("<embedded>")))
					}
					for _, nm := range fl.Names {
						out = append(out, fmt.Sprintf("  (%s, %s, %s)", lstr(fn), lstr(ts.Name.Name), lstr(nm.Name)))
					}
				}
				return true
			})
		}
	}
	return out
}

func genC18(o *out, pkgs map[string]map[string]*ast.File, all []funcInfo) {
	root := pkgs["."]
	var b strings.Builder
	b.WriteString("-- GENERATED by /verif/extract from /repo's working tree. Do not edit.\nimport GormModel.Model.SessionShape\nnamespace Gorm.Gen\nopen Gorm\n\n")
	fmt.Fprintf(&b, "/-- gorm.go `(*DB).Session`: every simple statement of the body with its path condition -/\ndef sessionBody : List GStmt := %s\n\n", c18Body(findFunc(root, "DB.Session")))
	fmt.Fprintf(&b, "/-- gorm.go `(*DB).getInstance`: every simple statement of the body with its path condition -/\ndef getInstanceBody : List GStmt := %s\n\n", c18Body(findFunc(root, "DB.getInstance")))
	fmt.Fprintf(&b, "/-- fields of `type Session struct` with their types -/\ndef sessionFieldTypes : List (String × String) := %s\n", pairs(c18StructFieldTypes(root, "Session")))
	// every assignment to a `Context` field/variable path and every `context.X(…)` call, repo-wide (non-test)
	var writes, makes []string
	for _, fi := range all {
		fi := fi
		var stack []ast.Node
		ast.Inspect(fi.decl.Body, func(n ast.Node) bool {
			if n == nil {
				stack = stack[:len(stack)-1]
				return true
			}
			switch x := n.(type) {
			case *ast.AssignStmt:
				for i, l := range x.Lhs {
					p := c18SelPath(l)
					if p[len(p)-1] == "Context" {
						r := ""
						if len(x.Rhs) == len(x.Lhs) {
							r = src(x.Rhs[i])
						} else if len(x.Rhs) > 0 {
							r = src(x.Rhs[0])
						}
						writes = append(writes, fmt.Sprintf("  (%s, %s, %s, %s)", lstr(fi.file), lstr(fi.name), lstr(src(l)), lstr(r)))
					}
				}
			case *ast.CallExpr:
				if sel, ok := x.Fun.(*ast.SelectorExpr); ok {
					if id, ok := sel.X.(*ast.Ident); ok && id.Name == "context" {
						use := "other"
						if len(stack) > 0 {
							switch p := stack[len(stack)-1].(type) {
							case *ast.CallExpr:
								if ps, ok := p.Fun.(*ast.SelectorExpr); ok {
									use = "arg:" + ps.Sel.Name
								} else {
									use = "arg:" + src(p.Fun)
								}
							case *ast.KeyValueExpr:
								use = "field:" + src(p.Key)
							}
						}
						makes = append(makes, fmt.Sprintf("  (%s, %s, %s, %s)", lstr(fi.file), lstr(fi.name), lstr(trunc120(src(x))), lstr(use)))
					}
				}
			}
			stack = append(stack, n)
			return true
		})
	}
	fmt.Fprintf(&b, "\n/-- every assignment whose target path ends in `Context` (file, function, target, value) -/\ndef contextWrites : List (String × String × String × String) := [\n%s\n]\n", strings.Join(writes, ",\n"))
	fmt.Fprintf(&b, "\n/-- every call of a function of package `context` (file, function, call, how its result is used) -/\ndef contextMakes : List (String × String × String × String) := [\n%s\n]\n", strings.Join(makes, ",\n"))
	fmt.Fprintf(&b, "\n/-- every struct type with a field of type `context.Context` (file, type, field) -/\ndef contextHolders : List (String × String × String) := [\n%s\n]\n", strings.Join(c18ContextHolders(pkgs), ",\n"))
	b.WriteString("\nend Gorm.Gen\n")
	o.writeRaw("SessionBody", b.String())
}

func c18StructFieldTypes(files map[string]*ast.File, typeName string) [][2]string {
	var out [][2]string
	for _, f := range files {
		for _, d := range f.Decls {
			gd, ok := d.(*ast.GenDecl)
			if !ok {
				continue
			}
			for _, sp := range gd.Specs {
				ts, ok := sp.(*ast.TypeSpec)
				if !ok || ts.Name.Name != typeName {
					continue
				}
				st, ok := ts.Type.(*ast.StructType)
				if !ok {
					continue
				}
				for _, fl := range st.Fields.List {
					for _, nm := range fl.Names {
						out = append(out, [2]string{nm.Name, src(fl.Type)})
					}
				}
			}
		}
	}
	return out
}

func (o *out) writeRaw(name, content string) {
	p := filepath.Join(o.dir, name+".lean")
	old, err := os.ReadFile(p)
	if err == nil && string(old) == content {
		return
	}
	if err := os.WriteFile(p, []byte(content), 0o644); err != nil {
		panic(err)
	}
}
