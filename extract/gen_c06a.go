package main

// C06 round 3 fact generator → Gen/C06ArgSites.lean.  EVERY place of gorm (root package, callbacks, clause, schema,
// migrator, utils) where a value is recognised as a *gorm.DB handed in as an ARGUMENT of another chain:
//   * `case *DB:` / `case *gorm.DB:` arms of type switches,
//   * type assertions `x.(*DB)` / `x.(*gorm.DB)` (in an `if v, ok := …; ok { … }`, an assignment, or bare).
// For each site the body that works with the argument is turned into a list of dumb syntactic EVENTS, in source
// order, about what is done with the bound variable (`own` names), with locals that were assigned from an expression
// mentioning it (`alias` names: struct copies whose slices still point into the argument's statement) and with
// locals obtained through a derivation (`copy` names: `v.Session(…)`, `….getInstance()`):
//   call        method called on a receiver chain rooted in the argument (what = "<path>.<method>");
//               viaCopy = the chain passes through Session/getInstance/WithContext/Debug/Begin BEFORE this method
//   rebind      the bound variable itself is reassigned from a derivation chain (it now names a private copy)
//   elemAssign  `x[i] = …` where x is rooted in the argument or an alias (a WRITE into the argument's array / map)
//   fieldAssign `v.F… = …` through the argument itself or a pointer alias (a WRITE into the argument's statement)
//   localAssign `alias.F = …` on a struct-copy alias (local, no write)
//   append      `append(x, …)` with x rooted in the argument or an alias (may write into spare capacity)
//   pass        the argument (or `v.Statement`) handed to another function as a call argument
//   aliasCall   method called on an alias local (value receiver working on shared slices)
//   aliasArg    alias local (or a field of it) handed to a function
//   store       `&alias` / alias field stored into a composite literal or another variable (sharing, no write)
// Plus: every use of a field of the `join` records (`join.On`, `.Selects`, `.Omits`, `.Conds`) in callbacks/*.go —
// these fields ALIAS the argument handle's statement after `Joins("Rel", handle)`.

import (
	"fmt"
	"go/ast"
	"sort"
	"strings"
)

func init() {
	extraGens = append(extraGens, func(o *out, pkgs map[string]map[string]*ast.File, all []funcInfo, repo string) {
		genC06ArgSites(o, pkgs, all)
	})
}

type c06aEv struct {
	kind, what string
	viaCopy    bool
}

var c06aDerive = map[string]bool{"Session": true, "getInstance": true, "WithContext": true, "Debug": true, "Begin": true}

func c06aIsDBType(e ast.Expr) bool {
	s := src(e)
	return s == "*DB" || s == "*gorm.DB"
}

// root identifier of a selector / call / index / star / paren chain, "" if none
func c06aRoot(e ast.Expr) string {
	for {
		switch x := e.(type) {
		case *ast.Ident:
			return x.Name
		case *ast.SelectorExpr:
			e = x.X
		case *ast.CallExpr:
			e = x.Fun
		case *ast.IndexExpr:
			e = x.X
		case *ast.SliceExpr:
			e = x.X
		case *ast.StarExpr:
			e = x.X
		case *ast.ParenExpr:
			e = x.X
		case *ast.TypeAssertExpr:
			e = x.X
		case *ast.UnaryExpr:
			e = x.X
		default:
			return ""
		}
	}
}

// does the receiver chain below `e` (exclusive) contain a derivation call?
func c06aViaCopy(e ast.Expr) bool {
	for {
		switch x := e.(type) {
		case *ast.SelectorExpr:
			e = x.X
		case *ast.CallExpr:
			if sel, ok := x.Fun.(*ast.SelectorExpr); ok && sel.Sel.Name == "getInstance" {
				return true // the statement is a private copy only behind getInstance() (Session alone shares it)
			}
			e = x.Fun
		case *ast.IndexExpr:
			e = x.X
		case *ast.ParenExpr:
			e = x.X
		case *ast.TypeAssertExpr:
			e = x.X
		default:
			return false
		}
	}
}

// dotted names of a receiver chain below the root identifier (call arguments left out)
func c06aPath(e ast.Expr) string {
	var parts []string
	for {
		switch x := e.(type) {
		case *ast.SelectorExpr:
			parts = append([]string{x.Sel.Name}, parts...)
			e = x.X
		case *ast.CallExpr:
			e = x.Fun
		case *ast.IndexExpr:
			e = x.X
		case *ast.ParenExpr:
			e = x.X
		case *ast.TypeAssertExpr:
			e = x.X
		default:
			return strings.Join(parts, ".")
		}
	}
}

func c06aMentions(e ast.Node, names map[string]bool) bool {
	found := false
	ast.Inspect(e, func(n ast.Node) bool {
		if id, ok := n.(*ast.Ident); ok && names[id.Name] {
			found = true
		}
		return !found
	})
	return found
}

// pointer-ish alias: `v.Statement`, `v.Statement.DB`, `&x`, `x.(*T)`
func c06aPointerish(e ast.Expr) bool {
	switch x := e.(type) {
	case *ast.UnaryExpr:
		return x.Op.String() == "&"
	case *ast.TypeAssertExpr:
		_, star := x.Type.(*ast.StarExpr)
		return star
	case *ast.SelectorExpr:
		return x.Sel.Name == "Statement" || x.Sel.Name == "DB"
	case *ast.Ident:
		return true
	}
	return false
}

func c06aEvents(body []ast.Stmt, bound string) []c06aEv {
	var evs []c06aEv
	own := map[string]bool{}
	alias := map[string]bool{}
	cpy := map[string]bool{}
	holder := map[string]bool{} // fresh containers (append / make / composite literal results) that HOLD aliases
	if bound != "" && bound != "_" {
		own[bound] = true
	}
	add := func(kind, what string, via bool) {
		if len(what) > 110 {
			what = what[:110]
		}
		evs = append(evs, c06aEv{kind, what, via})
	}
	ownOrAlias := func(n string) bool { return own[n] || alias[n] }
	var visit func(n ast.Node) bool
	visit = func(n ast.Node) bool {
		switch x := n.(type) {
		case *ast.AssignStmt:
			// writes first (LHS), then classification of the new names
			for _, l := range x.Lhs {
				switch lx := l.(type) {
				case *ast.IndexExpr:
					if r := c06aRoot(lx.X); r != "" && ownOrAlias(r) {
						add("elemAssign", src(l), false)
					} else if _, plain := lx.X.(*ast.Ident); r != "" && holder[r] && !plain {
						add("elemAssign", src(l), false) // through a field of a holder: the stored alias itself
					}
				case *ast.SelectorExpr:
					if r := c06aRoot(lx.X); r != "" {
						if own[r] {
							add("fieldAssign", src(l), false)
						} else if alias[r] || holder[r] {
							if _, plain := lx.X.(*ast.Ident); plain {
								add("localAssign", src(l), false)
							} else if holder[r] {
								add("fieldAssign", src(l), false) // `j.On.Exprs = …` writes through the stored pointer
							} else {
								add("localAssign", src(l), false)
							}
						}
					}
				case *ast.StarExpr:
					if r := c06aRoot(lx.X); r != "" && ownOrAlias(r) {
						add("fieldAssign", src(l), false)
					}
				}
			}
			for i, l := range x.Lhs {
				id, ok := l.(*ast.Ident)
				if !ok || id.Name == "_" {
					continue
				}
				var rhs ast.Expr
				if len(x.Rhs) == len(x.Lhs) {
					rhs = x.Rhs[i]
				} else if i == 0 && len(x.Rhs) > 0 {
					rhs = x.Rhs[0]
				}
				if rhs == nil {
					continue
				}
				r := c06aRoot(rhs)
				switch {
				case r != "" && own[r] && (c06aViaCopy(rhs) || c06aIsGetInstance(rhs)):
					// only getInstance() yields a private statement; Session(…) / WithContext(…) alone SHARE the
					// argument's *Statement — such a result stays "the argument itself" (next case)
					if own[id.Name] {
						// the rebinding may sit under a condition: the name stays "possibly the argument itself"
						add("rebind", src(rhs), true)
					} else {
						cpy[id.Name] = true
					}
				case r != "" && own[r] && c06aIsDeriveCall(rhs):
					if !own[id.Name] {
						own[id.Name] = true
						add("shareStmt", id.Name+" := "+c06aPath(rhs), false)
					}
				case c06aIsFresh(rhs) && (c06aMentions(rhs, own) || c06aMentions(rhs, alias) || c06aMentions(rhs, holder)):
					if !own[id.Name] && !alias[id.Name] {
						holder[id.Name] = true
					}
				case c06aMentions(rhs, own) || c06aMentions(rhs, alias) || c06aMentions(rhs, holder):
					if cpy[id.Name] {
						delete(cpy, id.Name)
					}
					if own[id.Name] {
						// `v = v.executeScopes()` and the like: still the argument's own handle
						break
					}
					if c06aPointerish(rhs) && c06aMentions(rhs, own) {
						own[id.Name] = true
					} else {
						alias[id.Name] = true
					}
				}
			}
		case *ast.CallExpr:
			if id, ok := x.Fun.(*ast.Ident); ok && id.Name == "append" && len(x.Args) > 0 {
				if r := c06aRoot(x.Args[0]); r != "" && ownOrAlias(r) {
					add("append", src(x.Args[0]), false)
				} else if _, plain := x.Args[0].(*ast.Ident); r != "" && holder[r] && !plain {
					add("append", src(x.Args[0]), false)
				}
			}
			if sel, ok := x.Fun.(*ast.SelectorExpr); ok {
				if r := c06aRoot(sel.X); r != "" {
					if own[r] {
						add("call", c06aPath(x.Fun), c06aViaCopy(sel.X))
					} else if alias[r] || holder[r] {
						add("aliasCall", src(x.Fun), false)
					}
				}
			}
			for _, a := range x.Args {
				if id, ok := x.Fun.(*ast.Ident); ok && (id.Name == "append" || id.Name == "len" || id.Name == "cap") {
					break
				}
				r := c06aRoot(a)
				if r == "" {
					continue
				}
				if _, isCall := a.(*ast.CallExpr); isCall {
					continue // its own event
				}
				if own[r] {
					s := src(a)
					if s == r || strings.HasSuffix(s, ".Statement") {
						add("pass", src(x.Fun)+"("+s+")", false)
					}
				} else if alias[r] || holder[r] {
					add("aliasArg", src(x.Fun), false)
				}
			}
		case *ast.KeyValueExpr:
			if r := c06aRoot(x.Value); r != "" && ownOrAlias(r) {
				if _, isCall := x.Value.(*ast.CallExpr); !isCall {
					add("store", src(x), false)
				}
			}
		case *ast.IncDecStmt:
			if r := c06aRoot(x.X); r != "" && ownOrAlias(r) {
				add("fieldAssign", src(x), false)
			}
		}
		return true
	}
	for _, s := range body {
		ast.Inspect(s, visit)
	}
	return evs
}

// an expression that allocates a fresh container: append(…) / make(…) / composite literal / &literal
func c06aIsFresh(e ast.Expr) bool {
	switch x := e.(type) {
	case *ast.CompositeLit:
		return true
	case *ast.UnaryExpr:
		_, lit := x.X.(*ast.CompositeLit)
		return lit
	case *ast.CallExpr:
		if id, ok := x.Fun.(*ast.Ident); ok {
			return id.Name == "append" || id.Name == "make"
		}
	}
	return false
}

func c06aIsGetInstance(e ast.Expr) bool {
	if c, ok := e.(*ast.CallExpr); ok {
		if sel, ok := c.Fun.(*ast.SelectorExpr); ok {
			return sel.Sel.Name == "getInstance"
		}
	}
	return false
}

func c06aIsDeriveCall(e ast.Expr) bool {
	if c, ok := e.(*ast.CallExpr); ok {
		if sel, ok := c.Fun.(*ast.SelectorExpr); ok {
			return c06aDerive[sel.Sel.Name]
		}
	}
	return false
}

type c06aSite struct {
	file, fn, form, bound, src string
	evs                       []c06aEv
}

func c06aStmtsSrc(body []ast.Stmt) string {
	var p []string
	for _, s := range body {
		p = append(p, src(s))
	}
	t := strings.Join(strings.Fields(strings.Join(p, " ; ")), " ")
	if len(t) > 700 {
		t = t[:700] + "…"
	}
	return t
}

func genC06ArgSites(o *out, pkgs map[string]map[string]*ast.File, all []funcInfo) {
	var sites []c06aSite
	for _, fi := range all {
		if strings.HasSuffix(fi.file, "_test.go") {
			continue
		}
		asserted := map[*ast.TypeAssertExpr]bool{}
		ast.Inspect(fi.decl.Body, func(n ast.Node) bool {
			switch x := n.(type) {
			case *ast.TypeSwitchStmt:
				bound := ""
				if as, ok := x.Assign.(*ast.AssignStmt); ok && len(as.Lhs) == 1 {
					bound = src(as.Lhs[0])
				}
				for _, c := range x.Body.List {
					cc := c.(*ast.CaseClause)
					for _, t := range cc.List {
						if c06aIsDBType(t) {
							form := "switch"
							if len(cc.List) > 1 {
								form = "switch-multi" // bound variable keeps the interface type
							}
							sites = append(sites, c06aSite{fi.file, fi.name, form, bound, c06aStmtsSrc(cc.Body), c06aEvents(cc.Body, bound)})
						}
					}
				}
			case *ast.IfStmt:
				if as, ok := x.Init.(*ast.AssignStmt); ok && len(as.Rhs) == 1 {
					if ta, ok := as.Rhs[0].(*ast.TypeAssertExpr); ok && ta.Type != nil && c06aIsDBType(ta.Type) {
						asserted[ta] = true
						bound := src(as.Lhs[0])
						sites = append(sites, c06aSite{fi.file, fi.name, "assert-if", bound, c06aStmtsSrc(x.Body.List), c06aEvents(x.Body.List, bound)})
					}
				}
			case *ast.TypeAssertExpr:
				if x.Type != nil && c06aIsDBType(x.Type) && !asserted[x] {
					// an assertion outside an if-init: the rest of the function works with the result — recorded with
					// the whole function body so that nothing escapes
					sites = append(sites, c06aSite{fi.file, fi.name, "assert", "?", c06aStmtsSrc(fi.decl.Body.List), []c06aEv{{"pass", "unanalysed assertion " + src(x), false}}})
				}
			}
			return true
		})
	}
	sort.SliceStable(sites, func(i, j int) bool {
		if sites[i].file != sites[j].file {
			return sites[i].file < sites[j].file
		}
		return sites[i].fn < sites[j].fn
	})
	var b strings.Builder
	b.WriteString("/-- one syntactic event about the ARGUMENT handle inside a site (see extract/gen_c06a.go) -/\nstructure ArgEv where\n  kind : String\n  what : String\n  viaCopy : Bool\nderiving Repr, DecidableEq\n\n")
	b.WriteString("structure ArgSite where\n  file : String\n  fn : String\n  form : String\n  bound : String\n  evs : List ArgEv\n  src : String\nderiving Repr, DecidableEq\n\n")
	b.WriteString("/-- every `case *DB:` arm / `.(*DB)` assertion of gorm, with what its body does to the argument handle -/\ndef argSites : List ArgSite := [\n")
	for i, s := range sites {
		var evs []string
		for _, e := range s.evs {
			evs = append(evs, fmt.Sprintf("⟨%s, %s, %s⟩", lstr(e.kind), lstr(e.what), lbool(e.viaCopy)))
		}
		sep := ","
		if i == len(sites)-1 {
			sep = ""
		}
		fmt.Fprintf(&b, "  { file := %s, fn := %s, form := %s, bound := %s,\n    evs := [%s],\n    src := %s }%s\n", lstr(s.file), lstr(s.fn), lstr(s.form), lstr(s.bound), strings.Join(evs, ", "), lstr(s.src), sep)
	}
	b.WriteString("]\n\n")

	// ---- uses of the join record's aliasing fields in callbacks/*.go and the root package
	type use struct{ file, fn, field, kind string }
	var uses []use
	for _, fi := range all {
		if strings.HasSuffix(fi.file, "_test.go") {
			continue
		}
		parents := map[ast.Node]ast.Node{}
		var stack []ast.Node
		ast.Inspect(fi.decl.Body, func(n ast.Node) bool {
			if n == nil {
				stack = stack[:len(stack)-1]
				return true
			}
			if len(stack) > 0 {
				parents[n] = stack[len(stack)-1]
			}
			stack = append(stack, n)
			return true
		})
		ast.Inspect(fi.decl.Body, func(n ast.Node) bool {
			sel, ok := n.(*ast.SelectorExpr)
			if !ok {
				return true
			}
			id, ok := sel.X.(*ast.Ident)
			if !ok || id.Name != "join" {
				return true
			}
			f := sel.Sel.Name
			if f != "On" && f != "Selects" && f != "Omits" && f != "Conds" {
				return true
			}
			// climb: selector / index chains stay "the same value"
			var cur ast.Node = sel
			p := parents[cur]
			for {
				switch pp := p.(type) {
				case *ast.SelectorExpr:
					cur, p = pp, parents[pp]
					continue
				case *ast.IndexExpr:
					if pp.X == cur {
						cur, p = pp, parents[pp]
						continue
					}
				case *ast.ParenExpr, *ast.StarExpr:
					cur, p = pp, parents[pp]
					continue
				}
				break
			}
			kind := "read"
			switch pp := p.(type) {
			case *ast.AssignStmt:
				for _, l := range pp.Lhs {
					if l == cur {
						kind = "assign"
						if _, isIdx := cur.(*ast.IndexExpr); isIdx {
							kind = "elemAssign"
						}
					}
				}
			case *ast.CallExpr:
				if pp.Fun == cur {
					kind = "recv:" + src(pp.Fun)
				} else if fid, ok := pp.Fun.(*ast.Ident); ok && fid.Name == "append" && len(pp.Args) > 0 && pp.Args[0] == cur {
					kind = "appendBase"
				} else if fid, ok := pp.Fun.(*ast.Ident); ok && (fid.Name == "len" || fid.Name == "cap") {
					kind = "read"
				} else {
					kind = "arg:" + src(pp.Fun)
				}
			case *ast.IncDecStmt:
				kind = "assign"
			case *ast.UnaryExpr:
				if pp.Op.String() == "&" {
					kind = "addr"
				}
			case *ast.RangeStmt:
				kind = "range"
			}
			uses = append(uses, use{fi.file, fi.name, f, kind})
			return true
		})
	}
	var us []string
	for _, u := range uses {
		us = append(us, fmt.Sprintf("(%s, %s, %s, %s)", lstr(u.file), lstr(u.fn), lstr(u.field), lstr(u.kind)))
	}
	fmt.Fprintf(&b, "/-- every use of `join.On` / `join.Selects` / `join.Omits` / `join.Conds` (fields that alias the ARGUMENT handle's\n    statement after `Joins(\"Rel\", handle)`): (file, function, field, kind) with kind ∈ read | range | addr | assign |\n    elemAssign | appendBase | arg:<callee> | recv:<method> -/\ndef joinFieldUses : List (String × String × String × String) := [%s]\n", strings.Join(us, ", "))
	o.write("C06ArgSites", b.String())
}
