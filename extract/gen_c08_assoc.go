package main

// C08 fact generator (association mode): through which chain of *DB methods does every statement that association.go issues
// reach its finisher, starting from the handle the user gave (`association.DB`, which carries the user's `Unscoped()`)?
// A `Session(&Session{NewDB: true})` on that chain hands the finisher a FRESH Statement (gorm.go getInstance, clone == 1):
// `Statement.Unscoped` is lost unless Config.PropagateUnscoped, and `db.Unscoped().Model(&u).Association("Pets").Unscoped().Clear()`
// soft-deletes instead of deleting physically.  Output Gen/AssocScopeFacts.lean.
//
//	assocScopeSites   one entry per FINISHER call (Find, Count, Delete, Update, Updates, UpdateColumn, UpdateColumns, Create, Save,
//	                  First, Take, Last, Pluck, Scan, Row, Rows) of association.go whose receiver chain — after resolving local
//	                  variables defined in the same function (`x := e`, `var x = e`, `var ( … x = e )`, `x = e`; transitively;
//	                  EVERY definition that can reach the call is followed, one entry per alternative) — is rooted at
//	                  `association.DB` or at a call `association.<m>()` of a method of *Association that returns *DB
//	                  (buildCondition):  fn, arm (expression list of the innermost enclosing `case`), finisher, chain (method
//	                  names from the root to the finisher in call order; `Session(&Session{…})` is written
//	                  "Session{<Key: value, …>}", any other argument shape "Session{NewDB: unknown(<src>)}"; a root
//	                  `association.m()` contributes the step "m").
//	                  For the *DB-returning methods themselves (buildCondition) one entry per returned chain with finisher "return".
//	assocScopeNewDB   every `Session{…}` literal of association.go that has the key NewDB (and every Session call whose argument
//	                  is not a literal): (function, literal text)
//
// Methods invoked as separate statements on a handle variable (`tx.Not(…)`, `tx.Where(…)`) are not chain steps: with the
// handles of association.go (clone 0 after the first chain call) they mutate the same Statement and cannot replace it.

import (
	"go/ast"
	"go/token"
	"strings"
)

func init() {
	extraGens = append(extraGens, func(o *out, pkgs map[string]map[string]*ast.File, all []funcInfo, repo string) {
		genC08AssocScopeFacts(o, all)
	})
}

var c08aFinishers = map[string]bool{"Find": true, "Count": true, "Delete": true, "Update": true, "Updates": true, "UpdateColumn": true,
	"UpdateColumns": true, "Create": true, "Save": true, "First": true, "Take": true, "Last": true, "Pluck": true, "Scan": true,
	"Row": true, "Rows": true}

const c08aRoot = "association.DB"

// c08aDef: one definition of a local variable
type c08aDef struct {
	name   string
	pos    token.Pos
	rhs    ast.Expr
	define bool     // `:=` / var: introduces a new variable whose scope is `scope`
	scope  ast.Node // for define: the node whose extent is the variable's scope
}

// c08aDefs: every definition / assignment of a plain identifier inside the function (function literals included: the
// closures of association.go share the function's variables)
func c08aDefs(body *ast.BlockStmt) []c08aDef {
	var defs []c08aDef
	var stack []ast.Node
	scopeOf := func(self ast.Node) ast.Node {
		// innermost enclosing node that delimits a scope; an assignment that is the Init of an if/for/switch is scoped by that statement
		for i := len(stack) - 2; i >= 0; i-- {
			switch x := stack[i].(type) {
			case *ast.IfStmt:
				if x.Init == self {
					return x
				}
			case *ast.ForStmt:
				if x.Init == self {
					return x
				}
			case *ast.SwitchStmt:
				if x.Init == self {
					return x
				}
			case *ast.TypeSwitchStmt:
				if x.Init == self {
					return x
				}
			case *ast.BlockStmt, *ast.CaseClause, *ast.CommClause:
				return x
			}
		}
		return body
	}
	ast.Inspect(body, func(n ast.Node) bool {
		if n == nil {
			stack = stack[:len(stack)-1]
			return true
		}
		stack = append(stack, n)
		switch x := n.(type) {
		case *ast.AssignStmt:
			if len(x.Lhs) == len(x.Rhs) && (x.Tok == token.DEFINE || x.Tok == token.ASSIGN) {
				for i, l := range x.Lhs {
					if id, ok := l.(*ast.Ident); ok && id.Name != "_" {
						d := c08aDef{name: id.Name, pos: x.Pos(), rhs: x.Rhs[i], define: x.Tok == token.DEFINE}
						if d.define {
							d.scope = scopeOf(x)
						}
						defs = append(defs, d)
					}
				}
			}
		case *ast.ValueSpec:
			if len(x.Names) == len(x.Values) {
				sc := scopeOf(x)
				for i, id := range x.Names {
					defs = append(defs, c08aDef{name: id.Name, pos: x.Pos(), rhs: x.Values[i], define: true, scope: sc})
				}
			}
		}
		return true
	})
	return defs
}

// c08aVisibleDecl: the declaration of `name` that a use at `p` refers to (the latest one whose scope contains p), -1 if none
func c08aVisibleDecl(defs []c08aDef, name string, p token.Pos) int {
	best := -1
	for i, d := range defs {
		if d.name != name || !d.define || d.pos >= p || d.scope == nil || !(d.scope.Pos() <= p && p < d.scope.End()) {
			continue
		}
		if best < 0 || d.pos > defs[best].pos {
			best = i
		}
	}
	return best
}

// c08aReaching: the right-hand sides that can be the value of `name` at `p`: its visible declaration and every later plain
// assignment (before p) to the same variable
func c08aReaching(defs []c08aDef, name string, p token.Pos) []c08aDef {
	decl := c08aVisibleDecl(defs, name, p)
	if decl < 0 {
		return nil
	}
	res := []c08aDef{defs[decl]}
	for _, d := range defs {
		if d.name == name && !d.define && d.pos < p && d.pos > defs[decl].pos && c08aVisibleDecl(defs, name, d.pos) == decl {
			res = append(res, d)
		}
	}
	return res
}

func c08aSessionStep(call *ast.CallExpr) string {
	if len(call.Args) == 1 {
		if ue, ok := call.Args[0].(*ast.UnaryExpr); ok && ue.Op == token.AND {
			if cl, ok := ue.X.(*ast.CompositeLit); ok && (src(cl.Type) == "Session" || src(cl.Type) == "gorm.Session") {
				parts := make([]string, len(cl.Elts))
				keyed := true
				for i, e := range cl.Elts {
					if _, ok := e.(*ast.KeyValueExpr); !ok {
						keyed = false
					}
					parts[i] = src(e)
				}
				if keyed {
					return "Session{" + strings.Join(parts, ", ") + "}"
				}
			}
		}
	}
	args := make([]string, len(call.Args))
	for i, a := range call.Args {
		args[i] = src(a)
	}
	return "Session{NewDB: unknown(" + strings.Join(args, ", ") + ")}"
}

// c08aChains: the chains (root → e, method names in call order) of expression `e` used at position `p`; nil when `e` is not
// rooted at association.DB / association.<dbMethod>().  `dbMethods`: methods of *Association that return *DB.
func c08aChains(defs []c08aDef, dbMethods map[string]bool, recvName string, e ast.Expr, p token.Pos, depth int) [][]string {
	if depth > 12 {
		return nil
	}
	for {
		pe, ok := e.(*ast.ParenExpr)
		if !ok {
			break
		}
		e = pe.X
	}
	switch x := e.(type) {
	case *ast.SelectorExpr:
		if src(x) == recvName+".DB" {
			return [][]string{{}}
		}
	case *ast.Ident:
		var res [][]string
		for _, d := range c08aReaching(defs, x.Name, p) {
			res = append(res, c08aChains(defs, dbMethods, recvName, d.rhs, d.pos, depth+1)...)
		}
		return res
	case *ast.CallExpr:
		sel, ok := x.Fun.(*ast.SelectorExpr)
		if !ok {
			return nil
		}
		if id, ok := sel.X.(*ast.Ident); ok && id.Name == recvName && dbMethods[sel.Sel.Name] {
			return [][]string{{sel.Sel.Name}}
		}
		step := sel.Sel.Name
		if step == "Session" {
			step = c08aSessionStep(x)
		}
		var res [][]string
		for _, c := range c08aChains(defs, dbMethods, recvName, sel.X, p, depth+1) {
			res = append(res, append(append([]string(nil), c...), step))
		}
		return res
	}
	return nil
}

type c08aSite struct {
	fn, arm, finisher string
	chain             []string
}

func c08aArm(body *ast.BlockStmt, target ast.Node) string {
	arm := ""
	for _, n := range c08mPath(body, target) {
		if cc, ok := n.(*ast.CaseClause); ok {
			arm = c08mExprs(cc.List)
		}
	}
	return arm
}

func genC08AssocScopeFacts(o *out, all []funcInfo) {
	var fns []funcInfo
	for _, fi := range all {
		if fi.file == "association.go" {
			fns = append(fns, fi)
		}
	}
	// methods of *Association returning *DB
	dbMethods := map[string]bool{}
	for _, fi := range fns {
		fd := fi.decl
		if fd.Recv == nil || !strings.HasPrefix(fi.name, "Association.") || fd.Type.Results == nil || len(fd.Type.Results.List) != 1 {
			continue
		}
		if src(fd.Type.Results.List[0].Type) == "*DB" {
			dbMethods[fd.Name.Name] = true
		}
	}

	var sites []c08aSite
	var newDBs [][2]string
	seen := map[string]bool{}
	add := func(s c08aSite) {
		k := s.fn + "\x00" + s.arm + "\x00" + s.finisher + "\x00" + strings.Join(s.chain, "\x01")
		if !seen[k] {
			seen[k] = true
			sites = append(sites, s)
		}
	}
	for _, fi := range fns {
		fd := fi.decl
		recvName := "association"
		if fd.Recv != nil && len(fd.Recv.List) == 1 && len(fd.Recv.List[0].Names) == 1 && strings.HasPrefix(fi.name, "Association.") {
			recvName = fd.Recv.List[0].Names[0].Name
		}
		defs := c08aDefs(fd.Body)
		ast.Inspect(fd.Body, func(n ast.Node) bool {
			switch x := n.(type) {
			case *ast.CallExpr:
				sel, ok := x.Fun.(*ast.SelectorExpr)
				if !ok {
					return true
				}
				if sel.Sel.Name == "Session" {
					step := c08aSessionStep(x)
					if strings.Contains(step, "NewDB") {
						newDBs = append(newDBs, [2]string{fi.name, step})
					}
				}
				if !c08aFinishers[sel.Sel.Name] {
					return true
				}
				for _, c := range c08aChains(defs, dbMethods, recvName, sel.X, x.Pos(), 0) {
					add(c08aSite{fn: fi.name, arm: c08aArm(fd.Body, x), finisher: sel.Sel.Name, chain: append(append([]string(nil), c...), sel.Sel.Name)})
				}
			case *ast.ReturnStmt:
				if dbMethods[fd.Name.Name] && strings.HasPrefix(fi.name, "Association.") && len(x.Results) == 1 {
					chains := c08aChains(defs, dbMethods, recvName, x.Results[0], x.Pos(), 0)
					if len(chains) == 0 {
						// a *DB-returning method whose result is not rooted at association.DB: unknown handle
						add(c08aSite{fn: fi.name, arm: c08aArm(fd.Body, x), finisher: "return", chain: []string{"Session{NewDB: unknown(" + src(x.Results[0]) + ")}"}})
					}
					for _, c := range chains {
						add(c08aSite{fn: fi.name, arm: c08aArm(fd.Body, x), finisher: "return", chain: c})
					}
				}
			}
			return true
		})
	}

	var b strings.Builder
	b.WriteString("/-- a finisher call of association.go on a handle derived from `association.DB` (the handle the user built, carrying his\n" +
		"    `Unscoped()`): `chain` = the *DB methods from the root to the finisher, in call order (`Session(&Session{…})` is written\n" +
		"    \"Session{…}\"; a root `association.buildCondition()` contributes the step \"buildCondition\"); `arm` = the innermost enclosing\n" +
		"    `case`.  finisher = \"return\": a chain returned by a *DB-returning method of *Association (buildCondition). -/\n")
	b.WriteString("structure AssocScopeSite where\n  fn : String\n  arm : String\n  finisher : String\n  chain : List String\n  root : String\nderiving Repr, DecidableEq\n\n")
	b.WriteString("def assocScopeSites : List AssocScopeSite := [")
	for i, s := range sites {
		if i > 0 {
			b.WriteString(",")
		}
		b.WriteString("\n  { fn := " + lstr(s.fn) + ", arm := " + lstr(s.arm) + ", finisher := " + lstr(s.finisher) + ",\n    chain := " + lstrs(s.chain) +
			", root := " + lstr(c08aRoot) + " }")
	}
	b.WriteString("]\n\n")
	b.WriteString("/-- every `Session(&Session{…})` of association.go whose literal has the key NewDB (or whose argument is not a keyed literal):\n    (function, literal text) -/\n")
	b.WriteString("def assocScopeNewDB : List (String × String) := [")
	for i, s := range newDBs {
		if i > 0 {
			b.WriteString(",")
		}
		b.WriteString("\n  (" + lstr(s[0]) + ", " + lstr(s[1]) + ")")
	}
	b.WriteString("]\n")
	o.write("AssocScopeFacts", b.String())
}
