package main

// Fact extractor: reads /repo's current working tree with go/parser + go/ast (purely syntactic)
// and writes lean/GormModel/Gen/*.lean.  It is deliberately dumb: it reports what the source
// text says (call sites, the conditions that dominate them, struct-literal fields, registration
// order) as strings; all classification and all judgement happens in Lean, in theorems that are
// re-checked against these regenerated definitions on every run.

import (
	"bytes"
	"encoding/json"
	"flag"
	"fmt"
	"go/ast"
	"go/parser"
	"go/printer"
	"go/token"
	"os"
	"path/filepath"
	"sort"
	"strings"
)

var fset = token.NewFileSet()

func src(n ast.Node) string {
	if n == nil {
		return ""
	}
	var b bytes.Buffer
	_ = printer.Fprint(&b, fset, n)
	return strings.Join(strings.Fields(b.String()), " ")
}

func lstr(s string) string {
	var b strings.Builder
	b.WriteByte('"')
	for _, r := range s {
		switch r {
		case '"':
			b.WriteString("\\\"")
		case '\\':
			b.WriteString("\\\\")
		case '\n':
			b.WriteString("\\n")
		case '\t':
			b.WriteString("\\t")
		default:
			b.WriteRune(r)
		}
	}
	b.WriteByte('"')
	return b.String()
}

func lstrs(ss []string) string {
	q := make([]string, len(ss))
	for i, s := range ss {
		q[i] = lstr(s)
	}
	return "[" + strings.Join(q, ", ") + "]"
}

func lbool(b bool) string {
	if b {
		return "true"
	}
	return "false"
}

type pkgFiles struct {
	dir   string
	files map[string]*ast.File // relative path -> file
}

func parseDir(repo, rel string) map[string]*ast.File {
	out := map[string]*ast.File{}
	dir := filepath.Join(repo, rel)
	ents, err := os.ReadDir(dir)
	if err != nil {
		return out
	}
	for _, e := range ents {
		n := e.Name()
		if e.IsDir() || !strings.HasSuffix(n, ".go") || strings.HasSuffix(n, "_test.go") {
			continue
		}
		f, err := parser.ParseFile(fset, filepath.Join(dir, n), nil, parser.ParseComments)
		if err != nil {
			fmt.Fprintln(os.Stderr, "parse error:", err)
			continue
		}
		out[filepath.ToSlash(filepath.Join(rel, n))] = f
	}
	return out
}

// ---- condition atoms -----------------------------------------------------------------------

func negate(e ast.Expr) ast.Expr {
	switch x := e.(type) {
	case *ast.ParenExpr:
		return negate(x.X)
	case *ast.UnaryExpr:
		if x.Op == token.NOT {
			return x.X
		}
	case *ast.BinaryExpr:
		switch x.Op {
		case token.EQL:
			return &ast.BinaryExpr{X: x.X, Op: token.NEQ, Y: x.Y}
		case token.NEQ:
			return &ast.BinaryExpr{X: x.X, Op: token.EQL, Y: x.Y}
		}
	}
	return &ast.UnaryExpr{Op: token.NOT, X: e}
}

// atoms returns the conjuncts known true when e is true (pos) or false (!pos); nil if unknown.
func atoms(e ast.Expr, pos bool, alias map[string]ast.Expr) []string {
	switch x := e.(type) {
	case *ast.ParenExpr:
		return atoms(x.X, pos, alias)
	case *ast.UnaryExpr:
		if x.Op == token.NOT {
			return atoms(x.X, !pos, alias)
		}
	case *ast.BinaryExpr:
		if x.Op == token.LAND && pos {
			return append(atoms(x.X, true, alias), atoms(x.Y, true, alias)...)
		}
		if x.Op == token.LOR && !pos {
			return append(atoms(x.X, false, alias), atoms(x.Y, false, alias)...)
		}
		if x.Op == token.LAND || x.Op == token.LOR {
			return nil
		}
	case *ast.Ident:
		if a, ok := alias[x.Name]; ok {
			return atoms(a, pos, alias)
		}
	}
	if pos {
		return []string{src(e)}
	}
	return []string{src(negate(e))}
}

func endsWithReturn(b *ast.BlockStmt) bool {
	if b == nil || len(b.List) == 0 {
		return false
	}
	switch s := b.List[len(b.List)-1].(type) {
	case *ast.ReturnStmt:
		return true
	case *ast.ExprStmt:
		if c, ok := s.X.(*ast.CallExpr); ok {
			if id, ok := c.Fun.(*ast.Ident); ok && id.Name == "panic" {
				return true
			}
		}
	}
	return false
}

// visitor over one function: calls fn(call, knownAtoms) for every call expression
type walker struct {
	alias map[string]ast.Expr
	onCall func(c *ast.CallExpr, known []string, inLit int)
	litDepth int
}

func (w *walker) block(stmts []ast.Stmt, known []string) {
	known = append([]string(nil), known...)
	for _, s := range stmts {
		w.stmt(s, known)
		if is, ok := s.(*ast.IfStmt); ok && is.Else == nil && endsWithReturn(is.Body) && is.Init == nil {
			known = append(known, atoms(is.Cond, false, w.alias)...)
		}
	}
}

func (w *walker) stmt(s ast.Stmt, known []string) {
	switch x := s.(type) {
	case nil:
	case *ast.BlockStmt:
		w.block(x.List, known)
	case *ast.IfStmt:
		if x.Init != nil {
			w.stmt(x.Init, known)
		}
		w.expr(x.Cond, known)
		w.block(x.Body.List, append(append([]string(nil), known...), atoms(x.Cond, true, w.alias)...))
		if x.Else != nil {
			ek := append(append([]string(nil), known...), atoms(x.Cond, false, w.alias)...)
			switch e := x.Else.(type) {
			case *ast.BlockStmt:
				w.block(e.List, ek)
			default:
				w.stmt(e, ek)
			}
		}
	case *ast.AssignStmt:
		if x.Tok == token.DEFINE && len(x.Lhs) == 1 && len(x.Rhs) == 1 {
			if id, ok := x.Lhs[0].(*ast.Ident); ok {
				switch r := x.Rhs[0].(type) {
				case *ast.BinaryExpr:
					if r.Op == token.LAND || r.Op == token.LOR || r.Op == token.EQL || r.Op == token.NEQ {
						w.alias[id.Name] = r
					}
				case *ast.UnaryExpr:
					if r.Op == token.NOT {
						w.alias[id.Name] = r
					}
				}
			}
		}
		for _, e := range x.Rhs {
			w.expr(e, known)
		}
		for _, e := range x.Lhs {
			w.expr(e, known)
		}
	case *ast.ExprStmt:
		w.expr(x.X, known)
	case *ast.ReturnStmt:
		for _, e := range x.Results {
			w.expr(e, known)
		}
	case *ast.DeferStmt:
		w.expr(x.Call, known)
	case *ast.GoStmt:
		w.expr(x.Call, known)
	case *ast.ForStmt:
		w.stmt(x.Init, known)
		if x.Cond != nil {
			w.expr(x.Cond, known)
		}
		w.stmt(x.Post, known)
		w.block(x.Body.List, known)
	case *ast.RangeStmt:
		w.expr(x.X, known)
		w.block(x.Body.List, known)
	case *ast.SwitchStmt:
		w.stmt(x.Init, known)
		if x.Tag != nil {
			w.expr(x.Tag, known)
		}
		for _, c := range x.Body.List {
			cc := c.(*ast.CaseClause)
			for _, e := range cc.List {
				w.expr(e, known)
			}
			w.block(cc.Body, known)
		}
	case *ast.TypeSwitchStmt:
		w.stmt(x.Init, known)
		w.stmt(x.Assign, known)
		for _, c := range x.Body.List {
			cc := c.(*ast.CaseClause)
			w.block(cc.Body, known)
		}
	case *ast.SelectStmt:
		for _, c := range x.Body.List {
			cc := c.(*ast.CommClause)
			w.stmt(cc.Comm, known)
			w.block(cc.Body, known)
		}
	case *ast.DeclStmt:
		if gd, ok := x.Decl.(*ast.GenDecl); ok {
			for _, sp := range gd.Specs {
				if vs, ok := sp.(*ast.ValueSpec); ok {
					for _, e := range vs.Values {
						w.expr(e, known)
					}
				}
			}
		}
	case *ast.IncDecStmt:
		w.expr(x.X, known)
	case *ast.SendStmt:
		w.expr(x.Chan, known)
		w.expr(x.Value, known)
	case *ast.LabeledStmt:
		w.stmt(x.Stmt, known)
	}
}

func (w *walker) expr(e ast.Expr, known []string) {
	if e == nil {
		return
	}
	ast.Inspect(e, func(n ast.Node) bool {
		switch x := n.(type) {
		case *ast.FuncLit:
			// a closure runs later: it inherits no guard from its definition site
			w.litDepth++
			w.block(x.Body.List, nil)
			w.litDepth--
			return false
		case *ast.CallExpr:
			w.onCall(x, known, w.litDepth)
		}
		return true
	})
}

type funcInfo struct {
	file string
	name string // Recv.Name or Name
	decl *ast.FuncDecl
}

func funcsOf(files map[string]*ast.File) []funcInfo {
	var out []funcInfo
	var names []string
	for n := range files {
		names = append(names, n)
	}
	sort.Strings(names)
	for _, fn := range names {
		for _, d := range files[fn].Decls {
			fd, ok := d.(*ast.FuncDecl)
			if !ok || fd.Body == nil {
				continue
			}
			name := fd.Name.Name
			if fd.Recv != nil && len(fd.Recv.List) > 0 {
				t := fd.Recv.List[0].Type
				if st, ok := t.(*ast.StarExpr); ok {
					t = st.X
				}
				name = src(t) + "." + name
			}
			out = append(out, funcInfo{fn, name, fd})
		}
	}
	return out
}

func walkFunc(fi funcInfo, onCall func(c *ast.CallExpr, known []string, inLit int)) {
	w := &walker{alias: map[string]ast.Expr{}, onCall: onCall}
	w.block(fi.decl.Body.List, nil)
}

// ---- output --------------------------------------------------------------------------------

type out struct {
	dir   string
	facts map[string]interface{}
}

func (o *out) write(name, body string) {
	p := filepath.Join(o.dir, name+".lean")
	content := "-- GENERATED by /verif/extract from /repo's working tree. Do not edit.\nimport GormModel.Core.Facts\nnamespace Gorm.Gen\nopen Gorm\n\n" + body + "\nend Gorm.Gen\n"
	old, err := os.ReadFile(p)
	if err == nil && string(old) == content {
		return
	}
	if err := os.WriteFile(p, []byte(content), 0o644); err != nil {
		panic(err)
	}
}

var driverMethods = map[string]bool{"ExecContext": true, "QueryContext": true, "QueryRowContext": true, "PrepareContext": true, "BeginTx": true, "Conn": true}
var hookMethods = map[string]bool{"BeforeSave": true, "BeforeCreate": true, "AfterCreate": true, "AfterSave": true, "BeforeUpdate": true, "AfterUpdate": true, "BeforeDelete": true, "AfterDelete": true, "AfterFind": true}

func main() {
	repo := flag.String("repo", "/repo", "repository root")
	outDir := flag.String("out", "", "output dir for Gen/*.lean")
	factsPath := flag.String("facts", "", "facts.json output")
	flag.Parse()
	o := &out{dir: *outDir, facts: map[string]interface{}{}}
	_ = os.MkdirAll(*outDir, 0o755)

	pkgs := map[string]map[string]*ast.File{}
	for _, rel := range []string{".", "callbacks", "clause", "schema", "migrator", "utils"} {
		pkgs[rel] = parseDir(*repo, rel)
	}
	var all []funcInfo
	for _, rel := range []string{".", "callbacks", "clause", "schema", "migrator", "utils"} {
		all = append(all, funcsOf(pkgs[rel])...)
	}

	genCallSites(o, all)
	genPipelines(o, pkgs["callbacks"], all)
	genClone(o, pkgs["."])
	genCloneInit(o, pkgs["."])
	genSessions(o, all)
	genMisc(o, pkgs, all)
	genLockSections(o, pkgs["."], *repo)
	genSharedWrites(o, all)
	genAliasFacts(o, pkgs)

	if *factsPath != "" {
		b, _ := json.MarshalIndent(o.facts, "", " ")
		_ = os.WriteFile(*factsPath, b, 0o644)
	}
}

// ---- A. ConnPool call sites ----------------------------------------------------------------

func genCallSites(o *out, all []funcInfo) {
	var b strings.Builder
	b.WriteString("/-- every call of ExecContext/QueryContext/QueryRowContext/PrepareContext/BeginTx/Conn in non-test code,\n    with receiver, first (context) argument and the conditions that dominate it -/\ndef callSites : List CallSite := [\n")
	first := true
	n := 0
	for _, fi := range all {
		fi := fi
		walkFunc(fi, func(c *ast.CallExpr, known []string, inLit int) {
			sel, ok := c.Fun.(*ast.SelectorExpr)
			if !ok || !driverMethods[sel.Sel.Name] {
				return
			}
			ctx := ""
			if len(c.Args) > 0 {
				ctx = src(c.Args[0])
			}
			if !first {
				b.WriteString(",\n")
			}
			first = false
			n++
			var params []string
			for _, p := range fi.decl.Type.Params.List {
				for _, n := range p.Names {
					params = append(params, n.Name+" "+src(p.Type))
				}
			}
			fmt.Fprintf(&b, "  { pkg := %s, file := %s, fn := %s, fnParams := %s, method := %s, recv := %s, ctx := %s, guards := %s, inClosure := %s }",
				lstr(pkgOf(fi.file)), lstr(fi.file), lstr(fi.name), lstrs(params), lstr(sel.Sel.Name), lstr(src(sel.X)), lstr(ctx), lstrs(known), lbool(inLit > 0))
		})
	}
	b.WriteString("\n]\n")
	o.facts["callSites"] = n
	o.write("CallSites", b.String())
}

// ---- B/C. pipelines + handler facts ----------------------------------------------------------

func genPipelines(o *out, cb map[string]*ast.File, all []funcInfo) {
	var reg *ast.FuncDecl
	for _, f := range cb {
		for _, d := range f.Decls {
			if fd, ok := d.(*ast.FuncDecl); ok && fd.Name.Name == "RegisterDefaultCallbacks" {
				reg = fd
			}
		}
	}
	var b strings.Builder
	pipes := map[string]string{} // variable -> pipeline kind
	order := []string{}
	regs := map[string][]string{}
	regNames := map[string][][2]string{}
	handlers := map[string]bool{}
	if reg != nil {
		for _, s := range reg.Body.List {
			switch x := s.(type) {
			case *ast.AssignStmt:
				// createCallback := db.Callback().Create()
				if len(x.Lhs) == 1 && len(x.Rhs) == 1 {
					if id, ok := x.Lhs[0].(*ast.Ident); ok {
						r := src(x.Rhs[0])
						if strings.HasPrefix(r, "db.Callback().") {
							kind := strings.ToLower(strings.TrimSuffix(strings.TrimPrefix(r, "db.Callback()."), "()"))
							pipes[id.Name] = kind
							order = append(order, kind)
						}
					}
				}
			case *ast.ExprStmt:
				c, ok := x.X.(*ast.CallExpr)
				if !ok {
					continue
				}
				sel, ok := c.Fun.(*ast.SelectorExpr)
				if !ok || len(c.Args) != 2 {
					continue
				}
				op := sel.Sel.Name // Register / Replace
				match, before, after := "", "", ""
				recv := sel.X
				for {
					if cc, ok := recv.(*ast.CallExpr); ok {
						if s2, ok := cc.Fun.(*ast.SelectorExpr); ok {
							switch s2.Sel.Name {
							case "Match":
								match = src(cc.Args[0])
							case "Before":
								before = src(cc.Args[0])
							case "After":
								after = src(cc.Args[0])
							}
							recv = s2.X
							continue
						}
					}
					break
				}
				id, ok := recv.(*ast.Ident)
				if !ok {
					continue
				}
				kind, ok := pipes[id.Name]
				if !ok {
					continue
				}
				name := strings.Trim(src(c.Args[0]), "\"")
				h := src(c.Args[1])
				hname := h
				if i := strings.Index(hname, "("); i >= 0 {
					hname = hname[:i]
				}
				handlers[hname] = true
				regNames[kind] = append(regNames[kind], [2]string{name, match})
				regs[kind] = append(regs[kind], fmt.Sprintf("{ op := %s, name := %s, matchGuard := %s, before := %s, after := %s, handler := %s, handlerExpr := %s }",
					lstr(op), lstr(name), lstr(match), lstr(strings.Trim(before, "\"")), lstr(strings.Trim(after, "\"")), lstr(hname), lstr(h)))
			}
		}
	}
	{
		fp := map[string][][2]string{}
		for _, k := range order {
			for _, fi := range all {
				_ = fi
			}
			fp[k] = regNames[k]
		}
		o.facts["pipelines"] = fp
		o.facts["pipelineOrder"] = order
	}
	b.WriteString("/-- callbacks/callbacks.go RegisterDefaultCallbacks: registrations per pipeline, in source order -/\ndef pipelines : List (String × List CbReg) := [\n")
	for i, k := range order {
		if i > 0 {
			b.WriteString(",\n")
		}
		fmt.Fprintf(&b, "  (%s, [\n    %s\n  ])", lstr(k), strings.Join(regs[k], ",\n    "))
	}
	b.WriteString("\n]\n\n")

	// the enableTransaction closure text
	if reg != nil {
		for _, s := range reg.Body.List {
			if as, ok := s.(*ast.AssignStmt); ok && len(as.Lhs) == 1 && src(as.Lhs[0]) == "enableTransaction" {
				fmt.Fprintf(&b, "def enableTransactionSrc : String := %s\n\n", lstr(src(as.Rhs[0])))
			}
		}
	}

	// handler facts
	b.WriteString("/-- per handler function registered above: the conditions dominating each interesting call in its body -/\ndef handlers : List HandlerFact := [\n")
	var hn []string
	for h := range handlers {
		hn = append(hn, h)
	}
	sort.Strings(hn)
	firstH := true
	for _, h := range hn {
		for _, fi := range all {
			if !strings.HasPrefix(fi.file, "callbacks/") || fi.name != h {
				continue
			}
			var calls []string
			fi := fi
			walkFunc(fi, func(c *ast.CallExpr, known []string, inLit int) {
				kind, what := "", ""
				switch f := c.Fun.(type) {
				case *ast.SelectorExpr:
					switch {
					case driverMethods[f.Sel.Name]:
						kind, what = "driver", f.Sel.Name
					case hookMethods[f.Sel.Name]:
						kind, what = "hook", f.Sel.Name
					case f.Sel.Name == "Session":
						kind, what = "session", src(c)
					case f.Sel.Name == "AddError":
						kind, what = "adderror", src(c.Args[0])
					case f.Sel.Name == "Build" && strings.HasSuffix(src(f.X), "Statement"):
						kind, what = "build", src(c)
					case f.Sel.Name == "Begin" || f.Sel.Name == "Commit" || f.Sel.Name == "Rollback":
						kind, what = "tx", f.Sel.Name
					}
				case *ast.Ident:
					switch f.Name {
					case "callMethod":
						kind, what = "callMethod", ""
					case "checkMissingWhereConditions":
						kind, what = "checkMissingWhere", ""
					case "BuildQuerySQL":
						kind, what = "buildQuerySQL", ""
					case "saveAssociations", "preload", "preloadEntryPoint":
						kind, what = "nested", f.Name
					}
				}
				if kind == "" {
					return
				}
				calls = append(calls, fmt.Sprintf("{ kind := %s, what := %s, guards := %s, inClosure := %s }", lstr(kind), lstr(what), lstrs(known), lbool(inLit > 0)))
			})
			if !firstH {
				b.WriteString(",\n")
			}
			firstH = false
			fmt.Fprintf(&b, "  { name := %s, file := %s, calls := [\n      %s ] }", lstr(h), lstr(fi.file), strings.Join(calls, ",\n      "))
		}
	}
	b.WriteString("\n]\n")
	o.write("Pipelines", b.String())
}

// ---- D. clone / getInstance -------------------------------------------------------------------

func structFields(files map[string]*ast.File, typeName string) []string {
	var out []string
	for _, f := range files {
		for _, d := range f.Decls {
			gd, ok := d.(*ast.GenDecl)
			if !ok {
				continue
			}
			for _, sp := range gd.Specs {
				ts, ok := sp.(*ast.TypeSpec)
				if !ok || ts.Name.Name != typeName {
					continue
				}
				st, ok := ts.Type.(*ast.StructType)
				if !ok {
					continue
				}
				for _, fl := range st.Fields.List {
					if len(fl.Names) == 0 {
						t := fl.Type
						if se, ok := t.(*ast.StarExpr); ok {
							t = se.X
						}
						out = append(out, src(t))
					}
					for _, n := range fl.Names {
						out = append(out, n.Name)
					}
				}
			}
		}
	}
	return out
}

func findFunc(files map[string]*ast.File, name string) *ast.FuncDecl {
	for _, fi := range funcsOf(files) {
		if fi.name == name {
			return fi.decl
		}
	}
	return nil
}

// literalFields: fields of the first composite literal of type typ found in n
func literalFields(n ast.Node, typ string) (fields [][2]string, found bool) {
	ast.Inspect(n, func(x ast.Node) bool {
		if found {
			return false
		}
		cl, ok := x.(*ast.CompositeLit)
		if !ok || src(cl.Type) != typ {
			return true
		}
		found = true
		for _, e := range cl.Elts {
			if kv, ok := e.(*ast.KeyValueExpr); ok {
				fields = append(fields, [2]string{src(kv.Key), src(kv.Value)})
			}
		}
		return false
	})
	return
}

func pairs(ps [][2]string) string {
	q := make([]string, len(ps))
	for i, p := range ps {
		q[i] = "(" + lstr(p[0]) + ", " + lstr(p[1]) + ")"
	}
	return "[" + strings.Join(q, ", ") + "]"
}

func genClone(o *out, root map[string]*ast.File) {
	var b strings.Builder
	fmt.Fprintf(&b, "/-- fields of `type Statement struct` (statement.go), in order -/\ndef statementFields : List String := %s\n\n", lstrs(structFields(root, "Statement")))
	fmt.Fprintf(&b, "def sessionFields : List String := %s\n\n", lstrs(structFields(root, "Session")))
	// clone(): literal fields + later statements touching newStmt.X
	cl := findFunc(root, "Statement.clone")
	var lit [][2]string
	var later [][2]string
	if cl != nil {
		lit, _ = literalFields(cl.Body, "Statement")
		for _, s := range cl.Body.List[1:] {
			txt := src(s)
			for _, f := range structFields(root, "Statement") {
				if strings.Contains(txt, "newStmt."+f) {
					kind := "other"
					switch {
					case strings.Contains(txt, "make(") && (strings.Contains(txt, "copy(newStmt."+f) || strings.Contains(txt, "append(newStmt."+f)):
						kind = "makeCopy"
					case strings.Contains(txt, "range stmt."+f) && strings.Contains(txt, "newStmt."+f+"[k] ="):
						kind = "copyEntries"
					case strings.Contains(txt, "stmt."+f+".Range(") && strings.Contains(txt, "newStmt."+f+".Store("):
						kind = "copyEntries"
					case strings.Contains(txt, "newStmt."+f+".WriteString(stmt."+f+".String())"):
						kind = "copyString"
					}
					later = append(later, [2]string{f, kind})
				}
			}
		}
	}
	fmt.Fprintf(&b, "/-- statement.go `clone()`: fields of the `&Statement{…}` literal (field, value expression) -/\ndef cloneLiteral : List (String × String) := %s\n\n", pairs(lit))
	fmt.Fprintf(&b, "/-- statement.go `clone()`: statements after the literal that fill a field of newStmt (field, how) -/\ndef cloneLater : List (String × String) := %s\n\n", pairs(later))
	gi := findFunc(root, "DB.getInstance")
	var gl [][2]string
	if gi != nil {
		gl, _ = literalFields(gi.Body, "Statement")
	}
	fmt.Fprintf(&b, "/-- gorm.go `getInstance()` clone==1 branch: the fresh `&Statement{…}` literal -/\ndef getInstanceLiteral : List (String × String) := %s\n\n", pairs(gl))
	giTxt := ""
	if gi != nil {
		giTxt = src(gi.Body)
	}
	fmt.Fprintf(&b, "def getInstancePropagatesUnscoped : Bool := %s\n", lbool(strings.Contains(giTxt, "if db.Config.PropagateUnscoped { tx.Statement.Unscoped = db.Statement.Unscoped }")))
	fmt.Fprintf(&b, "def getInstanceClone2UsesClone : Bool := %s\n\n", lbool(strings.Contains(giTxt, "tx.Statement = db.Statement.clone()")))
	// Session(): which config flags lead to a statement clone, and the Context assignment
	ss := findFunc(root, "DB.Session")
	sTxt := ""
	if ss != nil {
		sTxt = src(ss.Body)
	}
	fmt.Fprintf(&b, "def sessionClonesOn : String := %s\n", lstr(between(sTxt, "if ", " { tx.Statement = tx.Statement.clone()")))
	fmt.Fprintf(&b, "def sessionSetsContext : Bool := %s\n", lbool(strings.Contains(sTxt, "if config.Context != nil { tx.Statement.Context = config.Context }")))
	fmt.Fprintf(&b, "def sessionSharesStatement : Bool := %s\n", lbool(strings.Contains(sTxt, "Statement: db.Statement,")))
	fmt.Fprintf(&b, "def sessionNewDBKeepsClone1 : Bool := %s\n", lbool(strings.Contains(sTxt, "clone: 1,") && strings.Contains(sTxt, "if !config.NewDB { tx.clone = 2 }")))
	o.write("CloneFacts", b.String())
}

// genCloneInit (C16): the top-level statements of Statement.clone() after the literal that mention
// newStmt.attrs / newStmt.assigns, as (field, whitespace-normalised source).  No classification is
// made here: the model recognises only the exact plain copy `newStmt.f = stmt.f`.
func genCloneInit(o *out, root map[string]*ast.File) {
	var b strings.Builder
	var stmts [][2]string
	if cl := findFunc(root, "Statement.clone"); cl != nil && len(cl.Body.List) > 0 {
		for _, st := range cl.Body.List[1:] {
			txt := strings.Join(strings.Fields(src(st)), " ")
			for _, f := range []string{"attrs", "assigns"} {
				if strings.Contains(txt, "newStmt."+f) {
					stmts = append(stmts, [2]string{f, txt})
				}
			}
		}
	}
	fmt.Fprintf(&b, "/-- statement.go `clone()`: statements after the literal mentioning newStmt.attrs / newStmt.assigns (field, source) -/\ndef cloneInitStmts : List (String × String) := %s\n\n", pairs(stmts))
	o.write("CloneInit", b.String())
}

func pkgOf(file string) string {
	if i := strings.LastIndex(file, "/"); i >= 0 {
		return file[:i]
	}
	return "."
}

func between(s, a, z string) string {
	j := strings.Index(s, z)
	if j < 0 {
		return ""
	}
	i := strings.LastIndex(s[:j], a)
	if i < 0 {
		return ""
	}
	return s[i+len(a) : j]
}

// ---- E/F. Session literals and Statement literals ------------------------------------------------

func genSessions(o *out, all []funcInfo) {
	var b strings.Builder
	b.WriteString("/-- every `Session(&Session{…})` call in non-test code: receiver and literal fields -/\ndef sessionUses : List SessionUse := [\n")
	first := true
	var stmts []string
	for _, fi := range all {
		fi := fi
		ast.Inspect(fi.decl.Body, func(n ast.Node) bool {
			switch x := n.(type) {
			case *ast.CallExpr:
				sel, ok := x.Fun.(*ast.SelectorExpr)
				if !ok || sel.Sel.Name != "Session" || len(x.Args) != 1 {
					return true
				}
				fields, found := literalFields(x.Args[0], "Session")
				if !found {
					fields, found = literalFields(x.Args[0], "gorm.Session")
				}
				if !found {
					fields = [][2]string{{"?", src(x.Args[0])}}
				}
				if !first {
					b.WriteString(",\n")
				}
				first = false
				fmt.Fprintf(&b, "  { file := %s, fn := %s, recv := %s, fields := %s }", lstr(fi.file), lstr(fi.name), lstr(src(sel.X)), pairs(fields))
			case *ast.CompositeLit:
				t := src(x.Type)
				if t == "Statement" || t == "gorm.Statement" {
					var fs [][2]string
					for _, e := range x.Elts {
						if kv, ok := e.(*ast.KeyValueExpr); ok {
							fs = append(fs, [2]string{src(kv.Key), src(kv.Value)})
						}
					}
					stmts = append(stmts, fmt.Sprintf("  { file := %s, fn := %s, fields := %s }", lstr(fi.file), lstr(fi.name), pairs(fs)))
				}
			}
			return true
		})
	}
	b.WriteString("\n]\n\n")
	b.WriteString("/-- every `Statement{…}` composite literal in non-test code -/\ndef statementLiterals : List StmtLit := [\n" + strings.Join(stmts, ",\n") + "\n]\n\n")
	// WithContext
	for _, fi := range all {
		if fi.name == "DB.WithContext" {
			fmt.Fprintf(&b, "def withContextSrc : String := %s\n", lstr(src(fi.decl.Body)))
		}
	}
	o.write("Sessions", b.String())
}

// ---- G/H. misc: AddVar arms, MergeClause copy discipline, DryRun reads ----------------------------

func genMisc(o *out, pkgs map[string]map[string]*ast.File, all []funcInfo) {
	var b strings.Builder
	// AddVar arms
	b.WriteString("/-- statement.go `Statement.AddVar`: arms of the type switch, in order -/\ndef addVarArms : List AddVarArm := [\n")
	av := findFunc(pkgs["."], "Statement.AddVar")
	var arms []string
	if av != nil {
		ast.Inspect(av.Body, func(n ast.Node) bool {
			ts, ok := n.(*ast.TypeSwitchStmt)
			if !ok {
				return true
			}
			if len(arms) > 0 {
				return false
			}
			for _, c := range ts.Body.List {
				cc := c.(*ast.CaseClause)
				var types []string
				for _, e := range cc.List {
					types = append(types, src(e))
				}
				if cc.List == nil {
					types = []string{"default"}
				}
				body := ""
				for _, s := range cc.Body {
					body += src(s) + " ; "
				}
				arms = append(arms, fmt.Sprintf("  { types := %s, appendsVar := %d, bindVarTo := %d, recursesAddVar := %d, writesQuoted := %d, buildsExpr := %d, writesString := %d }",
					lstrs(types), strings.Count(body, "stmt.Vars = append(stmt.Vars"), strings.Count(body, "BindVarTo("),
					strings.Count(body, "stmt.AddVar("), strings.Count(body, "stmt.QuoteTo("), strings.Count(body, ".Build(stmt)"), strings.Count(body, "writer.WriteString(")))
			}
			return false
		})
	}
	b.WriteString(strings.Join(arms, ",\n") + "\n]\n\n")

	// MergeClause discipline per clause type
	b.WriteString("/-- clause/*.go `MergeClause` methods: does the body copy (`make`+`copy`) or append onto the OLD expression's slice -/\ndef mergeFacts : List MergeFact := [\n")
	var ms []string
	for _, fi := range all {
		if !strings.HasPrefix(fi.file, "clause/") || !strings.HasSuffix(fi.name, ".MergeClause") {
			continue
		}
		body := src(fi.decl.Body)
		appOld := 0
		// append(v.X, ...) where v is the old expression bound by `v, ok := clause.Expression.(T)`
		appOld = strings.Count(body, "append(v.")
		ms = append(ms, fmt.Sprintf("  { clause := %s, appendsOntoOld := %d, makes := %d, copies := %d, src := %s }",
			lstr(strings.TrimSuffix(fi.name, ".MergeClause")), appOld, strings.Count(body, "make("), strings.Count(body, "copy("), lstr(body)))
	}
	b.WriteString(strings.Join(ms, ",\n") + "\n]\n\n")

	// every read of `.DryRun`
	b.WriteString("/-- every occurrence of the selector `.DryRun` in non-test code (file, function, enclosing statement is an assignment to it) -/\ndef dryRunUses : List (String × String) := [\n")
	var ds []string
	for _, fi := range all {
		fi := fi
		ast.Inspect(fi.decl.Body, func(n ast.Node) bool {
			if s, ok := n.(*ast.SelectorExpr); ok && s.Sel.Name == "DryRun" {
				ds = append(ds, fmt.Sprintf("  (%s, %s)", lstr(fi.file), lstr(fi.name)))
			}
			return true
		})
	}
	b.WriteString(strings.Join(ds, ",\n") + "\n]\n\n")

	// every assignment whose left side is a `.DryRun` selector: (file, function, right side)
	b.WriteString("def dryRunAssigns : List (String × String × String) := [\n")
	var das []string
	for _, fi := range all {
		fi := fi
		ast.Inspect(fi.decl.Body, func(n ast.Node) bool {
			if as, ok := n.(*ast.AssignStmt); ok {
				for i, l := range as.Lhs {
					if s, ok := l.(*ast.SelectorExpr); ok && s.Sel.Name == "DryRun" && i < len(as.Rhs) {
						das = append(das, fmt.Sprintf("  (%s, %s, %s)", lstr(fi.file), lstr(fi.name), lstr(src(as.Rhs[i]))))
					}
				}
			}
			return true
		})
	}
	b.WriteString(strings.Join(das, ",\n") + "\n]\n\n")

	// every assignment to a `.SkipHooks` field: (file, function, right side)
	b.WriteString("def skipHooksAssigns : List (String × String × String) := [\n")
	var sha []string
	for _, fi := range all {
		fi := fi
		ast.Inspect(fi.decl.Body, func(n ast.Node) bool {
			if as, ok := n.(*ast.AssignStmt); ok {
				for i, l := range as.Lhs {
					if s, ok := l.(*ast.SelectorExpr); ok && s.Sel.Name == "SkipHooks" && i < len(as.Rhs) {
						sha = append(sha, fmt.Sprintf("  (%s, %s, %s)", lstr(fi.file), lstr(fi.name), lstr(src(as.Rhs[i]))))
					}
				}
			}
			return true
		})
	}
	b.WriteString(strings.Join(sha, ",\n") + "\n]\n\n")
	// callMethod body
	for _, fi := range all {
		if fi.name == "callMethod" {
			fmt.Fprintf(&b, "def callMethodSrc : String := %s\n\n", lstr(src(fi.decl.Body)))
		}
	}
	for _, fi := range all {
		if fi.name == "DB.AddError" {
			body := src(fi.decl.Body)
			fmt.Fprintf(&b, "/-- gorm.go AddError: assigns db.Error only inside `if err != nil`, never to nil -/\ndef addErrorSrc : String := %s\n\n", lstr(body))
		}
	}
	// processor.Execute: source text of the SQL/Vars reset guard
	for _, fi := range all {
		if fi.name == "processor.Execute" {
			body := src(fi.decl.Body)
			fmt.Fprintf(&b, "def executeKeepsSQLOnDryRun : Bool := %s\n", lbool(strings.Contains(body, "if !stmt.DB.DryRun { stmt.SQL.Reset() stmt.Vars = nil }")))
		}
	}
	o.write("Misc", b.String())
}


// ---- C14: critical sections of prepare_stmt.go ------------------------------------------------
// For every Mux.Lock()/RLock() .. Unlock()/RUnlock() section (tracked through branches; a deferred unlock extends the
// section to the end of the function) list what happens while the lock is held: driver / database-sql calls,
// channel operations, go statements.  Model/StmtCache.lean treats each section as ONE atomic step; the theorem
// C14_lock_sections_atomic checks (decide) that no section contains a blocking operation.

type lockSec struct {
	fn, kind string
	line     int
	deferred bool
	calls    []string
	chanOps  int
	goStmts  int
}

var blockingCalls = map[string]bool{"PrepareContext": true, "ExecContext": true, "QueryContext": true, "QueryRowContext": true,
	"BeginTx": true, "StmtContext": true, "Commit": true, "Rollback": true, "Ping": true, "Close": true, "Wait": true, "Conn": true}

func muxCall(s ast.Stmt) (string, bool) {
	var call *ast.CallExpr
	deferred := false
	switch x := s.(type) {
	case *ast.ExprStmt:
		call, _ = x.X.(*ast.CallExpr)
	case *ast.DeferStmt:
		call, deferred = x.Call, true
	}
	if call == nil {
		return "", false
	}
	sel, ok := call.Fun.(*ast.SelectorExpr)
	if !ok {
		return "", false
	}
	inner, ok := sel.X.(*ast.SelectorExpr)
	if !ok || inner.Sel.Name != "Mux" {
		return "", false
	}
	return sel.Sel.Name, deferred
}

func genLockSections(o *out, files map[string]*ast.File, repo string) {
	var secs []*lockSec
	fset := token.NewFileSet()
	f, err := parser.ParseFile(fset, filepath.Join(repo, "prepare_stmt.go"), nil, 0)
	if err != nil {
		o.write("LockSections", "-- prepare_stmt.go not parseable: facts unknown\n")
		return
	}
	scan := func(n ast.Node, held *lockSec) {
		if held == nil || n == nil {
			return
		}
		ast.Inspect(n, func(x ast.Node) bool {
			switch y := x.(type) {
			case *ast.GoStmt:
				held.goStmts++
				return false
			case *ast.FuncLit:
				return false
			case *ast.UnaryExpr:
				if y.Op == token.ARROW {
					held.chanOps++
				}
			case *ast.SendStmt:
				held.chanOps++
			case *ast.SelectStmt:
				held.chanOps++
			case *ast.CallExpr:
				if sel, ok := y.Fun.(*ast.SelectorExpr); ok && blockingCalls[sel.Sel.Name] {
					held.calls = append(held.calls, sel.Sel.Name)
				}
			}
			return true
		})
	}
	var walk func(fn string, stmts []ast.Stmt, held *lockSec) *lockSec
	walk = func(fn string, stmts []ast.Stmt, held *lockSec) *lockSec {
		for _, st := range stmts {
			if name, deferred := muxCall(st); name != "" {
				switch {
				case name == "Lock" || name == "RLock":
					held = &lockSec{fn: fn, kind: name, line: fset.Position(st.Pos()).Line}
					secs = append(secs, held)
				case deferred:
					if held != nil {
						held.deferred = true
					}
				default:
					held = nil
				}
				continue
			}
			switch x := st.(type) {
			case *ast.IfStmt:
				scan(x.Init, held)
				scan(x.Cond, held)
				h2 := walk(fn, x.Body.List, held)
				if !endsWithReturn(x.Body) {
					held = h2
				}
				if eb, ok := x.Else.(*ast.BlockStmt); ok {
					h3 := walk(fn, eb.List, held)
					if !endsWithReturn(eb) {
						held = h3
					}
				} else if x.Else != nil {
					walk(fn, []ast.Stmt{x.Else}, held)
				}
			case *ast.BlockStmt:
				held = walk(fn, x.List, held)
			case *ast.RangeStmt:
				scan(x.X, held)
				held = walk(fn, x.Body.List, held)
			case *ast.ForStmt:
				held = walk(fn, x.Body.List, held)
			case *ast.DeferStmt:
				// runs at return: after a non-deferred Unlock, or (for deferred unlocks, LIFO) possibly under the lock
				if held != nil && held.deferred {
					scan(x.Call, held)
				}
			default:
				scan(st, held)
			}
		}
		return held
	}
	for _, d := range f.Decls {
		fd, ok := d.(*ast.FuncDecl)
		if !ok || fd.Body == nil {
			continue
		}
		name := fd.Name.Name
		if fd.Recv != nil && len(fd.Recv.List) > 0 {
			name = strings.TrimPrefix(src(fd.Recv.List[0].Type), "*") + "." + name
		}
		walk(name, fd.Body.List, nil)
	}
	var b strings.Builder
	b.WriteString("structure LockSection where\n  fn : String\n  kind : String\n  line : Nat\n  deferred : Bool\n  blockingCalls : List String\n  chanOps : Nat\n  goStmts : Nat\nderiving Repr, DecidableEq\n\n")
	b.WriteString("/-- prepare_stmt.go: every Mux.Lock/RLock section and what is executed while the lock is held -/\ndef lockSections : List LockSection := [\n")
	for i, s := range secs {
		if i > 0 {
			b.WriteString(",\n")
		}
		fmt.Fprintf(&b, "  { fn := %s, kind := %s, line := %d, deferred := %s, blockingCalls := %s, chanOps := %d, goStmts := %d }",
			lstr(s.fn), lstr(s.kind), s.line, lbool(s.deferred), lstrs(s.calls), s.chanOps, s.goStmts)
	}
	b.WriteString("\n]\n")
	o.write("LockSections", b.String())
	o.facts["lockSections"] = len(secs)
}

// ---- C07: assignment sites of shared fields ---------------------------------------------------

// lhsParts: for an assignment target like `a.b.c[k].d` returns base identifier "a", the selector path "b.c[].d",
// the last selected field name "d" and whether the target is an element of that field (`x.f[k] = …`).
func lhsParts(e ast.Expr) (base, path, field string, elem, ok bool) {
	var segs []string
	cur := e
	first := true
	for {
		switch x := cur.(type) {
		case *ast.SelectorExpr:
			if field == "" {
				field = x.Sel.Name
			}
			segs = append([]string{x.Sel.Name}, segs...)
			cur = x.X
			first = false
		case *ast.IndexExpr:
			if first {
				elem = true
			}
			segs = append([]string{"[]"}, segs...)
			cur = x.X
		case *ast.StarExpr:
			cur = x.X
		case *ast.ParenExpr:
			cur = x.X
		case *ast.Ident:
			if field == "" {
				return "", "", "", false, false // plain local variable / element of a local
			}
			return x.Name, strings.Join(segs, "."), field, elem, true
		default:
			if field == "" {
				return "", "", "", false, false
			}
			return "<expr>", strings.Join(segs, "."), field, elem, true
		}
	}
}

// genSharedWrites lists (a) every assignment whose target is a field named like one of the handle-wide shared fields
// (processor.fns / processor.callbacks / Config.callbacks / Config.cacheStore / Config.Plugins), anywhere in the root and
// callbacks packages, and (b) every field assignment inside the functions every operation on a shared handle runs through
// (processor.Execute, DB.getInstance, Statement.clone).  Dumb by design: no type inference, names only.
func genSharedWrites(o *out, all []funcInfo) {
	sharedFields := map[string]bool{"fns": true, "cacheStore": true, "callbacks": true, "Plugins": true}
	hotFuncs := map[string]bool{"processor.Execute": true, "DB.getInstance": true, "Statement.clone": true}
	type site struct{ file, fn, base, path, field string; elem bool }
	var fieldSites, funcSites []site
	for _, fi := range all {
		if strings.HasPrefix(fi.file, "schema/") || strings.HasPrefix(fi.file, "migrator/") || strings.HasPrefix(fi.file, "clause/") || strings.HasPrefix(fi.file, "utils/") {
			continue
		}
		add := func(e ast.Expr) {
			base, path, field, elem, ok := lhsParts(e)
			if !ok {
				return
			}
			st := site{fi.file, fi.name, base, path, field, elem}
			if sharedFields[field] {
				fieldSites = append(fieldSites, st)
			}
			if hotFuncs[fi.name] {
				funcSites = append(funcSites, st)
			}
		}
		ast.Inspect(fi.decl.Body, func(n ast.Node) bool {
			switch x := n.(type) {
			case *ast.AssignStmt:
				if x.Tok == token.DEFINE {
					return true
				}
				for _, l := range x.Lhs {
					add(l)
				}
			case *ast.IncDecStmt:
				add(x.X)
			}
			return true
		})
	}
	var b strings.Builder
	b.WriteString("structure WriteSite where\n  file : String\n  fn : String\n  base : String\n  path : String\n  field : String\n  elem : Bool\nderiving Repr, DecidableEq\n\n")
	emit := func(name, doc string, ss []site) {
		b.WriteString("/-- " + doc + " -/\ndef " + name + " : List WriteSite := [\n")
		for i, s := range ss {
			sep := ","
			if i == len(ss)-1 {
				sep = ""
			}
			b.WriteString(fmt.Sprintf("  { file := %s, fn := %s, base := %s, path := %s, field := %s, elem := %s }%s\n",
				lstr(s.file), lstr(s.fn), lstr(s.base), lstr(s.path), lstr(s.field), lbool(s.elem), sep))
		}
		b.WriteString("]\n\n")
	}
	emit("sharedFieldWrites", "every assignment (root + callbacks packages) whose target field is named fns / cacheStore / callbacks / Plugins", fieldSites)
	emit("hotFuncWrites", "every field assignment inside processor.Execute, DB.getInstance, Statement.clone (base = leftmost identifier of the target)", funcSites)
	o.write("SharedWrites", b.String())
	o.facts["sharedFieldWrites"] = len(fieldSites)
	o.facts["hotFuncWrites"] = len(funcSites)
}


// ---- C06 / C07: in-place writes through aliased slices -------------------------------------------
// Dumb syntactic facts about four places where gorm writes (or no longer writes) into a slice it
// shares with a reusable handle or with the caller:
//   statement.go BuildCondition, `case *DB:` arm      — assignments to `where.Exprs[i]`, receiver of executeScopes()
//   clause/where.go Where.Build                         — assignments to `where.Exprs[i]`
//   chainable_api.go Select, `case []string:` arm       — `tx.Statement.Selects = v` (the caller's slice itself)

func caseClauseFor(body ast.Node, typ string) *ast.CaseClause {
	var found *ast.CaseClause
	ast.Inspect(body, func(n ast.Node) bool {
		if found != nil {
			return false
		}
		if cc, ok := n.(*ast.CaseClause); ok {
			for _, e := range cc.List {
				if src(e) == typ {
					found = cc
					return false
				}
			}
		}
		return true
	})
	return found
}

// number of assignment targets of the form `<base>[...]`
func elemAssigns(n ast.Node, base string) int {
	cnt := 0
	ast.Inspect(n, func(x ast.Node) bool {
		if as, ok := x.(*ast.AssignStmt); ok {
			for _, l := range as.Lhs {
				if ix, ok := l.(*ast.IndexExpr); ok && src(ix.X) == base {
					cnt++
				}
			}
		}
		return true
	})
	return cnt
}

func genAliasFacts(o *out, pkgs map[string]map[string]*ast.File) {
	var b strings.Builder
	// BuildCondition, case *DB
	grpAssigns, grpSrc := 0, ""
	var recvs []string
	if bc := findFunc(pkgs["."], "Statement.BuildCondition"); bc != nil {
		if cc := caseClauseFor(bc.Body, "*DB"); cc != nil {
			for _, st := range cc.Body {
				grpAssigns += elemAssigns(st, "where.Exprs")
				grpSrc += src(st) + " ; "
				ast.Inspect(st, func(x ast.Node) bool {
					if c, ok := x.(*ast.CallExpr); ok {
						if sel, ok := c.Fun.(*ast.SelectorExpr); ok && sel.Sel.Name == "executeScopes" {
							recvs = append(recvs, src(sel.X))
						}
					}
					return true
				})
			}
		}
	}
	fmt.Fprintf(&b, "/-- statement.go `BuildCondition`, arm `case *DB:` — assignments to `where.Exprs[i]` (the ARGUMENT handle's array) -/\ndef groupArmElemAssigns : Nat := %d\n\n", grpAssigns)
	fmt.Fprintf(&b, "/-- … receivers of the `executeScopes()` calls in that arm (`v` = the argument handle itself) -/\ndef groupArmScopesRecv : List String := %s\n\n", lstrs(recvs))
	fmt.Fprintf(&b, "def groupArmSrc : String := %s\n\n", lstr(grpSrc))
	// Where.Build
	wbAssigns, wbSrc := 0, ""
	if wb := findFunc(pkgs["clause"], "Where.Build"); wb != nil {
		wbAssigns = elemAssigns(wb.Body, "where.Exprs")
		wbSrc = src(wb.Body)
	}
	fmt.Fprintf(&b, "/-- clause/where.go `Where.Build` — assignments to `where.Exprs[i]` (the array shared with the handle's clause) -/\ndef whereBuildElemAssigns : Nat := %d\n\n", wbAssigns)
	fmt.Fprintf(&b, "def whereBuildSrc : String := %s\n\n", lstr(wbSrc))
	// Select, case []string
	stores, selSrc := 0, ""
	if sel := findFunc(pkgs["."], "DB.Select"); sel != nil {
		var ts *ast.TypeSwitchStmt
		ast.Inspect(sel.Body, func(n ast.Node) bool {
			if t, ok := n.(*ast.TypeSwitchStmt); ok && ts == nil {
				ts = t
				return false
			}
			return true
		})
		bound := ""
		if ts != nil {
			if as, ok := ts.Assign.(*ast.AssignStmt); ok && len(as.Lhs) == 1 {
				bound = src(as.Lhs[0])
			}
			if cc := caseClauseFor(ts.Body, "[]string"); cc != nil {
				for _, st := range cc.Body {
					if as, ok := st.(*ast.AssignStmt); ok && len(as.Lhs) == 1 && len(as.Rhs) == 1 &&
						strings.HasSuffix(src(as.Lhs[0]), ".Selects") && src(as.Rhs[0]) == bound && bound != "" {
						stores++
					}
					if _, isFor := st.(*ast.ForStmt); !isFor {
						if _, isRange := st.(*ast.RangeStmt); !isRange {
							if _, isIf := st.(*ast.IfStmt); !isIf {
								selSrc += src(st) + " ; "
							}
						}
					}
				}
			}
		}
	}
	fmt.Fprintf(&b, "/-- chainable_api.go `Select`, arm `case []string:` — statements `X.Selects = v` storing the caller's slice itself -/\ndef selectArmStoresArg : Nat := %d\n\n", stores)
	fmt.Fprintf(&b, "def selectArmSrc : String := %s\n", lstr(selSrc))
	o.write("AliasFacts", b.String())
}
