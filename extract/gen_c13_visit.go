package main

// C13 fact generator (round 3): Gen/VisitFacts.lean -- the structure of the association visit map code
//
//	callbacks/associations.go checkAssociationsSaved: every control-flow path with its branch conditions (the `if`
//	    init statement is part of the condition text), the calls made on it (function + argument texts) and the
//	    returned expression;
//	callbacks/associations.go saveAssociations: the top-level statements that matter (the `if checkAssociationsSaved(…)
//	    { return nil }` guard, the definition of `values`, the Settings copy into the nested handle, the nested Create,
//	    any other statement that can return);
//	every `.Create(` call of callbacks/associations.go with its enclosing function and argument.

import (
	"fmt"
	"go/ast"
	"strings"
)

func init() {
	extraGens = append(extraGens, func(o *out, pkgs map[string]map[string]*ast.File, all []funcInfo, repo string) {
		genVisitFacts(o, all)
	})
}

type c13vPath struct {
	conds  [][2]string // ("+"|"-", text)
	events [][]string  // fn :: args
	ret    string
}

func c13vCalls(n ast.Node) [][]string {
	var out [][]string
	if n == nil {
		return out
	}
	ast.Inspect(n, func(x ast.Node) bool {
		if _, ok := x.(*ast.FuncLit); ok {
			return false
		}
		if c, ok := x.(*ast.CallExpr); ok {
			ev := []string{src(c.Fun)}
			for _, a := range c.Args {
				ev = append(ev, src(a))
			}
			out = append(out, ev)
		}
		return true
	})
	return out
}

// c13vEnum enumerates the paths of a statement list (if/else and returns; other statements are straight-line).
func c13vEnum(list []ast.Stmt, cur c13vPath, done *[]c13vPath) (open []c13vPath) {
	open = []c13vPath{cur}
	for _, s := range list {
		var next []c13vPath
		for _, p := range open {
			switch x := s.(type) {
			case *ast.ReturnStmt:
				q := c13vCopy(p)
				for _, r := range x.Results {
					q.events = append(q.events, c13vCalls(r)...)
				}
				var rs []string
				for _, r := range x.Results {
					rs = append(rs, src(r))
				}
				q.ret = strings.Join(rs, ", ")
				*done = append(*done, q)
			case *ast.IfStmt:
				text := src(x.Cond)
				q := c13vCopy(p)
				if x.Init != nil {
					text = src(x.Init) + "; " + text
					q.events = append(q.events, c13vCalls(x.Init)...)
				}
				q.events = append(q.events, c13vCalls(x.Cond)...)
				yes := c13vCopy(q)
				yes.conds = append(yes.conds, [2]string{"+", text})
				next = append(next, c13vEnum(x.Body.List, yes, done)...)
				no := c13vCopy(q)
				no.conds = append(no.conds, [2]string{"-", text})
				switch e := x.Else.(type) {
				case nil:
					next = append(next, no)
				case *ast.BlockStmt:
					next = append(next, c13vEnum(e.List, no, done)...)
				default:
					next = append(next, c13vEnum([]ast.Stmt{e}, no, done)...)
				}
			case *ast.BlockStmt:
				next = append(next, c13vEnum(x.List, p, done)...)
			default:
				q := c13vCopy(p)
				q.events = append(q.events, c13vCalls(s)...)
				next = append(next, q)
			}
		}
		open = next
	}
	return open
}

func c13vCopy(p c13vPath) c13vPath {
	return c13vPath{conds: append([][2]string(nil), p.conds...), events: append([][]string(nil), p.events...), ret: p.ret}
}

func genVisitFacts(o *out, all []funcInfo) {
	var b strings.Builder
	b.WriteString(`structure VisitCall where
  fn : String
  args : List String
deriving Repr, DecidableEq

structure VisitPath where
  conds : List (Bool × String)
  calls : List VisitCall
  ret : String
deriving Repr, DecidableEq

`)
	// A. checkAssociationsSaved
	var paths []c13vPath
	params := []string{}
	if fi := c13Func(all, "callbacks/associations.go", "checkAssociationsSaved"); fi != nil && fi.decl.Body != nil {
		for _, f := range fi.decl.Type.Params.List {
			for _, n := range f.Names {
				params = append(params, n.Name)
			}
		}
		open := c13vEnum(fi.decl.Body.List, c13vPath{}, &paths)
		for _, p := range open {
			p.ret = "<falls off>"
			paths = append(paths, p)
		}
	}
	b.WriteString("/-- callbacks/associations.go checkAssociationsSaved: parameter names -/\n")
	b.WriteString("def checkSavedParams : List String := " + lstrs(params) + "\n\n")
	b.WriteString("/-- callbacks/associations.go checkAssociationsSaved: every control-flow path (branch conditions, calls, result) -/\n")
	b.WriteString("def checkSavedPaths : List VisitPath := [\n")
	for i, p := range paths {
		var cs, es []string
		for _, c := range p.conds {
			cs = append(cs, "("+lbool(c[0] == "+")+", "+lstr(c[1])+")")
		}
		for _, e := range p.events {
			es = append(es, "⟨"+lstr(e[0])+", "+lstrs(e[1:])+"⟩")
		}
		sep := ","
		if i == len(paths)-1 {
			sep = ""
		}
		fmt.Fprintf(&b, "  { conds := [%s], calls := [%s], ret := %s }%s\n", strings.Join(cs, ", "), strings.Join(es, ", "), lstr(p.ret), sep)
	}
	b.WriteString("]\n\n")

	// B. saveAssociations: the statements that matter, in source order
	var stmts [][2]string
	if fi := c13Func(all, "callbacks/associations.go", "saveAssociations"); fi != nil && fi.decl.Body != nil {
		for _, s := range fi.decl.Body.List {
			kind, text := "", ""
			if is, ok := s.(*ast.IfStmt); ok && is.Init == nil && is.Else == nil {
				if c, ok := is.Cond.(*ast.CallExpr); ok && src(c.Fun) == "checkAssociationsSaved" && len(is.Body.List) == 1 {
					if r, ok := is.Body.List[0].(*ast.ReturnStmt); ok {
						var as, rs []string
						for _, a := range c.Args {
							as = append(as, src(a))
						}
						for _, x := range r.Results {
							rs = append(rs, src(x))
						}
						kind, text = "guard", strings.Join(as, ", ")+" => return "+strings.Join(rs, ", ")
					}
				}
			}
			// repaired guard (F27): `if L.Kind() == reflect.Slice { … for … { if !checkAssociationsSaved(db, L.Index(i)) {…} }
			// if L = U; L.Len() == 0 { return nil } } else if checkAssociationsSaved(db, L) { return nil }`
			if is, ok := s.(*ast.IfStmt); ok && kind == "" && is.Init == nil {
				if els, ok := is.Else.(*ast.IfStmt); ok && els.Else == nil && els.Init == nil && len(els.Body.List) == 1 {
					if c, ok := els.Cond.(*ast.CallExpr); ok && src(c.Fun) == "checkAssociationsSaved" {
						if r, ok := els.Body.List[0].(*ast.ReturnStmt); ok {
							var each, exits []string
							ast.Inspect(is.Body, func(n ast.Node) bool {
								switch x := n.(type) {
								case *ast.CallExpr:
									if src(x.Fun) == "checkAssociationsSaved" {
										var as []string
										for _, a := range x.Args {
											as = append(as, src(a))
										}
										each = append(each, strings.Join(as, ", "))
									}
								case *ast.IfStmt:
									if len(x.Body.List) == 1 {
										if rr, ok := x.Body.List[0].(*ast.ReturnStmt); ok {
											var rs []string
											for _, y := range rr.Results {
												rs = append(rs, src(y))
											}
											exits = append(exits, src(x.Init)+"; "+src(x.Cond)+" => return "+strings.Join(rs, ", "))
										}
									}
								}
								return true
							})
							var as, rs []string
							for _, a := range c.Args {
								as = append(as, src(a))
							}
							for _, x := range r.Results {
								rs = append(rs, src(x))
							}
							stmts = append(stmts, [2]string{"guard-each", src(is.Cond) + ": " + strings.Join(each, " | ") + " => keep; " + strings.Join(exits, " | ")})
							kind, text = "guard", strings.Join(as, ", ")+" => return "+strings.Join(rs, ", ")
						}
					}
				}
			}
			if kind == "" {
				hasCreate, hasReturn, copyTo := "", false, ""
				ast.Inspect(s, func(n ast.Node) bool {
					switch x := n.(type) {
					case *ast.ReturnStmt:
						hasReturn = true
					case *ast.CallExpr:
						if se, ok := x.Fun.(*ast.SelectorExpr); ok {
							if se.Sel.Name == "Create" {
								hasCreate = src(x)
							}
							if se.Sel.Name == "Range" && strings.HasSuffix(src(se.X), "Statement.Settings") {
								// db.Statement.Settings.Range(func(k, v) { tx.Statement.Settings.Store(k, v) … })
								ast.Inspect(x, func(m ast.Node) bool {
									if c2, ok := m.(*ast.CallExpr); ok {
										if s2, ok := c2.Fun.(*ast.SelectorExpr); ok && s2.Sel.Name == "Store" {
											copyTo = src(se.X) + " -> " + src(s2.X)
										}
									}
									return true
								})
							}
						}
					case *ast.ValueSpec:
						for i, n := range x.Names {
							if n.Name == "values" && i < len(x.Values) {
								stmts = append(stmts, [2]string{"values-def", src(x.Values[i])})
							}
						}
					}
					return true
				})
				switch {
				case hasCreate != "":
					kind, text = "create", hasCreate
				case copyTo != "":
					kind, text = "settings-copy", copyTo
				case hasReturn:
					kind, text = "other-return", src(s)
				}
			}
			if kind != "" {
				stmts = append(stmts, [2]string{kind, text})
			}
		}
	}
	b.WriteString("/-- callbacks/associations.go saveAssociations: guard, definition of `values`, Settings copy, nested Create, other returning statements -- in source order -/\n")
	b.WriteString("def saveAssociationsStmts : List (String × String) := " + c13Pairs(stmts) + "\n\n")

	// C. every .Create( call of callbacks/associations.go
	var creates [][2]string
	for i := range all {
		fi := &all[i]
		if fi.file != "callbacks/associations.go" || fi.decl.Body == nil {
			continue
		}
		ast.Inspect(fi.decl.Body, func(n ast.Node) bool {
			if c, ok := n.(*ast.CallExpr); ok {
				if se, ok := c.Fun.(*ast.SelectorExpr); ok && (se.Sel.Name == "Create" || se.Sel.Name == "CreateInBatches" || se.Sel.Name == "Save" || se.Sel.Name == "Updates" || se.Sel.Name == "FirstOrCreate") {
					var as []string
					for _, a := range c.Args {
						as = append(as, src(a))
					}
					creates = append(creates, [2]string{fi.name, se.Sel.Name + "(" + strings.Join(as, ", ") + ")"})
				}
			}
			return true
		})
	}
	b.WriteString("/-- every record-writing finisher call inside callbacks/associations.go: (enclosing function, call) -/\n")
	b.WriteString("def assocWriteCalls : List (String × String) := " + c13Pairs(creates) + "\n")
	o.write("VisitFacts", b.String())
}
