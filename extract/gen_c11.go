package main

// C11 fact generator: does preloadEntryPoint's single-record branch test the joined relation's field for nil
// before descending (as its slice branch does)?

import (
	"go/ast"
	"strings"
)

func init() {
	extraGens = append(extraGens, func(o *out, pkgs map[string]map[string]*ast.File, all []funcInfo, repo string) {
		genPreloadFacts(o, pkgs["callbacks"])
	})
}

func genPreloadFacts(o *out, cb map[string]*ast.File) {
	found, nilCheck := false, false
	for _, f := range cb {
		for _, d := range f.Decls {
			fd, ok := d.(*ast.FuncDecl)
			if !ok || fd.Name.Name != "preloadEntryPoint" || fd.Body == nil {
				continue
			}
			ast.Inspect(fd.Body, func(n ast.Node) bool {
				cc, ok := n.(*ast.CaseClause)
				if !ok {
					return true
				}
				isStruct := false
				for _, e := range cc.List {
					if strings.HasSuffix(src(e), "reflect.Struct") {
						isStruct = true
					}
				}
				if !isStruct {
					return true
				}
				found = true
				for _, st := range cc.Body {
					ast.Inspect(st, func(m ast.Node) bool {
						if call, ok := m.(*ast.CallExpr); ok {
							if sel, ok := call.Fun.(*ast.SelectorExpr); ok && sel.Sel.Name == "IsNil" {
								nilCheck = true
							}
						}
						return true
					})
				}
				return true
			})
		}
	}
	var b strings.Builder
	b.WriteString("/-- callbacks/preload.go preloadEntryPoint has a `case reflect.Struct, …` branch (single-record destination) -/\n")
	b.WriteString("def preloadSingleBranchFound : Bool := " + lbool(found) + "\n\n")
	b.WriteString("/-- … and that branch tests the joined relation's field with IsNil() before descending -/\n")
	b.WriteString("def preloadSingleNilCheck : Bool := " + lbool(nilCheck) + "\n")
	o.write("PreloadFacts", b.String())
	o.facts["preloadSingleNilCheck"] = nilCheck
}
