package main

// C11 fact generator: does preloadEntryPoint's single-record branch test the joined relation's field for nil
// before descending (as its slice branch does)?

import (
	"fmt"
	"go/ast"
	"strings"
)

func init() {
	extraGens = append(extraGens, func(o *out, pkgs map[string]map[string]*ast.File, all []funcInfo, repo string) {
		genPreloadFacts(o, pkgs["callbacks"])
	})
}

func genPreloadFacts(o *out, cb map[string]*ast.File) {
	found, nilCheck := false, false
	for _, f := range cb {
		for _, d := range f.Decls {
			fd, ok := d.(*ast.FuncDecl)
			if !ok || fd.Name.Name != "preloadEntryPoint" || fd.Body == nil {
				continue
			}
			ast.Inspect(fd.Body, func(n ast.Node) bool {
				cc, ok := n.(*ast.CaseClause)
				if !ok {
					return true
				}
				isStruct := false
				for _, e := range cc.List {
					if strings.HasSuffix(src(e), "reflect.Struct") {
						isStruct = true
					}
				}
				if !isStruct {
					return true
				}
				found = true
				for _, st := range cc.Body {
					ast.Inspect(st, func(m ast.Node) bool {
						if call, ok := m.(*ast.CallExpr); ok {
							if sel, ok := call.Fun.(*ast.SelectorExpr); ok && sel.Sel.Name == "IsNil" {
								nilCheck = true
							}
						}
						return true
					})
				}
				return true
			})
		}
	}
	var b strings.Builder
	b.WriteString("/-- callbacks/preload.go preloadEntryPoint has a `case reflect.Struct, …` branch (single-record destination) -/\n")
	b.WriteString("def preloadSingleBranchFound : Bool := " + lbool(found) + "\n\n")
	b.WriteString("/-- … and that branch tests the joined relation's field with IsNil() before descending -/\n")
	b.WriteString("def preloadSingleNilCheck : Bool := " + lbool(nilCheck) + "\n")
	o.write("PreloadFacts", b.String())
	o.facts["preloadSingleNilCheck"] = nilCheck
}

// ---- round 3: the sessions a load derives (Statement.Unscoped) and the error checks of preload's queries --------------

func init() {
	extraGens = append(extraGens, func(o *out, pkgs map[string]map[string]*ast.File, all []funcInfo, repo string) {
		genPreloadSessions(o, pkgs["callbacks"], pkgs["."])
	})
}

// does n contain `<x>.Statement.Unscoped = <y>.Statement.Unscoped` (x != y)?
func c11CopiesUnscoped(n ast.Node) bool {
	found := false
	if n == nil {
		return false
	}
	ast.Inspect(n, func(x ast.Node) bool {
		as, ok := x.(*ast.AssignStmt)
		if !ok || len(as.Lhs) != 1 || len(as.Rhs) != 1 {
			return true
		}
		l, r := src(as.Lhs[0]), src(as.Rhs[0])
		if strings.HasSuffix(l, ".Statement.Unscoped") && strings.HasSuffix(r, ".Statement.Unscoped") && l != r {
			found = true
		}
		return true
	})
	return found
}

// the first gorm.Session literal in n: (found, NewDB: true)
func c11SessionLit(n ast.Node) (bool, bool) {
	if n == nil {
		return false, false
	}
	fields, found := literalFields(n, "gorm.Session")
	newDB := false
	for _, f := range fields {
		if f[0] == "NewDB" && f[1] == "true" {
			newDB = true
		}
	}
	return found, newDB
}

func c11CallsFunc(n ast.Node, name string) bool {
	found := false
	if n == nil {
		return false
	}
	ast.Inspect(n, func(x ast.Node) bool {
		if c, ok := x.(*ast.CallExpr); ok {
			if id, ok := c.Fun.(*ast.Ident); ok && id.Name == name {
				found = true
			}
		}
		return true
	})
	return found
}

func genPreloadSessions(o *out, cb, root map[string]*ast.File) {
	var b strings.Builder
	rule := func(name, doc string, newDB, copies bool) {
		b.WriteString("/-- " + doc + " -/\n")
		b.WriteString("def " + name + "NewDB : Bool := " + lbool(newDB) + "\n")
		b.WriteString("def " + name + "Copies : Bool := " + lbool(copies) + "\n\n")
		o.facts[name+"NewDB"], o.facts[name+"Copies"] = newDB, copies
	}
	// preloadDB itself
	pdb := findFunc(cb, "preloadDB")
	pdbFound, pdbNew := false, false
	pdbCopies := false
	if pdb != nil {
		pdbFound, pdbNew = c11SessionLit(pdb.Body)
		// inside preloadDB only an UNCONDITIONAL copy counts (a statement of the function body itself)
		for _, st := range pdb.Body.List {
			if as, ok := st.(*ast.AssignStmt); ok && c11CopiesUnscoped(as) {
				pdbCopies = true
			}
		}
	}
	// a session built in n: through preloadDB (its rule) and / or an own gorm.Session literal; an explicit copy in n adds to it.
	// No session construction found at all: reported as (newDB = true, copies = false) so that the theorems fail loudly.
	derive := func(n ast.Node) (bool, bool) {
		if n == nil {
			return true, false
		}
		via := c11CallsFunc(n, "preloadDB") && pdbFound
		lit, litNew := c11SessionLit(n)
		newDB, copies := false, c11CopiesUnscoped(n)
		switch {
		case via:
			newDB = pdbNew
			copies = copies || pdbCopies
		case lit:
			newDB = litNew
		default:
			return true, false
		}
		return newDB, copies
	}
	// callbacks.Preload: the root session
	var rootBody ast.Node
	if fd := findFunc(cb, "Preload"); fd != nil {
		rootBody = fd.Body
	}
	rn, rc := derive(rootBody)
	rule("preloadRoot", "callbacks/query.go Preload: the session handed to preloadEntryPoint (via preloadDB and / or an explicit copy)", rn, rc)
	// preloadEntryPoint: `if joined, … := isJoined(name); joined { switch … case slice / case struct } else { … }`
	var sliceBody, structBody, elseBody ast.Node
	if fd := findFunc(cb, "preloadEntryPoint"); fd != nil {
		ast.Inspect(fd.Body, func(x ast.Node) bool {
			is, ok := x.(*ast.IfStmt)
			if !ok || is.Init == nil || !strings.Contains(src(is.Init), "isJoined(") {
				return true
			}
			elseBody = is.Else
			ast.Inspect(is.Body, func(y ast.Node) bool {
				cc, ok := y.(*ast.CaseClause)
				if !ok {
					return true
				}
				for _, e := range cc.List {
					switch {
					case strings.HasSuffix(src(e), "reflect.Slice"):
						sliceBody = &ast.BlockStmt{List: cc.Body}
					case strings.HasSuffix(src(e), "reflect.Struct"):
						structBody = &ast.BlockStmt{List: cc.Body}
					}
				}
				return true
			})
			return false
		})
	}
	sn, sc := derive(sliceBody)
	rule("preloadJoinedSlice", "callbacks/preload.go preloadEntryPoint, relation JOINED, slice destination: the session of the next level", sn, sc)
	tn, tc := derive(structBody)
	rule("preloadJoinedStruct", "callbacks/preload.go preloadEntryPoint, relation JOINED, single record: the session of the next level", tn, tc)
	en, ec := derive(elseBody)
	rule("preloadEntry", "callbacks/preload.go preloadEntryPoint, relation NOT joined: the session handed to preload()", en, ec)
	// Statement.clone keeps Unscoped
	keeps := false
	if fd := findFunc(root, "Statement.clone"); fd != nil {
		ast.Inspect(fd.Body, func(x ast.Node) bool {
			if kv, ok := x.(*ast.KeyValueExpr); ok && src(kv.Key) == "Unscoped" && strings.HasSuffix(src(kv.Value), ".Unscoped") {
				keeps = true
			}
			return true
		})
	}
	b.WriteString("/-- statement.go Statement.clone copies the Unscoped flag -/\n")
	b.WriteString("def stmtCloneKeepsUnscoped : Bool := " + lbool(keeps) + "\n\n")
	o.facts["stmtCloneKeepsUnscoped"] = keeps

	// the Find calls of preload() in source order: is the error of each tested and returned?
	//   if err := <…>.Find(<…>).Error; err != nil { return err }
	var checked []string
	if fd := findFunc(cb, "preload"); fd != nil {
		var stack []ast.Node
		ast.Inspect(fd.Body, func(x ast.Node) bool {
			if x == nil {
				stack = stack[:len(stack)-1]
				return true
			}
			stack = append(stack, x)
			call, ok := x.(*ast.CallExpr)
			if !ok {
				return true
			}
			sel, ok := call.Fun.(*ast.SelectorExpr)
			if !ok || sel.Sel.Name != "Find" {
				return true
			}
			good := false
			// parents: SelectorExpr(.Error) <- AssignStmt(err := …) <- IfStmt(Init; err != nil) { return err }
			if n := len(stack); n >= 4 {
				if se, ok := stack[n-2].(*ast.SelectorExpr); ok && se.Sel.Name == "Error" {
					if as, ok := stack[n-3].(*ast.AssignStmt); ok && len(as.Lhs) == 1 {
						if is, ok := stack[n-4].(*ast.IfStmt); ok && is.Init == ast.Stmt(as) {
							v := src(as.Lhs[0])
							if src(is.Cond) == v+" != nil" && len(is.Body.List) > 0 {
								if rs, ok := is.Body.List[0].(*ast.ReturnStmt); ok && len(rs.Results) == 1 && src(rs.Results[0]) == v {
									good = true
								}
							}
						}
					}
				}
			}
			checked = append(checked, lbool(good))
			return true
		})
	}
	b.WriteString("/-- callbacks/preload.go preload: one entry per `.Find(` call in source order (join-table query, related-table query):\n    true = written as `if err := ….Find(…).Error; err != nil { return err }` -/\n")
	b.WriteString("def preloadFindsChecked : List Bool := [" + strings.Join(checked, ", ") + "]\n")
	o.facts["preloadFindsChecked"] = checked
	o.write("PreloadSessions", b.String())
}

// ---- round 4: the shape of preload's child queries (is there a loop around the Find? on which handle?) ------------------
//
// preload() receives `tx` as a session handle (clone = 2: the next chain call works on a copy of the statement), but it
// re-assigns tx from chain calls (`tx = tx.Preload(…)`, `tx = fc(tx)`, `tx = tx.Where(…)`): after any of them tx no longer
// clones, every further `tx.Where(…)` lands in the SAME statement.  One `tx.Where(IN all keys).Find(…)` is right either way;
// a loop around it (batches of the key list) is right only on a handle that is fresh per iteration.

func init() {
	extraGens = append(extraGens, func(o *out, pkgs map[string]map[string]*ast.File, all []funcInfo, repo string) {
		genPreloadQuery(o, pkgs["callbacks"])
	})
}

func genPreloadQuery(o *out, cb map[string]*ast.File) {
	var depth []string
	var fresh, whole []string
	var roots []string
	reassign := 0
	if fd := findFunc(cb, "preload"); fd != nil {
		var stack []ast.Node
		ast.Inspect(fd.Body, func(x ast.Node) bool {
			if x == nil {
				stack = stack[:len(stack)-1]
				return true
			}
			stack = append(stack, x)
			if as, ok := x.(*ast.AssignStmt); ok && len(as.Lhs) == 1 && len(as.Rhs) == 1 && src(as.Lhs[0]) == "tx" && as.Tok.String() == "=" {
				if _, ok := as.Rhs[0].(*ast.CallExpr); ok {
					reassign++
				}
			}
			call, ok := x.(*ast.CallExpr)
			if !ok {
				return true
			}
			sel, ok := call.Fun.(*ast.SelectorExpr)
			if !ok || sel.Sel.Name != "Find" {
				return true
			}
			d := 0
			for _, n := range stack {
				switch n.(type) {
				case *ast.ForStmt, *ast.RangeStmt:
					d++
				}
			}
			depth = append(depth, fmt.Sprint(d))
			// the receiver chain of .Find: <root>.A(…).B(…)
			isFresh, isWhole, sawIN := false, true, false
			var recv ast.Expr = sel.X
			for {
				c, ok := recv.(*ast.CallExpr)
				if !ok {
					break
				}
				s, ok := c.Fun.(*ast.SelectorExpr)
				if !ok {
					break
				}
				if s.Sel.Name == "Session" {
					isFresh = true
				}
				for _, a := range c.Args {
					ast.Inspect(a, func(y ast.Node) bool {
						cl, ok := y.(*ast.CompositeLit)
						if !ok || src(cl.Type) != "clause.IN" {
							return true
						}
						sawIN = true
						for _, e := range cl.Elts {
							if kv, ok := e.(*ast.KeyValueExpr); ok && src(kv.Key) == "Values" {
								if _, ok := kv.Value.(*ast.Ident); !ok {
									isWhole = false
								}
							}
						}
						return true
					})
				}
				recv = s.X
			}
			fresh = append(fresh, lbool(isFresh))
			whole = append(whole, lbool(isWhole && sawIN))
			roots = append(roots, src(recv))
			return true
		})
	}
	var b strings.Builder
	b.WriteString("/-- callbacks/preload.go preload: one entry per `.Find(` call in source order (join-table query, related-table query):\n    number of for / range statements of preload that enclose the call -/\n")
	b.WriteString("def preloadFindLoopDepth : List Nat := [" + strings.Join(depth, ", ") + "]\n\n")
	b.WriteString("/-- … the call chain the Find hangs on passes through `.Session(` (a handle that clones its statement on the next chain call) -/\n")
	b.WriteString("def preloadFindFreshHandle : List Bool := [" + strings.Join(fresh, ", ") + "]\n\n")
	b.WriteString("/-- … the chain carries a `clause.IN{…, Values: v}` whose v is a plain identifier (the whole key list, not a slice of it) -/\n")
	b.WriteString("def preloadFindWholeValues : List Bool := [" + strings.Join(whole, ", ") + "]\n\n")
	var qroots []string
	for _, r := range roots {
		qroots = append(qroots, fmt.Sprintf("%q", r))
	}
	b.WriteString("/-- … the expression the chain starts from -/\n")
	b.WriteString("def preloadFindRoot : List String := [" + strings.Join(qroots, ", ") + "]\n\n")
	b.WriteString("/-- `tx = <call>` re-assignments in preload (tx.Where for polymorphic constants in both branches, tx.Preload for nested\n    paths, fc(tx) for function conditions): after any of them tx does not clone its statement on chain calls -/\n")
	b.WriteString(fmt.Sprintf("def preloadTxReassignments : Nat := %d\n", reassign))
	o.write("PreloadQuery", b.String())
	o.facts["preloadFindLoopDepth"] = depth
	o.facts["preloadFindFreshHandle"] = fresh
	o.facts["preloadFindWholeValues"] = whole
	o.facts["preloadTxReassignments"] = reassign
}

// ---- round 5: how a relation's key field is found among nested embedded structs -----------------------------------------------
//
// schema/schema.go LookUpFieldByBindName: the for statement (direction and bounds of the walk over the prefixes of the relation
// field's bind path, the key it builds) and schema/relationship.go guessRelation: the order of its two lookups per candidate list.

func init() {
	extraGens = append(extraGens, func(o *out, pkgs map[string]map[string]*ast.File, all []funcInfo, repo string) {
		genBindLookupFacts(o, pkgs["schema"])
	})
}

func genBindLookupFacts(o *out, sc map[string]*ast.File) {
	found, loops := false, 0
	initS, condS, postS, keyS, rangeS := "", "", "", "", ""
	guessFound := false
	var guessCalls []string // LookUpFieldByBindName / LookUpField calls on foreignSchema inside primaryFieldLoop, source order
	for _, f := range sc {
		for _, d := range f.Decls {
			fd, ok := d.(*ast.FuncDecl)
			if !ok || fd.Body == nil {
				continue
			}
			switch fd.Name.Name {
			case "LookUpFieldByBindName":
				found = true
				ast.Inspect(fd.Body, func(n ast.Node) bool {
					switch st := n.(type) {
					case *ast.ForStmt:
						loops++
						if st.Init != nil {
							initS = src(st.Init)
						}
						if st.Cond != nil {
							condS = src(st.Cond)
						}
						if st.Post != nil {
							postS = src(st.Post)
						}
					case *ast.RangeStmt:
						loops++
						rangeS = src(st.Key) + " := range " + src(st.X)
					case *ast.AssignStmt:
						if len(st.Lhs) == 1 && src(st.Lhs[0]) == "find" && len(st.Rhs) == 1 {
							keyS = src(st.Rhs[0])
						}
					}
					return true
				})
			case "guessRelation":
				ast.Inspect(fd.Body, func(n ast.Node) bool {
					ls, ok := n.(*ast.LabeledStmt)
					if !ok || ls.Label.Name != "primaryFieldLoop" {
						return true
					}
					guessFound = true
					ast.Inspect(ls.Stmt, func(m ast.Node) bool {
						if call, ok := m.(*ast.CallExpr); ok {
							if sel, ok := call.Fun.(*ast.SelectorExpr); ok && src(sel.X) == "foreignSchema" &&
								(sel.Sel.Name == "LookUpFieldByBindName" || sel.Sel.Name == "LookUpField") {
								guessCalls = append(guessCalls, sel.Sel.Name)
							}
						}
						return true
					})
					return false
				})
			}
		}
	}
	norm := func(s string) string { return strings.Join(strings.Fields(s), " ") }
	desc := loops == 1 && norm(initS) == "i := len(bindNames) - 1" && norm(condS) == "i >= 0" && norm(postS) == "i--"
	prefixKey := norm(keyS) == `strings.Join(bindNames[:i], ".") + "." + name`
	bindFirst := len(guessCalls) == 2 && guessCalls[0] == "LookUpFieldByBindName" && guessCalls[1] == "LookUpField"
	var b strings.Builder
	b.WriteString("/-- schema/schema.go LookUpFieldByBindName exists and has exactly one loop -/\n")
	b.WriteString("def bindLookupFound : Bool := " + lbool(found && loops == 1) + "\n\n")
	b.WriteString("/-- the loop header as written (init; cond; post) or the range clause -/\n")
	b.WriteString("def bindLookupLoopHeader : String := " + lstr(norm(initS+"; "+condS+"; "+postS+" "+rangeS)) + "\n\n")
	b.WriteString("/-- the loop runs `i := len(bindNames) - 1; i >= 0; i--`: from the struct that declares the relation OUTWARD -/\n")
	b.WriteString("def bindLookupDescending : Bool := " + lbool(desc) + "\n\n")
	b.WriteString("/-- the key tried at step i is `strings.Join(bindNames[:i], \".\") + \".\" + name` -/\n")
	b.WriteString("def bindLookupPrefixKey : Bool := " + lbool(prefixKey) + "\n\n")
	b.WriteString("/-- schema/relationship.go guessRelation, primaryFieldLoop: lookups on foreignSchema in source order -/\n")
	b.WriteString("def guessLookupCalls : List String := " + lstrs(guessCalls) + "\n\n")
	b.WriteString("/-- … first LookUpFieldByBindName over all candidate names, then LookUpField over all candidate names -/\n")
	b.WriteString("def guessBindFirst : Bool := " + lbool(guessFound && bindFirst) + "\n")
	o.write("BindLookupFacts", b.String())
	o.facts["bindLookupDescending"] = desc
	o.facts["guessBindFirst"] = guessFound && bindFirst
}
