package main

// C16 (round 4) fact generator → Gen/UpsertScanFacts.lean
//
//   finisher_api.go      FirstOrInit / FirstOrCreate: how the lookup handle `queryTx` is derived — every selector call on the
//                        way WITH its argument text (so that `Limit(1)` and `Order(<primary key, ascending>)` are facts)
//   callbacks/create.go  Create: every statement that turns `gorm.ScanOnConflictDoNothing` on, the condition of the `if`
//                        around it and the fields of the clause.OnConflict value that condition reads
//   scan.go              Scan: the definition of `onConflictDonothing`, the conditions enclosing `goto BEGIN` (the skip
//                        rule), and what is done right before the jump

import (
	"go/ast"
	"go/token"
	"strings"
)

func init() {
	extraGens = append(extraGens, func(o *out, pkgs map[string]map[string]*ast.File, all []funcInfo, repo string) {
		genUpsertScanFacts(o, pkgs)
	})
}

// c16sChain: the selector calls applied to the root identifier of a handle expression, outermost last, with arguments
func c16sChain(e ast.Expr) (root string, steps [][2]string) {
	switch x := e.(type) {
	case *ast.CallExpr:
		if se, ok := x.Fun.(*ast.SelectorExpr); ok {
			r, st := c16sChain(se.X)
			args := make([]string, len(x.Args))
			for i, a := range x.Args {
				args[i] = strings.ReplaceAll(strings.ReplaceAll(src(a), ", }", "}"), "{ ", "{")
			}
			return r, append(st, [2]string{se.Sel.Name, strings.Join(args, ", ")})
		}
	case *ast.Ident:
		return x.Name, nil
	case *ast.ParenExpr:
		return c16sChain(x.X)
	}
	return src(e), nil
}

func genUpsertScanFacts(o *out, pkgs map[string]map[string]*ast.File) {
	// ---- lookup handles
	type deriv struct {
		fn    string
		root  string
		steps [][2]string
	}
	var derivs []deriv
	for _, fn := range []string{"FirstOrInit", "FirstOrCreate"} {
		fd := c16FindFunc(pkgs["."], "DB", fn)
		if fd == nil {
			continue
		}
		done := false
		ast.Inspect(fd.Body, func(n ast.Node) bool {
			as, ok := n.(*ast.AssignStmt)
			if !ok || done || len(as.Lhs) < 1 || len(as.Rhs) != 1 {
				return true
			}
			if id, ok := as.Lhs[0].(*ast.Ident); ok && id.Name == "queryTx" {
				r, st := c16sChain(as.Rhs[0])
				derivs = append(derivs, deriv{"DB." + fn, r, st})
				done = true
			}
			return true
		})
	}

	// ---- callbacks/create.go Create: where the skip mode is switched on
	sites := 0
	var conds, reads []string
	if fd := c16FindFunc(pkgs["callbacks"], "", "Create"); fd != nil {
		var stack []ast.Node
		ast.Inspect(fd.Body, func(n ast.Node) bool {
			if n == nil {
				stack = stack[:len(stack)-1]
				return true
			}
			stack = append(stack, n)
			as, ok := n.(*ast.AssignStmt)
			if !ok || !strings.Contains(src(as), "ScanOnConflictDoNothing") {
				return true
			}
			sites++
			// the innermost enclosing `if`
			for i := len(stack) - 2; i >= 0; i-- {
				is, ok := stack[i].(*ast.IfStmt)
				if !ok {
					continue
				}
				conds = append(conds, src(is.Cond))
				v := ""
				if ini, ok := is.Init.(*ast.AssignStmt); ok && len(ini.Lhs) >= 1 && strings.Contains(src(ini.Rhs[0]), "clause.OnConflict") {
					if id, ok := ini.Lhs[0].(*ast.Ident); ok {
						v = id.Name
					}
				}
				ast.Inspect(is.Cond, func(m ast.Node) bool {
					if se, ok := m.(*ast.SelectorExpr); ok {
						if id, ok := se.X.(*ast.Ident); ok && id.Name == v {
							reads = append(reads, se.Sel.Name)
						}
					}
					return true
				})
				break
			}
			return true
		})
	}
	reads = c16uniq(reads)

	// ---- scan.go Scan: the skip rule
	skipDef := "unknown"
	var guards []string
	before := "unknown"
	gotos := 0
	if fd := c16FindFunc(pkgs["."], "", "Scan"); fd != nil {
		var stack []ast.Node
		ast.Inspect(fd.Body, func(n ast.Node) bool {
			if n == nil {
				stack = stack[:len(stack)-1]
				return true
			}
			stack = append(stack, n)
			switch x := n.(type) {
			case *ast.ValueSpec:
				for i, nm := range x.Names {
					if nm.Name == "onConflictDonothing" && i < len(x.Values) {
						skipDef = src(x.Values[i])
					}
				}
			case *ast.BranchStmt:
				if x.Tok != token.GOTO {
					return true
				}
				gotos++
				guards = nil
				for _, s := range stack[:len(stack)-1] {
					switch y := s.(type) {
					case *ast.IfStmt:
						c := src(y.Cond)
						if y.Init != nil {
							c = src(y.Init) + "; " + c
						}
						guards = append(guards, "if "+c)
					case *ast.RangeStmt:
						guards = append(guards, "range "+src(y.X))
					case *ast.ForStmt:
						guards = append(guards, "for "+src(y.Cond))
					case *ast.BlockStmt:
						for j, st := range y.List {
							if st == ast.Stmt(x) && j > 0 {
								before = src(y.List[j-1])
							}
						}
					}
				}
			}
			return true
		})
	}

	var b strings.Builder
	b.WriteString("/-- finisher_api.go FirstOrInit / FirstOrCreate: the lookup handle `queryTx`: (method, root variable, selector calls applied with their argument text) -/\n")
	b.WriteString("def lookupDerivs : List (String × String × List (String × String)) := [\n")
	for i, d := range derivs {
		sep := ","
		if i == len(derivs)-1 {
			sep = ""
		}
		st := make([]string, len(d.steps))
		for j, s := range d.steps {
			st[j] = "(" + lstr(s[0]) + ", " + lstr(s[1]) + ")"
		}
		b.WriteString("  (" + lstr(d.fn) + ", " + lstr(d.root) + ", [" + strings.Join(st, ", ") + "])" + sep + "\n")
	}
	b.WriteString("]\n\n")
	b.WriteString("/-- callbacks/create.go Create: number of statements that switch `gorm.ScanOnConflictDoNothing` on -/\n")
	b.WriteString("def createSkipModeSites : Nat := " + c16kItoa(sites) + "\n\n")
	b.WriteString("/-- … the condition of the innermost `if` around each of them -/\n")
	b.WriteString("def createSkipModeConds : List String := " + lstrs(conds) + "\n\n")
	b.WriteString("/-- … the fields of the `clause.OnConflict` value those conditions read -/\n")
	b.WriteString("def createSkipModeReads : List String := " + lstrs(reads) + "\n\n")
	b.WriteString("/-- scan.go Scan: the definition of `onConflictDonothing` -/\n")
	b.WriteString("def scanSkipDef : String := " + lstr(skipDef) + "\n\n")
	b.WriteString("/-- … number of `goto` statements in Scan -/\n")
	b.WriteString("def scanGotos : Nat := " + c16kItoa(gotos) + "\n\n")
	b.WriteString("/-- … the if / for / range statements enclosing `goto BEGIN`, outermost first -/\n")
	b.WriteString("def scanSkipGuards : List String := " + lstrs(guards) + "\n\n")
	b.WriteString("/-- … the statement right before the jump -/\n")
	b.WriteString("def scanSkipBefore : String := " + lstr(before) + "\n")
	o.write("UpsertScanFacts", b.String())
	o.facts["createSkipModeReads"] = reads
	o.facts["createSkipModeSites"] = sites
}
