package main

// C14 (round 2) fact generator: where prepared-statement caches are CREATED and how they are registered.
//
// Output Gen/StmtCacheStoreFacts.lean:
//   cacheSites : every call of NewPreparedStmtDB( in non-test code of package gorm (the constructor's own declaration
//                is not a call) with: enclosing function, the variable the result is bound to, whether a later statement
//                of the same block stores THAT variable in `….cacheStore.Store(K, var)`, the key K, whether the call is
//                reached only after a failed `….cacheStore.Load(K)` (else branch of `if v, ok := ….Load(K); ok`), what
//                the then-branch assigns to the variable (the reuse of the stored cache), and whether a later statement
//                of the block assigns the variable to `….ConnPool`.
//   cacheLits  : every composite literal PreparedStmtDB{…} / PreparedStmtTX{…} in non-test code with its key: value
//                pairs (source text) — which Mux / Stmts / PreparedStmtDB a derived struct is built from.

import (
	"fmt"
	"go/ast"
	"go/parser"
	"go/token"
	"os"
	"path/filepath"
	"sort"
	"strings"
)

func init() {
	extraGens = append(extraGens, func(o *out, pkgs map[string]map[string]*ast.File, all []funcInfo, repo string) {
		genStmtCacheStoreFacts(o, repo)
	})
}

type c14bSite struct {
	file, fn                              string
	line                                  int
	bound                                 string
	stored                                bool
	storeKey                              string
	afterFailedLoad                       bool
	loadKey, loadVar, reuse, poolAssigned string
}

type c14bLit struct {
	fn, typ, recv string
	line    int
	fields  [][2]string
}

func c14bFuncName(fd *ast.FuncDecl) string {
	name := fd.Name.Name
	if fd.Recv != nil && len(fd.Recv.List) > 0 {
		name = strings.TrimPrefix(src(fd.Recv.List[0].Type), "*") + "." + name
	}
	return name
}

// c14bIsNew: is e a call `NewPreparedStmtDB(…)` (possibly parenthesised)
func c14bIsNew(e ast.Expr) bool {
	if p, ok := e.(*ast.ParenExpr); ok {
		return c14bIsNew(p.X)
	}
	c, ok := e.(*ast.CallExpr)
	if !ok {
		return false
	}
	id, ok := c.Fun.(*ast.Ident)
	return ok && id.Name == "NewPreparedStmtDB"
}

// c14bStoreCall: `X.cacheStore.Store(K, V)` → (K, V, true)
func c14bStoreCall(st ast.Stmt, method string) (k, v string, ok bool) {
	es, isE := st.(*ast.ExprStmt)
	if !isE {
		return
	}
	c, isC := es.X.(*ast.CallExpr)
	if !isC {
		return
	}
	sel, isS := c.Fun.(*ast.SelectorExpr)
	if !isS || sel.Sel.Name != method || !strings.HasSuffix(src(sel.X), "cacheStore") || len(c.Args) != 2 {
		return
	}
	return src(c.Args[0]), src(c.Args[1]), true
}

func genStmtCacheStoreFacts(o *out, repo string) {
	files, _ := filepath.Glob(filepath.Join(repo, "*.go"))
	sort.Strings(files)
	var sites []c14bSite
	var lits []c14bLit
	for _, path := range files {
		if strings.HasSuffix(path, "_test.go") {
			continue
		}
		if _, err := os.Stat(path); err != nil {
			continue
		}
		f, err := parser.ParseFile(fset, path, nil, 0)
		if err != nil || f.Name.Name != "gorm" {
			continue
		}
		base := filepath.Base(path)
		for _, d := range f.Decls {
			fd, ok := d.(*ast.FuncDecl)
			if !ok || fd.Body == nil {
				continue
			}
			fn := c14bFuncName(fd)
			// composite literals
			ast.Inspect(fd.Body, func(n ast.Node) bool {
				cl, ok := n.(*ast.CompositeLit)
				if !ok || cl.Type == nil {
					return true
				}
				t := src(cl.Type)
				if t != "PreparedStmtDB" && t != "PreparedStmtTX" {
					return true
				}
				l := c14bLit{fn: fn, typ: t, line: fset.Position(cl.Pos()).Line}
				if fd.Recv != nil && len(fd.Recv.List) > 0 && len(fd.Recv.List[0].Names) > 0 {
					l.recv = fd.Recv.List[0].Names[0].Name
				}
				for _, el := range cl.Elts {
					if kv, ok := el.(*ast.KeyValueExpr); ok {
						l.fields = append(l.fields, [2]string{src(kv.Key), src(kv.Value)})
					} else {
						l.fields = append(l.fields, [2]string{"", src(el)})
					}
				}
				lits = append(lits, l)
				return true
			})
			// creation sites: walk blocks, remembering the enclosing `if v, ok := ….cacheStore.Load(K); ok {} else {HERE}`
			type loadCtx struct {
				key, v, reuseOf string
				then            *ast.BlockStmt
			}
			var walkBlock func(list []ast.Stmt, lc *loadCtx)
			var walkStmt func(st ast.Stmt, lc *loadCtx)
			record := func(list []ast.Stmt, i int, call ast.Expr, bound string, lc *loadCtx) {
				s := c14bSite{file: base, fn: fn, line: fset.Position(call.Pos()).Line, bound: bound}
				for _, later := range list[i+1:] {
					if k, v, ok := c14bStoreCall(later, "Store"); ok && bound != "" && v == bound && !s.stored {
						s.stored, s.storeKey = true, k
					}
					if as, ok := later.(*ast.AssignStmt); ok && len(as.Lhs) == 1 && len(as.Rhs) == 1 && bound != "" &&
						src(as.Rhs[0]) == bound && strings.HasSuffix(src(as.Lhs[0]), ".ConnPool") && s.poolAssigned == "" {
						s.poolAssigned = src(as.Lhs[0])
					}
				}
				if lc != nil {
					s.afterFailedLoad, s.loadKey, s.loadVar = true, lc.key, lc.v
					// what the then-branch (cache found) assigns to the same variable
					if lc.then != nil {
						for _, ts := range lc.then.List {
							if as, ok := ts.(*ast.AssignStmt); ok && len(as.Lhs) == 1 && len(as.Rhs) == 1 && src(as.Lhs[0]) == bound {
								s.reuse = src(as.Rhs[0])
							}
						}
					}
				}
				sites = append(sites, s)
			}
			walkStmt = func(st ast.Stmt, lc *loadCtx) {
				switch x := st.(type) {
				case *ast.BlockStmt:
					walkBlock(x.List, lc)
				case *ast.IfStmt:
					// is this `if v, ok := X.cacheStore.Load(K); ok`
					var here *loadCtx
					if as, ok := x.Init.(*ast.AssignStmt); ok && len(as.Lhs) == 2 && len(as.Rhs) == 1 {
						if c, ok := as.Rhs[0].(*ast.CallExpr); ok {
							if sel, ok := c.Fun.(*ast.SelectorExpr); ok && sel.Sel.Name == "Load" && strings.HasSuffix(src(sel.X), "cacheStore") &&
								len(c.Args) == 1 && src(x.Cond) == src(as.Lhs[1]) {
								here = &loadCtx{key: src(c.Args[0]), v: src(as.Lhs[0]), then: x.Body}
							}
						}
					}
					walkBlock(x.Body.List, lc) // then-branch: not "after a failed load"
					if x.Else != nil {
						if here != nil {
							walkStmt(x.Else, here)
						} else {
							walkStmt(x.Else, lc)
						}
					}
				case *ast.ForStmt:
					walkBlock(x.Body.List, lc)
				case *ast.RangeStmt:
					walkBlock(x.Body.List, lc)
				case *ast.SwitchStmt:
					walkBlock(x.Body.List, lc)
				case *ast.TypeSwitchStmt:
					walkBlock(x.Body.List, lc)
				case *ast.CaseClause:
					walkBlock(x.Body, lc)
				case *ast.LabeledStmt:
					walkStmt(x.Stmt, lc)
				}
			}
			walkBlock = func(list []ast.Stmt, lc *loadCtx) {
				for i, st := range list {
					found := false
					if as, ok := st.(*ast.AssignStmt); ok && len(as.Rhs) == 1 && len(as.Lhs) == 1 && c14bIsNew(as.Rhs[0]) {
						bound := ""
						if id, ok := as.Lhs[0].(*ast.Ident); ok {
							bound = id.Name
						}
						record(list, i, as.Rhs[0], bound, lc)
						found = true
					}
					if ds, ok := st.(*ast.DeclStmt); ok && !found {
						if gd, ok := ds.Decl.(*ast.GenDecl); ok && gd.Tok == token.VAR {
							for _, sp := range gd.Specs {
								if vs, ok := sp.(*ast.ValueSpec); ok && len(vs.Names) == 1 && len(vs.Values) == 1 && c14bIsNew(vs.Values[0]) {
									record(list, i, vs.Values[0], vs.Names[0].Name, lc)
									found = true
								}
							}
						}
					}
					if !found {
						// any other occurrence inside this statement (argument, return value, field of a literal …): unbound
						switch st.(type) {
						case *ast.BlockStmt, *ast.IfStmt, *ast.ForStmt, *ast.RangeStmt, *ast.SwitchStmt, *ast.TypeSwitchStmt, *ast.CaseClause, *ast.LabeledStmt:
							walkStmt(st, lc)
						default:
							ast.Inspect(st, func(n ast.Node) bool {
								if _, ok := n.(*ast.FuncLit); ok {
									return true
								}
								if e, ok := n.(ast.Expr); ok && c14bIsNew(e) {
									if _, isParen := e.(*ast.ParenExpr); !isParen {
										record(list, i, e, "", lc)
									}
								}
								return true
							})
						}
					}
				}
			}
			walkBlock(fd.Body.List, nil)
		}
	}
	var b strings.Builder
	b.WriteString("structure CacheSite where\n  file : String\n  fn : String\n  line : Nat\n  bound : String\n  stored : Bool\n  storeKey : String\n  afterFailedLoad : Bool\n  loadKey : String\n  loadVar : String\n  reuse : String\n  poolAssigned : String\nderiving Repr, DecidableEq\n\n")
	b.WriteString("/-- every call of `NewPreparedStmtDB(` in non-test code of package gorm: the variable it is bound to, whether that\n    variable is then stored under `storeKey` in `cacheStore`, whether the call is reached only after a failed\n    `cacheStore.Load(loadKey)` (and what the found-branch assigns instead: `reuse`), and the `.ConnPool` it becomes -/\ndef cacheSites : List CacheSite := [\n")
	for i, s := range sites {
		if i > 0 {
			b.WriteString(",\n")
		}
		fmt.Fprintf(&b, "  { file := %s, fn := %s, line := %d, bound := %s, stored := %v, storeKey := %s, afterFailedLoad := %v, loadKey := %s, loadVar := %s, reuse := %s, poolAssigned := %s }",
			lstr(s.file), lstr(s.fn), s.line, lstr(s.bound), s.stored, lstr(s.storeKey), s.afterFailedLoad, lstr(s.loadKey), lstr(s.loadVar), lstr(s.reuse), lstr(s.poolAssigned))
	}
	b.WriteString("\n]\n\n")
	b.WriteString("structure CacheLit where\n  fn : String\n  recv : String\n  typ : String\n  line : Nat\n  fields : List (String × String)\nderiving Repr, DecidableEq\n\n")
	b.WriteString("/-- every composite literal `PreparedStmtDB{…}` / `PreparedStmtTX{…}` in non-test code of package gorm (`recv` = name of the\n    enclosing method's receiver) -/\ndef cacheLits : List CacheLit := [\n")
	for i, l := range lits {
		if i > 0 {
			b.WriteString(",\n")
		}
		var fs []string
		for _, kv := range l.fields {
			fs = append(fs, "("+lstr(kv[0])+", "+lstr(kv[1])+")")
		}
		fmt.Fprintf(&b, "  { fn := %s, recv := %s, typ := %s, line := %d, fields := [%s] }", lstr(l.fn), lstr(l.recv), lstr(l.typ), l.line, strings.Join(fs, ", "))
	}
	b.WriteString("\n]\n")
	o.write("StmtCacheStoreFacts", b.String())
	o.facts["stmtCacheCreationSites"] = len(sites)
	o.facts["stmtCacheLiterals"] = len(lits)
}
