package main

// C04 (round 5) fact generator: WHICH POOL every statement-sending call site of gorm's pipelines names.
//
//	c04bCallSites       : one entry per call `<recv>.ExecContext(` / `<recv>.QueryContext(` / `<recv>.QueryRowContext(` in
//	                      callbacks/*.go and in the root-package files that implement finishers / associations / scanning
//	                      (everything except prepare_stmt.go, whose receivers are the wrappers' own fields, and tests):
//	                      (file, enclosing function, method, class) with class
//	                        0 = the receiver is `<x>.Statement.ConnPool` (or a local variable / type-switch binding whose
//	                            initialiser is such an expression): the pool of the statement instance — inside a transaction
//	                            the *sql.Tx the handle is bound to;
//	                        1 = the receiver is `<x>.ConnPool` or `<x>.Config.ConnPool`: the pool configured at Open — a
//	                            statement sent there leaves the transaction;
//	                        2 = anything else (unknown expression).
//	c04bCfgPoolMentions : every OTHER place in those files where the configured pool (`<x>.ConnPool` with <x> not ending in
//	                      `.Statement`, `<x>.Config.ConnPool`) is mentioned: (file, function, role) with role
//	                      "assign-to-stmt-pool" (right-hand side of `<y>.Statement.ConnPool = …`), "recv" (receiver of any
//	                      other method call), "other".
//
// Props/C04.lean proves by `decide` over the table that every site has class 0, that every pipeline that sends statements
// (create / update / delete / query / raw / row) has its sites in the table, and that the configured pool is mentioned
// only where the implicit per-statement transaction puts the statement back on it (callbacks/transaction.go
// CommitOrRollbackTransaction); Model/TxForms.lean `siteSel` feeds the table into the write-form model.

import (
	"fmt"
	"go/ast"
	"sort"
	"strings"
)

func init() {
	extraGens = append(extraGens, func(o *out, pkgs map[string]map[string]*ast.File, all []funcInfo, repo string) {
		genC04bSites(o, pkgs)
	})
}

var c04bMethods = map[string]bool{"ExecContext": true, "QueryContext": true, "QueryRowContext": true}

// files of the root package that are in scope (finishers, chain API, associations, scanning, statement building, callbacks
// processor); gorm.go is out of scope: Open / Session / getInstance legitimately copy Config.ConnPool around (modelled by
// Model.Tx `derive`, tied by the derive family)
var c04bRootFiles = map[string]bool{"finisher_api.go": true, "chainable_api.go": true, "association.go": true, "scan.go": true,
	"statement.go": true, "callbacks.go": true, "migrator.go": true, "soft_delete.go": true}

func c04bClassOf(text string) int {
	switch {
	case strings.HasSuffix(text, ".Statement.ConnPool"), strings.HasSuffix(text, "Statement.ConnPool") && !strings.Contains(text, "("):
		return 0
	case text == "stmt.ConnPool" || text == "statement.ConnPool":
		return 0
	case strings.HasSuffix(text, ".Config.ConnPool"), strings.HasSuffix(text, ".ConnPool"):
		return 1
	}
	return 2
}

func c04bIsCfgPool(e ast.Expr) bool {
	sel, ok := e.(*ast.SelectorExpr)
	if !ok || sel.Sel.Name != "ConnPool" {
		return false
	}
	return c04bClassOf(src(e)) == 1
}

type c04bSite struct {
	file, fn, method string
	class            int
	pos              int
}

type c04bMention struct{ file, fn, role string }

func genC04bSites(o *out, pkgs map[string]map[string]*ast.File) {
	var sites []c04bSite
	var mentions []c04bMention
	scan := func(rel string, files map[string]*ast.File, only map[string]bool) {
		var names []string
		for n := range files {
			names = append(names, n)
		}
		sort.Strings(names)
		for _, fname := range names {
			base := fname
			if i := strings.LastIndex(base, "/"); i >= 0 {
				base = base[i+1:]
			}
			if strings.HasSuffix(base, "_test.go") || (only != nil && !only[base]) {
				continue
			}
			label := base
			if rel != "." {
				label = rel + "/" + base
			}
			for _, d := range files[fname].Decls {
				fd, ok := d.(*ast.FuncDecl)
				if !ok || fd.Body == nil {
					continue
				}
				fn := fd.Name.Name
				if fd.Recv != nil && len(fd.Recv.List) == 1 {
					fn = strings.TrimPrefix(src(fd.Recv.List[0].Type), "*") + "." + fn
				}
				// local aliases: `p := db.Statement.ConnPool`, `switch p := db.Statement.ConnPool.(type)`, `p, ok := ….(T)`
				alias := map[string]string{}
				ast.Inspect(fd.Body, func(n ast.Node) bool {
					as, ok := n.(*ast.AssignStmt)
					if !ok {
						return true
					}
					for i, rhs := range as.Rhs {
						if i >= len(as.Lhs) {
							break
						}
						id, ok := as.Lhs[i].(*ast.Ident)
						if !ok {
							continue
						}
						e := rhs
						if ta, ok := e.(*ast.TypeAssertExpr); ok {
							e = ta.X
						}
						if sel, ok := e.(*ast.SelectorExpr); ok && sel.Sel.Name == "ConnPool" {
							alias[id.Name] = src(e)
						}
					}
					return true
				})
				handled := map[ast.Expr]bool{}
				ast.Inspect(fd.Body, func(n ast.Node) bool {
					switch v := n.(type) {
					case *ast.CallExpr:
						sel, ok := v.Fun.(*ast.SelectorExpr)
						if !ok {
							return true
						}
						if c04bMethods[sel.Sel.Name] {
							text := src(sel.X)
							if id, ok := sel.X.(*ast.Ident); ok {
								if a, ok := alias[id.Name]; ok {
									text = a
								}
							}
							sites = append(sites, c04bSite{file: label, fn: fn, method: sel.Sel.Name, class: c04bClassOf(text), pos: int(v.Pos())})
							handled[sel.X] = true
						} else if c04bIsCfgPool(sel.X) {
							mentions = append(mentions, c04bMention{label, fn, "recv"})
							handled[sel.X] = true
						}
					case *ast.AssignStmt:
						for i, rhs := range v.Rhs {
							if i < len(v.Lhs) && c04bIsCfgPool(rhs) && strings.HasSuffix(src(v.Lhs[i]), ".Statement.ConnPool") {
								mentions = append(mentions, c04bMention{label, fn, "assign-to-stmt-pool"})
								handled[rhs] = true
							}
						}
					}
					return true
				})
				ast.Inspect(fd.Body, func(n ast.Node) bool {
					e, ok := n.(ast.Expr)
					if !ok || handled[e] {
						return true
					}
					if c04bIsCfgPool(e) {
						mentions = append(mentions, c04bMention{label, fn, "other"})
						return false
					}
					return true
				})
			}
		}
	}
	scan("callbacks", pkgs["callbacks"], nil)
	scan(".", pkgs["."], c04bRootFiles)
	sort.SliceStable(sites, func(i, j int) bool {
		if sites[i].file != sites[j].file {
			return sites[i].file < sites[j].file
		}
		return sites[i].pos < sites[j].pos
	})
	sort.SliceStable(mentions, func(i, j int) bool {
		a, b := mentions[i], mentions[j]
		return a.file+"\x00"+a.fn+"\x00"+a.role < b.file+"\x00"+b.fn+"\x00"+b.role
	})
	var b strings.Builder
	b.WriteString("/-- every `<recv>.ExecContext(` / `QueryContext(` / `QueryRowContext(` call of callbacks/*.go and of the finisher / association /\n    scan files of package gorm, in source order: (file, function, method, class); class 0 = receiver `<x>.Statement.ConnPool`\n    (the statement instance's pool), 1 = `<x>.ConnPool` / `<x>.Config.ConnPool` (the configured pool), 2 = other -/\n")
	b.WriteString("def c04bCallSites : List (String × String × String × Nat) :=\n  [")
	for i, s := range sites {
		if i > 0 {
			b.WriteString(",\n   ")
		}
		fmt.Fprintf(&b, "(%s, %s, %s, %d)", lstr(s.file), lstr(s.fn), lstr(s.method), s.class)
	}
	b.WriteString("]\n\n")
	b.WriteString("/-- every other mention of the configured pool in those files: (file, function, role) -/\n")
	b.WriteString("def c04bCfgPoolMentions : List (String × String × String) :=\n  [")
	for i, m := range mentions {
		if i > 0 {
			b.WriteString(",\n   ")
		}
		fmt.Fprintf(&b, "(%s, %s, %s)", lstr(m.file), lstr(m.fn), lstr(m.role))
	}
	b.WriteString("]\n")
	o.write("C04bSites", b.String())
	o.facts["c04bCallSites"] = len(sites)
}
