package main

// C05 (round 2) fact generator: the error of every STAGE of a statement after the call itself returned.
//
// Gen/StageSinks.lean
//
//	stageSinks   every call `x.Err()`, `x.Close()`, `x.RowsAffected()`, `x.LastInsertId()` (no arguments) in scan.go,
//	             finisher_api.go and callbacks/*.go:
//	               (file, func, call, guardsAtCall, sink, guardsBetween)
//	             guardsAtCall   conditions dominating the call inside its function (extractor dominance rule: enclosing
//	                            if-conditions, negated conditions of preceding `if … { return }`)
//	             sink           "adderror"           the error value is handed to AddError
//	                            "discarded"          assigned to `_` / evaluated as a statement / deferred bare
//	                            "returned"           returned to the caller
//	                            "dropped:<var>"      bound to a variable that never reaches AddError
//	                            "other:<context>"    anything else
//	             guardsBetween  conditions dominating the AddError call that do NOT already dominate the stage call:
//	                            what decides, after the stage was evaluated, whether its error is reported
//	scanSrcTail  the statements of gorm.Scan that follow the row loop (text), for the transcription in Model/Stages.lean

import (
	"fmt"
	"go/ast"
	"go/token"
	"sort"
	"strings"
)

func init() {
	extraGens = append(extraGens, func(o *out, pkgs map[string]map[string]*ast.File, all []funcInfo, repo string) {
		genStageSinks(o, all)
	})
}

var stageMethods = map[string]bool{"Err": true, "Close": true, "RowsAffected": true, "LastInsertId": true}

type stageCall struct {
	call   *ast.CallExpr
	guards []string
}

type addErrCall struct {
	call   *ast.CallExpr
	arg    string
	guards []string
}

// minus: the elements of a that are not matched by an element of b (multiset difference, order of a kept)
func minusGuards(a, b []string) []string {
	used := make([]bool, len(b))
	out := []string{}
	for _, x := range a {
		found := false
		for j, y := range b {
			if !used[j] && x == y {
				used[j] = true
				found = true
				break
			}
		}
		if !found {
			out = append(out, x)
		}
	}
	return out
}

func genStageSinks(o *out, all []funcInfo) {
	inScope := func(fi funcInfo) bool {
		return fi.file == "scan.go" || fi.file == "finisher_api.go" || strings.HasPrefix(fi.file, "callbacks/")
	}
	var rows []string
	tail := ""
	for _, fi := range all {
		if !inScope(fi) {
			continue
		}
		var stages []stageCall
		var adds []addErrCall
		walkFunc(fi, func(c *ast.CallExpr, known []string, inLit int) {
			sel, ok := c.Fun.(*ast.SelectorExpr)
			if !ok {
				return
			}
			if stageMethods[sel.Sel.Name] && len(c.Args) == 0 {
				stages = append(stages, stageCall{c, append([]string(nil), known...)})
			}
			if sel.Sel.Name == "AddError" && len(c.Args) == 1 {
				adds = append(adds, addErrCall{c, src(c.Args[0]), append([]string(nil), known...)})
			}
		})
		if len(stages) == 0 {
			continue
		}
		// parents
		parent := map[ast.Node]ast.Node{}
		var stack []ast.Node
		ast.Inspect(fi.decl.Body, func(n ast.Node) bool {
			if n == nil {
				stack = stack[:len(stack)-1]
				return true
			}
			if len(stack) > 0 {
				parent[n] = stack[len(stack)-1]
			}
			stack = append(stack, n)
			return true
		})
		sort.SliceStable(stages, func(i, j int) bool { return stages[i].call.Pos() < stages[j].call.Pos() })
		for _, st := range stages {
			sink, between := "other:"+src(parent[st.call]), []string{}
			method := st.call.Fun.(*ast.SelectorExpr).Sel.Name
			switch p := parent[st.call].(type) {
			case *ast.CallExpr:
				if ps, ok := p.Fun.(*ast.SelectorExpr); ok && ps.Sel.Name == "AddError" && len(p.Args) == 1 && p.Args[0] == ast.Expr(st.call) {
					sink = "adderror"
					for _, a := range adds {
						if a.call == p {
							between = minusGuards(a.guards, st.guards)
						}
					}
				}
			case *ast.ExprStmt, *ast.DeferStmt, *ast.GoStmt:
				sink = "discarded"
			case *ast.ReturnStmt:
				sink = "returned"
			case *ast.AssignStmt:
				if len(p.Rhs) == 1 && p.Rhs[0] == ast.Expr(st.call) {
					idx := 0
					if method == "RowsAffected" || method == "LastInsertId" {
						idx = 1
					}
					if idx < len(p.Lhs) {
						v := src(p.Lhs[idx])
						if v == "_" {
							sink = "discarded"
						} else {
							sink = "dropped:" + v
							for _, a := range adds {
								if a.arg == v && a.call.Pos() > st.call.Pos() {
									sink = "adderror"
									between = minusGuards(a.guards, st.guards)
									break
								}
							}
						}
					} else {
						sink = "discarded"
					}
				}
			}
			_ = token.NoPos
			rows = append(rows, fmt.Sprintf("(%s, %s, %s, %s, %s, %s)", lstr(fi.file), lstr(fi.name), lstr(src(st.call)),
				lstrs(st.guards), lstr(sink), lstrs(between)))
		}
		if fi.file == "scan.go" && fi.name == "Scan" {
			// the statements after the last top-level `switch` (the row loop lives inside it)
			list := fi.decl.Body.List
			last := -1
			for i, s := range list {
				switch s.(type) {
				case *ast.SwitchStmt, *ast.TypeSwitchStmt:
					last = i
				}
			}
			var parts []string
			for _, s := range list[last+1:] {
				parts = append(parts, src(s))
			}
			tail = strings.Join(parts, " ;; ")
		}
	}
	var b strings.Builder
	b.WriteString("/-- every `.Err()` / `.Close()` / `.RowsAffected()` / `.LastInsertId()` call in scan.go, finisher_api.go, callbacks/*.go:\n    file, func, call, guards at the call, sink of the error, guards between the call and AddError -/\n")
	b.WriteString("def stageSinks : List (String × String × String × List String × String × List String) := [\n  " + strings.Join(rows, ",\n  ") + "\n]\n\n")
	fmt.Fprintf(&b, "/-- scan.go `Scan`: the statements that follow the row loop -/\ndef scanSrcTail : String := %s\n", lstr(tail))
	o.write("StageSinks", b.String())
}
