package main

// C13 fact generator (repairs F27 / F28 / F29): Gen/VisitFix.lean -- does the association-save code carry the repairs?
// Purely syntactic, over callbacks/associations.go saveAssociations / checkAssociationsSaved:
//
//	visitGuardCalls  every call of checkAssociationsSaved inside saveAssociations: (text of the record argument,
//	                 is the call inside a `for` loop, is it the negated condition of an `if` whose body appends that very
//	                 argument to a slice)
//	visitFilter      F27: saveAssociations tests the records ONE BY ONE in a loop (`!checkAssociationsSaved(db,
//	                 <list>.Index(i))` keeps the element), assigns the kept elements back to <list> and returns when none
//	                 is left; the whole-list guard `checkAssociationsSaved(db, <list>)` survives only in the else branch
//	                 of `<list>.Kind() == reflect.Slice`
//	visitRoot        F28: on the path of checkAssociationsSaved that creates the visit map (the one that calls db.Set)
//	                 loadOrStoreVisitMap(<map>, db.Statement.ReflectValue) is called before the records are looked up
//	                 and the path returns loadOrStoreVisitMap(<map>, values) instead of the constant false
//	visitDistinct    F29: the value handed to the nested Create is `distinctPointers(<list>).Interface()` and
//	                 callbacks/helper.go distinctPointers keeps an element iff its Pointer() was not seen before
//	                 (`if p := values.Index(i).Pointer(); !seen[p] { seen[p] = true; … Append … }`)

import (
	"go/ast"
	"go/token"
	"strings"
)

func init() {
	extraGens = append(extraGens, func(o *out, pkgs map[string]map[string]*ast.File, all []funcInfo, repo string) {
		genVisitFix(o, all)
	})
}

func c13fIsCall(e ast.Expr, fn string) *ast.CallExpr {
	if c, ok := e.(*ast.CallExpr); ok && src(c.Fun) == fn {
		return c
	}
	return nil
}

func genVisitFix(o *out, all []funcInfo) {
	type gcall struct {
		arg            string
		inLoop, keepIf bool
	}
	var calls []gcall
	filter, root, distinct := false, false, false
	listName := ""

	if fi := c13Func(all, "callbacks/associations.go", "saveAssociations"); fi != nil && fi.decl.Body != nil {
		if ps := fi.decl.Type.Params.List; len(ps) >= 3 && len(ps[2].Names) == 1 {
			listName = ps[2].Names[0].Name
		}
		// every call of checkAssociationsSaved with its syntactic position
		var walk func(n ast.Node, inLoop bool)
		walk = func(n ast.Node, inLoop bool) {
			ast.Inspect(n, func(x ast.Node) bool {
				switch s := x.(type) {
				case *ast.FuncLit:
					return false
				case *ast.ForStmt:
					if x != n {
						walk(s.Body, true)
						return false
					}
				case *ast.RangeStmt:
					if x != n {
						walk(s.Body, true)
						return false
					}
				case *ast.IfStmt:
					// `if !checkAssociationsSaved(db, A) { S = reflect.Append(S, A) }`
					if u, ok := s.Cond.(*ast.UnaryExpr); ok && u.Op == token.NOT {
						if c := c13fIsCall(u.X, "checkAssociationsSaved"); c != nil && len(c.Args) == 2 && s.Init == nil && s.Else == nil && len(s.Body.List) == 1 {
							keep := false
							if as, ok := s.Body.List[0].(*ast.AssignStmt); ok && len(as.Lhs) == 1 && len(as.Rhs) == 1 {
								if ap := c13fIsCall(as.Rhs[0], "reflect.Append"); ap != nil && len(ap.Args) == 2 &&
									src(ap.Args[0]) == src(as.Lhs[0]) && src(ap.Args[1]) == src(c.Args[1]) {
									keep = true
								}
							}
							calls = append(calls, gcall{src(c.Args[1]), inLoop, keep})
							return false
						}
					}
				case *ast.CallExpr:
					if c := c13fIsCall(s, "checkAssociationsSaved"); c != nil && len(c.Args) == 2 {
						calls = append(calls, gcall{src(c.Args[1]), inLoop, false})
					}
				}
				return true
			})
		}
		walk(fi.decl.Body, false)

		// F27: the exact statement shape
		//   if L.Kind() == reflect.Slice {
		//       U := reflect.MakeSlice(L.Type(), 0, L.Len())
		//       for i := 0; i < L.Len(); i++ { if !checkAssociationsSaved(db, L.Index(i)) { U = reflect.Append(U, L.Index(i)) } }
		//       if L = U; L.Len() == 0 { return nil }
		//   } else if checkAssociationsSaved(db, L) { return nil }
		for _, s := range fi.decl.Body.List {
			is, ok := s.(*ast.IfStmt)
			if !ok || listName == "" || src(is.Cond) != listName+".Kind() == reflect.Slice" || len(is.Body.List) != 3 {
				continue
			}
			def, ok1 := is.Body.List[0].(*ast.AssignStmt)
			loop, ok2 := is.Body.List[1].(*ast.ForStmt)
			last, ok3 := is.Body.List[2].(*ast.IfStmt)
			els, ok4 := is.Else.(*ast.IfStmt)
			if !ok1 || !ok2 || !ok3 || !ok4 || len(def.Lhs) != 1 || len(def.Rhs) != 1 {
				continue
			}
			u := src(def.Lhs[0])
			okDef := def.Tok == token.DEFINE && src(def.Rhs[0]) == "reflect.MakeSlice("+listName+".Type(), 0, "+listName+".Len())"
			okLoop := src(loop.Init) == "i := 0" && src(loop.Cond) == "i < "+listName+".Len()" && src(loop.Post) == "i++" && len(loop.Body.List) == 1 &&
				src(loop.Body.List[0]) == "if !checkAssociationsSaved(db, "+listName+".Index(i)) { "+u+" = reflect.Append("+u+", "+listName+".Index(i)) }"
			okLast := src(last.Init) == listName+" = "+u && src(last.Cond) == listName+".Len() == 0" && last.Else == nil &&
				len(last.Body.List) == 1 && src(last.Body.List[0]) == "return nil"
			okElse := els.Init == nil && els.Else == nil && src(els.Cond) == "checkAssociationsSaved(db, "+listName+")" &&
				len(els.Body.List) == 1 && src(els.Body.List[0]) == "return nil"
			if okDef && okLoop && okLast && okElse {
				filter = true
			}
		}

		// F29: values = distinctPointers(L).Interface()
		ast.Inspect(fi.decl.Body, func(n ast.Node) bool {
			if vs, ok := n.(*ast.ValueSpec); ok {
				for i, nm := range vs.Names {
					if nm.Name == "values" && i < len(vs.Values) && src(vs.Values[i]) == "distinctPointers("+listName+").Interface()" {
						distinct = true
					}
				}
			}
			return true
		})
	}
	// F29, second half: the helper really filters by pointer identity
	helperOK := false
	if fi := c13Func(all, "callbacks/helper.go", "distinctPointers"); fi != nil && fi.decl.Body != nil {
		ast.Inspect(fi.decl.Body, func(n ast.Node) bool {
			if is, ok := n.(*ast.IfStmt); ok && is.Init != nil && is.Else == nil {
				if src(is.Init) == "p := values.Index(i).Pointer()" && src(is.Cond) == "!seen[p]" && len(is.Body.List) == 2 &&
					src(is.Body.List[0]) == "seen[p] = true" && src(is.Body.List[1]) == "distinct = reflect.Append(distinct, values.Index(i))" {
					helperOK = true
				}
			}
			return true
		})
	}
	distinct = distinct && helperOK

	// F28: the map-creating path of checkAssociationsSaved
	if fi := c13Func(all, "callbacks/associations.go", "checkAssociationsSaved"); fi != nil && fi.decl.Body != nil {
		var paths []c13vPath
		open := c13vEnum(fi.decl.Body.List, c13vPath{}, &paths)
		paths = append(paths, open...)
		for _, p := range paths {
			set, own, m := -1, -1, ""
			for i, e := range p.events {
				if e[0] == "db.Set" && len(e) == 3 {
					set, m = i, e[2]
				}
			}
			if set < 0 {
				continue
			}
			for i, e := range p.events {
				if e[0] == "loadOrStoreVisitMap" && len(e) == 3 && e[1] == m && e[2] == "db.Statement.ReflectValue" {
					own = i
				}
			}
			look := -1
			for i, e := range p.events {
				if e[0] == "loadOrStoreVisitMap" && len(e) == 3 && e[1] == m && e[2] == "values" {
					look = i
				}
			}
			if own >= 0 && look > own && p.ret == "loadOrStoreVisitMap("+m+", values)" {
				root = true
			}
		}
	}

	var b strings.Builder
	b.WriteString("/-- callbacks/associations.go saveAssociations: every call of checkAssociationsSaved: (record argument, inside a\n    `for` loop, negated condition of an `if` whose body appends that very argument to a slice) -/\n")
	b.WriteString("def visitGuardCalls : List (String × Bool × Bool) := [")
	for i, c := range calls {
		if i > 0 {
			b.WriteString(", ")
		}
		b.WriteString("(" + lstr(c.arg) + ", " + lbool(c.inLoop) + ", " + lbool(c.keepIf) + ")")
	}
	b.WriteString("]\n\n")
	b.WriteString("/-- F27 repaired: saveAssociations tests the records one by one, keeps the ones not saved yet, returns when none is\n    left (exact statement shape matched by the extractor, see extract/gen_c13_fix.go) -/\n")
	b.WriteString("def visitFilter : Bool := " + lbool(filter) + "\n\n")
	b.WriteString("/-- F28 repaired: the path of checkAssociationsSaved that creates the visit map registers db.Statement.ReflectValue\n    first and answers with loadOrStoreVisitMap(map, values) -/\n")
	b.WriteString("def visitRoot : Bool := " + lbool(root) + "\n\n")
	b.WriteString("/-- F29 repaired: the nested Create receives distinctPointers(records) and callbacks/helper.go distinctPointers keeps\n    an element iff its Pointer() was not seen before -/\n")
	b.WriteString("def visitDistinct : Bool := " + lbool(distinct) + "\n")
	o.write("VisitFix", b.String())
	o.facts["visitFilter"] = filter
	o.facts["visitRoot"] = root
	o.facts["visitDistinct"] = distinct
}
