package main

// C12 fact generator: the code sites of association mode whose *choice of key* / *guard* decides which links an
// Append / Replace / Delete touches.  Writes Gen/AssocSites.lean:
//
//	assocKeyReads       every call of schema.GetIdentityFieldValuesMap / GetIdentityFieldValuesMapFromValues /
//	                    schema.ToQueryValues in association.go: (function, enclosing case / if path, callee, arguments)
//	assocFieldLists     every `v = append(v, e)` in those functions: (function, path, v, e) - what the field-list and
//	                    column-list variables handed to the calls above hold (ref.PrimaryKey = the REFERENCED field,
//	                    which is the primary key only by default)
//	assocAppendReplace  the paths under which Association.Append delegates to Association.Replace
//	saveAssociationsTx  every `tx = …` assignment of callbacks.saveAssociations with its path (Select / Omit of the nested upsert)
//
// A path is the list of enclosing `case …` labels and `if c` / `else(c)` conditions, outermost first.

import (
	"fmt"
	"go/ast"
	"strings"
)

func init() {
	extraGens = append(extraGens, func(o *out, pkgs map[string]map[string]*ast.File, all []funcInfo, repo string) {
		genAssocSites(o, all)
	})
}

type c12Walker struct {
	onStmt func(s ast.Stmt, path []string)
	onCall func(c *ast.CallExpr, path []string)
}

func (w *c12Walker) exprs(n ast.Node, path []string) {
	if n == nil {
		return
	}
	ast.Inspect(n, func(x ast.Node) bool {
		switch c := x.(type) {
		case *ast.FuncLit:
			w.block(c.Body.List, append(append([]string(nil), path...), "closure"))
			return false
		case *ast.CallExpr:
			if w.onCall != nil {
				w.onCall(c, path)
			}
		}
		return true
	})
}

func (w *c12Walker) block(stmts []ast.Stmt, path []string) {
	for _, s := range stmts {
		w.stmt(s, path)
	}
}

func (w *c12Walker) stmt(s ast.Stmt, path []string) {
	if s == nil {
		return
	}
	if w.onStmt != nil {
		w.onStmt(s, path)
	}
	with := func(x string) []string { return append(append([]string(nil), path...), x) }
	switch x := s.(type) {
	case *ast.BlockStmt:
		w.block(x.List, path)
	case *ast.IfStmt:
		w.stmt(x.Init, path)
		w.exprs(x.Cond, path)
		cond := src(x.Cond)
		if x.Init != nil {
			cond = src(x.Init) + "; " + cond
		}
		w.block(x.Body.List, with("if "+cond))
		switch e := x.Else.(type) {
		case nil:
		case *ast.BlockStmt:
			w.block(e.List, with("else("+cond+")"))
		default:
			w.stmt(e, with("else("+cond+")"))
		}
	case *ast.SwitchStmt:
		w.stmt(x.Init, path)
		w.exprs(x.Tag, path)
		for _, c := range x.Body.List {
			cc := c.(*ast.CaseClause)
			var ls []string
			for _, e := range cc.List {
				ls = append(ls, src(e))
			}
			label := "default"
			if len(ls) > 0 {
				label = "case " + strings.Join(ls, ", ")
			}
			w.block(cc.Body, with(label))
		}
	case *ast.ForStmt:
		w.stmt(x.Init, path)
		w.exprs(x.Cond, path)
		w.stmt(x.Post, path)
		w.block(x.Body.List, path)
	case *ast.RangeStmt:
		w.exprs(x.X, path)
		w.block(x.Body.List, path)
	case *ast.AssignStmt:
		for _, e := range x.Rhs {
			w.exprs(e, path)
		}
	case *ast.ExprStmt:
		w.exprs(x.X, path)
	case *ast.ReturnStmt:
		for _, e := range x.Results {
			w.exprs(e, path)
		}
	case *ast.DeclStmt:
		w.exprs(x.Decl, path)
	case *ast.DeferStmt:
		w.exprs(x.Call, path)
	}
}

func genAssocSites(o *out, all []funcInfo) {
	var reads, lists, appends, txs []string
	keyFns := map[string]bool{"GetIdentityFieldValuesMap": true, "GetIdentityFieldValuesMapFromValues": true, "ToQueryValues": true}
	for _, fi := range all {
		fi := fi
		if fi.decl.Body == nil {
			continue
		}
		switch {
		case fi.file == "association.go":
			w := &c12Walker{}
			w.onCall = func(c *ast.CallExpr, path []string) {
				sel, ok := c.Fun.(*ast.SelectorExpr)
				if !ok {
					return
				}
				if keyFns[sel.Sel.Name] {
					var args []string
					for _, a := range c.Args {
						args = append(args, src(a))
					}
					reads = append(reads, fmt.Sprintf("(%s, %s, %s, %s)", lstr(fi.name), lstrs(path), lstr(sel.Sel.Name), lstrs(args)))
				}
				if fi.name == "Association.Append" && sel.Sel.Name == "Replace" {
					appends = append(appends, lstrs(path))
				}
			}
			w.onStmt = func(s ast.Stmt, path []string) {
				as, ok := s.(*ast.AssignStmt)
				if !ok || len(as.Lhs) != 1 || len(as.Rhs) != 1 {
					return
				}
				call, ok := as.Rhs[0].(*ast.CallExpr)
				if !ok {
					return
				}
				if id, ok := call.Fun.(*ast.Ident); ok && id.Name == "append" && len(call.Args) == 2 && src(call.Args[0]) == src(as.Lhs[0]) {
					lists = append(lists, fmt.Sprintf("(%s, %s, %s, %s)", lstr(fi.name), lstrs(path), lstr(src(as.Lhs[0])), lstr(src(call.Args[1]))))
				}
			}
			w.block(fi.decl.Body.List, nil)
		case fi.file == "callbacks/associations.go" && fi.name == "saveAssociations":
			w := &c12Walker{}
			w.onStmt = func(s ast.Stmt, path []string) {
				as, ok := s.(*ast.AssignStmt)
				if !ok || len(as.Lhs) != 1 || len(as.Rhs) != 1 || src(as.Lhs[0]) != "tx" {
					return
				}
				txs = append(txs, fmt.Sprintf("(%s, %s)", lstrs(path), lstr(src(as.Rhs[0]))))
			}
			w.block(fi.decl.Body.List, nil)
		}
	}
	var b strings.Builder
	list := func(doc, name, typ string, items []string) {
		fmt.Fprintf(&b, "/-- %s -/\ndef %s : List (%s) := [\n  %s\n]\n\n", doc, name, typ, strings.Join(items, ",\n  "))
	}
	list("association.go: every call that reads the keys of in-memory records / pairs them with columns: (function, path, callee, arguments)",
		"assocKeyReads", "String × List String × String × List String", reads)
	list("association.go: every `v = append(v, e)`: (function, path, v, e)", "assocFieldLists", "String × List String × String × String", lists)
	list("association.go Association.Append: the paths under which it calls Association.Replace", "assocAppendReplace", "List String", appends)
	list("callbacks/associations.go saveAssociations: every `tx = …` assignment: (path, right-hand side)", "saveAssociationsTx", "List String × String", txs)
	o.facts["assocKeyReads"] = len(reads)
	o.facts["assocFieldLists"] = len(lists)
	o.write("AssocSites", b.String())
}
