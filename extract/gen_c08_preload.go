package main

// C08 fact generator (round 5): callbacks/preload.go preload() — the "clean up old values before preloading" step and the
// assignment loop behind it.  A destination that is RE-loaded in place still carries the relation of the earlier load; whether
// a soft-deleted (now invisible) related row disappears from it depends on the field being reset BEFORE the loop that assigns
// the rows the child query returned.  Written to Gen/PreloadResetFacts.lean (structural, no line numbers):
//
//	preloadResetArms          per `case` of `switch reflectValue.Kind()` (destination kind) and per `case` of the inner
//	                          `switch rel.Type` (relation kinds or "default"): what rel.Field.Set is given —
//	                          "emptySlice" (reflect.MakeSlice(…, 0, …)), "zero" (reflect.New(rel.Field.FieldType)), "other", "none" —
//	                          and whether every record of the destination is reached (Struct: the value itself; Slice/Array:
//	                          inside `for i := 0; i < reflectValue.Len(); i++` on reflectValue.Index(i)); an arm that holds
//	                          anything but plain expression statements (a Set under an `if` …) is "other"
//	preloadResetAfterQuery    the reset switch comes after the statement that runs the child query (…Find(reflectResults…))
//	preloadResetBeforeAssign  … and before the `for … reflectResults.Len()` assignment loop, with no return in between
//	preloadAssignStruct/Slice what the assignment loop does per field kind: "overwrite" (rel.Field.Set(…, data, elem.Interface()))
//	                          / "append" (rel.Field.Set(…, data, reflect.Append(reflectFieldValue, …)))
//
// A shape that is not recognised yields `preloadResetFound := false`, which fails the theorems.

import (
	"fmt"
	"go/ast"
	"strings"
)

func init() {
	extraGens = append(extraGens, func(o *out, pkgs map[string]map[string]*ast.File, all []funcInfo, repo string) {
		genC08PreloadResetFacts(o, all)
	})
}

// strict: every statement of the arm must be a plain expression statement (a Set under an `if` is not an unconditional reset)
func c08FieldSetArgStrict(body []ast.Stmt, wantTarget string) string {
	for _, s := range body {
		if _, ok := s.(*ast.ExprStmt); !ok {
			return "other"
		}
	}
	return c08FieldSetArg(body, wantTarget)
}

func c08FieldSetArg(body []ast.Stmt, wantTarget string) string {
	kind := "none"
	for _, s := range body {
		ast.Inspect(s, func(m ast.Node) bool {
			call, ok := m.(*ast.CallExpr)
			if !ok || src(call.Fun) != "rel.Field.Set" || len(call.Args) != 3 {
				return true
			}
			if wantTarget != "" && src(call.Args[1]) != wantTarget {
				kind = "other"
				return true
			}
			v := strings.Join(strings.Fields(src(call.Args[2])), "")
			switch {
			case strings.HasPrefix(v, "reflect.MakeSlice(rel.Field.IndirectFieldType,0,") && strings.HasSuffix(v, ".Interface()"):
				kind = "emptySlice"
			case v == "reflect.New(rel.Field.FieldType).Interface()":
				kind = "zero"
			case v == "elem.Interface()":
				kind = "overwrite"
			case strings.HasPrefix(v, "reflect.Append(reflectFieldValue,"):
				if kind == "none" || kind == "append" {
					kind = "append"
				} else {
					kind = "other"
				}
			default:
				kind = "other"
			}
			return true
		})
	}
	return kind
}

func genC08PreloadResetFacts(o *out, all []funcInfo) {
	var arms []string
	found, afterQuery, beforeAssign := false, false, false
	assignStruct, assignSlice := "none", "none"
	for _, fi := range all {
		if !strings.HasSuffix(fi.file, "callbacks/preload.go") || fi.name != "preload" || fi.decl.Body == nil || fi.decl.Recv != nil {
			continue
		}
		queryIdx, resetIdx, loopIdx := -1, -1, -1
		stmts := fi.decl.Body.List
		for i, st := range stmts {
			switch x := st.(type) {
			case *ast.SwitchStmt:
				if src(x.Tag) == "reflectValue.Kind()" && resetIdx < 0 {
					resetIdx = i
				}
			case *ast.ForStmt:
				if x.Cond != nil && strings.Contains(src(x.Cond), "reflectResults.Len()") && loopIdx < 0 {
					loopIdx = i
				}
			default:
				if strings.Contains(src(st), ".Find(reflectResults.Addr().Interface()") {
					queryIdx = i
				}
			}
		}
		if resetIdx < 0 || loopIdx < 0 || queryIdx < 0 {
			continue
		}
		found = true
		afterQuery = queryIdx < resetIdx
		beforeAssign = resetIdx < loopIdx
		hi := loopIdx
		if hi < resetIdx+1 {
			hi = resetIdx + 1
		}
		for _, st := range stmts[resetIdx+1 : hi] {
			ast.Inspect(st, func(m ast.Node) bool {
				if _, ok := m.(*ast.ReturnStmt); ok {
					beforeAssign = false
				}
				return true
			})
		}
		for _, st := range stmts[resetIdx].(*ast.SwitchStmt).Body.List {
			cc, ok := st.(*ast.CaseClause)
			if !ok {
				continue
			}
			var ks []string
			for _, e := range cc.List {
				ks = append(ks, src(e))
			}
			destKind := strings.Join(ks, ", ")
			if len(ks) == 0 {
				destKind = "default"
			}
			// the inner switch: directly in the arm (Struct) or inside a loop over every element (Slice / Array)
			var inner *ast.SwitchStmt
			every, target := false, ""
			for _, s := range cc.Body {
				switch x := s.(type) {
				case *ast.SwitchStmt:
					if src(x.Tag) == "rel.Type" {
						inner, every, target = x, true, "reflectValue"
					}
				case *ast.ForStmt:
					if x.Init != nil && src(x.Init) == "i := 0" && x.Cond != nil && src(x.Cond) == "i < reflectValue.Len()" && x.Post != nil && src(x.Post) == "i++" {
						for _, b := range x.Body.List {
							if sw, ok := b.(*ast.SwitchStmt); ok && src(sw.Tag) == "rel.Type" {
								inner, every, target = sw, true, "reflectValue.Index(i)"
							}
						}
					}
				}
			}
			if inner == nil {
				arms = append(arms, fmt.Sprintf("  { destKind := %s, relTypes := [], sets := \"none\", everyRecord := false }", lstr(destKind)))
				continue
			}
			for _, ist := range inner.Body.List {
				icc, ok := ist.(*ast.CaseClause)
				if !ok {
					continue
				}
				var ts []string
				for _, e := range icc.List {
					ts = append(ts, src(e))
				}
				if len(ts) == 0 {
					ts = []string{"default"}
				}
				arms = append(arms, fmt.Sprintf("  { destKind := %s, relTypes := %s, sets := %s, everyRecord := %s }",
					lstr(destKind), lstrs(ts), lstr(c08FieldSetArgStrict(icc.Body, target)), lbool(every)))
			}
		}
		// the assignment loop: `switch reflectFieldValue.Kind()` inside `for _, data := range datas`
		ast.Inspect(stmts[loopIdx], func(m ast.Node) bool {
			sw, ok := m.(*ast.SwitchStmt)
			if !ok || src(sw.Tag) != "reflectFieldValue.Kind()" {
				return true
			}
			for _, st := range sw.Body.List {
				cc, ok := st.(*ast.CaseClause)
				if !ok {
					continue
				}
				var ks []string
				for _, e := range cc.List {
					ks = append(ks, src(e))
				}
				switch strings.Join(ks, ", ") {
				case "reflect.Struct":
					assignStruct = c08FieldSetArg(cc.Body, "data")
				case "reflect.Slice, reflect.Array":
					assignSlice = c08FieldSetArg(cc.Body, "data")
				}
			}
			return false
		})
	}
	body := `/-- one arm of the "clean up old values before preloading" step of callbacks/preload.go preload():
    destKind = the ` + "`case`" + ` of ` + "`switch reflectValue.Kind()`" + `, relTypes = the ` + "`case`" + ` of the inner ` + "`switch rel.Type`" + ` ("default" for the default arm),
    sets = what rel.Field.Set is given ("emptySlice" | "zero" | "other" | "none"), everyRecord = the arm reaches every record of the destination -/
structure PreloadResetArm where
  destKind : String
  relTypes : List String
  sets : String
  everyRecord : Bool
deriving Repr, DecidableEq

def preloadResetFound : Bool := ` + lbool(found) + `

def preloadResetArms : List PreloadResetArm := [
` + strings.Join(arms, ",\n") + `]

/-- the reset step comes after the statement that runs the child query … -/
def preloadResetAfterQuery : Bool := ` + lbool(afterQuery) + `
/-- … and before the loop that assigns the returned rows (no return in between) -/
def preloadResetBeforeAssign : Bool := ` + lbool(beforeAssign) + `

/-- the assignment loop, per kind of the relation field: "overwrite" = rel.Field.Set(ctx, data, elem.Interface()),
    "append" = rel.Field.Set(ctx, data, reflect.Append(reflectFieldValue, …)) -/
def preloadAssignStruct : String := ` + lstr(assignStruct) + `
def preloadAssignSlice : String := ` + lstr(assignSlice) + `
`
	o.write("PreloadResetFacts", body)
}
