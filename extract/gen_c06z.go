package main

// C06 round 5 fact generator → Gen/C06Round5.lean.
//
// A. `dbReturns` — every method of *DB (root package) that has a *DB among its results: for every `return`, the ORIGIN
//    of the returned *DB as a list of paths.  A path is a list of names: the first names the root
//      "recv"   the receiver itself            "fresh"  a `&DB{…}` literal            "param:x" another parameter
//      "nil"                                    "other:<src>" anything else
//    followed by the methods called on it in order (`db.getInstance().Session(…)` → ["recv","getInstance","Session"]).
//    A returned variable is replaced by the origins of everything that is ever assigned to it in the function.
//    `tx = db` therefore shows up as ["recv"].
//
// B. `aliasWrites` — a small syntactic alias analysis of callbacks/*.go, finisher_api.go, association.go, scan.go and
//    callbacks.go: which local names can denote storage that the statement of a chain SHARES with the handle it was
//    derived from (Statement.clone copies the Preloads / Clauses MAPS and the Joins slice, but not the argument slices,
//    clause expressions or join records inside; Selects / Omits / ColumnMapping / Vars are copied by header), and every
//    write-like event through such a name:
//      indexAssign       x[i] = …            fieldAssign    x[i].f = … / (*x).f = …
//      appendOntoPrefix  append(x[:k], …) or append(y, …) with y := x[:k]   (overwrites elements that are visible)
//      appendOntoShared  append(x, …)          (writes only beyond len(x): invisible to every holder of x)
//      delete / copyInto / sortInPlace / clear / incDec
//      storeField        db.Statement.F = …    (replaces the field of the chain's own statement: no alias write)
//    Levels: 0 = the value itself is shared storage; n > 0 = a private container that reaches shared storage after n
//    index / range steps.  Taint flows through assignments, range, slicing, append, type assertions, stores into local
//    containers, calls of package-level functions and local closures (parameters / results, to a fixpoint).

import (
	"fmt"
	"go/ast"
	"go/token"
	"sort"
	"strings"
)

func init() {
	extraGens = append(extraGens, func(o *out, pkgs map[string]map[string]*ast.File, all []funcInfo, repo string) {
		genC06Round5(o, pkgs)
	})
}

func c06zListList(xs [][]string) string {
	q := make([]string, len(xs))
	for i, x := range xs {
		q[i] = lstrs(x)
	}
	return "[" + strings.Join(q, ", ") + "]"
}

// ---- A ------------------------------------------------------------------------------------------------

type c06zRetAn struct {
	recv    string
	params  map[string]bool
	assigns map[string][]ast.Expr
}

func c06zIsDBPtr(e ast.Expr) bool { return e != nil && (src(e) == "*DB" || src(e) == "*gorm.DB") }

func (a *c06zRetAn) origins(e ast.Expr, depth int, seen map[string]bool) [][]string {
	switch x := e.(type) {
	case *ast.ParenExpr:
		return a.origins(x.X, depth, seen)
	case *ast.Ident:
		switch {
		case x.Name == a.recv:
			return [][]string{{"recv"}}
		case x.Name == "nil":
			return [][]string{{"nil"}}
		}
		if seen[x.Name] || depth > 6 {
			return nil // `tx = tx.Select(…)`: the other assignments of tx carry the origin
		}
		seen2 := map[string]bool{x.Name: true}
		for k := range seen {
			seen2[k] = true
		}
		var out [][]string
		for _, r := range a.assigns[x.Name] {
			out = append(out, a.origins(r, depth+1, seen2)...)
		}
		if a.params[x.Name] {
			out = append(out, []string{"param:" + x.Name})
		}
		if len(out) == 0 && !a.params[x.Name] && len(a.assigns[x.Name]) == 0 {
			out = append(out, []string{"other:unassigned " + x.Name})
		}
		return out
	case *ast.UnaryExpr:
		if cl, ok := x.X.(*ast.CompositeLit); ok && x.Op == token.AND && (src(cl.Type) == "DB" || src(cl.Type) == "gorm.DB") {
			return [][]string{{"fresh"}}
		}
	case *ast.CallExpr:
		if sel, ok := x.Fun.(*ast.SelectorExpr); ok {
			var out [][]string
			for _, p := range a.origins(sel.X, depth, seen) {
				out = append(out, append(append([]string(nil), p...), sel.Sel.Name))
			}
			if len(out) > 0 || c06zRootSeen(sel.X, seen) {
				return out
			}
		}
	case *ast.SelectorExpr:
		// a field read on the way (`tx.callbacks.Create()`, stmt.DB …): the path goes on
		var out [][]string
		for _, p := range a.origins(x.X, depth, seen) {
			out = append(out, append(append([]string(nil), p...), x.Sel.Name))
		}
		if len(out) > 0 || c06zRootSeen(x.X, seen) {
			return out
		}
	}
	return [][]string{{"other:" + src(e)}}
}

func c06zRootSeen(e ast.Expr, seen map[string]bool) bool {
	for {
		switch x := e.(type) {
		case *ast.Ident:
			return seen[x.Name]
		case *ast.SelectorExpr:
			e = x.X
		case *ast.CallExpr:
			e = x.Fun
		case *ast.ParenExpr:
			e = x.X
		default:
			return false
		}
	}
}

func genC06Returns(b *strings.Builder, root map[string]*ast.File) {
	var rows []string
	for _, fi := range funcsOf(root) {
		fd := fi.decl
		if fd.Recv == nil || len(fd.Recv.List) == 0 || !c06zIsDBPtr(fd.Recv.List[0].Type) || fd.Type.Results == nil {
			continue
		}
		// positions of *DB results
		var pos []int
		var named []string
		idx := 0
		for _, f := range fd.Type.Results.List {
			n := len(f.Names)
			if n == 0 {
				n = 1
			}
			for k := 0; k < n; k++ {
				if c06zIsDBPtr(f.Type) {
					pos = append(pos, idx)
					if len(f.Names) > 0 {
						named = append(named, f.Names[k].Name)
					} else {
						named = append(named, "")
					}
				}
				idx++
			}
		}
		if len(pos) == 0 {
			continue
		}
		an := &c06zRetAn{params: map[string]bool{}, assigns: map[string][]ast.Expr{}}
		if len(fd.Recv.List[0].Names) > 0 {
			an.recv = fd.Recv.List[0].Names[0].Name
		}
		for _, f := range fd.Type.Params.List {
			for _, n := range f.Names {
				an.params[n.Name] = true
			}
		}
		ast.Inspect(fd.Body, func(x ast.Node) bool {
			switch s := x.(type) {
			case *ast.AssignStmt:
				if len(s.Lhs) == len(s.Rhs) {
					for i, l := range s.Lhs {
						if id, ok := l.(*ast.Ident); ok {
							an.assigns[id.Name] = append(an.assigns[id.Name], s.Rhs[i])
						}
					}
				}
			case *ast.ValueSpec:
				if len(s.Names) == len(s.Values) {
					for i, id := range s.Names {
						an.assigns[id.Name] = append(an.assigns[id.Name], s.Values[i])
					}
				}
			}
			return true
		})
		var rets [][]string
		var walk func(n ast.Node)
		walk = func(n ast.Node) {
			ast.Inspect(n, func(x ast.Node) bool {
				switch s := x.(type) {
				case *ast.FuncLit:
					return false // returns of closures are not returns of the method
				case *ast.ReturnStmt:
					for k, p := range pos {
						var e ast.Expr
						if len(s.Results) == 0 {
							if named[k] == "" {
								continue
							}
							e = ast.NewIdent(named[k])
						} else if p < len(s.Results) {
							e = s.Results[p]
						} else {
							continue
						}
						var flat []string
						seenP := map[string]bool{}
						for _, o := range an.origins(e, 0, map[string]bool{}) {
							k := lstrs(o)
							if !seenP[k] {
								seenP[k] = true
								flat = append(flat, k)
							}
						}
						sort.Strings(flat)
						rets = append(rets, flat)
					}
				}
				return true
			})
		}
		walk(fd.Body)
		name := strings.TrimPrefix(fi.name, "DB.")
		var rr []string
		for _, r := range rets {
			// each origin path is printed as a list of names
			rr = append(rr, "["+strings.Join(r, ", ")+"]")
		}
		rows = append(rows, fmt.Sprintf("(%s, %s, [%s])", lstr(name), lbool(ast.IsExported(fd.Name.Name)), strings.Join(rr, ", ")))
	}
	fmt.Fprintf(b, "/-- every method of *DB with a *DB result: (name, exported, for every `return` the origins of the returned *DB; an\n    origin is a path: root (\"recv\" | \"fresh\" | \"param:x\" | \"nil\" | \"other:…\") followed by the methods called on it) -/\ndef dbReturns : List (String × Bool × List (List (List String))) := [\n  %s]\n\n", strings.Join(rows, ",\n  "))
}

// ---- B ------------------------------------------------------------------------------------------------

// shared storage reachable from a statement: field → level of `<x>.Statement.<field>`
var c06zSources = map[string]int{"Preloads": 1, "Joins": 1, "Clauses": 1, "Selects": 0, "Omits": 0, "ColumnMapping": 0, "Vars": 0}

type c06zUnit struct {
	file, name string
	body       *ast.BlockStmt
	params     []string
	taint      map[string]int
	prefix     map[string]bool
	closures   map[string]*ast.FuncLit
}

type c06zAn struct {
	units   map[string]*c06zUnit // package-level functions by plain name
	param   map[string]map[int]int
	returns map[string]int
	changed bool
}

// sources whose ELEMENTS are strings: reading an element yields no storage
var c06zLeafElems = map[string]bool{"Selects": true, "Omits": true, "ColumnMapping": true}

func c06zLeafSource(e ast.Expr) bool {
	sel, ok := e.(*ast.SelectorExpr)
	if !ok {
		return false
	}
	_, is := c06zIsSource(e)
	return is && c06zLeafElems[sel.Sel.Name]
}

func c06zIsSource(e ast.Expr) (int, bool) {
	sel, ok := e.(*ast.SelectorExpr)
	if !ok {
		return 0, false
	}
	lvl, ok := c06zSources[sel.Sel.Name]
	if !ok {
		return 0, false
	}
	x := src(sel.X)
	if strings.HasSuffix(x, ".Statement") || x == "stmt" || x == "Statement" {
		return lvl, true
	}
	return 0, false
}

func c06zMin(a, b int) int {
	if a < 0 {
		return b
	}
	if b < 0 || a < b {
		return a
	}
	return b
}

func (an *c06zAn) level(u *c06zUnit, e ast.Expr) int {
	switch x := e.(type) {
	case nil:
		return -1
	case *ast.ParenExpr:
		return an.level(u, x.X)
	case *ast.Ident:
		if l, ok := u.taint[x.Name]; ok {
			return l
		}
		return -1
	case *ast.SelectorExpr:
		if l, ok := c06zIsSource(e); ok {
			return l
		}
		return an.level(u, x.X)
	case *ast.IndexExpr:
		if c06zLeafSource(x.X) {
			return -1
		}
		l := an.level(u, x.X)
		if l > 0 {
			return l - 1
		}
		return l
	case *ast.SliceExpr:
		return an.level(u, x.X)
	case *ast.TypeAssertExpr:
		return an.level(u, x.X)
	case *ast.StarExpr:
		return an.level(u, x.X)
	case *ast.UnaryExpr:
		if x.Op == token.AND {
			return an.level(u, x.X)
		}
		return -1
	case *ast.CallExpr:
		f := src(x.Fun)
		if f == "append" && len(x.Args) > 0 {
			l := an.level(u, x.Args[0])
			// appended VALUES that are shared make the result a holder
			for _, a := range x.Args[1:] {
				if la := an.level(u, a); la >= 0 {
					l = c06zMin(l, la+1)
					if x.Ellipsis.IsValid() {
						l = c06zMin(l, la)
					}
				}
			}
			return l
		}
		if l, ok := an.returns[f]; ok {
			return l
		}
		return -1
	}
	return -1
}

func (an *c06zAn) set(u *c06zUnit, name string, l int) {
	if name == "_" || l < 0 {
		return
	}
	if old, ok := u.taint[name]; !ok || l < old {
		u.taint[name] = l
		an.changed = true
	}
}

func c06zIsPrefix(e ast.Expr) bool {
	for {
		if p, ok := e.(*ast.ParenExpr); ok {
			e = p.X
			continue
		}
		break
	}
	s, ok := e.(*ast.SliceExpr)
	return ok && s.High != nil
}

func (an *c06zAn) assign(u *c06zUnit, lhs, rhs ast.Expr) {
	l := an.level(u, rhs)
	if l < 0 {
		return
	}
	switch x := lhs.(type) {
	case *ast.Ident:
		an.set(u, x.Name, l)
		if l == 0 && c06zIsPrefix(rhs) && !u.prefix[x.Name] {
			u.prefix[x.Name] = true
			an.changed = true
		}
		if id, ok := rhs.(*ast.Ident); ok && u.prefix[id.Name] && !u.prefix[x.Name] {
			u.prefix[x.Name] = true
			an.changed = true
		}
	case *ast.IndexExpr:
		// m[a][b] = shared → m is a holder
		depth := 0
		var e ast.Expr = x
		for {
			ix, ok := e.(*ast.IndexExpr)
			if !ok {
				break
			}
			depth++
			e = ix.X
		}
		if id, ok := e.(*ast.Ident); ok {
			if cur, has := u.taint[id.Name]; !has || cur > l+depth {
				an.set(u, id.Name, l+depth)
			}
		}
	}
}

func (an *c06zAn) pass(u *c06zUnit) {
	ast.Inspect(u.body, func(n ast.Node) bool {
		switch s := n.(type) {
		case *ast.AssignStmt:
			if len(s.Lhs) == len(s.Rhs) {
				for i := range s.Lhs {
					an.assign(u, s.Lhs[i], s.Rhs[i])
					if fl, ok := s.Rhs[i].(*ast.FuncLit); ok {
						if id, ok := s.Lhs[i].(*ast.Ident); ok {
							u.closures[id.Name] = fl
						}
					}
				}
			} else if len(s.Rhs) == 1 { // v, ok := x.(T) / m[k]
				if len(s.Lhs) > 0 {
					an.assign(u, s.Lhs[0], s.Rhs[0])
				}
			}
		case *ast.ValueSpec:
			if len(s.Names) == len(s.Values) {
				for i := range s.Names {
					an.assign(u, s.Names[i], s.Values[i])
				}
			}
		case *ast.RangeStmt:
			l := an.level(u, s.X)
			if c06zLeafSource(s.X) {
				l = -1
			}
			if l >= 0 && s.Value != nil {
				if id, ok := s.Value.(*ast.Ident); ok {
					v := l
					if v > 0 {
						v--
					}
					an.set(u, id.Name, v)
				}
			}
		case *ast.ReturnStmt:
			for _, r := range s.Results {
				if l := an.level(u, r); l >= 0 {
					if old, ok := an.returns[u.name]; !ok || l < old {
						an.returns[u.name] = l
						an.changed = true
					}
				}
			}
		case *ast.CallExpr:
			f := src(s.Fun)
			for i, a := range s.Args {
				l := an.level(u, a)
				if l < 0 {
					continue
				}
				if fl, ok := u.closures[f]; ok {
					k := 0
					for _, p := range fl.Type.Params.List {
						for _, nm := range p.Names {
							if k == i {
								an.set(u, nm.Name, l)
							}
							k++
						}
					}
					continue
				}
				if _, ok := an.units[f]; ok {
					if an.param[f] == nil {
						an.param[f] = map[int]int{}
					}
					if old, ok := an.param[f][i]; !ok || l < old {
						an.param[f][i] = l
						an.changed = true
					}
				}
			}
		}
		return true
	})
}

type c06zEvent struct{ file, fn, kind, target, stmt string }

func (an *c06zAn) events(u *c06zUnit) []c06zEvent {
	var evs []c06zEvent
	add := func(kind string, target ast.Expr, stmt ast.Node) {
		s := strings.Join(strings.Fields(src(stmt)), " ")
		if len(s) > 140 {
			s = s[:140] + "…"
		}
		evs = append(evs, c06zEvent{u.file, u.name, kind, src(target), s})
	}
	ast.Inspect(u.body, func(n ast.Node) bool {
		switch s := n.(type) {
		case *ast.AssignStmt:
			for _, l := range s.Lhs {
				switch x := l.(type) {
				case *ast.IndexExpr:
					if an.level(u, x.X) == 0 {
						add("indexAssign", l, s)
					}
				case *ast.SelectorExpr:
					if _, ok := c06zIsSource(l); ok {
						add("storeField", l, s)
						continue
					}
					switch b := x.X.(type) {
					case *ast.IndexExpr:
						if an.level(u, b.X) == 0 {
							add("fieldAssign", l, s)
						}
					case *ast.StarExpr:
						if an.level(u, b.X) == 0 {
							add("fieldAssign", l, s)
						}
					}
				}
			}
		case *ast.IncDecStmt:
			if x, ok := s.X.(*ast.IndexExpr); ok && an.level(u, x.X) == 0 {
				add("incDec", s.X, s)
			}
		case *ast.CallExpr:
			f := src(s.Fun)
			if len(s.Args) == 0 {
				return true
			}
			a0 := s.Args[0]
			switch {
			case f == "append":
				if an.level(u, a0) == 0 {
					id, isId := a0.(*ast.Ident)
					if c06zIsPrefix(a0) || (isId && u.prefix[id.Name]) {
						add("appendOntoPrefix", a0, s)
					} else {
						add("appendOntoShared", a0, s)
					}
				}
			case f == "delete" && an.level(u, a0) == 0:
				add("delete", a0, s)
			case f == "clear" && an.level(u, a0) == 0:
				add("clear", a0, s)
			case f == "copy" && an.level(u, a0) == 0:
				add("copyInto", a0, s)
			case strings.HasPrefix(f, "sort.") && an.level(u, a0) == 0:
				add("sortInPlace", a0, s)
			}
		}
		return true
	})
	return evs
}

func genC06Alias(b *strings.Builder, pkgs map[string]map[string]*ast.File) {
	var all []c06zEvent
	var tainted [][]string
	scan := func(files map[string]*ast.File, only map[string]bool, prefix string) {
		an := &c06zAn{units: map[string]*c06zUnit{}, param: map[string]map[int]int{}, returns: map[string]int{}}
		var order []string
		for _, fi := range funcsOf(files) {
			if strings.HasSuffix(fi.file, "_test.go") || (only != nil && !only[fi.file]) {
				continue
			}
			u := &c06zUnit{file: prefix + fi.file, name: fi.name, body: fi.decl.Body, taint: map[string]int{}, prefix: map[string]bool{}, closures: map[string]*ast.FuncLit{}}
			for _, p := range fi.decl.Type.Params.List {
				for _, n := range p.Names {
					u.params = append(u.params, n.Name)
				}
				if len(p.Names) == 0 {
					u.params = append(u.params, "_")
				}
			}
			an.units[fi.name] = u
			order = append(order, fi.name)
		}
		for round := 0; round < 12; round++ {
			an.changed = false
			for _, name := range order {
				u := an.units[name]
				for i, l := range an.param[name] {
					if i < len(u.params) {
						an.set(u, u.params[i], l)
					}
				}
				an.pass(u)
			}
			if !an.changed {
				break
			}
		}
		for _, name := range order {
			u := an.units[name]
			all = append(all, an.events(u)...)
			var ns []string
			for n, l := range u.taint {
				s := fmt.Sprintf("%s:%d", n, l)
				if u.prefix[n] {
					s += ":prefix"
				}
				ns = append(ns, s)
			}
			sort.Strings(ns)
			if len(ns) > 0 {
				tainted = append(tainted, append([]string{u.file, u.name}, ns...))
			}
		}
	}
	scan(pkgs["callbacks"], nil, "")
	scan(pkgs["."], map[string]bool{"finisher_api.go": true, "association.go": true, "scan.go": true, "callbacks.go": true}, "")
	var rows []string
	for _, e := range all {
		rows = append(rows, fmt.Sprintf("(%s, %s, %s, %s, %s)", lstr(e.file), lstr(e.fn), lstr(e.kind), lstr(e.target), lstr(e.stmt)))
	}
	fmt.Fprintf(b, "/-- write-like events through names that can denote storage a chain's statement SHARES with the handle it was derived\n    from, in callbacks/*.go, finisher_api.go, association.go, scan.go, callbacks.go: (file, function, kind, target, statement) -/\ndef aliasWrites : List (String × String × String × String × String) := [\n  %s]\n\n", strings.Join(rows, ",\n  "))
	fmt.Fprintf(b, "/-- … the names the analysis considers shared, per function: file :: function :: \"name:level[:prefix]\" … -/\ndef aliasNames : List (List String) := [\n  %s]\n", strings.TrimSuffix(strings.TrimPrefix(c06zListList(tainted), "["), "]"))
}

func genC06Round5(o *out, pkgs map[string]map[string]*ast.File) {
	var b strings.Builder
	genC06Returns(&b, pkgs["."])
	genC06Alias(&b, pkgs)
	o.write("C06Round5", b.String())
}
