package main

// C01 fact generator, round 3 (registers itself; writes Gen/BindApi.lean).
//
// ARGUMENT FLOW of every function of the packages gorm (root) and gorm/clause that has a variadic parameter of
// element type interface{} or clause.Expression (`args ...interface{}`, `conds ...interface{}`, `values ...`,
// `attrs ...`, `vars ...`, `exprs ...Expression`): the chain methods and finishers of the API, BuildCondition,
// AddVar, gorm.Expr, clause.And/Or/Not …
//
// For each such function the generator enumerates the control-flow PATHS through its body - splitting at every
// `if` / `switch` that mentions the parameter or contains a `return`; loops are straight-line code - and records
// per path
//   pos   the top-level conjuncts of the conditions known TRUE on the path,
//   neg   the top-level disjuncts of the conditions known FALSE on the path,
//   uses  every occurrence of the parameter on the path that hands it on ("p", "p...", "p[0]", "p[1:]...",
//         "range p", …; `len(p)` is not a use, a mention inside `AddError(…)` is a rejection, not a use),
//   ending "return" | "end".
// The parameter is spelled `p` in all recorded strings.  Dumb syntax only: the judgement ("no path drops the
// arguments unless the path condition says there are none") is the Lean theorem `C01_api_args_forwarded`.

import (
	"fmt"
	"go/ast"
	"go/token"
	"regexp"
	"sort"
	"strings"
)

func init() {
	extraGens = append(extraGens, func(o *out, pkgs map[string]map[string]*ast.File, all []funcInfo, repo string) {
		genBindApi(o, pkgs, all)
	})
}

type c01PathState struct {
	pos, neg, uses []string
	rejects        bool
}

func (s c01PathState) clone() c01PathState {
	return c01PathState{append([]string{}, s.pos...), append([]string{}, s.neg...), append([]string{}, s.uses...), s.rejects}
}

func (s c01PathState) key() string {
	return strings.Join(s.pos, "\x00") + "\x01" + strings.Join(s.neg, "\x00") + "\x01" + strings.Join(s.uses, "\x00") + fmt.Sprint(s.rejects)
}

type c01ApiPath struct {
	fn, file, param string
	st              c01PathState
	ending          string
}

type c01Flow struct {
	param string
	re    *regexp.Regexp
	paths []c01ApiPath
	fn    string
	file  string
}

func (f *c01Flow) norm(s string) string { return f.re.ReplaceAllString(s, "p") }

// mentions: does the subtree mention the parameter (as an identifier that is not a selector field / literal key)?
func (f *c01Flow) mentions(n ast.Node) bool {
	if n == nil {
		return false
	}
	found := false
	f.idents(n, func(*ast.Ident) { found = true })
	return found
}

// idents calls fn for every identifier occurrence of the parameter, skipping `x.param` selectors and `param:` keys
func (f *c01Flow) idents(n ast.Node, fn func(*ast.Ident)) {
	skip := map[ast.Node]bool{}
	ast.Inspect(n, func(x ast.Node) bool {
		switch v := x.(type) {
		case *ast.SelectorExpr:
			skip[v.Sel] = true
		case *ast.KeyValueExpr:
			if id, ok := v.Key.(*ast.Ident); ok {
				skip[id] = true
			}
		case *ast.Ident:
			if v.Name == f.param && !skip[v] {
				fn(v)
			}
		}
		return true
	})
}

func c01HasReturn(n ast.Node) bool {
	found := false
	ast.Inspect(n, func(x ast.Node) bool {
		if _, ok := x.(*ast.FuncLit); ok {
			return false
		}
		if _, ok := x.(*ast.ReturnStmt); ok {
			found = true
		}
		return !found
	})
	return found
}

func (f *c01Flow) isParam(e ast.Expr) bool {
	id, ok := e.(*ast.Ident)
	return ok && id.Name == f.param
}

// collect records the uses of the parameter inside n (an expression or a whole statement, taken as straight-line code)
func (f *c01Flow) collect(n ast.Node, st *c01PathState) {
	if n == nil {
		return
	}
	handled := map[ast.Node]bool{}
	skip := map[ast.Node]bool{}
	add := func(u string) { st.uses = append(st.uses, u) }
	ast.Inspect(n, func(x ast.Node) bool {
		switch v := x.(type) {
		case *ast.SelectorExpr:
			skip[v.Sel] = true
		case *ast.KeyValueExpr:
			if id, ok := v.Key.(*ast.Ident); ok {
				skip[id] = true
			}
		case *ast.RangeStmt:
			if f.isParam(v.X) {
				add("range p")
				handled[v.X] = true
			}
		case *ast.CallExpr:
			name := c01CallName(v)
			if name == "len" && len(v.Args) == 1 && f.isParam(v.Args[0]) {
				return false
			}
			if name == "AddError" {
				if f.mentions(v) {
					st.rejects = true
				}
				return false
			}
			if v.Ellipsis != token.NoPos && len(v.Args) > 0 {
				last := v.Args[len(v.Args)-1]
				root := last
				if se, ok := last.(*ast.SliceExpr); ok {
					root = se.X
				}
				if f.isParam(root) {
					add(f.norm(src(last)) + "...")
					handled[last] = true
					handled[root] = true
				}
			}
		case *ast.IndexExpr:
			if f.isParam(v.X) && !handled[v] {
				add(f.norm(src(v)))
				handled[v.X] = true
			}
		case *ast.SliceExpr:
			if f.isParam(v.X) && !handled[v] {
				add(f.norm(src(v)))
				handled[v.X] = true
			}
		case *ast.Ident:
			if v.Name == f.param && !skip[v] && !handled[v] {
				add("p")
			}
		}
		return true
	})
}

func c01Split(e ast.Expr, op token.Token) []ast.Expr {
	for {
		p, ok := e.(*ast.ParenExpr)
		if !ok {
			break
		}
		e = p.X
	}
	if b, ok := e.(*ast.BinaryExpr); ok && b.Op == op {
		return append(c01Split(b.X, op), c01Split(b.Y, op)...)
	}
	return []ast.Expr{e}
}

func (f *c01Flow) addPos(st *c01PathState, cond ast.Expr) {
	for _, c := range c01Split(cond, token.LAND) {
		st.pos = append(st.pos, f.norm(src(c)))
	}
}

func (f *c01Flow) addNeg(st *c01PathState, cond ast.Expr) {
	for _, c := range c01Split(cond, token.LOR) {
		st.neg = append(st.neg, f.norm(src(c)))
	}
}

func c01Dedupe(sts []c01PathState) []c01PathState {
	seen := map[string]bool{}
	var out []c01PathState
	for _, s := range sts {
		if k := s.key(); !seen[k] {
			seen[k] = true
			out = append(out, s)
		}
	}
	if len(out) > 512 {
		out = out[:512]
	}
	return out
}

func (f *c01Flow) leaf(st c01PathState, ending string) {
	f.paths = append(f.paths, c01ApiPath{f.fn, f.file, f.param, st, ending})
}

// walk runs the statements from every state of `in`; returns the states that fall out of the list
func (f *c01Flow) walk(stmts []ast.Stmt, in []c01PathState) []c01PathState {
	cur := in
	for _, s := range stmts {
		if len(cur) == 0 {
			return nil
		}
		cur = c01Dedupe(f.step(s, cur))
	}
	return cur
}

func (f *c01Flow) each(in []c01PathState, fn func(st *c01PathState)) []c01PathState {
	out := make([]c01PathState, len(in))
	for i, s := range in {
		c := s.clone()
		fn(&c)
		out[i] = c
	}
	return out
}

func (f *c01Flow) step(s ast.Stmt, in []c01PathState) []c01PathState {
	switch v := s.(type) {
	case *ast.ReturnStmt:
		for _, st := range f.each(in, func(st *c01PathState) { f.collect(v, st) }) {
			f.leaf(st, "return")
		}
		return nil
	case *ast.BlockStmt:
		return f.walk(v.List, in)
	case *ast.IfStmt:
		if !f.mentions(v) && !c01HasReturn(v) {
			return in
		}
		cur := f.each(in, func(st *c01PathState) { f.collect(v.Init, st); f.collect(v.Cond, st) })
		thenIn := f.each(cur, func(st *c01PathState) { f.addPos(st, v.Cond) })
		elseIn := f.each(cur, func(st *c01PathState) { f.addNeg(st, v.Cond) })
		out := f.walk(v.Body.List, thenIn)
		if v.Else != nil {
			out = append(out, f.step(v.Else, elseIn)...)
		} else {
			out = append(out, elseIn...)
		}
		return out
	case *ast.SwitchStmt, *ast.TypeSwitchStmt:
		if !f.mentions(v) && !c01HasReturn(v) {
			return in
		}
		var body *ast.BlockStmt
		tag := ""
		cur := in
		switch w := v.(type) {
		case *ast.SwitchStmt:
			body, tag = w.Body, f.norm(src(w.Tag))
			cur = f.each(in, func(st *c01PathState) { f.collect(w.Init, st); f.collect(w.Tag, st) })
		case *ast.TypeSwitchStmt:
			body, tag = w.Body, f.norm(src(w.Assign))
			cur = f.each(in, func(st *c01PathState) { f.collect(w.Init, st) })
		}
		var out []c01PathState
		hasDefault := false
		for _, c := range body.List {
			cc := c.(*ast.CaseClause)
			label := "default"
			if cc.List == nil {
				hasDefault = true
			} else {
				var ls []string
				for _, e := range cc.List {
					ls = append(ls, f.norm(src(e)))
				}
				label = strings.Join(ls, ", ")
			}
			caseIn := f.each(cur, func(st *c01PathState) { st.pos = append(st.pos, "switch "+tag+" case "+label) })
			out = append(out, f.walk(cc.Body, caseIn)...)
		}
		if !hasDefault {
			out = append(out, f.each(cur, func(st *c01PathState) { st.pos = append(st.pos, "switch "+tag+" no case") })...)
		}
		return out
	default:
		// loops, assignments, expression statements, declarations, defer/go: straight-line
		return f.each(in, func(st *c01PathState) { f.collect(s, st) })
	}
}

func c01VariadicParam(fd *ast.FuncDecl) string {
	if fd.Type.Params == nil {
		return ""
	}
	ps := fd.Type.Params.List
	if len(ps) == 0 {
		return ""
	}
	last := ps[len(ps)-1]
	el, ok := last.Type.(*ast.Ellipsis)
	if !ok || len(last.Names) != 1 {
		return ""
	}
	switch t := src(el.Elt); t {
	case "interface{}", "any", "clause.Expression", "Expression":
		return last.Names[0].Name
	}
	return ""
}

// c01TemplateSites: every composite literal clause.Expr{…} / clause.NamedExpr{…} (also Expr{…} inside package clause is
// NOT included: those are the builders themselves) in the packages gorm and gorm/callbacks, with the source text of
// its SQL and Vars fields ("" = field absent)
func c01TemplateSites(all []funcInfo) [][4]string {
	var out [][4]string
	for _, fi := range all {
		if fi.decl.Body == nil || strings.HasSuffix(fi.file, "_test.go") {
			continue
		}
		if strings.Contains(fi.file, "/") && !strings.HasPrefix(fi.file, "callbacks/") {
			continue
		}
		ast.Inspect(fi.decl.Body, func(x ast.Node) bool {
			cl, ok := x.(*ast.CompositeLit)
			if !ok {
				return true
			}
			t := src(cl.Type)
			if t != "clause.Expr" && t != "clause.NamedExpr" {
				return true
			}
			sqlSrc, varsSrc := "", ""
			for _, el := range cl.Elts {
				if kv, ok := el.(*ast.KeyValueExpr); ok {
					switch src(kv.Key) {
					case "SQL":
						sqlSrc = src(kv.Value)
					case "Vars":
						varsSrc = src(kv.Value)
					}
				}
			}
			out = append(out, [4]string{fi.file + ":" + fi.name, t, sqlSrc, varsSrc})
			return true
		})
	}
	sort.SliceStable(out, func(i, j int) bool { return out[i][0] < out[j][0] })
	return out
}

// c01SliceParam: a (non-variadic) parameter of type []interface{} - the stored condition lists of callbacks/preload.go
func c01SliceParam(fd *ast.FuncDecl) string {
	if fd.Type.Params == nil {
		return ""
	}
	for _, p := range fd.Type.Params.List {
		if src(p.Type) == "[]interface{}" && len(p.Names) == 1 {
			return p.Names[0].Name
		}
	}
	return ""
}

func genBindApi(o *out, pkgs map[string]map[string]*ast.File, all []funcInfo) {
	var paths []c01ApiPath
	type fnRow struct{ fn, file, param string }
	var fns []fnRow
	for _, rel := range []string{".", "clause", "callbacks"} {
		for _, fi := range funcsOf(pkgs[rel]) {
			if fi.decl.Body == nil || strings.HasSuffix(fi.file, "_test.go") {
				continue
			}
			// the statement-building API: chain methods, finishers, Statement, gorm.Expr, the ConnPool wrappers that hand
			// the bound values to database/sql, and the clause package (association.go / migrator.go take RECORDS, not
			// statement arguments)
			if rel == "." && !map[string]bool{"chainable_api.go": true, "finisher_api.go": true, "statement.go": true, "gorm.go": true, "prepare_stmt.go": true}[fi.file] {
				continue
			}
			p := c01VariadicParam(fi.decl)
			if rel == "callbacks" && p == "" {
				p = c01SliceParam(fi.decl)
			}
			if p == "" || p == "_" {
				continue
			}
			f := &c01Flow{param: p, re: regexp.MustCompile(`\b` + regexp.QuoteMeta(p) + `\b`), fn: fi.name, file: fi.file}
			for _, st := range f.walk(fi.decl.Body.List, []c01PathState{{}}) {
				f.leaf(st, "end")
			}
			paths = append(paths, f.paths...)
			fns = append(fns, fnRow{fi.name, fi.file, p})
		}
	}
	sort.SliceStable(fns, func(i, j int) bool {
		if fns[i].file != fns[j].file {
			return fns[i].file < fns[j].file
		}
		return fns[i].fn < fns[j].fn
	})
	sort.SliceStable(paths, func(i, j int) bool {
		if paths[i].file != paths[j].file {
			return paths[i].file < paths[j].file
		}
		return paths[i].fn < paths[j].fn
	})

	var b strings.Builder
	b.WriteString("/-- a function with a variadic parameter of element type interface{} / clause.Expression -/\n")
	b.WriteString("structure ApiFn where\n  fn : String\n  file : String\n  param : String\nderiving Repr, DecidableEq\n\n")
	b.WriteString("def apiFns : List ApiFn := [\n")
	for i, r := range fns {
		sep := ","
		if i == len(fns)-1 {
			sep = ""
		}
		fmt.Fprintf(&b, "  { fn := %s, file := %s, param := %s }%s\n", lstr(r.fn), lstr(r.file), lstr(r.param), sep)
	}
	b.WriteString("]\n\n")
	b.WriteString("/-- one control-flow path through such a function (split at every if/switch that mentions the parameter or\n    contains a return; loops are straight-line).  The parameter is spelled `p`.\n    pos = top-level conjuncts of the conditions TRUE on the path, neg = top-level disjuncts of the conditions FALSE\n    on it, uses = the occurrences that hand the parameter on (`len(p)` is none; inside `AddError(…)` = rejects). -/\n")
	b.WriteString("structure ArgPath where\n  fn : String\n  file : String\n  pos : List String\n  neg : List String\n  uses : List String\n  rejects : Bool\n  ending : String\nderiving Repr, DecidableEq\n\n")
	b.WriteString("def argPaths : List ArgPath := [\n")
	for i, p := range paths {
		sep := ","
		if i == len(paths)-1 {
			sep = ""
		}
		fmt.Fprintf(&b, "  { fn := %s, file := %s, pos := %s, neg := %s, uses := %s, rejects := %v, ending := %s }%s\n",
			lstr(p.fn), lstr(p.file), lstrs(p.st.pos), lstrs(p.st.neg), lstrs(p.st.uses), p.st.rejects, lstr(p.ending), sep)
	}
	b.WriteString("]\n\n")
	b.WriteString("/-- a composite literal `clause.Expr{SQL: …, Vars: …}` / `clause.NamedExpr{…}` in gorm / gorm/callbacks: source text of\n    the two fields (\"\" = absent) -/\n")
	b.WriteString("structure TemplateSite where\n  site : String\n  kind : String\n  sql : String\n  vars : String\nderiving Repr, DecidableEq\n\n")
	b.WriteString("def templateSites : List TemplateSite := [\n")
	sites := c01TemplateSites(all)
	for i, t := range sites {
		sep := ","
		if i == len(sites)-1 {
			sep = ""
		}
		fmt.Fprintf(&b, "  { site := %s, kind := %s, sql := %s, vars := %s }%s\n", lstr(t[0]), lstr(t[1]), lstr(t[2]), lstr(t[3]), sep)
	}
	b.WriteString("]\n")
	o.write("BindApi", b.String())
	o.facts["c01_api_fns"] = len(fns)
	o.facts["c01_api_paths"] = len(paths)
}
