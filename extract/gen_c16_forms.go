package main

// C16 (round 5) fact generator → Gen/UpsertFormFacts.lean
//
//   finisher_api.go      assignInterfacesToValue: every read of `db.Statement.Schema.<X>` that resolves a NAME to a field
//                        (method call `LookUpField(arg)` or map index `FieldsByDBName[arg]` / `FieldsByName[arg]`), in source
//                        order, with the argument text — which table each of the three sites (Eq with a string column, Eq
//                        with a clause.Column, struct field) consults
//   schema/schema.go     Schema.LookUpField: the maps it tries, in order, and whether each hit returns
//   callbacks/create.go  Create, the branch without RETURNING: the statements between `db.RowsAffected, _ = result.RowsAffected()`
//                        and the first `.LastInsertId()` read — is there an `if db.RowsAffected == 0 { return }` in front of it

import (
	"go/ast"
	"go/token"
	"strings"
)

func init() {
	extraGens = append(extraGens, func(o *out, pkgs map[string]map[string]*ast.File, all []funcInfo, repo string) {
		genUpsertFormFacts(o, pkgs)
	})
}

func genUpsertFormFacts(o *out, pkgs map[string]map[string]*ast.File) {
	// ---- assignInterfacesToValue: name → field resolutions
	type site struct{ how, arg string }
	var sites []site
	if fd := c16FindFunc(pkgs["."], "DB", "assignInterfacesToValue"); fd != nil {
		ast.Inspect(fd.Body, func(n ast.Node) bool {
			switch x := n.(type) {
			case *ast.CallExpr:
				if se, ok := x.Fun.(*ast.SelectorExpr); ok && strings.HasSuffix(src(se.X), "Statement.Schema") && len(x.Args) == 1 {
					sites = append(sites, site{se.Sel.Name, src(x.Args[0])})
				}
			case *ast.IndexExpr:
				if se, ok := x.X.(*ast.SelectorExpr); ok && strings.HasSuffix(src(se.X), "Statement.Schema") {
					sites = append(sites, site{se.Sel.Name, src(x.Index)})
				}
			}
			return true
		})
	}

	// ---- LookUpField: maps tried in order
	var order []string
	returnsAll := true
	if fd := c16FindFunc(pkgs["schema"], "Schema", "LookUpField"); fd != nil {
		for _, st := range fd.Body.List {
			is, ok := st.(*ast.IfStmt)
			if !ok {
				continue
			}
			ini, ok := is.Init.(*ast.AssignStmt)
			if !ok || len(ini.Rhs) != 1 {
				continue
			}
			ix, ok := ini.Rhs[0].(*ast.IndexExpr)
			if !ok {
				continue
			}
			if se, ok := ix.X.(*ast.SelectorExpr); ok {
				order = append(order, se.Sel.Name+"["+src(ix.Index)+"]")
				ret := false
				for _, b := range is.Body.List {
					if r, ok := b.(*ast.ReturnStmt); ok && len(r.Results) == 1 && len(ini.Lhs) >= 1 && src(r.Results[0]) == src(ini.Lhs[0]) {
						ret = true
					}
				}
				returnsAll = returnsAll && ret
			}
		}
	}

	// ---- callbacks/create.go: the guard in front of the LastInsertId read
	raAssign, guardCond, guardFirst := false, "none", false
	var between []string
	if fd := c16FindFunc(pkgs["callbacks"], "", "Create"); fd != nil {
		ast.Inspect(fd.Body, func(n ast.Node) bool {
			blk, ok := n.(*ast.BlockStmt)
			if !ok || raAssign {
				return true
			}
			start := -1
			for i, st := range blk.List {
				if as, ok := st.(*ast.AssignStmt); ok && as.Tok == token.ASSIGN && len(as.Lhs) >= 1 &&
					src(as.Lhs[0]) == "db.RowsAffected" && strings.Contains(src(as.Rhs[0]), "result.RowsAffected()") {
					start = i
					break
				}
			}
			if start < 0 {
				return true
			}
			raAssign = true
			for _, st := range blk.List[start+1:] {
				if strings.Contains(src(st), ".LastInsertId()") {
					break
				}
				between = append(between, strings.Join(strings.Fields(src(st)), " "))
				if is, ok := st.(*ast.IfStmt); ok && is.Init == nil && is.Else == nil && len(is.Body.List) == 1 && guardCond == "none" {
					if r, ok := is.Body.List[0].(*ast.ReturnStmt); ok && len(r.Results) == 0 {
						guardCond = src(is.Cond)
						guardFirst = len(between) == 1
					}
				}
			}
			return false
		})
	}

	var b strings.Builder
	b.WriteString("/-- finisher_api.go assignInterfacesToValue: every name→field resolution through `db.Statement.Schema`, in source order:\n    (method or map consulted, argument text) -/\n")
	b.WriteString("def assignResolves : List (String × String) := [")
	for i, s := range sites {
		if i > 0 {
			b.WriteString(", ")
		}
		b.WriteString("(" + lstr(s.how) + ", " + lstr(s.arg) + ")")
	}
	b.WriteString("]\n\n")
	b.WriteString("/-- schema/schema.go Schema.LookUpField: the maps it tries, in order -/\n")
	b.WriteString("def lookUpFieldOrder : List String := " + lstrs(order) + "\n\n")
	b.WriteString("/-- … and every hit returns the field found -/\n")
	if returnsAll && len(order) > 0 {
		b.WriteString("def lookUpFieldReturnsHit : Bool := true\n\n")
	} else {
		b.WriteString("def lookUpFieldReturnsHit : Bool := false\n\n")
	}
	b.WriteString("/-- callbacks/create.go Create (no RETURNING): `db.RowsAffected, _ = result.RowsAffected()` was found -/\n")
	if raAssign {
		b.WriteString("def backfillRaAssignFound : Bool := true\n\n")
	} else {
		b.WriteString("def backfillRaAssignFound : Bool := false\n\n")
	}
	b.WriteString("/-- … the statements of the same block between that assignment and the first `.LastInsertId()` read -/\n")
	b.WriteString("def backfillBeforeInsertId : List String := " + lstrs(between) + "\n\n")
	b.WriteString("/-- … the condition of the first bare `if c { return }` among them (\"none\" if there is none) -/\n")
	b.WriteString("def backfillRaGuardCond : String := " + lstr(guardCond) + "\n\n")
	b.WriteString("/-- … and it is the statement right after the assignment -/\n")
	if guardFirst {
		b.WriteString("def backfillRaGuardFirst : Bool := true\n")
	} else {
		b.WriteString("def backfillRaGuardFirst : Bool := false\n")
	}
	o.write("UpsertFormFacts", b.String())
	o.facts["assignResolves"] = len(sites)
	o.facts["backfillRaGuardCond"] = guardCond
}
