package main

// C09 fact generator: the three places that turn the primary key of a model value into a WHERE condition — and in
// particular the TWO COPIES of the delete block (callbacks/delete.go `Delete` and soft_delete.go
// `SoftDeleteDeleteClause.ModifyStatement`; the latter builds the statement itself, after which the former's copy is
// skipped because `db.Statement.SQL.Len() == 0` no longer holds).
//
// Per site and per key source ("value" = `<stmt>.ReflectValue`, "model" = `reflect.ValueOf(<stmt>.Model)`) one KeyBlock:
//
//	found     : an assignment `_, qv := schema.GetIdentityFieldValuesMap(ctx, <source>, <stmt>.Schema.PrimaryFields)`
//	            (for "update": the `for _, field := range stmt.Schema.PrimaryFields` loop that calls
//	            `field.ValueOf(ctx, stmt.ReflectValue)`; and, as a second entry, the slice branch's
//	            GetIdentityFieldValuesMap call)
//	addsWhere : LATER STATEMENTS OF THE SAME BLOCK are `column, values := schema.ToQueryValues(…, qv)` and
//	            `if len(values) > 0 { <stmt>.AddClause(clause.Where{Exprs: …{clause.IN{Column: column, Values: values}}}) }`
//	            (no else branch), with no other GetIdentityFieldValuesMap assignment in between
//	            (update: `AddClause(clause.Where{…})` in the THEN branch of the `!isZero` test)
//	guards    : the conjuncts of every enclosing `if` between the function's (closure's) body and the block, outermost
//	            first (an else branch contributes `!(cond)`, a switch case `switch TAG case X, Y`), with `db.Statement.`
//	            rewritten to `stmt.` so that the two delete sites can be compared literally
//
// DeleteBuildSite: the guards of the site's `<stmt>.Build(…)` call (the block in which the statement's SQL is built) and
// whether every key block found lies in that block BEFORE the Build call.

import (
	"fmt"
	"go/ast"
	"go/token"
	"strings"
)

func init() {
	extraGens = append(extraGens, func(o *out, pkgs map[string]map[string]*ast.File, all []funcInfo, repo string) {
		c09kGen(o, pkgs)
	})
}

type c09kBlock struct {
	site, source     string
	found, addsWhere bool
	guards           []string
	pos              token.Pos
}

type c09kBuild struct {
	found  bool
	guards []string
	pos    token.Pos
}

func c09kNorm(s string) string { return strings.ReplaceAll(s, "db.Statement.", "stmt.") }

func c09kIsSel(e ast.Expr, name string) bool {
	s, ok := e.(*ast.SelectorExpr)
	return ok && s.Sel.Name == name
}

// c09kCallNamed: `X.name(…)` or `name(…)`
func c09kCallNamed(e ast.Expr, name string) *ast.CallExpr {
	c, ok := e.(*ast.CallExpr)
	if !ok {
		return nil
	}
	switch f := c.Fun.(type) {
	case *ast.SelectorExpr:
		if f.Sel.Name == name {
			return c
		}
	case *ast.Ident:
		if f.Name == name {
			return c
		}
	}
	return nil
}

// c09kIdentCall: is `s` an assignment `a, b (:)= <call of name>`?  returns the call and the name of the 2nd LHS
func c09kAssignCall(s ast.Stmt, name string) (*ast.CallExpr, string, string) {
	as, ok := s.(*ast.AssignStmt)
	if !ok || len(as.Rhs) != 1 || len(as.Lhs) != 2 {
		return nil, "", ""
	}
	c := c09kCallNamed(as.Rhs[0], name)
	if c == nil {
		return nil, "", ""
	}
	return c, src(as.Lhs[0]), src(as.Lhs[1])
}

// c09kSource: "value" for `<x>.ReflectValue`, "model" for `reflect.ValueOf(<x>.Model)`
func c09kSource(e ast.Expr) string {
	if c09kIsSel(e, "ReflectValue") {
		return "value"
	}
	if c := c09kCallNamed(e, "ValueOf"); c != nil && len(c.Args) == 1 && c09kIsSel(c.Args[0], "Model") && strings.HasPrefix(src(c.Fun), "reflect.") {
		return "model"
	}
	return ""
}

// c09kAddsWhereIN: does `body` (statements of a THEN branch) contain, as a top-level statement,
// `<x>.AddClause(clause.Where{… clause.IN{Column: column, Values: values} …})`?
func c09kAddsWhere(body []ast.Stmt, mustContain string) bool {
	for _, s := range body {
		es, ok := s.(*ast.ExprStmt)
		if !ok {
			continue
		}
		c := c09kCallNamed(es.X, "AddClause")
		if c == nil || len(c.Args) != 1 {
			continue
		}
		cl, ok := c.Args[0].(*ast.CompositeLit)
		if !ok || src(cl.Type) != "clause.Where" {
			continue
		}
		if strings.Contains(src(cl), mustContain) {
			return true
		}
	}
	return false
}

// c09kLenPositive: `len(v) > 0` / `len(v) != 0` / `len(v) >= 1` / `0 < len(v)`
func c09kLenPositive(e ast.Expr, v string) bool {
	for {
		p, ok := e.(*ast.ParenExpr)
		if !ok {
			break
		}
		e = p.X
	}
	be, ok := e.(*ast.BinaryExpr)
	if !ok {
		return false
	}
	l, r := src(be.X), src(be.Y)
	want := "len(" + v + ")"
	switch {
	case l == want && r == "0" && (be.Op == token.GTR || be.Op == token.NEQ):
		return true
	case l == want && r == "1" && be.Op == token.GEQ:
		return true
	case l == "0" && r == want && (be.Op == token.LSS || be.Op == token.NEQ):
		return true
	}
	return false
}

type c09kWalker struct {
	site   string
	blocks []c09kBlock
	build  c09kBuild
	update bool
}

func (w *c09kWalker) with(guards []string, more ...string) []string {
	return append(append([]string{}, guards...), more...)
}

func (w *c09kWalker) conj(e ast.Expr) []string {
	var out []string
	for _, c := range andConjuncts(e) {
		out = append(out, c09kNorm(src(c)))
	}
	return out
}

// delete sites: key block starting at list[i]?
func (w *c09kWalker) deleteBlockAt(list []ast.Stmt, i int, guards []string) {
	call, _, qv := c09kAssignCall(list[i], "GetIdentityFieldValuesMap")
	if call == nil || len(call.Args) != 3 {
		return
	}
	source := c09kSource(call.Args[1])
	if source == "" || !strings.HasSuffix(src(call.Args[2]), ".Schema.PrimaryFields") {
		return
	}
	b := c09kBlock{site: w.site, source: source, found: true, guards: guards, pos: list[i].Pos()}
	column, values := "", ""
	for j := i + 1; j < len(list); j++ {
		if c, _, _ := c09kAssignCall(list[j], "GetIdentityFieldValuesMap"); c != nil {
			break // the next key block starts here
		}
		if c, c1, c2 := c09kAssignCall(list[j], "ToQueryValues"); c != nil {
			if len(c.Args) >= 1 && src(c.Args[len(c.Args)-1]) == qv {
				column, values = c1, c2
			}
			continue
		}
		is, ok := list[j].(*ast.IfStmt)
		if !ok || values == "" || is.Init != nil || is.Else != nil {
			continue
		}
		if c09kLenPositive(is.Cond, values) && c09kAddsWhere(is.Body.List, "clause.IN{Column: "+column+", Values: "+values+"}") {
			b.addsWhere = true
			break
		}
	}
	w.blocks = append(w.blocks, b)
}

// update site: `for _, field := range stmt.Schema.PrimaryFields { if value, isZero := field.ValueOf(ctx, stmt.ReflectValue); !isZero { AddClause(clause.Where{…}) } }`
func (w *c09kWalker) updateLoopAt(s ast.Stmt, guards []string) {
	rs, ok := s.(*ast.RangeStmt)
	if !ok || !strings.HasSuffix(src(rs.X), ".Schema.PrimaryFields") || rs.Value == nil {
		return
	}
	field := src(rs.Value)
	for _, st := range rs.Body.List {
		is, ok := st.(*ast.IfStmt)
		if !ok || is.Init == nil {
			continue
		}
		call, _, isZero := c09kAssignCall(is.Init, "ValueOf")
		if call == nil || len(call.Args) != 2 || !strings.HasPrefix(src(call.Fun), field+".") || c09kSource(call.Args[1]) != "value" {
			continue
		}
		b := c09kBlock{site: w.site, source: "value", found: true, guards: guards, pos: s.Pos()}
		if src(is.Cond) == "!"+isZero && c09kAddsWhere(is.Body.List, "clause.Eq{") {
			b.addsWhere = true
		}
		w.blocks = append(w.blocks, b)
		return
	}
}

// update site, slice branch: `_, pv := GetIdentityFieldValuesMap(ctx, stmt.ReflectValue, PrimaryFields); column, values := ToQueryValues(…, pv); AddClause(Where IN)`
func (w *c09kWalker) updateSliceAt(list []ast.Stmt, i int, guards []string) {
	call, _, qv := c09kAssignCall(list[i], "GetIdentityFieldValuesMap")
	if call == nil || len(call.Args) != 3 || c09kSource(call.Args[1]) != "value" || !strings.HasSuffix(src(call.Args[2]), ".Schema.PrimaryFields") {
		return
	}
	b := c09kBlock{site: w.site, source: "value", found: true, guards: guards, pos: list[i].Pos()}
	column, values := "", ""
	for j := i + 1; j < len(list); j++ {
		if c, c1, c2 := c09kAssignCall(list[j], "ToQueryValues"); c != nil && len(c.Args) >= 1 && src(c.Args[len(c.Args)-1]) == qv {
			column, values = c1, c2
		}
	}
	if values != "" && c09kAddsWhere(list[i+1:], "clause.IN{Column: "+column+", Values: "+values+"}") {
		b.addsWhere = true
	}
	w.blocks = append(w.blocks, b)
}

func (w *c09kWalker) block(list []ast.Stmt, guards []string) {
	for i, s := range list {
		if w.update {
			w.updateLoopAt(s, guards)
			w.updateSliceAt(list, i, guards)
		} else {
			w.deleteBlockAt(list, i, guards)
			if es, ok := s.(*ast.ExprStmt); ok && !w.build.found {
				if c := c09kCallNamed(es.X, "Build"); c != nil {
					if sel, ok := c.Fun.(*ast.SelectorExpr); ok && (src(sel.X) == "stmt" || strings.HasSuffix(src(sel.X), ".Statement")) {
						w.build = c09kBuild{found: true, guards: guards, pos: s.Pos()}
					}
				}
			}
		}
		w.stmt(s, guards)
	}
}

func (w *c09kWalker) stmt(s ast.Stmt, guards []string) {
	switch v := s.(type) {
	case *ast.IfStmt:
		conds := w.conj(v.Cond)
		w.block(v.Body.List, w.with(guards, conds...))
		neg := "!(" + c09kNorm(src(v.Cond)) + ")"
		switch e := v.Else.(type) {
		case *ast.BlockStmt:
			w.block(e.List, w.with(guards, neg))
		case *ast.IfStmt:
			w.stmt(e, w.with(guards, neg))
		}
	case *ast.BlockStmt:
		w.block(v.List, guards)
	case *ast.ForStmt:
		w.block(v.Body.List, w.with(guards, "for "+c09kNorm(src(v.Cond))))
	case *ast.RangeStmt:
		w.block(v.Body.List, w.with(guards, "range "+c09kNorm(src(v.X))))
	case *ast.SwitchStmt:
		for _, c := range v.Body.List {
			if cc, ok := c.(*ast.CaseClause); ok {
				var xs []string
				for _, x := range cc.List {
					xs = append(xs, src(x))
				}
				lbl := "default"
				if len(xs) > 0 {
					lbl = "case " + strings.Join(xs, ", ")
				}
				w.block(cc.Body, w.with(guards, "switch "+c09kNorm(src(v.Tag))+" "+lbl))
			}
		}
	case *ast.TypeSwitchStmt:
		for _, c := range v.Body.List {
			if cc, ok := c.(*ast.CaseClause); ok {
				w.block(cc.Body, w.with(guards, "typeswitch"))
			}
		}
	case *ast.LabeledStmt:
		w.stmt(v.Stmt, guards)
	}
	// function literals (closures assigned inside the body) are NOT entered: what they contain does not run here
}

func c09kHas(ss []string, want string) bool {
	for _, s := range ss {
		if s == want {
			return true
		}
	}
	return false
}

func c09kHasPrefix(ss, prefix []string) bool {
	if len(prefix) > len(ss) {
		return false
	}
	for i := range prefix {
		if ss[i] != prefix[i] {
			return false
		}
	}
	return true
}

func c09kGen(o *out, pkgs map[string]map[string]*ast.File) {
	// the three function bodies
	var hardBody, softBody, updBody *ast.BlockStmt
	if fd := findFunc(pkgs["callbacks"], "Delete"); fd != nil && fd.Body != nil {
		for _, s := range fd.Body.List {
			if rs, ok := s.(*ast.ReturnStmt); ok && len(rs.Results) == 1 {
				if fl, ok := rs.Results[0].(*ast.FuncLit); ok {
					hardBody = fl.Body
				}
			}
		}
	}
	if fd := findFunc(pkgs["callbacks"], "ConvertToAssignments"); fd != nil {
		updBody = fd.Body
	}
	for _, f := range pkgs["."] {
		for _, d := range f.Decls {
			fd, ok := d.(*ast.FuncDecl)
			if !ok || fd.Recv == nil || len(fd.Recv.List) != 1 || fd.Name.Name != "ModifyStatement" || fd.Body == nil {
				continue
			}
			if strings.TrimPrefix(src(fd.Recv.List[0].Type), "*") == "SoftDeleteDeleteClause" {
				softBody = fd.Body
			}
		}
	}

	var blocks []c09kBlock
	builds := map[string]c09kBuild{}
	beforeBuild := map[string]bool{}
	for _, site := range []struct {
		name string
		body *ast.BlockStmt
	}{{"hard-delete", hardBody}, {"soft-delete", softBody}} {
		w := &c09kWalker{site: site.name}
		if site.body != nil {
			w.block(site.body.List, nil)
		}
		builds[site.name] = w.build
		ok := w.build.found
		for _, source := range []string{"value", "model"} {
			n := 0
			for _, b := range w.blocks {
				if b.source == source {
					blocks = append(blocks, b)
					n++
					if !(w.build.found && b.pos < w.build.pos && c09kHasPrefix(b.guards, w.build.guards)) {
						ok = false
					}
				}
			}
			if n == 0 {
				blocks = append(blocks, c09kBlock{site: site.name, source: source})
			}
		}
		beforeBuild[site.name] = ok
	}
	{
		w := &c09kWalker{site: "update", update: true}
		if updBody != nil {
			w.block(updBody.List, nil)
		}
		if len(w.blocks) == 0 {
			blocks = append(blocks, c09kBlock{site: "update", source: "value"})
		}
		blocks = append(blocks, w.blocks...)
	}

	// the summary Booleans
	pick := func(site, source string) (found, adds, destNeModel bool, n int) {
		for _, b := range blocks {
			if b.site == site && b.source == source && b.found {
				n++
				found, adds = true, b.addsWhere
				destNeModel = c09kHas(b.guards, "stmt.Dest != stmt.Model")
			}
		}
		return
	}
	modelFact := func(site string) bool {
		f, a, d, n := pick(site, "model")
		return f && a && d && n == 1 && beforeBuild[site]
	}
	valueFact := func(site string) bool {
		f, a, _, n := pick(site, "value")
		return f && a && n == 1 && beforeBuild[site]
	}

	var b strings.Builder
	b.WriteString(`/-- one place that turns the primary key of a value into a WHERE condition (extract/gen_c09_keys.go) -/
structure KeyBlock where
  site : String          -- "hard-delete" (callbacks/delete.go Delete) | "soft-delete" (soft_delete.go SoftDeleteDeleteClause.ModifyStatement) | "update" (callbacks/update.go ConvertToAssignments)
  source : String        -- "value" (ReflectValue of the statement) | "model" (reflect.ValueOf(<stmt>.Model))
  found : Bool           -- the GetIdentityFieldValuesMap assignment with that source (update: the PrimaryFields loop calling field.ValueOf) exists
  addsWhere : Bool       -- followed in the same block by ` + "`if len(values) > 0 { AddClause(clause.Where{… IN …}) }`" + ` (update: AddClause(clause.Where …) under !isZero)
  guards : List String   -- conjuncts of the enclosing ifs, outermost first; ` + "`db.Statement.`" + ` normalised to ` + "`stmt.`" + `
deriving DecidableEq, Repr

/-- the block of a delete site in which the statement is built: guards of its ` + "`<stmt>.Build(…)`" + ` call; ` + "`keysBeforeBuild`" + `: every
    key block found lies under (at least) these guards and textually before the Build call -/
structure DeleteBuildSite where
  site : String
  found : Bool
  guards : List String
  keysBeforeBuild : Bool
deriving DecidableEq, Repr

`)
	var es []string
	for _, k := range blocks {
		es = append(es, fmt.Sprintf("  { site := %s, source := %s, found := %s, addsWhere := %s,\n    guards := %s }",
			lstr(k.site), lstr(k.source), lbool(k.found), lbool(k.addsWhere), lstrs(k.guards)))
	}
	b.WriteString("/-- callbacks/delete.go Delete, soft_delete.go SoftDeleteDeleteClause.ModifyStatement (value block, model block each), then\n    callbacks/update.go ConvertToAssignments -/\n")
	b.WriteString("def deleteKeyBlocks : List KeyBlock := [\n" + strings.Join(es, ",\n") + "\n]\n\n")
	var bs []string
	for _, site := range []string{"hard-delete", "soft-delete"} {
		bs = append(bs, fmt.Sprintf("  { site := %s, found := %s, guards := %s, keysBeforeBuild := %s }",
			lstr(site), lbool(builds[site].found), lstrs(builds[site].guards), lbool(beforeBuild[site])))
	}
	b.WriteString("def deleteBuildSites : List DeleteBuildSite := [\n" + strings.Join(bs, ",\n") + "\n]\n\n")
	doc := func(what string) string {
		return "/-- " + what + " -/\n"
	}
	b.WriteString(doc("callbacks/delete.go Delete: exactly one block (M) — key of `reflect.ValueOf(db.Statement.Model)` — found, adds `WHERE … IN`,\n    guarded by `Dest != Model`, before the Build call"))
	b.WriteString("def hardDeleteModelKeyBlock : Bool := " + lbool(modelFact("hard-delete")) + "\n\n")
	b.WriteString(doc("soft_delete.go SoftDeleteDeleteClause.ModifyStatement: the same for its own copy of block (M)"))
	b.WriteString("def softDeleteModelKeyBlock : Bool := " + lbool(modelFact("soft-delete")) + "\n\n")
	b.WriteString(doc("callbacks/delete.go Delete: exactly one block (V) — key of `db.Statement.ReflectValue` — found, adds `WHERE … IN`, before the Build call"))
	b.WriteString("def hardDeleteValueKeyBlock : Bool := " + lbool(valueFact("hard-delete")) + "\n\n")
	b.WriteString(doc("soft_delete.go SoftDeleteDeleteClause.ModifyStatement: the same for its own copy of block (V)"))
	b.WriteString("def softDeleteValueKeyBlock : Bool := " + lbool(valueFact("soft-delete")) + "\n")
	o.write("DeleteKeyFacts", b.String())
	o.facts["hardDeleteModelKeyBlock"] = modelFact("hard-delete")
	o.facts["softDeleteModelKeyBlock"] = modelFact("soft-delete")
	o.facts["hardDeleteValueKeyBlock"] = valueFact("hard-delete")
	o.facts["softDeleteValueKeyBlock"] = valueFact("soft-delete")
}
