package main

// C10 round 5 fact generator (Gen/ValueOfFacts.lean): the SHAPE of the code that decides whether a field of a written
// record is ZERO.
//
//   valueOfReturns   (ordinal of the `field.ValueOf = func…` closure inside (*Field).setupValuerAndSetter, results of each
//                    `return` of that closure) — the zero flag is the second result
//   valueOfZeroDefs  (ordinal, statement) of every assignment inside those closures that defines an identifier later
//                    returned as the zero flag
//   valueOfGuards    the condition under which each closure is installed (switch-case / if condition, "default")
//   isZeroWrites     (function, enclosing if-condition, statement) of every statement of the write-path functions
//                    ConvertToAssignments / ConvertToCreateValues that assigns an identifier named isZero / zero
//   isZeroTests      (function, condition) of every if-condition of those functions mentioning isZero
//
// Props/C10.lean proves these tables are the shapes Model/FieldZero.lean (rawZero / serializerWrap) and
// Model/WriteSet.lean (structWrites' `isZero`) transcribe.

import (
	"fmt"
	"go/ast"
	"strings"
)

func init() {
	extraGens = append(extraGens, func(o *out, pkgs map[string]map[string]*ast.File, all []funcInfo, repo string) {
		genC10ValueOfFacts(o, all)
	})
}

func genC10ValueOfFacts(o *out, all []funcInfo) {
	var returns, defs, guards, writes, tests []string
	for _, fi := range all {
		if fi.decl == nil || fi.decl.Body == nil {
			continue
		}
		if fi.name == "Field.setupValuerAndSetter" {
			ord := 0
			// walk with the stack of enclosing guards
			var visit func(n ast.Node, guard string)
			visit = func(n ast.Node, guard string) {
				ast.Inspect(n, func(m ast.Node) bool {
					switch x := m.(type) {
					case *ast.CaseClause:
						g := "default"
						if len(x.List) > 0 {
							parts := []string{}
							for _, e := range x.List {
								parts = append(parts, src(e))
							}
							g = strings.Join(parts, ", ")
						}
						for _, st := range x.Body {
							visit(st, g)
						}
						return false
					case *ast.IfStmt:
						if x.Init != nil {
							visit(x.Init, guard)
						}
						visit(x.Body, src(x.Cond))
						if x.Else != nil {
							visit(x.Else, "else of "+src(x.Cond))
						}
						return false
					case *ast.AssignStmt:
						if len(x.Lhs) == 1 && len(x.Rhs) == 1 && src(x.Lhs[0]) == "field.ValueOf" {
							if lit, ok := x.Rhs[0].(*ast.FuncLit); ok {
								id := fmt.Sprint(ord)
								ord++
								guards = append(guards, c10Pair(id, guard))
								zeroIdents := map[string]bool{}
								ast.Inspect(lit.Body, func(k ast.Node) bool {
									if _, nested := k.(*ast.FuncLit); nested {
										return false
									}
									if r, ok := k.(*ast.ReturnStmt); ok {
										parts := []string{}
										for _, e := range r.Results {
											parts = append(parts, src(e))
										}
										returns = append(returns, c10Pair(id, strings.Join(parts, ", ")))
										if len(r.Results) == 2 {
											if idn, ok := r.Results[1].(*ast.Ident); ok {
												zeroIdents[idn.Name] = true
											}
										}
									}
									return true
								})
								ast.Inspect(lit.Body, func(k ast.Node) bool {
									if as, ok := k.(*ast.AssignStmt); ok {
										for _, l := range as.Lhs {
											if idn, ok := l.(*ast.Ident); ok && zeroIdents[idn.Name] && idn.Name != "true" && idn.Name != "false" {
												defs = append(defs, c10Pair(id, src(as)))
												break
											}
										}
									}
									return true
								})
								return false
							}
						}
					}
					return true
				})
			}
			visit(fi.decl.Body, "")
		}
		if fi.name == "ConvertToAssignments" || fi.name == "ConvertToCreateValues" {
			var visit func(n ast.Node, guard string)
			visit = func(n ast.Node, guard string) {
				ast.Inspect(n, func(m ast.Node) bool {
					switch x := m.(type) {
					case *ast.CaseClause:
						g := "default"
						if len(x.List) > 0 {
							parts := []string{}
							for _, e := range x.List {
								parts = append(parts, src(e))
							}
							g = "case " + strings.Join(parts, ", ")
						}
						for _, st := range x.Body {
							visit(st, guard+" / "+g)
						}
						return false
					case *ast.IfStmt:
						c := src(x.Cond)
						if strings.Contains(c, "isZero") || strings.Contains(c, "zero") {
							tests = append(tests, c10Pair(fi.name, c))
						}
						if x.Init != nil {
							visit(x.Init, c)
						}
						visit(x.Body, c)
						if x.Else != nil {
							visit(x.Else, "else of "+c)
						}
						return false
					case *ast.AssignStmt:
						for _, l := range x.Lhs {
							if idn, ok := l.(*ast.Ident); ok && (idn.Name == "isZero" || idn.Name == "zero") {
								writes = append(writes, c10Triple(fi.name, guard, src(x)))
								break
							}
						}
					}
					return true
				})
			}
			visit(fi.decl.Body, "")
		}
	}
	var b strings.Builder
	b.WriteString("namespace ValueOfFacts\n\n")
	b.WriteString("/-- (closure ordinal, installing guard) of every `field.ValueOf = func…` of schema/field.go setupValuerAndSetter -/\n")
	b.WriteString("def valueOfGuards : List (String × String) := [" + strings.Join(guards, ", ") + "]\n\n")
	b.WriteString("/-- (closure ordinal, results) of every `return` of those closures -/\n")
	b.WriteString("def valueOfReturns : List (String × String) := [" + strings.Join(returns, ", ") + "]\n\n")
	b.WriteString("/-- (closure ordinal, statement) defining an identifier returned as the zero flag -/\n")
	b.WriteString("def valueOfZeroDefs : List (String × String) := [" + strings.Join(defs, ", ") + "]\n\n")
	b.WriteString("/-- (function, enclosing if condition, statement) of every assignment to isZero / zero in the write path -/\n")
	b.WriteString("def isZeroWrites : List (String × String × String) := [\n  " + strings.Join(writes, ",\n  ") + "]\n\n")
	b.WriteString("/-- (function, condition) of every if condition of the write path mentioning the zero flag -/\n")
	b.WriteString("def isZeroTests : List (String × String) := [\n  " + strings.Join(tests, ",\n  ") + "]\n\n")
	b.WriteString("end ValueOfFacts\n")
	o.write("ValueOfFacts", b.String())
	o.facts["c10ValueOfReturns"] = len(returns)
}
