package main

// C09 fact generator (round 4): HOW chainable_api.go (*DB).executeScopes hands the statement handle through the scope
// functions, and how its callers use the result.
//
//	func (db *DB) executeScopes() (tx *DB) {
//		scopes := db.Statement.scopes
//		db.Statement.scopes = nil
//		for _, scope := range scopes {
//			db = scope(db)          // THREADED: every scope receives what the previous one returned
//		}
//		return db                   // … and the final handle is what the caller continues with
//	}
//
// A scope may mutate the handle it is given in place or return a DERIVED handle (d.WithContext(ctx).Where(..),
// d.Session(&gorm.Session{}).Where(..)) whose statement is a clone: a condition survives only when the handle is threaded.
//
//	scopesFnFound, scopesRangeOver (ranged expression), scopesRangesOverCopy (it is a local assigned from
//	`db.Statement.scopes` before the reset), scopesResetBeforeLoop (`db.Statement.scopes = nil` precedes the loop),
//	scopesCallArg / scopesCallAssignedTo (identifier passed to / assigned from `scope(..)` in the loop body),
//	scopesLoopBodyStmts, scopesReturned (identifier returned after the loop; the named result for a bare return),
//	scopesThreaded := arg == assignedTo == returned ∧ the body is that single assignment ∧ range over the whole copy
//	scopeRunSites: every call of executeScopes — enclosing function, whether it sits in `for len(X.Statement.scopes) > 0`,
//	the receiver, what the result is assigned to
//	executeStmtAfterScopes: in callbacks.go (*processor).Execute the loop is the FIRST statement (everything that reads
//	db.Statement comes after it and sees the handle the scopes returned)

import (
	"fmt"
	"go/ast"
	"go/token"
	"strings"
)

func init() {
	extraGens = append(extraGens, func(o *out, pkgs map[string]map[string]*ast.File, all []funcInfo, repo string) {
		genScopeFacts(o, all)
	})
}

type c09sSite struct {
	fn, file, receiver, assignedTo string
	whilePending                   bool
}

func c09sIdent(e ast.Expr) string {
	if id, ok := e.(*ast.Ident); ok {
		return id.Name
	}
	return src(e)
}

func genScopeFacts(o *out, all []funcInfo) {
	found, resetBefore, overCopy := false, false, false
	rangeOver, callArg, callAssigned, returned := "", "", "", ""
	bodyStmts := 0
	var sites []c09sSite
	execFirst := false

	for _, fi := range all {
		if fi.decl.Body == nil || strings.HasSuffix(fi.file, "_test.go") {
			continue
		}
		if fi.name == "DB.executeScopes" {
			found = true
			named := ""
			if fi.decl.Type.Results != nil && len(fi.decl.Type.Results.List) == 1 && len(fi.decl.Type.Results.List[0].Names) == 1 {
				named = fi.decl.Type.Results.List[0].Names[0].Name
			}
			copies := map[string]bool{} // locals assigned from db.Statement.scopes
			seenReset, seenLoop := false, false
			for _, st := range fi.decl.Body.List {
				switch s := st.(type) {
				case *ast.AssignStmt:
					if len(s.Lhs) == 1 && len(s.Rhs) == 1 {
						l, r := src(s.Lhs[0]), src(s.Rhs[0])
						if strings.HasSuffix(r, ".Statement.scopes") && s.Tok == token.DEFINE {
							copies[l] = !seenReset
						}
						if strings.HasSuffix(l, ".Statement.scopes") && r == "nil" && !seenLoop {
							seenReset = true
						}
					}
				case *ast.RangeStmt:
					if seenLoop {
						continue
					}
					seenLoop = true
					resetBefore = seenReset
					rangeOver = src(s.X)
					overCopy = copies[rangeOver]
					bodyStmts = len(s.Body.List)
					valName := ""
					if s.Value != nil {
						valName = c09sIdent(s.Value)
					}
					for _, b := range s.Body.List {
						as, ok := b.(*ast.AssignStmt)
						if !ok || len(as.Lhs) != 1 || len(as.Rhs) != 1 {
							continue
						}
						call, ok := as.Rhs[0].(*ast.CallExpr)
						if !ok || c09sIdent(call.Fun) != valName || len(call.Args) != 1 {
							continue
						}
						callArg = c09sIdent(call.Args[0])
						callAssigned = c09sIdent(as.Lhs[0])
					}
				case *ast.ReturnStmt:
					if len(s.Results) == 1 {
						returned = c09sIdent(s.Results[0])
					} else if len(s.Results) == 0 {
						returned = named
					}
				}
			}
		}
		// call sites of executeScopes
		var walk func(n ast.Node, pending bool)
		walk = func(n ast.Node, pending bool) {
			if n == nil {
				return
			}
			switch v := n.(type) {
			case *ast.ForStmt:
				p := pending
				if c := src(v.Cond); strings.HasPrefix(c, "len(") && strings.HasSuffix(c, ".Statement.scopes) > 0") {
					p = true
				}
				walk(v.Body, p)
				return
			case *ast.AssignStmt:
				for i, r := range v.Rhs {
					found := false
					ast.Inspect(r, func(x ast.Node) bool {
						if call, ok := x.(*ast.CallExpr); ok {
							if sel, ok := call.Fun.(*ast.SelectorExpr); ok && sel.Sel.Name == "executeScopes" {
								lhs := ""
								if i < len(v.Lhs) {
									lhs = src(v.Lhs[i])
								}
								// the result is "assigned to lhs" only when the call IS the right-hand side
								if call != r {
									lhs = "(" + lhs + " = " + src(r) + ")"
								}
								sites = append(sites, c09sSite{fn: fi.name, file: fi.file, receiver: src(sel.X), assignedTo: lhs, whilePending: pending})
								found = true
							}
						}
						return !found
					})
				}
				return
			case *ast.ExprStmt:
				if call, ok := v.X.(*ast.CallExpr); ok {
					if sel, ok := call.Fun.(*ast.SelectorExpr); ok && sel.Sel.Name == "executeScopes" {
						sites = append(sites, c09sSite{fn: fi.name, file: fi.file, receiver: src(sel.X), assignedTo: "", whilePending: pending})
						return
					}
				}
			}
			// generic descent over statements
			switch v := n.(type) {
			case *ast.BlockStmt:
				for _, s := range v.List {
					walk(s, pending)
				}
			case *ast.IfStmt:
				walk(v.Init, pending)
				walk(v.Body, pending)
				walk(v.Else, pending)
			case *ast.RangeStmt:
				walk(v.Body, pending)
			case *ast.SwitchStmt:
				walk(v.Body, pending)
			case *ast.TypeSwitchStmt:
				walk(v.Body, pending)
			case *ast.CaseClause:
				for _, s := range v.Body {
					walk(s, pending)
				}
			case *ast.ExprStmt, *ast.ReturnStmt, *ast.DeferStmt, *ast.GoStmt, *ast.DeclStmt:
				ast.Inspect(v, func(x ast.Node) bool {
					if fl, ok := x.(*ast.FuncLit); ok {
						walk(fl.Body, false)
						return false
					}
					if call, ok := x.(*ast.CallExpr); ok {
						if sel, ok := call.Fun.(*ast.SelectorExpr); ok && sel.Sel.Name == "executeScopes" {
							sites = append(sites, c09sSite{fn: fi.name, file: fi.file, receiver: src(sel.X), assignedTo: "(" + src(v) + ")", whilePending: pending})
						}
					}
					return true
				})
			}
		}
		walk(fi.decl.Body, false)

		if fi.name == "processor.Execute" && len(fi.decl.Body.List) > 0 {
			if fs, ok := fi.decl.Body.List[0].(*ast.ForStmt); ok {
				c := src(fs.Cond)
				execFirst = c == "len(db.Statement.scopes) > 0" && len(fs.Body.List) == 1 && src(fs.Body.List[0]) == "db = db.executeScopes()"
			}
		}
	}
	threaded := found && callArg != "" && callArg == callAssigned && callAssigned == returned && bodyStmts == 1 && overCopy && resetBefore

	var b strings.Builder
	b.WriteString("/-- chainable_api.go has a method (*DB).executeScopes -/\n")
	b.WriteString("def scopesFnFound : Bool := " + lbool(found) + "\n\n")
	b.WriteString("/-- the expression its loop ranges over -/\n")
	b.WriteString("def scopesRangeOver : String := " + lstr(rangeOver) + "\n\n")
	b.WriteString("/-- … is a local copy taken from `db.Statement.scopes` before the reset (ALL registered scopes, none sliced away) -/\n")
	b.WriteString("def scopesRangesOverCopy : Bool := " + lbool(overCopy) + "\n\n")
	b.WriteString("/-- `db.Statement.scopes = nil` precedes the loop (a scope that registers more scopes queues them for the next round) -/\n")
	b.WriteString("def scopesResetBeforeLoop : Bool := " + lbool(resetBefore) + "\n\n")
	b.WriteString("/-- identifier passed to `scope(…)` in the loop body -/\n")
	b.WriteString("def scopesCallArg : String := " + lstr(callArg) + "\n\n")
	b.WriteString("/-- identifier the result of `scope(…)` is assigned to -/\n")
	b.WriteString("def scopesCallAssignedTo : String := " + lstr(callAssigned) + "\n\n")
	b.WriteString("/-- number of statements in the loop body -/\n")
	b.WriteString(fmt.Sprintf("def scopesLoopBodyStmts : Nat := %d\n\n", bodyStmts))
	b.WriteString("/-- identifier returned after the loop (the named result for a bare `return`) -/\n")
	b.WriteString("def scopesReturned : String := " + lstr(returned) + "\n\n")
	b.WriteString("/-- the handle is THREADED through the scopes: the loop body is the single assignment `x = scope(x)` over the whole\n    copy taken before the reset, and `x` is what is returned -/\n")
	b.WriteString("def scopesThreaded : Bool := " + lbool(threaded) + "\n\n")
	b.WriteString("/-- a call of executeScopes: enclosing function, file, receiver, what the result is assigned to (\"\" = dropped), and\n    whether the call sits in a `for len(X.Statement.scopes) > 0` loop (scopes registered by scopes run too) -/\n")
	b.WriteString("structure ScopeRunSite where\n  fn : String\n  file : String\n  receiver : String\n  assignedTo : String\n  whilePending : Bool\nderiving DecidableEq, Repr\n\n")
	b.WriteString("def scopeRunSites : List ScopeRunSite := [\n")
	for i, s := range sites {
		sep := ","
		if i == len(sites)-1 {
			sep = ""
		}
		b.WriteString(fmt.Sprintf("  { fn := %s, file := %s, receiver := %s, assignedTo := %s, whilePending := %s }%s\n",
			lstr(s.fn), lstr(s.file), lstr(s.receiver), lstr(s.assignedTo), lbool(s.whilePending), sep))
	}
	b.WriteString("]\n\n")
	b.WriteString("/-- callbacks.go (*processor).Execute STARTS with `for len(db.Statement.scopes) > 0 { db = db.executeScopes() }`: every\n    later read of db.Statement sees the handle the scopes returned -/\n")
	b.WriteString("def executeStmtAfterScopes : Bool := " + lbool(execFirst) + "\n")
	o.write("ScopeFacts", b.String())
	o.facts["scopesThreaded"] = threaded
}
