package main

// C12 fact generator (round 6): where the in-memory relation SLICES written by association mode come from.
// A caller may hold a slice read from the relation field (`old := u.Languages`, shares the backing array); association
// mode must build every new field value in fresh memory. Writes Gen/AssocSlices.lean:
//
//	assocReslices      every re-slicing in association.go: slice expressions `x[a:b]` and calls of the reflect methods
//	                   Slice / Slice3 / SetLen / SetCap / Grow: (function, source text)
//	assocAppendBases   every `x = reflect.Append(x, …)` / `reflect.AppendSlice(x, …)`: (function, x)
//	assocSliceOrigins  for every such x: each OTHER right-hand side assigned to x in that function:
//	                   (function, x, called function of the right-hand side or "" when it is no call)
//	assocCopyDsts      every `reflect.Copy(dst, …)` / `copy(dst, …)`: (function, dst)
//	assocElemWrites    every `….Index(…).Set…(…)` call (write into an element of a reflect slice): (function, source)

import (
	"fmt"
	"go/ast"
	"strings"
)

func init() {
	extraGens = append(extraGens, func(o *out, pkgs map[string]map[string]*ast.File, all []funcInfo, repo string) {
		genAssocSlices(o, all)
	})
}

func genAssocSlices(o *out, all []funcInfo) {
	var reslices, bases, origins, copies, elemWrites []string
	resliceMethods := map[string]bool{"Slice": true, "Slice3": true, "SetLen": true, "SetCap": true, "Grow": true}
	for _, fi := range all {
		if fi.file != "association.go" || fi.decl.Body == nil {
			continue
		}
		fn := fi.name
		appended := map[*ast.Object]bool{}
		var order []*ast.Object
		isAppend := func(e ast.Expr) (string, bool) {
			c, ok := e.(*ast.CallExpr)
			if !ok || len(c.Args) == 0 {
				return "", false
			}
			f := src(c.Fun)
			if f == "reflect.Append" || f == "reflect.AppendSlice" || f == "append" {
				return src(c.Args[0]), true
			}
			return "", false
		}
		ast.Inspect(fi.decl.Body, func(n ast.Node) bool {
			switch x := n.(type) {
			case *ast.SliceExpr:
				reslices = append(reslices, fmt.Sprintf("(%s, %s)", lstr(fn), lstr(src(x))))
			case *ast.CallExpr:
				if sel, ok := x.Fun.(*ast.SelectorExpr); ok {
					if resliceMethods[sel.Sel.Name] {
						reslices = append(reslices, fmt.Sprintf("(%s, %s)", lstr(fn), lstr(src(x))))
					}
					if strings.HasPrefix(sel.Sel.Name, "Set") {
						if inner, ok := sel.X.(*ast.CallExpr); ok {
							if is, ok := inner.Fun.(*ast.SelectorExpr); ok && is.Sel.Name == "Index" {
								elemWrites = append(elemWrites, fmt.Sprintf("(%s, %s)", lstr(fn), lstr(src(x))))
							}
						}
					}
				}
				if f := src(x.Fun); (f == "reflect.Copy" || f == "copy") && len(x.Args) > 0 {
					copies = append(copies, fmt.Sprintf("(%s, %s)", lstr(fn), lstr(src(x.Args[0]))))
				}
			case *ast.AssignStmt:
				if len(x.Lhs) == 1 && len(x.Rhs) == 1 {
					if base, ok := isAppend(x.Rhs[0]); ok && base == src(x.Lhs[0]) {
						if id, isIdent := x.Lhs[0].(*ast.Ident); isIdent && id.Obj != nil && strings.HasPrefix(src(x.Rhs[0].(*ast.CallExpr).Fun), "reflect.") {
							if !appended[id.Obj] {
								appended[id.Obj] = true
								order = append(order, id.Obj)
							}
							bases = append(bases, fmt.Sprintf("(%s, %s)", lstr(fn), lstr(base)))
						}
					}
				}
			}
			return true
		})
		for _, v := range order {
			ast.Inspect(fi.decl.Body, func(n ast.Node) bool {
				as, ok := n.(*ast.AssignStmt)
				if !ok || len(as.Lhs) != len(as.Rhs) {
					return true
				}
				for i, l := range as.Lhs {
					if id, ok := l.(*ast.Ident); !ok || id.Obj != v { // the same VARIABLE (go/ast object resolution), not only the same name
						continue
					}
					if base, ok := isAppend(as.Rhs[i]); ok && base == v.Name {
						continue
					}
					callee := ""
					if c, ok := as.Rhs[i].(*ast.CallExpr); ok {
						callee = src(c.Fun)
					}
					origins = append(origins, fmt.Sprintf("(%s, %s, %s)", lstr(fn), lstr(v.Name), lstr(callee)))
				}
				return true
			})
		}
	}
	var b strings.Builder
	list := func(doc, name, typ string, items []string) {
		fmt.Fprintf(&b, "/-- %s -/\ndef %s : List (%s) := [\n  %s\n]\n\n", doc, name, typ, strings.Join(items, ",\n  "))
	}
	list("association.go: every re-slicing (`x[a:b]`, reflect Slice / Slice3 / SetLen / SetCap / Grow): (function, source)", "assocReslices", "String × String", reslices)
	list("association.go: every `x = reflect.Append(x, …)`: (function, x)", "assocAppendBases", "String × String", bases)
	list("association.go: every other value assigned to a variable that is grown by reflect.Append: (function, variable, called function)", "assocSliceOrigins", "String × String × String", origins)
	list("association.go: destination of every reflect.Copy / copy: (function, destination)", "assocCopyDsts", "String × String", copies)
	list("association.go: every write into an element of a reflect slice `….Index(…).Set…(…)`: (function, source)", "assocElemWrites", "String × String", elemWrites)
	o.facts["assocSliceOrigins"] = len(origins)
	o.write("AssocSlices", b.String())
}
