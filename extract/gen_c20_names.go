package main

// C20 round-5 fact generator -> Gen/MigrateNameFacts.lean
//
//   migCatalogReads   every function of package migrator (non-test code) that asks the catalogue something — a call named
//                     HasTable / HasColumn / HasIndex / HasConstraint / ColumnTypes / GetIndexes / GetTables / TableType —
//                     with the source text of those calls in source order.  (Only AutoMigrate decides from catalogue answers;
//                     AddColumn / AlterColumn / CreateIndex / CreateConstraint / MigrateColumn* consult none: nothing can
//                     overrule the decision between the loop and the statement.)
//   migAddDecision    the `if` statements inside AutoMigrate's `range stmt.Schema.DBNames` body, in source order: condition
//                     text, the AddColumn / MigrateColumn calls of the then-branch and of the else-branch
//   migFoundColumn    every right-hand side assigned to / defining a variable named foundColumn in AutoMigrate
//   migExecBodies     for AddColumn, AlterColumn, CreateIndex, CreateConstraint, MigrateColumnUnique: every `if` condition of
//                     the body (source order) and the first argument of every Exec call (the statement text expression)

import (
	"go/ast"
	"strings"
)

func init() {
	extraGens = append(extraGens, func(o *out, pkgs map[string]map[string]*ast.File, all []funcInfo, repo string) {
		genC20Names(o, pkgs)
	})
}

var c20CatalogCalls = map[string]bool{"HasTable": true, "HasColumn": true, "HasIndex": true, "HasConstraint": true,
	"ColumnTypes": true, "GetIndexes": true, "GetTables": true, "TableType": true}

func c20CallsNamed(n ast.Node, names map[string]bool) []string {
	var out []string
	if n == nil {
		return out
	}
	ast.Inspect(n, func(m ast.Node) bool {
		if ce, ok := m.(*ast.CallExpr); ok && names[c20CallName(ce)] {
			var args []string
			for _, a := range ce.Args {
				args = append(args, src(a))
			}
			out = append(out, c20CallName(ce)+"("+strings.Join(args, ", ")+")")
		}
		return true
	})
	return out
}

func genC20Names(o *out, pkgs map[string]map[string]*ast.File) {
	var b strings.Builder
	mig := pkgs["migrator"]
	type reads struct {
		fn    string
		calls []string
	}
	var rs []reads
	type decision struct {
		cond       string
		then, els_ []string
	}
	var decs []decision
	var found []string
	type body struct {
		fn    string
		conds []string
		execs []string
	}
	var bodies []body
	wantBody := map[string]bool{"AddColumn": true, "AlterColumn": true, "CreateIndex": true, "CreateConstraint": true, "MigrateColumnUnique": true}
	for _, fname := range c20SortedFiles(mig) {
		for _, d := range mig[fname].Decls {
			fd, ok := d.(*ast.FuncDecl)
			if !ok || fd.Body == nil {
				continue
			}
			var calls []string
			ast.Inspect(fd.Body, func(n ast.Node) bool {
				if ce, ok := n.(*ast.CallExpr); ok && c20CatalogCalls[c20CallName(ce)] {
					calls = append(calls, src(ce))
				}
				return true
			})
			if len(calls) > 0 {
				rs = append(rs, reads{fd.Name.Name, calls})
			}
			if fd.Name.Name == "AutoMigrate" {
				ast.Inspect(fd.Body, func(n ast.Node) bool {
					switch x := n.(type) {
					case *ast.RangeStmt:
						if src(x.X) != "stmt.Schema.DBNames" {
							return true
						}
						ast.Inspect(x.Body, func(m ast.Node) bool {
							if is, ok := m.(*ast.IfStmt); ok {
								names := map[string]bool{"AddColumn": true, "MigrateColumn": true}
								cond := src(is.Cond)
								if is.Init != nil {
									cond = src(is.Init) + "; " + cond
								}
								decs = append(decs, decision{cond, c20CallsNamed(is.Body, names), c20CallsNamed(is.Else, names)})
							}
							return true
						})
						return false
					}
					return true
				})
				ast.Inspect(fd.Body, func(n ast.Node) bool {
					switch x := n.(type) {
					case *ast.AssignStmt:
						for i, l := range x.Lhs {
							if id, ok := l.(*ast.Ident); ok && id.Name == "foundColumn" && i < len(x.Rhs) {
								found = append(found, src(x.Rhs[i]))
							}
						}
					case *ast.ValueSpec:
						for i, id := range x.Names {
							if id.Name == "foundColumn" {
								if i < len(x.Values) {
									found = append(found, src(x.Values[i]))
								} else {
									found = append(found, "var "+src(x.Type))
								}
							}
						}
					}
					return true
				})
			}
			if wantBody[fd.Name.Name] && fd.Recv != nil {
				bd := body{fn: fd.Name.Name}
				ast.Inspect(fd.Body, func(n ast.Node) bool {
					switch x := n.(type) {
					case *ast.IfStmt:
						cond := src(x.Cond)
						if x.Init != nil {
							cond = src(x.Init) + "; " + cond
						}
						bd.conds = append(bd.conds, cond)
					case *ast.CallExpr:
						if c20CallName(x) == "Exec" && len(x.Args) > 0 {
							bd.execs = append(bd.execs, src(x.Args[0]))
						}
					}
					return true
				})
				bodies = append(bodies, bd)
			}
		}
	}
	b.WriteString("/-- (function of package migrator, its catalogue questions in source order) — only functions that ask any -/\ndef migCatalogReads : List (String × List String) := [")
	for i, r := range rs {
		if i > 0 {
			b.WriteString(", ")
		}
		b.WriteString("(" + lstr(r.fn) + ", " + lstrs(r.calls) + ")")
	}
	b.WriteString("]\n\n/-- the `if` statements of AutoMigrate's column loop: (condition, AddColumn/MigrateColumn calls of the then-branch, of the else-branch) -/\ndef migAddDecision : List (String × List String × List String) := [")
	for i, d := range decs {
		if i > 0 {
			b.WriteString(", ")
		}
		b.WriteString("(" + lstr(d.cond) + ", " + lstrs(d.then) + ", " + lstrs(d.els_) + ")")
	}
	b.WriteString("]\n\n/-- definitions of / assignments to `foundColumn` in AutoMigrate -/\ndef migFoundColumn : List String := " + lstrs(found) + "\n\n")
	b.WriteString("/-- (function, its `if` conditions in source order, the statement-text argument of each Exec call) -/\ndef migExecBodies : List (String × List String × List String) := [")
	for i, bd := range bodies {
		if i > 0 {
			b.WriteString(", ")
		}
		b.WriteString("(" + lstr(bd.fn) + ", " + lstrs(bd.conds) + ", " + lstrs(bd.execs) + ")")
	}
	b.WriteString("]\n")
	o.write("MigrateNameFacts", b.String())
}
