package main

// C14 fact generator: delete sites of the statement cache (moved out of main.go).

import (
	"fmt"
	"go/ast"
	"go/parser"
	"go/token"
	"path/filepath"
	"sort"
	"strings"
)

var _ = fmt.Sprintf
var _ = sort.Strings
var _ = strings.Join
var _ token.Pos

func init() {
	extraGens = append(extraGens, func(o *out, pkgs map[string]map[string]*ast.File, all []funcInfo, repo string) {
		genStmtCacheFacts(o, repo)
	})
}

// ---- C14: delete(…Stmts, query) sites of prepare_stmt.go and their identity guards -----------------

type delSite struct {
	fn, guard, with, own string
	line                 int
}

// andConjuncts flattens `a && b && c`
func andConjuncts(e ast.Expr) []ast.Expr {
	switch x := e.(type) {
	case *ast.ParenExpr:
		return andConjuncts(x.X)
	case *ast.BinaryExpr:
		if x.Op == token.LAND {
			return append(andConjuncts(x.X), andConjuncts(x.Y)...)
		}
	}
	return []ast.Expr{e}
}

// genStmtCacheFacts: for every `delete(M, K)` whose M ends in `.Stmts`: is it executed only when the entry
// currently cached under K is the caller's own?  Recognised guards (the delete must sit in the THEN branch of an
// `if` whose condition is a conjunction containing the comparison):
//
//	"entry"  : `cur == &x`       where cur is `M[K]` (directly or bound by `cur, ok := M[K]` in the if-init)
//	"handle" : `cur.Stmt == y.Stmt`
//
// `own` is what identifies the caller's own entry/statement in that function: `&x` for the variable published by
// `M[K] = &x`, else `y.Stmt` for the variable `y` assigned from a `.prepare(…)` call.
func genStmtCacheFacts(o *out, repo string) {
	f, err := parser.ParseFile(fset, filepath.Join(repo, "prepare_stmt.go"), nil, 0)
	if err != nil {
		o.write("StmtCacheFacts", "-- prepare_stmt.go not parseable: facts unknown\n")
		return
	}
	var sites []delSite
	for _, d := range f.Decls {
		fd, ok := d.(*ast.FuncDecl)
		if !ok || fd.Body == nil {
			continue
		}
		name := fd.Name.Name
		if fd.Recv != nil && len(fd.Recv.List) > 0 {
			name = strings.TrimPrefix(src(fd.Recv.List[0].Type), "*") + "." + name
		}
		// what identifies the caller's own entry / statement in this function
		own := ""
		ast.Inspect(fd.Body, func(n ast.Node) bool {
			as, ok := n.(*ast.AssignStmt)
			if !ok || len(as.Lhs) == 0 || len(as.Rhs) != 1 {
				return true
			}
			if ix, ok := as.Lhs[0].(*ast.IndexExpr); ok && strings.HasSuffix(src(ix.X), "Stmts") {
				if u, ok := as.Rhs[0].(*ast.UnaryExpr); ok && u.Op == token.AND {
					own = src(u)
				}
			}
			if c, ok := as.Rhs[0].(*ast.CallExpr); ok && own == "" {
				if sel, ok := c.Fun.(*ast.SelectorExpr); ok && sel.Sel.Name == "prepare" {
					own = src(as.Lhs[0]) + ".Stmt"
				}
			}
			return true
		})
		type frame struct {
			ifs    *ast.IfStmt
			inThen bool
		}
		var visit func(n ast.Node, stack []frame)
		visit = func(n ast.Node, stack []frame) {
			switch x := n.(type) {
			case nil:
				return
			case *ast.IfStmt:
				visit(x.Body, append(append([]frame{}, stack...), frame{x, true}))
				if x.Else != nil {
					visit(x.Else, append(append([]frame{}, stack...), frame{x, false}))
				}
				return
			case *ast.FuncLit:
				return
			case *ast.ExprStmt:
				c, ok := x.X.(*ast.CallExpr)
				if !ok {
					return
				}
				id, ok := c.Fun.(*ast.Ident)
				if !ok || id.Name != "delete" || len(c.Args) != 2 || !strings.HasSuffix(src(c.Args[0]), "Stmts") {
					return
				}
				m, k := src(c.Args[0]), src(c.Args[1])
				site := delSite{fn: name, guard: "none", own: own, line: fset.Position(x.Pos()).Line}
				for i := len(stack) - 1; i >= 0 && site.guard == "none"; i-- {
					fr := stack[i]
					if !fr.inThen {
						continue
					}
					refs := map[string]bool{m + "[" + k + "]": true}
					if as, ok := fr.ifs.Init.(*ast.AssignStmt); ok && len(as.Rhs) == 1 && src(as.Rhs[0]) == m+"["+k+"]" {
						refs[src(as.Lhs[0])] = true
					}
					for _, cj := range andConjuncts(fr.ifs.Cond) {
						be, ok := cj.(*ast.BinaryExpr)
						if !ok || be.Op != token.EQL {
							continue
						}
						for _, pr := range [][2]ast.Expr{{be.X, be.Y}, {be.Y, be.X}} {
							a, b := src(pr[0]), src(pr[1])
							if refs[a] {
								if u, ok := pr[1].(*ast.UnaryExpr); ok && u.Op == token.AND {
									site.guard, site.with = "entry", b
								}
							} else if strings.HasSuffix(a, ".Stmt") && refs[strings.TrimSuffix(a, ".Stmt")] && strings.HasSuffix(b, ".Stmt") {
								site.guard, site.with = "handle", b
							}
						}
					}
				}
				sites = append(sites, site)
				return
			}
			// generic descent over statement containers
			switch x := n.(type) {
			case *ast.BlockStmt:
				for _, st := range x.List {
					visit(st, stack)
				}
			case *ast.ForStmt:
				visit(x.Body, stack)
			case *ast.RangeStmt:
				visit(x.Body, stack)
			case *ast.SwitchStmt:
				visit(x.Body, stack)
			case *ast.CaseClause:
				for _, st := range x.Body {
					visit(st, stack)
				}
			case *ast.LabeledStmt:
				visit(x.Stmt, stack)
			}
		}
		visit(fd.Body, nil)
	}
	var b strings.Builder
	b.WriteString("structure DeleteSite where\n  fn : String\n  line : Nat\n  guard : String\n  guardWith : String\n  own : String\nderiving Repr, DecidableEq\n\n")
	b.WriteString("/-- prepare_stmt.go: every `delete(….Stmts, query)` and whether it is guarded by an identity comparison of the\n    entry cached under `query` (\"entry\": `cur == &x`, \"handle\": `cur.Stmt == y.Stmt`, \"none\") with the caller's own (`own`) -/\ndef deleteSites : List DeleteSite := [\n")
	for i, s := range sites {
		if i > 0 {
			b.WriteString(",\n")
		}
		fmt.Fprintf(&b, "  { fn := %s, line := %d, guard := %s, guardWith := %s, own := %s }", lstr(s.fn), s.line, lstr(s.guard), lstr(s.with), lstr(s.own))
	}
	b.WriteString("\n]\n")
	o.write("StmtCacheFacts", b.String())
	o.facts["stmtCacheDeleteSites"] = len(sites)
}
