package main

// C06 / C07 fact generator: in-place writes through aliased slices (moved out of main.go).

import (
	"fmt"
	"go/ast"
	"go/token"
	"sort"
	"strings"
)

var _ = fmt.Sprintf
var _ = sort.Strings
var _ = strings.Join
var _ token.Pos

func init() {
	extraGens = append(extraGens, func(o *out, pkgs map[string]map[string]*ast.File, all []funcInfo, repo string) {
		genAliasFacts(o, pkgs)
	})
}

// ---- C06 / C07: in-place writes through aliased slices -------------------------------------------
// Dumb syntactic facts about four places where gorm writes (or no longer writes) into a slice it
// shares with a reusable handle or with the caller:
//   statement.go BuildCondition, `case *DB:` arm      — assignments to `where.Exprs[i]`, receiver of executeScopes()
//   clause/where.go Where.Build                         — assignments to `where.Exprs[i]`
//   chainable_api.go Select, `case []string:` arm       — `tx.Statement.Selects = v` (the caller's slice itself)

func caseClauseFor(body ast.Node, typ string) *ast.CaseClause {
	var found *ast.CaseClause
	ast.Inspect(body, func(n ast.Node) bool {
		if found != nil {
			return false
		}
		if cc, ok := n.(*ast.CaseClause); ok {
			for _, e := range cc.List {
				if src(e) == typ {
					found = cc
					return false
				}
			}
		}
		return true
	})
	return found
}

// number of assignment targets of the form `<base>[...]`
func elemAssigns(n ast.Node, base string) int {
	cnt := 0
	ast.Inspect(n, func(x ast.Node) bool {
		if as, ok := x.(*ast.AssignStmt); ok {
			for _, l := range as.Lhs {
				if ix, ok := l.(*ast.IndexExpr); ok && src(ix.X) == base {
					cnt++
				}
			}
		}
		return true
	})
	return cnt
}

func genAliasFacts(o *out, pkgs map[string]map[string]*ast.File) {
	var b strings.Builder
	// BuildCondition, case *DB
	grpAssigns, grpSrc := 0, ""
	var recvs []string
	if bc := findFunc(pkgs["."], "Statement.BuildCondition"); bc != nil {
		if cc := caseClauseFor(bc.Body, "*DB"); cc != nil {
			for _, st := range cc.Body {
				grpAssigns += elemAssigns(st, "where.Exprs")
				grpSrc += src(st) + " ; "
				ast.Inspect(st, func(x ast.Node) bool {
					if c, ok := x.(*ast.CallExpr); ok {
						if sel, ok := c.Fun.(*ast.SelectorExpr); ok && sel.Sel.Name == "executeScopes" {
							recvs = append(recvs, src(sel.X))
						}
					}
					return true
				})
			}
		}
	}
	fmt.Fprintf(&b, "/-- statement.go `BuildCondition`, arm `case *DB:` — assignments to `where.Exprs[i]` (the ARGUMENT handle's array) -/\ndef groupArmElemAssigns : Nat := %d\n\n", grpAssigns)
	fmt.Fprintf(&b, "/-- … receivers of the `executeScopes()` calls in that arm (`v` = the argument handle itself) -/\ndef groupArmScopesRecv : List String := %s\n\n", lstrs(recvs))
	fmt.Fprintf(&b, "def groupArmSrc : String := %s\n\n", lstr(grpSrc))
	// Where.Build
	wbAssigns, wbSrc := 0, ""
	if wb := findFunc(pkgs["clause"], "Where.Build"); wb != nil {
		wbAssigns = elemAssigns(wb.Body, "where.Exprs")
		wbSrc = src(wb.Body)
	}
	fmt.Fprintf(&b, "/-- clause/where.go `Where.Build` — assignments to `where.Exprs[i]` (the array shared with the handle's clause) -/\ndef whereBuildElemAssigns : Nat := %d\n\n", wbAssigns)
	fmt.Fprintf(&b, "def whereBuildSrc : String := %s\n\n", lstr(wbSrc))
	// Select, case []string
	stores, selSrc := 0, ""
	if sel := findFunc(pkgs["."], "DB.Select"); sel != nil {
		var ts *ast.TypeSwitchStmt
		ast.Inspect(sel.Body, func(n ast.Node) bool {
			if t, ok := n.(*ast.TypeSwitchStmt); ok && ts == nil {
				ts = t
				return false
			}
			return true
		})
		bound := ""
		if ts != nil {
			if as, ok := ts.Assign.(*ast.AssignStmt); ok && len(as.Lhs) == 1 {
				bound = src(as.Lhs[0])
			}
			if cc := caseClauseFor(ts.Body, "[]string"); cc != nil {
				for _, st := range cc.Body {
					if as, ok := st.(*ast.AssignStmt); ok && len(as.Lhs) == 1 && len(as.Rhs) == 1 &&
						strings.HasSuffix(src(as.Lhs[0]), ".Selects") && src(as.Rhs[0]) == bound && bound != "" {
						stores++
					}
					if _, isFor := st.(*ast.ForStmt); !isFor {
						if _, isRange := st.(*ast.RangeStmt); !isRange {
							if _, isIf := st.(*ast.IfStmt); !isIf {
								selSrc += src(st) + " ; "
							}
						}
					}
				}
			}
		}
	}
	fmt.Fprintf(&b, "/-- chainable_api.go `Select`, arm `case []string:` — statements `X.Selects = v` storing the caller's slice itself -/\ndef selectArmStoresArg : Nat := %d\n\n", stores)
	fmt.Fprintf(&b, "def selectArmSrc : String := %s\n", lstr(selSrc))
	o.write("AliasFacts", b.String())
}
