package main

// C04 fact generator: one syntactic fact about finisher_api.go that tells whether the repair of finding
// F27-C04-begin-on-failed-handle is present in the tree that is being verified.
//
//	beginChecksError : DB.Begin contains, at the top level of its body and BEFORE the first statement that mentions
//	                   `BeginTx` (the type switch over Statement.ConnPool), an `if` whose condition is
//	                   `tx.Error != nil` (either operand order; `tx` = the variable assigned from the
//	                   `….Session(…)` call) and whose body returns: a handle that already carries an error is handed
//	                   back before the pool is touched.
//
// The fact only selects which transcription of Begin the Lean model uses (Model/Tx.lean `gormBegin`, through
// `Cfg.beginGuard`); whether the code behaves like the selected transcription is judged by the tie on every run.

import (
	"go/ast"
	"go/token"
	"strings"
)

func init() {
	extraGens = append(extraGens, func(o *out, pkgs map[string]map[string]*ast.File, all []funcInfo, repo string) {
		genBeginFacts(o, pkgs["."])
	})
}

func c04Mentions(n ast.Node, name string) bool {
	found := false
	ast.Inspect(n, func(m ast.Node) bool {
		if id, ok := m.(*ast.Ident); ok && id.Name == name {
			found = true
		}
		return true
	})
	return found
}

func c04ReturnsDirectly(b *ast.BlockStmt) bool {
	for _, st := range b.List {
		if _, ok := st.(*ast.ReturnStmt); ok {
			return true
		}
	}
	return false
}

func genBeginFacts(o *out, root map[string]*ast.File) {
	found, checks := false, false
	var fd *ast.FuncDecl
	for _, f := range root {
		for _, d := range f.Decls {
			x, ok := d.(*ast.FuncDecl)
			if !ok || x.Body == nil || x.Name.Name != "Begin" || x.Recv == nil || len(x.Recv.List) != 1 {
				continue
			}
			if strings.TrimPrefix(src(x.Recv.List[0].Type), "*") == "DB" {
				fd = x
			}
		}
	}
	if fd != nil {
		found = true
		// the variable(s) initialised from a `….Session(…)` call: the new handle
		handles := map[string]bool{}
		ast.Inspect(fd.Body, func(n ast.Node) bool {
			switch v := n.(type) {
			case *ast.ValueSpec:
				for i, val := range v.Values {
					if call, ok := val.(*ast.CallExpr); ok {
						if sel, ok := call.Fun.(*ast.SelectorExpr); ok && sel.Sel.Name == "Session" && i < len(v.Names) {
							handles[v.Names[i].Name] = true
						}
					}
				}
			case *ast.AssignStmt:
				for i, val := range v.Rhs {
					if call, ok := val.(*ast.CallExpr); ok {
						if sel, ok := call.Fun.(*ast.SelectorExpr); ok && sel.Sel.Name == "Session" && i < len(v.Lhs) {
							if id, ok := v.Lhs[i].(*ast.Ident); ok {
								handles[id.Name] = true
							}
						}
					}
				}
			}
			return true
		})
		for _, st := range fd.Body.List {
			if c04Mentions(st, "BeginTx") {
				break
			}
			is, ok := st.(*ast.IfStmt)
			if !ok || is.Init != nil {
				continue
			}
			be, ok := is.Cond.(*ast.BinaryExpr)
			if !ok || be.Op != token.NEQ {
				continue
			}
			x, y := src(be.X), src(be.Y)
			if y != "nil" {
				x, y = y, x
			}
			if y != "nil" || !strings.HasSuffix(x, ".Error") || !handles[strings.TrimSuffix(x, ".Error")] {
				continue
			}
			if c04ReturnsDirectly(is.Body) {
				checks = true
			}
		}
	}
	var b strings.Builder
	b.WriteString("/-- finisher_api.go has a method DB.Begin -/\n")
	b.WriteString("def beginFound : Bool := " + lbool(found) + "\n\n")
	b.WriteString("/-- … which, before it touches the pool (first statement mentioning BeginTx), has `if tx.Error != nil { … return … }` on the\n    handle it made with Session: Begin through a handle that carries an error opens no transaction (repair of\n    F27-C04-begin-on-failed-handle) -/\n")
	b.WriteString("def beginChecksError : Bool := " + lbool(checks) + "\n")
	o.write("BeginFacts", b.String())
	o.facts["beginChecksError"] = checks
}
