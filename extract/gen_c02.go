package main

// C02 fact generator (round 4) → Gen/CondKeyFacts.lean
//
// (1) statement.go `Statement.BuildCondition`, `case map[string]interface{}`: the arm `case reflect.Slice, reflect.Array` of the
//     switch on `reflectValue.Kind()`.  A value of slice / array kind is ONE scalar when its type is a Valuer:
//
//	mapSliceArmFound       : the arm exists
//	mapSliceArmGuards      : the interface types T of the leading if / else-if chain `if _, ok := v[key].(T); ok { … clause.Eq … }`
//	                         whose branches build a clause.Eq and NO clause.IN, in source order (today: driver.Valuer, Valuer)
//	mapSliceArmInOnlyInElse: every `clause.IN` composite literal of the arm lies in the final else branch of that chain
//
// (2) callbacks/update.go `ConvertToAssignments`: the block that turns the model value's primary key into WHERE conditions
//     must run BEFORE the first assignment writes a new value into the model (`assignValue(…)` calls `field.Set` on
//     `stmt.ReflectValue`):
//
//	updateKeyBlockFound            : a top-level statement of the function body reads `stmt.Schema.PrimaryFields` /
//	                                 `PrimaryFieldDBNames` and calls `stmt.AddClause(clause.Where{…})`
//	updateKeyBlockBeforeAssignments: it precedes every top-level statement that contains a CALL `assignValue(…)`
//	                                 (the closure definitions `assignValue = func…` are not calls)
//	updateAssignCallsFound         : there is at least one such call
//
// The facts select / parametrise the Lean transcriptions (Model/CondValue.lean `mapArm`, Model/UpdateKeys.lean
// `updConvertToAssignments`); whether the code behaves like the selected transcription is judged by the correspondence suites
// val.dispatch and rekey.tie on every run.

import (
	"go/ast"
	"strings"
)

func init() {
	extraGens = append(extraGens, func(o *out, pkgs map[string]map[string]*ast.File, all []funcInfo, repo string) {
		c02Gen(o, pkgs)
	})
}

func c02HasComposite(n ast.Node, name string) bool {
	found := false
	if n == nil {
		return false
	}
	ast.Inspect(n, func(m ast.Node) bool {
		if cl, ok := m.(*ast.CompositeLit); ok && strings.TrimSpace(src(cl.Type)) == name {
			found = true
		}
		return true
	})
	return found
}

func c02Gen(o *out, pkgs map[string]map[string]*ast.File) {
	armFound, inOnlyElse := false, false
	var guards []string
	for _, f := range pkgs["."] {
		for _, d := range f.Decls {
			fd, ok := d.(*ast.FuncDecl)
			if !ok || fd.Recv == nil || fd.Name.Name != "BuildCondition" || fd.Body == nil {
				continue
			}
			ast.Inspect(fd.Body, func(n ast.Node) bool {
				cc, ok := n.(*ast.CaseClause)
				if !ok || len(cc.List) != 1 || strings.ReplaceAll(src(cc.List[0]), " ", "") != "map[string]interface{}" {
					return true
				}
				// the switch on reflectValue.Kind()
				ast.Inspect(cc, func(m ast.Node) bool {
					kc, ok := m.(*ast.CaseClause)
					if !ok || kc == cc {
						return true
					}
					isArm := false
					for _, e := range kc.List {
						if s := src(e); s == "reflect.Slice" || s == "reflect.Array" {
							isArm = true
						}
					}
					if !isArm || armFound {
						return true
					}
					armFound = true
					// the leading if / else-if chain
					var chain *ast.IfStmt
					for _, st := range kc.Body {
						if is, ok := st.(*ast.IfStmt); ok {
							chain = is
							break
						}
						if c02HasComposite(st, "clause.IN") {
							break // an IN is built before any guard
						}
					}
					var last ast.Stmt
					for is := chain; is != nil; {
						t := ""
						if as, ok := is.Init.(*ast.AssignStmt); ok && len(as.Rhs) == 1 {
							if ta, ok := as.Rhs[0].(*ast.TypeAssertExpr); ok && strings.ReplaceAll(src(ta.X), " ", "") == "v[key]" && src(is.Cond) == "ok" {
								t = src(ta.Type)
							}
						}
						if t != "" && c02HasComposite(is.Body, "clause.Eq") && !c02HasComposite(is.Body, "clause.IN") {
							guards = append(guards, t)
						}
						last = is.Else
						next, _ := is.Else.(*ast.IfStmt)
						is = next
					}
					// every clause.IN of the arm sits in the final else
					total, inElse := 0, 0
					for _, st := range kc.Body {
						ast.Inspect(st, func(x ast.Node) bool {
							if cl, ok := x.(*ast.CompositeLit); ok && src(cl.Type) == "clause.IN" {
								total++
							}
							return true
						})
					}
					if last != nil {
						ast.Inspect(last, func(x ast.Node) bool {
							if cl, ok := x.(*ast.CompositeLit); ok && src(cl.Type) == "clause.IN" {
								inElse++
							}
							return true
						})
					}
					inOnlyElse = chain != nil && total > 0 && total == inElse
					return true
				})
				return true
			})
		}
	}

	keyFound, keyFirst, callsFound := false, false, false
	for _, f := range pkgs["callbacks"] {
		for _, d := range f.Decls {
			fd, ok := d.(*ast.FuncDecl)
			if !ok || fd.Recv != nil || fd.Name.Name != "ConvertToAssignments" || fd.Body == nil {
				continue
			}
			keyIdx, firstCall := -1, -1
			for i, st := range fd.Body.List {
				s := src(st)
				if keyIdx < 0 && strings.Contains(s, "stmt.Schema.PrimaryField") && strings.Contains(s, "stmt.AddClause(clause.Where{") && !c02CallsAssign(st) {
					keyIdx = i
				}
				if firstCall < 0 && c02CallsAssign(st) {
					firstCall = i
				}
			}
			keyFound = keyIdx >= 0
			callsFound = firstCall >= 0
			keyFirst = keyFound && callsFound && keyIdx < firstCall
		}
	}

	var b strings.Builder
	b.WriteString("/-- statement.go BuildCondition, `case map[string]interface{}`: the arm `case reflect.Slice, reflect.Array` exists -/\n")
	b.WriteString("def mapSliceArmFound : Bool := " + lbool(armFound) + "\n\n")
	b.WriteString("/-- … and starts with `if _, ok := v[key].(T); ok { clause.Eq }` guards for these interface types (source order) -/\n")
	b.WriteString("def mapSliceArmGuards : List String := [")
	for i, g := range guards {
		if i > 0 {
			b.WriteString(", ")
		}
		b.WriteString("\"" + g + "\"")
	}
	b.WriteString("]\n\n")
	b.WriteString("/-- … and builds its `clause.IN` only in the final else branch of that chain -/\n")
	b.WriteString("def mapSliceArmInOnlyInElse : Bool := " + lbool(inOnlyElse) + "\n\n")
	b.WriteString("/-- callbacks/update.go ConvertToAssignments: the top-level block that turns the model value's primary key into WHERE conditions -/\n")
	b.WriteString("def updateKeyBlockFound : Bool := " + lbool(keyFound) + "\n\n")
	b.WriteString("/-- … there are top-level statements that CALL `assignValue(…)` (write new values into the model value) -/\n")
	b.WriteString("def updateAssignCallsFound : Bool := " + lbool(callsFound) + "\n\n")
	b.WriteString("/-- … and the key block precedes all of them: the key is read BEFORE any assignment touches the model value -/\n")
	b.WriteString("def updateKeyBlockBeforeAssignments : Bool := " + lbool(keyFirst) + "\n")
	o.write("CondKeyFacts", b.String())
	o.facts["c02CondKeyFacts"] = map[string]interface{}{"mapSliceArmGuards": guards, "mapSliceArmInOnlyInElse": inOnlyElse,
		"updateKeyBlockBeforeAssignments": keyFirst}
}

// c02CallsAssign: does the statement contain a CALL of the identifier assignValue?
func c02CallsAssign(st ast.Stmt) bool {
	found := false
	ast.Inspect(st, func(n ast.Node) bool {
		if c, ok := n.(*ast.CallExpr); ok {
			if id, ok := c.Fun.(*ast.Ident); ok && id.Name == "assignValue" {
				found = true
			}
		}
		return true
	})
	return found
}
