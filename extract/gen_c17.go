package main

// C17 fact generator: which repairs of callbacks.go sortCallbacks are present in the tree (syntactic).
//
//   sortDepthGuard      (F12) the recursive closure `sortCallback` starts with
//                             `if depth++; depth > 2*len(cs)+2 { return <non-nil error> }` followed by
//                             `defer func() { depth-- }()`
//   sortWorksOnCopies   (F20) between the sort.SliceStable pre-pass and the closure, `cs` is rebound to a fresh
//                             slice (`cs = append([]*callback(nil), cs...)`) whose elements are then replaced by
//                             pointers to copies (`for i, c := range cs { x := *c; cs[i] = &x }`)
//   sortStarOrder       (F19) the comparator of the pre-pass is `return !star(cs[i]) && star(cs[j])` with
//                             `star := func(c *callback) bool { return c.before == "*" || c.after == "*" }`
//
// Anything else (a different bound, copies made before the pre-pass, another comparator) leaves the flag false: the
// Lean model then follows the ORIGINAL code and the differential suite reports the difference.

import (
	"go/ast"
	"go/token"
	"strings"
)

func init() {
	extraGens = append(extraGens, func(o *out, pkgs map[string]map[string]*ast.File, all []funcInfo, repo string) {
		genCallbackFacts(o, pkgs["."])
	})
}

func genCallbackFacts(o *out, root map[string]*ast.File) {
	fd := findFunc(root, "sortCallbacks")
	found, guard, copies, star, origCmp := false, false, false, false, false
	if fd != nil && fd.Body != nil {
		found = true
		stmts := fd.Body.List
		iSort, iClosure := -1, -1
		var closure *ast.FuncLit
		var cmp *ast.FuncLit
		for i, st := range stmts {
			if es, ok := st.(*ast.ExprStmt); ok && iSort < 0 {
				if call, ok := es.X.(*ast.CallExpr); ok && src(call.Fun) == "sort.SliceStable" && len(call.Args) == 2 && src(call.Args[0]) == "cs" {
					if fl, ok := call.Args[1].(*ast.FuncLit); ok {
						iSort, cmp = i, fl
					}
				}
			}
			if as, ok := st.(*ast.AssignStmt); ok && as.Tok == token.ASSIGN && len(as.Lhs) == 1 && src(as.Lhs[0]) == "sortCallback" && len(as.Rhs) == 1 {
				if fl, ok := as.Rhs[0].(*ast.FuncLit); ok && iClosure < 0 {
					iClosure, closure = i, fl
				}
			}
		}
		// F19: comparator
		if cmp != nil {
			body := src(cmp.Body)
			origCmp = body == `{ if cs[j].before == "*" && cs[i].before != "*" { return true } if cs[j].after == "*" && cs[i].after != "*" { return true } return false }`
			if body == "{ return !star(cs[i]) && star(cs[j]) }" {
				for _, st := range stmts[:iSort] {
					if src(st) == `star := func(c *callback) bool { return c.before == "*" || c.after == "*" }` {
						star = true
					}
				}
			}
		}
		// F20: copies between the pre-pass and the closure
		if iSort >= 0 && iClosure > iSort {
			fresh := -1
			for i := iSort + 1; i < iClosure; i++ {
				st := stmts[i]
				if src(st) == "cs = append([]*callback(nil), cs...)" && fresh < 0 {
					fresh = i
				}
				if rs, ok := st.(*ast.RangeStmt); ok && fresh >= 0 && i > fresh && src(rs.X) == "cs" && rs.Tok == token.DEFINE &&
					rs.Key != nil && rs.Value != nil && len(rs.Body.List) == 2 {
					k, v := src(rs.Key), src(rs.Value)
					d, ok1 := rs.Body.List[0].(*ast.AssignStmt)
					a, ok2 := rs.Body.List[1].(*ast.AssignStmt)
					if ok1 && ok2 && d.Tok == token.DEFINE && len(d.Lhs) == 1 && len(d.Rhs) == 1 && src(d.Rhs[0]) == "*"+v &&
						a.Tok == token.ASSIGN && len(a.Lhs) == 1 && len(a.Rhs) == 1 &&
						src(a.Lhs[0]) == "cs["+k+"]" && src(a.Rhs[0]) == "&"+src(d.Lhs[0]) {
						copies = true
					}
				}
			}
		}
		// F12: depth guard at the head of the closure; `depth` is a local of sortCallbacks that starts at 0
		if closure != nil && len(closure.Body.List) >= 2 {
			declared := false
			for _, st := range stmts[:iClosure] {
				s := src(st)
				if s == "depth := 0" || s == "var depth int" {
					declared = true
				}
				if ds, ok := st.(*ast.DeclStmt); ok {
					if gd, ok := ds.Decl.(*ast.GenDecl); ok && gd.Tok == token.VAR {
						for _, sp := range gd.Specs {
							if vs, ok := sp.(*ast.ValueSpec); ok && len(vs.Values) == 0 && src(vs.Type) == "int" {
								for _, n := range vs.Names {
									if n.Name == "depth" {
										declared = true
									}
								}
							}
						}
					}
				}
			}
			ifs, ok1 := closure.Body.List[0].(*ast.IfStmt)
			df, ok2 := closure.Body.List[1].(*ast.DeferStmt)
			if declared && ok1 && ok2 && ifs.Init != nil && src(ifs.Init) == "depth++" && ifs.Else == nil &&
				strings.ReplaceAll(src(ifs.Cond), " ", "") == "depth>2*len(cs)+2" && len(ifs.Body.List) == 1 {
				if rs, ok := ifs.Body.List[0].(*ast.ReturnStmt); ok && len(rs.Results) == 1 && src(rs.Results[0]) != "nil" &&
					strings.ReplaceAll(src(df.Call), " ", "") == "func(){depth--}()" {
					// `depth` must not be written anywhere else
					writes := 0
					ast.Inspect(fd.Body, func(n ast.Node) bool {
						switch x := n.(type) {
						case *ast.IncDecStmt:
							if src(x.X) == "depth" {
								writes++
							}
						case *ast.AssignStmt:
							for _, l := range x.Lhs {
								if src(l) == "depth" {
									writes++
								}
							}
						}
						return true
					})
					guard = writes <= 3 // the declaration `depth := 0`, `depth++`, `depth--`
				}
			}
		}
	}
	var b strings.Builder
	b.WriteString("/-- callbacks.go has a function `sortCallbacks` -/\n")
	b.WriteString("def sortCallbacksFound : Bool := " + lbool(found) + "\n\n")
	b.WriteString("/-- F12: the recursive closure starts with `if depth++; depth > 2*len(cs)+2 { return <error> }` and\n    `defer func() { depth-- }()` (`depth` a local counter starting at 0, written nowhere else) -/\n")
	b.WriteString("def sortDepthGuard : Bool := " + lbool(guard) + "\n\n")
	b.WriteString("/-- F20: after the sort.SliceStable pre-pass `cs` is rebound to a fresh slice of pointers to COPIES of the records -/\n")
	b.WriteString("def sortWorksOnCopies : Bool := " + lbool(copies) + "\n\n")
	b.WriteString("/-- F19: the pre-pass comparator is `!star(cs[i]) && star(cs[j])`, star(c) = c.before == \"*\" || c.after == \"*\" -/\n")
	b.WriteString("def sortStarOrder : Bool := " + lbool(star) + "\n\n")
	b.WriteString("/-- the pre-pass comparator is the original one (two `if … \"*\" …` tests) -/\n")
	b.WriteString("def sortOriginalComparator : Bool := " + lbool(origCmp) + "\n")
	o.write("CallbackFacts", b.String())
	o.facts["sortDepthGuard"] = guard
	o.facts["sortWorksOnCopies"] = copies
	o.facts["sortStarOrder"] = star
}
