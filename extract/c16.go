package main

// C16: writes to a *DB's Statement inside the finisher methods (finisher_api.go).
//
// A handle produced by Session(&Session{}) / WithContext shares ONE Statement between every chain started from it
// (gorm.go getInstance clones it on the next derivation). A finisher that assigns a field of — or calls a mutating
// method on — the Statement of its RECEIVER therefore changes every later use of that handle. The table lists every
// such write with the origin of the variable it goes through: `recv` (the receiver itself or an alias of it) or the
// first method of the call chain that produced the variable (`recv.getInstance`, `recv.Session`, `recv.Limit` …).
// Dumb by design: names only, flow-insensitive union of the origins a variable was ever given before the write.

import (
	"fmt"
	"go/ast"
	"go/token"
	"sort"
	"strings"
)

var c16StmtMutators = map[string]string{
	"AddClause": "Clauses", "AddClauseIfNotExists": "Clauses", "Parse": "Schema", "ParseWithSpecialTableName": "Schema",
	"AddVar": "Vars", "WriteString": "SQL", "WriteByte": "SQL", "WriteQuoted": "SQL", "Build": "SQL", "SetColumn": "Dest",
}

// callRoot: for `a.M1(..).M2(..)` returns ("a", "M1"); for a bare identifier ("a", "")
func c16CallRoot(e ast.Expr) (root, first string, ok bool) {
	for {
		switch x := e.(type) {
		case *ast.ParenExpr:
			e = x.X
		case *ast.Ident:
			return x.Name, first, true
		case *ast.CallExpr:
			sel, isSel := x.Fun.(*ast.SelectorExpr)
			if !isSel {
				return "", "", false
			}
			first = sel.Sel.Name
			e = sel.X
		case *ast.SelectorExpr:
			// field access inside the chain (`tx.callbacks.Create().Execute(..)`): keep walking, the method stays
			if first == "" {
				first = "." + x.Sel.Name
			}
			e = x.X
		default:
			return "", "", false
		}
	}
}

func genFinisherWrites(o *out, root map[string]*ast.File) {
	type site struct {
		fn, base, origin, field, how string
		recv                         bool
	}
	var sites []site
	var names []string
	for name := range root {
		names = append(names, name)
	}
	sort.Strings(names)
	for _, name := range names {
		if !strings.HasSuffix(name, "finisher_api.go") {
			continue
		}
		for _, d := range root[name].Decls {
			fd, ok := d.(*ast.FuncDecl)
			if !ok || fd.Recv == nil || fd.Body == nil || len(fd.Recv.List) != 1 || len(fd.Recv.List[0].Names) != 1 {
				continue
			}
			if !strings.Contains(src(fd.Recv.List[0].Type), "DB") {
				continue
			}
			fn := "DB." + fd.Name.Name
			recv := fd.Recv.List[0].Names[0].Name
			origins := map[string][]string{recv: {"recv"}}
			addOrigin := func(v, o string) {
				for _, x := range origins[v] {
					if x == o {
						return
					}
				}
				origins[v] = append(origins[v], o)
			}
			describe := func(rhs ast.Expr) []string {
				r, first, ok := c16CallRoot(rhs)
				if !ok {
					return []string{"other"}
				}
				ro, known := origins[r]
				if !known {
					return []string{"other"}
				}
				if first == "" {
					return ro // alias
				}
				var out []string
				for _, x := range ro {
					out = append(out, x+"."+first)
				}
				return out
			}
			record := func(base, field, how string) {
				os := origins[base]
				if len(os) == 0 {
					os = []string{"unknown"}
				}
				isRecv := false
				for _, x := range os {
					if x == "recv" {
						isRecv = true
					}
				}
				sites = append(sites, site{fn, base, strings.Join(os, "|"), field, how, isRecv})
			}
			target := func(e ast.Expr, how string) {
				base, path, _, _, ok := lhsParts(e)
				if !ok {
					return
				}
				segs := strings.Split(path, ".")
				if segs[0] != "Statement" {
					return
				}
				field := "Statement"
				if len(segs) > 1 {
					field = segs[1]
				}
				record(base, field, how)
			}
			ast.Inspect(fd.Body, func(n ast.Node) bool {
				switch x := n.(type) {
				case *ast.AssignStmt:
					for _, l := range x.Lhs {
						target(l, "assign")
					}
					if len(x.Lhs) == len(x.Rhs) {
						for i, l := range x.Lhs {
							if id, ok := l.(*ast.Ident); ok && id.Name != "_" {
								for _, o := range describe(x.Rhs[i]) {
									addOrigin(id.Name, o)
								}
							}
						}
					} else {
						for _, l := range x.Lhs {
							if id, ok := l.(*ast.Ident); ok && id.Name != "_" && x.Tok == token.DEFINE {
								addOrigin(id.Name, "other")
							}
						}
					}
				case *ast.IncDecStmt:
					target(x.X, "incdec")
				case *ast.CallExpr:
					if id, ok := x.Fun.(*ast.Ident); ok && id.Name == "delete" && len(x.Args) > 0 {
						target(x.Args[0], "delete")
					}
					if sel, ok := x.Fun.(*ast.SelectorExpr); ok {
						if fld, mut := c16StmtMutators[sel.Sel.Name]; mut {
							if inner, ok := sel.X.(*ast.SelectorExpr); ok && inner.Sel.Name == "Statement" {
								if id, ok := inner.X.(*ast.Ident); ok {
									record(id.Name, fld, "call:"+sel.Sel.Name)
								}
							}
						}
					}
				}
				return true
			})
		}
	}
	var b strings.Builder
	b.WriteString("structure StmtWrite where\n  fn : String\n  base : String\n  origin : String\n  recv : Bool\n  field : String\n  how : String\nderiving Repr, DecidableEq\n\n")
	b.WriteString("/-- finisher_api.go: every assignment to / mutating call on `<var>.Statement…` inside a method of *DB; `recv` = the variable is the receiver (or an alias) -/\ndef finisherStmtWrites : List StmtWrite := [\n")
	for i, s := range sites {
		sep := ","
		if i == len(sites)-1 {
			sep = ""
		}
		b.WriteString(fmt.Sprintf("  { fn := %s, base := %s, origin := %s, recv := %s, field := %s, how := %s }%s\n",
			lstr(s.fn), lstr(s.base), lstr(s.origin), lbool(s.recv), lstr(s.field), lstr(s.how), sep))
	}
	b.WriteString("]\n")
	o.write("FinisherWrites", b.String())
	o.facts["finisherStmtWrites"] = len(sites)
}
