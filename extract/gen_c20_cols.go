package main

// C20 round-4 fact generator -> Gen/MigrateColsFacts.lean
//
//   migColumnLoops    every `range` statement of package migrator (non-test code) whose body calls AddColumn, MigrateColumn
//                     or FullDataTypeOf: enclosing function, the ranged expression, the loop variables, every `field := …`
//                     definition inside the body, and the argument texts of those calls.  (One decision per COLUMN: the loops
//                     must range over Schema.DBNames and read the column's owner from Schema.FieldsByDBName.)
//   migUniqueRange    the ranged expression(s) of schema/constraint.go ParseUniqueConstraints / ParseCheckConstraints
//   guessReturns      the return statements of GuessConstraintInterfaceAndTable outside the getTable closure, in source
//                     order: (constraint expression, table expression)
//   guessGetTable     the getTable closure: (case list | "default", returned expression)
//   stmtTableSplit    the statements of gorm.Statement.ParseWithSpecialTableName and DB.Table that assign Statement.Table
//                     under a `strings.Split(…, ".")` condition: (function, condition, assigned expression)
//   uniqueNameArgs    the first argument of every NamingStrategy.UniqueName / CheckerName / IndexName call of packages
//                     migrator and schema: (function, namer method, table argument)

import (
	"go/ast"
	"sort"
	"strings"
)

func init() {
	extraGens = append(extraGens, func(o *out, pkgs map[string]map[string]*ast.File, all []funcInfo, repo string) {
		genC20Cols(o, pkgs)
	})
}

func c20SortedFiles(files map[string]*ast.File) []string {
	var names []string
	for n := range files {
		if !strings.HasSuffix(n, "_test.go") {
			names = append(names, n)
		}
	}
	sort.Strings(names)
	return names
}

func c20CallName(ce *ast.CallExpr) string {
	switch f := ce.Fun.(type) {
	case *ast.SelectorExpr:
		return f.Sel.Name
	case *ast.Ident:
		return f.Name
	}
	return ""
}

func genC20Cols(o *out, pkgs map[string]map[string]*ast.File) {
	var b strings.Builder
	// ---- column loops
	type loop struct {
		fn, over, key, val string
		fields            []string
		calls             []string
	}
	var loops []loop
	mig := pkgs["migrator"]
	for _, fname := range c20SortedFiles(mig) {
		for _, d := range mig[fname].Decls {
			fd, ok := d.(*ast.FuncDecl)
			if !ok || fd.Body == nil {
				continue
			}
			ast.Inspect(fd.Body, func(n ast.Node) bool {
				rs, ok := n.(*ast.RangeStmt)
				if !ok {
					return true
				}
				var calls, fields []string
				ast.Inspect(rs.Body, func(m ast.Node) bool {
					switch x := m.(type) {
					case *ast.RangeStmt:
						return false // a nested loop is a site of its own
					case *ast.CallExpr:
						switch nm := c20CallName(x); nm {
						case "AddColumn", "MigrateColumn", "FullDataTypeOf":
							var args []string
							for _, a := range x.Args {
								args = append(args, src(a))
							}
							calls = append(calls, nm+"("+strings.Join(args, ", ")+")")
						}
					case *ast.AssignStmt:
						for i, l := range x.Lhs {
							if id, ok := l.(*ast.Ident); ok && id.Name == "field" && i < len(x.Rhs) {
								fields = append(fields, src(x.Rhs[i]))
							}
						}
					case *ast.ValueSpec:
						for i, id := range x.Names {
							if id.Name == "field" && i < len(x.Values) {
								fields = append(fields, src(x.Values[i]))
							}
						}
					}
					return true
				})
				if len(calls) == 0 {
					return true
				}
				k, v := "", ""
				if rs.Key != nil {
					k = src(rs.Key)
				}
				if rs.Value != nil {
					v = src(rs.Value)
				}
				loops = append(loops, loop{fd.Name.Name, src(rs.X), k, v, fields, calls})
				return true
			})
		}
	}
	b.WriteString(`structure ColLoop where
  fn : String            -- enclosing top-level function
  over : String          -- the ranged expression
  key : String
  val : String
  fields : List String   -- right-hand sides of every definition of a variable named field inside the body
  calls : List String    -- AddColumn / MigrateColumn / FullDataTypeOf calls inside the body, with argument texts
deriving Repr, DecidableEq

def migColumnLoops : List ColLoop := [
`)
	for i, l := range loops {
		sep := ","
		if i == len(loops)-1 {
			sep = ""
		}
		b.WriteString("  { fn := " + lstr(l.fn) + ", over := " + lstr(l.over) + ", key := " + lstr(l.key) + ", val := " + lstr(l.val) +
			", fields := " + lstrs(l.fields) + ", calls := " + lstrs(l.calls) + " }" + sep + "\n")
	}
	b.WriteString("]\n\n")

	// ---- ranges of the constraint parsers
	var ranges [][2]string
	sch := pkgs["schema"]
	for _, fname := range c20SortedFiles(sch) {
		for _, d := range sch[fname].Decls {
			fd, ok := d.(*ast.FuncDecl)
			if !ok || fd.Body == nil || (fd.Name.Name != "ParseUniqueConstraints" && fd.Name.Name != "ParseCheckConstraints") {
				continue
			}
			ast.Inspect(fd.Body, func(n ast.Node) bool {
				if rs, ok := n.(*ast.RangeStmt); ok {
					ranges = append(ranges, [2]string{fd.Name.Name, src(rs.X)})
				}
				return true
			})
		}
	}
	sort.Slice(ranges, func(i, j int) bool { return ranges[i][0]+ranges[i][1] < ranges[j][0]+ranges[j][1] })
	pairs := func(name, doc string, xs [][2]string) {
		b.WriteString("/-- " + doc + " -/\ndef " + name + " : List (String × String) := [")
		for i, x := range xs {
			if i > 0 {
				b.WriteString(", ")
			}
			b.WriteString("(" + lstr(x[0]) + ", " + lstr(x[1]) + ")")
		}
		b.WriteString("]\n\n")
	}
	pairs("migConstraintRanges", "(parser, ranged expression) of schema/constraint.go", ranges)

	// ---- GuessConstraintInterfaceAndTable
	var rets, arms [][2]string
	for _, fname := range c20SortedFiles(mig) {
		for _, d := range mig[fname].Decls {
			fd, ok := d.(*ast.FuncDecl)
			if !ok || fd.Body == nil || fd.Name.Name != "GuessConstraintInterfaceAndTable" {
				continue
			}
			var lits []*ast.FuncLit
			ast.Inspect(fd.Body, func(n ast.Node) bool {
				if fl, ok := n.(*ast.FuncLit); ok {
					lits = append(lits, fl)
					return false
				}
				if r, ok := n.(*ast.ReturnStmt); ok {
					if len(r.Results) == 2 {
						rets = append(rets, [2]string{src(r.Results[0]), src(r.Results[1])})
					} else {
						rets = append(rets, [2]string{"?", "?"})
					}
				}
				return true
			})
			for _, fl := range lits {
				for _, st := range fl.Body.List {
					switch x := st.(type) {
					case *ast.SwitchStmt:
						for _, c := range x.Body.List {
							cc := c.(*ast.CaseClause)
							var cs []string
							for _, e := range cc.List {
								cs = append(cs, src(e))
							}
							label := strings.Join(cs, ", ")
							if cc.List == nil {
								label = "default"
							}
							got := false
							for _, s := range cc.Body {
								if r, ok := s.(*ast.ReturnStmt); ok && len(r.Results) == 1 {
									arms = append(arms, [2]string{label, src(r.Results[0])})
									got = true
								}
							}
							if !got {
								arms = append(arms, [2]string{label, "?"})
							}
						}
					case *ast.ReturnStmt:
						if len(x.Results) == 1 {
							arms = append(arms, [2]string{"default", src(x.Results[0])})
						}
					default:
						arms = append(arms, [2]string{"?", src(st)})
					}
				}
			}
		}
	}
	pairs("guessReturns", "return statements of GuessConstraintInterfaceAndTable (outside closures), in source order: (constraint, table)", rets)
	pairs("guessGetTable", "the getTable closure: (switch case | default, returned table)", arms)

	// ---- Statement.Table under a strings.Split(…, \".\") condition
	var splits [][]string
	root := pkgs["."]
	for _, fname := range c20SortedFiles(root) {
		for _, d := range root[fname].Decls {
			fd, ok := d.(*ast.FuncDecl)
			if !ok || fd.Body == nil || (fd.Name.Name != "ParseWithSpecialTableName" && fd.Name.Name != "Table") {
				continue
			}
			ast.Inspect(fd.Body, func(n ast.Node) bool {
				is, ok := n.(*ast.IfStmt)
				if !ok || is.Init == nil || !strings.Contains(src(is.Init), "strings.Split(") {
					return true
				}
				for _, s := range is.Body.List {
					if as, ok := s.(*ast.AssignStmt); ok && len(as.Lhs) == 1 && strings.HasSuffix(src(as.Lhs[0]), ".Table") {
						splits = append(splits, []string{fd.Name.Name, src(is.Init) + "; " + src(is.Cond), src(as.Rhs[0])})
					}
				}
				return true
			})
		}
	}
	b.WriteString("/-- (function, `init; cond` of the if statement, expression assigned to Statement.Table) -/\ndef stmtTableSplit : List (String × String × String) := [")
	for i, x := range splits {
		if i > 0 {
			b.WriteString(", ")
		}
		b.WriteString("(" + lstr(x[0]) + ", " + lstr(x[1]) + ", " + lstr(x[2]) + ")")
	}
	b.WriteString("]\n\n")

	// ---- table argument of the constraint / index naming calls
	var namer [][]string
	for _, pk := range []string{"migrator", "schema"} {
		for _, fname := range c20SortedFiles(pkgs[pk]) {
			if fname == "naming.go" {
				continue
			}
			for _, d := range pkgs[pk][fname].Decls {
				fd, ok := d.(*ast.FuncDecl)
				if !ok || fd.Body == nil {
					continue
				}
				ast.Inspect(fd.Body, func(n ast.Node) bool {
					if ce, ok := n.(*ast.CallExpr); ok {
						switch nm := c20CallName(ce); nm {
						case "UniqueName", "CheckerName", "IndexName":
							if len(ce.Args) >= 1 {
								namer = append(namer, []string{pk + "." + fd.Name.Name, nm, src(ce.Args[0])})
							}
						}
					}
					return true
				})
			}
		}
	}
	b.WriteString("/-- (package.function, namer method, table argument) -/\ndef constraintNameArgs : List (String × String × String) := [")
	for i, x := range namer {
		if i > 0 {
			b.WriteString(", ")
		}
		b.WriteString("(" + lstr(x[0]) + ", " + lstr(x[1]) + ", " + lstr(x[2]) + ")")
	}
	b.WriteString("]\n")
	o.write("MigrateColsFacts", b.String())
}
