package main

// C10 round 6 fact generator (Gen/WriteOrder.lean): the ORDER in which the update / delete callbacks
//   * run the schema's Update/DeleteClauses loop (soft delete: groups an OR chain, adds `deleted_at IS NULL`)  "clauses"
//   * merge the key condition of the model / written / deleted value into WHERE                               "assign" / "key"
//   * call SoftDeleteQueryClause(...).ModifyStatement explicitly                                              "wrap"
//   * build the SQL                                                                                             "build"
// (source order = execution order: these are straight-line statements of the function bodies, `if` bodies included).
// Model/ChainRows.lean `groupsFirst` reads what the key condition binds to off these lists; Props/C10.lean locks them.
//
//   updateOrder       callbacks/update.go  Update
//   deleteOrder       callbacks/delete.go  Delete
//   softDeleteOrder   soft_delete.go       SoftDeleteDeleteClause.ModifyStatement
//   softUpdateBody    soft_delete.go       SoftDeleteUpdateClause.ModifyStatement: its calls (must be the one wrap)
//   queryWrap         soft_delete.go       SoftDeleteQueryClause.ModifyStatement: (condition of the grouping `if`, the grouping assignment)

import (
	"go/ast"
	"strings"
)

func init() {
	extraGens = append(extraGens, func(o *out, pkgs map[string]map[string]*ast.File, all []funcInfo, repo string) {
		genC10WriteOrder(o, all)
	})
}

func c10OrderOf(body *ast.BlockStmt) []string {
	ev := []string{}
	ast.Inspect(body, func(n ast.Node) bool {
		switch x := n.(type) {
		case *ast.FuncLit:
			return true
		case *ast.RangeStmt:
			s := src(x.X)
			if strings.HasSuffix(s, "Schema.UpdateClauses") || strings.HasSuffix(s, "Schema.DeleteClauses") {
				ev = append(ev, "clauses")
				return false
			}
		case *ast.CallExpr:
			f := src(x.Fun)
			switch {
			case f == "ConvertToAssignments":
				ev = append(ev, "assign")
			case strings.HasSuffix(f, ".AddClause") && len(x.Args) == 1 && strings.HasPrefix(src(x.Args[0]), "clause.Where{"):
				ev = append(ev, "key")
			case strings.HasPrefix(f, "SoftDeleteQueryClause(") && strings.HasSuffix(f, ".ModifyStatement"):
				ev = append(ev, "wrap")
			case strings.HasSuffix(f, ".Build") && (strings.Contains(f, "Statement") || strings.HasPrefix(f, "stmt.")):
				ev = append(ev, "build")
			}
		}
		return true
	})
	return ev
}

func genC10WriteOrder(o *out, all []funcInfo) {
	var upd, del, soft, softUpd []string
	var wrapCond, wrapAssign []string
	for _, fi := range all {
		if fi.decl == nil || fi.decl.Body == nil {
			continue
		}
		switch {
		case fi.name == "Update" && strings.HasSuffix(fi.file, "callbacks/update.go"):
			upd = c10OrderOf(fi.decl.Body)
		case fi.name == "Delete" && strings.HasSuffix(fi.file, "callbacks/delete.go"):
			del = c10OrderOf(fi.decl.Body)
		case fi.name == "SoftDeleteDeleteClause.ModifyStatement":
			soft = c10OrderOf(fi.decl.Body)
		case fi.name == "SoftDeleteUpdateClause.ModifyStatement":
			ast.Inspect(fi.decl.Body, func(n ast.Node) bool {
				switch x := n.(type) {
				case *ast.IfStmt:
					softUpd = append(softUpd, "if "+src(x.Cond))
				case *ast.CallExpr:
					if f := src(x.Fun); strings.HasSuffix(f, ".ModifyStatement") || strings.Contains(f, "AddClause") {
						softUpd = append(softUpd, src(x))
					}
				}
				return true
			})
		case fi.name == "SoftDeleteQueryClause.ModifyStatement":
			ast.Inspect(fi.decl.Body, func(n ast.Node) bool {
				switch x := n.(type) {
				case *ast.IfStmt:
					c := src(x.Cond)
					if x.Init != nil {
						c = src(x.Init) + "; " + c
					}
					if strings.Contains(c, "OrConditions") {
						wrapCond = append(wrapCond, c)
						for _, st := range x.Body.List {
							if as, ok := st.(*ast.AssignStmt); ok && src(as.Lhs[0]) == "where.Exprs" {
								wrapAssign = append(wrapAssign, src(as))
							}
						}
					}
				}
				return true
			})
		}
	}
	var b strings.Builder
	b.WriteString("namespace WriteOrder\n\n")
	b.WriteString("/-- callbacks/update.go Update: schema clauses loop / key merge (ConvertToAssignments) / build, in source order -/\n")
	b.WriteString("def updateOrder : List String := " + lstrs(upd) + "\n\n")
	b.WriteString("/-- callbacks/delete.go Delete -/\n")
	b.WriteString("def deleteOrder : List String := " + lstrs(del) + "\n\n")
	b.WriteString("/-- soft_delete.go SoftDeleteDeleteClause.ModifyStatement -/\n")
	b.WriteString("def softDeleteOrder : List String := " + lstrs(soft) + "\n\n")
	b.WriteString("/-- soft_delete.go SoftDeleteUpdateClause.ModifyStatement: its guard and calls -/\n")
	b.WriteString("def softUpdateBody : List String := " + lstrs(softUpd) + "\n\n")
	b.WriteString("/-- soft_delete.go SoftDeleteQueryClause.ModifyStatement: the test that triggers grouping and what it assigns -/\n")
	b.WriteString("def queryWrapCond : List String := " + lstrs(wrapCond) + "\n")
	b.WriteString("def queryWrapAssign : List String := " + lstrs(wrapAssign) + "\n\n")
	b.WriteString("end WriteOrder\n")
	o.write("WriteOrder", b.String())
	o.facts["c10WriteOrder"] = len(upd) + len(del) + len(soft)
}
