package main

// C08 fact generator (round 4): callbacks/delete.go DeleteBeforeAssociations — `db.Select("Rel").Delete(&owner)` deletes the
// related rows (has-one / has-many) or the link rows (many2many) on a handle of its own.  Per `case` arm of the
// `switch rel.Type` inside the function, written to Gen/DeleteAssocFacts.lean:
//
//	arm             source text of the case's expression list ("schema.HasOne, schema.HasMany", "schema.Many2Many")
//	newDB           the arm builds its handle through a `Session(&gorm.Session{… NewDB: true …})` (a fresh Statement: the
//	                user's Unscoped() is NOT inherited unless Config.PropagateUnscoped — gorm.go getInstance)
//	copiesUnscoped  the arm contains `if db.Statement.Unscoped { <h> = <h>.Unscoped() }` in front of its Delete call
//	deletes         the arm calls `.Delete(` on something
//
// Structural (no line numbers). A shape that is not recognised yields `found := false`, which fails the theorems.

import (
	"fmt"
	"go/ast"
	"strings"
)

func init() {
	extraGens = append(extraGens, func(o *out, pkgs map[string]map[string]*ast.File, all []funcInfo, repo string) {
		genC08DeleteAssocFacts(o, all)
	})
}

func genC08DeleteAssocFacts(o *out, all []funcInfo) {
	var arms []string
	found := false
	for _, fi := range all {
		if !strings.HasSuffix(fi.file, "delete.go") || fi.name != "DeleteBeforeAssociations" || fi.decl.Body == nil {
			continue
		}
		ast.Inspect(fi.decl.Body, func(n ast.Node) bool {
			sw, ok := n.(*ast.SwitchStmt)
			if !ok || src(sw.Tag) != "rel.Type" {
				return true
			}
			found = true
			for _, st := range sw.Body.List {
				cc, ok := st.(*ast.CaseClause)
				if !ok {
					continue
				}
				var es []string
				for _, e := range cc.List {
					es = append(es, src(e))
				}
				newDB, copies, deletes := false, false, false
				deletePos := cc.End()
				for _, s := range cc.Body {
					ast.Inspect(s, func(m ast.Node) bool {
						switch x := m.(type) {
						case *ast.CallExpr:
							if sel, ok := x.Fun.(*ast.SelectorExpr); ok {
								if sel.Sel.Name == "Session" && len(x.Args) == 1 && strings.Contains(src(x.Args[0]), "NewDB: true") {
									newDB = true
								}
								if sel.Sel.Name == "Delete" {
									deletes = true
									if x.Pos() < deletePos {
										deletePos = x.Pos()
									}
								}
							}
						}
						return true
					})
				}
				for _, s := range cc.Body {
					ast.Inspect(s, func(m ast.Node) bool {
						ifs, ok := m.(*ast.IfStmt)
						if !ok || ifs.Init != nil || ifs.Else != nil || src(ifs.Cond) != "db.Statement.Unscoped" || ifs.Pos() > deletePos {
							return true
						}
						if len(ifs.Body.List) == 1 {
							if as, ok := ifs.Body.List[0].(*ast.AssignStmt); ok && len(as.Lhs) == 1 && len(as.Rhs) == 1 &&
								src(as.Rhs[0]) == src(as.Lhs[0])+".Unscoped()" {
								copies = true
							}
						}
						return true
					})
				}
				arms = append(arms, fmt.Sprintf("  { arm := %s, newDB := %s, copiesUnscoped := %s, deletes := %s }", lstr(strings.Join(es, ", ")), lbool(newDB), lbool(copies), lbool(deletes)))
			}
			return false
		})
	}
	body := `/-- one ` + "`case`" + ` arm of the ` + "`switch rel.Type`" + ` of callbacks/delete.go DeleteBeforeAssociations (Select("Rel").Delete(&owner)):
    newDB: its handle comes from a Session{NewDB: true}; copiesUnscoped: it has ` + "`if db.Statement.Unscoped { tx = tx.Unscoped() }`" + ` before its Delete -/
structure DeleteAssocArm where
  arm : String
  newDB : Bool
  copiesUnscoped : Bool
  deletes : Bool
deriving Repr, DecidableEq

def deleteAssocFound : Bool := ` + lbool(found) + `

def deleteAssocArms : List DeleteAssocArm := [
` + strings.Join(arms, ",\n") + `]
`
	o.write("DeleteAssocFacts", body)
}
