package main

// C01 fact generator (registers itself; writes Gen/BindSites.lean).
//
// Two families of dumb syntactic facts the C01 model relies on beyond the AddVar arm table (Gen/Misc.lean):
//
//  A. re-templating loops: every loop in non-test code that asks the dialector for the placeholder text of a value
//     (`….BindVarTo(&bindvar, <stmt>, v)`) and replaces it textually (`strings.Replace(sql, bindvar.String(), "?", n)`).
//     The model function `Gorm.Bind.retemplate d 1 k text` replaces, for i = 1..k, the FIRST occurrence of the
//     placeholder text of the i-th var.  That is what the Go loop does only if, per iteration, `<stmt>.Vars` has
//     exactly i elements when BindVarTo is called (append of the loop value onto a slice reset before the loop, or
//     re-slice `vars[0 : idx+1]`), the builder is fresh, the count is 1, the new text is "?", and the text is threaded.
//  B. Expr/NamedExpr dispatch: every composite literal `clause.NamedExpr{…}` with the condition that guards it.  The
//     model dispatches on the TEXT alone (`strings.Contains(sql, "@")`): named arguments may be sql.NamedArg, map,
//     struct or pointer to struct, which only NamedExpr.Build resolves.

import (
	"fmt"
	"go/ast"
	"go/token"
	"sort"
	"strings"
)

func init() {
	extraGens = append(extraGens, func(o *out, pkgs map[string]map[string]*ast.File, all []funcInfo, repo string) {
		genBindSites(o, all)
	})
}

type c01Loop struct {
	fn, file                      string
	count                         int
	newText                       string
	grows                         string // "append1" | "prefix" | "none"
	reset, fresh, threads, before bool
}

type c01KindCase struct {
	fn, file, tag, kinds string
	conds          []string
}

type c01Dispatch struct {
	fn, file, cond string
	inElse         bool
	sqlArg         string
}

func c01CallName(c *ast.CallExpr) string {
	switch f := c.Fun.(type) {
	case *ast.SelectorExpr:
		return f.Sel.Name
	case *ast.Ident:
		return f.Name
	}
	return ""
}

// c01LoopBody returns body, key ident name, value ident name for range / for loops
func c01LoopBody(n ast.Node) (*ast.BlockStmt, string, string) {
	switch l := n.(type) {
	case *ast.RangeStmt:
		k, v := "", ""
		if id, ok := l.Key.(*ast.Ident); ok {
			k = id.Name
		}
		if id, ok := l.Value.(*ast.Ident); ok {
			v = id.Name
		}
		return l.Body, k, v
	case *ast.ForStmt:
		return l.Body, "", ""
	}
	return nil, "", ""
}

func c01FindCalls(n ast.Node, name string) []*ast.CallExpr {
	var r []*ast.CallExpr
	ast.Inspect(n, func(x ast.Node) bool {
		if c, ok := x.(*ast.CallExpr); ok && c01CallName(c) == name {
			r = append(r, c)
		}
		return true
	})
	return r
}

func c01Contains(n ast.Node, target ast.Node) bool {
	found := false
	ast.Inspect(n, func(x ast.Node) bool {
		if x == target {
			found = true
		}
		return !found
	})
	return found
}

func genBindSites(o *out, all []funcInfo) {
	var loops []c01Loop
	var disp []c01Dispatch
	var kcases []c01KindCase

	for _, fi := range all {
		if fi.decl.Body == nil {
			continue
		}
		// ---- A. loops --------------------------------------------------------------------------
		seen := map[ast.Node]bool{}
		// walk every block so that we know the statements preceding a loop in its own block
		ast.Inspect(fi.decl.Body, func(x ast.Node) bool {
			blk, ok := x.(*ast.BlockStmt)
			if !ok {
				return true
			}
			for si, st := range blk.List {
				body, key, val := c01LoopBody(st)
				rangeX := ""
				if rs, ok := st.(*ast.RangeStmt); ok {
					rangeX = src(rs.X)
				}
				if body == nil || seen[st] {
					continue
				}
				// direct statements of the loop body only (nested loops are visited on their own)
				var bindIdx = -1
				var bindCall *ast.CallExpr
				var repl *ast.CallExpr
				var replLhs string
				for bi, bs := range body.List {
					if cs := c01FindCalls(bs, "BindVarTo"); len(cs) > 0 && bindCall == nil {
						if b, _, _ := c01LoopBody(bs); b == nil {
							bindIdx, bindCall = bi, cs[0]
						}
					}
					if as, ok := bs.(*ast.AssignStmt); ok && len(as.Rhs) == 1 {
						if c, ok := as.Rhs[0].(*ast.CallExpr); ok && src(c.Fun) == "strings.Replace" {
							repl, replLhs = c, src(as.Lhs[0])
						}
					}
				}
				if bindCall == nil || repl == nil || len(bindCall.Args) < 2 || len(repl.Args) != 4 {
					continue
				}
				seen[st] = true
				l := c01Loop{fn: fi.name, file: fi.file, count: -999, grows: "none"}
				if bl, ok := repl.Args[3].(*ast.BasicLit); ok && bl.Kind == token.INT {
					fmt.Sscanf(bl.Value, "%d", &l.count)
				} else if u, ok := repl.Args[3].(*ast.UnaryExpr); ok && u.Op == token.SUB {
					if bl, ok := u.X.(*ast.BasicLit); ok {
						fmt.Sscanf(bl.Value, "%d", &l.count)
						l.count = -l.count
					}
				}
				if bl, ok := repl.Args[2].(*ast.BasicLit); ok && bl.Kind == token.STRING {
					l.newText = strings.Trim(bl.Value, "\"`")
				}
				builder := strings.TrimPrefix(src(bindCall.Args[0]), "&")
				l.threads = src(repl.Args[0]) == replLhs && src(repl.Args[1]) == builder+".String()"
				stmtExpr := strings.TrimPrefix(src(bindCall.Args[1]), "&")
				varsExpr := stmtExpr + ".Vars"
				// statements of the loop body BEFORE the BindVarTo call
				for _, bs := range body.List[:bindIdx] {
					switch s := bs.(type) {
					case *ast.AssignStmt:
						if len(s.Lhs) == 1 && len(s.Rhs) == 1 {
							lhs, rhs := src(s.Lhs[0]), src(s.Rhs[0])
							if lhs == builder && s.Tok == token.DEFINE && rhs == "strings.Builder{}" {
								l.fresh = true
							}
							if lhs == varsExpr {
								if val != "" && rhs == "append("+varsExpr+", "+val+")" {
									l.grows = "append1"
								} else if se, ok := s.Rhs[0].(*ast.SliceExpr); ok && key != "" && se.High != nil &&
									strings.ReplaceAll(src(se.High), " ", "") == key+"+1" &&
									(se.Low == nil || src(se.Low) == "0") && se.Max == nil && src(se.X) == rangeX {
									l.grows = "prefix"
								} else {
									l.grows = "other"
								}
							}
						}
					}
				}
				// the Replace must come after the BindVarTo
				for bi, bs := range body.List {
					if c01Contains(bs, repl) {
						l.before = bi > bindIdx
					}
				}
				switch l.grows {
				case "prefix":
					l.reset = true
				case "append1":
					// `<stmt>.Vars = make([]interface{}, 0, …)` among the statements preceding the loop in its block
					for _, ps := range blk.List[:si] {
						if as, ok := ps.(*ast.AssignStmt); ok && len(as.Lhs) == 1 && len(as.Rhs) == 1 && src(as.Lhs[0]) == varsExpr {
							rhs := src(as.Rhs[0])
							l.reset = strings.HasPrefix(rhs, "make([]interface{}, 0")
						}
					}
				}
				loops = append(loops, l)
			}
			return true
		})

		// ---- C. reflect-kind switches (`switch rv := reflect.ValueOf(x); rv.Kind() { case reflect.Slice, reflect.Array: if … }`)
		if fi.name == "Statement.AddVar" || fi.name == "Expr.Build" || fi.name == "NamedExpr.Build" {
			ast.Inspect(fi.decl.Body, func(x ast.Node) bool {
				sw, ok := x.(*ast.SwitchStmt)
				if !ok || sw.Tag == nil || !strings.HasSuffix(src(sw.Tag), ".Kind()") {
					return true
				}
				for _, c := range sw.Body.List {
					cc := c.(*ast.CaseClause)
					var kinds []string
					for _, e := range cc.List {
						kinds = append(kinds, src(e))
					}
					k := c01KindCase{fn: fi.name, file: fi.file, tag: src(sw.Tag), kinds: strings.Join(kinds, ", ")}
					if len(kinds) == 0 {
						k.kinds = "default"
					}
					if len(cc.Body) > 0 {
						if is, ok := cc.Body[0].(*ast.IfStmt); ok {
							for is != nil {
								k.conds = append(k.conds, src(is.Cond))
								next, _ := is.Else.(*ast.IfStmt)
								is = next
							}
						}
					}
					kcases = append(kcases, k)
				}
				return true
			})
		}

		// ---- B. NamedExpr dispatch -------------------------------------------------------------
		var stack []ast.Node
		ast.Inspect(fi.decl.Body, func(x ast.Node) bool {
			if x == nil {
				stack = stack[:len(stack)-1]
				return true
			}
			stack = append(stack, x)
			cl, ok := x.(*ast.CompositeLit)
			if !ok || src(cl.Type) != "clause.NamedExpr" {
				return true
			}
			d := c01Dispatch{fn: fi.name, file: fi.file}
			for _, el := range cl.Elts {
				if kv, ok := el.(*ast.KeyValueExpr); ok && src(kv.Key) == "SQL" {
					d.sqlArg = src(kv.Value)
				}
			}
			// innermost enclosing if whose Body or Else contains the literal
			for i := len(stack) - 2; i >= 0; i-- {
				if is, ok := stack[i].(*ast.IfStmt); ok {
					if c01Contains(is.Body, cl) {
						d.cond = src(is.Cond)
						break
					}
					if is.Else != nil && c01Contains(is.Else, cl) {
						d.cond, d.inElse = src(is.Cond), true
						break
					}
				}
				if _, ok := stack[i].(*ast.FuncLit); ok {
					break
				}
			}
			disp = append(disp, d)
			return true
		})
	}

	sort.SliceStable(loops, func(i, j int) bool {
		if loops[i].file != loops[j].file {
			return loops[i].file < loops[j].file
		}
		return loops[i].fn < loops[j].fn
	})
	sort.SliceStable(disp, func(i, j int) bool {
		if disp[i].file != disp[j].file {
			return disp[i].file < disp[j].file
		}
		if disp[i].fn != disp[j].fn {
			return disp[i].fn < disp[j].fn
		}
		return disp[i].cond < disp[j].cond
	})

	var b strings.Builder
	b.WriteString("/-- a loop `for … { …BindVarTo(&bindvar, stmt, v); sql = strings.Replace(sql, bindvar.String(), new, count) }` -/\n")
	b.WriteString("structure RetemplateLoop where\n  fn : String\n  file : String\n  count : Int\n  newText : String\n  /-- how `stmt.Vars` reaches length i in iteration i: \"append1\" (append of the loop value), \"prefix\" (`vars[0:idx+1]`), \"none\", \"other\" -/\n  grows : String\n  /-- the slice is empty before the first iteration -/\n  reset : Bool\n  /-- `bindvar := strings.Builder{}` inside the loop -/\n  fresh : Bool\n  /-- `sql = strings.Replace(sql, bindvar.String(), …)` -/\n  threads : Bool\n  /-- the Replace follows the BindVarTo -/\n  replaceAfterBind : Bool\nderiving Repr, DecidableEq\n\n")
	b.WriteString("def retemplateLoops : List RetemplateLoop := [\n")
	for i, l := range loops {
		sep := ","
		if i == len(loops)-1 {
			sep = ""
		}
		fmt.Fprintf(&b, "  { fn := %s, file := %s, count := %d, newText := %s, grows := %s, reset := %v, fresh := %v, threads := %v, replaceAfterBind := %v }%s\n",
			lstr(l.fn), lstr(l.file), l.count, lstr(l.newText), lstr(l.grows), l.reset, l.fresh, l.threads, l.before, sep)
	}
	b.WriteString("]\n\n")
	b.WriteString("/-- a composite literal `clause.NamedExpr{SQL: sqlArg, …}` and the innermost `if` that guards it -/\n")
	b.WriteString("structure NamedDispatch where\n  fn : String\n  file : String\n  sqlArg : String\n  cond : String\n  inElse : Bool\nderiving Repr, DecidableEq\n\n")
	b.WriteString("def namedDispatch : List NamedDispatch := [\n")
	for i, d := range disp {
		sep := ","
		if i == len(disp)-1 {
			sep = ""
		}
		fmt.Fprintf(&b, "  { fn := %s, file := %s, sqlArg := %s, cond := %s, inElse := %v }%s\n",
			lstr(d.fn), lstr(d.file), lstr(d.sqlArg), lstr(d.cond), d.inElse, sep)
	}
	b.WriteString("]\n")
	b.WriteString("\n/-- one case of a `switch …Kind()` in AddVar / Expr.Build / NamedExpr.Build with the if/else-if conditions its body opens with -/\n")
	b.WriteString("structure KindCase where\n  fn : String\n  file : String\n  tag : String\n  kinds : String\n  conds : List String\nderiving Repr, DecidableEq\n\n")
	b.WriteString("def kindCases : List KindCase := [\n")
	for i, k := range kcases {
		sep := ","
		if i == len(kcases)-1 {
			sep = ""
		}
		var cs []string
		for _, c := range k.conds {
			cs = append(cs, lstr(c))
		}
		fmt.Fprintf(&b, "  { fn := %s, file := %s, tag := %s, kinds := %s, conds := [%s] }%s\n", lstr(k.fn), lstr(k.file), lstr(k.tag), lstr(k.kinds), strings.Join(cs, ", "), sep)
	}
	b.WriteString("]\n")
	o.write("BindSites", b.String())
	o.facts["c01_retemplate_loops"] = len(loops)
	o.facts["c01_named_dispatch"] = len(disp)
}
