package main

// C16 (round 3) fact generator → Gen/UpsertKeyFacts.lean
//
//   finisher_api.go DB.Save            the loop over `Schema.PrimaryFields` that decides "this value has no key → Create":
//                                      what it ranges over, the tested condition, whether the guarded statement returns the
//                                      Create pipeline, how many statements the loop body has, how many statements follow the
//                                      loop in its block (a trailing `if !hasKey {…}` is the all-parts-zero shape)
//   finisher_api.go (all *DB methods)  every `Session{…}` literal: enclosing method, its keys, the expression `.Session(` is
//                                      called on
//   finisher_api.go Save / FirstOrInit / FirstOrCreate
//                                      every nested finisher call (Create / Updates / Update / Save / Delete / Find / First /
//                                      Execute): the variable at the root of the handle expression, the methods applied on the
//                                      way, the keys of every Session literal on the way; and how the local handles (`tx`,
//                                      `queryTx`, `updateTx`, `result`) are first derived

import (
	"go/ast"
	"sort"
	"strings"
)

func init() {
	extraGens = append(extraGens, func(o *out, pkgs map[string]map[string]*ast.File, all []funcInfo, repo string) {
		genUpsertKeyFacts(o, pkgs)
	})
}

// c16kChain: root identifier and the selector names applied along a handle expression like
// `tx.Session(&Session{SkipHooks: true}).Clauses(…)`; sess = keys of every Session literal met on the way
func c16kChain(e ast.Expr) (root string, steps []string, sess []string) {
	for {
		switch x := e.(type) {
		case *ast.CallExpr:
			for _, a := range x.Args {
				ast.Inspect(a, func(n ast.Node) bool {
					if cl, ok := n.(*ast.CompositeLit); ok && strings.HasSuffix(src(cl.Type), "Session") {
						for _, el := range cl.Elts {
							if kv, ok := el.(*ast.KeyValueExpr); ok {
								sess = append(sess, src(kv.Key))
							}
						}
					}
					return true
				})
			}
			e = x.Fun
		case *ast.SelectorExpr:
			steps = append([]string{x.Sel.Name}, steps...)
			e = x.X
		case *ast.Ident:
			return x.Name, steps, sess
		case *ast.ParenExpr:
			e = x.X
		default:
			return "?", steps, sess
		}
	}
}

func genUpsertKeyFacts(o *out, pkgs map[string]map[string]*ast.File) {
	root := pkgs["."]
	// ---- DB.Save: the primary-key loop
	loops, loopStmts, after := 0, 0, -1
	over, cond := "none", "none"
	returnsCreate := false
	if fd := c16FindFunc(root, "DB", "Save"); fd != nil {
		var visit func(stmts []ast.Stmt)
		visit = func(stmts []ast.Stmt) {
			for i, s := range stmts {
				if rs, ok := s.(*ast.RangeStmt); ok && strings.HasSuffix(src(rs.X), "PrimaryFields") {
					loops++
					over = src(rs.X)
					loopStmts = len(rs.Body.List)
					after = len(stmts) - i - 1
					if len(rs.Body.List) >= 1 {
						if is, ok := rs.Body.List[0].(*ast.IfStmt); ok {
							cond = src(is.Cond)
							if len(is.Body.List) == 1 {
								if ret, ok := is.Body.List[0].(*ast.ReturnStmt); ok && len(ret.Results) == 1 &&
									strings.Contains(src(ret.Results[0]), "callbacks.Create().Execute(") {
									returnsCreate = true
								}
							}
						}
					}
				}
				ast.Inspect(s, func(n ast.Node) bool {
					if n == s {
						return true
					}
					switch b := n.(type) {
					case *ast.BlockStmt:
						visit(b.List)
						return false
					case *ast.CaseClause:
						visit(b.Body)
						return false
					}
					return true
				})
			}
		}
		visit(fd.Body.List)
	}

	// ---- Session literals and nested finisher calls
	type lit struct {
		fn, recv string
		keys     []string
	}
	type call struct {
		fn, method, root string
		steps, sess      []string
	}
	type origin struct{ fn, v, rhs string }
	var lits []lit
	var calls []call
	var origins []origin
	finishers := map[string]bool{"Create": true, "Updates": true, "Update": true, "UpdateColumn": true, "UpdateColumns": true,
		"Save": true, "Delete": true, "Find": true, "First": true, "Take": true, "Last": true, "Execute": true}
	scope := map[string]bool{"Save": true, "FirstOrInit": true, "FirstOrCreate": true}
	var names []string
	byName := map[string]*ast.FuncDecl{}
	for fname, f := range root {
		if !strings.HasSuffix(fname, "finisher_api.go") {
			continue
		}
		for _, d := range f.Decls {
			fd, ok := d.(*ast.FuncDecl)
			if !ok || fd.Body == nil || fd.Recv == nil || len(fd.Recv.List) != 1 || strings.TrimPrefix(src(fd.Recv.List[0].Type), "*") != "DB" {
				continue
			}
			names = append(names, fd.Name.Name)
			byName[fd.Name.Name] = fd
		}
	}
	sort.Strings(names)
	for _, name := range names {
		fd := byName[name]
		fn := "DB." + name
		seenOrigin := map[string]bool{}
		ast.Inspect(fd.Body, func(n ast.Node) bool {
			switch x := n.(type) {
			case *ast.CallExpr:
				se, ok := x.Fun.(*ast.SelectorExpr)
				if !ok {
					return true
				}
				if se.Sel.Name == "Session" && len(x.Args) == 1 {
					keys := []string{}
					found := false
					ast.Inspect(x.Args[0], func(m ast.Node) bool {
						if cl, ok := m.(*ast.CompositeLit); ok && strings.HasSuffix(src(cl.Type), "Session") {
							found = true
							for _, el := range cl.Elts {
								if kv, ok := el.(*ast.KeyValueExpr); ok {
									keys = append(keys, src(kv.Key))
								}
							}
						}
						return true
					})
					if found {
						sort.Strings(keys)
						lits = append(lits, lit{fn, src(se.X), keys})
					}
				}
				if scope[name] && finishers[se.Sel.Name] {
					h := se.X
					if se.Sel.Name == "Execute" && len(x.Args) == 1 {
						h = x.Args[0] // `callbacks.X().Execute(<handle>)`
					}
					r, steps, sess := c16kChain(h)
					sort.Strings(sess)
					calls = append(calls, call{fn, se.Sel.Name, r, steps, sess})
				}
			case *ast.AssignStmt:
				if scope[name] && len(x.Lhs) >= 1 && len(x.Rhs) == 1 {
					if id, ok := x.Lhs[0].(*ast.Ident); ok && !seenOrigin[id.Name] {
						switch id.Name {
						case "tx", "queryTx", "updateTx", "result":
							seenOrigin[id.Name] = true
							r, steps, sess := c16kChain(x.Rhs[0])
							if ce, ok := x.Rhs[0].(*ast.CallExpr); ok {
								if se, ok := ce.Fun.(*ast.SelectorExpr); ok && se.Sel.Name == "Execute" && len(ce.Args) == 1 {
									r, steps, sess = c16kChain(ce.Args[0])
									steps = append(steps, "Execute")
								}
							}
							origins = append(origins, origin{fn, id.Name, r + "|" + strings.Join(steps, ".") + "|" + strings.Join(sess, ",")})
						}
					}
				}
			}
			return true
		})
		// `if tx = queryTx.Find(…); …` style assignments inside if-inits are AssignStmts too: covered above
	}

	var b strings.Builder
	b.WriteString("/-- finisher_api.go DB.Save: number of `range …PrimaryFields` loops -/\n")
	b.WriteString("def saveKeyLoops : Nat := " + c16kItoa(loops) + "\n\n")
	b.WriteString("/-- … what the loop ranges over -/\n")
	b.WriteString("def saveKeyLoopOver : String := " + lstr(over) + "\n\n")
	b.WriteString("/-- … the condition of the `if` that is the loop body's first statement -/\n")
	b.WriteString("def saveKeyLoopCond : String := " + lstr(cond) + "\n\n")
	b.WriteString("/-- … that `if` holds exactly `return tx.callbacks.Create().Execute(tx)` -/\n")
	b.WriteString("def saveKeyLoopReturnsCreate : Bool := " + lbool(returnsCreate) + "\n\n")
	b.WriteString("/-- … number of statements of the loop body -/\n")
	b.WriteString("def saveKeyLoopStmts : Nat := " + c16kItoa(loopStmts) + "\n\n")
	b.WriteString("/-- … number of statements that follow the loop inside its block (-1 → 0 when there is no loop) -/\n")
	if after < 0 {
		after = 0
	}
	b.WriteString("def saveKeyLoopFollowedBy : Nat := " + c16kItoa(after) + "\n\n")
	b.WriteString("/-- finisher_api.go: every `.Session(&Session{…})` call inside a method of *DB: (method, expression it is called on, keys of the literal) -/\n")
	b.WriteString("def finisherSessionLits : List (String × String × List String) := [\n")
	for i, l := range lits {
		sep := ","
		if i == len(lits)-1 {
			sep = ""
		}
		b.WriteString("  (" + lstr(l.fn) + ", " + lstr(l.recv) + ", " + lstrs(l.keys) + ")" + sep + "\n")
	}
	b.WriteString("]\n\n")
	b.WriteString("structure NestedCall where\n  fn : String\n  method : String\n  root : String\n  steps : List String\n  sess : List String\nderiving Repr, DecidableEq\n\n")
	b.WriteString("/-- finisher_api.go Save / FirstOrInit / FirstOrCreate: every nested finisher call: the variable at the root of the handle expression,\n    the selectors applied on the way, the keys of every Session literal on the way (for `callbacks.X().Execute(h)` the handle is `h`) -/\n")
	b.WriteString("def finisherNestedCalls : List NestedCall := [\n")
	for i, c := range calls {
		sep := ","
		if i == len(calls)-1 {
			sep = ""
		}
		b.WriteString("  { fn := " + lstr(c.fn) + ", method := " + lstr(c.method) + ", root := " + lstr(c.root) + ", steps := " + lstrs(c.steps) + ", sess := " + lstrs(c.sess) + " }" + sep + "\n")
	}
	b.WriteString("]\n\n")
	b.WriteString("/-- … how the local handles are first derived: (method, variable, root|selectors|session keys) -/\n")
	b.WriteString("def finisherHandleOrigins : List (String × String × String) := [\n")
	for i, g := range origins {
		sep := ","
		if i == len(origins)-1 {
			sep = ""
		}
		b.WriteString("  (" + lstr(g.fn) + ", " + lstr(g.v) + ", " + lstr(g.rhs) + ")" + sep + "\n")
	}
	b.WriteString("]\n")
	o.write("UpsertKeyFacts", b.String())
	o.facts["saveKeyLoopCond"] = cond
	o.facts["saveKeyLoopFollowedBy"] = after
}

func c16kItoa(n int) string {
	if n == 0 {
		return "0"
	}
	neg := n < 0
	if neg {
		n = -n
	}
	s := ""
	for n > 0 {
		s = string(rune('0'+n%10)) + s
		n /= 10
	}
	if neg {
		s = "-" + s
	}
	return s
}
