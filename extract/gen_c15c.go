package main

// C15 round 4 fact generator → Gen/ReadSelectFacts.lean
//
//	readClauseOps            : for the read finishers of finisher_api.go (First Take Last Find FindInBatches Count Pluck
//	                           Row Rows Scan) and callbacks/query.go BuildQuerySQL, in source order, every operation on
//	                           the SELECT / LIMIT / ORDER BY clause of the statement:
//	                             AddClause | AddClauseIfNotExists   x.AddClause[IfNotExists](clause.T{…} | clauseSelect)
//	                             chain.Limit(a) | chain.Offset(a) | chain.Order(a)   calls of the chain methods
//	                             delete | restore                   delete(….Clauses, "N") / ….Clauses["N"] = v
//	                           with the suffix ".deferred" when the operation sits in a `defer`
//	pluckSelectGuard         : condition of the `if` around Pluck's SELECT installation ("" if unguarded)
//	countRestoresSelect      : Count has a deferred restore of Clauses["SELECT"] AND a deferred delete for the case
//	                           that the chain had none
//	findInBatchesCursorField : the expression whose `.ValueOf(…)` yields the value bound in the loop's clause.Gt cursor
//	findInBatchesCursorColumn: the `Name:` of that clause.Gt's column
//	findInBatchesPKRequired  : conditions of the `if`s inside the loop whose body adds ErrPrimaryKeyRequired
//	findInBatchesCursorFallback : NOT (cursor field is `….PrioritizedPrimaryField`, `<that> == nil` is one of the
//	                           ErrPrimaryKeyRequired conditions, cursor column is clause.PrimaryKey)
//	prepareValuesPerColumn   : in scan.go prepareValues every `values[idx] = e` has e allocating on the spot
//	                           (new(T) / reflect.New(…)[.Interface()] / &T{…}) or an identifier DEFINED that way inside
//	                           the innermost loop around the assignment — one holder per result column

import (
	"fmt"
	"go/ast"
	"go/token"
	"strings"
)

func init() {
	extraGens = append(extraGens, func(o *out, pkgs map[string]map[string]*ast.File, all []funcInfo, repo string) {
		genReadSelectFacts(o, pkgs)
	})
}

var c15cClauseOfType = map[string]string{"clause.Select": "SELECT", "clause.Limit": "LIMIT", "clause.OrderBy": "ORDER BY"}
var c15cClauseOfVar = map[string]string{"clauseSelect": "SELECT"}

type c15cOp struct{ fn, clause, op string }

// c15cOps walks a function body in source order and records the SELECT / LIMIT / ORDER BY operations.
func c15cOps(fn string, body *ast.BlockStmt) []c15cOp {
	var ops []c15cOp
	var walk func(n ast.Node, deferred bool)
	clauseOfArg := func(a ast.Expr) string {
		switch x := a.(type) {
		case *ast.CompositeLit:
			return c15cClauseOfType[src(x.Type)]
		case *ast.Ident:
			return c15cClauseOfVar[x.Name]
		}
		return ""
	}
	walk = func(n ast.Node, deferred bool) {
		if n == nil {
			return
		}
		suffix := ""
		if deferred {
			suffix = ".deferred"
		}
		switch x := n.(type) {
		case *ast.DeferStmt:
			walk(x.Call, true)
			return
		case *ast.AssignStmt:
			for _, l := range x.Lhs {
				if ix, ok := l.(*ast.IndexExpr); ok && strings.HasSuffix(src(ix.X), ".Clauses") {
					if lit, ok := ix.Index.(*ast.BasicLit); ok {
						name := strings.Trim(lit.Value, "\"")
						if name == "SELECT" || name == "LIMIT" || name == "ORDER BY" {
							ops = append(ops, c15cOp{fn, name, "restore" + suffix})
						}
					}
				}
			}
		case *ast.CallExpr:
			// receiver chain first (source order of a.b().c() is b then c)
			if sel, ok := x.Fun.(*ast.SelectorExpr); ok {
				walk(sel.X, deferred)
				switch sel.Sel.Name {
				case "AddClause", "AddClauseIfNotExists":
					if len(x.Args) == 1 {
						if c := clauseOfArg(x.Args[0]); c != "" {
							ops = append(ops, c15cOp{fn, c, sel.Sel.Name + suffix})
						}
					}
				case "Limit", "Offset":
					if len(x.Args) == 1 {
						ops = append(ops, c15cOp{fn, "LIMIT", "chain." + sel.Sel.Name + "(" + src(x.Args[0]) + ")" + suffix})
					}
				case "Order":
					if len(x.Args) == 1 {
						ops = append(ops, c15cOp{fn, "ORDER BY", "chain.Order(" + src(x.Args[0]) + ")" + suffix})
					}
				}
				for _, a := range x.Args {
					walk(a, deferred)
				}
				return
			}
			if id, ok := x.Fun.(*ast.Ident); ok && id.Name == "delete" && len(x.Args) == 2 && strings.HasSuffix(src(x.Args[0]), ".Clauses") {
				if lit, ok := x.Args[1].(*ast.BasicLit); ok {
					name := strings.Trim(lit.Value, "\"")
					if name == "SELECT" || name == "LIMIT" || name == "ORDER BY" {
						ops = append(ops, c15cOp{fn, name, "delete" + suffix})
					}
				}
			}
		}
		// generic descent in source order
		var kids []ast.Node
		ast.Inspect(n, func(m ast.Node) bool {
			if m == nil || m == n {
				return m == n
			}
			kids = append(kids, m)
			return false
		})
		for _, k := range kids {
			walk(k, deferred)
		}
	}
	walk(body, false)
	return ops
}

// c15cEnclosingIf: condition of the innermost `if` whose THEN branch contains pos ("" if none)
func c15cEnclosingIf(body *ast.BlockStmt, pos token.Pos) string {
	cond := ""
	ast.Inspect(body, func(n ast.Node) bool {
		if is, ok := n.(*ast.IfStmt); ok && is.Body.Pos() <= pos && pos < is.Body.End() {
			cond = src(is.Cond)
		}
		return true
	})
	return cond
}

func genReadSelectFacts(o *out, pkgs map[string]map[string]*ast.File) {
	root := pkgs["."]
	var ops []c15cOp
	for _, name := range []string{"First", "Take", "Last", "Find", "FindInBatches", "Count", "Pluck", "Row", "Rows", "Scan"} {
		if fd := c15FindMethod(root, name); fd != nil {
			ops = append(ops, c15cOps(name, fd.Body)...)
		} else {
			ops = append(ops, c15cOp{name, "?", "missing"})
		}
	}
	var bq *ast.FuncDecl
	for _, dir := range []string{"callbacks", "./callbacks"} {
		if fs, ok := pkgs[dir]; ok && bq == nil {
			bq = findFunc(fs, "BuildQuerySQL")
		}
	}
	if bq == nil {
		for _, fs := range pkgs {
			if fd := findFunc(fs, "BuildQuerySQL"); fd != nil {
				bq = fd
			}
		}
	}
	if bq != nil && bq.Body != nil {
		ops = append(ops, c15cOps("BuildQuerySQL", bq.Body)...)
	} else {
		ops = append(ops, c15cOp{"BuildQuerySQL", "?", "missing"})
	}

	// Pluck: guard of the SELECT installation
	pluckGuard, pluckAdd := "", ""
	if fd := c15FindMethod(root, "Pluck"); fd != nil {
		ast.Inspect(fd.Body, func(n ast.Node) bool {
			if call, ok := n.(*ast.CallExpr); ok {
				if sel, ok := call.Fun.(*ast.SelectorExpr); ok && (sel.Sel.Name == "AddClause" || sel.Sel.Name == "AddClauseIfNotExists") && len(call.Args) == 1 {
					if cl, ok := call.Args[0].(*ast.CompositeLit); ok && src(cl.Type) == "clause.Select" {
						pluckAdd = sel.Sel.Name
						pluckGuard = c15cEnclosingIf(fd.Body, call.Pos())
					}
				}
			}
			return true
		})
	}
	countRestore, countDelete := false, false
	countAdds := []string{}
	buildAdd := ""
	for _, op := range ops {
		if op.fn == "Count" && op.clause == "SELECT" {
			switch op.op {
			case "restore.deferred":
				countRestore = true
			case "delete.deferred":
				countDelete = true
			case "AddClause", "AddClauseIfNotExists":
				countAdds = append(countAdds, op.op)
			}
		}
		if op.fn == "BuildQuerySQL" && op.clause == "SELECT" && strings.HasPrefix(op.op, "AddClause") {
			buildAdd = op.op
		}
	}

	// FindInBatches: the cursor
	curField, curCol := "", ""
	var pkConds []string
	if fd := c15FindMethod(root, "FindInBatches"); fd != nil {
		valueVar := ""
		ast.Inspect(fd.Body, func(n ast.Node) bool {
			if cl, ok := n.(*ast.CompositeLit); ok && src(cl.Type) == "clause.Gt" {
				for _, e := range cl.Elts {
					if kv, ok := e.(*ast.KeyValueExpr); ok {
						switch src(kv.Key) {
						case "Value":
							valueVar = src(kv.Value)
						case "Column":
							if inner, ok := kv.Value.(*ast.CompositeLit); ok {
								for _, ie := range inner.Elts {
									if ikv, ok := ie.(*ast.KeyValueExpr); ok && src(ikv.Key) == "Name" {
										curCol = src(ikv.Value)
									}
								}
							}
						}
					}
				}
			}
			return true
		})
		ast.Inspect(fd.Body, func(n ast.Node) bool {
			switch x := n.(type) {
			case *ast.AssignStmt:
				if len(x.Lhs) >= 1 && src(x.Lhs[0]) == valueVar && len(x.Rhs) == 1 {
					if call, ok := x.Rhs[0].(*ast.CallExpr); ok {
						if sel, ok := call.Fun.(*ast.SelectorExpr); ok && sel.Sel.Name == "ValueOf" {
							curField = src(sel.X)
						}
					}
				}
			case *ast.IfStmt:
				if strings.Contains(src(x.Body), "ErrPrimaryKeyRequired") {
					pkConds = append(pkConds, src(x.Cond))
				}
			}
			return true
		})
	}
	nilChecked := false
	for _, c := range pkConds {
		if c == curField+" == nil" {
			nilChecked = true
		}
	}
	fallback := !(strings.HasSuffix(curField, ".PrioritizedPrimaryField") && nilChecked && curCol == "clause.PrimaryKey")

	// prepareValues: one holder per column
	pvFound, pvPerColumn := false, true
	for _, f := range root {
		for _, d := range f.Decls {
			fd, ok := d.(*ast.FuncDecl)
			if !ok || fd.Body == nil || fd.Name.Name != "prepareValues" {
				continue
			}
			var loops []*ast.BlockStmt
			var visit func(n ast.Node)
			visit = func(n ast.Node) {
				ast.Inspect(n, func(m ast.Node) bool {
					if m == nil || m == n {
						return m == n
					}
					switch x := m.(type) {
					case *ast.ForStmt:
						loops = append(loops, x.Body)
						visit(x.Body)
						loops = loops[:len(loops)-1]
						return false
					case *ast.RangeStmt:
						loops = append(loops, x.Body)
						visit(x.Body)
						loops = loops[:len(loops)-1]
						return false
					case *ast.AssignStmt:
						for i, l := range x.Lhs {
							if ix, ok := l.(*ast.IndexExpr); ok && src(ix.X) == "values" && i < len(x.Rhs) {
								pvFound = true
								if len(loops) == 0 || !c15bFreshExpr(x.Rhs[i], &ast.FuncLit{Body: loops[len(loops)-1]}) {
									pvPerColumn = false
								}
							}
						}
					}
					return true
				})
			}
			visit(fd.Body)
		}
	}
	pvPerColumn = pvPerColumn && pvFound

	var b strings.Builder
	b.WriteString("/-- (finisher, clause, operation) in source order: every operation of the read finishers and of BuildQuerySQL on\n    the SELECT / LIMIT / ORDER BY clause (see extract/gen_c15c.go) -/\n")
	b.WriteString("def readClauseOps : List (String × String × String) :=\n  [")
	for i, op := range ops {
		if i > 0 {
			b.WriteString(",\n   ")
		}
		b.WriteString(fmt.Sprintf("(%s, %s, %s)", lstr(op.fn), lstr(op.clause), lstr(op.op)))
	}
	b.WriteString("]\n\n")
	b.WriteString("/-- callbacks/query.go BuildQuerySQL installs its computed clause.Select with -/\n")
	b.WriteString("def buildQuerySelectAdd : String := " + lstr(buildAdd) + "\n\n")
	b.WriteString("/-- finisher_api.go Pluck installs its column with -/\n")
	b.WriteString("def pluckSelectAdd : String := " + lstr(pluckAdd) + "\n\n")
	b.WriteString("/-- … inside `if <cond>` -/\n")
	b.WriteString("def pluckSelectGuard : String := " + lstr(pluckGuard) + "\n\n")
	b.WriteString("/-- finisher_api.go Count installs its count expression with (one entry per site) -/\n")
	b.WriteString("def countSelectAdds : List String := " + lstrs(countAdds) + "\n\n")
	b.WriteString("/-- … and defers both `Clauses[\"SELECT\"] = previous` and `delete(Clauses, \"SELECT\")` -/\n")
	b.WriteString("def countRestoresSelect : Bool := " + lbool(countRestore && countDelete) + "\n\n")
	b.WriteString("/-- FindInBatches: expression whose ValueOf gives the value bound in the clause.Gt cursor -/\n")
	b.WriteString("def findInBatchesCursorField : String := " + lstr(curField) + "\n\n")
	b.WriteString("/-- … the cursor column -/\n")
	b.WriteString("def findInBatchesCursorColumn : String := " + lstr(curCol) + "\n\n")
	b.WriteString("/-- … conditions under which the loop adds ErrPrimaryKeyRequired -/\n")
	b.WriteString("def findInBatchesPKRequired : List String := " + lstrs(pkConds) + "\n\n")
	b.WriteString("/-- the loop goes on with some other column when the schema has no prioritized primary field -/\n")
	b.WriteString("def findInBatchesCursorFallback : Bool := " + lbool(fallback) + "\n\n")
	b.WriteString("/-- scan.go prepareValues: every `values[idx] = …` allocates its holder inside the loop over the columns -/\n")
	b.WriteString("def prepareValuesPerColumn : Bool := " + lbool(pvPerColumn) + "\n")
	o.write("ReadSelectFacts", b.String())
	o.facts["readClauseOps"] = len(ops)
	o.facts["findInBatchesCursorFallback"] = fallback
	o.facts["prepareValuesPerColumn"] = pvPerColumn
}
