package main

// C14 fact generator for the repairs of F14d (concurrent first prepared sessions) and F14a (stale session-level struct):
// HOW DB.Session registers a cache it creates and WHAT it hands to the new handle.
//
// Output Gen/StmtCacheSessFacts.lean:
//   cacheRegisters : every call `….cacheStore.LoadOrStore(K, V)` in non-test code of package gorm: enclosing function, the
//                    key K, whether V is a call of NewPreparedStmtDB(…), the variable the first result is bound to
//                    (`v, _ := …`), the variable a LATER statement of the same block assigns `v.(*PreparedStmtDB)` to,
//                    and — when the call sits in the else-branch of `if v, ok := ….cacheStore.Load(K'); ok {…}` — K', v
//                    and the assignment of the found-branch.
//   sessionPools   : every assignment `….Statement.ConnPool = RHS` inside DB.Session: the case of the enclosing type switch
//                    ("default", or the case's type list), and RHS — the type of a `&T{…}` literal, or the source text of
//                    anything else (a variable: the handle gets THAT object, not a new struct).
//
// The facts only select which transcription the Lean models use (Model/StmtCacheStore.lean: `genSCfg.sessReuse`,
// `genSessAtomic`); that the code behaves like the selected transcription is judged on every run by the suite `derive`
// (struct / Mux / map identities of every derived handle) and by the concurrent-first-session probe.

import (
	"fmt"
	"go/ast"
	"go/parser"
	"os"
	"path/filepath"
	"sort"
	"strings"
)

func init() {
	extraGens = append(extraGens, func(o *out, pkgs map[string]map[string]*ast.File, all []funcInfo, repo string) {
		genStmtCacheSessFacts(o, repo)
	})
}

type c14fReg struct {
	fn                                                                          string
	line                                                                        int
	key                                                                         string
	valueIsNew                                                                  bool
	resultVar, target                                                           string
	afterFailedLoad                                                             bool
	loadKey, loadVar, foundTarget, foundReuse                                   string
}

type c14fPool struct {
	line                 int
	inCase, rhs, literal string
}

// c14fCacheStoreCall: is e a call `X.cacheStore.<method>(args…)`
func c14fCacheStoreCall(e ast.Expr, method string) (*ast.CallExpr, bool) {
	c, ok := e.(*ast.CallExpr)
	if !ok {
		return nil, false
	}
	sel, ok := c.Fun.(*ast.SelectorExpr)
	if !ok || sel.Sel.Name != method || !strings.HasSuffix(src(sel.X), "cacheStore") {
		return nil, false
	}
	return c, true
}

func genStmtCacheSessFacts(o *out, repo string) {
	files, _ := filepath.Glob(filepath.Join(repo, "*.go"))
	sort.Strings(files)
	var regs []c14fReg
	var pools []c14fPool
	for _, path := range files {
		if strings.HasSuffix(path, "_test.go") {
			continue
		}
		if _, err := os.Stat(path); err != nil {
			continue
		}
		f, err := parser.ParseFile(fset, path, nil, 0)
		if err != nil || f.Name.Name != "gorm" {
			continue
		}
		for _, d := range f.Decls {
			fd, ok := d.(*ast.FuncDecl)
			if !ok || fd.Body == nil {
				continue
			}
			fn := c14bFuncName(fd)
			type loadCtx struct {
				key, v, foundTarget, foundReuse string
			}
			var walkBlock func(list []ast.Stmt, lc *loadCtx, inCase string)
			var walkStmt func(st ast.Stmt, lc *loadCtx, inCase string)
			// a LoadOrStore call found in statement i of `list`
			record := func(list []ast.Stmt, i int, c *ast.CallExpr, resultVar string, lc *loadCtx) {
				r := c14fReg{fn: fn, line: fset.Position(c.Pos()).Line, resultVar: resultVar}
				if len(c.Args) == 2 {
					r.key = src(c.Args[0])
					r.valueIsNew = c14bIsNew(c.Args[1])
				}
				if resultVar != "" {
					for _, later := range list[i+1:] {
						if as, ok := later.(*ast.AssignStmt); ok && len(as.Lhs) == 1 && len(as.Rhs) == 1 &&
							src(as.Rhs[0]) == resultVar+".(*PreparedStmtDB)" && r.target == "" {
							r.target = src(as.Lhs[0])
						}
					}
				}
				if lc != nil {
					r.afterFailedLoad, r.loadKey, r.loadVar, r.foundTarget, r.foundReuse = true, lc.key, lc.v, lc.foundTarget, lc.foundReuse
				}
				regs = append(regs, r)
			}
			walkStmt = func(st ast.Stmt, lc *loadCtx, inCase string) {
				switch x := st.(type) {
				case *ast.BlockStmt:
					walkBlock(x.List, lc, inCase)
				case *ast.IfStmt:
					var here *loadCtx
					if as, ok := x.Init.(*ast.AssignStmt); ok && len(as.Lhs) == 2 && len(as.Rhs) == 1 {
						if c, ok := c14fCacheStoreCall(as.Rhs[0], "Load"); ok && len(c.Args) == 1 && src(x.Cond) == src(as.Lhs[1]) {
							here = &loadCtx{key: src(c.Args[0]), v: src(as.Lhs[0])}
							for _, ts := range x.Body.List { // the found-branch: `target = v.(*PreparedStmtDB)`
								if a2, ok := ts.(*ast.AssignStmt); ok && len(a2.Lhs) == 1 && len(a2.Rhs) == 1 && strings.HasPrefix(src(a2.Rhs[0]), here.v+".") {
									here.foundTarget, here.foundReuse = src(a2.Lhs[0]), src(a2.Rhs[0])
								}
							}
						}
					}
					walkBlock(x.Body.List, lc, inCase)
					if x.Else != nil {
						if here != nil {
							walkStmt(x.Else, here, inCase)
						} else {
							walkStmt(x.Else, lc, inCase)
						}
					}
				case *ast.ForStmt:
					walkBlock(x.Body.List, lc, inCase)
				case *ast.RangeStmt:
					walkBlock(x.Body.List, lc, inCase)
				case *ast.SwitchStmt:
					walkBlock(x.Body.List, lc, inCase)
				case *ast.TypeSwitchStmt:
					for _, cc := range x.Body.List {
						if cl, ok := cc.(*ast.CaseClause); ok {
							name := "default"
							if len(cl.List) > 0 {
								var ts []string
								for _, t := range cl.List {
									ts = append(ts, src(t))
								}
								name = strings.Join(ts, ",")
							}
							walkBlock(cl.Body, lc, name)
						}
					}
				case *ast.CaseClause:
					walkBlock(x.Body, lc, inCase)
				case *ast.LabeledStmt:
					walkStmt(x.Stmt, lc, inCase)
				}
			}
			walkBlock = func(list []ast.Stmt, lc *loadCtx, inCase string) {
				for i, st := range list {
					switch x := st.(type) {
					case *ast.BlockStmt, *ast.IfStmt, *ast.ForStmt, *ast.RangeStmt, *ast.SwitchStmt, *ast.TypeSwitchStmt, *ast.CaseClause, *ast.LabeledStmt:
						walkStmt(st, lc, inCase)
						continue
					case *ast.AssignStmt:
						// `v, _ := X.cacheStore.LoadOrStore(K, V)`
						if len(x.Rhs) == 1 {
							if c, ok := c14fCacheStoreCall(x.Rhs[0], "LoadOrStore"); ok {
								rv := ""
								if len(x.Lhs) >= 1 {
									if id, ok := x.Lhs[0].(*ast.Ident); ok && id.Name != "_" {
										rv = id.Name
									}
								}
								record(list, i, c, rv, lc)
								continue
							}
						}
						// `….Statement.ConnPool = RHS` (DB.Session only)
						if fn == "DB.Session" && len(x.Lhs) == 1 && len(x.Rhs) == 1 && strings.HasSuffix(src(x.Lhs[0]), ".Statement.ConnPool") {
							p := c14fPool{line: fset.Position(x.Pos()).Line, inCase: inCase}
							rhs := x.Rhs[0]
							if u, ok := rhs.(*ast.UnaryExpr); ok {
								if cl, ok := u.X.(*ast.CompositeLit); ok && cl.Type != nil {
									p.literal = src(cl.Type)
								}
							} else if cl, ok := rhs.(*ast.CompositeLit); ok && cl.Type != nil {
								p.literal = src(cl.Type)
							}
							if p.literal == "" {
								p.rhs = src(rhs)
							}
							pools = append(pools, p)
							continue
						}
					}
					// any other occurrence of LoadOrStore inside this statement: result not bound
					ast.Inspect(st, func(n ast.Node) bool {
						if e, ok := n.(ast.Expr); ok {
							if c, ok := c14fCacheStoreCall(e, "LoadOrStore"); ok {
								record(list, i, c, "", lc)
							}
						}
						return true
					})
				}
			}
			walkBlock(fd.Body.List, nil, "")
		}
	}
	var b strings.Builder
	b.WriteString("structure CacheRegister where\n  fn : String\n  line : Nat\n  key : String\n  valueIsNewCache : Bool\n  resultVar : String\n  target : String\n  afterFailedLoad : Bool\n  loadKey : String\n  loadVar : String\n  foundTarget : String\n  foundReuse : String\nderiving Repr, DecidableEq\n\n")
	b.WriteString("/-- every call `….cacheStore.LoadOrStore(key, V)` in non-test code of package gorm: is V a call of `NewPreparedStmtDB(`, the\n    variable the loaded-or-stored value is bound to, the variable a later statement of the block assigns\n    `resultVar.(*PreparedStmtDB)` to, and the failed `cacheStore.Load(loadKey)` it follows (with the found-branch's\n    assignment `foundTarget = foundReuse`) -/\ndef cacheRegisters : List CacheRegister := [\n")
	for i, r := range regs {
		if i > 0 {
			b.WriteString(",\n")
		}
		fmt.Fprintf(&b, "  { fn := %s, line := %d, key := %s, valueIsNewCache := %v, resultVar := %s, target := %s, afterFailedLoad := %v, loadKey := %s, loadVar := %s, foundTarget := %s, foundReuse := %s }",
			lstr(r.fn), r.line, lstr(r.key), r.valueIsNew, lstr(r.resultVar), lstr(r.target), r.afterFailedLoad, lstr(r.loadKey), lstr(r.loadVar), lstr(r.foundTarget), lstr(r.foundReuse))
	}
	b.WriteString("\n]\n\n")
	b.WriteString("structure SessionPool where\n  line : Nat\n  inCase : String\n  rhs : String\n  literal : String\nderiving Repr, DecidableEq\n\n")
	b.WriteString("/-- every assignment `….Statement.ConnPool = RHS` in `DB.Session`: the case of the enclosing type switch (\"default\" or its\n    type list, \"\" outside a type switch) and RHS: `literal` = the type of a `&T{…}` literal (a NEW struct), else `rhs` = the\n    source text (a variable: the object itself) -/\ndef sessionPools : List SessionPool := [\n")
	for i, p := range pools {
		if i > 0 {
			b.WriteString(",\n")
		}
		fmt.Fprintf(&b, "  { line := %d, inCase := %s, rhs := %s, literal := %s }", p.line, lstr(p.inCase), lstr(p.rhs), lstr(p.literal))
	}
	b.WriteString("\n]\n")
	o.write("StmtCacheSessFacts", b.String())
	o.facts["stmtCacheRegisters"] = len(regs)
	o.facts["stmtCacheSessionPools"] = len(pools)
}
