package main

// C07 (round 5) fact generator → Gen/SharedAppend.lean.
//
//  stmtSliceFields    the fields of `type Statement struct` (statement.go) whose declared type is a slice
//  stmtAppendSites    every `T = append(B, …)` (root package) whose target T selects one of those fields: file, function, target,
//                     field, base B, whether B is T itself, the enclosing `if` conditions, and `fresh` = an EARLIER statement of the
//                     same function, in a block that encloses the append, assigns T from something that is not an append (make(…),
//                     a composite literal, a call): the append then extends memory this call allocated.  A chain method runs on
//                     the per-call instance Statement.clone made; if the clone shares the handle's backing array and the array has
//                     spare capacity, a non-fresh append writes memory the shared handle and every sibling instance read.
//  mergeAppendSites   every append(…) call inside a MergeClause method of package clause: the clause type, the base, and whether the
//                     base is a local of that method initialised by make(…) (a private, exactly sized copy)
//  loggerRecvWrites   package logger: every write through the RECEIVER of a pointer-receiver method (assignment, element write,
//                     inc/dec): (receiver type, method, path)
//  loggerLogModeRets  what the LogMode methods of package logger return (source text of the result expressions), per receiver type
//  loggerPtrMethods   every pointer-receiver method of package logger (so the tables above are seen to cover them)

import (
	"go/ast"
	"go/token"
	"sort"
	"strings"
)

func init() {
	extraGens = append(extraGens, func(o *out, pkgs map[string]map[string]*ast.File, all []funcInfo, repo string) {
		genC07SharedAppend(o, pkgs, all, repo)
	})
}

func c07eIsAppend(e ast.Expr) (*ast.CallExpr, bool) {
	c, ok := e.(*ast.CallExpr)
	if !ok {
		return nil, false
	}
	id, ok := c.Fun.(*ast.Ident)
	if !ok || id.Name != "append" || len(c.Args) == 0 {
		return nil, false
	}
	return c, true
}

func genC07SharedAppend(o *out, pkgs map[string]map[string]*ast.File, all []funcInfo, repo string) {
	var b strings.Builder
	// ---- Statement's slice fields ----
	var sliceFields []string
	isSlice := map[string]bool{}
	for _, f := range pkgs["."] {
		ast.Inspect(f, func(n ast.Node) bool {
			ts, ok := n.(*ast.TypeSpec)
			if !ok || ts.Name.Name != "Statement" {
				return true
			}
			st, ok := ts.Type.(*ast.StructType)
			if !ok {
				return true
			}
			for _, fl := range st.Fields.List {
				if at, ok := fl.Type.(*ast.ArrayType); ok && at.Len == nil {
					for _, id := range fl.Names {
						sliceFields = append(sliceFields, id.Name)
						isSlice[id.Name] = true
					}
				}
			}
			return false
		})
	}
	b.WriteString("/-- statement.go `type Statement struct`: the fields whose type is a slice -/\ndef stmtSliceFields : List String := " + lstrs(sliceFields) + "\n\n")

	// ---- append sites on those fields (root package) ----
	type site struct {
		file, fn, target, field, base string
		self, fresh                   bool
		conds                         []string
	}
	var sites []site
	for _, fi := range all {
		if strings.Contains(fi.file, "/") || fi.decl.Body == nil { // root package only
			continue
		}
		type asg struct {
			target string
			pos    token.Pos
			parent ast.Node
		}
		var fresh []asg
		type pend struct {
			s      site
			pos    token.Pos
			stack  []ast.Node
		}
		var pends []pend
		var stack []ast.Node
		var conds []string
		var walk func(n ast.Node)
		walkList := func(parent ast.Node, list []ast.Stmt) {
			stack = append(stack, parent)
			for _, s := range list {
				walk(s)
			}
			stack = stack[:len(stack)-1]
		}
		handleAssign := func(as *ast.AssignStmt) {
			if len(as.Lhs) != len(as.Rhs) {
				return
			}
			for i, l := range as.Lhs {
				sel, ok := l.(*ast.SelectorExpr)
				if !ok || !isSlice[sel.Sel.Name] {
					continue
				}
				t := src(l)
				if call, ok := c07eIsAppend(as.Rhs[i]); ok {
					base := src(call.Args[0])
					pends = append(pends, pend{site{file: fi.file, fn: fi.name, target: t, field: sel.Sel.Name, base: base, self: base == t,
						conds: append([]string{}, conds...)}, as.Pos(), append([]ast.Node{}, stack...)})
					continue
				}
				switch r := as.Rhs[i].(type) {
				case *ast.CallExpr, *ast.CompositeLit:
					_ = r
					var parent ast.Node
					if len(stack) > 0 {
						parent = stack[len(stack)-1]
					}
					fresh = append(fresh, asg{t, as.Pos(), parent})
				}
			}
		}
		walk = func(n ast.Node) {
			switch x := n.(type) {
			case nil:
			case *ast.BlockStmt:
				walkList(x, x.List)
			case *ast.AssignStmt:
				handleAssign(x)
				for _, r := range x.Rhs { // closures
					ast.Inspect(r, func(m ast.Node) bool {
						if fl, ok := m.(*ast.FuncLit); ok {
							walk(fl.Body)
							return false
						}
						return true
					})
				}
			case *ast.IfStmt:
				walk(x.Init)
				conds = append(conds, src(x.Cond))
				walk(x.Body)
				conds = conds[:len(conds)-1]
				if x.Else != nil {
					conds = append(conds, "!("+src(x.Cond)+")")
					walk(x.Else)
					conds = conds[:len(conds)-1]
				}
			case *ast.ForStmt:
				walk(x.Init)
				walk(x.Body)
			case *ast.RangeStmt:
				walk(x.Body)
			case *ast.SwitchStmt:
				walk(x.Init)
				walk(x.Body)
			case *ast.TypeSwitchStmt:
				walk(x.Init)
				walk(x.Body)
			case *ast.SelectStmt:
				walk(x.Body)
			case *ast.CaseClause:
				walkList(x, x.Body)
			case *ast.CommClause:
				walkList(x, x.Body)
			case *ast.LabeledStmt:
				walk(x.Stmt)
			case *ast.ExprStmt, *ast.ReturnStmt, *ast.DeferStmt, *ast.GoStmt:
				ast.Inspect(x, func(m ast.Node) bool {
					if fl, ok := m.(*ast.FuncLit); ok {
						walk(fl.Body)
						return false
					}
					return true
				})
			}
		}
		walk(fi.decl.Body)
		for _, p := range pends {
			for _, a := range fresh {
				if a.target != p.s.target || a.pos >= p.pos {
					continue
				}
				for _, anc := range p.stack {
					if anc == a.parent {
						p.s.fresh = true
					}
				}
			}
			sites = append(sites, p.s)
		}
	}
	sort.SliceStable(sites, func(i, j int) bool {
		if sites[i].file != sites[j].file {
			return sites[i].file < sites[j].file
		}
		return false
	})
	b.WriteString("structure AppendSite where\n  file : String\n  fn : String\n  target : String\n  field : String\n  base : String\n  self : Bool\n  fresh : Bool\n  conds : List String\nderiving Repr, DecidableEq\n\n")
	b.WriteString("/-- root package: every `T = append(B, …)` whose target selects a slice field of Statement (see extract/gen_c07e.go) -/\ndef stmtAppendSites : List AppendSite := [\n")
	for i, s := range sites {
		sep := ","
		if i == len(sites)-1 {
			sep = ""
		}
		b.WriteString("  { file := " + lstr(s.file) + ", fn := " + lstr(s.fn) + ", target := " + lstr(s.target) + ", field := " + lstr(s.field) + ", base := " + lstr(s.base) +
			", self := " + lbool(s.self) + ", fresh := " + lbool(s.fresh) + ", conds := " + lstrs(s.conds) + " }" + sep + "\n")
	}
	b.WriteString("]\n\n")

	// ---- MergeClause append sites (package clause) ----
	type msite struct {
		typ, base string
		fresh     bool
	}
	var msites []msite
	var mergeTypes []string
	for _, fi := range all {
		if !strings.HasPrefix(fi.file, "clause/") || fi.decl.Recv == nil || fi.decl.Name.Name != "MergeClause" || fi.decl.Body == nil {
			continue
		}
		typ := strings.TrimSuffix(fi.name, ".MergeClause")
		mergeTypes = append(mergeTypes, typ)
		made := map[string]bool{} // locals initialised by make(…)
		ast.Inspect(fi.decl.Body, func(n ast.Node) bool {
			if as, ok := n.(*ast.AssignStmt); ok && as.Tok == token.DEFINE && len(as.Lhs) == len(as.Rhs) {
				for i, l := range as.Lhs {
					if id, ok := l.(*ast.Ident); ok {
						if c, ok := as.Rhs[i].(*ast.CallExpr); ok {
							if f, ok := c.Fun.(*ast.Ident); ok && f.Name == "make" {
								made[id.Name] = true
							}
						}
					}
				}
			}
			return true
		})
		ast.Inspect(fi.decl.Body, func(n ast.Node) bool {
			if e, ok := n.(ast.Expr); ok {
				if c, ok := c07eIsAppend(e); ok {
					base := src(c.Args[0])
					id, isId := c.Args[0].(*ast.Ident)
					msites = append(msites, msite{typ, base, isId && made[id.Name]})
				}
			}
			return true
		})
	}
	sort.Strings(mergeTypes)
	b.WriteString("/-- package clause: the types that have a MergeClause method -/\ndef mergeClauseTypes : List String := " + lstrs(mergeTypes) + "\n\n")
	b.WriteString("/-- package clause, MergeClause methods: every append(B, …): (clause type, B, B is a local of the method initialised by make(…)) -/\ndef mergeAppendSites : List (String × String × Bool) := [")
	for i, s := range msites {
		if i > 0 {
			b.WriteString(", ")
		}
		b.WriteString("(" + lstr(s.typ) + ", " + lstr(s.base) + ", " + lbool(s.fresh) + ")")
	}
	b.WriteString("]\n\n")

	// ---- package logger ----
	lg := parseDir(repo, "logger")
	var lfuncs []funcInfo
	lfuncs = append(lfuncs, funcsOf(lg)...)
	var ptrMethods []string
	type lw struct{ typ, fn, path string }
	var lwrites []lw
	type lr struct {
		typ  string
		rets []string
	}
	var logModes []lr
	for _, fi := range lfuncs {
		if fi.decl.Recv == nil || len(fi.decl.Recv.List) == 0 || fi.decl.Body == nil {
			continue
		}
		rf := fi.decl.Recv.List[0]
		star, isPtr := rf.Type.(*ast.StarExpr)
		typ := src(rf.Type)
		if isPtr {
			typ = src(star.X)
		}
		recv := ""
		if len(rf.Names) > 0 {
			recv = rf.Names[0].Name
		}
		if fi.decl.Name.Name == "LogMode" {
			var rets []string
			ast.Inspect(fi.decl.Body, func(n ast.Node) bool {
				if _, ok := n.(*ast.FuncLit); ok {
					return false
				}
				if r, ok := n.(*ast.ReturnStmt); ok {
					for _, e := range r.Results {
						rets = append(rets, src(e))
					}
				}
				return true
			})
			logModes = append(logModes, lr{typ, rets})
		}
		if !isPtr {
			continue
		}
		ptrMethods = append(ptrMethods, typ+"."+fi.decl.Name.Name)
		if recv == "" || recv == "_" {
			continue
		}
		note := func(l ast.Expr) {
			if id, ok := l.(*ast.Ident); ok {
				_ = id
				return
			}
			if st, ok := l.(*ast.StarExpr); ok { // *l = …
				if id, ok := st.X.(*ast.Ident); ok && id.Name == recv {
					lwrites = append(lwrites, lw{typ, fi.decl.Name.Name, "*"})
				}
				return
			}
			base, path, _, _, ok := lhsParts(l)
			if ok && base == recv {
				lwrites = append(lwrites, lw{typ, fi.decl.Name.Name, path})
			}
		}
		ast.Inspect(fi.decl.Body, func(n ast.Node) bool {
			switch x := n.(type) {
			case *ast.AssignStmt:
				for _, l := range x.Lhs {
					note(l)
				}
			case *ast.IncDecStmt:
				note(x.X)
			}
			return true
		})
	}
	sort.Strings(ptrMethods)
	b.WriteString("/-- package logger: every method with a pointer receiver -/\ndef loggerPtrMethods : List String := " + lstrs(ptrMethods) + "\n\n")
	b.WriteString("/-- package logger: every write through the receiver of a pointer-receiver method: (receiver type, method, path) -/\ndef loggerRecvWrites : List (String × String × String) := [")
	for i, w := range lwrites {
		if i > 0 {
			b.WriteString(", ")
		}
		b.WriteString("(" + lstr(w.typ) + ", " + lstr(w.fn) + ", " + lstr(w.path) + ")")
	}
	b.WriteString("]\n\n")
	b.WriteString("/-- package logger: the result expressions of every LogMode method: (receiver type, results) -/\ndef loggerLogModeRets : List (String × List String) := [")
	for i, r := range logModes {
		if i > 0 {
			b.WriteString(", ")
		}
		b.WriteString("(" + lstr(r.typ) + ", " + lstrs(r.rets) + ")")
	}
	b.WriteString("]\n\n")
	// receiver names of the LogMode methods (a method that returns its receiver hands every caller the shared object)
	var recvNames []string
	for _, fi := range lfuncs {
		if fi.decl.Recv != nil && fi.decl.Name.Name == "LogMode" && len(fi.decl.Recv.List) > 0 && len(fi.decl.Recv.List[0].Names) > 0 {
			recvNames = append(recvNames, fi.decl.Recv.List[0].Names[0].Name)
		}
	}
	b.WriteString("/-- package logger: the receiver identifiers of the LogMode methods (same order as loggerLogModeRets) -/\ndef loggerLogModeRecvs : List String := " + lstrs(recvNames) + "\n")
	o.write("SharedAppend", b.String())
}
