package main

// C10 fact generator (Gen/WriteGuards.lean): the SHAPE of the code that decides which columns a write may touch.
//
//   saoReturns        every `return` of Statement.SelectAndOmitColumns (outside closures), as source text
//   saoArms           the conditions of processColumn's if / else-if chain, in order ("else" for the final arm)
//   saoFlagWrites     every statement that assigns `notRestricted`, with the arm condition it sits under
//   saoSchemaGuards   every `if` condition inside SelectAndOmitColumns that compares stmt.Schema with nil
//   admissionTests    (function, key expression, condition) of every `if v, ok := selectColumns[key]; cond` in the
//                     write-path functions ConvertToAssignments, ConvertToCreateValues, ConvertMapToValuesForCreate,
//                     ConvertSliceOfMapToValuesForCreate
//   saoCallers        (function, arguments) of every SelectAndOmitColumns call in those functions
//
// Props/C10.lean proves that these tables are exactly the shapes Model/WriteSet.lean transcribes (one exit computing
// `restricted` from notRestricted and len(Selects); the nil-schema arm first; every consumer admitting a column by
// one of the known forms with the (requireCreate, requireUpdate) pair of its path).

import (
	"go/ast"
	"strings"
)

var c10WriteFuncs = map[string]bool{
	"ConvertToAssignments": true, "ConvertToCreateValues": true, "ConvertMapToValuesForCreate": true,
	"ConvertSliceOfMapToValuesForCreate": true,
}

func init() {
	extraGens = append(extraGens, func(o *out, pkgs map[string]map[string]*ast.File, all []funcInfo, repo string) {
		genC10WriteGuards(o, all)
	})
}

func c10Triple(a, b, c string) string { return "(" + lstr(a) + ", " + lstr(b) + ", " + lstr(c) + ")" }
func c10Pair(a, b string) string      { return "(" + lstr(a) + ", " + lstr(b) + ")" }

func genC10WriteGuards(o *out, all []funcInfo) {
	var returns, arms, flagWrites, guards []string
	var tests, callers []string
	for _, fi := range all {
		if fi.decl == nil || fi.decl.Body == nil {
			continue
		}
		if fi.name == "Statement.SelectAndOmitColumns" {
			// returns outside closures
			var walk func(n ast.Node, inLit bool)
			walk = func(n ast.Node, inLit bool) {
				ast.Inspect(n, func(m ast.Node) bool {
					switch x := m.(type) {
					case *ast.FuncLit:
						if x != n {
							walk(x.Body, true)
							return false
						}
					case *ast.ReturnStmt:
						if !inLit {
							parts := []string{}
							for _, r := range x.Results {
								parts = append(parts, src(r))
							}
							returns = append(returns, strings.Join(parts, ", "))
						}
					case *ast.IfStmt:
						c := src(x.Cond)
						if strings.Contains(c, "Schema") && strings.Contains(c, "nil") {
							guards = append(guards, c)
						}
					}
					return true
				})
			}
			walk(fi.decl.Body, false)
			// processColumn's arms and the writes of notRestricted
			ast.Inspect(fi.decl.Body, func(m ast.Node) bool {
				as, ok := m.(*ast.AssignStmt)
				if !ok || len(as.Lhs) != 1 || len(as.Rhs) != 1 {
					return true
				}
				if src(as.Lhs[0]) == "notRestricted" {
					flagWrites = append(flagWrites, c10Pair("", src(as)))
				}
				lit, isLit := as.Rhs[0].(*ast.FuncLit)
				if src(as.Lhs[0]) != "processColumn" || !isLit {
					return true
				}
				for _, st := range lit.Body.List {
					ifs, ok := st.(*ast.IfStmt)
					for ok {
						cond := src(ifs.Cond)
						if ifs.Init != nil {
							cond = src(ifs.Init) + "; " + cond
						}
						arms = append(arms, cond)
						ast.Inspect(ifs.Body, func(k ast.Node) bool {
							if a, ok := k.(*ast.AssignStmt); ok && len(a.Lhs) == 1 && src(a.Lhs[0]) == "notRestricted" {
								flagWrites = append(flagWrites, c10Pair(cond, src(a)))
							}
							return true
						})
						switch e := ifs.Else.(type) {
						case *ast.IfStmt:
							ifs = e
						case *ast.BlockStmt:
							arms = append(arms, "else")
							ok = false
						default:
							ok = false
						}
					}
				}
				return false
			})
		}
		if !c10WriteFuncs[fi.name] {
			continue
		}
		ast.Inspect(fi.decl.Body, func(m ast.Node) bool {
			switch x := m.(type) {
			case *ast.IfStmt:
				if as, ok := x.Init.(*ast.AssignStmt); ok && len(as.Rhs) == 1 {
					if ix, ok := as.Rhs[0].(*ast.IndexExpr); ok && src(ix.X) == "selectColumns" {
						tests = append(tests, c10Triple(fi.name, src(ix.Index), src(x.Cond)))
					}
				}
			case *ast.CallExpr:
				if sel, ok := x.Fun.(*ast.SelectorExpr); ok && sel.Sel.Name == "SelectAndOmitColumns" {
					args := []string{}
					for _, a := range x.Args {
						args = append(args, src(a))
					}
					callers = append(callers, c10Pair(fi.name, strings.Join(args, ", ")))
				}
			}
			return true
		})
	}
	var b strings.Builder
	b.WriteString("namespace WriteGuards\n\n")
	b.WriteString("/-- every `return` of statement.go Statement.SelectAndOmitColumns (closures excluded) -/\n")
	b.WriteString("def saoReturns : List String := " + lstrs(returns) + "\n\n")
	b.WriteString("/-- conditions of processColumn's if / else-if chain, in order -/\n")
	b.WriteString("def saoArms : List String := " + lstrs(arms) + "\n\n")
	b.WriteString("/-- (arm condition or \"\" at function level, statement) of every assignment to notRestricted -/\n")
	b.WriteString("def saoFlagWrites : List (String × String) := [" + strings.Join(flagWrites, ", ") + "]\n\n")
	b.WriteString("/-- every `if` condition of SelectAndOmitColumns comparing the schema with nil -/\n")
	b.WriteString("def saoSchemaGuards : List String := " + lstrs(guards) + "\n\n")
	b.WriteString("/-- (function, key, condition) of every `if v, ok := selectColumns[key]; condition` of the write path -/\n")
	b.WriteString("def admissionTests : List (String × String × String) := [\n  " + strings.Join(tests, ",\n  ") + "]\n\n")
	b.WriteString("/-- (function, arguments) of every SelectAndOmitColumns call of the write path -/\n")
	b.WriteString("def saoCallers : List (String × String) := [" + strings.Join(callers, ", ") + "]\n\n")
	b.WriteString("end WriteGuards\n")
	o.write("WriteGuards", b.String())
	o.facts["c10AdmissionTests"] = len(tests)
}
