package main

// C13 fact generator (round 2): Gen/HookFacts.lean
//
//	A. hook DETECTION  (schema/schema.go): the callbackType constants, the list Parse loops over, the arms of
//	   callBackToMethodValue (case label -> constant handed to MethodByName), the accepted method signature(s), the
//	   expression that sets the Schema flag, the value whose method set is inspected, the bool hook fields of Schema;
//	   callbacks/interfaces.go (interface -> method + signature); every hook call site `i.H(tx)` of the hook
//	   callbacks with the interface of its type assertion, the Schema flags that dominate it and the handler's
//	   outer guard as a condition TREE.
//	B. hook ERROR flow: CommitOrRollbackTransaction's Commit/Rollback calls with their path conditions as trees whose
//	   atoms are classified (error non-nil test / errors.Is / == sentinel / other), DB.AddError's writes to db.Error
//	   with path conditions, and every inspection of an error VALUE on the path hook -> AddError -> rollback.

import (
	"fmt"
	"go/ast"
	"go/token"
	"regexp"
	"sort"
	"strconv"
	"strings"
)

func init() {
	extraGens = append(extraGens, func(o *out, pkgs map[string]map[string]*ast.File, all []funcInfo, repo string) {
		genHookFacts(o, pkgs, all)
	})
}

// ---- condition trees ---------------------------------------------------------------------------

var c13ErrSubjects = map[string]bool{"db.Error": true, "err": true, "tx.Error": true}

func c13IsNil(e ast.Expr) bool {
	id, ok := e.(*ast.Ident)
	return ok && id.Name == "nil"
}

// c13Cond renders a Go boolean expression as a Lean `HCond` term.
func c13Cond(e ast.Expr) string {
	switch x := e.(type) {
	case *ast.ParenExpr:
		return c13Cond(x.X)
	case *ast.UnaryExpr:
		if x.Op == token.NOT {
			return "(.not " + c13Cond(x.X) + ")"
		}
	case *ast.BinaryExpr:
		switch x.Op {
		case token.LAND:
			return "(.and " + c13Cond(x.X) + " " + c13Cond(x.Y) + ")"
		case token.LOR:
			return "(.or " + c13Cond(x.X) + " " + c13Cond(x.Y) + ")"
		case token.EQL, token.NEQ:
			l, r := x.X, x.Y
			if c13ErrSubjects[src(r)] || c13IsNil(l) {
				l, r = r, l
			}
			if c13ErrSubjects[src(l)] {
				var t string
				if c13IsNil(r) {
					t = "(.errNil " + lstr(src(l)) + ")"
				} else {
					t = "(.errEq " + lstr(src(l)) + " " + lstr(src(r)) + ")"
				}
				if x.Op == token.NEQ {
					return "(.not " + t + ")"
				}
				return t
			}
		}
	case *ast.CallExpr:
		if sel, ok := x.Fun.(*ast.SelectorExpr); ok && src(sel.X) == "errors" && len(x.Args) == 2 {
			switch sel.Sel.Name {
			case "Is":
				return "(.errIs " + lstr(src(x.Args[0])) + " " + lstr(src(x.Args[1])) + ")"
			case "As":
				return "(.errAs " + lstr(src(x.Args[0])) + " " + lstr(src(x.Args[1])) + ")"
			}
		}
	}
	if m := c13FlagRe.FindStringSubmatch(src(e)); m != nil {
		return "(.flag " + lstr(m[1]) + ")"
	}
	return "(.atom " + lstr(src(e)) + ")"
}

var c13FlagRe = regexp.MustCompile(`^db\.Statement\.Schema\.([A-Za-z_]\w*)$`)

func c13And(a, b string) string {
	if a == ".tt" {
		return b
	}
	return "(.and " + a + " " + b + ")"
}

// c13Paths walks a statement list with the path condition (a Lean HCond term) of every statement; closures are
// walked with their own path condition starting at `.tt` (a closure runs later) and depth+1.
func c13Paths(list []ast.Stmt, cond string, depth int, visit func(n ast.Node, cond string, depth int)) {
	var walkExpr func(e ast.Node, cond string)
	walkExpr = func(e ast.Node, cond string) {
		if e == nil {
			return
		}
		ast.Inspect(e, func(n ast.Node) bool {
			switch x := n.(type) {
			case *ast.FuncLit:
				c13Paths(x.Body.List, ".tt", depth+1, visit)
				return false
			case nil:
				return false
			default:
				visit(n, cond, depth)
			}
			return true
		})
	}
	var stmt func(s ast.Stmt, cond string)
	stmt = func(s ast.Stmt, cond string) {
		switch x := s.(type) {
		case nil:
		case *ast.BlockStmt:
			c13Paths(x.List, cond, depth, visit)
		case *ast.IfStmt:
			if x.Init != nil {
				stmt(x.Init, cond)
			}
			walkExpr(x.Cond, cond)
			c := c13Cond(x.Cond)
			c13Paths(x.Body.List, c13And(cond, c), depth, visit)
			if x.Else != nil {
				stmt(x.Else, c13And(cond, "(.not "+c+")"))
			}
		case *ast.ForStmt:
			stmt(x.Init, cond)
			walkExpr(x.Cond, cond)
			stmt(x.Post, cond)
			c13Paths(x.Body.List, cond, depth, visit)
		case *ast.RangeStmt:
			walkExpr(x.X, cond)
			c13Paths(x.Body.List, cond, depth, visit)
		case *ast.SwitchStmt:
			stmt(x.Init, cond)
			walkExpr(x.Tag, cond)
			for _, c := range x.Body.List {
				cc := c.(*ast.CaseClause)
				lab := "default"
				if len(cc.List) > 0 {
					var ls []string
					for _, e := range cc.List {
						ls = append(ls, src(e))
					}
					lab = strings.Join(ls, ", ")
				}
				c13Paths(cc.Body, c13And(cond, "(.atom "+lstr("switch "+src(x.Tag)+" case "+lab)+")"), depth, visit)
			}
		case *ast.TypeSwitchStmt:
			for _, c := range x.Body.List {
				c13Paths(c.(*ast.CaseClause).Body, c13And(cond, "(.atom \"typeswitch\")"), depth, visit)
			}
		default:
			walkExpr(s, cond)
		}
	}
	for _, s := range list {
		stmt(s, cond)
	}
}

func c13Func(all []funcInfo, file, name string) *funcInfo {
	for i := range all {
		if all[i].file == file && all[i].name == name {
			return &all[i]
		}
	}
	return nil
}

func c13Unquote(e ast.Expr) string {
	if bl, ok := e.(*ast.BasicLit); ok && bl.Kind == token.STRING {
		if s, err := strconv.Unquote(bl.Value); err == nil {
			return s
		}
	}
	return "?" + src(e)
}

func c13Pairs(ps [][2]string) string {
	var q []string
	for _, p := range ps {
		q = append(q, "("+lstr(p[0])+", "+lstr(p[1])+")")
	}
	return "[" + strings.Join(q, ", ") + "]"
}

func genHookFacts(o *out, pkgs map[string]map[string]*ast.File, all []funcInfo) {
	var b strings.Builder
	b.WriteString(`/-- condition trees; atoms that look at an error are classified: is it nil / errors.Is / errors.As / == sentinel -/
inductive HCond where
  | tt
  | atom (s : String)
  | flag (name : String)   -- db.Statement.Schema.<name>
  | errNil (subject : String)
  | errEq (subject sentinel : String)
  | errIs (subject sentinel : String)
  | errAs (subject target : String)
  | not (c : HCond)
  | and (a b : HCond)
  | or (a b : HCond)
deriving Repr, DecidableEq

/-- one hook invocation site i.H(tx) inside a hook callback -/
structure HookSite where
  handler : String
  hook : String          -- method called
  iface : String         -- interface of the dominating type assertion value.(X)
  flags : List String    -- Schema flags tested (positively, conjunctively) inside the closure on the way to the call
  outer : HCond          -- the handler's outer guard
deriving Repr, DecidableEq

/-- a call with its path condition -/
structure CondCall where
  call : String
  cond : HCond
  depth : Nat            -- closure nesting
deriving Repr, DecidableEq

`)
	// ---- A. detection ----------------------------------------------------------------------------
	var consts [][2]string
	var schemaBoolFields []string
	if f := pkgs["schema"]["schema/schema.go"]; f != nil {
		for _, d := range f.Decls {
			gd, ok := d.(*ast.GenDecl)
			if !ok {
				continue
			}
			for _, sp := range gd.Specs {
				switch s := sp.(type) {
				case *ast.ValueSpec:
					if gd.Tok == token.CONST && src(s.Type) == "callbackType" {
						for i, n := range s.Names {
							if i < len(s.Values) {
								consts = append(consts, [2]string{n.Name, c13Unquote(s.Values[i])})
							}
						}
					}
				case *ast.TypeSpec:
					if st, ok := s.Type.(*ast.StructType); ok && s.Name.Name == "Schema" {
						for _, fl := range st.Fields.List {
							if src(fl.Type) == "bool" {
								for _, n := range fl.Names {
									if strings.HasPrefix(n.Name, "Before") || strings.HasPrefix(n.Name, "After") {
										schemaBoolFields = append(schemaBoolFields, n.Name)
									}
								}
							}
						}
					}
				}
			}
		}
	}
	fmt.Fprintf(&b, "/-- schema/schema.go: `const callbackTypeX callbackType = \"X\"` -/\ndef hookTypeConsts : List (String × String) := %s\n\n", c13Pairs(consts))
	fmt.Fprintf(&b, "/-- schema/schema.go: bool fields of Schema named Before…/After… -/\ndef schemaHookFields : List String := %s\n\n", lstrs(schemaBoolFields))

	var loop []string
	var sigCases [][2]string
	flagSet, lookupCall, modelValueDef, loopVar := "", "", "", ""
	if fi := c13Func(all, "schema/schema.go", "ParseWithSpecialTableName"); fi != nil {
		ast.Inspect(fi.decl.Body, func(n ast.Node) bool {
			switch x := n.(type) {
			case *ast.AssignStmt:
				if len(x.Lhs) == 1 && len(x.Rhs) == 1 {
					switch src(x.Lhs[0]) {
					case "callbackTypes":
						if cl, ok := x.Rhs[0].(*ast.CompositeLit); ok {
							for _, e := range cl.Elts {
								loop = append(loop, src(e))
							}
						}
					case "modelValue":
						modelValueDef = src(x.Rhs[0])
					}
				}
			case *ast.RangeStmt:
				if src(x.X) == "callbackTypes" {
					loopVar = src(x.Value)
					ast.Inspect(x.Body, func(m ast.Node) bool {
						switch y := m.(type) {
						case *ast.CallExpr:
							if id, ok := y.Fun.(*ast.Ident); ok && id.Name == "callBackToMethodValue" {
								lookupCall = src(y)
							}
						case *ast.SwitchStmt:
							for _, c := range y.Body.List {
								cc := c.(*ast.CaseClause)
								sets := "false"
								for _, s := range cc.Body {
									ast.Inspect(s, func(k ast.Node) bool {
										if ce, ok := k.(*ast.CallExpr); ok {
											if sel, ok := ce.Fun.(*ast.SelectorExpr); ok && sel.Sel.Name == "SetBool" && len(ce.Args) == 1 && src(ce.Args[0]) == "true" {
												sets = "true"
												flagSet = src(ce)
											}
										}
										return true
									})
								}
								if len(cc.List) == 0 {
									sigCases = append(sigCases, [2]string{"default", sets})
								}
								for _, e := range cc.List {
									sigCases = append(sigCases, [2]string{c13Unquote(e), sets})
								}
							}
							fmt.Fprintf(&b, "/-- schema.Parse: tag of the switch that decides whether a found method counts as a hook -/\ndef hookSigSwitchTag : String := %s\n\n", lstr(src(y.Tag)))
						}
						return true
					})
				}
			}
			return true
		})
	}
	fmt.Fprintf(&b, "/-- schema.Parse: `callbackTypes := []callbackType{…}` (the loop `for _, %s := range callbackTypes`) -/\ndef hookTypesLoop : List String := %s\n\n", loopVar, lstrs(loop))
	fmt.Fprintf(&b, "/-- schema.Parse: cases of the signature switch: (case literal, body sets the flag) -/\ndef hookSigCases : List (String × String) := %s\n\n", c13Pairs(sigCases))
	fmt.Fprintf(&b, "def hookFlagSetExpr : String := %s\ndef hookLookupCall : String := %s\ndef hookModelValueDef : String := %s\n\n", lstr(flagSet), lstr(lookupCall), lstr(modelValueDef))

	var arms [][2]string
	armTag, armRecv := "", ""
	if fi := c13Func(all, "schema/schema.go", "callBackToMethodValue"); fi != nil {
		if fi.decl.Type.Params != nil && len(fi.decl.Type.Params.List) > 0 && len(fi.decl.Type.Params.List[0].Names) > 0 {
			armRecv = fi.decl.Type.Params.List[0].Names[0].Name
		}
		ast.Inspect(fi.decl.Body, func(n ast.Node) bool {
			sw, ok := n.(*ast.SwitchStmt)
			if !ok {
				return true
			}
			armTag = src(sw.Tag)
			for _, c := range sw.Body.List {
				cc := c.(*ast.CaseClause)
				look := "?"
				if len(cc.Body) == 1 {
					if rs, ok := cc.Body[0].(*ast.ReturnStmt); ok && len(rs.Results) == 1 {
						look = "?" + src(rs.Results[0])
						if ce, ok := rs.Results[0].(*ast.CallExpr); ok && len(ce.Args) == 1 {
							if sel, ok := ce.Fun.(*ast.SelectorExpr); ok && sel.Sel.Name == "MethodByName" && src(sel.X) == armRecv {
								if conv, ok := ce.Args[0].(*ast.CallExpr); ok && src(conv.Fun) == "string" && len(conv.Args) == 1 {
									look = src(conv.Args[0])
								}
							}
						}
					}
				}
				if len(cc.List) == 0 {
					arms = append(arms, [2]string{"default", look})
				}
				for _, e := range cc.List {
					arms = append(arms, [2]string{src(e), look})
				}
			}
			return false
		})
	}
	fmt.Fprintf(&b, "/-- schema.callBackToMethodValue: `switch %s { case L: return %s.MethodByName(string(C)) }` as (L, C); anything else as \"?src\" -/\ndef hookMethodArms : List (String × String) := %s\n\n", armTag, armRecv, c13Pairs(arms))

	// callbacks/interfaces.go
	var ifaces []string
	if f := pkgs["callbacks"]["callbacks/interfaces.go"]; f != nil {
		for _, d := range f.Decls {
			gd, ok := d.(*ast.GenDecl)
			if !ok {
				continue
			}
			for _, sp := range gd.Specs {
				ts, ok := sp.(*ast.TypeSpec)
				if !ok {
					continue
				}
				it, ok := ts.Type.(*ast.InterfaceType)
				if !ok {
					continue
				}
				var ms []string
				for _, m := range it.Methods.List {
					name := "?embedded"
					if len(m.Names) > 0 {
						name = m.Names[0].Name
					}
					sig := strings.TrimPrefix(src(m.Type), "func")
					ms = append(ms, "("+lstr(name)+", "+lstr(sig)+")")
				}
				ifaces = append(ifaces, "("+lstr(ts.Name.Name)+", ["+strings.Join(ms, ", ")+"])")
			}
		}
	}
	fmt.Fprintf(&b, "/-- callbacks/interfaces.go: interface -> its methods (name, signature) -/\ndef hookInterfaces : List (String × List (String × String)) := [\n  %s\n]\n\n", strings.Join(ifaces, ",\n  "))

	// hook call sites
	var sites []string
	for _, fi := range all {
		if !strings.HasPrefix(fi.file, "callbacks/") || fi.decl.Recv != nil {
			continue
		}
		fi := fi
		// outer guard: the first top-level `if` that contains a callMethod call
		outer := ".tt"
		for _, s := range fi.decl.Body.List {
			if is, ok := s.(*ast.IfStmt); ok && strings.Contains(src(is.Body), "callMethod(") {
				outer = c13Cond(is.Cond)
				break
			}
		}
		var visitLit func(list []ast.Stmt, flags []string, iface string)
		visitLit = func(list []ast.Stmt, flags []string, iface string) {
			for _, s := range list {
				switch x := s.(type) {
				case *ast.IfStmt:
					fl, ifc := append([]string(nil), flags...), iface
					if x.Init != nil {
						if as, ok := x.Init.(*ast.AssignStmt); ok && len(as.Rhs) == 1 {
							if ta, ok := as.Rhs[0].(*ast.TypeAssertExpr); ok && src(x.Cond) == "ok" {
								ifc = src(ta.Type)
							}
						}
					}
					for _, a := range atoms(x.Cond, true, nil) {
						if strings.HasPrefix(a, "db.Statement.Schema.") {
							fl = append(fl, strings.TrimPrefix(a, "db.Statement.Schema."))
						}
					}
					visitLit(x.Body.List, fl, ifc)
					if x.Else != nil {
						if eb, ok := x.Else.(*ast.BlockStmt); ok {
							visitLit(eb.List, flags, iface)
						}
					}
				default:
					ast.Inspect(s, func(n ast.Node) bool {
						if ce, ok := n.(*ast.CallExpr); ok {
							if sel, ok := ce.Fun.(*ast.SelectorExpr); ok && hookMethods[sel.Sel.Name] && len(ce.Args) == 1 {
								sites = append(sites, fmt.Sprintf("{ handler := %s, hook := %s, iface := %s, flags := %s, outer := %s }",
									lstr(fi.name), lstr(sel.Sel.Name), lstr(iface), lstrs(flags), outer))
							}
						}
						return true
					})
				}
			}
		}
		ast.Inspect(fi.decl.Body, func(n ast.Node) bool {
			ce, ok := n.(*ast.CallExpr)
			if !ok {
				return true
			}
			if id, ok := ce.Fun.(*ast.Ident); ok && id.Name == "callMethod" && len(ce.Args) == 2 {
				if lit, ok := ce.Args[1].(*ast.FuncLit); ok {
					visitLit(lit.Body.List, nil, "")
					return false
				}
			}
			return true
		})
	}
	fmt.Fprintf(&b, "/-- every `i.<Hook>(tx)` call inside a callMethod closure of the callbacks package -/\ndef hookSites : List HookSite := [\n  %s\n]\n\n", strings.Join(sites, ",\n  "))

	// ---- B. error flow ---------------------------------------------------------------------------
	var acts []string
	if fi := c13Func(all, "callbacks/transaction.go", "CommitOrRollbackTransaction"); fi != nil {
		c13Paths(fi.decl.Body.List, ".tt", 0, func(n ast.Node, cond string, depth int) {
			if ce, ok := n.(*ast.CallExpr); ok {
				if sel, ok := ce.Fun.(*ast.SelectorExpr); ok && (sel.Sel.Name == "Rollback" || sel.Sel.Name == "Commit" || sel.Sel.Name == "RollbackTo") {
					acts = append(acts, fmt.Sprintf("{ call := %s, cond := %s, depth := %d }", lstr(src(sel)), cond, depth))
				}
			}
		})
	}
	fmt.Fprintf(&b, "/-- callbacks/transaction.go CommitOrRollbackTransaction: Commit/Rollback calls with their path conditions -/\ndef commitOrRollbackActs : List CondCall := [\n  %s\n]\n\n", strings.Join(acts, ",\n  "))

	var writes, returns []string
	if fi := c13Func(all, "gorm.go", "DB.AddError"); fi != nil {
		c13Paths(fi.decl.Body.List, ".tt", 0, func(n ast.Node, cond string, depth int) {
			switch x := n.(type) {
			case *ast.AssignStmt:
				for i, l := range x.Lhs {
					if i < len(x.Rhs) && (src(l) == "db.Error" || src(l) == "err") {
						writes = append(writes, fmt.Sprintf("{ call := %s, cond := %s, depth := %d }", lstr(src(l)+" = "+src(x.Rhs[i])), cond, depth))
					}
				}
			case *ast.ReturnStmt:
				returns = append(returns, fmt.Sprintf("{ call := %s, cond := %s, depth := %d }", lstr(src(x)), cond, depth))
			}
		})
	}
	fmt.Fprintf(&b, "/-- gorm.go DB.AddError: assignments to db.Error / err with their path conditions -/\ndef addErrorWrites : List CondCall := [\n  %s\n]\n\n", strings.Join(writes, ",\n  "))
	fmt.Fprintf(&b, "def addErrorReturns : List CondCall := [\n  %s\n]\n\n", strings.Join(returns, ",\n  "))

	// inspections of error VALUES on the path hook -> AddError -> (default | user) transaction end
	onPath := func(fi funcInfo) bool {
		if strings.HasPrefix(fi.file, "callbacks/") {
			return true
		}
		switch fi.name {
		case "DB.AddError", "DB.Transaction", "DB.Commit", "DB.Rollback", "DB.RollbackTo", "DB.SavePoint", "DB.Begin", "processor.Execute":
			return !strings.Contains(fi.file, "/")
		}
		return false
	}
	var tests []string
	for _, fi := range all {
		if !onPath(fi) {
			continue
		}
		fi := fi
		ast.Inspect(fi.decl.Body, func(n ast.Node) bool {
			switch x := n.(type) {
			case *ast.CallExpr:
				if sel, ok := x.Fun.(*ast.SelectorExpr); ok && src(sel.X) == "errors" && (sel.Sel.Name == "Is" || sel.Sel.Name == "As") {
					tests = append(tests, fmt.Sprintf("(%s, %s, %s)", lstr(fi.file), lstr(fi.name), lstr(src(x))))
				}
			case *ast.BinaryExpr:
				if x.Op == token.EQL || x.Op == token.NEQ {
					if sentinelRe.MatchString(src(x.X)) || sentinelRe.MatchString(src(x.Y)) {
						tests = append(tests, fmt.Sprintf("(%s, %s, %s)", lstr(fi.file), lstr(fi.name), lstr(src(x))))
					}
				}
			case *ast.SwitchStmt:
				// `switch err { case ErrX: }` / `switch { case err == ErrX }` are caught by the BinaryExpr arm or here
				if x.Tag != nil {
					for _, c := range x.Body.List {
						for _, e := range c.(*ast.CaseClause).List {
							if sentinelRe.MatchString(src(e)) {
								tests = append(tests, fmt.Sprintf("(%s, %s, %s)", lstr(fi.file), lstr(fi.name), lstr("switch "+src(x.Tag)+" case "+src(e))))
							}
						}
					}
				}
			}
			return true
		})
	}
	sort.Strings(tests)
	fmt.Fprintf(&b, "/-- every inspection of an error VALUE (errors.Is / errors.As / comparison with a sentinel / switch case) in the callbacks package,\n    DB.AddError, DB.Begin/Commit/Rollback/RollbackTo/SavePoint/Transaction and processor.Execute: file, func, expression -/\ndef hookPathErrTests : List (String × String × String) := [\n  %s\n]\n", strings.Join(tests, ",\n  "))
	o.write("HookFacts", b.String())
}
