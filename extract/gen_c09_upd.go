package main

// C09 fact generator (round 4): WHICH KEYS an update turns into WHERE conditions, and which ways lead past the guard.
//
// callbacks/update.go ConvertToAssignments adds a WHERE condition in exactly three places:
//
//	if !updatingValue.CanAddr() || stmt.Dest != stmt.Model {            // the updating value is NOT the Model itself
//		switch stmt.ReflectValue.Kind() {
//		case reflect.Slice, reflect.Array: … AddClause(clause.Where{IN(keys of stmt.ReflectValue)})   (1) Model slice keys
//		case reflect.Struct:               … AddClause(clause.Where{Eq(key of stmt.ReflectValue)})    (2) Model key
//	…
//	default: switch updatingValue.Kind() { case reflect.Struct:
//		if !field.PrimaryKey || !updatingValue.CanAddr() || stmt.Dest != stmt.Model { …SET… }
//		else { … AddClause(clause.Where{Eq(key of updatingValue)}) }                                  (3) the value IS the Model
//
// so the primary key inside a SEPARATE updating value (`Model(&T{}).Updates(T{ID: 7, …})`) is data, never a condition.
//
//	updateWhereSites     every AddClause(clause.Where{…}) in ConvertToAssignments, in source order: guard chain, the value
//	                     whose key is read ("reflect" = stmt.ReflectValue, "updating" = updatingValue), the expression type
//	updateValueKeyGuard  the `||` disjuncts of the `if` in whose ELSE the "updating" site sits; updateValueKeyInElse
//	guardBypassReturns   in the handler closures of callbacks/update.go Update and callbacks/delete.go Delete: every `return`
//	                     that lies before the call of checkMissingWhereConditions, with its guard chain (a way to finish
//	                     without the guard having run)
//
// guard chain format: an if-THEN contributes the condition text ("init; cond" with an init statement), an if-ELSE
// "else(" + that + ")", a switch case "switch <tag> case <values>" / "switch <tag> default"; loops contribute nothing.

import (
	"fmt"
	"go/ast"
	"go/token"
	"strings"
)

func init() {
	extraGens = append(extraGens, func(o *out, pkgs map[string]map[string]*ast.File, all []funcInfo, repo string) {
		genUpdateKeyFacts(o, pkgs["callbacks"])
	})
}

type c09uSite struct {
	guards       []string
	source, expr string
}

type c09uReturn struct {
	handler string
	guards  []string
}

type c09uWalker struct {
	sites   []c09uSite
	returns []c09uReturn
	handler string
	before  token.Pos // only returns before this position are recorded (0 = none)
	// the if statement in whose ELSE the "updating" site was found
	valueIf *ast.IfStmt
}

func c09uIfText(is *ast.IfStmt) string {
	if is.Init != nil {
		return src(is.Init) + "; " + src(is.Cond)
	}
	return src(is.Cond)
}

func c09uWith(g []string, more string) []string {
	return append(append([]string{}, g...), more)
}

// c09uKeySource: does the statement read a key through field.ValueOf(ctx, X) / GetIdentityFieldValuesMap(ctx, X, …)?
func c09uKeySource(n ast.Node, cur string) string {
	if n == nil {
		return cur
	}
	ast.Inspect(n, func(x ast.Node) bool {
		if _, ok := x.(*ast.FuncLit); ok {
			return false
		}
		call, ok := x.(*ast.CallExpr)
		if !ok {
			return true
		}
		sel, ok := call.Fun.(*ast.SelectorExpr)
		if !ok || len(call.Args) < 2 {
			return true
		}
		if sel.Sel.Name == "ValueOf" || sel.Sel.Name == "GetIdentityFieldValuesMap" {
			a := src(call.Args[1])
			switch {
			case a == "updatingValue":
				cur = "updating"
			case strings.HasPrefix(a, "stmt.ReflectValue") || strings.HasPrefix(a, "db.Statement.ReflectValue"):
				cur = "reflect"
			default:
				cur = "other"
			}
		}
		return true
	})
	return cur
}

func c09uWhereArg(call *ast.CallExpr) (string, bool) {
	sel, ok := call.Fun.(*ast.SelectorExpr)
	if !ok || sel.Sel.Name != "AddClause" || len(call.Args) != 1 {
		return "", false
	}
	cl, ok := call.Args[0].(*ast.CompositeLit)
	if !ok || src(cl.Type) != "clause.Where" {
		return "", false
	}
	expr := "other"
	for _, el := range cl.Elts {
		kv, ok := el.(*ast.KeyValueExpr)
		if !ok || src(kv.Key) != "Exprs" {
			continue
		}
		if list, ok := kv.Value.(*ast.CompositeLit); ok && len(list.Elts) > 0 {
			if first, ok := list.Elts[0].(*ast.CompositeLit); ok {
				expr = strings.TrimPrefix(src(first.Type), "clause.")
			}
		}
	}
	return expr, true
}

func (w *c09uWalker) block(list []ast.Stmt, guards []string, source string, inElseOf *ast.IfStmt) {
	for _, s := range list {
		source = w.stmt(s, guards, source, inElseOf)
	}
}

// stmt walks one statement and returns the key source in force AFTER it (for the following siblings)
func (w *c09uWalker) stmt(s ast.Stmt, guards []string, source string, inElseOf *ast.IfStmt) string {
	switch v := s.(type) {
	case *ast.BlockStmt:
		w.block(v.List, guards, source, inElseOf)
	case *ast.IfStmt:
		inner := c09uKeySource(v.Init, source)
		inner = c09uKeySource(v.Cond, inner)
		w.block(v.Body.List, c09uWith(guards, c09uIfText(v)), inner, inElseOf) // still inside the nearest enclosing ELSE
		switch e := v.Else.(type) {
		case *ast.BlockStmt:
			w.block(e.List, c09uWith(guards, "else("+c09uIfText(v)+")"), inner, v)
		case *ast.IfStmt:
			w.stmt(e, c09uWith(guards, "else("+c09uIfText(v)+")"), inner, nil)
		}
	case *ast.ForStmt:
		w.block(v.Body.List, guards, source, inElseOf)
	case *ast.RangeStmt:
		w.block(v.Body.List, guards, source, inElseOf)
	case *ast.SwitchStmt:
		tag := src(v.Tag)
		for _, c := range v.Body.List {
			cc := c.(*ast.CaseClause)
			g := "switch " + tag + " default"
			if cc.List != nil {
				var vals []string
				for _, e := range cc.List {
					vals = append(vals, src(e))
				}
				g = "switch " + tag + " case " + strings.Join(vals, ", ")
			}
			w.block(cc.Body, c09uWith(guards, g), source, nil)
		}
	case *ast.TypeSwitchStmt:
		tag := src(v.Assign)
		for _, c := range v.Body.List {
			cc := c.(*ast.CaseClause)
			g := "switch " + tag + " default"
			if cc.List != nil {
				var vals []string
				for _, e := range cc.List {
					vals = append(vals, src(e))
				}
				g = "switch " + tag + " case " + strings.Join(vals, ", ")
			}
			w.block(cc.Body, c09uWith(guards, g), source, nil)
		}
	case *ast.ReturnStmt:
		if w.before != 0 && v.Pos() < w.before {
			w.returns = append(w.returns, c09uReturn{handler: w.handler, guards: guards})
		}
	case *ast.ExprStmt:
		if call, ok := v.X.(*ast.CallExpr); ok {
			if expr, ok := c09uWhereArg(call); ok {
				w.sites = append(w.sites, c09uSite{guards: guards, source: source, expr: expr})
				if source == "updating" && inElseOf != nil {
					w.valueIf = inElseOf
				}
			}
		}
	default:
		source = c09uKeySource(s, source)
	}
	return source
}

func c09uOrDisjuncts(e ast.Expr) []string {
	if p, ok := e.(*ast.ParenExpr); ok {
		return c09uOrDisjuncts(p.X)
	}
	if be, ok := e.(*ast.BinaryExpr); ok && be.Op == token.LOR {
		return append(c09uOrDisjuncts(be.X), c09uOrDisjuncts(be.Y)...)
	}
	return []string{src(e)}
}

func genUpdateKeyFacts(o *out, cb map[string]*ast.File) {
	var sites []c09uSite
	var valueGuard []string
	valueInElse := false
	var returns []c09uReturn
	for _, f := range cb {
		for _, d := range f.Decls {
			fd, ok := d.(*ast.FuncDecl)
			if !ok || fd.Recv != nil || fd.Body == nil {
				continue
			}
			switch fd.Name.Name {
			case "ConvertToAssignments":
				w := &c09uWalker{}
				w.block(fd.Body.List, nil, "other", nil)
				sites = w.sites
				if w.valueIf != nil {
					valueInElse = true
					valueGuard = c09uOrDisjuncts(w.valueIf.Cond)
				}
			case "Update", "Delete":
				// the handler closure: `return func(db *gorm.DB) { … }`
				for _, st := range fd.Body.List {
					rs, ok := st.(*ast.ReturnStmt)
					if !ok || len(rs.Results) != 1 {
						continue
					}
					fl, ok := rs.Results[0].(*ast.FuncLit)
					if !ok {
						continue
					}
					var guardPos token.Pos
					ast.Inspect(fl.Body, func(x ast.Node) bool {
						if call, ok := x.(*ast.CallExpr); ok && src(call.Fun) == "checkMissingWhereConditions" && guardPos == 0 {
							guardPos = call.Pos()
						}
						return true
					})
					if guardPos == 0 {
						guardPos = fl.Body.End() // no guard at all: every return bypasses it
					}
					w := &c09uWalker{handler: fd.Name.Name, before: guardPos}
					w.block(fl.Body.List, nil, "other", nil)
					returns = append(returns, w.returns...)
				}
			}
		}
	}
	// Update before Delete, source order inside
	var ordered []c09uReturn
	for _, h := range []string{"Update", "Delete"} {
		for _, r := range returns {
			if r.handler == h {
				ordered = append(ordered, r)
			}
		}
	}

	var b strings.Builder
	b.WriteString("/-- one `stmt.AddClause(clause.Where{…})` of callbacks/update.go ConvertToAssignments: the conditions on the way to it,\n    whose key it reads (\"reflect\" = stmt.ReflectValue, i.e. the Model value; \"updating\" = updatingValue, the value handed to\n    Updates), and the type of the expression it adds -/\n")
	b.WriteString("structure UpdWhereSite where\n  guards : List String\n  source : String\n  expr : String\nderiving DecidableEq, Repr\n\n")
	b.WriteString("def updateWhereSites : List UpdWhereSite := [\n")
	for i, s := range sites {
		sep := ","
		if i == len(sites)-1 {
			sep = ""
		}
		b.WriteString(fmt.Sprintf("  { guards := %s, source := %s, expr := %s }%s\n", lstrs(s.guards), lstr(s.source), lstr(s.expr), sep))
	}
	b.WriteString("]\n\n")
	b.WriteString("/-- the site that reads the UPDATING value's key sits in the ELSE branch of an `if` -/\n")
	b.WriteString("def updateValueKeyInElse : Bool := " + lbool(valueInElse) + "\n\n")
	b.WriteString("/-- … whose condition is the disjunction of these: the ELSE is reached only when ALL of them are false -/\n")
	b.WriteString("def updateValueKeyGuard : List String := " + lstrs(valueGuard) + "\n\n")
	b.WriteString("/-- a `return` of a handler closure (callbacks/update.go Update, callbacks/delete.go Delete) that lies BEFORE the call of\n    checkMissingWhereConditions: a way to finish without the guard having run -/\n")
	b.WriteString("structure BypassReturn where\n  handler : String\n  guards : List String\nderiving DecidableEq, Repr\n\n")
	b.WriteString("def guardBypassReturns : List BypassReturn := [\n")
	for i, r := range ordered {
		sep := ","
		if i == len(ordered)-1 {
			sep = ""
		}
		b.WriteString(fmt.Sprintf("  { handler := %s, guards := %s }%s\n", lstr(r.handler), lstrs(r.guards), sep))
	}
	b.WriteString("]\n")
	o.write("UpdateKeyFacts", b.String())
}
