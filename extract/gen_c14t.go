package main

// C14 round 5 fact generator: HOW prepare_stmt.go uses the statement TEXT.
//
// The cache LTS (Model/StmtCache.lean) is parametric in the text: a text is only ever a map key.  That is a claim about
// the source: every occurrence of a `string` parameter (the `query`) of a function of prepare_stmt.go is
//
//	"key"     the index of a `….Stmts[query]` expression (lookup, double check, publish, guard of a delete),
//	"delete"  the key of `delete(….Stmts, query)`,
//	"pass"    a direct argument of a method call (recorded with the callee: `prepare`, `PrepareContext`, …),
//	"other"   anything else — len(query), strings.X(query), a comparison, a slice, a conversion, an assignment to it …
//
// and no `if` / `switch` / `for` condition mentions the text except as such a map index ("direct" otherwise).  An
// admission rule that depends on the text (length bound, statement-kind prefix, normalised key) shows up as an
// "other" use or a "direct" condition and breaks `C14_text_uniform_sites`.

import (
	"fmt"
	"go/ast"
	"go/parser"
	"path/filepath"
	"strings"
)

func init() {
	extraGens = append(extraGens, func(o *out, pkgs map[string]map[string]*ast.File, all []funcInfo, repo string) {
		genStmtCacheTextFacts(o, repo)
	})
}

func genStmtCacheTextFacts(o *out, repo string) {
	header := "structure TextUse where\n  fn : String\n  line : Nat\n  kind : String\n  callee : String\nderiving Repr, DecidableEq\n\n" +
		"structure TextCond where\n  fn : String\n  line : Nat\n  mention : String\nderiving Repr, DecidableEq\n\n"
	f, err := parser.ParseFile(fset, filepath.Join(repo, "prepare_stmt.go"), nil, 0)
	if err != nil {
		o.write("StmtCacheTextFacts", header+"-- prepare_stmt.go not parseable: facts unknown\ndef textFuncs : List String := []\ndef textUses : List TextUse := []\ndef textConds : List TextCond := []\ndef rowErrPaths : List (String × String) := []\n")
		return
	}
	var funcs, uses, conds, rowErr []string
	for _, d := range f.Decls {
		fd, ok := d.(*ast.FuncDecl)
		if !ok || fd.Body == nil || fd.Type.Params == nil {
			continue
		}
		name := fd.Name.Name
		if fd.Recv != nil && len(fd.Recv.List) > 0 {
			name = strings.TrimPrefix(src(fd.Recv.List[0].Type), "*") + "." + name
		}
		texts := map[string]bool{}
		for _, p := range fd.Type.Params.List {
			if id, ok := p.Type.(*ast.Ident); ok && id.Name == "string" {
				for _, n := range p.Names {
					texts[n.Name] = true
				}
			}
		}
		if len(texts) == 0 {
			continue
		}
		funcs = append(funcs, name)
		if fd.Name.Name == "QueryRowContext" {
			// what the caller gets when `prepare` fails: the top-level return that is not inside the `err == nil` branch
			for _, st := range fd.Body.List {
				if ret, ok := st.(*ast.ReturnStmt); ok && len(ret.Results) == 1 {
					rowErr = append(rowErr, fmt.Sprintf("  (%q, %q)", name, src(ret.Results[0])))
				}
			}
		}
		isText := func(e ast.Expr) bool {
			id, ok := e.(*ast.Ident)
			return ok && texts[id.Name]
		}
		// classify every occurrence through its parent
		classified := map[*ast.Ident]bool{}
		add := func(id *ast.Ident, kind, callee string) {
			classified[id] = true
			uses = append(uses, fmt.Sprintf("  { fn := %q, line := %d, kind := %q, callee := %q }", name, fset.Position(id.Pos()).Line, kind, callee))
		}
		ast.Inspect(fd.Body, func(n ast.Node) bool {
			switch x := n.(type) {
			case *ast.IndexExpr:
				if isText(x.Index) && strings.HasSuffix(src(x.X), "Stmts") {
					add(x.Index.(*ast.Ident), "key", "")
				}
			case *ast.CallExpr:
				if id, ok := x.Fun.(*ast.Ident); ok && id.Name == "delete" && len(x.Args) == 2 && isText(x.Args[1]) && strings.HasSuffix(src(x.Args[0]), "Stmts") {
					add(x.Args[1].(*ast.Ident), "delete", "")
					return true
				}
				if sel, ok := x.Fun.(*ast.SelectorExpr); ok {
					for _, a := range x.Args {
						if isText(a) {
							add(a.(*ast.Ident), "pass", sel.Sel.Name)
						}
					}
				}
			}
			return true
		})
		ast.Inspect(fd.Body, func(n ast.Node) bool {
			if id, ok := n.(*ast.Ident); ok && texts[id.Name] && !classified[id] {
				add(id, "other", "")
			}
			return true
		})
		// conditions: does the text occur in them outside a `….Stmts[text]` index?
		mention := func(e ast.Node) string {
			if e == nil {
				return "none"
			}
			m := "none"
			var visit func(n ast.Node)
			visit = func(n ast.Node) {
				ast.Inspect(n, func(c ast.Node) bool {
					if c == nil || m == "direct" {
						return false
					}
					if ix, ok := c.(*ast.IndexExpr); ok && isText(ix.Index) && strings.HasSuffix(src(ix.X), "Stmts") {
						if m == "none" {
							m = "key"
						}
						visit(ix.X)
						return false
					}
					if id, ok := c.(*ast.Ident); ok && texts[id.Name] {
						m = "direct"
					}
					return true
				})
			}
			visit(e)
			return m
		}
		ast.Inspect(fd.Body, func(n ast.Node) bool {
			var parts []ast.Node
			switch x := n.(type) {
			case *ast.IfStmt:
				parts = []ast.Node{x.Init, x.Cond}
			case *ast.SwitchStmt:
				parts = []ast.Node{x.Init, x.Tag}
			case *ast.ForStmt:
				parts = []ast.Node{x.Init, x.Cond, x.Post}
			case *ast.CaseClause:
				for _, e := range x.List {
					parts = append(parts, e)
				}
			default:
				return true
			}
			worst := "none"
			for _, p := range parts {
				if p == nil || isNilNode(p) {
					continue
				}
				switch mention(p) {
				case "direct":
					worst = "direct"
				case "key":
					if worst == "none" {
						worst = "key"
					}
				}
			}
			conds = append(conds, fmt.Sprintf("  { fn := %q, line := %d, mention := %q }", name, fset.Position(n.Pos()).Line, worst))
			return true
		})
	}
	body := header +
		"/-- prepare_stmt.go: the functions that take a statement text (a `string` parameter) -/\n" +
		"def textFuncs : List String := [" + quoteJoin(funcs) + "]\n\n" +
		"/-- every occurrence of the text inside those functions: \"key\" (index of `….Stmts[text]`), \"delete\" (key of\n    `delete(….Stmts, text)`), \"pass\" (direct argument of the method `callee`), \"other\" (anything else) -/\n" +
		"def textUses : List TextUse := [\n" + strings.Join(uses, ",\n") + "\n]\n\n" +
		"/-- every if / switch / for / case of those functions: does its init/condition mention the text — \"none\", \"key\" (only as\n    the index of `….Stmts[text]`), \"direct\" -/\n" +
		"def textConds : List TextCond := [\n" + strings.Join(conds, ",\n") + "\n]\n"
	body += "\n/-- QueryRowContext of the cache and of its transaction: the expression returned when `prepare` failed (closed cache,\n    failed PrepareContext) — `&sql.Row{}` is an EMPTY row: no error inside, Scan dereferences its nil rows -/\n" +
		"def rowErrPaths : List (String × String) := [\n" + strings.Join(rowErr, ",\n") + "\n]\n"
	o.write("StmtCacheTextFacts", body)
}

func quoteJoin(xs []string) string {
	var q []string
	for _, x := range xs {
		q = append(q, fmt.Sprintf("%q", x))
	}
	return strings.Join(q, ", ")
}

func isNilNode(n ast.Node) bool {
	switch x := n.(type) {
	case ast.Expr:
		return x == nil
	case ast.Stmt:
		return x == nil
	}
	return false
}
