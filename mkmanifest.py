#!/usr/bin/env python3
"""Regenerates MANIFEST.json from lean/obligations/*.json + manifest_text/*.json (level text per property)."""
import json, os
ROOT = os.path.dirname(os.path.abspath(__file__))
def loaddir(d):
    return {fn[:-5]: json.load(open(os.path.join(d, fn))) for fn in sorted(os.listdir(d)) if fn.endswith(".json")}
obs = loaddir(os.path.join(ROOT, "lean", "obligations"))
txt = loaddir(os.path.join(ROOT, "manifest_text"))
props = [json.loads(l) for l in open(os.path.join(ROOT, "properties.jsonl"))]
baseline = json.load(open("/root/.vp/BASELINE.json"))["cmd"] if os.path.exists("/root/.vp/BASELINE.json") else ""
checks, na = [], []
for p in props:
    pid = p["id"]
    t = txt.get(pid)
    if pid in obs and t and t.get("claimed", True):
        checks.append({
            "property_id": pid,
            "quick_cmd": f"./check {pid} quick",
            "thorough_cmd": f"./check {pid} thorough",
            "evidence_file": f"/verif/evidence/{pid}.json",
            "replay_cmd_template": f"./check {pid} --replay {{path}}",
            "engine": "lean-model+go-harness",
            "level_claimed": {"category": t.get("category", "proof"), "text": t["text"], "design_ref": t.get("design_ref", "DESIGN.md §4 " + pid)},
            "level_note": t["note"],
            "technique": t.get("technique", "Lean 4 theorems over an executable model + model/implementation correspondence check"),
        })
    else:
        na.append({"property_id": pid, "reason": (t or {}).get("na_reason", "check not built yet in this round; see DESIGN.md §4 for the planned Lean model")})
m = {
    "version": 1,
    "setup_cmd": "./setup",
    "hooks": {"guard": "verif", "enable": "go build -tags verif (harness module with replace gorm.io/gorm => /repo; no source hooks in /repo at present)",
              "baseline_off_cmd": baseline, "source_commits": [], "add_only": True},
    "engines": [
        {"name": "lean-model", "path": "/verif/lean", "serves_properties": sorted(obs), "kind_free_text": "Lean 4 executable model + theorems (lake project GormModel), audited with #print axioms and a statement lock"},
        {"name": "go-extract", "path": "/verif/extract", "serves_properties": sorted(k for k in obs if txt.get(k, {}).get("uses_extract")), "kind_free_text": "go/ast fact extractor regenerating lean/GormModel/Gen/*.lean from /repo on every run"},
        {"name": "go-harness", "path": "/verif/harness", "serves_properties": sorted(obs), "kind_free_text": "differential correspondence (real gorm vs Lean driver over a line protocol) + end-to-end oracles on SQLite behind a recording/fault-injecting driver"},
    ],
    "checks": checks,
    "not_applicable": na,
    "notes": "Every check: regenerate facts from /repo -> lake build theorems -> audit axioms/statements -> build harness against /repo -> correspondence + e2e oracle. See DESIGN.md.",
}
json.dump(m, open(os.path.join(ROOT, "MANIFEST.json"), "w"), indent=1)
print("checks:", [c["property_id"] for c in checks], "n/a:", len(na))

# known_findings.json = concatenation of known_findings.d/Cxx.json (one list of entries per property);
# both are committed, nothing is ever added at run time.
kd = os.path.join(ROOT, "known_findings.d")
fs = []
if os.path.isdir(kd):
    for fn in sorted(os.listdir(kd)):
        if fn.endswith(".json"):
            fs += json.load(open(os.path.join(kd, fn)))
json.dump({"findings": fs}, open(os.path.join(ROOT, "known_findings.json"), "w"), indent=1)
print("known findings:", [f["id"] for f in fs])
