package main

// C14: the prepared-statement cache is transparent, leak-free, safe in any interleaving.
//
// suite "forced" (correspondence + e2e on the same runs): schedules are forced on the REAL cache
// (c14_world.go), the observed trace is checked for inclusion in the Lean LTS (`sc.check`), and the property
// itself is judged on the observations without the model (c14Judge).
// suite "pool" (e2e, c14_pool.go): the forced world with MaxOpenConns = 1, deadlock oracle only.
// Hanging caches: see "bail-outs" below (exact deadlock detection, hang counter, shortened timeout, abandon()).
// suite "gorm" (e2e): real gorm.Open / Session(PrepareStmt) on SQLite behind the recording driver: sequential
// and free-running concurrent use against the non-prepared reference, Reset/Close, open statements after Close.

import (
	"encoding/json"
	"fmt"
	"math/rand"
	"runtime"
	"sort"
	"strings"
	"sync/atomic"
	"time"
)

type c14Step struct {
	Kind  string          `json:"kind"` // start | prep | use
	T     int             `json:"t"`
	Ans   string          `json:"ans"`
	Gates [][]interface{} `json:"gates"`
}

type c14Run struct {
	NV      int       `json:"nv"`
	VStruct []int     `json:"vstruct,omitempty"` // observed: which views are ONE *PreparedStmtDB (struct id per view)
	Ops     []c14Op   `json:"ops"`
	Steps   []c14Step `json:"steps"`
	Results []string  `json:"results"`
	Closed  []bool    `json:"closed"`
	HTx     []bool    `json:"htx"`
	Preps   []int     `json:"preps"`
	Hang    bool      `json:"hang"`
	// quiescent = exact: no goroutine can run, nothing is parked, an operation has not returned (a deadlock);
	// timeout = the process did not become quiescent within the settle timeout (load-dependent: re-confirmed)
	HangKind string     `json:"hang_kind,omitempty"`
	MaxOpen  int        `json:"max_open,omitempty"` // database/sql pool limit of the world (suite "pool"), 0 = unlimited
	Events   []c14Event `json:"events"`
	// after the schedule: Close on every struct + drain
	OpenDriverStmts int   `json:"open_driver_stmts_after_close"`
	OpenHandles     []int `json:"open_handles_after_close"`
	Choices         []int `json:"choices"`
	Widths          []int `json:"-"`
	// which SQL texts stand behind the text indexes (c14ShapedSQL: length / letter case / white space / empty): the cache
	// must not care, so the Lean LTS is not told
	Shape     int    `json:"shape,omitempty"`
	ShapeNote string `json:"shape_note,omitempty"`
}

func c14NQ(ops []c14Op) int {
	n := 1
	for _, o := range ops {
		if o.Text+1 > n {
			n = o.Text + 1
		}
		if o.Kind == "tx2" && o.Text+3 > n { // second statement of the transaction: text+2
			n = o.Text + 3
		}
	}
	return n
}

type c14Choice struct {
	Kind string
	T    int
	Ans  string
}

// ---- bail-outs of the forced suites against a cache whose goroutines hang ----
//
// A deadlock is detected exactly and at once (quiescent process, nothing parked, an operation not returned); only a
// livelock / an overloaded machine costs the settle timeout.  After the first confirmed hang the timeout is
// shortened, later hangs are no longer re-confirmed, and after c14MaxHangs confirmed hangs the rest of the forced
// schedules (exhaustive and random) is skipped: one reproducible hang already is the violation.
const c14MaxHangs = 3

var c14ForcedHangs int // confirmed hangs of forced worlds in this process

var c14UnlistedSeen = map[string]int{} // violations matching the pattern of a finding whose entry is not "finding" (any more)

func c14SettleTimeout() time.Duration {
	if c14ForcedHangs > 0 {
		return 500 * time.Millisecond
	}
	return 3 * time.Second
}

func c14ForcedBail() bool { return c14ForcedHangs >= c14MaxHangs }

// c14Execute runs one adaptive forced schedule; pick(i, choices) selects the i-th decision.
func c14Execute(nV int, ops []c14Op, useErrAns bool, pick func(i int, ch []c14Choice) int) *c14Run {
	return c14ExecutePool(nV, ops, 0, useErrAns, pick)
}

func c14ExecutePool(nV int, ops []c14Op, maxOpen int, useErrAns bool, pick func(i int, ch []c14Choice) int) *c14Run {
	w := newC14WorldPool(nV, ops, true, maxOpen)
	w.shape = c14NextShape()
	run := &c14Run{NV: nV, Ops: ops, MaxOpen: maxOpen, VStruct: w.vstruct(), Shape: w.shape, ShapeNote: c14ShapeName(w.shape)}
	timeout := c14SettleTimeout()
	if !c14Settle(timeout) {
		run.Hang, run.HangKind = true, "timeout"
	}
	for i := 0; !run.Hang; i++ {
		var ch []c14Choice
		for t := range ops {
			if !w.started[t] {
				ch = append(ch, c14Choice{"start", t, "ok"})
			}
		}
		for _, g := range w.gateList() {
			t := g[0].(int)
			if g[1].(string) == "P" {
				ch = append(ch, c14Choice{"prep", t, "ok"}, c14Choice{"prep", t, "err"})
			} else {
				ch = append(ch, c14Choice{"use", t, "ok"}, c14Choice{"use", t, "bad"})
				if useErrAns {
					ch = append(ch, c14Choice{"use", t, "err"})
				}
			}
		}
		if len(ch) == 0 {
			break
		}
		k := pick(i, ch)
		run.Choices = append(run.Choices, k)
		run.Widths = append(run.Widths, len(ch))
		c := ch[k]
		if c.Kind == "start" {
			w.start(c.T)
		} else {
			w.release(c.T, c.Ans)
		}
		if !c14Settle(timeout) {
			run.Hang, run.HangKind = true, "timeout"
			run.Steps = append(run.Steps, c14Step{c.Kind, c.T, c.Ans, w.gateList()}) // the replay needs the step that did not settle
			break
		}
		run.Steps = append(run.Steps, c14Step{c.Kind, c.T, c.Ans, w.gateList()})
	}
	if !run.Hang && !w.allDone() {
		// nothing parked, nothing runnable, but an operation has not returned
		run.Hang, run.HangKind = true, "quiescent"
	}
	w.mu.Lock()
	run.Results = append([]string(nil), w.results...)
	run.Events = append([]c14Event(nil), w.events...)
	run.HTx = append([]bool(nil), w.htx...)
	nq := c14NQ(ops)
	run.Preps = make([]int, nq)
	copy(run.Preps, w.preps)
	w.mu.Unlock()
	run.Closed = w.closedFlags()
	if run.Hang {
		w.abandon() // release what is parked, close from a helper goroutine; never wait for this world again
		return run
	}
	for _, v := range w.views {
		v.Close()
	}
	c14Settle(timeout)
	for i, c := range w.closedFlags() {
		if !c {
			run.OpenHandles = append(run.OpenHandles, i)
		}
	}
	run.OpenDriverStmts = int(atomic.LoadInt64(&w.openDrv))
	w.sqlDB.Close()
	return run
}

func (run *c14Run) leanOp() []interface{} {
	// the views of the Lean LTS are STRUCTS: views that turned out to be one *PreparedStmtDB are one view there
	ops := [][]interface{}{}
	for _, o := range run.Ops {
		ops = append(ops, []interface{}{o.Kind, run.structOf(o.View), o.Text})
	}
	steps := [][]interface{}{}
	for _, s := range run.Steps {
		steps = append(steps, []interface{}{s.Kind, s.T, s.Ans, s.Gates})
	}
	closed := run.Closed
	if closed == nil {
		closed = []bool{}
	}
	return []interface{}{"sc.check", run.nStructs(), c14NQ(run.Ops), ops, steps,
		map[string]interface{}{"res": run.Results, "closed": closed, "preps": run.Preps}}
}

// structOf: the struct behind view v (runs stored before VStruct existed: every view its own struct)
func (run *c14Run) structOf(v int) int {
	if v >= 0 && v < len(run.VStruct) {
		return run.VStruct[v]
	}
	return v
}

func (run *c14Run) nStructs() int {
	n := 0
	for v := 0; v < run.NV; v++ {
		if s := run.structOf(v); s+1 > n {
			n = s + 1
		}
	}
	if n == 0 {
		n = 1
	}
	return n
}

// ---- what the regenerated facts say about the gorm.go under check (generators and notes follow it; the oracles do not) ----

type c14FactsT struct {
	SessReuse  bool // Session(PrepareStmt) hands the registered struct itself to the new handle (F14a repaired)
	SessAtomic bool // Session registers a cache it creates with LoadOrStore (F14d repaired)
	OK         bool
}

var c14FactsCache *c14FactsT

func c14Facts() c14FactsT {
	if c14FactsCache == nil {
		f := c14FactsT{}
		if outs, err := AskLean([][]interface{}{{"sc.cfg"}}); err == nil && len(outs) == 1 {
			var m struct {
				SessReuse  *bool `json:"sess_reuse"`
				SessAtomic *bool `json:"sess_atomic"`
			}
			if json.Unmarshal(outs[0], &m) == nil && m.SessReuse != nil && m.SessAtomic != nil {
				f = c14FactsT{*m.SessReuse, *m.SessAtomic, true}
			}
		}
		c14FactsCache = &f
	}
	return *c14FactsCache
}

// ---- the property judged on the observations alone (no model) ----

type c14Verdict struct {
	What    string // hang | result | prepares | leak
	Detail  string
	Finding string // id of the listed finding whose pattern the witness matches ("" = none)
}

func c14Judge(run *c14Run) []c14Verdict {
	var out []c14Verdict
	if run.Hang {
		return []c14Verdict{{"hang", c14HangDetail(run), ""}}
	}
	idx := func(t int, what string) int {
		for i, e := range run.Events {
			if e.T == t && strings.HasPrefix(e.What, what) {
				return i
			}
		}
		return -1
	}
	finIdx := func(t int) int {
		if i := idx(t, "fin"); i >= 0 {
			return i
		}
		return len(run.Events)
	}
	// per-text counts of driver answers
	nq := c14NQ(run.Ops)
	failP, badU := make([]int, nq), make([]int, nq)
	for _, e := range run.Events {
		if e.What == "relP:err" {
			failP[e.Text]++
		}
		if e.What == "relU:bad" {
			badU[e.Text]++
		}
	}
	nReset, txOn := 0, make([]int, nq)
	for _, o := range run.Ops {
		if o.Kind == "reset" || o.Kind == "close" {
			nReset++
		}
		if o.Kind == "tx" {
			txOn[o.Text]++
		}
	}
	for t, o := range run.Ops {
		r := run.Results[t]
		if o.Kind == "reset" || o.Kind == "close" {
			if r != "done" {
				out = append(out, c14Verdict{"result", fmt.Sprintf("goroutine %d (%s): %s", t, o.Kind, r), ""})
			}
			continue
		}
		st, fi := idx(t, "start"), finIdx(t)
		// was a Close / Reset of a struct started before this goroutine finished?
		closeOwn, resetOwn, rcOther := false, false, false
		for u, p := range run.Ops {
			if p.Kind != "reset" && p.Kind != "close" {
				continue
			}
			if su := idx(u, "start"); su >= 0 && su < fi {
				if run.structOf(p.View) == run.structOf(o.View) { // the same *PreparedStmtDB (observed identity)
					if p.Kind == "close" {
						closeOwn = true
					} else {
						resetOwn = true
					}
				} else {
					rcOther = true
				}
			}
		}
		evictSame := false
		for i, e := range run.Events {
			if e.What == "relU:bad" && e.Text == o.Text && e.T != t && i < fi {
				evictSame = true
			}
		}
		ok := false
		switch r {
		case "rows":
			ok = true
		case "prepErr":
			// legitimate iff a PrepareContext for this text failed while this goroutine was in flight
			for i, e := range run.Events {
				if e.What == "relP:err" && e.Text == o.Text && i > st && i < fi {
					ok = true
				}
			}
		case "useErr":
			ok = idx(t, "relU:err") >= 0
		case "badConn":
			ok = idx(t, "relU:bad") >= 0
		case "invalidDB":
			ok = closeOwn // "a clean error once the cache is closed"
		default:
			// any other error is acceptable only once the goroutine's own cache struct was closed
			ok = closeOwn && !strings.HasPrefix(r, "panic") && r != "wrongRows"
		}
		if ok {
			continue
		}
		v := c14Verdict{"result", fmt.Sprintf("goroutine %d (%s view %d text %d) returned %s", t, o.Kind, o.View, o.Text, r), ""}
		if r == "stmtClosed" && o.Kind == "use" {
			if rcOther {
				v.Finding = "F14a-C14-stale-shared-map"
			} else if resetOwn || evictSame {
				v.Finding = "F14c-C14-closed-while-held"
			}
		}
		if r == "prepErr" && rcOther {
			v.Finding = "F14a-C14-stale-shared-map" // a failed entry stays in the map object another struct still uses
		}
		out = append(out, v)
	}
	// at most one PrepareContext per text per generation under concurrent demand; every failure, eviction,
	// Reset/Close and transaction-flagged entry may legitimately cost one more
	for q := 0; q < nq; q++ {
		allow := 1 + failP[q] + badU[q] + nReset + txOn[q]
		if run.nStructs() > 1 && nReset > 0 {
			continue // stale structs: covered by F14a, no bound claimed
		}
		if run.Preps[q] > allow {
			out = append(out, c14Verdict{"prepares", fmt.Sprintf("text %d: %d PrepareContext calls, at most %d explainable", q, run.Preps[q], allow), ""})
		}
	}
	// every statement the cache prepared is closed after Close (+drain)
	if len(run.OpenHandles) > 0 || run.OpenDriverStmts != 0 {
		v := c14Verdict{"leak", fmt.Sprintf("after Close on every struct: %d driver statements open, unclosed handles %v", run.OpenDriverStmts, run.OpenHandles), ""}
		// pattern F14b: a goroutine X whose PrepareContext failed / whose execution got ErrBadConn on text q, and another
		// goroutine's PrepareContext for q arrived while X was in flight (the key was re-published under X's feet)
		for x, o := range run.Ops {
			if o.Kind != "use" && o.Kind != "tx" {
				continue
			}
			rel := idx(x, "relP:err")
			if rel < 0 {
				rel = idx(x, "relU:bad")
			}
			if rel < 0 {
				continue
			}
			st := idx(x, "start")
			for i, e := range run.Events {
				if e.What == "arriveP" && e.T != x && e.Text == o.Text && i > st && i < rel {
					v.Finding = "F14b-C14-late-delete-leak"
				}
			}
		}
		out = append(out, v)
	}
	return out
}

func c14HangDetail(run *c14Run) string {
	if run.HangKind == "timeout" {
		return "the goroutines did not come to rest within the settle timeout after a start/release (busy goroutine or livelock)"
	}
	return "an operation did not return although every parked driver call was released"
}

// ---- configurations ----

func c14Configs() (out []struct {
	NV  int
	Ops []c14Op
}) {
	add := func(nv int, ops ...c14Op) {
		out = append(out, struct {
			NV  int
			Ops []c14Op
		}{nv, ops})
	}
	u := func(v, q int) c14Op { return c14Op{"use", v, q} }
	x := func(v, q int) c14Op { return c14Op{"tx", v, q} }
	// 2 goroutines x 2 texts x {use, tx}, alone and with Reset / Close
	for _, a := range []c14Op{u(0, 0), x(0, 0)} {
		for _, b := range []c14Op{u(0, 0), u(0, 1), x(0, 0), x(0, 1)} {
			add(1, a, b)
			add(1, a, b, c14Op{"reset", 0, 0})
			add(1, a, b, c14Op{"close", 0, 0})
		}
	}
	add(1, u(0, 0), u(0, 0), u(0, 0))
	return
}

func c14SampleKey(run *c14Run) string {
	return canon(map[string]interface{}{"nv": run.NV, "ops": run.Ops, "steps": run.Steps, "shape": run.Shape})
}

func c14RandomOps(rng *rand.Rand) (int, []c14Op) {
	nv := 1
	if c14Facts().SessReuse {
		// repaired F14a: a session-level view is the registered struct itself — ordinary input space
		nv = 1 + rng.Intn(2)
	} else if rng.Intn(8) == 0 { // mostly avoid the listed stale-struct pattern
		nv = 2
	}
	n := 2 + rng.Intn(3)
	nq := 1 + rng.Intn(2)
	var ops []c14Op
	for i := 0; i < n; i++ {
		k := "use"
		switch r := rng.Intn(20); {
		case r < 4:
			k = "tx"
		case r == 4:
			k = "reset"
		case r == 5:
			k = "close"
		}
		ops = append(ops, c14Op{k, rng.Intn(nv), rng.Intn(nq)})
	}
	return nv, ops
}

func c14Record(r *Result, suite string, run *c14Run) {
	nt := false
	for _, s := range run.Steps {
		if s.Kind != "start" && len(s.Gates) > 0 {
			nt = true // a driver call returned while another goroutine was parked: a genuine interleaving
		}
	}
	r.Case(suite, c14SampleKey(run), nt)
	r.H("c14.goroutines", fmt.Sprint(len(run.Ops)))
	r.H("c14.text_shape", c14ShapeName(run.Shape))
	r.H("c14.steps", fmt.Sprint(len(run.Steps)))
	for _, o := range run.Ops {
		r.H("c14.op", o.Kind)
	}
	for _, s := range run.Steps {
		if s.Kind != "start" {
			r.H("c14.answer", s.Kind+":"+s.Ans)
		}
	}
	for _, x := range run.Results {
		r.H("c14.result", x)
	}
}

func c14Report(r *Result, suite string, run *c14Run) { c14ReportV(r, suite, run, c14Judge(run)) }

func c14ReportV(r *Result, suite string, run *c14Run, verdicts []c14Verdict) {
	for _, v := range verdicts {
		if v.What == "hang" {
			if !c14ConfirmHang(r, run) {
				continue
			}
			v.Detail += " [" + run.HangKind + "]"
		}
		if v.Finding != "" && listed(v.Finding) {
			r.KnownFinding(v.Finding, v.What+": "+v.Detail)
			continue
		}
		if v.Finding != "" {
			// the pattern of a finding that is NOT listed (any more): an ordinary violation; one replay per pattern is enough
			// (the check prints the first three violations — leave room for the other suites)
			c14UnlistedSeen[v.Finding]++
			r.H("c14.unlisted-pattern", v.Finding)
			if c14UnlistedSeen[v.Finding] > 1 {
				continue
			}
		}
		r.Violate(Violation{Kind: "e2e", Suite: suite, Input: run, Observed: v.Detail, Expected: "C14: " + v.What + " oracle", Note: v.Finding})
	}
}

// c14ConfirmHang decides whether a hanging run counts.  The first one is re-run alone 3x and counts only when it
// hangs every time (a loaded machine can exceed the settle timeout once); once a hang is confirmed the cache is known
// to be broken and further hangs are counted as they come (no 3x re-run, the shortened timeout applies).
func c14ConfirmHang(r *Result, run *c14Run) bool {
	r.H("c14.hang", run.HangKind)
	if c14ForcedHangs == 0 {
		rep := 0
		for k := 0; k < 3; k++ {
			if !c14Replay(run).Hang {
				break
			}
			rep++
		}
		if rep < 3 {
			r.Note("transient %s hang (%d/3 on re-run) ignored: %s", run.HangKind, rep, canon(run.Ops))
			return false
		}
	} else if run.HangKind == "timeout" {
		// with the shortened timeout a timeout is weak evidence: one re-run must agree
		if !c14Replay(run).Hang {
			return false
		}
	}
	c14ForcedHangs++
	if c14ForcedHangs == 1 {
		r.Note("first reproducible hang of a forced schedule (%s): settle timeout shortened to %v, further hangs are not re-confirmed 3x", run.HangKind, c14SettleTimeout())
	}
	return true
}

func c14Replay(run *c14Run) *c14Run {
	c14ForceShape = run.Shape
	defer func() { c14ForceShape = -1 }()
	return c14ExecutePool(run.NV, run.Ops, run.MaxOpen, true, func(i int, ch []c14Choice) int {
		if i < len(run.Steps) {
			for k, c := range ch {
				if c.Kind == run.Steps[i].Kind && c.T == run.Steps[i].T && c.Ans == run.Steps[i].Ans {
					return k
				}
			}
		}
		return 0
	})
}

// validate a batch of runs against the Lean LTS
func c14Validate(r *Result, suite string, runs []*c14Run) {
	var ops [][]interface{}
	for _, run := range runs {
		ops = append(ops, run.leanOp())
	}
	outs, err := AskLean(ops)
	if err != nil {
		r.Violate(Violation{Kind: "correspondence", Suite: suite, Note: err.Error()})
		return
	}
	for i, raw := range outs {
		var res struct {
			OK            bool     `json:"ok"`
			Deterministic bool     `json:"deterministic"`
			Labels        []string `json:"labels"`
			Foreign       bool     `json:"foreign"`
			Leak          bool     `json:"leak"`
		}
		run := runs[i]
		if run.Hang {
			continue
		}
		r.CorrCompared++
		if json.Unmarshal(raw, &res) != nil || !res.OK {
			r.Violate(Violation{Kind: "correspondence", Suite: suite, Input: run, Observed: map[string]interface{}{"results": run.Results, "closed": run.Closed, "preps": run.Preps},
				Expected: json.RawMessage(raw), Note: "forced schedule of the real cache is not a behaviour of the Lean LTS"})
			continue
		}
		r.H("c14.model.deterministic", fmt.Sprint(res.Deterministic))
		for _, l := range res.Labels {
			r.H("c14.model.branch", l)
		}
		r.H("c14.model.foreign-delete", fmt.Sprint(res.Foreign))
		// the model's leak verdict (handles unclosed and unreachable) must agree with what Close+drain leaves open
		realLeak := len(run.OpenHandles) > 0
		if res.Leak != realLeak {
			r.Violate(Violation{Kind: "correspondence", Suite: suite, Input: run, Observed: fmt.Sprintf("real: unclosed handles after Close = %v", run.OpenHandles),
				Expected: fmt.Sprintf("model leak = %v", res.Leak), Note: "leak verdicts differ"})
		}
	}
}

func init() {
	replay := func(suite string) func(r *Result, input json.RawMessage) {
		return func(r *Result, input json.RawMessage) {
			var run c14Run
			if json.Unmarshal(input, &run) != nil {
				return
			}
			for k := 0; k < 5; k++ { // some interleavings inside a wake-up are not forceable: try a few times
				got := c14Replay(&run)
				vs := c14Judge(got)
				if suite == "pool" {
					vs = c14PoolJudge(got)
				}
				if got.Hang && got.HangKind == "timeout" && !c14Replay(&run).Hang {
					continue // a timeout that does not repeat is load, not a hang
				}
				for _, v := range vs {
					if v.What == "hang" {
						v.Detail += " [" + got.HangKind + "]"
					}
					if v.Finding != "" && listed(v.Finding) {
						r.KnownFinding(v.Finding, v.Detail)
					} else {
						r.Violate(Violation{Kind: "e2e", Suite: suite, Input: got, Observed: v.Detail, Expected: "C14 " + v.What})
					}
				}
				if len(vs) > 0 || got.Hang {
					return // reproduced (a hang is never retried: the first reproduction is the answer)
				}
				if run.Hang && run.HangKind == "quiescent" && k >= 1 {
					return // a deadlock is deterministic under the forced schedule: two clean re-runs are enough
				}
			}
		}
	}
	replayers["C14/forced"] = replay("forced")
	replayers["C14/pool"] = replay("pool")

	register("C14", func(r *Result, rng *rand.Rand, tier string) {
		budget := 22 * time.Second
		nRandom := 1500
		if tier == "thorough" {
			budget, nRandom = 6*time.Minute, 60000
		} else if tier == "search" {
			budget, nRandom = 100*time.Second, 20000
		}
		t0 := time.Now()
		var batch []*c14Run
		flush := func() {
			if len(batch) > 0 {
				c14Validate(r, "forced", batch)
				batch = nil
			}
		}
		do := func(run *c14Run) {
			c14Record(r, "forced", run)
			c14Report(r, "forced", run)
			batch = append(batch, run)
			if len(batch) >= 400 {
				flush()
			}
		}
		bailed := false
		bail := func() bool {
			if c14ForcedBail() && !bailed {
				bailed = true
				r.Note("forced suite: %d confirmed hangs, the remaining forced schedules (exhaustive and random) are skipped", c14ForcedHangs)
			}
			return c14ForcedBail()
		}
		// dedicated probes of the listed findings (witnesses of the Lean counterexample theorems)
		c14Probes(r, do)
		// exhaustive: every forced schedule of the small configurations (stateless DFS over the choice tree)
		complete := 0
		cfgs := c14Configs()
		perCfg := budget / 2 / time.Duration(len(cfgs))
		for _, cfg := range cfgs {
			start := time.Now()
			prefix := []int{}
			done := false
			for !done && !expired() && !bail() {
				if time.Since(start) > perCfg && tier != "thorough" {
					break
				}
				run := c14Execute(cfg.NV, cfg.Ops, false, func(i int, ch []c14Choice) int {
					if i < len(prefix) && prefix[i] < len(ch) {
						return prefix[i]
					}
					return 0
				})
				do(run)
				// next path in DFS order
				p := append([]int(nil), run.Choices...)
				k := len(p) - 1
				for k >= 0 && p[k]+1 >= run.Widths[k] {
					k--
				}
				if k < 0 {
					done = true
					complete++
				} else {
					p = p[:k+1]
					p[k]++
					prefix = p
				}
			}
		}
		r.Note("exhaustive forced schedules: %d of %d configurations enumerated completely", complete, len(cfgs))
		r.H("c14.exhaustive.complete", fmt.Sprintf("%d/%d", complete, len(cfgs)))
		// random: up to 4 goroutines, 2 texts, 2 structs
		for i := 0; i < nRandom && time.Since(t0) < budget && !expired() && !bail(); i++ {
			nv, ops := c14RandomOps(rng)
			run := c14Execute(nv, ops, true, func(i int, ch []c14Choice) int { return rng.Intn(len(ch)) })
			do(run)
			if i%97 == 0 {
				r.Sample(map[string]interface{}{"suite": "forced", "ops": run.Ops, "steps": len(run.Steps), "results": run.Results, "preps": run.Preps})
			}
		}
		flush()
		c14PoolSuite(r, rng, tier)
		// the harness itself must not leak: every world is torn down (cache structs closed, pool closed)
		r.Note("goroutines alive after the forced suite: %d", runtime.NumGoroutine())
	})
}

// c14Probes replays the witnesses of the Lean counterexample theorems on the real cache.
func c14Probes(r *Result, do func(*c14Run)) {
	script := func(nv int, ops []c14Op, steps []c14Choice) *c14Run {
		return c14Execute(nv, ops, true, func(i int, ch []c14Choice) int {
			if i < len(steps) {
				for k, c := range ch {
					if c == steps[i] {
						return k
					}
				}
			}
			return 0
		})
	}
	// a probe that hangs is reported by do(); the remaining probes still run unless the suite bailed out
	// F14b witness 1: failed tx prepare deletes the non-tx entry that overwrote it
	run := script(1, []c14Op{{"tx", 0, 0}, {"use", 0, 0}},
		[]c14Choice{{"start", 0, "ok"}, {"start", 1, "ok"}, {"prep", 0, "err"}, {"prep", 1, "ok"}, {"use", 1, "ok"}})
	do(run)
	r.Note("probe F14b/1 (late delete after failed prepare): hang=%v results=%v unclosed-after-Close=%v", run.Hang, run.Results, run.OpenHandles)
	if c14ForcedBail() {
		return
	}
	// F14b witness 2: second ErrBadConn eviction deletes the re-prepared entry
	run = script(1, []c14Op{{"use", 0, 0}, {"use", 0, 0}, {"use", 0, 0}},
		[]c14Choice{{"start", 0, "ok"}, {"prep", 0, "ok"}, {"start", 1, "ok"}, {"use", 0, "bad"}, {"start", 2, "ok"},
			{"prep", 2, "ok"}, {"use", 2, "ok"}, {"use", 1, "bad"}})
	do(run)
	r.Note("probe F14b/2 (late ErrBadConn eviction): hang=%v results=%v unclosed-after-Close=%v", run.Hang, run.Results, run.OpenHandles)
	if c14ForcedBail() {
		return
	}
	// F14a witness: Reset through a session-level struct, then use through the other struct
	run = script(2, []c14Op{{"use", 1, 0}, {"reset", 1, 0}, {"use", 0, 0}},
		[]c14Choice{{"start", 0, "ok"}, {"prep", 0, "ok"}, {"use", 0, "ok"}, {"start", 1, "ok"}, {"start", 2, "ok"}})
	do(run)
	r.Note("probe F14a (Reset through a session-level view, then the database's own view): structs behind the 2 views=%v hang=%v results=%v (facts: session reuses the registered struct=%v)",
		run.VStruct, run.Hang, run.Results, c14Facts().SessReuse)
	// F14c witness: Reset while the prepare is in flight; the closer races the preparer's own execution
	seen, hung := 0, false
	for k := 0; k < 40 && seen == 0 && !c14ForcedBail(); k++ {
		run = script(1, []c14Op{{"use", 0, 0}, {"use", 0, 0}, {"reset", 0, 0}},
			[]c14Choice{{"start", 0, "ok"}, {"start", 1, "ok"}, {"start", 2, "ok"}, {"prep", 0, "ok"}, {"use", 0, "ok"}, {"use", 1, "ok"}})
		do(run)
		if run.Hang {
			hung = true // never loop over a hanging probe
			break
		}
		if run.Results[0] == "stmtClosed" || run.Results[1] == "stmtClosed" {
			seen = k + 1
		}
	}
	r.Note("probe F14c (Reset closes a statement its preparer is about to execute): reproduced at attempt %d (0 = not in 40 attempts) hang=%v", seen, hung)
	_ = sort.Ints
}
