package main

// C12 correspondence: the same operation sequences run on the real Association API (c12Exec) and on the Lean
// model (Model/Assoc.lean through the driver op "assoc.run"); after EVERY step the link table, the surviving
// target records, Count(), Find(), the distinct keys of each operated record's in-memory field, the error flag and
// the write-statement sequence (INSERT/UPDATE/DELETE per table) are compared.

import (
	"encoding/json"
	"fmt"
	"math/rand"
	"sort"
	"strings"
)

type c12LeanObs struct {
	Err     bool     `json:"err"`
	Links   [][2]int `json:"links"`
	Targets []int    `json:"targets"`
	Count   int      `json:"count"`
	Find    []int    `json:"find"`
	Mem     [][]int  `json:"mem"`
	Stmts   []string `json:"stmts"`
	Args    []int    `json:"args"`
}

func c12LeanInput(s c12Seq) map[string]interface{} {
	k := c12KindByName(s.Kind)
	links := [][2]int{}
	for _, b := range s.By {
		links = append(links, [2]int{c12Bystander, b})
	}
	mem := []interface{}{}
	if len(s.Own) > 0 {
		for _, b := range s.Own {
			links = append(links, [2]int{c12Owner1, b})
		}
		mem = append(mem, []interface{}{c12Owner1, s.Own})
	}
	targets := append(append([]int{}, s.Pre...), c12Sentinel)
	ops := []map[string]interface{}{}
	for _, op := range s.Ops {
		vals := [][]int{}
		switch {
		case op.Op == "clear":
		case op.Op == "delete":
			vs := []int{}
			if len(op.Vals) > 0 {
				vs = append(vs, op.Vals[0]...)
			}
			vals = [][]int{vs}
		case s.Owners <= 1:
			if len(op.Vals) > 0 && len(op.Vals[0]) > 0 {
				vals = [][]int{op.Vals[0]}
			} else if op.Empty {
				vals = [][]int{{}} // ONE argument holding no value (an empty slice): the save still runs
			}
		default:
			for i := 0; i < s.Owners; i++ {
				vs := []int{}
				if i < len(op.Vals) {
					vs = append(vs, op.Vals[i]...)
				}
				vals = append(vals, vs)
			}
		}
		ops = append(ops, map[string]interface{}{"op": op.Op, "unscoped": op.Unscoped, "vals": vals})
	}
	return map[string]interface{}{"cls": k.Class, "card1": k.Card1, "owners": c12OwnerIDs(s), "links": links,
		"targets": targets, "next": c12Sentinel + 1, "ops": ops, "mem": mem}
}

func c12StmtName(k *c12Kind, m string) string {
	f := strings.Fields(m)
	switch f[1] {
	case "T":
		return f[0] + " " + k.Table
	case "J":
		return f[0] + " " + k.Join
	default:
		return f[0] + " c12_users"
	}
}

// canonical text of one real observation / one model observation
func c12RealLine(op c12Op, o c12Obs) string {
	find := append([]int{}, o.Find...)
	sort.Ints(find)
	args := []int{}
	if op.Op == "append" || op.Op == "replace" {
		args = o.ArgIDs // keys of the caller's argument records after assign-back
	}
	return fmt.Sprintf("err=%v links=%v targets=%v count=%d find=%v mem=%v args=%v stmts=%v", o.Err != "", o.Links, o.Targets, o.Count, find, o.Mem, args, o.Stmts)
}

func c12LeanLine(k *c12Kind, o c12LeanObs) string {
	st := []string{}
	for _, m := range o.Stmts {
		st = append(st, c12StmtName(k, m))
	}
	mem := [][]int{}
	for _, m := range o.Mem {
		if m == nil {
			m = []int{}
		}
		mem = append(mem, m)
	}
	if o.Links == nil {
		o.Links = [][2]int{}
	}
	if o.Targets == nil {
		o.Targets = []int{}
	}
	if o.Find == nil {
		o.Find = []int{}
	}
	if o.Args == nil {
		o.Args = []int{}
	}
	return fmt.Sprintf("err=%v links=%v targets=%v count=%d find=%v mem=%v args=%v stmts=%v", o.Err, o.Links, o.Targets, o.Count, o.Find, mem, o.Args, st)
}

func c12Branches(r *Result, s c12Seq) {
	k := c12KindByName(s.Kind)
	for _, op := range s.Ops {
		b := fmt.Sprintf("%s/card1=%v/%s", k.Class, k.Card1, op.Op)
		if op.Unscoped {
			b += "/unscoped"
		}
		if s.Owners > 1 {
			b += "/slice"
		}
		r.H("tie.model_branch", b)
	}
}

func c12Tie(r *Result, seqs []c12Seq, suite string) {
	var ops [][]interface{}
	for _, s := range seqs {
		ops = append(ops, []interface{}{"assoc.run", c12LeanInput(s)})
	}
	outs, err := AskLean(ops)
	if err != nil {
		r.Violate(Violation{Kind: "correspondence", Suite: suite, Note: err.Error()})
		return
	}
	reals := c12ExecAll(seqs)
	for i, s := range seqs {
		k := c12KindByName(s.Kind)
		var lean []c12LeanObs
		if err := json.Unmarshal(outs[i], &lean); err != nil {
			r.Violate(Violation{Kind: "correspondence", Suite: suite, Input: s, Observed: string(outs[i]), Note: "model rejected the sequence: " + err.Error()})
			continue
		}
		real := reals[i]
		r.Case(suite, canon(s), c12SeqNontrivial(s))
		c12Branches(r, s)
		for step := range s.Ops {
			if step >= len(real) || step >= len(lean) {
				break
			}
			r.CorrCompared++
			a, b := c12RealLine(s.Ops[step], real[step]), c12LeanLine(k, lean[step])
			if a != b {
				r.Violate(Violation{Kind: "correspondence", Suite: suite, Input: s, Observed: map[string]interface{}{"step": step, "real": a},
					Expected: map[string]interface{}{"model": b}, Note: "real Association API vs Lean Gorm.Assoc.step (state after the step + statement kinds)"})
				break
			}
			if real[step].Err != "" {
				r.H("tie.error_steps", real[step].Err)
				break // the model stops at the first refused call
			}
		}
	}
}

func init() {
	register("C12", func(r *Result, rng *rand.Rand, tier string) {
		defer c12Timed("tie")()
		n := 4000
		if tier == "thorough" {
			n = 70000
		} else if tier == "search" {
			n = 3000
		}
		var kinds []string
		for _, k := range c12Kinds {
			kinds = append(kinds, k.Name)
		}
		// half of the sequences run INSIDE the patterns of the listed findings: the model reproduces the defects too
		cfg := c12GenCfg{Kinds: kinds, Unscoped: 0.4, Slice: 0.4, MaxLen: 8, Avoid: 0.5, Tie: true, Handles: 0.3}
		var batch []c12Seq
		for i := 0; i < n && !expired(); i++ {
			s := c12GenSeq(rng, cfg)
			c12Hist(r, "tie", s)
			batch = append(batch, s)
			if len(batch) == 500 || i == n-1 {
				c12Tie(r, batch, "model-vs-real")
				batch = nil
			}
		}
		if len(batch) > 0 {
			c12Tie(r, batch, "model-vs-real")
		}
	})
	replayers["C12/model-vs-real"] = func(r *Result, input json.RawMessage) {
		var s c12Seq
		if err := json.Unmarshal(input, &s); err != nil {
			r.Note("bad replay input: %v", err)
			return
		}
		// a correspondence replay re-judges the input with the end-to-end oracle on the real code
		c12E2E(r, s, "e2e-sequences")
	}
}
