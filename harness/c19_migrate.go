package main

// C19 / migrator under DryRun.  The property's quantifier is over chains and finishers; the migrator queries the
// catalogue by design (migrator.go GetQueryAndExecTx switches DryRun off on its introspection handle), so catalogue
// reads are NOT judged.  What the text does state — no statement of the operation is sent — is judged for the DDL the
// migration would execute: no CREATE / ALTER / DROP / INSERT / UPDATE / DELETE reaches the driver from a DryRun handle.

import (
	"fmt"
	"math/rand"
	"os"
	"strings"

	"gorm.io/gorm"
)

type C19Mig struct {
	ID   uint   `gorm:"primaryKey"`
	Name string `gorm:"index"`
	Qty  int
}

type C19MigV2 struct {
	ID    uint   `gorm:"primaryKey"`
	Name  string `gorm:"index"`
	Qty   int
	Extra string `gorm:"default:x"`
}

func (C19MigV2) TableName() string { return "c19_migs" }

func init() {
	register("C19", func(r *Result, rng *rand.Rand, tier string) {
		w := c19Open("plain")
		type mop struct {
			name string
			run  func(h *gorm.DB)
		}
		ops := []mop{
			{"automigrate_new_table", func(h *gorm.DB) { _ = h.AutoMigrate(&C19Mig{}) }},
			{"create_table", func(h *gorm.DB) { _ = h.Migrator().CreateTable(&C19Mig{}) }},
			{"automigrate_add_column", func(h *gorm.DB) { _ = h.AutoMigrate(&C19MigV2{}) }},
			{"add_column", func(h *gorm.DB) { _ = h.Migrator().AddColumn(&C19MigV2{}, "Extra") }},
			{"create_index", func(h *gorm.DB) { _ = h.Migrator().CreateIndex(&C19Plain{}, "Name") }},
			{"drop_table", func(h *gorm.DB) { _ = h.Migrator().DropTable(&C19Hard{}) }},
			{"rename_column", func(h *gorm.DB) { _ = h.Migrator().RenameColumn(&C19Plain{}, "Age", "Years") }},
		}
		for pass := 0; pass < 2; pass++ {
			if pass == 1 { // second pass: the table of C19Mig exists for real (so add-column paths are reached)
				w.rec.Off = true
				_ = w.db.AutoMigrate(&C19Mig{})
				w.rec.Off = false
			}
			for _, o := range ops {
				for _, mode := range []string{"session", "config"} {
					h := w.db.Session(&gorm.Session{DryRun: true})
					if mode == "config" {
						h = w.dry
					}
					w.rec.Reset()
					pan := ""
					func() {
						defer func() {
							if p := recover(); p != nil {
								pan = fmt.Sprint(p)
							}
						}()
						// the sqlite migrator prints the DDL of a DryRun migration to stdout: keep the harness output clean
						saved := os.Stdout
						if null, err := os.OpenFile(os.DevNull, os.O_WRONLY, 0); err == nil {
							os.Stdout = null
							defer func() { os.Stdout = saved; null.Close() }()
						}
						o.run(h)
					}()
					es := w.rec.Snapshot()
					w.rec.Reset()
					sent := ""
					for _, e := range es {
						u := strings.ToUpper(strings.TrimSpace(e.SQL))
						for _, verb := range []string{"CREATE", "ALTER", "DROP", "INSERT", "UPDATE", "DELETE"} {
							if strings.HasPrefix(u, verb) {
								sent = e.String()
							}
						}
					}
					r.Case("migrator", fmt.Sprint(o.name, "|", mode, "|", pass), len(es) > 0)
					r.H("migrator_events", strings.Join(c19SetOf(evKinds(es)), ","))
					if pan != "" {
						r.H("migrator_panic", o.name)
					}
					if sent != "" {
						r.Violate(Violation{Kind: "e2e", Suite: "migrator", Input: map[string]interface{}{"op": o.name, "mode": mode, "pass": pass},
							Observed: evKinds(es), Expected: "no DDL/DML reaches the driver from a DryRun handle, sent: " + sent})
					}
				}
			}
		}
	})
}
