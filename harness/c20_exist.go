package main

// C20 "what was declared EXISTS afterwards" oracle.  The property says that after fields, indexes or constraints were added
// to a model AutoMigrate "only adds what is missing" — so it DOES add it — "and the migrated table accepts and returns
// records of the new model".  The expectations below are derived from the generated SPEC (field kinds + tag text) by a
// small tag reader of our own, never from gorm's ParseIndexes / ParseCheckConstraints / ParseUniqueConstraints /
// ParseConstraint (a fault in those would otherwise move oracle and subject together).  The database is inspected with
// SQLite's own catalogue (PRAGMA index_list / index_info / foreign_key_list / table_info, sqlite_master) and behaviourally
// (an UPDATE that makes two rows equal in a unique column group, or that writes the value a check forbids, must fail).
//
// Latitude (written here, next to the oracle):
//   * names of indexes / constraints are free (the property does not talk about names); existence is judged by structure.
//     Names are only used to ASK gorm (`HasIndex`, `HasConstraint`): whatever name gorm's own parser reports for something
//     that structurally exists must be reported as present, and so must a name the tag spells out.
//   * a `unique` tag on a field that is NEW in v2 may appear one run late (AddColumn's DDL carries no UNIQUE; the next
//     AutoMigrate's MigrateColumnUnique creates it): demanded only after a further AutoMigrate(v2).  Everything else is
//     demanded right after AutoMigrate(v2).
//   * column order inside a composite index is only compared when the declared priorities are pairwise distinct.

import (
	"fmt"
	"sort"
	"strconv"
	"strings"

	"gorm.io/gorm"
)

type c20WantIdx struct {
	Cols    []string `json:"cols"`
	Unique  bool     `json:"unique"`
	Name    string   `json:"name,omitempty"` // spelled out in the tag ("" = default name)
	Ordered bool     `json:"ordered"`
	Late    bool     `json:"late,omitempty"` // may appear one run late
	Constr  bool     `json:"constraint,omitempty"` // from a `unique` tag (table constraint) rather than an index tag
}
type c20WantChk struct {
	Name string `json:"name,omitempty"`
	Expr string `json:"expr"`
	Col  string `json:"col"`
	Bad  string `json:"bad,omitempty"` // SQL literal the check forbids ("" = no behavioural probe)
}
type c20WantFK struct {
	Table    string   `json:"table"`
	From     []string `json:"from"`
	Ref      string   `json:"ref"`
	To       []string `json:"to"`
	Name     string   `json:"name,omitempty"`
	OnDelete string   `json:"on_delete,omitempty"` // "" = not judged
	OnUpdate string   `json:"on_update,omitempty"`
}
type c20WantCol struct {
	Col        string `json:"col"`
	NotNull    bool   `json:"notnull"`
	HasDefault bool   `json:"hasdefault"`
	Added      bool   `json:"added"`
	Class      string `json:"class"`
}
type c20Want struct {
	Idx  []c20WantIdx `json:"idx"`
	Chk  []c20WantChk `json:"chk"`
	FK   []c20WantFK  `json:"fk"`
	Cols []c20WantCol `json:"cols"`
}

func c20TagGet(tag, key string) (string, bool) {
	for _, p := range strings.Split(tag, ";") {
		p = strings.TrimSpace(p)
		k, v := p, ""
		if i := strings.Index(p, ":"); i >= 0 {
			k, v = p[:i], p[i+1:]
		}
		if strings.EqualFold(strings.TrimSpace(k), key) {
			return v, true
		}
	}
	return "", false
}

// c20WantOf reads the expectations off a generated field list.  `old` = the v1 field names (nil: everything is old).
func c20WantOf(table string, fs []c20Field, old map[string]bool) c20Want {
	var w c20Want
	type member struct {
		col  string
		prio int
		pos  int
	}
	type group struct {
		name    string
		unique  bool
		members []member
	}
	var groups []*group
	byName := map[string]*group{}
	pkCols := map[string]bool{}
	for _, f := range fs {
		if _, ok := c20TagGet(f.Tag, "primaryKey"); ok || (f.Name == "ID" && !c20IsRel(f.Kind)) {
			pkCols[c20ColName(f.Name, f.Tag)] = true
		}
	}
	colOf := map[string]string{}
	for _, f := range fs {
		colOf[f.Name] = c20ColName(f.Name, f.Tag)
	}
	for pos, f := range fs {
		if f.Kind == "audit" || c20Embeds(f.Kind) {
			continue
		}
		if f.Kind == "stamp" { // C20Stamp: Serial `unique`, Batch `index`, behind the embeddedPrefix (DBName != field name)
			pre, _ := c20TagGet(f.Tag, "embeddedPrefix")
			added := old != nil && !old[f.Name]
			w.Idx = append(w.Idx, c20WantIdx{Cols: []string{pre + "serial"}, Unique: true, Ordered: true, Late: added, Constr: true},
				c20WantIdx{Cols: []string{pre + "batch"}, Ordered: true})
			w.Cols = append(w.Cols, c20WantCol{Col: pre + "serial", Added: added, Class: "string"}, c20WantCol{Col: pre + "batch", Added: added, Class: "int"})
			continue
		}
		col := colOf[f.Name]
		added := old != nil && !old[f.Name]
		if c20IsRel(f.Kind) {
			if v, ok := c20TagGet(f.Tag, "constraint"); ok && strings.TrimSpace(v) == "-" {
				continue
			}
			name := ""
			if v, ok := c20TagGet(f.Tag, "constraint"); ok {
				if i := strings.Index(v, ","); i > 0 && !strings.Contains(v[:i], ":") {
					name = v[:i]
				}
			}
			switch f.Kind {
			case "owner", "powner":
				w.FK = append(w.FK, c20WantFK{Table: table, From: []string{colOf["OwnerID"]}, Ref: "c20_owners", To: []string{"id"}, Name: name})
			case "org":
				w.FK = append(w.FK, c20WantFK{Table: table, From: []string{colOf["OrgCode"]}, Ref: "c20_orgs", To: []string{"code"}, Name: name})
			}
			continue
		}
		_, nn := c20TagGet(f.Tag, "not null")
		def, hasDef := c20TagGet(f.Tag, "default")
		if !pkCols[col] {
			w.Cols = append(w.Cols, c20WantCol{Col: col, NotNull: nn, HasDefault: hasDef && !strings.EqualFold(strings.TrimSpace(def), "null"), Added: added, Class: c20Class(f.Kind)})
		}
		for _, p := range strings.Split(f.Tag, ";") {
			p = strings.TrimSpace(p)
			lp := strings.ToLower(p)
			switch {
			case lp == "unique":
				if !pkCols[col] {
					w.Idx = append(w.Idx, c20WantIdx{Cols: []string{col}, Unique: true, Ordered: true, Late: added, Constr: true})
				}
			case lp == "index" || lp == "uniqueindex" || strings.HasPrefix(lp, "index:") || strings.HasPrefix(lp, "uniqueindex:"):
				uniq := strings.HasPrefix(lp, "unique")
				name, prio := "", 10
				if i := strings.Index(p, ":"); i >= 0 {
					opts := strings.Split(p[i+1:], ",")
					name = strings.TrimSpace(opts[0])
					for _, o := range opts[1:] {
						if strings.HasPrefix(strings.ToLower(o), "priority:") {
							prio, _ = strconv.Atoi(o[len("priority:"):])
						}
					}
				}
				var g *group
				if name != "" {
					g = byName[name]
				}
				if g == nil {
					g = &group{name: name}
					groups = append(groups, g)
					if name != "" {
						byName[name] = g
					}
				}
				g.unique = g.unique || uniq
				g.members = append(g.members, member{col, prio, pos})
			case strings.HasPrefix(lp, "check:"):
				body := p[len("check:"):]
				name := ""
				if i := strings.Index(body, ","); i > 0 && !strings.ContainsAny(body[:i], " <>=()'") {
					name, body = body[:i], body[i+1:]
				}
				bad := ""
				if pre := col + " <> "; strings.HasPrefix(body, pre) && !strings.Contains(body[len(pre):], " ") {
					bad = body[len(pre):]
				}
				w.Chk = append(w.Chk, c20WantChk{Name: name, Expr: body, Col: col, Bad: bad})
			}
		}
	}
	for _, g := range groups {
		ms := append([]member(nil), g.members...)
		sort.SliceStable(ms, func(i, j int) bool { return ms[i].prio < ms[j].prio })
		distinct := true
		for i := 1; i < len(ms); i++ {
			if ms[i].prio == ms[i-1].prio {
				distinct = false
			}
		}
		var cols []string
		for _, m := range ms {
			cols = append(cols, m.col)
		}
		w.Idx = append(w.Idx, c20WantIdx{Cols: cols, Unique: g.unique, Name: g.name, Ordered: distinct})
	}
	return w
}

// ---- SQLite catalogue ------------------------------------------------------------------------

type c20HaveIdx struct {
	Name   string
	Unique bool
	Origin string
	Cols   []string
}
type c20HaveFK struct {
	Ref      string
	From     []string
	To       []string
	OnUpdate string
	OnDelete string
}

func c20IndexList(db *gorm.DB, rec *Recorder, table string) []c20HaveIdx {
	var out []c20HaveIdx
	c20Quiet(rec, func() {
		s := db.Session(&gorm.Session{NewDB: true})
		rows, err := s.Raw("SELECT name, `unique`, origin FROM pragma_index_list(?)", table).Rows()
		if err != nil {
			return
		}
		for rows.Next() {
			var h c20HaveIdx
			var u int
			rows.Scan(&h.Name, &u, &h.Origin)
			h.Unique = u != 0
			out = append(out, h)
		}
		rows.Close()
		for i := range out {
			r2, err := s.Raw("SELECT name FROM pragma_index_info(?) ORDER BY seqno", out[i].Name).Rows()
			if err != nil {
				continue
			}
			for r2.Next() {
				var n *string
				r2.Scan(&n)
				if n != nil {
					out[i].Cols = append(out[i].Cols, *n)
				} else {
					out[i].Cols = append(out[i].Cols, "<expr>")
				}
			}
			r2.Close()
		}
	})
	return out
}

func c20FKList(db *gorm.DB, rec *Recorder, table string) []c20HaveFK {
	byID := map[int]*c20HaveFK{}
	var ids []int
	c20Quiet(rec, func() {
		rows, err := db.Session(&gorm.Session{NewDB: true}).Raw("SELECT id, `table`, `from`, `to`, on_update, on_delete FROM pragma_foreign_key_list(?) ORDER BY id, seq", table).Rows()
		if err != nil {
			return
		}
		defer rows.Close()
		for rows.Next() {
			var id int
			var ref, from, onu, ond string
			var to *string
			rows.Scan(&id, &ref, &from, &to, &onu, &ond)
			h := byID[id]
			if h == nil {
				h = &c20HaveFK{Ref: ref, OnUpdate: onu, OnDelete: ond}
				byID[id] = h
				ids = append(ids, id)
			}
			h.From = append(h.From, from)
			if to != nil {
				h.To = append(h.To, *to)
			} else {
				h.To = append(h.To, "<pk>")
			}
		}
	})
	var out []c20HaveFK
	for _, id := range ids {
		out = append(out, *byID[id])
	}
	return out
}

type c20HaveCol struct {
	NotNull bool
	Default *string
	PK      bool
}

func c20TableInfo(db *gorm.DB, rec *Recorder, table string) map[string]c20HaveCol {
	out := map[string]c20HaveCol{}
	c20Quiet(rec, func() {
		rows, err := db.Session(&gorm.Session{NewDB: true}).Raw("SELECT name, `notnull`, dflt_value, pk FROM pragma_table_info(?)", table).Rows()
		if err != nil {
			return
		}
		defer rows.Close()
		for rows.Next() {
			var n string
			var nn, pk int
			var d *string
			rows.Scan(&n, &nn, &d, &pk)
			out[n] = c20HaveCol{NotNull: nn != 0, Default: d, PK: pk != 0}
		}
	})
	return out
}

func c20TableDDL(db *gorm.DB, rec *Recorder, table string) string {
	var s string
	c20Quiet(rec, func() {
		db.Session(&gorm.Session{NewDB: true}).Raw("SELECT sql FROM sqlite_master WHERE type = 'table' AND name = ?", table).Row().Scan(&s)
	})
	return s
}

func c20SameCols(a, b []string, ordered bool) bool {
	if len(a) != len(b) {
		return false
	}
	x, y := append([]string(nil), a...), append([]string(nil), b...)
	if !ordered {
		sort.Strings(x)
		sort.Strings(y)
	}
	for i := range x {
		if !strings.EqualFold(x[i], y[i]) {
			return false
		}
	}
	return true
}

func c20DedupCols(cols []string) []string {
	seen := map[string]bool{}
	var out []string
	for _, c := range cols {
		if !seen[strings.ToLower(c)] {
			seen[strings.ToLower(c)] = true
			out = append(out, c)
		}
	}
	return out
}

func c20Squash(s string) string {
	return strings.ToLower(strings.Join(strings.Fields(s), " "))
}

// a literal of the column's class that no generated row carries
func c20DupLiteral(class string) string {
	switch class {
	case "int", "uint":
		return "7"
	case "float":
		return "7.25"
	case "string":
		return "'dup'"
	case "time":
		return "'2001-02-03 04:05:06'"
	case "bytes":
		return "x'6475'"
	case "bool":
		return "1"
	}
	return "'dup'"
}

// c20Exec runs one raw statement inside a transaction that is always rolled back; returns the statement's error.
func c20ProbeExec(db *gorm.DB, rec *Recorder, sql string) error {
	var err error
	c20Quiet(rec, func() {
		tx := db.Session(&gorm.Session{NewDB: true}).Begin()
		err = tx.Exec(sql).Error
		tx.Rollback()
	})
	return err
}

// c20JudgeStructure compares the catalogue of `table` with `w`.  final=false: items flagged Late are skipped.
// Returns "" or a verdict text, plus expected / observed renderings.
func c20JudgeStructure(db *gorm.DB, rec *Recorder, table string, w c20Want, final bool, classOf map[string]string) (verdict, expected, observed string) {
	have := c20IndexList(db, rec, table)
	show := func() string { return fmt.Sprintf("indexes=%+v fks=%+v ddl=%s", have, c20FKList(db, rec, table), c20TableDDL(db, rec, table)) }
	for _, wi := range w.Idx {
		if wi.Late && !final {
			continue
		}
		found := false
		for _, h := range have {
			// (latitude: a column listed twice in one index — two struct fields sharing the column both carry the tag — counts once)
			if h.Unique == wi.Unique && c20SameCols(c20DedupCols(h.Cols), wi.Cols, wi.Ordered) && (wi.Constr || h.Origin == "c") {
				found = true
			}
		}
		kind := "index"
		if wi.Constr {
			kind = "unique constraint"
		} else if wi.Unique {
			kind = "unique index"
		}
		if !found {
			return "declared " + kind + " on (" + strings.Join(wi.Cols, ",") + ") does not exist after AutoMigrate", fmt.Sprintf("%+v", wi), show()
		}
		if wi.Unique {
			var sets []string
			for _, c := range wi.Cols {
				sets = append(sets, "`"+c+"` = "+c20DupLiteral(classOf[c]))
			}
			if err := c20ProbeExec(db, rec, "UPDATE `"+table+"` SET "+strings.Join(sets, ", ")); err == nil {
				return "declared " + kind + " on (" + strings.Join(wi.Cols, ",") + ") is not enforced: two rows with equal values were accepted", "UNIQUE constraint failed", show()
			}
		}
	}
	ddl := c20TableDDL(db, rec, table)
	for _, wc := range w.Chk {
		if !strings.Contains(c20Squash(ddl), c20Squash("CHECK ("+wc.Expr+")")) {
			return "declared check constraint on " + wc.Col + " does not exist after AutoMigrate", "CHECK (" + wc.Expr + ")", show()
		}
		if wc.Bad != "" {
			if err := c20ProbeExec(db, rec, "UPDATE `"+table+"` SET `"+wc.Col+"` = "+wc.Bad); err == nil {
				return "declared check constraint on " + wc.Col + " is not enforced", "CHECK constraint failed for " + wc.Bad, show()
			}
		}
	}
	fks := c20FKList(db, rec, table)
	for _, wf := range w.FK {
		if wf.Table != table {
			continue
		}
		n := 0
		for _, h := range fks {
			if strings.EqualFold(h.Ref, wf.Ref) && c20SameCols(h.From, wf.From, true) && c20SameCols(h.To, wf.To, true) {
				n++
			}
		}
		if n == 0 {
			return fmt.Sprintf("declared foreign key %s(%s) -> %s(%s) does not exist after AutoMigrate", table, strings.Join(wf.From, ","), wf.Ref, strings.Join(wf.To, ",")), fmt.Sprintf("%+v", wf), show()
		}
		if n > 1 {
			return fmt.Sprintf("foreign key %s(%s) -> %s(%s) exists %d times after AutoMigrate (added although not missing)", table, strings.Join(wf.From, ","), wf.Ref, strings.Join(wf.To, ","), n), "once", show()
		}
	}
	info := c20TableInfo(db, rec, table)
	for _, wc := range w.Cols {
		h, ok := info[wc.Col]
		if !ok {
			continue // judged elsewhere (column missing)
		}
		if h.NotNull != wc.NotNull {
			return fmt.Sprintf("column %s: NOT NULL is %v in the database, %v in the model", wc.Col, h.NotNull, wc.NotNull), fmt.Sprint(wc.NotNull), show()
		}
		if (h.Default != nil && !strings.EqualFold(*h.Default, "null")) != wc.HasDefault {
			return fmt.Sprintf("column %s: the database default does not reflect the declared one", wc.Col), fmt.Sprintf("has default = %v", wc.HasDefault), show()
		}
	}
	return "", "", ""
}

// c20JudgeAsk: gorm's own answers.  Every name gorm's parsers report for the model, and every name the tags spell out, must be
// reported as present by Migrator().HasIndex / HasConstraint once the structure is there.
func c20JudgeAsk(db *gorm.DB, model interface{}, w c20Want, final bool, noRelFK ...bool) (verdict, expected, observed string) {
	st := &gorm.Statement{DB: db}
	if err := st.Parse(model); err != nil {
		return "", "", ""
	}
	sch := st.Schema
	mg := db.Session(&gorm.Session{NewDB: true}).Migrator()
	for _, ix := range sch.ParseIndexes() {
		if !mg.HasIndex(model, ix.Name) {
			return "Migrator().HasIndex(" + ix.Name + ") = false after AutoMigrate although the model declares it", "true", "false"
		}
	}
	for _, wi := range w.Idx {
		if wi.Name != "" && !mg.HasIndex(model, wi.Name) {
			return "Migrator().HasIndex(" + wi.Name + ") = false after AutoMigrate although the tag names it", "true", "false"
		}
	}
	for name := range sch.ParseCheckConstraints() {
		if !mg.HasConstraint(model, name) {
			return "Migrator().HasConstraint(" + name + ") = false after AutoMigrate although the model declares the check", "true", "false"
		}
	}
	for _, wc := range w.Chk {
		if wc.Name != "" && !mg.HasConstraint(model, wc.Name) {
			return "Migrator().HasConstraint(" + wc.Name + ") = false after AutoMigrate although the tag names it", "true", "false"
		}
	}
	late := map[string]bool{}
	for _, wi := range w.Idx {
		if wi.Constr && wi.Late {
			late[wi.Cols[0]] = true
		}
	}
	for name, u := range sch.ParseUniqueConstraints() {
		if u.Field != nil && u.Field.PrimaryKey {
			continue
		}
		if u.Field != nil && sch.FieldsByDBName[u.Field.DBName] != u.Field {
			continue // the tag sits on a field that lost its column to another field: nothing of that field is migrated (F33 area)
		}
		if !final && u.Field != nil && late[u.Field.DBName] {
			continue
		}
		if !mg.HasConstraint(model, name) {
			return "Migrator().HasConstraint(" + name + ") = false after AutoMigrate although the model declares the unique constraint", "true", "false"
		}
	}
	for _, rel := range sch.Relationships.Relations {
		if rel.Field.IgnoreMigration || (len(noRelFK) > 0 && noRelFK[0]) { // foreign keys switched off by configuration (c20_opts.go)
			continue
		}
		if c := rel.ParseConstraint(); c != nil && c.Schema == sch {
			if !mg.HasConstraint(model, c.Name) {
				return "Migrator().HasConstraint(" + c.Name + ") = false after AutoMigrate although the model declares the relation constraint", "true", "false"
			}
		}
	}
	for _, wf := range w.FK {
		if wf.Name != "" && wf.Table == sch.Table && !mg.HasConstraint(model, wf.Name) {
			return "Migrator().HasConstraint(" + wf.Name + ") = false after AutoMigrate although the tag names it", "true", "false"
		}
	}
	return "", "", ""
}
