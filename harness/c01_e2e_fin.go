package main

// C01 e2e: finishers added for the named-argument entry points (Raw / Exec / inline conditions), typed lists in
// Raw / Exec / gorm.Expr values of Update / Updates / Create maps, and sub-query handles as update values.

import (
	"fmt"
	"math/rand"
	"strings"

	"gorm.io/gorm"
)

func c01GenCase2(rng *rand.Rand, m *markerGen, db *gorm.DB, c *c01Case, exp func(string, ...interface{}), cat func([]interface{}, ...interface{}) []interface{}) {
	fin := c.Fin
	mustWhere := func() []c01Step {
		steps := c01GenSteps(rng, m, db, c01Caps{}, true)
		i := m.I()
		return append([]c01Step{{"Where(id <> ?)", "where", []interface{}{i}, func(d *gorm.DB) *gorm.DB { return d.Where("id <> ?", i) }}}, steps...)
	}
	templateList := func() condForm {
		for {
			cf := c01TypedCond(rng, m, "")
			if _, ok := cf.query.(string); ok {
				return cf
			}
		}
	}
	switch fin {
	case "RawNamedGen":
		nm := c01GenNamed(rng, m, "")
		how := []string{"Scan", "Rows", "Row", "Find", "Scan;", "literal-at"}[rng.Intn(6)]
		q, args, bound := "SELECT * FROM v_users WHERE "+nm.Tmpl, nm.Args, nm.Bound
		switch how {
		case "Scan;":
			q += ";" // terminator ';'
		case "literal-at":
			// an '@' inside a string literal sends the text through NamedExpr although the arguments are positional
			s, cf := m.S(), templateList()
			for strings.Contains(cf.query.(string), "@") {
				cf = templateList()
			}
			q = "SELECT * FROM v_users WHERE email <> 'x@y.z' AND name <> ? AND " + cf.query.(string)
			args, bound = append([]interface{}{s}, cf.args...), append([]interface{}{s}, cf.bound...)
			nm.Desc = "positional args, '@' in a literal: " + cf.desc
		}
		c.Desc = []string{"Raw(" + nm.Desc + ")." + how}
		c01H("e2e.named-entry", "Raw."+how)
		exp("SELECT", bound...)
		c.Run = func(d *gorm.DB) *gorm.DB {
			tx := d.Raw(q, args...)
			var us []VUser
			switch how {
			case "Rows":
				if rows, err := tx.Rows(); err == nil {
					rows.Close()
				}
				return tx
			case "Row":
				var id int
				if row := tx.Row(); row != nil {
					_ = row.Scan(&id)
				}
				return tx
			case "Find":
				return tx.Find(&us)
			}
			return tx.Scan(&us)
		}
	case "ExecNamedGen":
		nm := c01GenNamed(rng, m, "")
		tail := []string{"", ";", "\n"}[rng.Intn(3)]
		c.Desc = []string{"Exec(" + nm.Desc + fmt.Sprintf(" tail %q)", tail)}
		c01H("e2e.named-entry", "Exec")
		exp("UPDATE", nm.Bound...)
		c.Run = func(d *gorm.DB) *gorm.DB {
			return d.Exec("UPDATE v_users SET email = email WHERE "+nm.Tmpl+tail, nm.Args...)
		}
	case "InlineNamed":
		nm := c01GenNamed(rng, m, "")
		how := []string{"Find", "First", "Take", "Delete", "Last"}[rng.Intn(5)]
		c.Desc = []string{how + "(&x, " + nm.Desc + ")"}
		c01H("e2e.named-entry", "inline."+how)
		if how == "Delete" {
			exp("DELETE", nm.Bound...)
		} else {
			exp("SELECT", nm.Bound...)
		}
		c.Run = func(d *gorm.DB) *gorm.DB {
			var us []VUser
			var u VUser
			conds := append([]interface{}{nm.Tmpl}, nm.Args...)
			switch how {
			case "Find":
				return d.Find(&us, conds...)
			case "First":
				return d.First(&u, conds...)
			case "Last":
				return d.Last(&u, conds...)
			case "Take":
				return d.Take(&u, conds...)
			}
			return d.Delete(&VUser{}, conds...)
		}
	case "RawNested":
		depth := rng.Intn(3)
		sub, b, sd := c01GenSub(rng, m, db, depth, false)
		s0, s1 := m.S(), m.S()
		c.Desc = []string{"Raw(name <> ? AND id IN (sub " + sd + ") AND email <> ?)"}
		c01H("e2e.sub-depth", fmt.Sprint(depth))
		exp("SELECT", cat(cat([]interface{}{s0}, b...), s1)...)
		c.Run = func(d *gorm.DB) *gorm.DB {
			var us []VUser
			return d.Raw("SELECT * FROM v_users WHERE name <> ? AND id IN (?) AND email <> ?", s0, sub, s1).Scan(&us)
		}
	case "RawTypedList", "ExecTypedList":
		// (a template with @names takes no positional `?` next to them: mixing the two is the F21 pattern family)
		cf := templateList()
		q, args, bound := cf.query.(string), cf.args, cf.bound
		if !strings.Contains(q, "@") {
			s0 := m.S()
			q, args, bound = q+" AND email <> ?", cat(args, s0), cat(bound, s0)
		}
		c.Desc = []string{fin + "(" + cf.desc + ")"}
		if fin == "RawTypedList" {
			exp("SELECT", bound...)
		} else {
			exp("UPDATE", bound...)
		}
		c.Run = func(d *gorm.DB) *gorm.DB {
			if fin == "RawTypedList" {
				var us []VUser
				return d.Raw("SELECT * FROM v_users WHERE "+q, args...).Scan(&us)
			}
			return d.Exec("UPDATE v_users SET email = email WHERE "+q, args...)
		}
	case "UpdateExprList", "UpdatesMapExprList", "CreateMapExprList":
		kind, tag := c01PickListType(rng)
		for tag == "dv" {
			kind, tag = c01PickListType(rng)
		}
		list, bound, _ := c01TypedList(rng, m, kind, tag, c01PickLen(rng))
		s1 := m.S()
		c01H("e2e.list-route", fin)
		if fin == "CreateMapExprList" {
			c.Desc = []string{fmt.Sprintf("Create(map{age: gorm.Expr(IN ? %T), name})", list)}
			exp("INSERT", cat(bound, s1)...)
			c.Run = func(d *gorm.DB) *gorm.DB {
				return d.Model(&VUser{}).Create(map[string]interface{}{"age": gorm.Expr("(CASE WHEN 1 IN ? THEN 1 ELSE 0 END)", list), "name": s1})
			}
			return
		}
		steps := mustWhere()
		c.Desc = append(c01Descs(steps), fmt.Sprintf("%s(age: gorm.Expr(IN ? %T))", fin, list))
		w := c01ChainArgs(steps)
		if fin == "UpdateExprList" {
			exp("UPDATE", cat(cat(bound, nowArg()), w...)...)
		} else {
			exp("UPDATE", cat(cat(bound, s1, nowArg()), w...)...)
		}
		c.Run = func(d *gorm.DB) *gorm.DB {
			tx := c01Apply(d, steps).Model(&VUser{})
			e := gorm.Expr("(CASE WHEN age IN ? THEN age ELSE 0 END)", list)
			if fin == "UpdateExprList" {
				return tx.Update("age", e)
			}
			return tx.Updates(map[string]interface{}{"age": e, "email": s1})
		}
	case "UpdateSub", "UpdatesMapSub":
		depth := rng.Intn(3)
		sub, b, sd := c01GenSub(rng, m, db, depth, true)
		s1 := m.S()
		steps := mustWhere()
		c.Desc = append(c01Descs(steps), fin+"(age: sub-query "+sd+")")
		c01H("e2e.sub-depth", fmt.Sprint(depth))
		w := c01ChainArgs(steps)
		if fin == "UpdateSub" {
			exp("UPDATE", cat(cat(b, nowArg()), w...)...)
		} else {
			exp("UPDATE", cat(cat(b, s1, nowArg()), w...)...)
		}
		c.Run = func(d *gorm.DB) *gorm.DB {
			tx := c01Apply(d, steps).Model(&VUser{})
			if fin == "UpdateSub" {
				return tx.Update("age", sub)
			}
			return tx.Updates(map[string]interface{}{"age": sub, "email": s1})
		}
	}
}
