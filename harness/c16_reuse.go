package main

// C16 — reusable handles. A *gorm.DB left by Session(&Session{}) / WithContext(ctx) is made to be used for several
// chains. "None of this depends on a Session or WithContext call placed anywhere in the chain" includes: the handle
// h := db.<pre…>.Session(&Session{}) used k times, h.<steps_i…>.<finisher_i>, behaves use by use like the chains
// db.<pre…>.<steps_i…>.<finisher_i> written from scratch on the table the previous use left — attrs and assigns
// still there, nothing left over from the previous use (no stale conditions, no stale Dest).
//
//   reuse-e2e  every use judged by the same Go reference map as the one-shot chains (c16JudgeVs)
//   reuse-tie  real side vs Model.Upsert.useSeq (`c16.reuse`, finisher write-set = regenerated genRecvW)

import (
	"encoding/json"
	"flag"
	"fmt"
	"math/rand"
)

type C16Use struct {
	Steps []C16St `json:"steps"`
	Fin   C16F    `json:"fin"`
}

type C16RP struct {
	Soft bool     `json:"soft"`
	Rows [][]int  `json:"rows"`
	Pre  []C16St  `json:"pre"` // ends with a derivation (session | ctx) unless empty (= the opened *gorm.DB itself)
	Uses []C16Use `json:"uses"`
}

// logical one-shot program equivalent to use i on table rows
func (p *C16RP) logical(i int, rows [][]int) *C16P {
	steps := append(append([]C16St{}, p.Pre...), p.Uses[i].Steps...)
	return &C16P{Soft: p.Soft, Rows: rows, Steps: steps, Fin: p.Uses[i].Fin}
}

// runReal: builds the handle once, then runs every use on it; outs[i] = outcome of use i
func (e *c16Env) runReuse(p *C16RP) (outs []c16RealOut) {
	e.setTable(p.Soft, p.Rows)
	h := e.chain(e.db, p.Soft, p.Pre)
	for i := range p.Uses {
		var out c16RealOut
		func() {
			defer func() {
				if x := recover(); x != nil {
					out.Err = fmt.Sprint("panic:", x)
					out.Rows = e.dump(p.Soft)
				}
			}()
			e.rec.Reset()
			hh := e.chain(h, p.Soft, p.Uses[i].Steps)
			dest, res := e.finisher(hh, p.Soft, &p.Uses[i].Fin)
			if dest != nil {
				out.Val = c16Rd(dest)
			}
			out.RA = res.RowsAffected
			out.Err = c16ErrClass(res.Error)
			out.Writes = e.writes()
			out.Rows = e.dump(p.Soft)
		}()
		outs = append(outs, out)
	}
	return
}

func c16GenDeriv(rng *rand.Rand) C16St {
	if rng.Intn(2) == 0 {
		return C16St{K: "session"}
	}
	return C16St{K: "ctx"}
}

// the steps of a logical program split into a shared prefix and per-use steps
func c16GenReuse(rng *rand.Rand, rich bool) *C16RP {
	soft := rng.Intn(2) == 0
	p := &C16RP{Soft: soft, Rows: c16GenTable(rng, soft)}
	// prefix: conditions / Attrs / Assign / OnConflict / Model / Select in any order, derivations anywhere, and a
	// derivation LAST (only that makes the handle reusable; a handle with clone = 0 accumulates by design)
	// two families (FirstOrInit/FirstOrCreate under an OnConflict clause is not something the property speaks about):
	//   first-or: prefix = conditions / Attrs / Assign         uses = FirstOrCreate / FirstOrInit / Save / Create(+own rule)
	//   upsert  : prefix = Clauses(OnConflict)                 uses = Create of struct / map / slices (own Select/Omit), Save
	firstOr := rng.Intn(4) != 0
	if rng.Intn(6) != 0 {
		if firstOr {
			for i, n := 0, rng.Intn(3); i < n; i++ {
				p.Pre = append(p.Pre, C16St{K: "where", W: c16GenWhere(rng, rich, 1)})
			}
			if rng.Intn(4) != 0 {
				p.Pre = append(p.Pre, C16St{K: "attrs", Init: c16GenInit(rng)})
			}
			if rng.Intn(2) == 0 {
				p.Pre = append(p.Pre, C16St{K: "assign", Init: c16GenInit(rng)})
			}
		} else {
			rule := c16GenRule(rng, soft)
			if rng.Intn(2) == 0 {
				rule = &C16R{Kind: "all"}
			}
			p.Pre = append(p.Pre, C16St{K: "oc", Rule: rule})
		}
		rng.Shuffle(len(p.Pre), func(i, j int) { p.Pre[i], p.Pre[j] = p.Pre[j], p.Pre[i] })
		if rng.Intn(3) == 0 && len(p.Pre) > 0 {
			pos := rng.Intn(len(p.Pre))
			p.Pre = append(append(append([]C16St{}, p.Pre[:pos]...), c16GenDeriv(rng)), p.Pre[pos:]...)
		}
		p.Pre = append(p.Pre, c16GenDeriv(rng))
	}
	for u, n := 0, 2+rng.Intn(3); u < n; u++ {
		var use C16Use
		k := rng.Intn(8)
		if !firstOr {
			k = 7 + rng.Intn(5)
		}
		switch {
		case k < 4:
			use.Fin = C16F{K: "foc"}
		case k < 7:
			use.Fin = C16F{K: "foi"}
		case k < 8:
			use.Fin = C16F{K: "save", Row: c16GenRow(rng, soft, rng.Intn(c16Keys+1))}
		case k < 10:
			use.Fin = C16F{K: "create", Row: c16GenRow(rng, soft, rng.Intn(c16Keys+2))}
			if rng.Intn(3) == 0 {
				use.Steps = append(use.Steps, C16St{K: "oc", Rule: c16GenRule(rng, soft)})
			}
		default:
			q := &C16P{Soft: soft}
			c16GenPartial(rng, q)
			use.Steps, use.Fin = q.Steps, q.Fin
			if rng.Intn(2) == 0 {
				// rely on the prefix's rule
				var st []C16St
				for _, x := range use.Steps {
					if x.K != "oc" {
						st = append(st, x)
					}
				}
				use.Steps = st
			}
		}
		if use.Fin.K == "foc" || use.Fin.K == "foi" {
			// further conditions on another key, sometimes fresh Attrs/Assign overriding the prefix's
			if rng.Intn(2) == 0 {
				use.Steps = append(use.Steps, C16St{K: "where", W: c16GenWhere(rng, rich, 0)})
			}
			if rng.Intn(3) == 0 {
				use.Fin.Inl = &C16W{Form: "struct", Fields: c16GenFields(rng, true, false)}
			}
			if rng.Intn(6) == 0 {
				use.Steps = append(use.Steps, C16St{K: "attrs", Init: c16GenInit(rng)})
			}
			if rng.Intn(8) == 0 {
				use.Steps = append(use.Steps, C16St{K: "assign", Init: c16GenInit(rng)})
			}
			if len(p.Pre) == 0 && len(use.Steps) == 0 && use.Fin.Inl == nil {
				use.Fin.Inl = &C16W{Form: "struct", Fields: c16GenFields(rng, true, false)}
			}
		}
		if rng.Intn(8) == 0 {
			use.Steps = append(use.Steps, c16GenDeriv(rng))
		}
		p.Uses = append(p.Uses, use)
	}
	return p
}

// Save on a chain that carries conditions is finding F18 of C10 (the fallback ignores them): not judged here
func (p *C16RP) judged(i int) bool {
	k := p.Uses[i].Fin.K
	if k != "save" && k != "sslice" {
		return true
	}
	for _, s := range append(append([]C16St{}, p.Pre...), p.Uses[i].Steps...) {
		if s.K == "where" {
			return false
		}
	}
	return true
}

func c16ReuseJudge(r *Result, e *c16Env, p *C16RP, report bool) bool {
	outs := e.runReuse(p)
	rows := p.Rows
	for i := range p.Uses {
		lp := p.logical(i, rows)
		if p.judged(i) {
			if what, obs, exp := c16Judge(lp, outs[i]); what != "" {
				if report {
					r.Violate(Violation{Kind: "e2e", Suite: "reuse", Input: p, Observed: obs, Expected: exp,
						Note: fmt.Sprintf("use #%d of the derived handle differs from the chain written from scratch: %s", i+1, what)})
				}
				return false
			}
		}
		rows = outs[i].Rows
	}
	return true
}

func (p *C16RP) leanOp() []interface{} {
	pre, _, _ := c16StepsJ(p.Pre)
	uses := []interface{}{}
	for i := range p.Uses {
		all := append(append([]C16St{}, p.Pre...), p.Uses[i].Steps...)
		_, sel, omit := c16StepsJ(all)
		st, _, _ := c16StepsJ(p.Uses[i].Steps)
		uses = append(uses, []interface{}{st, p.Uses[i].Fin.J(sel, omit)})
	}
	return []interface{}{"c16.reuse", "gen", c16Kinds(p.Soft), c16RowsJ(p.Rows), c16NextOf(p.Rows), pre, uses}
}

func (p *C16RP) leanable() bool {
	for i := range p.Uses {
		switch p.Uses[i].Fin.K {
		case "cmaps", "cslice", "sslice":
			return false
		case "save":
			if !p.judged(i) {
				return false
			}
		}
	}
	return true
}

func c16ReuseCompare(r *Result, p *C16RP, outs []c16RealOut, raw json.RawMessage) {
	var ms []json.RawMessage
	if err := json.Unmarshal(raw, &ms); err != nil || len(ms) != len(outs) {
		r.Violate(Violation{Kind: "correspondence", Suite: "reuse-tie", Input: p, Observed: string(raw), Expected: "one model output per use", Note: "model rejected the op"})
		return
	}
	for i := range outs {
		// the model threads its own table from use to use: compare use by use, stop at the first difference
		r.CorrCompared++
		if ok, obs, exp, _ := c16TieDiff(p.logical(i, nil), outs[i], ms[i]); !ok {
			r.Violate(Violation{Kind: "correspondence", Suite: "reuse-tie", Input: p, Observed: obs, Expected: exp,
				Note: fmt.Sprintf("use #%d: real finisher on the reused handle vs Model.Upsert.useSeq", i+1)})
			return
		}
	}
}

func c16ReuseSuite(r *Result, rng *rand.Rand, tier string) {
	n := 2500
	if tier == "thorough" {
		n = 30000
	} else if tier == "search" {
		n = 200000
	}
	e := c16Open()
	var progs []*C16RP
	var reals [][]c16RealOut
	var ops [][]interface{}
	flush := func() {
		if len(ops) == 0 {
			return
		}
		ans, err := AskLean(ops)
		if err != nil {
			r.Violate(Violation{Kind: "correspondence", Suite: "reuse-tie", Input: "batch", Observed: err.Error(), Expected: "driver answers"})
		} else {
			for i := range progs {
				c16ReuseCompare(r, progs[i], reals[i], ans[i])
			}
		}
		progs, reals, ops = nil, nil, nil
	}
	// the regenerated finisher write-set must be what the model was proved for
	if ans, err := AskLean([][]interface{}{{"c16.genrecvw"}}); err == nil {
		r.Note("regenerated finisher writes to the receiver's statement [save,create,foi,foc]x[clauses,attrs,assigns]: %s", string(ans[0]))
	}
	for i := 0; i < n && !expired(); i++ {
		p := c16GenReuse(rng, i%2 == 0)
		ok := c16ReuseJudge(r, e, p, true)
		nt := len(p.Rows) > 0
		r.Case("reuse", canon(p), nt)
		r.H("reuse.uses", fmt.Sprint(len(p.Uses)))
		r.H("reuse.prefix_len", fmt.Sprint(len(p.Pre)))
		seq := ""
		hasInit := false
		for _, s := range p.Pre {
			if (s.K == "attrs" || s.K == "assign") && s.Init != nil {
				hasInit = true
			}
		}
		for _, u := range p.Uses {
			seq += u.Fin.K + ">"
			bare := "bare"
			if len(u.Steps) > 0 {
				bare = "with-steps"
			}
			r.H("reuse.use", u.Fin.K+"/"+bare)
		}
		r.H("reuse.prefix_has_attrs_or_assign", fmt.Sprint(hasInit))
		if len(p.Uses) >= 2 {
			r.H("reuse.first_two", p.Uses[0].Fin.K+">"+p.Uses[1].Fin.K)
		}
		if i < 2 {
			r.Sample(p)
		}
		if ok && p.leanable() {
			progs = append(progs, p)
			reals = append(reals, e.runReuse(p))
			ops = append(ops, p.leanOp())
		}
		if len(ops) >= 1000 {
			flush()
		}
	}
	flush()
}

func init() {
	register("C16", c16ReuseSuite)
	replayers["C16/reuse"] = func(r *Result, input json.RawMessage) {
		var p C16RP
		if err := json.Unmarshal(input, &p); err != nil {
			r.Note("bad replay input: %v", err)
			return
		}
		c16ReuseJudge(r, c16Open(), &p, true)
	}
	replayers["C16/reuse-tie"] = func(r *Result, input json.RawMessage) {
		var p C16RP
		if err := json.Unmarshal(input, &p); err != nil {
			r.Note("bad replay input: %v", err)
			return
		}
		if f := flag.Lookup("driver"); f != nil && f.Value.String() != "" {
			driverPath = f.Value.String()
		}
		e := c16Open()
		outs := e.runReuse(&p)
		ans, err := AskLean([][]interface{}{p.leanOp()})
		if err != nil {
			r.Note("lean driver: %v", err)
			return
		}
		c16ReuseCompare(r, &p, outs, ans[0])
	}
}
