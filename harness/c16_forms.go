package main

// C16 (round 5) — the SPELLING and FORM of conditions / Attrs / Assign given to FirstOrInit / FirstOrCreate.
//
// Every earlier generator named a column by its database name.  gorm accepts the Go field name as well wherever a name
// is resolved through Schema.LookUpField (map keys, the ("name", value) pair, clause.Eq columns), and it accepts many
// argument FORMS (struct, *struct, struct + selected field names, map[string]interface{}, map[string]string,
// map[interface{}]interface{}, pair, clause.Eq with a string / clause.Column / table-qualified clause.Column).
// "a record built from the conditions plus Attrs, with Assign applied in both cases" must hold for every one of them.
//
// Suites:
//   forms      e2e: model C16Fm (two columns renamed: Title→ttl, Score→pts); table of 0..3 rows; a chain of Where /
//              Attrs / Assign calls in every form and spelling (+ Session / WithContext somewhere), FirstOrInit or
//              FirstOrCreate (inline conditions too), optionally CALLED TWICE (the repeated call must find the record the
//              first one created whenever that record satisfies the conditions — Attrs / Assign may overwrite a condition's
//              column).  Judged against a Go reference: returned record, table, error class, number of rows written, after
//              every call.
//              Latitudes: conditions are spelled by Go name only for fields whose column is the lower-cased Go name
//              (SQLite resolves `Name` to column name; `Title` would be an unknown column); unknown keys only where gorm
//              never sends them to the database (Attrs; Assign of FirstOrInit); Attrs/Assign never name the key.
//   forms-tie  correspondence: generated schemas (reflect.StructOf; `column:` renames, also CROSSING ones where a field's
//              column is spelled like another field's Go name) on an empty table; FirstOrInit with conditions / Attrs /
//              Assign keyed by column name, Go name, both spellings of one field in one map, unknown names; the record
//              built by the real assignInterfacesToValue vs Model.UpsertForms.build under the regenerated sites.

import (
	"context"
	"encoding/json"
	"flag"
	"fmt"
	"math/rand"
	"reflect"
	"sort"
	"strings"

	"gorm.io/gorm"
	"gorm.io/gorm/clause"
)

type C16Fm struct {
	ID     uint `gorm:"primaryKey"`
	Name   string
	Age    int
	Title  string `gorm:"column:ttl"`
	Active bool
	Score  int `gorm:"column:pts"`
}

func (C16Fm) TableName() string { return "c16_fm" }

const c16fN = 6

var c16fCols = []string{"id", "name", "age", "ttl", "active", "pts"}
var c16fGo = []string{"ID", "Name", "Age", "Title", "Active", "Score"}
var c16fStr = []bool{false, true, false, true, false, false}

// the Go name is usable as a column name in SQL (SQLite ignores case)
var c16fSame = []bool{true, true, true, false, true, false}

func c16fVal(c, n int) interface{} {
	switch {
	case c == 0:
		return uint(n)
	case c16fStr[c]:
		return c16EncS(n)
	case c == 4:
		return n != 0
	}
	return n
}

func c16fMk(r []int) C16Fm {
	return C16Fm{ID: uint(r[0]), Name: c16EncS(r[1]), Age: r[2], Title: c16EncS(r[3]), Active: r[4] != 0, Score: r[5]}
}

func c16fRd(v *C16Fm) []int {
	a := 0
	if v.Active {
		a = 1
	}
	return []int{int(v.ID), c16DecS(v.Name), v.Age, c16DecS(v.Title), a, v.Score}
}

// ---- programs ------------------------------------------------------------------------------------------------------

type C16FA struct {
	// struct | ptr | structsel | map | smap | imap | kv | eq | eqcol | eqtab | eqcur | raw
	Form string   `json:"form"`
	F    [][2]int `json:"f"`
	Sp   []int    `json:"sp"`            // per field: 0 = column name, 1 = Go field name
	Unk  bool     `json:"unk,omitempty"` // maps: one more key that names nothing
}

type C16FS struct {
	K string `json:"k"` // where | attrs | assign | session | ctx
	A *C16FA `json:"a,omitempty"`
}

type C16FP struct {
	Rows  [][]int `json:"rows"`
	Steps []C16FS `json:"steps"`
	Inl   *C16FA  `json:"inl,omitempty"`
	Fin   string  `json:"fin"` // foi | foc
	Twice bool    `json:"twice,omitempty"`
}

func (a *C16FA) name(i int) string {
	if a.Sp[i] == 1 {
		return c16fGo[a.F[i][0]]
	}
	return c16fCols[a.F[i][0]]
}

// call = the argument list a user writes for this form
func (a *C16FA) call() []interface{} {
	row := make([]int, c16fN)
	for _, f := range a.F {
		row[f[0]] = f[1]
	}
	switch a.Form {
	case "struct":
		return []interface{}{c16fMk(row)}
	case "ptr":
		v := c16fMk(row)
		return []interface{}{&v}
	case "structsel":
		out := []interface{}{c16fMk(row)}
		for i := range a.F {
			out = append(out, a.name(i))
		}
		return out
	case "map":
		m := map[string]interface{}{}
		for i, f := range a.F {
			m[a.name(i)] = c16fVal(f[0], f[1])
		}
		if a.Unk {
			m["nope"] = 7
		}
		return []interface{}{m}
	case "smap":
		m := map[string]string{}
		for i, f := range a.F {
			m[a.name(i)] = c16EncS(f[1])
		}
		if a.Unk {
			m["Nope"] = "x"
		}
		return []interface{}{m}
	case "imap":
		m := map[interface{}]interface{}{}
		for i, f := range a.F {
			m[a.name(i)] = c16fVal(f[0], f[1])
		}
		if a.Unk {
			m["nope_2"] = 7
		}
		return []interface{}{m}
	case "kv":
		return []interface{}{a.name(0), c16fVal(a.F[0][0], a.F[0][1])}
	case "eq":
		return []interface{}{clause.Eq{Column: a.name(0), Value: c16fVal(a.F[0][0], a.F[0][1])}}
	case "eqcol":
		return []interface{}{clause.Eq{Column: clause.Column{Name: a.name(0)}, Value: c16fVal(a.F[0][0], a.F[0][1])}}
	case "eqtab":
		return []interface{}{clause.Eq{Column: clause.Column{Table: "c16_fm", Name: a.name(0)}, Value: c16fVal(a.F[0][0], a.F[0][1])}}
	case "eqcur":
		return []interface{}{clause.Eq{Column: clause.Column{Table: clause.CurrentTable, Name: a.name(0)}, Value: c16fVal(a.F[0][0], a.F[0][1])}}
	case "raw":
		return []interface{}{c16fCols[a.F[0][0]] + " = ?", c16fVal(a.F[0][0], a.F[0][1])}
	}
	panic("bad form " + a.Form)
}

// eff = the (column, value) pairs the argument contributes; struct forms drop zero values
func (a *C16FA) eff() [][2]int {
	if a == nil {
		return nil
	}
	var out [][2]int
	for _, f := range a.F {
		if (a.Form == "struct" || a.Form == "ptr") && f[1] == 0 {
			continue
		}
		out = append(out, f)
	}
	return out
}

// ---- reference -------------------------------------------------------------------------------------------------------

type c16fOut struct {
	Rows [][]int `json:"rows"`
	Val  []int   `json:"val"`
	Err  string  `json:"err"`
	Hit  bool    `json:"hit"`
}

func c16fCopyRows(rows [][]int) [][]int {
	out := make([][]int, len(rows))
	for i, r := range rows {
		out[i] = append([]int(nil), r...)
	}
	return out
}

func c16fRef(p *C16FP, rows [][]int) (out c16fOut) {
	rows = c16fCopyRows(rows)
	sort.Slice(rows, func(i, j int) bool { return rows[i][0] < rows[j][0] })
	var conds []*C16FA
	var attrs, assign *C16FA
	for i := range p.Steps {
		switch s := &p.Steps[i]; s.K {
		case "where":
			conds = append(conds, s.A)
		case "attrs":
			attrs = s.A
		case "assign":
			assign = s.A
		}
	}
	if p.Inl != nil {
		conds = append(conds, p.Inl)
	}
	match := func(r []int) bool {
		for _, c := range conds {
			for _, f := range c.eff() {
				if r[f[0]] != f[1] {
					return false
				}
			}
		}
		return true
	}
	found := -1
	for i, r := range rows {
		if match(r) {
			found = i
			break
		}
	}
	out.Err = "ok"
	if found >= 0 {
		out.Hit = true
		val := append([]int(nil), rows[found]...)
		for _, f := range assign.eff() {
			val[f[0]] = f[1]
		}
		out.Val = val
		if p.Fin == "foc" {
			rows[found] = append([]int(nil), val...)
		}
		out.Rows = rows
		return
	}
	val := make([]int, c16fN)
	for _, c := range conds {
		if c.Form == "raw" {
			continue // an SQL text names no field
		}
		for _, f := range c.eff() {
			val[f[0]] = f[1]
		}
	}
	for _, f := range attrs.eff() {
		val[f[0]] = f[1]
	}
	for _, f := range assign.eff() {
		val[f[0]] = f[1]
	}
	if p.Fin == "foc" {
		if val[0] == 0 {
			val[0] = c16NextOf(rows)
		} else {
			for _, r := range rows {
				if r[0] == val[0] {
					out.Err, out.Rows, out.Val = "unique", rows, val
					return
				}
			}
		}
		rows = append(rows, append([]int(nil), val...))
		sort.Slice(rows, func(i, j int) bool { return rows[i][0] < rows[j][0] })
	}
	out.Val, out.Rows = val, rows
	return
}

// ---- real side -------------------------------------------------------------------------------------------------------

type c16fEnv struct{ *c16Env }

func c16fOpen() *c16fEnv {
	e := c16Open()
	if err := e.db.AutoMigrate(&C16Fm{}); err != nil {
		panic(err)
	}
	return &c16fEnv{e}
}

func (e *c16fEnv) setTable(rows [][]int) {
	e.quiet(func() {
		c16MustExec(e.sql, "DELETE FROM c16_fm")
		c16MustExec(e.sql, "DELETE FROM sqlite_sequence WHERE name = 'c16_fm'")
		for _, r := range rows {
			args := make([]interface{}, c16fN)
			for c := range args {
				args[c] = c16fVal(c, r[c])
			}
			c16MustExec(e.sql, "INSERT INTO c16_fm ("+strings.Join(c16fCols, ",")+") VALUES (?,?,?,?,?,?)", args...)
		}
	})
}

func (e *c16fEnv) dump() [][]int {
	out := [][]int{}
	e.quiet(func() {
		var rs []C16Fm
		if err := e.db.Session(&gorm.Session{NewDB: true}).Order("id").Find(&rs).Error; err != nil {
			panic(err)
		}
		for i := range rs {
			out = append(out, c16fRd(&rs[i]))
		}
	})
	return out
}

type c16fReal struct {
	c16fOut
	Writes int `json:"writes"`
}

func (e *c16fEnv) once(p *C16FP) (out c16fReal) {
	e.rec.Reset()
	defer func() {
		if x := recover(); x != nil {
			out.Err = fmt.Sprint("panic:", x)
			out.Rows = e.dump()
		}
	}()
	h := e.db
	for i := range p.Steps {
		switch s := &p.Steps[i]; s.K {
		case "where":
			a := s.A.call()
			h = h.Where(a[0], a[1:]...)
		case "attrs":
			h = h.Attrs(s.A.call()...)
		case "assign":
			h = h.Assign(s.A.call()...)
		case "session":
			h = h.Session(&gorm.Session{})
		case "ctx":
			h = h.WithContext(WithMarker(context.Background(), "c16f"))
		}
	}
	var conds []interface{}
	if p.Inl != nil {
		conds = p.Inl.call()
	}
	dest := &C16Fm{}
	var res *gorm.DB
	if p.Fin == "foi" {
		res = h.FirstOrInit(dest, conds...)
	} else {
		res = h.FirstOrCreate(dest, conds...)
	}
	out.Val = c16fRd(dest)
	out.Err = c16kErrClass(res.Error)
	out.Writes = e.writes()
	out.Rows = e.dump()
	return
}

// judge runs the program (once or twice) and compares every call with the reference; "" = fine
func c16fJudge(e *c16fEnv, p *C16FP) (what string, obs, want interface{}) {
	e.setTable(p.Rows)
	rows := p.Rows
	calls := 1
	if p.Twice {
		calls = 2
	}
	for k := 0; k < calls; k++ {
		exp := c16fRef(p, rows)
		got := e.once(p)
		tag := fmt.Sprintf("call %d: ", k+1)
		switch {
		case canon(got.Rows) != canon(exp.Rows):
			return tag + "table differs from the reference", got.Rows, exp.Rows
		case got.Err != exp.Err:
			return tag + "error class differs", got.Err, exp.Err
		case exp.Err == "ok" && canon(got.Val) != canon(exp.Val):
			return tag + "returned record differs from the reference (built from conditions + Attrs, Assign applied)", got.Val, exp.Val
		case p.Fin == "foi" && got.Writes != 0:
			return tag + "FirstOrInit wrote to the database", got.Writes, 0
		case p.Fin == "foc" && got.Writes > 1:
			return tag + "FirstOrCreate wrote more than once", got.Writes, "<= 1"
		}
		rows = exp.Rows
	}
	return "", nil, nil
}

// ---- generator -------------------------------------------------------------------------------------------------------

func c16fGenRow(rng *rand.Rand, id int) []int {
	return []int{id, rng.Intn(3), rng.Intn(3), rng.Intn(3), rng.Intn(2), rng.Intn(3)}
}

func c16fDom(c int) int {
	if c == 4 {
		return 2
	}
	return 3
}

// role: 0 condition, 1 attrs / assign that may reach the database (FirstOrCreate), 2 attrs / assign that never does
func c16fGenArg(rng *rand.Rand, role int) *C16FA {
	a := &C16FA{}
	forms := []string{"struct", "ptr", "map", "map", "smap", "imap", "kv", "kv", "eq", "eqcol", "eqtab", "eqcur"}
	if role == 0 {
		forms = append(forms, "raw", "structsel", "map")
	}
	a.Form = forms[rng.Intn(len(forms))]
	cols := []int{1, 2, 3, 4, 5}
	if role == 0 && rng.Intn(6) == 0 {
		cols = append(cols, 0)
	}
	if a.Form == "smap" {
		cols = []int{1, 3}
	}
	rng.Shuffle(len(cols), func(i, j int) { cols[i], cols[j] = cols[j], cols[i] })
	n := 1 + rng.Intn(2)
	switch a.Form {
	case "kv", "eq", "eqcol", "eqtab", "eqcur", "raw":
		n = 1
	}
	if n > len(cols) {
		n = len(cols)
	}
	cols = cols[:n]
	sort.Ints(cols)
	for _, c := range cols {
		v := rng.Intn(c16fDom(c))
		if c == 0 {
			v = 1 + rng.Intn(4)
		}
		a.F = append(a.F, [2]int{c, v})
		sp := rng.Intn(2)
		if role == 0 && !c16fSame[c] {
			sp = 0 // a condition goes to the database: `Title` is not a column
		}
		if a.Form == "raw" {
			sp = 0
		}
		a.Sp = append(a.Sp, sp)
	}
	if (a.Form == "struct" || a.Form == "ptr") && len(a.eff()) == 0 {
		a.F[0][1] = 1
	}
	if role == 2 && rng.Intn(4) == 0 {
		a.Unk = true
	}
	return a
}

func c16fGenProg(rng *rand.Rand) *C16FP {
	p := &C16FP{Rows: [][]int{}, Fin: "foi"}
	for id := 1; id <= 3; id++ {
		if rng.Intn(3) != 0 {
			p.Rows = append(p.Rows, c16fGenRow(rng, id))
		}
	}
	if rng.Intn(5) < 3 {
		p.Fin = "foc"
	}
	for i, n := 0, rng.Intn(3); i < n; i++ {
		p.Steps = append(p.Steps, C16FS{K: "where", A: c16fGenArg(rng, 0)})
	}
	if rng.Intn(3) == 0 || len(p.Steps) == 0 && rng.Intn(8) != 0 {
		p.Inl = c16fGenArg(rng, 0)
	}
	if rng.Intn(4) != 0 {
		// Attrs is applied on a miss only and never sent to the database by itself: unknown keys are legal
		p.Steps = append(p.Steps, C16FS{K: "attrs", A: c16fGenArg(rng, 2)})
	}
	if rng.Intn(2) == 0 {
		role := 1
		if p.Fin == "foi" {
			role = 2
		}
		p.Steps = append(p.Steps, C16FS{K: "assign", A: c16fGenArg(rng, role)})
	}
	rng.Shuffle(len(p.Steps), func(i, j int) { p.Steps[i], p.Steps[j] = p.Steps[j], p.Steps[i] })
	if rng.Intn(3) == 0 {
		pos := rng.Intn(len(p.Steps) + 1)
		k := []string{"session", "ctx"}[rng.Intn(2)]
		p.Steps = append(append(append([]C16FS{}, p.Steps[:pos]...), C16FS{K: k}), p.Steps[pos:]...)
	}
	p.Twice = rng.Intn(2) == 0
	return p
}

func c16fSpellings(p *C16FP) (byGo, byCol int) {
	count := func(a *C16FA) {
		if a == nil {
			return
		}
		for _, s := range a.Sp {
			if s == 1 {
				byGo++
			} else {
				byCol++
			}
		}
	}
	for _, s := range p.Steps {
		count(s.A)
	}
	count(p.Inl)
	return
}

func c16FormsSuite(r *Result, rng *rand.Rand, tier string) {
	n := 2500
	if tier == "thorough" {
		n = 40000
	} else if tier == "search" {
		n = 300000
	}
	e := c16fOpen()
	for i := 0; i < n && !expired(); i++ {
		p := c16fGenProg(rng)
		what, obs, want := c16fJudge(e, p)
		if what != "" {
			r.Violate(Violation{Kind: "e2e", Suite: "forms", Input: p, Observed: obs, Expected: want, Note: what})
		}
		exp := c16fRef(p, p.Rows)
		g, _ := c16fSpellings(p)
		r.Case("forms", canon(p), g > 0)
		branch := "miss"
		if exp.Hit {
			branch = "hit"
		}
		r.H("forms.branch", p.Fin+"/"+branch+"/"+exp.Err)
		r.H("forms.twice", fmt.Sprint(p.Twice))
		r.H("forms.go_spelled_names", fmt.Sprint(g))
		for _, s := range p.Steps {
			if s.A != nil {
				r.H("forms."+s.K+"_form", s.A.Form)
				if s.A.Unk {
					r.H("forms.unknown_key", s.K)
				}
			}
		}
		if p.Inl != nil {
			r.H("forms.inline_form", p.Inl.Form)
		}
		if i < 2 {
			r.Sample(p)
		}
	}
}

// ---- forms-tie: generated schemas ------------------------------------------------------------------------------------------

type C16FT struct {
	Go     []string   `json:"go"`   // Go field names (field 0 is the key `ID`)
	Col    []string   `json:"col"`  // their columns
	Conds  []C16FTArg `json:"conds"`
	Attrs  []C16FTArg `json:"attrs"`
	Assign []C16FTArg `json:"assign"`
}

type C16FTArg struct {
	Form string   `json:"form"` // map | kv | eq | eqcol | struct
	Keys []string `json:"keys"`
	Vals []int    `json:"vals"`
}

var c16ftGoPool = []string{"Name", "Age", "Title", "Score", "Nick", "Code", "Rank"}

func c16ftType(t *C16FT) reflect.Type {
	sf := make([]reflect.StructField, len(t.Go))
	for i := range t.Go {
		tag := `gorm:"column:` + t.Col[i] + `"`
		typ := reflect.TypeOf(int(0))
		if i == 0 {
			tag = `gorm:"column:` + t.Col[i] + `;primaryKey"`
			typ = reflect.TypeOf(uint(0))
		}
		sf[i] = reflect.StructField{Name: t.Go[i], Type: typ, Tag: reflect.StructTag(tag)}
	}
	return reflect.StructOf(sf)
}

func c16ftGen(rng *rand.Rand) *C16FT {
	for {
		t := &C16FT{Go: []string{"ID"}, Col: []string{"id"}}
		pool := append([]string(nil), c16ftGoPool...)
		rng.Shuffle(len(pool), func(i, j int) { pool[i], pool[j] = pool[j], pool[i] })
		n := 2 + rng.Intn(3)
		t.Go = append(t.Go, pool[:n]...)
		for i := 1; i <= n; i++ {
			switch rng.Intn(5) {
			case 0, 1:
				t.Col = append(t.Col, strings.ToLower(t.Go[i]))
			case 2:
				t.Col = append(t.Col, fmt.Sprint("c_", i))
			case 3:
				t.Col = append(t.Col, t.Go[i]) // the column is spelled exactly like the Go name
			default:
				t.Col = append(t.Col, t.Go[1+rng.Intn(n)]) // spelled like a (possibly other) field's Go name: crossing
			}
		}
		seen := map[string]bool{}
		ok := true
		for _, c := range t.Col {
			l := strings.ToLower(c)
			ok = ok && !seen[l]
			seen[l] = true
		}
		if !ok {
			continue
		}
		arg := func(cond bool) C16FTArg {
			a := C16FTArg{Form: []string{"map", "map", "kv", "eq", "eqcol", "struct"}[rng.Intn(6)]}
			k := 1 + rng.Intn(3)
			if a.Form != "map" {
				k = 1
			}
			if a.Form == "struct" {
				for i := 1; i < len(t.Go); i++ {
					a.Keys = append(a.Keys, t.Go[i])
					a.Vals = append(a.Vals, rng.Intn(3))
				}
				return a
			}
			for j := 0; j < k; j++ {
				f := 1 + rng.Intn(len(t.Go)-1)
				name := t.Col[f]
				if !cond {
					switch rng.Intn(6) {
					case 0, 1, 2:
						name = t.Go[f]
					case 3:
						name = "nope"
					}
				}
				dup := false
				for _, x := range a.Keys {
					dup = dup || x == name
				}
				if dup {
					continue
				}
				a.Keys = append(a.Keys, name)
				a.Vals = append(a.Vals, rng.Intn(4))
			}
			return a
		}
		for i, m := 0, rng.Intn(3); i < m; i++ {
			t.Conds = append(t.Conds, arg(true))
		}
		if rng.Intn(4) != 0 {
			t.Attrs = append(t.Attrs, arg(false))
		}
		if rng.Intn(2) == 0 {
			t.Assign = append(t.Assign, arg(false))
		}
		return t
	}
}

// value of the argument for the real call, given the model type
func (a *C16FTArg) call(typ reflect.Type) []interface{} {
	switch a.Form {
	case "map":
		m := map[string]interface{}{}
		for i, k := range a.Keys {
			m[k] = a.Vals[i]
		}
		return []interface{}{m}
	case "kv":
		return []interface{}{a.Keys[0], a.Vals[0]}
	case "eq":
		return []interface{}{clause.Eq{Column: a.Keys[0], Value: a.Vals[0]}}
	case "eqcol":
		return []interface{}{clause.Eq{Column: clause.Column{Name: a.Keys[0]}, Value: a.Vals[0]}}
	}
	v := reflect.New(typ).Elem()
	for i, k := range a.Keys {
		v.FieldByName(k).SetInt(int64(a.Vals[i]))
	}
	return []interface{}{v.Interface()}
}

// protocol form: names are coded by their index in `names`
func (a *C16FTArg) J(t *C16FT, code func(string) int, cond bool) interface{} {
	kvs := []interface{}{}
	switch a.Form {
	case "map":
		idx := make([]int, len(a.Keys))
		for i := range idx {
			idx[i] = i
		}
		sort.Slice(idx, func(x, y int) bool { return a.Keys[idx[x]] < a.Keys[idx[y]] }) // BuildCondition sorts the keys
		for _, i := range idx {
			kvs = append(kvs, []int{code(a.Keys[i]), a.Vals[i]})
		}
		return []interface{}{"eqs", kvs}
	case "kv", "eq":
		return []interface{}{"eqs", []interface{}{[]int{code(a.Keys[0]), a.Vals[0]}}}
	case "eqcol":
		return []interface{}{"cols", []interface{}{[]int{code(a.Keys[0]), a.Vals[0]}}}
	}
	if cond {
		// a struct CONDITION: BuildCondition emits clause.Eq{Column: clause.Column{Name: field.DBName}} for non-zero fields
		for i, k := range a.Keys {
			if a.Vals[i] != 0 {
				for f := range t.Go {
					if t.Go[f] == k {
						kvs = append(kvs, []int{code(t.Col[f]), a.Vals[i]})
					}
				}
			}
		}
		return []interface{}{"cols", kvs}
	}
	for i, k := range a.Keys {
		kvs = append(kvs, []int{code(k), a.Vals[i]})
	}
	return []interface{}{"strct", kvs}
}

func (t *C16FT) leanOp() []interface{} {
	names := map[string]int{}
	code := func(s string) int {
		if c, ok := names[s]; ok {
			return c
		}
		names[s] = len(names) + 1
		return names[s]
	}
	fs := []interface{}{}
	for i := range t.Go {
		fs = append(fs, []int{code(t.Go[i]), code(t.Col[i])})
	}
	js := func(as []C16FTArg, cond bool) []interface{} {
		out := []interface{}{}
		for i := range as {
			out = append(out, as[i].J(t, code, cond))
		}
		return out
	}
	return []interface{}{"c16.forms", map[string]interface{}{"fs": fs, "conds": js(t.Conds, true), "attrs": js(t.Attrs, false), "assigns": js(t.Assign, false)}}
}

var c16ftTables int

// real: FirstOrInit on an empty table of the generated type; the record built
func c16ftReal(db *gorm.DB, t *C16FT) (rec []int, errText string) {
	typ := c16ftType(t)
	c16ftTables++
	tbl := fmt.Sprint("c16_ft_", c16ftTables)
	dest := reflect.New(typ)
	if err := db.Table(tbl).AutoMigrate(dest.Interface()); err != nil {
		return nil, "migrate: " + err.Error()
	}
	defer db.Exec("DROP TABLE " + tbl)
	h := db.Table(tbl)
	for i := range t.Conds {
		a := t.Conds[i].call(typ)
		h = h.Where(a[0], a[1:]...)
	}
	if len(t.Attrs) > 0 {
		h = h.Attrs(t.Attrs[0].call(typ)...)
	}
	if len(t.Assign) > 0 {
		h = h.Assign(t.Assign[0].call(typ)...)
	}
	res := h.FirstOrInit(dest.Interface())
	if res.Error != nil {
		return nil, res.Error.Error()
	}
	v := dest.Elem()
	for i := 0; i < v.NumField(); i++ {
		if i == 0 {
			rec = append(rec, int(v.Field(i).Uint()))
		} else {
			rec = append(rec, int(v.Field(i).Int()))
		}
	}
	return rec, ""
}

func c16FormsTieSuite(r *Result, rng *rand.Rand, tier string) {
	n := 1500
	if tier == "thorough" {
		n = 15000
	} else if tier == "search" {
		n = 40000
	}
	db, _, _ := OpenRec(&gorm.Config{NowFunc: fixedNowFunc})
	// the regenerated sites, for the evidence
	if ans, err := AskLean([][]interface{}{{"c16.genforms"}}); err == nil {
		r.Note("regenerated resolution sites [LookUpField order, eq-string, eq-column, struct; back-fill guarded]: %s", string(ans[0]))
	}
	var progs []*C16FT
	var reals [][]int
	var ops [][]interface{}
	for i := 0; i < n && !expired(); i++ {
		t := c16ftGen(rng)
		rec, errText := c16ftReal(db, t)
		if errText != "" {
			r.H("forms-tie.real_error", "yes")
			continue
		}
		progs, reals, ops = append(progs, t), append(reals, rec), append(ops, t.leanOp())
		cross := false
		for i := range t.Go {
			for j := range t.Col {
				cross = cross || (i != j && t.Go[i] == t.Col[j])
			}
		}
		r.H("forms-tie.crossing_names", fmt.Sprint(cross))
		for _, as := range [][]C16FTArg{t.Conds, t.Attrs, t.Assign} {
			for _, a := range as {
				r.H("forms-tie.form", a.Form)
			}
		}
		r.Case("forms-tie", canon(t), true)
	}
	if len(ops) == 0 {
		return
	}
	ans, err := AskLean(ops)
	if err != nil {
		r.Violate(Violation{Kind: "correspondence", Suite: "forms-tie", Input: "batch", Observed: err.Error(), Expected: "driver answers"})
		return
	}
	for i, t := range progs {
		r.CorrCompared++
		if canonRaw(ans[i]) != canon(reals[i]) {
			r.Violate(Violation{Kind: "correspondence", Suite: "forms-tie", Input: t, Observed: reals[i], Expected: json.RawMessage(ans[i]),
				Note: "record built by FirstOrInit on an empty table vs Model.UpsertForms.build (regenerated resolution sites)"})
		}
	}
}

func init() {
	register("C16", c16FormsSuite)
	register("C16", c16FormsTieSuite)
	replayers["C16/forms"] = func(r *Result, input json.RawMessage) {
		var p C16FP
		if err := json.Unmarshal(input, &p); err != nil {
			r.Note("bad replay input: %v", err)
			return
		}
		if what, obs, want := c16fJudge(c16fOpen(), &p); what != "" {
			r.Violate(Violation{Kind: "e2e", Suite: "forms", Input: &p, Observed: obs, Expected: want, Note: what})
		}
	}
	replayers["C16/forms-tie"] = func(r *Result, input json.RawMessage) {
		var t C16FT
		if err := json.Unmarshal(input, &t); err != nil {
			r.Note("bad replay input: %v", err)
			return
		}
		if f := flag.Lookup("driver"); f != nil && f.Value.String() != "" {
			driverPath = f.Value.String()
		}
		db, _, _ := OpenRec(&gorm.Config{NowFunc: fixedNowFunc})
		rec, errText := c16ftReal(db, &t)
		ans, err := AskLean([][]interface{}{t.leanOp()})
		if err != nil || errText != "" {
			r.Note("replay: %v %s", err, errText)
			return
		}
		r.CorrCompared++
		if canonRaw(ans[0]) != canon(rec) {
			r.Violate(Violation{Kind: "correspondence", Suite: "forms-tie", Input: &t, Observed: rec, Expected: json.RawMessage(ans[0])})
		}
	}
}
