package main

// C01 e2e generators for the dimensions the first version did not vary:
//   (a) the Go TYPE of list values (element kind named/unnamed, slice / array / named slice type, empty) through every
//       route that hands the list to AddVar: `IN ?`, `= ?`, `IN (?)`, `IN @v` (sql.Named / map / struct field), `(@v)`,
//       clause.IN / Eq / Neq, map conditions, gorm.Expr in Update / Updates / Create maps; byte strings of every type;
//   (b) sub-query handles in every position and nesting depth, rendered Raw handles with >= 10 values;
//   (c) named arguments in every container (sql.Named, map, struct, *struct, embedded struct, embedded *struct, mixed)
//       with values of every kind, through every entry point that decides Expr vs NamedExpr
//       (BuildCondition: Where/Or/Not/Having/inline conditions/join ON handles; Select; raw Joins; Raw; Exec).
// The judge (c01Judge) stays the one of c01_e2e.go.
//
// Latitude (documented where the generator avoids a form):
//   * an EMPTY list directly after `(` (`IN (?)`) is bound as one NULL value by Expr.Build, everywhere else it is the
//     text `(NULL)`: both are "empty slices to NULL"; the e2e generator does not put empty lists after `(`.
//   * a byte string directly after `(` is expanded per byte by Expr.Build and map conditions expand it too (it IS a slice);
//     elsewhere it is one blob: the e2e generator binds byte strings only through `= ?` / named / clause.Eq.
//   * which value wins when the same name is supplied twice is not stated by the property: never generated.

import (
	"database/sql"
	"encoding/json"
	"fmt"
	"math/rand"
	"reflect"
	"strings"

	"gorm.io/gorm"
	"gorm.io/gorm/clause"
)

// ---- (a) typed lists -------------------------------------------------------------------------------------------------

// c01TypedList builds a list of n elements of the Go type kind:tag; bound = the values in order (markers where the
// element type is wide enough, small plain numbers otherwise)
func c01TypedList(rng *rand.Rand, m *markerGen, kind, tag string, n int) (list interface{}, bound []interface{}, col string) {
	els := make([]interface{}, n)
	col = "age"
	for i := range els {
		switch tag {
		case "pi":
			v := m.I()
			els[i] = &v
		case "pny":
			v := C01U8(1 + rng.Intn(200))
			els[i] = &v
		case "dv":
			els[i] = sql.NullString{String: m.S(), Valid: true}
			col = "name"
		default:
			st := c01TagType[tag]
			rv := reflect.New(st.t).Elem()
			switch st.t.Kind() {
			case reflect.Int, reflect.Int32, reflect.Int64:
				rv.SetInt(int64(m.I()))
			case reflect.Uint, reflect.Uint32, reflect.Uint64:
				rv.SetUint(uint64(m.I()))
			case reflect.Int8, reflect.Int16:
				rv.SetInt(int64(1 + rng.Intn(100)))
			case reflect.Uint8, reflect.Uint16:
				rv.SetUint(uint64(1 + rng.Intn(200)))
			case reflect.String:
				rv.SetString(m.S())
				col = "name"
			case reflect.Bool:
				rv.SetBool(rng.Intn(2) == 0)
			default:
				rv.SetFloat(float64(rng.Intn(50)) + 0.5)
			}
			els[i] = rv.Interface()
		}
		bound = append(bound, els[i])
	}
	return c01MakeList(kind+":"+tag, els), bound, col
}

func c01PickListType(rng *rand.Rand) (kind, tag string) {
	tags := []string{}
	for _, t := range c01ListElemTags {
		tags = append(tags, t)
	}
	tags = append(tags, "ny", "ny", "i", "s", "i64") // weighted
	tag = tags[rng.Intn(len(tags))]
	kind = "s"
	switch rng.Intn(5) {
	case 0, 1:
		kind = "a"
	case 2:
		if _, ok := c01NamedSlice[tag]; ok {
			kind = "n"
		}
	}
	return
}

func c01PickLen(rng *rand.Rand) int {
	switch rng.Intn(8) {
	case 0:
		return 0
	case 1:
		return 11 // `$10`, `$11`
	default:
		return 1 + rng.Intn(3)
	}
}

var c01Hist func(hist, bucket string) // set by the runner: generator-side histograms

func c01H(hist, bucket string) {
	if c01Hist != nil {
		c01Hist(hist, bucket)
	}
}

// c01TypedCond: one condition whose value is a typed list, through a random route into AddVar
func c01TypedCond(rng *rand.Rand, m *markerGen, pfx string) condForm {
	if rng.Intn(7) == 0 {
		return c01BytesCond(rng, m, pfx)
	}
	kind, tag := c01PickListType(rng)
	n := c01PickLen(rng)
	route := rng.Intn(14)
	if route == 1 && n == 0 {
		n = 2 // latitude: see file comment
	}
	list, bound, bare := c01TypedList(rng, m, kind, tag, n)
	if bound == nil {
		bound = []interface{}{}
	}
	col := pfx + bare                                                            // in SQL templates
	var ccol interface{} = bare                                                  // clause.X{Column:}
	if pfx != "" {
		ccol = clause.Column{Table: strings.TrimSuffix(pfx, "."), Name: bare}
	}
	c01H("e2e.list-type", kind+":"+tag)
	c01H("e2e.list-len", c01Bucket(n))
	d := func(r string) string {
		c01H("e2e.list-route", r)
		return fmt.Sprintf("%s %s len %d", r, reflect.TypeOf(list), n)
	}
	switch route {
	case 0:
		return condForm{d("col IN ?"), col + " IN ?", []interface{}{list}, bound}
	case 1:
		return condForm{d("col IN (?)"), col + " IN (?)", []interface{}{list}, bound}
	case 2:
		return condForm{d("col IN @v sql.Named"), col + " IN @v", []interface{}{sql.Named("v", list)}, bound}
	case 3:
		return condForm{d("col IN @v map"), col + " IN @v", []interface{}{map[string]interface{}{"v": list}}, bound}
	case 4:
		if rng.Intn(2) == 0 {
			return condForm{d("col IN @Ids struct"), col + " IN @Ids", []interface{}{C01Args{Ids: list}}, bound}
		}
		return condForm{d("col IN @Ids *struct"), col + " IN @Ids", []interface{}{&C01Args{Ids: list}}, bound}
	case 5:
		return condForm{d("clause.IN{elements}"), clause.IN{Column: ccol, Values: bound}, nil, bound}
	case 6:
		return condForm{d("clause.IN{one list}"), clause.IN{Column: ccol, Values: []interface{}{list}}, nil, bound}
	case 7:
		return condForm{d("clause.Eq{list}"), clause.Eq{Column: ccol, Value: list}, nil, bound}
	case 8:
		return condForm{d("clause.Neq{list}"), clause.Neq{Column: ccol, Value: list}, nil, bound}
	case 9:
		return condForm{d("map{col: list}"), map[string]interface{}{bare: list}, nil, bound}
	case 10:
		return condForm{d("col = ?"), col + " = ?", []interface{}{list}, bound}
	case 13:
		return condForm{d("col IN ? []interface{}{list}"), col + " IN ?", []interface{}{[]interface{}{list}}, bound}
	case 11:
		return condForm{d("col IN (@v)"), col + " IN (@v)", []interface{}{sql.Named("v", list)}, bound}
	default:
		return condForm{d("gorm.Expr(IN ?) arg"), col + " > ?", []interface{}{gorm.Expr("(CASE WHEN "+col+" IN ? THEN 1 ELSE 0 END)", list)}, bound}
	}
}

// byte strings of every Go type: ONE bound blob
func c01BytesCond(rng *rand.Rand, m *markerGen, pfx string) condForm {
	var ccol interface{} = "name"
	if pfx != "" {
		ccol = clause.Column{Table: strings.TrimSuffix(pfx, "."), Name: "name"}
	}
	s := m.S()
	if rng.Intn(5) == 0 {
		s = "" // empty []byte is still one bound value; an empty NAMED byte slice / [0]byte is `(NULL)`
	}
	bt := []string{"bytes", "c01Bytes", "raw", "arr"}[rng.Intn(4)]
	v := c01MakeBytes(bt, []byte(s))
	bound := []interface{}{[]byte(s)}
	if s == "" && bt != "bytes" {
		bound = []interface{}{}
	}
	c01H("e2e.bytes-type", bt)
	d := "byte string " + bt + " "
	switch rng.Intn(4) {
	case 0:
		return condForm{d + "name = ?", pfx + "name = ?", []interface{}{v}, bound}
	case 1:
		return condForm{d + "name = @v", pfx + "name = @v", []interface{}{sql.Named("v", v)}, bound}
	case 2:
		return condForm{d + "clause.Eq", clause.Eq{Column: ccol, Value: v}, nil, bound}
	default:
		return condForm{d + "name = @v map", pfx + "name = @v", []interface{}{map[string]interface{}{"v": v}}, bound}
	}
}

var _ = json.RawMessage{}

// ---- (c) named arguments ---------------------------------------------------------------------------------------------

// Field names are chosen so that they never equal an exported field of a library struct.
type C01NArgs struct {
	Nname string
	Nage  int
	Nids  interface{}
	Nns   sql.NullString
	Nz    *int
	Nnil  interface{}
	skip  int
}
type C01NWrap struct {
	C01NArgs
	Nextra string
}
type C01NWrapP struct {
	*C01NArgs
	Nextra string
}

type c01Named struct {
	Desc  string
	Tmpl  string
	Args  []interface{}
	Bound []interface{}
}

var c01NamedContainers = []string{"sql.Named", "map", "struct", "*struct", "embedded", "*embedded", "embedded-ptr", "*embedded-ptr", "map+sql.Named", "struct+sql.Named", "struct+map"}

// c01GenNamed builds a condition text over @names (columns prefixed with pfx) and packs the values into a container.
func c01GenNamed(rng *rand.Rand, m *markerGen, pfx string) c01Named {
	var a C01NArgs
	extra := ""
	type piece struct {
		text  string
		names []string
		bound []interface{}
	}
	vals := map[string]interface{}{}
	mk := func(name string) piece {
		switch name {
		case "Nname":
			if a.Nname == "" {
				a.Nname = m.S()
				vals[name] = a.Nname
			}
			if rng.Intn(3) == 0 { // the same name twice
				return piece{"(" + pfx + "name <> @Nname AND " + pfx + "email <> @Nname)", []string{name}, []interface{}{a.Nname, a.Nname}}
			}
			return piece{pfx + "name <> @Nname", []string{name}, []interface{}{a.Nname}}
		case "Nage":
			if a.Nage == 0 {
				a.Nage = m.I()
				vals[name] = a.Nage
			}
			switch rng.Intn(4) {
			case 0: // terminators ',' and ')'
				return piece{pfx + "age NOT IN (@Nage,@Nage)", []string{name}, []interface{}{a.Nage, a.Nage}}
			case 1: // terminator newline / CR
				return piece{pfx + "age > @Nage\r\n", []string{name}, []interface{}{a.Nage}}
			}
			return piece{pfx + "age > @Nage", []string{name}, []interface{}{a.Nage}}
		case "Nids":
			if a.Nids == nil {
				kind, tag := c01PickListType(rng)
				for tag == "dv" || tag == "s" || tag == "ns" {
					kind, tag = c01PickListType(rng)
				}
				list, bound, _ := c01TypedList(rng, m, kind, tag, 1+rng.Intn(3))
				a.Nids = list
				vals[name] = list
				vals["#ids"] = bound
			}
			return piece{pfx + "age IN @Nids", []string{name}, vals["#ids"].([]interface{})}
		case "Nns":
			if !a.Nns.Valid {
				a.Nns = sql.NullString{String: m.S(), Valid: true}
				vals[name] = a.Nns
			}
			return piece{pfx + "email <> @Nns", []string{name}, []interface{}{a.Nns.String}}
		case "Nz":
			if a.Nz == nil {
				a.Nz = intPtr(m.I())
				vals[name] = a.Nz
			}
			return piece{pfx + "z <> @Nz", []string{name}, []interface{}{*a.Nz}}
		case "Nnil":
			vals[name] = nil
			return piece{pfx + "z IS NOT @Nnil", []string{name}, []interface{}{nil}}
		default: // Nextra (only the embedded containers and sql.Named / map have it)
			if extra == "" {
				extra = m.S()
				vals[name] = extra
			}
			return piece{pfx + "email <> @Nextra", []string{name}, []interface{}{extra}}
		}
	}
	container := c01NamedContainers[rng.Intn(len(c01NamedContainers))]
	pool := []string{"Nname", "Nage", "Nids", "Nns", "Nz", "Nnil", "Nname", "Nage"}
	if container != "struct" && container != "*struct" {
		pool = append(pool, "Nextra")
	}
	k := 1 + rng.Intn(3)
	var sb strings.Builder
	out := c01Named{}
	used := []string{}
	for i := 0; i < k; i++ {
		p := mk(pool[rng.Intn(len(pool))])
		if i > 0 {
			sb.WriteString([]string{" AND ", " OR "}[rng.Intn(2)])
		}
		sb.WriteString(p.text)
		out.Bound = append(out.Bound, p.bound...)
		for _, n := range p.names {
			dup := false
			for _, u := range used {
				dup = dup || u == n
			}
			if !dup {
				used = append(used, n)
			}
		}
	}
	out.Tmpl = sb.String()
	named := func(names []string) []interface{} {
		as := []interface{}{}
		for _, i := range rng.Perm(len(names)) {
			as = append(as, sql.Named(names[i], vals[names[i]]))
		}
		return as
	}
	mp := func(names []string) map[string]interface{} {
		mm := map[string]interface{}{}
		for _, n := range names {
			mm[n] = vals[n]
		}
		return mm
	}
	// split: names the struct / first container does not carry go to the second one
	strct := func(ptr bool, form string) interface{} {
		switch form {
		case "embedded":
			w := C01NWrap{C01NArgs: a, Nextra: extra}
			if ptr {
				return &w
			}
			return w
		case "embedded-ptr":
			aa := a
			w := C01NWrapP{C01NArgs: &aa, Nextra: extra}
			if ptr {
				return &w
			}
			return w
		}
		if ptr {
			aa := a
			return &aa
		}
		return a
	}
	switch container {
	case "sql.Named":
		out.Args = named(used)
	case "map":
		out.Args = []interface{}{mp(used)}
	case "struct", "*struct":
		out.Args = []interface{}{strct(container[0] == '*', "")}
	case "embedded", "*embedded":
		out.Args = []interface{}{strct(container[0] == '*', "embedded")}
	case "embedded-ptr", "*embedded-ptr":
		out.Args = []interface{}{strct(container[0] == '*', "embedded-ptr")}
	case "map+sql.Named":
		h := len(used) / 2
		out.Args = append([]interface{}{mp(used[:h])}, named(used[h:])...)
		if rng.Intn(2) == 0 {
			out.Args = append(named(used[h:]), mp(used[:h]))
		}
	case "struct+sql.Named", "struct+map":
		// the struct carries its own fields; Nextra (not a field of C01NArgs) comes from the second container
		rest := []string{}
		for _, u := range used {
			if u == "Nextra" {
				rest = append(rest, u)
			}
		}
		out.Args = []interface{}{strct(rng.Intn(2) == 0, "")}
		if container == "struct+map" {
			out.Args = append(out.Args, mp(rest))
		} else {
			out.Args = append(out.Args, named(rest)...)
		}
	}
	out.Desc = fmt.Sprintf("named[%s] %q", container, out.Tmpl)
	c01H("e2e.named-container", container)
	return out
}

func c01NamedCond(rng *rand.Rand, m *markerGen) condForm {
	n := c01GenNamed(rng, m, "")
	return condForm{n.Desc, n.Tmpl, n.Args, n.Bound}
}

// ---- (b) sub-queries ---------------------------------------------------------------------------------------------------

var c01SubSeq int

// c01GenSub builds a sub-query handle (chain-built or rendered Raw) whose conditions may hold lists (>= 10 values
// sometimes) and further sub-queries down to `depth` levels.  scalar = a single-value sub-query (SELECT AVG(..))
func c01GenSub(rng *rand.Rand, m *markerGen, db *gorm.DB, depth int, scalar bool) (sub *gorm.DB, bound []interface{}, desc string) {
	c01SubSeq++
	alias := fmt.Sprint("s", c01SubSeq%1000)
	fresh := func() *gorm.DB { return db.Session(&gorm.Session{NewDB: true}) }
	// inner condition on alias.<col>
	cond := func() (string, []interface{}, []interface{}, string) {
		switch k := rng.Intn(6); {
		case k == 0 && depth > 0:
			in, b, d := c01GenSub(rng, m, db, depth-1, false)
			return alias + ".id IN (?)", []interface{}{in}, b, "IN(" + d + ")"
		case k == 1 && depth > 0:
			in, b, d := c01GenSub(rng, m, db, depth-1, true)
			return alias + ".age > (?)", []interface{}{in}, b, ">(" + d + ")"
		case k == 2:
			n := []int{2, 3, 11, 12}[rng.Intn(4)]
			vs, b := make([]int, n), []interface{}{}
			for i := range vs {
				vs[i] = m.I()
				b = append(b, vs[i])
			}
			return alias + ".age IN ?", []interface{}{vs}, b, fmt.Sprint("IN?x", n)
		case k == 3:
			s, a := m.S(), m.I()
			return alias + ".name = @n OR " + alias + ".age < @a", []interface{}{sql.Named("a", a), sql.Named("n", s)}, []interface{}{s, a}, "named"
		default:
			s := m.S()
			return alias + ".name <> ?", []interface{}{s}, []interface{}{s}, "1"
		}
	}
	sel := alias + ".id"
	if scalar {
		sel = "AVG(" + alias + ".age)"
	}
	if rng.Intn(3) == 0 {
		// rendered Raw handle: AddVar's re-templating branch
		q1, a1, b1, d1 := cond()
		q := "SELECT " + sel + " FROM v_users AS " + alias + " WHERE " + q1
		args, bd := a1, b1
		d := "Raw{" + d1
		if !strings.Contains(q, "@") && rng.Intn(2) == 0 {
			q2, a2, b2, d2 := cond()
			if !strings.Contains(q2, "@") {
				q += " AND " + q2
				args, bd = append(append([]interface{}{}, a1...), a2...), append(append([]interface{}{}, b1...), b2...)
				d += "," + d2
			}
		}
		c01H("e2e.sub-kind", "raw")
		return fresh().Raw(q, args...), bd, d + "}"
	}
	tx := fresh().Table("v_users AS " + alias)
	d := "Sub{"
	if rng.Intn(3) == 0 {
		a := m.I()
		tx = tx.Select(sel+" + ?", a)
		bound = append(bound, a)
		d += "sel?,"
	} else {
		tx = tx.Select(sel)
	}
	for i, n := 0, 1+rng.Intn(2); i < n; i++ {
		q, a, b, dd := cond()
		tx = tx.Where(q, a...)
		bound = append(bound, b...)
		d += dd + ","
	}
	c01H("e2e.sub-kind", "chain")
	return tx, bound, d + "}"
}

// c01SubCond: a sub-query as the argument of a WHERE/HAVING condition
func c01SubCond(rng *rand.Rand, m *markerGen, db *gorm.DB, having bool) condForm {
	depth := rng.Intn(3)
	c01H("e2e.sub-depth", fmt.Sprint(depth))
	switch k := rng.Intn(4); {
	case having:
		sub, b, d := c01GenSub(rng, m, db, depth, true)
		return condForm{"MAX(age) > (sub " + d + ")", "MAX(age) > (?)", []interface{}{sub}, b}
	case k == 0:
		sub, b, d := c01GenSub(rng, m, db, depth, false)
		return condForm{"EXISTS (sub " + d + ")", "EXISTS (?)", []interface{}{sub}, b}
	case k == 1:
		sub, b, d := c01GenSub(rng, m, db, depth, true)
		s := m.S()
		return condForm{"age > (sub " + d + ") AND name <> ?", "age > (?) AND name <> ?", []interface{}{sub, s}, append(append([]interface{}{}, b...), s)}
	case k == 2:
		sub, b, d := c01GenSub(rng, m, db, depth, false)
		return condForm{"clause.IN{sub " + d + "}", clause.IN{Column: "id", Values: []interface{}{[]interface{}{sub}}}, nil, b}
	default:
		sub, b, d := c01GenSub(rng, m, db, depth, false)
		return condForm{"id IN (sub " + d + ")", "id IN (?)", []interface{}{sub}, b}
	}
}
