package main

// C20 round 5 — NAMES of the v2 additions relative to the TEXT of the existing DDL.
//
// Dimension: what a new column / index / constraint is CALLED, relative to everything the database already says about
// the table.  AutoMigrate decides "missing" from exact catalogue answers (ColumnTypes, HasIndex by name, HasConstraint by
// name); dialect predicates need not be exact (gorm.io/driver/sqlite's HasColumn is a LIKE match on the CREATE TABLE
// text), so a new name that merely OCCURS in the old DDL — inside a longer column name, in a check / default expression,
// as the referenced column or table of a foreign key, as (part of) an index or constraint name, as the table name, as a
// type word or SQL keyword — is exactly where a fuzzy "already there" answer would silently swallow an addition.
//
//   e2e  `names`       histories whose v1 is text-rich (compound column names, checks spelling column names, word
//                      defaults, named indexes / checks, belongs-to constraints) and whose v2 additions take their names
//                      FROM the v1 DDL: the generator migrates v1, reads sqlite_master, cuts the text into identifiers,
//                      words, `_`-parts, prefixes, suffixes, case variants and extensions, and names the added columns /
//                      indexes / checks after them.  Judged by the unchanged history oracle (c20RunHistory): AutoMigrate
//                      succeeds, every v2 column exists, a v2 record is accepted and returned, what v2 declares exists,
//                      a repeated run is silent.  Violations replay as C20/history.
//   tie  mig.adddecision  real AutoMigrate (stub catalogue: ColumnTypes lists near-miss names — prefixes, suffixes, case
//                      variants, extensions of the model's column names — and HasColumn answers adversarially) vs Lean
//                      `addedNames (columnDDL …)`: the set of added columns is a function of the exact list only.
//   tie  mig.bodies    the REAL migrator.Migrator bodies AddColumn / CreateIndex / CreateConstraint under a stub whose
//                      Has* predicates answer all-true and all-false: same statement both times, no predicate consulted,
//                      AddColumn's text = Lean addColumnSQL.
//   tie  mig.textmatch the SQLite dialector's real HasColumn on the migrated v1 table for the derived names vs Lean
//                      `textHasColumn` over the table's sqlite_master text (the model of the fuzzy predicate used by the
//                      counterexample theorem).
//
// Excluded (SQLite / driver limits, reproduced on the unchanged tree; never generated): names equal (ASCII case folded)
// to an existing column (SQLite column names are case-insensitive: `duplicate column name`), index names equal to any
// name in sqlite_master or starting with `sqlite_`, constraint names equal (case folded) to an existing constraint name
// (the driver's HasConstraint is a case-insensitive LIKE), unquoted SQL keywords inside generated check expressions.

import (
	"encoding/json"
	"fmt"
	"math/rand"
	"reflect"
	"regexp"
	"sort"
	"strings"

	"gorm.io/driver/sqlite"
	"gorm.io/gorm"
	"gorm.io/gorm/schema"
)

// compound names whose parts coincide with type words / keywords / each other
var c20nPool = []struct{ Name, Kind string }{
	{"UnitPrice", "float64"}, {"TotalAmount", "int"}, {"StatusCode", "string"}, {"OrderNote", "string"},
	{"ItemCount", "int"}, {"CreatedBy", "string"}, {"IsActive", "bool"}, {"ShipDate", "time"},
	{"VendorCode", "string"}, {"NetWeight", "float32"}, {"KeyHash", "string"}, {"TextBody", "string"},
	{"DefaultRate", "float64"}, {"IndexPos", "int"}, {"RealCost", "float64"}, {"CheckSum", "int64"},
	{"UniqueRef", "pstring"}, {"PrimaryTag", "string"}, {"NullCount", "nullint"}, {"TableRef", "uint"},
	{"PriceUnit", "string"}, {"Amount", "int"}, {"NoteText", "nullstr"}, {"BlobData", "bytes"},
}

var c20nKeywords = map[string]bool{}

func init() {
	for _, k := range strings.Fields(`abort action add after all alter always analyze and as asc attach autoincrement before begin
between by cascade case cast check collate column commit conflict constraint create cross current current_date current_time
current_timestamp database default deferrable deferred delete desc detach distinct do drop each else end escape except exclude
exclusive exists explain fail filter first following for foreign from full generated glob group groups having if ignore immediate
in index indexed initially inner insert instead intersect into is isnull join key last left like limit match materialized natural
no not nothing notnull null nulls of offset on or order others outer over partition plan pragma preceding primary query raise
range recursive references regexp reindex release rename replace restrict returning right rollback row rows savepoint select set
table temp temporary then ties to transaction trigger unbounded union unique update using vacuum values view virtual when where
window with without true false rowid oid`) {
		c20nKeywords[k] = true
	}
}

var (
	c20nIdent    = regexp.MustCompile("`([^`]+)`")
	c20nWord     = regexp.MustCompile(`[A-Za-z_][A-Za-z0-9_]*`)
	c20nLegal    = regexp.MustCompile(`^[A-Za-z][A-Za-z0-9_]*$`)
	c20nConstr   = regexp.MustCompile("(?i)CONSTRAINT `([^`]+)`")
	c20nReserved = map[string]bool{"Model": true, "Owner": true, "OwnerID": true, "Org": true, "OrgCode": true, "Stamp": true,
		"Audit": true, "Toys": true, "Badge": true, "Tags": true, "Pics": true, "ID": true, "Id": true, "Serial": true, "Batch": true,
		"CreatedBy": true, "Note": true, "CreatedAt": true, "UpdatedAt": true, "DeletedAt": true}
)

// c20nTokens: the v1 DDL cut into candidate names, by category (deterministic order)
type c20nTokens struct {
	Cat     map[string][]string
	Cols    map[string]bool // existing columns of the table, lower-cased
	Master  map[string]bool // every name in sqlite_master, lower-cased
	Constrs map[string]bool // constraint names, lower-cased
	SQL     string          // the table's CREATE statement
}

func c20nUniq(xs []string) []string {
	seen := map[string]bool{}
	var out []string
	for _, x := range xs {
		if x != "" && !seen[x] {
			seen[x] = true
			out = append(out, x)
		}
	}
	sort.Strings(out)
	return out
}

// c20nMaterialise migrates v1 on a scratch database and reads what the database says about it.
func c20nMaterialise(table string, v1 []c20Field) (tk c20nTokens, err error) {
	defer func() {
		if p := recover(); p != nil {
			err = fmt.Errorf("panic: %v", p)
		}
	}()
	t1, err := c20Type(v1)
	if err != nil {
		return tk, err
	}
	db, rec := c20Open(table)
	if sq, e := db.DB(); e == nil {
		defer sq.Close()
	}
	if err = db.AutoMigrate(reflect.New(t1).Interface()); err != nil {
		return tk, err
	}
	type row struct{ Type, Name, TblName, SQL string }
	var rows []row
	c20Quiet(rec, func() {
		rs, e := db.Session(&gorm.Session{NewDB: true}).Raw("SELECT type, name, tbl_name, coalesce(sql,'') FROM sqlite_master ORDER BY name").Rows()
		if e != nil {
			err = e
			return
		}
		defer rs.Close()
		for rs.Next() {
			var r row
			rs.Scan(&r.Type, &r.Name, &r.TblName, &r.SQL)
			rows = append(rows, r)
		}
	})
	tk = c20nTokens{Cat: map[string][]string{}, Cols: map[string]bool{}, Master: map[string]bool{}, Constrs: map[string]bool{}}
	for c := range c20Columns(db, rec, table) {
		tk.Cols[strings.ToLower(c)] = true
	}
	text := ""
	for _, r := range rows {
		tk.Master[strings.ToLower(r.Name)] = true
		if r.TblName == table {
			text += r.SQL + "\n"
			if r.Type == "table" {
				tk.SQL = r.SQL
			} else if r.Type == "index" {
				tk.Cat["index-name"] = append(tk.Cat["index-name"], r.Name)
				tk.Cat["index-name-part"] = append(tk.Cat["index-name-part"], c20nParts(r.Name)...)
			}
		}
	}
	for _, m := range c20nConstr.FindAllStringSubmatch(tk.SQL, -1) {
		tk.Constrs[strings.ToLower(m[1])] = true
		tk.Cat["constraint-name"] = append(tk.Cat["constraint-name"], m[1])
		tk.Cat["constraint-name-part"] = append(tk.Cat["constraint-name-part"], c20nParts(m[1])...)
	}
	for _, m := range c20nIdent.FindAllStringSubmatch(tk.SQL, -1) {
		id := m[1]
		switch {
		case tk.Cols[strings.ToLower(id)]:
			tk.Cat["column-part"] = append(tk.Cat["column-part"], c20nParts(id)...)
			tk.Cat["column-variant"] = append(tk.Cat["column-variant"], id+"_2", id+"s", "x"+id, id[:len(id)-1], id[1:], id+"_"+id, strings.ToUpper(id[:1])+id[1:]+"X")
		case id == table:
			tk.Cat["table-name"] = append(tk.Cat["table-name"], id)
			tk.Cat["table-name"] = append(tk.Cat["table-name"], c20nParts(id)...)
		case tk.Constrs[strings.ToLower(id)]:
		default: // referenced tables and referenced columns of foreign keys
			tk.Cat["fk-target"] = append(tk.Cat["fk-target"], id)
			tk.Cat["fk-target"] = append(tk.Cat["fk-target"], c20nParts(id)...)
		}
	}
	// words outside the quoted identifiers: type words, keywords, the unquoted spellings inside check / default expressions
	bare := c20nIdent.ReplaceAllString(text, " ")
	for _, w := range c20nWord.FindAllString(bare, -1) {
		lw := strings.ToLower(w)
		if c20nKeywords[lw] || lw == "integer" || lw == "text" || lw == "real" || lw == "numeric" || lw == "blob" || lw == "datetime" || lw == "varchar" {
			tk.Cat["keyword-or-type"] = append(tk.Cat["keyword-or-type"], lw, w)
			if len(w) > 3 {
				tk.Cat["keyword-suffix"] = append(tk.Cat["keyword-suffix"], lw[len(lw)-3:], lw[1:])
			}
		} else {
			tk.Cat["expression-word"] = append(tk.Cat["expression-word"], w)
			tk.Cat["expression-word"] = append(tk.Cat["expression-word"], c20nParts(w)...)
		}
	}
	for k := range tk.Cat {
		tk.Cat[k] = c20nUniq(tk.Cat[k])
	}
	return tk, nil
}

// c20nParts: the `_`-parts of an identifier, every prefix ending and every suffix starting at a `_`
func c20nParts(id string) []string {
	var out []string
	ps := strings.Split(id, "_")
	if len(ps) < 2 {
		return nil
	}
	for i := range ps {
		out = append(out, ps[i])
		if i > 0 {
			out = append(out, strings.Join(ps[i:], "_"), strings.Join(ps[:i], "_"))
		}
	}
	return out
}

func c20nCamel(tok string) string {
	var sb strings.Builder
	for _, p := range strings.Split(tok, "_") {
		if p == "" || !(p[0] >= 'a' && p[0] <= 'z') {
			return ""
		}
		sb.WriteString(strings.ToUpper(p[:1]) + p[1:])
	}
	return sb.String()
}

// c20nPick draws a legal candidate from a random non-empty category; ok(tok) filters.
func c20nPick(rng *rand.Rand, tk c20nTokens, ok func(string) bool) (string, string) {
	var cats []string
	for c := range tk.Cat {
		cats = append(cats, c)
	}
	sort.Strings(cats)
	for tries := 0; tries < 40; tries++ {
		c := cats[rng.Intn(len(cats))]
		xs := tk.Cat[c]
		if len(xs) == 0 {
			continue
		}
		tok := xs[rng.Intn(len(xs))]
		if c20nLegal.MatchString(tok) && len(tok) <= 40 && ok(tok) {
			return tok, c
		}
	}
	return "", ""
}

// c20nV1Field: one text-rich v1 field
func c20nV1Field(g *c20Gen, name, kind string) c20Field {
	rng := g.rng
	class := c20Class(kind)
	var tags []string
	if rng.Intn(5) == 0 {
		tags = append(tags, "column:"+g.pick("c_", "ext_", "old_")+c20ColName(name, ""))
	}
	col := c20ColName(name, strings.Join(tags, ";"))
	hasDefault := false
	if class != "bytes" && rng.Intn(3) == 0 {
		d := g.defaultFor(class, false)
		if class == "string" && rng.Intn(2) == 0 {
			d = g.pick("pending", "draft", "'queued'", "standard")
		}
		tags = append(tags, "default:"+d)
		hasDefault = true
	}
	_ = hasDefault
	if rng.Intn(4) == 0 {
		tags = append(tags, "not null")
	}
	if class == "string" && rng.Intn(3) == 0 {
		tags = append(tags, "size:"+g.pick("20", "64", "255"))
	}
	if class != "bool" && rng.Intn(8) == 0 {
		tags = append(tags, "unique")
	}
	switch rng.Intn(6) {
	case 0:
		tags = append(tags, "index")
	case 1:
		tags = append(tags, "index:idx_"+col+"_lookup")
	case 2:
		if class != "bool" {
			tags = append(tags, "uniqueIndex:uidx_"+col)
		}
	}
	if rng.Intn(2) == 0 && !c20nKeywords[col] {
		tags = append(tags, g.checkFor(class, col, rng.Intn(2) == 0, name))
	}
	return c20Field{Name: name, Kind: kind, Tag: strings.Join(tags, ";")}
}

// c20nGenSpec: one history whose v2 additions are named after the text of the v1 DDL.  ok=false: nothing to derive.
func c20nGenSpec(rng *rand.Rand) (c20Spec, *c20nTokens, bool) {
	g := &c20Gen{rng: rng, feat: map[string]bool{}}
	sp := c20Spec{Table: "gen_items", Rows: 2 + rng.Intn(2)}
	switch rng.Intn(5) {
	case 0:
		sp.V1 = append(sp.V1, c20Field{Name: "ID", Kind: "uint", Tag: "primaryKey;column:item_id"})
	case 1:
		sp.V1 = append(sp.V1, c20Field{Name: "Code", Kind: "string", Tag: "primaryKey;size:40"})
	default:
		sp.V1 = append(sp.V1, c20Field{Name: "ID", Kind: "uint"})
	}
	used := map[string]bool{}
	for _, f := range sp.V1 {
		used[f.Name] = true
	}
	n := 2 + rng.Intn(3)
	for len(sp.V1) < 1+n {
		p := c20nPool[rng.Intn(len(c20nPool))]
		if used[p.Name] {
			continue
		}
		used[p.Name] = true
		sp.V1 = append(sp.V1, c20nV1Field(g, p.Name, p.Kind))
	}
	have := map[string]bool{"audit": true} // (C20Audit.CreatedBy would collide with the pool's CreatedBy)
	for rng.Intn(2) == 0 {
		sp.V1 = append(sp.V1, g.relation("v1", have, false)...)
	}
	for _, f := range sp.V1 {
		used[f.Name] = true
	}
	tk, err := c20nMaterialise(sp.Table, sp.V1)
	if err != nil {
		return sp, nil, false
	}
	sp.V2 = append([]c20Field(nil), sp.V1...)
	newCols := map[string]bool{}
	newNames := map[string]bool{}
	goNames := map[string]bool{}
	for _, f := range sp.V1 {
		goNames[f.Name] = true
	}
	adds := 1 + rng.Intn(3)
	for a := 0; a < adds; a++ {
		fname := fmt.Sprintf("N%c", 'A'+a)
		switch k := rng.Intn(10); {
		case k < 6: // ---- a column named after the old text
			tok, cat := c20nPick(rng, tk, func(t string) bool {
				lt := strings.ToLower(t)
				return !tk.Cols[lt] && !newCols[lt] && lt != "id" && lt != "rowid" && lt != "oid" && lt != "_rowid_"
			})
			if tok == "" {
				continue
			}
			newCols[strings.ToLower(tok)] = true
			kind := g.pick("int", "int64", "uint", "float64", "string", "string", "bool", "time", "pstring", "nullint", "bytes", "nullstr")
			class := c20Class(kind)
			f := c20Field{Name: fname, Kind: kind}
			var tags []string
			route := "column-tag"
			// (two Go names with one snake-case spelling share their DEFAULT index / constraint names: a changed index, not an added one)
			snakeTaken := false
			for _, of := range sp.V2 {
				snakeTaken = snakeTaken || c20ColName(of.Name, "") == tok
			}
			if cn := c20nCamel(tok); cn != "" && rng.Intn(2) == 0 && !snakeTaken && !used[cn] && !c20nReserved[cn] && c20ColName(cn, "") == tok &&
				(schema.NamingStrategy{}).ColumnName("", cn) == tok {
				f.Name, route = cn, "go-name"
				used[cn] = true
			} else {
				tags = append(tags, "column:"+tok)
			}
			hasDefault := false
			if class != "bytes" && rng.Intn(3) == 0 {
				tags = append(tags, "default:"+g.defaultFor(class, true))
				hasDefault = true
			}
			if hasDefault && rng.Intn(3) == 0 {
				tags = append(tags, "not null")
			}
			if class == "string" && rng.Intn(4) == 0 {
				tags = append(tags, "size:"+g.pick("20", "64"))
			}
			switch rng.Intn(8) {
			case 0:
				tags = append(tags, "index")
			case 1:
				if class != "bool" && !hasDefault {
					tags = append(tags, g.pick("unique", "uniqueIndex"))
				}
			case 2: // … and its index is named after the old text, too
				if in, _ := c20nPick(rng, tk, func(t string) bool {
					lt := strings.ToLower(t)
					return !tk.Master[lt] && !newNames[lt] && !strings.HasPrefix(lt, "sqlite_") && !goNames[t] && !used[t]
				}); in != "" {
					newNames[strings.ToLower(in)] = true
					tags = append(tags, "index:"+in)
					g.f("names:index-name-on-new-column")
				}
			}
			if rng.Intn(4) == 0 && !c20nKeywords[strings.ToLower(tok)] && tok == strings.ToLower(tok) {
				tags = append(tags, g.checkFor(class, tok, rng.Intn(2) == 0, fname))
			}
			f.Tag = strings.Join(tags, ";")
			sp.V2 = append(sp.V2, f)
			g.f("names:column:" + cat)
			g.f("names:column-route:" + route)
			if textLike(tk.SQL, tok) {
				g.f("names:column-text-match:yes")
			} else {
				g.f("names:column-text-match:no")
			}
		case k < 8: // ---- an index on an existing column, NAMED after the old text
			var cand []int
			for i, f := range sp.V1 {
				if !c20IsRel(f.Kind) && f.Kind != "stamp" && f.Kind != "audit" && !c20HasTag(f.Tag, "index") && !c20HasTag(f.Tag, "uniqueindex") && !c20HasTag(sp.V2[i].Tag, "index") && !c20HasTag(sp.V2[i].Tag, "uniqueindex") {
					cand = append(cand, i)
				}
			}
			if len(cand) == 0 {
				continue
			}
			i := cand[rng.Intn(len(cand))]
			in, cat := c20nPick(rng, tk, func(t string) bool {
				lt := strings.ToLower(t)
				return !tk.Master[lt] && !newNames[lt] && !strings.HasPrefix(lt, "sqlite_") && !goNames[t] && !used[t]
			})
			if in == "" {
				continue
			}
			newNames[strings.ToLower(in)] = true
			kindTag := "index:"
			if sp.V1[i].Kind != "bool" && rng.Intn(3) == 0 {
				kindTag = "uniqueIndex:"
			}
			sp.V2[i].Tag = c20AddTag(sp.V2[i].Tag, kindTag+in)
			g.f("names:index:" + cat)
		default: // ---- a check on an existing column, NAMED after the old text
			var cand []int
			for i, f := range sp.V1 {
				col := c20ColName(f.Name, f.Tag)
				if !c20IsRel(f.Kind) && f.Kind != "stamp" && f.Kind != "audit" && !c20HasTag(f.Tag, "check") && !c20HasTag(sp.V2[i].Tag, "check") &&
					!c20HasTag(f.Tag, "primarykey") && f.Name != "ID" && !c20nKeywords[col] {
					cand = append(cand, i)
				}
			}
			if len(cand) == 0 {
				continue
			}
			i := cand[rng.Intn(len(cand))]
			cn, cat := c20nPick(rng, tk, func(t string) bool {
				lt := strings.ToLower(t)
				return !tk.Constrs[lt] && !newNames[lt]
			})
			if cn == "" {
				continue
			}
			newNames[strings.ToLower(cn)] = true
			f := sp.V1[i]
			col := c20ColName(f.Name, f.Tag)
			var e string
			switch c20Class(f.Kind) {
			case "int", "uint", "float":
				e = col + " <> -77"
			case "string":
				e = col + " <> 'forbidden'"
			default:
				e = col + " IS NOT NULL OR " + col + " IS NULL"
			}
			sp.V2[i].Tag = c20AddTag(sp.V2[i].Tag, "check:"+cn+","+e)
			g.f("names:check:" + cat)
		}
	}
	if canon(sp.V1) == canon(sp.V2) {
		return sp, &tk, false
	}
	for k := range g.feat {
		sp.Feat = append(sp.Feat, k)
	}
	sortStrings(sp.Feat)
	return sp, &tk, true
}

// textLike: harness-side rendering of the driver's LIKE patterns (histogram only: how many generated names the fuzzy
// predicate would claim)
func textLike(sql, name string) bool {
	d, n := strings.ToLower(sql), strings.ToLower(name)
	return strings.Contains(d, `"`+n+`" `) || strings.Contains(d, n+" ") || strings.Contains(d, "`"+n+"`") || strings.Contains(d, "["+n+"]") || strings.Contains(d, "\t"+n+"\t")
}

// ---- tie: the driver's real HasColumn vs Lean textHasColumn --------------------------------------------------------

type c20nTextCase struct {
	V1    []c20Field `json:"v1"`
	Names []string   `json:"names"`
}

func c20nTextRun(c c20nTextCase) (sql string, names []string, real []bool, err error) {
	defer func() {
		if p := recover(); p != nil {
			err = fmt.Errorf("panic: %v", p)
		}
	}()
	t1, err := c20Type(c.V1)
	if err != nil {
		return "", nil, nil, err
	}
	db, rec := c20Open("gen_items")
	if sq, e := db.DB(); e == nil {
		defer sq.Close()
	}
	m := reflect.New(t1).Interface()
	if err = db.AutoMigrate(m); err != nil {
		return "", nil, nil, err
	}
	sql = c20TableDDL(db, rec, "gen_items")
	st := &gorm.Statement{DB: db}
	if err = st.Parse(m); err != nil {
		return "", nil, nil, err
	}
	for _, n := range c.Names {
		asked := n
		if f := st.Schema.LookUpField(n); f != nil { // the driver resolves a field / column name of the model first
			asked = f.DBName
		}
		names = append(names, asked)
		real = append(real, db.Migrator().HasColumn(m, n))
	}
	return sql, names, real, nil
}

func c20nTextCompare(r *Result, c c20nTextCase, names []string, real []bool, out json.RawMessage) {
	var model []bool
	_ = json.Unmarshal(out, &model)
	r.CorrCompared += len(real)
	if canon(real) != canon(model) {
		r.Violate(Violation{Kind: "correspondence", Suite: "mig.textmatch", Input: c, Observed: map[string]interface{}{"asked": names, "has": real}, Expected: model,
			Note: "gorm.io/driver/sqlite Migrator.HasColumn on the migrated table vs Lean Gorm.Mig.textHasColumn over its sqlite_master text"})
	}
	for _, b := range real {
		r.H("textmatch.answer", fmt.Sprint(b))
	}
}

// ---- tie: the add decision as a function of the exact list ---------------------------------------------------------

type c20nDecCase struct {
	Fields []c20Field `json:"fields"`
	Listed []string   `json:"listed"`  // the names ColumnTypes reports
	HasCol int        `json:"has_col"` // HasColumn's adversarial answer
}

func c20nVariants(rng *rand.Rand, n string) string {
	switch rng.Intn(9) {
	case 0:
		return strings.ToUpper(n)
	case 1:
		return strings.ToUpper(n[:1]) + n[1:]
	case 2:
		return n + "_2"
	case 3:
		return "x_" + n
	case 4:
		if i := strings.Index(n, "_"); i > 0 {
			return n[i+1:]
		}
		return n + "s"
	case 5:
		if i := strings.LastIndex(n, "_"); i > 0 {
			return n[:i]
		}
		return n[:len(n)-1]
	case 6:
		return n + " "
	case 7:
		return "`" + n + "`"
	}
	return n[1:]
}

func c20nDecRun(c c20nDecCase) (real []string, op []interface{}, err error) {
	defer func() {
		if p := recover(); p != nil {
			err = fmt.Errorf("panic: %v", p)
		}
	}()
	db, st := c20OpenStub("dec_items")
	if sq, e := db.DB(); e == nil {
		defer sq.Close()
	}
	t, err := c20Type(c.Fields)
	if err != nil {
		return nil, nil, err
	}
	val := reflect.New(t).Interface()
	stmt := &gorm.Statement{DB: db}
	if err = stmt.Parse(val); err != nil {
		return nil, nil, err
	}
	sch := stmt.Schema
	rng := rand.New(rand.NewSource(int64(len(c.Listed))))
	for _, n := range c.Listed {
		var f *schema.Field
		if f = sch.FieldsByDBName[n]; f == nil {
			f = sch.FieldsByDBName[sch.DBNames[0]]
		}
		col := c20FaithfulCol(rng, db, f)
		col.Name = n
		st.cols = append(st.cols, col)
	}
	st.hasTable, st.only, st.hasCol = true, "dec_items", c.HasCol
	for _, ix := range sch.ParseIndexes() { // (constraints and indexes are not the subject: all present)
		st.indexes[ix.Name] = true
	}
	for n := range sch.ParseCheckConstraints() {
		st.constraints[n] = true
	}
	if err = db.AutoMigrate(val); err != nil {
		return nil, nil, err
	}
	real = []string{}
	for _, call := range st.calls {
		if call[0] == "addColumn" && call[2] == "migrate" {
			real = append(real, call[1])
		}
	}
	var fs []interface{}
	for _, dbn := range sch.DBNames {
		fs = append(fs, []interface{}{dbn, sch.FieldsByDBName[dbn].IgnoreMigration})
	}
	return real, []interface{}{"mig.adddecision", nz(c.Listed), fs}, nil
}

func c20nDecCompare(r *Result, c c20nDecCase, real []string, out json.RawMessage) {
	var model []string
	_ = json.Unmarshal(out, &model)
	r.CorrCompared++
	if canon(real) != canon(nz(model)) {
		r.Violate(Violation{Kind: "correspondence", Suite: "mig.adddecision", Input: c, Observed: real, Expected: model,
			Note: "columns the real AutoMigrate adds (stub catalogue: near-miss names listed, HasColumn adversarial) vs Lean addedNames (columnDDL …): a function of the exact list"})
	}
	r.H("adddecision.added", fmt.Sprint(len(real)))
}

// ---- tie: the statement-issuing bodies consult no predicate ----------------------------------------------------------

type c20nBodyCase struct {
	Fields []c20Field `json:"fields"`
}

func c20nBodyRun(c c20nBodyCase) (obs map[string]interface{}, ops [][]interface{}, err error) {
	defer func() {
		if p := recover(); p != nil {
			err = fmt.Errorf("panic: %v", p)
		}
	}()
	db0, rec, sqlDB := OpenRec(nil)
	defer sqlDB.Close()
	st := &c20Stub{constraints: map[string]bool{}, indexes: map[string]bool{}}
	db, err := gorm.Open(c20Dialector{Dialector: sqlite.Dialector{Conn: sqlDB}, st: st}, &gorm.Config{
		Logger:         db0.Logger,
		NamingStrategy: c20Namer{NamingStrategy: schema.NamingStrategy{IdentifierMaxLength: 64}, anon: "body_items"}})
	if err != nil {
		return nil, nil, err
	}
	t, err := c20Type(c.Fields)
	if err != nil {
		return nil, nil, err
	}
	val := reflect.New(t).Interface()
	stmt := &gorm.Statement{DB: db}
	if err = stmt.Parse(val); err != nil {
		return nil, nil, err
	}
	sch := stmt.Schema
	base := db.Migrator().(c20Migrator).Migrator
	run := func(adv int) (map[string][]string, []string) {
		st.adv, st.asked = adv, nil
		out := map[string][]string{}
		grab := func(key string, f func()) {
			rec.Reset()
			f()
			stmts := []string{}
			for _, e := range rec.Snapshot() {
				if (e.Kind == "exec" || e.Kind == "stmt_exec" || e.Kind == "prepare") && c20DDL.MatchString(e.SQL) {
					if len(stmts) == 0 || stmts[len(stmts)-1] != e.SQL {
						stmts = append(stmts, e.SQL)
					}
				}
			}
			out[key] = stmts
		}
		for _, dbn := range sch.DBNames {
			dbn := dbn
			grab("AddColumn("+dbn+")", func() { _ = base.AddColumn(val, dbn) })
		}
		for _, ix := range sch.ParseIndexes() {
			name := ix.Name
			grab("CreateIndex("+name+")", func() { _ = base.CreateIndex(val, name) })
		}
		var cn []string
		for n := range sch.ParseCheckConstraints() {
			cn = append(cn, n)
		}
		for n := range sch.ParseUniqueConstraints() {
			cn = append(cn, n)
		}
		sort.Strings(cn)
		for _, n := range cn {
			n := n
			grab("CreateConstraint("+n+")", func() { _ = base.CreateConstraint(val, n) })
		}
		asked := append([]string{}, st.asked...)
		st.adv = 0
		return out, asked
	}
	yes, askedYes := run(+1)
	no, askedNo := run(-1)
	obs = map[string]interface{}{"all-true": yes, "all-false": no, "asked": append(askedYes, askedNo...)}
	for _, dbn := range sch.DBNames {
		f := sch.FieldsByDBName[dbn]
		if f.IgnoreMigration {
			continue
		}
		ops = append(ops, []interface{}{"mig.addcolumn", "body_items", c20FieldJ(db, f), dbn})
	}
	return obs, ops, nil
}

func c20nBodyCompare(r *Result, c c20nBodyCase, obs map[string]interface{}, ops [][]interface{}, outs []json.RawMessage) {
	r.CorrCompared++
	want := map[string][]string{}
	yes := obs["all-true"].(map[string][]string)
	for k, v := range obs["all-false"].(map[string][]string) {
		want[k] = v
	}
	for i, op := range ops {
		var model string
		_ = json.Unmarshal(outs[i], &model)
		want["AddColumn("+op[3].(string)+")"] = []string{model}
	}
	exp := map[string]interface{}{"all-true": want, "all-false": want, "asked": []string{}}
	if canon(obs) != canon(exp) {
		r.Violate(Violation{Kind: "correspondence", Suite: "mig.bodies", Input: c, Observed: obs, Expected: exp,
			Note: "statements of the real migrator.Migrator AddColumn / CreateIndex / CreateConstraint under all-true and all-false Has* predicates: identical, no predicate consulted, AddColumn = Lean addColumnSQL"})
	}
	r.H("bodies.statements", fmt.Sprint(len(yes)))
}

func c20nBodyFields(rng *rand.Rand) []c20Field {
	g := &c20Gen{rng: rng, feat: map[string]bool{}}
	fs := []c20Field{{Name: "ID", Kind: "uint"}}
	used := map[string]bool{}
	for k := 0; k < 1+rng.Intn(3); k++ {
		p := c20nPool[rng.Intn(len(c20nPool))]
		if used[p.Name] {
			continue
		}
		used[p.Name] = true
		fs = append(fs, c20nV1Field(g, p.Name, p.Kind))
	}
	return fs
}

func c20NamesSuite(r *Result, rng *rand.Rand, tier string) {
	n := 400
	if tier == "thorough" {
		n = 3000
	} else if tier == "search" {
		n = 1200
	}
	// ---- e2e histories + text-match tie (one materialised v1 serves both)
	if c20Only("names") {
		type pend struct {
			c     c20nTextCase
			names []string
			real  []bool
		}
		var pt []pend
		var ops [][]interface{}
		for i := 0; i < n && !expired(); i++ {
			sp, tk, ok := c20nGenSpec(rng)
			if tk != nil && i%4 == 0 { // the fuzzy predicate itself, on the names the generator derives
				var names []string
				for j := 0; j < 8; j++ {
					if t, _ := c20nPick(rng, *tk, func(string) bool { return true }); t != "" {
						names = append(names, t)
					}
				}
				c := c20nTextCase{V1: sp.V1, Names: c20nUniq(names)}
				if sql, asked, real, err := c20nTextRun(c); err == nil {
					pt = append(pt, pend{c, asked, real})
					ops = append(ops, []interface{}{"mig.textmatch", sql, asked})
				}
				r.Case("mig.textmatch", canon(c), true)
			}
			if !ok {
				r.H("names.skip", "nothing-derived")
				continue
			}
			o := c20Judge(r, sp)
			r.Case("names", canon(sp), o.Stage == "ok")
			for _, f := range sp.Feat {
				r.H("names.feature", f)
			}
			r.H("names.stage", o.Stage)
			if i < 2 {
				r.Sample(sp)
			}
		}
		if len(ops) > 0 {
			outs, err := AskLean(ops)
			if err != nil {
				r.Violate(Violation{Kind: "correspondence", Suite: "mig.textmatch", Note: err.Error()})
			} else {
				for i, p := range pt {
					c20nTextCompare(r, p.c, p.names, p.real, outs[i])
				}
			}
		}
	}
	// ---- add decision
	if c20Only("adddecision") {
		type pend struct {
			c    c20nDecCase
			real []string
		}
		var pd []pend
		var ops [][]interface{}
		for i := 0; i < 2*n && !expired(); i++ {
			c := c20nDecCase{Fields: c20nBodyFields(rng), HasCol: i%3 - 1}
			for _, f := range c.Fields {
				col := c20ColName(f.Name, f.Tag)
				switch rng.Intn(4) {
				case 0: // listed exactly
					c.Listed = append(c.Listed, col)
				case 1: // missing, but a near miss is listed
					c.Listed = append(c.Listed, c20nVariants(rng, col))
				case 2: // listed, and a near miss too
					c.Listed = append(c.Listed, c20nVariants(rng, col), col)
				}
			}
			if real, op, err := c20nDecRun(c); err != nil {
				r.H("adddecision.skip", strings.SplitN(err.Error(), ":", 2)[0])
			} else {
				pd = append(pd, pend{c, real})
				ops = append(ops, op)
			}
			r.Case("mig.adddecision", canon(c), true)
			r.H("adddecision.hascolumn-answer", []string{"false", "base", "true"}[c.HasCol+1])
		}
		if len(ops) > 0 {
			outs, err := AskLean(ops)
			if err != nil {
				r.Violate(Violation{Kind: "correspondence", Suite: "mig.adddecision", Note: err.Error()})
			} else {
				for i, p := range pd {
					c20nDecCompare(r, p.c, p.real, outs[i])
				}
			}
		}
	}
	// ---- bodies
	if c20Only("bodies") {
		type pend struct {
			c   c20nBodyCase
			obs map[string]interface{}
			ops [][]interface{}
			at  int
		}
		var pb []pend
		var ops [][]interface{}
		for i := 0; i < n && !expired(); i++ {
			c := c20nBodyCase{Fields: c20nBodyFields(rng)}
			if obs, o, err := c20nBodyRun(c); err != nil {
				r.H("bodies.skip", strings.SplitN(err.Error(), ":", 2)[0])
			} else {
				pb = append(pb, pend{c, obs, o, len(ops)})
				ops = append(ops, o...)
			}
			r.Case("mig.bodies", canon(c), true)
		}
		if len(ops) > 0 {
			outs, err := AskLean(ops)
			if err != nil {
				r.Violate(Violation{Kind: "correspondence", Suite: "mig.bodies", Note: err.Error()})
			} else {
				for _, p := range pb {
					c20nBodyCompare(r, p.c, p.obs, p.ops, outs[p.at:p.at+len(p.ops)])
				}
			}
		}
	}
}

func init() {
	register("C20", c20NamesSuite)
	replayers["C20/mig.textmatch"] = func(r *Result, input json.RawMessage) {
		var c c20nTextCase
		if err := json.Unmarshal(input, &c); err != nil {
			r.Note("bad replay input: %v", err)
			return
		}
		sql, asked, real, err := c20nTextRun(c)
		if err != nil {
			r.Note("replay: %v", err)
			return
		}
		if outs, err := AskLean([][]interface{}{{"mig.textmatch", sql, asked}}); err == nil {
			c20nTextCompare(r, c, asked, real, outs[0])
		}
	}
	replayers["C20/mig.adddecision"] = func(r *Result, input json.RawMessage) {
		var c c20nDecCase
		if err := json.Unmarshal(input, &c); err != nil {
			r.Note("bad replay input: %v", err)
			return
		}
		real, op, err := c20nDecRun(c)
		if err != nil {
			r.Note("replay: %v", err)
			return
		}
		if outs, err := AskLean([][]interface{}{op}); err == nil {
			c20nDecCompare(r, c, real, outs[0])
		}
	}
	replayers["C20/mig.bodies"] = func(r *Result, input json.RawMessage) {
		var c c20nBodyCase
		if err := json.Unmarshal(input, &c); err != nil {
			r.Note("bad replay input: %v", err)
			return
		}
		obs, ops, err := c20nBodyRun(c)
		if err != nil {
			r.Note("replay: %v", err)
			return
		}
		if outs, err := AskLean(ops); err == nil {
			c20nBodyCompare(r, c, obs, ops, outs)
		}
	}
}
