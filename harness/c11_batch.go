package main

import (
	"encoding/json"
	"fmt"
	"math/rand"
	"reflect"
	"sort"

	"gorm.io/gorm"
	"gorm.io/gorm/clause"
	"gorm.io/gorm/schema"
)

// ---- C11 ties for Model/PreloadBatch.lean ---------------------------------------------------------------------------
//
// (batch-stmt)   the handle semantics behind Lean `batchedFetch`: on the real code, `for each batch { h.Where(clause.IN{column,
//                batch}).Find(&part) }` is run on handles of both kinds — session handles (clone = 2), the plain *gorm.DB
//                (clone = 1), the handle preloadEntryPoint builds (`db.Table("").Session(…)`) on the cloning side; the results of
//                chain calls (`.Where`, `.Preload`, `.Order`, `.Model`, a function condition) on the non-cloning side — over
//                generated child tables (single-column uint and composite (uint, string) foreign keys, NULL components) and
//                generated partitions of the key list (also overlapping and empty batches); the fetched row numbers are compared
//                with Lean `batchedFetch cloning`.
// (preload-site) the real Preload of a has-many relation on generated parents / children, plain, with a function condition,
//                nested and both — i.e. with `tx` still cloning or re-assigned from a chain call — vs Lean
//                `siteFetch currentFindSites[1]` (the related-table query site as regenerated from the source) with generated
//                chunk sizes: the set of children that reach any parent.

type c11BatchCase struct {
	Fam      string            `json:"fam"`      // U: c11u_items.owner_id ; C: c11c_lines.(o_region, o_code)
	Children [][]interface{}   `json:"children"` // [n, fk components…] (nil = NULL)
	Batches  [][][]interface{} `json:"batches"`
	Handle   string            `json:"handle"`
}

type c11SiteCase struct {
	Fam      string          `json:"fam"`
	Parents  [][]interface{} `json:"parents"`  // key components
	Children [][]interface{} `json:"children"` // [n, fk components…]
	Variant  string          `json:"variant"`  // plain | func | nested | nested+func
	Chunk    int             `json:"chunk"`
}

func c11BatchKV(v interface{}) interface{} {
	switch x := c11Norm(v).(type) {
	case nil:
		return nil
	case int64:
		return map[string]interface{}{"u": x}
	case string:
		return map[string]interface{}{"s": x}
	}
	panic("c11 batch kv")
}

func c11BatchTuple(t []interface{}) []interface{} {
	out := []interface{}{}
	for _, v := range t {
		out = append(out, c11BatchKV(v))
	}
	return out
}

func c11BatchChildrenJ(cs [][]interface{}) []interface{} {
	out := []interface{}{}
	for _, c := range cs {
		out = append(out, []interface{}{c11Norm(c[0]), c11BatchTuple(c[1:])})
	}
	return out
}

// which handles clone their statement on a chain call
var c11BatchHandles = map[string]bool{"session": true, "db": true, "table-session": true, "newdb-session": true, "idfunc": true,
	"where": false, "preload": false, "order": false, "model": false, "func-where": false}

func c11BatchHandle(db *gorm.DB, fam, kind string) *gorm.DB {
	s := db.Session(&gorm.Session{})
	rel := map[string]string{"U": "Owner", "C": "Order"}[fam]
	var model interface{} = &C11UItem{}
	if fam == "C" {
		model = &C11CLine{}
	}
	switch kind {
	case "db":
		return db
	case "table-session":
		return db.Table("").Session(&gorm.Session{})
	case "newdb-session":
		return db.Session(&gorm.Session{NewDB: true})
	case "idfunc":
		return func(tx *gorm.DB) *gorm.DB { return tx }(s)
	case "where":
		return s.Where("1 = 1")
	case "preload":
		return s.Preload(rel)
	case "order":
		return s.Order("n")
	case "model":
		return s.Model(model)
	case "func-where":
		return func(tx *gorm.DB) *gorm.DB { return tx.Where("n > ?", -1) }(s)
	}
	return s
}

type c11BatchEnv struct {
	db    *gorm.DB
	exec  func(q string)
	load  func(t *c11Table, rows []c11Row)
	close func()
}

func c11BatchOpen(fam string) *c11BatchEnv {
	f := c11Families[fam]
	db, rec, sqlDB := OpenRec(&gorm.Config{DisableForeignKeyConstraintWhenMigrating: true})
	var models []interface{}
	for _, t := range f.Tables {
		if t.Model != nil {
			models = append(models, t.Model)
		}
	}
	if err := db.AutoMigrate(models...); err != nil {
		panic(err)
	}
	return &c11BatchEnv{db: db, close: func() { sqlDB.Close() },
		exec: func(q string) {
			if _, err := sqlDB.Exec(q); err != nil {
				panic(err)
			}
			rec.Reset()
		},
		load: func(t *c11Table, rows []c11Row) { c11InsertRows(sqlDB, t, rows); rec.Reset() }}
}

func c11BatchChildTable(fam string) (*c11Table, []string) {
	if fam == "C" {
		return c11Families["C"].table("c11c_lines"), []string{"o_region", "o_code"}
	}
	return c11Families["U"].table("c11u_items"), []string{"owner_id"}
}

func c11BatchRows(fam string, children [][]interface{}) []c11Row {
	_, cols := c11BatchChildTable(fam)
	var rows []c11Row
	for _, c := range children {
		r := c11Row{"n": c[0], "deleted_at": false}
		for i, col := range cols {
			r[col] = c[1+i]
		}
		rows = append(rows, r)
	}
	return rows
}

func c11BatchGenTuple(rng *rand.Rand, fam string, nullable bool) []interface{} {
	if fam == "C" {
		var a, b interface{} = rng.Intn(3), []string{"", "a", "A", "b"}[rng.Intn(4)]
		if nullable && rng.Intn(6) == 0 {
			a = nil
		}
		if nullable && rng.Intn(6) == 0 {
			b = nil
		}
		return []interface{}{a, b}
	}
	if nullable && rng.Intn(5) == 0 {
		return []interface{}{nil}
	}
	return []interface{}{1 + rng.Intn(6)}
}

func c11BatchRun(env *c11BatchEnv, cs c11BatchCase) (ids []int, err error) {
	defer func() {
		if p := recover(); p != nil {
			err = fmt.Errorf("panic: %v", p)
		}
	}()
	t, cols := c11BatchChildTable(cs.Fam)
	env.exec("DELETE FROM `" + t.Name + "`")
	env.load(t, c11BatchRows(cs.Fam, cs.Children))
	h := c11BatchHandle(env.db, cs.Fam, cs.Handle)
	for _, b := range cs.Batches {
		vals := make([][]interface{}, 0, len(b))
		for _, tup := range b {
			row := make([]interface{}, len(tup))
			for i, v := range tup {
				row[i] = c11Norm(v)
			}
			vals = append(vals, row)
		}
		column, values := schema.ToQueryValues(clause.CurrentTable, cols, vals)
		part := reflect.New(reflect.SliceOf(t.typ()))
		if e := h.Where(clause.IN{Column: column, Values: values}).Find(part.Interface()).Error; e != nil {
			return nil, e
		}
		for i := 0; i < part.Elem().Len(); i++ {
			ids = append(ids, int(part.Elem().Index(i).FieldByName("N").Int()))
		}
	}
	sort.Ints(ids)
	return ids, nil
}

// parents of the preload-site tie: U owners keyed by id, C orders keyed by (region, code)
func c11SiteRun(env *c11BatchEnv, cs c11SiteCase) (ids []int, err error) {
	defer func() {
		if p := recover(); p != nil {
			err = fmt.Errorf("panic: %v", p)
		}
	}()
	f := c11Families[cs.Fam]
	ct, _ := c11BatchChildTable(cs.Fam)
	pt := f.parentTables()[0]
	env.exec("DELETE FROM `" + ct.Name + "`")
	env.exec("DELETE FROM `" + pt.Name + "`")
	var prow []c11Row
	for i, p := range cs.Parents {
		r := c11Row{"n": i + 1, "deleted_at": false}
		if cs.Fam == "C" {
			r["region"], r["code"] = p[0], p[1]
			r["cust_tenant"], r["cust_id"], r["cust_zone"] = 0, 0, ""
		} else {
			r["id"] = p[0]
		}
		prow = append(prow, r)
	}
	env.load(pt, prow)
	env.load(ct, c11BatchRows(cs.Fam, cs.Children))
	rel, back := "Items", "Owner"
	if cs.Fam == "C" {
		rel, back = "Lines", "Order"
	}
	q := env.db.Session(&gorm.Session{})
	fn := func(tx *gorm.DB) *gorm.DB { return tx.Where("n > ?", -1) }
	switch cs.Variant {
	case "plain":
		q = q.Preload(rel)
	case "func":
		q = q.Preload(rel, fn)
	case "nested":
		q = q.Preload(rel + "." + back)
	default:
		q = q.Preload(rel, fn).Preload(rel + "." + back)
	}
	sl := reflect.New(reflect.SliceOf(pt.typ()))
	if e := q.Order("n").Find(sl.Interface()).Error; e != nil {
		return nil, e
	}
	seen := map[int]bool{}
	for i := 0; i < sl.Elem().Len(); i++ {
		kids := sl.Elem().Index(i).FieldByName(rel)
		for k := 0; k < kids.Len(); k++ {
			n := int(kids.Index(k).FieldByName("N").Int())
			if !seen[n] {
				seen[n] = true
				ids = append(ids, n)
			}
		}
	}
	sort.Ints(ids)
	return ids, nil
}

func c11ParseInts(raw []byte) []int {
	var xs []int
	_ = json.Unmarshal(raw, &xs)
	sort.Ints(xs)
	if xs == nil {
		xs = []int{}
	}
	return xs
}

func c11BatchSuite(r *Result, rng *rand.Rand, tier string) {
	n := 260
	if tier == "thorough" {
		n = 4000
	}
	envs := map[string]*c11BatchEnv{"U": c11BatchOpen("U"), "C": c11BatchOpen("C")}
	defer envs["U"].close()
	defer envs["C"].close()
	handles := make([]string, 0, len(c11BatchHandles))
	for h := range c11BatchHandles {
		handles = append(handles, h)
	}
	sort.Strings(handles)

	type pend struct {
		bc   *c11BatchCase
		sc   *c11SiteCase
		real []int
		err  error
	}
	var ps []pend
	var ops [][]interface{}
	for i := 0; i < n && !expired(); i++ {
		fam := []string{"U", "C"}[rng.Intn(2)]
		// distinct non-NULL key tuples
		var keys [][]interface{}
		seen := map[string]bool{}
		for k, m := 0, 1+rng.Intn(6); k < m; k++ {
			t := c11BatchGenTuple(rng, fam, false)
			if fam == "C" && t[0] == 0 && t[1] == "" {
				continue // an entirely zero key is "no key" for gorm
			}
			if s := fmt.Sprint(t...); !seen[s] {
				seen[s] = true
				keys = append(keys, t)
			}
		}
		if len(keys) == 0 {
			keys = append(keys, c11BatchGenTuple(rng, "U", false))
			fam = "U"
		}
		var children [][]interface{}
		for k, m := 0, rng.Intn(9); k < m; k++ {
			t := c11BatchGenTuple(rng, fam, true)
			if rng.Intn(3) > 0 {
				t = keys[rng.Intn(len(keys))]
			}
			children = append(children, append([]interface{}{k + 1}, t...))
		}
		if i%3 != 2 {
			// a partition of the key list into 1..4 batches; sometimes a key in two batches, sometimes an empty batch
			nb := 1 + rng.Intn(4)
			batches := make([][][]interface{}, nb)
			for _, k := range keys {
				b := rng.Intn(nb)
				batches[b] = append(batches[b], k)
				if rng.Intn(8) == 0 {
					batches[rng.Intn(nb)] = append(batches[rng.Intn(nb)], k)
				}
			}
			// an empty batch renders `IN (NULL)`: fine for one column (selects nothing, as in the model); for a row value
			// SQLite rejects the text, so composite cases carry no empty batch
			var kept [][][]interface{}
			for b := range batches {
				if batches[b] == nil {
					if fam == "C" {
						continue
					}
					batches[b] = [][]interface{}{}
				}
				kept = append(kept, batches[b])
			}
			batches = kept
			bc := &c11BatchCase{Fam: fam, Children: children, Batches: batches, Handle: handles[rng.Intn(len(handles))]}
			real, err := c11BatchRun(envs[fam], *bc)
			bj := []interface{}{}
			for _, b := range batches {
				tj := []interface{}{}
				for _, t := range b {
					tj = append(tj, c11BatchTuple(t))
				}
				bj = append(bj, tj)
			}
			ops = append(ops, []interface{}{"batch.fetch", c11BatchHandles[bc.Handle], c11BatchChildrenJ(children), bj})
			ps = append(ps, pend{bc: bc, real: real, err: err})
			continue
		}
		sc := &c11SiteCase{Fam: fam, Parents: keys, Children: children, Variant: []string{"plain", "func", "nested", "nested+func"}[rng.Intn(4)], Chunk: rng.Intn(3)}
		real, err := c11SiteRun(envs[fam], *sc)
		vj := []interface{}{}
		for _, k := range keys {
			vj = append(vj, c11BatchTuple(k))
		}
		ops = append(ops, []interface{}{"site.fetch", 1, sc.Variant == "plain", sc.Chunk, c11BatchChildrenJ(children), vj})
		ps = append(ps, pend{sc: sc, real: real, err: err})
	}
	outs, err := AskLean(ops)
	if err != nil {
		r.Violate(Violation{Kind: "correspondence", Suite: "batch-stmt", Note: err.Error()})
		return
	}
	for i, p := range ps {
		model := c11ParseInts(outs[i])
		real := p.real
		if real == nil {
			real = []int{}
		}
		r.CorrCompared++
		if p.bc != nil {
			r.Case("batch-stmt", canon(p.bc), len(p.bc.Batches) >= 2 && len(p.bc.Children) >= 1)
			r.H("batch.handle", fmt.Sprintf("%s cloning=%v", p.bc.Handle, c11BatchHandles[p.bc.Handle]))
			r.H("batch.shape", fmt.Sprintf("fam=%s batches=%d fetched=%s", p.bc.Fam, len(p.bc.Batches), c11Bucket(len(real))))
			if p.err != nil || fmt.Sprint(real) != fmt.Sprint(model) {
				r.Violate(Violation{Kind: "correspondence", Suite: "batch-stmt", Input: p.bc, Observed: fmt.Sprint(real, " ", p.err), Expected: fmt.Sprint(model),
					Note: "real `for each batch { h.Where(clause.IN{…}).Find(&part) }` on a cloning / non-cloning handle vs Lean Gorm.batchedFetch"})
			}
			continue
		}
		r.Case("preload-site", canon(p.sc), len(p.sc.Parents) >= 2 && len(p.sc.Children) >= 1)
		r.H("batch.site", fmt.Sprintf("fam=%s %s parents=%d fetched=%s", p.sc.Fam, p.sc.Variant, len(p.sc.Parents), c11Bucket(len(real))))
		if p.err != nil || fmt.Sprint(real) != fmt.Sprint(model) {
			r.Violate(Violation{Kind: "correspondence", Suite: "preload-site", Input: p.sc, Observed: fmt.Sprint(real, " ", p.err), Expected: fmt.Sprint(model),
				Note: "children that reach any parent through the real Preload (plain / function condition / nested: tx cloning or re-assigned) vs Lean Gorm.siteFetch of the regenerated related-table query site"})
		}
	}
}

func init() {
	register("C11", c11BatchSuite)
}
