package main

// C05 (round 4), the ENCLOSING CONTEXT of a single write.
//
// Every write of the other C05 suites (relation family, C05S family, hook family) plus the batch / upsert / FirstOrCreate
// family below is issued
//
//	top        on the plain handle                               (its own implicit transaction / Transaction wrapper)
//	conn       on the handle of db.Connection (pinned *sql.Conn: a pool that can begin)
//	block      inside db.Transaction(func(tx) …)                 ┐
//	begin      after tx := db.Begin()                            │ the handle is already on a transaction the CALLER
//	nested     inside a Transaction block inside a block         │ opened: callbacks/transaction.go gets
//	hook       inside the AfterCreate hook of another record,    │ ErrInvalidTransaction (no implicit transaction),
//	           through the hook's tx                             │ finisher_api.go Transaction takes the SAVEPOINT
//	connbegin  db.Connection + Begin                             │ branch
//	sessbegin  Session{PrepareStmt}.Begin (PreparedStmtTX pool)  ┘
//
// under the configurations plain / PrepareStmt / SkipDefaultTransaction / DisableNestedTransaction, with the stock
// SQLite dialector and with one whose SavePoint / RollbackTo report their error ("+sp").  The caller does other work in
// the enclosing context before and after the write (marks "pre" / "post" in c05_encl_marks), HANDLES the write's error
// and commits.  One fault per run inside the write: the k-th driver call (or stage of it) after "pre" fails (inject /
// inject-post), a RAISE(ABORT) trigger refuses the n-th row of a table, a CHECK/NOT NULL poison value, the j-th hook
// invocation returns an error.
//
// Oracle ("this single write applied completely or not at all; everything else the enclosing transaction did is kept"):
//   - the failure is mentioned in the write's error (same rules as the `fault` suite);
//   - after the caller's commit: write error => tables = the state of a run WITHOUT the write (marks included),
//     no error => tables = the state of a fault-free run; the marks are there in every case;
//   - if the caller's commit itself reports an error the whole enclosing transaction must be gone;
//   - nothing left open.
//
// All-or-nothing is DEMANDED where the code has a wrapper to give: top / conn contexts (implicit transaction or
// Transaction wrapper), and, inside a caller's transaction, CreateInBatches / Create-with-batch-size of more than one
// batch (nested Transaction = SAVEPOINT).  Latitudes, each checked on the unchanged code:
//   - SkipDefaultTransaction, DisableNestedTransaction: not "default settings" – only error reporting, marks kept,
//     complete application on success, nothing open;
//   - finding F33-C05-no-savepoint-for-write-inside-transaction: a write that is ONE pipeline run (Create, Save, Update,
//     Delete with their association statements and hooks, a CreateInBatches whose slice fits one batch) issued inside a
//     caller's transaction takes no SAVEPOINT; what its earlier statements wrote stays in the caller's transaction.
//     Whether a write is "more than one batch" is decided from the INPUT (length and batch size noted by the operation),
//     never from what the code under test did.

import (
	"context"
	"database/sql/driver"
	"encoding/json"
	"fmt"
	"io"
	"math/rand"
	"reflect"
	"strings"
	"sync/atomic"
	"time"

	"gorm.io/gorm"
	"gorm.io/gorm/clause"
)

type C05EnclMark struct {
	ID   uint `gorm:"primaryKey"`
	Note string
}

type C05EnclOuter struct {
	ID   uint `gorm:"primaryKey"`
	Note string
}

var c05EnclHookFn func(tx *gorm.DB) error

func (o *C05EnclOuter) AfterCreate(tx *gorm.DB) error {
	if f := c05EnclHookFn; f != nil {
		return f(tx)
	}
	return nil
}

// C05EnclRow: a flat record (one statement per batch); V = 666 is refused by the table
type C05EnclRow struct {
	ID  uint `gorm:"primaryKey"`
	V   int  `gorm:"check:v <> 666"`
	Tag string
}

var c05EnclModels = []interface{}{&C05EnclMark{}, &C05EnclOuter{}, &C05EnclRow{}}
var c05EnclTables = []string{"c05_encl_marks", "c05_encl_outers", "c05_encl_rows"}

// c05LastBatches: (length, batch size) of the last batched create an operation issued (0,0: none)
var c05LastBatches [2]int

func c05NoteBatches(n, size int) { c05LastBatches = [2]int{n, size} }

var c05EnclCtxs = []string{"top", "conn", "block", "begin", "nested", "hook", "connbegin", "sessbegin"}

func c05EnclInTx(ctx string) bool { return ctx != "top" && ctx != "conn" }

var c05EnclCfgs = []string{"plain", "plain+sp", "prepare", "prepare+sp", "nonested", "nonested+sp", "skipdefault"}

// ---- the batch / upsert / FirstOrCreate family ------------------------------------------------------------------------

func c05EnclRows(rng *rand.Rand, n int, tag string) []C05EnclRow {
	out := make([]C05EnclRow, n)
	for i := range out {
		out[i] = C05EnclRow{V: 1 + rng.Intn(500), Tag: fmt.Sprint(tag, i)}
	}
	return out
}

func c05EnclOps() []c05Op {
	cib := func(name string, shape func(rng *rand.Rand) (n, size int), viaCreate, ptr bool) c05Op {
		return c05Op{name, func(db *gorm.DB, rng *rand.Rand) func(*gorm.DB) error {
			n, size := shape(rng)
			rows := c05EnclRows(rng, n, name)
			return func(db *gorm.DB) error {
				c05NoteBatches(n, size)
				if ptr {
					ps := make([]*C05EnclRow, n)
					for i := range rows {
						c := rows[i]
						ps[i] = &c
					}
					if viaCreate {
						return db.Session(&gorm.Session{CreateBatchSize: size}).Create(&ps).Error
					}
					return db.CreateInBatches(ps, size).Error
				}
				cp := append([]C05EnclRow(nil), rows...)
				if viaCreate {
					return db.Session(&gorm.Session{CreateBatchSize: size}).Create(&cp).Error
				}
				return db.CreateInBatches(&cp, size).Error
			}
		}}
	}
	return []c05Op{
		cib("EBatch1Exact", func(rng *rand.Rand) (int, int) { s := 2 + rng.Intn(3); return s, s }, false, false),
		cib("EBatch2Exact", func(rng *rand.Rand) (int, int) { s := 1 + rng.Intn(3); return 2 * s, s }, false, false),
		cib("EBatch2", func(rng *rand.Rand) (int, int) { s := 2 + rng.Intn(3); return s + 1 + rng.Intn(s-1), s }, false, true),
		cib("EBatch3", func(rng *rand.Rand) (int, int) { s := 1 + rng.Intn(3); return 2*s + 1 + rng.Intn(s), s }, false, true),
		cib("EBatchMany", func(rng *rand.Rand) (int, int) { return 120 + rng.Intn(60), 50 }, false, false),
		cib("ECreateBatchSize", func(rng *rand.Rand) (int, int) { s := 1 + rng.Intn(3); return s + 1 + rng.Intn(2*s), s }, true, false),
		cib("ECreateBatchSizeFits", func(rng *rand.Rand) (int, int) { s := 3 + rng.Intn(3); return s - rng.Intn(2), s }, true, true),
		{"EBatchGraphs", func(db *gorm.DB, rng *rand.Rand) func(*gorm.DB) error {
			// batches whose records carry associations: several statements per batch
			size := 1 + rng.Intn(2)
			n := size + 1 + rng.Intn(2)
			var us []*RUser
			for i := 0; i < n; i++ {
				us = append(us, genUser(rng, fmt.Sprint("eg", i)))
			}
			return func(db *gorm.DB) error {
				cp := make([]RUser, len(us))
				for i := range us {
					cp[i] = *c05CloneUser(us[i])
				}
				c05NoteBatches(n, size)
				return db.CreateInBatches(&cp, size).Error
			}
		}},
		{"EBatchArray", func(db *gorm.DB, rng *rand.Rand) func(*gorm.DB) error {
			// an ARRAY value (reflect.Array takes the same path as a slice)
			size := 1 + rng.Intn(3)
			rows := c05EnclRows(rng, 5, "ea")
			return func(db *gorm.DB) error {
				var arr [5]C05EnclRow
				copy(arr[:], rows)
				c05NoteBatches(5, size)
				return db.CreateInBatches(&arr, size).Error
			}
		}},
		{"EUpsertBatches", func(db *gorm.DB, rng *rand.Rand) func(*gorm.DB) error {
			// ON CONFLICT DO UPDATE over several batches; one element exists already
			size := 1 + rng.Intn(2)
			n := size + 1 + rng.Intn(2)
			rows := c05EnclRows(rng, n, "eu")
			pos := rng.Intn(n)
			return func(db *gorm.DB) error {
				cp := append([]C05EnclRow(nil), rows...)
				cp[pos].ID = 1
				c05NoteBatches(n, size)
				return db.Clauses(clause.OnConflict{Columns: []clause.Column{{Name: "id"}}, DoUpdates: clause.AssignmentColumns([]string{"v", "tag"})}).CreateInBatches(&cp, size).Error
			}
		}},
		{"EFirstOrCreateNew", func(db *gorm.DB, rng *rand.Rand) func(*gorm.DB) error {
			v := 1 + rng.Intn(500)
			return func(db *gorm.DB) error {
				var row C05EnclRow
				return db.Where(C05EnclRow{Tag: "foc-new"}).Attrs(C05EnclRow{V: v}).FirstOrCreate(&row).Error
			}
		}},
		{"EFirstOrCreateAssign", func(db *gorm.DB, rng *rand.Rand) func(*gorm.DB) error {
			v := 1 + rng.Intn(500)
			return func(db *gorm.DB) error {
				var row C05EnclRow
				return db.Where(C05EnclRow{Tag: "seed0"}).Assign(C05EnclRow{V: v}).FirstOrCreate(&row).Error
			}
		}},
		{"ESaveSlice", func(db *gorm.DB, rng *rand.Rand) func(*gorm.DB) error {
			rows := c05EnclRows(rng, 2, "es")
			return func(db *gorm.DB) error {
				cp := []C05EnclRow{{ID: 1, V: rows[0].V, Tag: "seed0x"}, rows[1]}
				return db.Save(&cp).Error
			}
		}},
		{"EUpdatesWhere", func(db *gorm.DB, rng *rand.Rand) func(*gorm.DB) error {
			v := 1 + rng.Intn(500)
			return func(db *gorm.DB) error {
				return db.Model(&C05EnclRow{}).Where("id > ?", 0).Updates(map[string]interface{}{"v": v}).Error
			}
		}},
		{"EDeleteWhere", func(db *gorm.DB, rng *rand.Rand) func(*gorm.DB) error {
			return func(db *gorm.DB) error { return db.Where("id > ?", 1).Delete(&C05EnclRow{}).Error }
		}},
	}
}


type c05EnclOpRef struct {
	op  c05Op
	fam string // "" relation family, "s", "h" hook family, "e" = relation family world (rows live in c05_encl_rows)
}

func c05EnclAllOps() []c05EnclOpRef {
	var out []c05EnclOpRef
	for _, o := range c05EnclOps() {
		out = append(out, c05EnclOpRef{o, "e"})
	}
	for _, o := range c05Ops() {
		out = append(out, c05EnclOpRef{o, ""})
	}
	for _, o := range c05SOps() {
		out = append(out, c05EnclOpRef{o, "s"})
	}
	for _, o := range c05HookOps() {
		out = append(out, c05EnclOpRef{o, "h"})
	}
	return out
}

func c05EnclOpByName(n string) (c05EnclOpRef, bool) {
	for _, o := range c05EnclAllOps() {
		if o.op.Name == n {
			return o, true
		}
	}
	return c05EnclOpRef{}, false
}

func c05EnclIsBatchOp(name string) bool {
	return strings.HasPrefix(name, "EBatch") || strings.HasPrefix(name, "ECreateBatch") || name == "EUpsertBatches" ||
		strings.HasSuffix(name, "CreateInBatches")
}

// ---- world ----------------------------------------------------------------------------------------------------------

func c05EnclBuild(ref c05EnclOpRef, seed int64, cfg string) *c05World {
	fam := ref.fam
	if fam == "e" {
		fam = ""
	}
	// the rows of the flat family are seeded by the Setup wrapper below, before the world's snapshot is taken
	op := c05Op{ref.op.Name, func(db *gorm.DB, rng *rand.Rand) func(*gorm.DB) error {
		seedRows := []C05EnclRow{{V: 11, Tag: "seed0"}, {V: 12, Tag: "seed1"}, {V: 13, Tag: "seed2"}}
		if err := db.Create(&seedRows).Error; err != nil {
			panic(err)
		}
		return ref.op.Setup(db, rng)
	}}
	return c05BuildX(op, fam, seed, cfg, true, c05EnclModels, c05EnclTables)
}

type c05EnclRes struct {
	WErr    error // what the write returned
	OErr    error // what finishing the enclosing context returned (Commit / Transaction / the outer Create)
	MarkErr error // the caller's own statements failed (harness trouble or a dead enclosing transaction)
}

const c05EnclMarkSQL = "INSERT INTO c05_encl_marks (note) VALUES (?)"

// execEncl issues the world's write (or only the caller's marks when write is false) in the enclosing context `kind`
func (w *c05World) execEncl(kind string, ctx context.Context, write bool) (res c05EnclRes) {
	h := w.db
	if ctx != nil {
		h = h.WithContext(ctx)
	}
	mark := func(h *gorm.DB, note string) {
		if err := h.Session(&gorm.Session{NewDB: true}).Exec(c05EnclMarkSQL, note).Error; err != nil && res.MarkErr == nil {
			res.MarkErr = fmt.Errorf("mark %s: %w", note, err)
		}
	}
	body2 := func(h, wh *gorm.DB) {
		mark(h, "pre")
		if write {
			res.WErr = w.run(wh)
		}
		mark(h, "post")
	}
	body := func(h *gorm.DB) { body2(h, h) }
	manual := func(tx *gorm.DB) {
		if tx.Error != nil {
			res.OErr = tx.Error
			return
		}
		body(tx)
		res.OErr = tx.Commit().Error
	}
	switch kind {
	case "top":
		body(h)
	case "conn":
		res.OErr = h.Connection(func(c *gorm.DB) error {
			// the Connection handle is the statement itself (clone 0): the caller's own statements go through a
			// derived handle, the write is the first operation on the handle as handed out
			m := c.Session(&gorm.Session{NewDB: true})
			mark(m, "pre")
			if write {
				res.WErr = w.run(c)
			}
			mark(m, "post")
			return nil
		})
	case "block":
		res.OErr = h.Transaction(func(tx *gorm.DB) error { body(tx); return nil })
	case "begin":
		manual(h.Begin())
	case "nested":
		res.OErr = h.Transaction(func(tx *gorm.DB) error {
			mark(tx, "outer-pre")
			err := tx.Transaction(func(tx2 *gorm.DB) error { body(tx2); return nil })
			mark(tx, "outer-post")
			return err
		})
	case "hook":
		// the tx handed to a hook shares the Statement of the operation that fired it (Session{NewDB: true}: clone 1);
		// a hook that starts with tx.Session(&gorm.Session{…}) would inherit that statement's Model / Dest.  The write
		// gets the handle a hook has after its first chain call (fresh statement on the operation's transaction)
		// (the caller's own statements keep using tx itself: the derived handle is the statement of the write and keeps its error)
		c05EnclHookFn = func(tx *gorm.DB) error { body2(tx, tx.Set("c05e:hook", true)); return nil }
		res.OErr = h.Create(&C05EnclOuter{Note: "outer"}).Error
		c05EnclHookFn = nil
	case "connbegin":
		res.OErr = h.Connection(func(c *gorm.DB) error {
			tx := c.Begin()
			if tx.Error != nil {
				return tx.Error
			}
			body(tx)
			return tx.Commit().Error
		})
	case "sessbegin":
		manual(h.Session(&gorm.Session{PrepareStmt: true}).Begin())
	default:
		panic("c05 encl: unknown context " + kind)
	}
	return
}

type c05EnclSc struct {
	Op     string `json:"op"`
	Seed   int64  `json:"graph_seed"`
	Cfg    string `json:"config"`
	Ctx    string `json:"enclosing_context"`
	Mech   string `json:"mech"` // inject | inject-post | trigger | poison | hook
	Err    string `json:"err,omitempty"`
	At     int    `json:"fault_at"` // index among the faultable driver events of the write (after the caller's "pre" mark) / hook invocation index
	Event  string `json:"fault_event,omitempty"`
	Table  string `json:"table,omitempty"`
	TrigOp string `json:"trig_op,omitempty"`
	N      int    `json:"n,omitempty"`
	Action string `json:"hook_action,omitempty"`
}

type c05EnclExp struct {
	dump0 map[string][]string // before anything
	none  map[string][]string // the caller's work without the write, committed
	full  map[string][]string // the caller's work with the fault-free write, committed
	seg   []Event             // the driver events of the fault-free write (between the marks)
	hooks []string            // hook points of the fault-free write (hook family)
	batch [2]int              // (length, batch size) the write noted
}

func c05EnclIsMark(ev *Event) (string, bool) {
	if !strings.Contains(ev.SQL, "c05_encl_marks") {
		return "", false
	}
	if len(ev.Args) > 0 {
		if s, ok := ev.Args[0].(string); ok {
			return s, true
		}
	}
	return "", true
}

// c05EnclSegment: the events between the caller's "pre" and "post" marks
func c05EnclSegment(evs []Event) []Event {
	var out []Event
	in := false
	for i := range evs {
		if note, ok := c05EnclIsMark(&evs[i]); ok {
			if (evs[i].Kind == "exec" || evs[i].Kind == "stmt_exec") && note == "pre" {
				in = true
			} else if note == "post" {
				in = false
			}
			continue
		}
		if in {
			out = append(out, evs[i])
		}
	}
	return out
}

func (w *c05World) enclRestore(dump0 map[string][]string) bool {
	if o, i := w.quiesce(); o == 0 && i == 0 && w.restore() == nil && reflect.DeepEqual(dump0, w.dump()) {
		return true
	}
	return false
}

// c05EnclExpect: the two fault-free runs (without / with the write) on the world itself, each undone afterwards
func c05EnclExpect(w *c05World, ctxKind string) (exp c05EnclExp, err error) {
	exp.dump0 = w.dump()
	cx := WithMarker(context.Background(), "c05e")
	w.rec.Reset()
	res := w.execEncl(ctxKind, cx, false)
	if res.OErr != nil || res.MarkErr != nil {
		return exp, fmt.Errorf("caller's work alone failed: %v %v", res.OErr, res.MarkErr)
	}
	exp.none = w.dump()
	if !w.enclRestore(exp.dump0) {
		return exp, fmt.Errorf("world not restorable")
	}
	w.rec.Reset()
	c05LastBatches = [2]int{}
	plan := &c05HookPlan{At: -1}
	c05Plan = plan
	res = w.execEncl(ctxKind, cx, true)
	c05Plan = nil
	if res.WErr != nil || res.OErr != nil || res.MarkErr != nil {
		return exp, fmt.Errorf("fault-free write failed: %v %v %v", res.WErr, res.OErr, res.MarkErr)
	}
	exp.batch = c05LastBatches
	exp.hooks = plan.Seen
	exp.seg = c05EnclSegment(w.rec.Snapshot())
	exp.full = w.dump()
	if !w.enclRestore(exp.dump0) {
		return exp, fmt.Errorf("world not restorable")
	}
	return exp, nil
}

type c05EnclOut struct {
	Hit     bool
	Res     c05EnclRes
	FaultEv Event
	Dump    map[string][]string
	OpenTx  int64
	InUse   int
	Verdict string
	Known   string // id of the listed finding whose pattern the outcome matches
	Events  []Event
	Batch   [2]int
	Class   string
}

func c05EnclRunOne(w *c05World, sc c05EnclSc, exp c05EnclExp) (o c05EnclOut) {
	w.rec.Reset()
	w.ctl.takeReal()
	c05LastBatches = [2]int{}
	cx := WithMarker(context.Background(), "c05e")
	ne, _ := c05ErrByName(sc.Err)
	wantText := ""
	natural := false
	var plan *c05HookPlan
	switch sc.Mech {
	case "trigger":
		natural = true
		wantText = "c05 trigger: " + sc.TrigOp + " on " + sc.Table + " refused"
		if err := w.arm(sc.Table, sc.TrigOp, sc.N); err != nil {
			o.Hit, o.Verdict = true, "harness: cannot arm trigger: "+err.Error()
			return
		}
	case "poison":
		natural = true
		wantText = "constraint failed"
		c05PoisonAt = sc.N
		c05PoisonApplied = false
	case "hook":
		plan = &c05HookPlan{At: sc.At, Action: sc.Action, Err: ne.Err, cancel: func() {}, rec: w.rec}
		c05Plan = plan
	case "inject-post":
		atomic.StoreInt32(&w.ctl.post, 1)
	}
	if sc.Mech == "inject" || sc.Mech == "inject-post" {
		in, rel := false, 0
		w.rec.Fault = func(idx int, ev *Event) error {
			if note, ok := c05EnclIsMark(ev); ok {
				if (ev.Kind == "exec" || ev.Kind == "stmt_exec") && note == "pre" {
					in = true
				} else if note == "post" {
					in = false
				}
				return nil
			}
			if !in || !faultable(*ev) {
				return nil
			}
			rel++
			if rel-1 != sc.At {
				return nil
			}
			if ev.Kind == "rows_next" && ne.Err == io.EOF {
				return nil
			}
			if ev.Kind == "begin" && ne.Err == gorm.ErrInvalidTransaction {
				return nil
			}
			o.Hit = true
			o.FaultEv = *ev
			return ne.Err
		}
	}
	o.Res = w.execEncl(sc.Ctx, cx, true)
	w.rec.mu.Lock()
	w.rec.Fault = nil
	w.rec.mu.Unlock()
	atomic.StoreInt32(&w.ctl.post, 0)
	c05PoisonAt = -1
	c05Plan = nil
	o.Batch = c05LastBatches
	o.OpenTx, o.InUse = w.quiesce()
	o.Events = w.rec.Snapshot()
	real := w.ctl.takeReal()
	if sc.Mech == "trigger" {
		if err := w.arm("", "", 0); err != nil {
			o.Hit, o.Verdict = true, "harness: cannot disarm trigger (table locked by a transaction left open?): "+err.Error()
			return
		}
	}
	if natural {
		for _, e := range real {
			if strings.Contains(e, wantText) {
				o.Hit = true
				o.FaultEv = Event{Kind: sc.Mech, SQL: e}
			}
		}
	}
	if plan != nil && plan.Hit {
		o.Hit = true
		o.FaultEv = Event{Kind: "hook", SQL: plan.Point}
	}
	if !o.Hit {
		return
	}
	o.Dump = w.dump()
	res := o.Res
	inTx := c05EnclInTx(sc.Ctx)
	base := strings.TrimSuffix(sc.Cfg, "+sp")
	multi := o.Batch[1] > 0 && o.Batch[0] > o.Batch[1]
	defaults := base != "skipdefault" && base != "nonested"
	demanded := base != "skipdefault" && (!inTx || (multi && base != "nonested"))
	finding := defaults && inTx && !multi
	switch {
	case demanded:
		o.Class = "demanded"
	case finding:
		o.Class = "F33 pattern"
	default:
		o.Class = "non-default configuration"
	}
	marksOf := func(d map[string][]string) []string { return d["c05_encl_marks"] }
	injected := sc.Mech == "inject" || sc.Mech == "inject-post"
	mustReport := c05MustReport(o.FaultEv.Kind)
	returnsErr := sc.Mech == "hook" // the hook actions used here all return an error
	switch {
	case res.MarkErr != nil && res.OErr == nil:
		o.Verdict = "the caller's own statement failed after the write's error was handled, yet the enclosing context finished without error: " + res.MarkErr.Error()
	case injected && mustReport && res.WErr == nil && !(ne.Err == driver.ErrBadConn):
		o.Verdict = "write reported no error although a driver call failed with " + sc.Err + " (stage " + o.FaultEv.Kind + ")"
	case injected && mustReport && res.WErr != nil && !strings.Contains(res.WErr.Error(), ne.Err.Error()):
		o.Verdict = "write's error does not mention the driver failure " + sc.Err + ": " + res.WErr.Error()
	case natural && res.WErr == nil:
		o.Verdict = "write reported no error although the database refused a statement: " + o.FaultEv.SQL
	case natural && !strings.Contains(res.WErr.Error(), wantText):
		o.Verdict = "write's error does not mention the statement failure (" + o.FaultEv.SQL + "): " + res.WErr.Error()
	case returnsErr && res.WErr == nil:
		o.Verdict = "write reported no error although hook " + o.FaultEv.SQL + " failed"
	case res.OErr != nil:
		// the enclosing transaction could not be finished: then all of it must be gone
		if inTx && !reflect.DeepEqual(o.Dump, exp.dump0) {
			o.Verdict = "finishing the enclosing transaction failed (" + res.OErr.Error() + ") but the database changed"
		} else if !inTx {
			o.Verdict = "the enclosing context reported an error: " + res.OErr.Error()
		}
	case !reflect.DeepEqual(marksOf(o.Dump), marksOf(exp.none)):
		o.Verdict = "what the enclosing transaction did besides the write was not kept (marks differ)"
	case res.WErr != nil && !reflect.DeepEqual(o.Dump, exp.none):
		switch {
		case demanded:
			o.Verdict = "the write failed and its error was handled, but after the caller's commit the database holds part of it"
		case finding:
			o.Known = "F33-C05-no-savepoint-for-write-inside-transaction"
		}
	case res.WErr == nil && !reflect.DeepEqual(o.Dump, exp.full):
		if reflect.DeepEqual(o.Dump, exp.none) {
			o.Verdict = "write reported success but nothing of it was stored"
		} else {
			o.Verdict = "write reported success but was applied only partially"
		}
	}
	if o.Verdict == "" {
		switch {
		case o.OpenTx != 0:
			o.Verdict = fmt.Sprintf("%d transaction(s) left open", o.OpenTx)
		case o.InUse != 0:
			o.Verdict = fmt.Sprintf("%d connection(s) left checked out", o.InUse)
		}
	}
	return
}

func c05EnclObs(o c05EnclOut, exp c05EnclExp) map[string]interface{} {
	return map[string]interface{}{"write_error": fmt.Sprint(o.Res.WErr), "enclosing_error": fmt.Sprint(o.Res.OErr),
		"caller_statement_error": fmt.Sprint(o.Res.MarkErr), "events": evKinds(o.Events), "batches(len,size)": o.Batch,
		"after": o.Dump, "expected_if_write_failed": exp.none, "expected_if_write_applied": exp.full,
		"open_tx": o.OpenTx, "in_use": o.InUse, "class": o.Class}
}

// c05EnclTrials: (mechanism, error value) pairs for one driver event of the write
func c05EnclTrials(ev Event, rng *rand.Rand, tier string) []c05Trial {
	drawn := func() string {
		for {
			e := c05ErrAlphabet[1+rng.Intn(len(c05ErrAlphabet)-1)]
			if e.Err == driver.ErrBadConn || e.Err == io.EOF || e.Err == gorm.ErrInvalidTransaction {
				continue // retried by database/sql at top level / end of rows / gorm's own "already in a transaction"
			}
			return e.Name
		}
	}
	ts := []c05Trial{{"inject", "generic"}}
	switch ev.Kind {
	case "exec", "query", "stmt_exec", "stmt_query":
		ts = append(ts, c05Trial{"inject-post", "generic"})
		if tier != "quick" || rng.Intn(3) == 0 {
			ts = append(ts, c05Trial{"inject", drawn()})
		}
	case "begin", "commit":
		ts = append(ts, c05Trial{"inject", drawn()})
	case "rows_next":
		if tier != "quick" {
			ts = append(ts, c05Trial{"inject-post", "generic"})
		}
	}
	return ts
}

func c05EnclSuite(r *Result, rng *rand.Rand, tier string) {
	rounds, ctxPer := 1, 2
	switch tier {
	case "thorough":
		rounds, ctxPer = 6, 4
	case "search":
		rounds, ctxPer = 2, 3
	}
	t0 := time.Now()
	worlds, runs := 0, 0
	defer func() { r.Note("enclosed suite: %d worlds, %d faulted runs, %.1fs", worlds, runs, time.Since(t0).Seconds()) }()
	ops := c05EnclAllOps()
	inTxCtxs := []string{"block", "begin", "nested", "hook", "connbegin", "sessbegin"}
	for g := 0; g < rounds && !expired(); g++ {
		off := rng.Intn(64)
		for oi, ref := range ops {
			if expired() {
				break
			}
			seed := rng.Int63()
			cfg := c05EnclCfgs[[]int{0, 1, 2, 0, 1, 3, 4, 0, 5, 1, 6}[(off+oi+g)%11]]
			var ctxs []string
			if c05EnclIsBatchOp(ref.op.Name) {
				// the wrapping decision lives here: every kind of enclosing transaction on every run
				ctxs = append(ctxs, "top", "conn")
				rng.Shuffle(len(inTxCtxs), func(i, j int) { inTxCtxs[i], inTxCtxs[j] = inTxCtxs[j], inTxCtxs[i] })
				n := 3
				if tier != "quick" {
					n = len(inTxCtxs)
				}
				ctxs = append(ctxs, inTxCtxs[:n]...)
			} else {
				for i := 0; i < ctxPer; i++ {
					ctxs = append(ctxs, c05EnclCtxs[1+(off+oi*3+g*5+i*4)%(len(c05EnclCtxs)-1)]) // "top" is the `fault` suite's
				}
			}
			w := c05EnclBuild(ref, seed, cfg)
			worlds++
			for _, ctxKind := range ctxs {
				if ref.op.Name == "SaveMissingKey" && !c05EnclInTx(ctxKind) {
					continue // F17 (two implicit transactions) is the `fault` suite's business
				}
				exp, err := c05EnclExpect(w, ctxKind)
				if err != nil {
					r.Note("enclosed: %s in %s/%s: %v", ref.op.Name, ctxKind, cfg, err)
					w.Close()
					w = c05EnclBuild(ref, seed, cfg)
					continue
				}
				r.H("encl_segment_len", fmt.Sprint(len(exp.seg)/5*5, "+"))
				one := func(sc c05EnclSc) (hit bool) {
					o := c05EnclRunOne(w, sc, exp)
					runs++
					sc.Event = o.FaultEv.Kind + " " + trunc(o.FaultEv.SQL, 60)
					r.Case("enclosed", fmt.Sprint(sc.Op, sc.Ctx, sc.Cfg, sc.Mech, sc.Err, o.FaultEv.Kind, trunc(o.FaultEv.SQL, 30), sc.Table, sc.TrigOp, sc.N), o.Hit)
					if o.Hit {
						r.H("encl_ctx", sc.Ctx)
						r.H("encl_cfg", sc.Cfg)
						r.H("encl_op", sc.Op)
						r.H("encl_mech", sc.Mech)
						r.H("encl_class", o.Class)
						r.H("encl_fault_kind", o.FaultEv.Kind)
						if strings.HasPrefix(strings.ToUpper(o.FaultEv.SQL), "SAVEPOINT") || strings.HasPrefix(strings.ToUpper(o.FaultEv.SQL), "ROLLBACK TO") {
							r.H("encl_fault_at_savepoint_stmt", sc.Mech)
						}
						if o.Batch[1] > 0 {
							nb := (o.Batch[0] + o.Batch[1] - 1) / o.Batch[1]
							r.H("encl_batches", fmt.Sprintf("%d batch(es)%s", nb, map[bool]string{true: ", last one full", false: ""}[o.Batch[0]%o.Batch[1] == 0]))
						}
						switch {
						case o.Res.WErr == nil:
							r.H("encl_outcome", "applied")
						case reflect.DeepEqual(o.Dump, exp.none):
							r.H("encl_outcome", "failed, nothing of the write kept")
						default:
							r.H("encl_outcome", "failed, part of the write kept ("+o.Class+")")
						}
					}
					switch {
					case o.Verdict != "":
						r.Violate(Violation{Kind: "e2e", Suite: "enclosed", Input: sc, Observed: c05EnclObs(o, exp), Expected: o.Verdict})
					case o.Known != "" && listed(o.Known):
						r.KnownFinding(o.Known, fmt.Sprintf("%s in context %s: the write failed, its error was handled, the caller's commit stored part of it", sc.Op, sc.Ctx))
					case o.Known != "":
						r.Violate(Violation{Kind: "e2e", Suite: "enclosed", Input: sc, Observed: c05EnclObs(o, exp),
							Expected: "the write failed and its error was handled, but after the caller's commit the database holds part of it"})
					}
					if !w.enclRestore(exp.dump0) {
						w.Close()
						w = c05EnclBuild(ref, seed, cfg)
						worlds++
					}
					return o.Hit
				}
				// (1) the k-th driver event of the write
				stride := 1
				if tier == "quick" && len(exp.seg) > 16 && !c05EnclIsBatchOp(ref.op.Name) {
					stride = 2
				}
				start := 0
				if stride > 1 {
					start = rng.Intn(stride)
				}
				for k := start; k < len(exp.seg)+3 && !expired(); k += stride {
					label := Event{Kind: "?"}
					if k < len(exp.seg) {
						label = exp.seg[k]
						if !faultable(label) {
							continue
						}
					}
					// exp.seg counts every event, the fault index only the faultable ones
					fk := 0
					for i := 0; i < k && i < len(exp.seg); i++ {
						if faultable(exp.seg[i]) {
							fk++
						}
					}
					if k >= len(exp.seg) {
						fk += k - len(exp.seg)
					}
					reached := false
					for _, t := range c05EnclTrials(label, rng, tier) {
						if one(c05EnclSc{Op: ref.op.Name, Seed: seed, Cfg: cfg, Ctx: ctxKind, Mech: t.mech, Err: t.err, At: fk}) {
							reached = true
						}
					}
					if !reached && k >= len(exp.seg) {
						break
					}
				}
				// (2) genuine refusals: the n-th row of every (table, operation) the write touches
				pairs, rowsOf := c05Touched(exp.seg)
				maxN := 3
				if c05EnclIsBatchOp(ref.op.Name) {
					maxN = 7
				}
				for _, p := range pairs {
					if p[0] == "c05_encl_marks" || p[0] == "c05_encl_outers" {
						continue // the caller's own tables
					}
					for n := 1; n <= maxN && n <= rowsOf[p] && !expired(); n++ {
						if !one(c05EnclSc{Op: ref.op.Name, Seed: seed, Cfg: cfg, Ctx: ctxKind, Mech: "trigger", Table: p[0], TrigOp: p[1], N: n}) {
							break
						}
					}
					if rowsOf[p] > maxN { // … and the last row (a later batch of a long slice)
						one(c05EnclSc{Op: ref.op.Name, Seed: seed, Cfg: cfg, Ctx: ctxKind, Mech: "trigger", Table: p[0], TrigOp: p[1], N: rowsOf[p]})
					}
				}
				// (3) refused values
				if ref.fam == "s" {
					for n := 0; n < 12 && !expired(); n += 1 + rng.Intn(2) {
						one(c05EnclSc{Op: ref.op.Name, Seed: seed, Cfg: cfg, Ctx: ctxKind, Mech: "poison", N: n})
					}
				}
				// (4) a failing hook invocation
				if ref.fam == "h" {
					for j := range exp.hooks {
						act := []string{"err", "write+err", "failwrite"}[rng.Intn(3)]
						one(c05EnclSc{Op: ref.op.Name, Seed: seed, Cfg: cfg, Ctx: ctxKind, Mech: "hook", Action: act, Err: "generic", At: j})
					}
				}
			}
			w.Close()
		}
	}
}

func c05ReplayEncl(r *Result, input json.RawMessage) {
	var sc c05EnclSc
	if err := json.Unmarshal(input, &sc); err != nil {
		r.Note("bad replay input: %v", err)
		return
	}
	ref, ok := c05EnclOpByName(sc.Op)
	if !ok {
		r.Note("unknown op %q", sc.Op)
		return
	}
	w := c05EnclBuild(ref, sc.Seed, sc.Cfg)
	defer w.Close()
	exp, err := c05EnclExpect(w, sc.Ctx)
	if err != nil {
		r.Note("fault-free runs failed: %v", err)
		return
	}
	// the world of the original run had executed the write before (prepared statements cached): a second attempt runs
	// on the warmed world
	for attempt := 0; attempt < 2; attempt++ {
		o := c05EnclRunOne(w, sc, exp)
		r.Case("enclosed", fmt.Sprint(sc), o.Hit)
		if o.Hit {
			if o.Verdict != "" || (o.Known != "" && !listed(o.Known)) {
				v := o.Verdict
				if v == "" {
					v = "the write failed and its error was handled, but after the caller's commit the database holds part of it"
				}
				r.Violate(Violation{Kind: "e2e", Suite: "enclosed", Input: sc, Observed: c05EnclObs(o, exp), Expected: v})
			}
			return
		}
		if !w.enclRestore(exp.dump0) {
			return
		}
	}
}

func init() {
	register("C05", c05EnclSuite)
	replayers["C05/enclosed"] = c05ReplayEncl
}
