package main

// C03, embedded structs (round 2).  Struct declarations are generated as TREES: leaves (string / int64 / *int64 / bool)
// and struct-typed members that gorm embeds — Go ANONYMOUS fields and NAMED fields with the `embedded` tag, by value and
// by pointer, with and without `embeddedPrefix`, up to three levels deep, from a small alphabet of Go names so that the
// same name occurs at several depths (shadowing in both declaration orders), plus `column:` tags that make fields of
// different names claim one column.  The Go types are built with reflect.StructOf (Anonymous: true for anonymous members).
//
//  * suite "embed-owner" (correspondence): real schema.Parse → Schema.Fields (BindNames, DBName) and, for every entry of
//    Schema.DBNames, the BindNames of Schema.FieldsByDBName[column]  vs  Lean flattenE / embedOwners computed from the
//    DECLARATION (not from gorm's parsed fields): theorems C03_owner_shallowest, C03_embed_owner_shallowest,
//    C03_embed_anonymous_like_named.  Permission tags (`->`, `<-:false`, `-`, `->:false;<-:false`) and same-depth
//    duplicates are included here.
//  * suite "e2e-embed" (e2e): AutoMigrate → Create (single / values / pointers / batches, with and without RETURNING) →
//    raw rows (maps) and Find / First / Take into fresh structs.  ORACLE, computed by the harness itself from the
//    declaration: the owner of a column is the claimant on the shortest selector path (Go's rule, which gorm documents
//    as "shortest path … prioritized"); the row must hold the OWNER's value in that column and every read must put it
//    back into the owner field.
// LATITUDE: fields that do not own a column (shadowed by a shallower field) are not judged; when several claimants share
// the minimal depth (Go calls the selector ambiguous, gorm takes the first) ANY of them may own the column, as long as
// the row and the loaded field agree with that one; a nil pointer to an embedded struct equals a pointer to an all-zero
// struct (only leaf values are compared).

import (
	"encoding/json"
	"fmt"
	"math/rand"
	"reflect"
	"sort"
	"strings"
	"sync"

	"gorm.io/gorm"
	"gorm.io/gorm/schema"
)

type c03ENode struct {
	Name   string     `json:"name"`
	Kind   string     `json:"kind,omitempty"` // leaf: string | int | *int | bool | uint ; "" = embedded struct
	Col    string     `json:"col,omitempty"`  // leaf: explicit column: tag ("" = default naming)
	Perm   string     `json:"perm,omitempty"` // leaf: "" | "->" | "<-:false" | "-" | "->:false;<-:false"
	PK     bool       `json:"pk,omitempty"`
	Anon   bool       `json:"anon,omitempty"`
	Ptr    bool       `json:"ptr,omitempty"`
	Prefix string     `json:"prefix,omitempty"`
	Kids   []c03ENode `json:"kids,omitempty"`
}

var c03ELeafNames = []string{"Name", "Note", "Code", "Rank", "Title", "Zed"}
var c03EEmbNames = []string{"Audit", "Meta", "Base", "Stamp", "Inner"}

// c03ESnake: NamingStrategy{}.ColumnName for the names of the two alphabets (single capitalised words and "ID")
func c03ESnake(n string) string { return strings.ToLower(n) }

func c03ELeafType(kind string) reflect.Type {
	switch kind {
	case "string":
		return reflect.TypeOf("")
	case "int":
		return reflect.TypeOf(int64(0))
	case "*int":
		return reflect.TypeOf((*int64)(nil))
	case "bool":
		return reflect.TypeOf(false)
	case "uint":
		return reflect.TypeOf(uint(0))
	}
	panic(kind)
}

func c03EType(nodes []c03ENode) reflect.Type {
	var sf []reflect.StructField
	for _, n := range nodes {
		var tags []string
		f := reflect.StructField{Name: n.Name}
		if n.Kind != "" {
			f.Type = c03ELeafType(n.Kind)
			if n.Col != "" {
				tags = append(tags, "column:"+n.Col)
			}
			if n.PK {
				tags = append(tags, "primaryKey")
			}
			if n.Perm != "" {
				tags = append(tags, n.Perm)
			}
		} else {
			f.Type = c03EType(n.Kids)
			if n.Ptr {
				f.Type = reflect.PointerTo(f.Type)
			}
			f.Anonymous = n.Anon
			if !n.Anon {
				tags = append(tags, "embedded")
			}
			if n.Prefix != "" {
				tags = append(tags, "embeddedPrefix:"+n.Prefix)
			}
		}
		f.Tag = reflect.StructTag(`gorm:"` + strings.Join(tags, ";") + `"`)
		sf = append(sf, f)
	}
	return reflect.StructOf(sf)
}

// c03EGenLevel generates the members of one struct: distinct Go names per level, leaves and embedded structs mixed in
// random declaration order.  cross = allow `column:` tags that point at another leaf name's default column; perms = allow
// permission tags (correspondence suite only)
func c03EGenLevel(rng *rand.Rand, depth int, cross, perms bool) []c03ENode {
	var out []c03ENode
	ln := append([]string{}, c03ELeafNames...)
	en := append([]string{}, c03EEmbNames...)
	rng.Shuffle(len(ln), func(i, j int) { ln[i], ln[j] = ln[j], ln[i] })
	rng.Shuffle(len(en), func(i, j int) { en[i], en[j] = en[j], en[i] })
	nLeaf := 1 + rng.Intn(3)
	nEmb := 0
	if depth < 3 {
		nEmb = []int{0, 1, 1, 2}[rng.Intn(4)]
		if depth == 1 && nEmb == 0 {
			nEmb = 1
		}
	}
	for i := 0; i < nLeaf; i++ {
		n := c03ENode{Name: ln[i], Kind: []string{"string", "string", "int", "*int", "bool"}[rng.Intn(5)]}
		if cross && rng.Intn(5) == 0 {
			n.Col = c03ESnake(c03ELeafNames[rng.Intn(len(c03ELeafNames))])
		} else if rng.Intn(8) == 0 {
			n.Col = "c_" + c03ESnake(n.Name)
		}
		if perms && rng.Intn(5) == 0 {
			n.Perm = []string{"->", "<-:false", "-", "->:false;<-:false"}[rng.Intn(4)]
		}
		out = append(out, n)
	}
	for i := 0; i < nEmb; i++ {
		n := c03ENode{Name: en[i], Anon: rng.Intn(3) != 0, Ptr: rng.Intn(3) == 0, Kids: c03EGenLevel(rng, depth+1, cross, perms)}
		if rng.Intn(3) == 0 {
			n.Prefix = []string{"p_", "x", "Au_"}[rng.Intn(3)]
		}
		out = append(out, n)
	}
	rng.Shuffle(len(out), func(i, j int) { out[i], out[j] = out[j], out[i] })
	return out
}

// leaf of the flattened declaration, computed by the harness itself
type c03ELeaf struct {
	Path   []string
	Index  []int // reflect index path
	Column string
	Kind   string
	PK     bool
}

func c03EFlatten(nodes []c03ENode, path []string, index []int, prefix string) (out []c03ELeaf) {
	for i, n := range nodes {
		p := append(append([]string{}, path...), n.Name)
		ix := append(append([]int{}, index...), i)
		if n.Kind == "" {
			out = append(out, c03EFlatten(n.Kids, p, ix, prefix+n.Prefix)...)
			continue
		}
		col := n.Col
		if col == "" && n.Perm != "-" {
			col = c03ESnake(n.Name)
		}
		if col != "" {
			col = prefix + col
		}
		out = append(out, c03ELeaf{Path: p, Index: ix, Column: col, Kind: n.Kind, PK: n.PK})
	}
	return
}

func c03EDeclJSON(nodes []c03ENode) []interface{} {
	out := []interface{}{}
	for _, n := range nodes {
		if n.Kind == "" {
			out = append(out, []interface{}{"e", n.Name, n.Anon, n.Prefix, c03EDeclJSON(n.Kids)})
			continue
		}
		var col interface{}
		if n.Col != "" {
			col = n.Col
		} else if n.Perm != "-" {
			col = c03ESnake(n.Name)
		}
		out = append(out, []interface{}{"f", n.Name, col, n.Perm != "-" && n.Perm != "->:false;<-:false"})
	}
	return out
}

var c03ECache sync.Map

// ---- correspondence: schema.Parse vs flattenE / embedOwners ----

func c03ERunParse(nodes []c03ENode) (real interface{}, shadow, anonShadow bool, err error) {
	defer func() {
		if p := recover(); p != nil {
			err = fmt.Errorf("panic: %v", p)
		}
	}()
	sch, err := schema.Parse(reflect.New(c03EType(nodes)).Interface(), &c03ECache, schema.NamingStrategy{})
	if err != nil {
		return nil, false, false, err
	}
	fields := []interface{}{}
	claim := map[string]int{}
	for _, f := range sch.Fields {
		var db interface{}
		if f.DBName != "" {
			db = f.DBName
			claim[f.DBName]++
		}
		fields = append(fields, []interface{}{f.BindNames, db, len(f.BindNames)})
	}
	owners := []interface{}{}
	for _, c := range sch.DBNames {
		o := sch.FieldsByDBName[c]
		if o == nil {
			owners = append(owners, []interface{}{c, nil})
			continue
		}
		owners = append(owners, []interface{}{c, o.BindNames})
		if claim[c] > 1 {
			shadow = true
			if len(o.EmbeddedBindNames) != len(o.BindNames) {
				anonShadow = true
			}
			for _, f := range sch.Fields {
				if f.DBName == c && len(f.EmbeddedBindNames) != len(f.BindNames) {
					anonShadow = true
				}
			}
		}
	}
	return []interface{}{fields, owners}, shadow, anonShadow, nil
}

func c03EmbedOwnerSuite(r *Result, rng *rand.Rand, tier string) {
	n := 1500
	if tier == "thorough" {
		n = 20000
	}
	var ops [][]interface{}
	var ins [][]c03ENode
	var reals []interface{}
	var shadows []bool
	for i := 0; i < n && !expired(); i++ {
		nodes := c03EGenLevel(rng, 1, rng.Intn(2) == 0, rng.Intn(3) == 0)
		real, shadow, anonShadow, err := c03ERunParse(nodes)
		if err != nil {
			r.H("embed-owner.parse", "error(skipped)")
			continue
		}
		r.H("embed-owner.shadowing", fmt.Sprint(shadow))
		r.H("embed-owner.shadowing-through-anonymous", fmt.Sprint(anonShadow))
		ops = append(ops, []interface{}{"c03.embed", c03EDeclJSON(nodes)})
		ins = append(ins, nodes)
		reals = append(reals, real)
		shadows = append(shadows, shadow)
	}
	outs, err := AskLean(ops)
	if err != nil {
		r.Violate(Violation{Kind: "correspondence", Suite: "embed-owner", Note: err.Error()})
		return
	}
	for i, nodes := range ins {
		r.Case("embed-owner", canon(nodes), shadows[i])
		r.H("embed-owner.leaves", fmt.Sprint(minInt(len(c03EFlatten(nodes, nil, nil, "")), 12)))
		r.CorrCompared++
		if canon(reals[i]) != canonRaw(outs[i]) {
			r.Violate(Violation{Kind: "correspondence", Suite: "embed-owner", Input: nodes, Observed: reals[i], Expected: json.RawMessage(outs[i]),
				Note: "Schema.Fields / FieldsByDBName ownership of the parsed declaration differ from Model.Scan.flattenE / embedOwners (shallowest selector path owns the column, first declared on a tie)"})
		}
	}
}

// ---- e2e ----

type c03EInput struct {
	Seed      int64  `json:"seed"`
	RecSeed   int64  `json:"rec_seed"`
	N         int    `json:"n"`
	Mode      string `json:"mode"` // single | values | pointers | batches
	Batch     int    `json:"batch"`
	Returning bool   `json:"returning"`
	Key       string `json:"key"` // top-id | embedded-id | string | none
	Desc      string `json:"desc,omitempty"`
}

// c03EGenSchema: a declaration tree plus the key and the payload column
func c03EGenSchema(seed int64, key string) []c03ENode {
	rng := rand.New(rand.NewSource(seed))
	nodes := c03EGenLevel(rng, 1, rng.Intn(2) == 0, false)
	switch key {
	case "top-id":
		nodes = append(nodes, c03ENode{Name: "ID", Kind: "uint"})
	case "embedded-id": // the key lives in an anonymous base struct (the gorm.Model pattern)
		nodes = append([]c03ENode{{Name: "Model", Anon: true, Kids: []c03ENode{{Name: "ID", Kind: "uint", PK: true}, {Name: "Rev", Kind: "int"}}}}, nodes...)
	case "string":
		nodes = append(nodes, c03ENode{Name: "Key", Kind: "string", Col: "the_key", PK: true})
	}
	pay := c03ENode{Name: "Payload", Kind: "string", Col: "payload"}
	pos := rng.Intn(len(nodes) + 1)
	nodes = append(nodes[:pos], append([]c03ENode{pay}, nodes[pos:]...)...)
	return nodes
}

func c03EDesc(nodes []c03ENode) string {
	var parts []string
	for _, n := range nodes {
		if n.Kind != "" {
			s := n.Name + ":" + n.Kind
			if n.Col != "" {
				s += "{column:" + n.Col + "}"
			}
			parts = append(parts, s)
			continue
		}
		s := n.Name
		if n.Anon {
			s = "anon " + s
		}
		if n.Ptr {
			s = "*" + s
		}
		if n.Prefix != "" {
			s += "{prefix:" + n.Prefix + "}"
		}
		parts = append(parts, s+"{"+c03EDesc(n.Kids)+"}")
	}
	return strings.Join(parts, "; ")
}

// walk an index path; allocate pointers to embedded structs when alloc, else return the zero Value on a nil pointer
func c03EField(v reflect.Value, index []int, alloc bool) reflect.Value {
	for _, i := range index {
		for v.Kind() == reflect.Ptr {
			if v.IsNil() {
				if !alloc {
					return reflect.Value{}
				}
				v.Set(reflect.New(v.Type().Elem()))
			}
			v = v.Elem()
		}
		v = v.Field(i)
	}
	return v
}

func c03ELeafCanon(v reflect.Value, kind string) string {
	if !v.IsValid() {
		v = reflect.Zero(c03ELeafType(kind))
	}
	return c03Canon(v)
}

func c03ERunE2E(r *Result, in c03EInput) (bad []string) {
	defer func() {
		if p := recover(); p != nil {
			bad = append(bad, fmt.Sprint("panic: ", p))
		}
	}()
	nodes := c03EGenSchema(in.Seed, in.Key)
	typ := c03EType(nodes)
	leaves := c03EFlatten(nodes, nil, nil, "")
	// owners by Go's rule: minimal selector depth; several candidates only on a same-depth tie
	byCol := map[string][]int{}
	var cols []string
	for li, l := range leaves {
		if _, ok := byCol[l.Column]; !ok {
			cols = append(cols, l.Column)
		}
		byCol[l.Column] = append(byCol[l.Column], li)
	}
	cands := map[string][]int{}
	shadowed := 0
	for _, c := range cols {
		min := 99
		for _, li := range byCol[c] {
			if len(leaves[li].Path) < min {
				min = len(leaves[li].Path)
			}
		}
		for _, li := range byCol[c] {
			if len(leaves[li].Path) == min {
				cands[c] = append(cands[c], li)
			}
		}
		shadowed += len(byCol[c]) - len(cands[c])
	}
	db, sqlDB := c03Open(in.Returning, &gorm.Config{NowFunc: fixedNowFunc})
	defer sqlDB.Close()
	const tbl = "emb_models"
	if err := db.Table(tbl).AutoMigrate(reflect.New(typ).Interface()); err != nil {
		return []string{"AutoMigrate: " + err.Error()}
	}
	// records: every leaf gets its own distinctive non-zero value most of the time (so a column filled from the wrong
	// field is visible); pointers to embedded structs are nil one time in five
	gen := func(seed int64) reflect.Value {
		rng := rand.New(rand.NewSource(seed))
		recs := reflect.MakeSlice(reflect.SliceOf(typ), in.N, in.N)
		for i := 0; i < in.N; i++ {
			var fill func(v reflect.Value, ns []c03ENode, path string)
			fill = func(v reflect.Value, ns []c03ENode, path string) {
				for fi, n := range ns {
					fv := v.Field(fi)
					if n.Kind == "" {
						if n.Ptr {
							if rng.Intn(5) == 0 {
								continue
							}
							fv.Set(reflect.New(fv.Type().Elem()))
							fv = fv.Elem()
						}
						fill(fv, n.Kids, path+n.Name+".")
						continue
					}
					zero := rng.Intn(6) == 0
					switch {
					case n.Name == "Payload":
						fv.SetString(fmt.Sprintf("p%d-%d", seed%1000, i))
					case n.Name == "ID" && n.Kind == "uint":
						// generated by the database
					case n.PK && n.Kind == "string":
						fv.SetString(fmt.Sprintf("k%d", i))
					case zero:
					case n.Kind == "string":
						fv.SetString(fmt.Sprintf("%s%s#%d/%s", path, n.Name, i, c03UniStrings[rng.Intn(8)]))
					case n.Kind == "int":
						fv.SetInt(int64(1 + rng.Intn(1000000)))
					case n.Kind == "*int":
						x := int64(1 + rng.Intn(1000000))
						fv.Set(reflect.ValueOf(&x))
					case n.Kind == "bool":
						fv.SetBool(rng.Intn(2) == 0)
					}
				}
			}
			fill(recs.Index(i), nodes, "")
		}
		return recs
	}
	orig, mem := gen(in.RecSeed), gen(in.RecSeed)
	ptrs := reflect.MakeSlice(reflect.SliceOf(reflect.PointerTo(typ)), in.N, in.N)
	for i := 0; i < in.N; i++ {
		ptrs.Index(i).Set(mem.Index(i).Addr())
	}
	var err error
	switch in.Mode {
	case "single":
		for i := 0; i < in.N && err == nil; i++ {
			err = db.Table(tbl).Create(mem.Index(i).Addr().Interface()).Error
		}
	case "values":
		p := reflect.New(mem.Type())
		p.Elem().Set(mem)
		err = db.Table(tbl).Create(p.Interface()).Error
		mem = p.Elem()
	case "pointers":
		err = db.Table(tbl).Create(ptrs.Interface()).Error
	case "batches":
		err = db.Table(tbl).CreateInBatches(ptrs.Interface(), in.Batch).Error
	}
	if err != nil {
		return []string{"Create: " + err.Error()}
	}
	var payIdx []int
	var idLeaf *c03ELeaf
	for li, l := range leaves {
		if l.Column == "payload" {
			payIdx = l.Index
		}
		if l.Kind == "uint" {
			idLeaf = &leaves[li]
		}
	}
	// loads
	var mapRows []map[string]interface{}
	if e := db.Table(tbl).Find(&mapRows).Error; e != nil {
		return []string{"Find(maps): " + e.Error()}
	}
	rowBy := map[string]map[string]interface{}{}
	for _, m := range mapRows {
		rowBy[fmt.Sprint(m["payload"])] = m
	}
	type copyT struct {
		how string
		v   reflect.Value
	}
	loadedBy := map[string][]copyT{}
	all := reflect.New(reflect.SliceOf(typ))
	if e := db.Table(tbl).Find(all.Interface()).Error; e != nil {
		return []string{"Find: " + e.Error()}
	}
	for i := 0; i < all.Elem().Len(); i++ {
		v := all.Elem().Index(i)
		p := c03EField(v, payIdx, false).String()
		loadedBy[p] = append(loadedBy[p], copyT{"Find(&[]T)", v})
	}
	allP := reflect.New(reflect.SliceOf(reflect.PointerTo(typ)))
	if e := db.Table(tbl).Find(allP.Interface()).Error; e != nil {
		return []string{"Find(ptrs): " + e.Error()}
	}
	for i := 0; i < allP.Elem().Len(); i++ {
		v := allP.Elem().Index(i).Elem()
		p := c03EField(v, payIdx, false).String()
		loadedBy[p] = append(loadedBy[p], copyT{"Find(&[]*T)", v})
	}
	for i := 0; i < in.N; i++ {
		pay := c03EField(orig.Index(i), payIdx, false).String()
		f1, f2 := reflect.New(typ), reflect.New(typ)
		if e := db.Table(tbl).Where("payload = ?", pay).First(f1.Interface()).Error; e != nil {
			bad = append(bad, fmt.Sprintf("rec %d First: %v", i, e))
		} else {
			loadedBy[pay] = append(loadedBy[pay], copyT{"First", f1.Elem()})
		}
		if e := db.Table(tbl).Where("payload = ?", pay).Take(f2.Interface()).Error; e != nil {
			bad = append(bad, fmt.Sprintf("rec %d Take: %v", i, e))
		} else {
			loadedBy[pay] = append(loadedBy[pay], copyT{"Take", f2.Elem()})
		}
	}
	if len(bad) > 0 {
		return bad
	}
	if len(mapRows) != in.N {
		bad = append(bad, fmt.Sprintf("table holds %d rows, created %d", len(mapRows), in.N))
	}
	// judge
	for i := 0; i < in.N; i++ {
		o := orig.Index(i)
		pay := c03EField(o, payIdx, false).String()
		row, loaded := rowBy[pay], loadedBy[pay]
		if row == nil || len(loaded) != 4 {
			bad = append(bad, fmt.Sprintf("rec %d (%s): row present=%v, %d struct copies loaded (want 4)", i, pay, row != nil, len(loaded)))
			continue
		}
		for _, c := range cols {
			if idLeaf != nil && c == idLeaf.Column {
				// generated key: the in-memory record must carry the key of the row that holds its payload
				memKey := c03ELeafCanon(c03EField(mem.Index(i), idLeaf.Index, false), "uint")
				if rk := c03StoredCanon(row[c]); memKey == "0" || rk != memKey {
					bad = append(bad, fmt.Sprintf("rec %d: in-memory key %s, row holding its payload has key %s", i, memKey, rk))
				}
				for _, l := range loaded {
					if lk := c03ELeafCanon(c03EField(l.v, idLeaf.Index, false), "uint"); lk != memKey {
						bad = append(bad, fmt.Sprintf("rec %d: key read by %s is %s, in memory %s", i, l.how, lk, memKey))
					}
				}
				continue
			}
			gv, ok := row[c]
			if !ok {
				bad = append(bad, fmt.Sprintf("rec %d: table has no column %q", i, c))
				continue
			}
			got := c03StoredCanon(gv)
			okOwner := -1
			var wants []string
			for _, li := range cands[c] {
				l := leaves[li]
				ov := c03EField(o, l.Index, false)
				var want string
				if ov.IsValid() {
					want = c03StoredCanon(ov.Interface())
				} else {
					want = c03StoredCanon(reflect.Zero(c03ELeafType(l.Kind)).Interface())
				}
				wants = append(wants, strings.Join(l.Path, ".")+"="+want)
				// LATITUDE: a leaf below a nil pointer to an embedded struct is written as NULL (gorm has no value to read)
				if want != got && !(got == "null" && !ov.IsValid()) {
					continue
				}
				// the same field must get the value back in every read, and Create must not have changed it in memory
				same := c03ELeafCanon(c03EField(mem.Index(i), l.Index, false), l.Kind) == c03ELeafCanon(ov, l.Kind)
				for _, ld := range loaded {
					if c03ELeafCanon(c03EField(ld.v, l.Index, false), l.Kind) != c03ELeafCanon(ov, l.Kind) {
						same = false
					}
				}
				if same {
					okOwner = li
					break
				}
			}
			if okOwner < 0 {
				var reads []string
				for _, li := range cands[c] {
					for _, ld := range loaded {
						reads = append(reads, fmt.Sprintf("%s via %s=%s", strings.Join(leaves[li].Path, "."), ld.how, c03ELeafCanon(c03EField(ld.v, leaves[li].Index, false), leaves[li].Kind)))
					}
				}
				sort.Strings(reads)
				bad = append(bad, fmt.Sprintf("rec %d column %q: row holds %s; shallowest field(s) were given %v; loaded %v", i, c, got, wants, reads))
			}
		}
	}
	if r != nil {
		r.H("e2e-embed.shadowed-fields", fmt.Sprint(minInt(shadowed, 5)))
		r.H("e2e-embed.leaves", fmt.Sprint(minInt(len(leaves), 14)))
	}
	return bad
}

func c03EmbedE2ESuite(r *Result, rng *rand.Rand, tier string) {
	n := 260
	if tier == "thorough" {
		n = 4000
	}
	keys := []string{"top-id", "embedded-id", "string", "none"}
	modes := []string{"single", "values", "pointers", "batches"}
	for i := 0; i < n && !expired(); i++ {
		in := c03EInput{Seed: rng.Int63(), RecSeed: rng.Int63n(1 << 40), N: 1 + rng.Intn(4), Mode: modes[rng.Intn(len(modes))], Returning: rng.Intn(2) == 0, Key: keys[rng.Intn(len(keys))]}
		if in.Mode == "batches" {
			in.Batch = 1 + rng.Intn(in.N+1)
		}
		in.Desc = c03EDesc(c03EGenSchema(in.Seed, in.Key))
		bad := c03ERunE2E(r, in)
		r.H("e2e-embed.mode", in.Mode)
		r.H("e2e-embed.key", in.Key)
		r.H("e2e-embed.returning", fmt.Sprint(in.Returning))
		r.Case("e2e-embed", fmt.Sprint(in.Seed, in.Mode, in.Returning, in.Key), true)
		if len(bad) > 0 {
			if len(bad) > 6 {
				bad = append(bad[:6], fmt.Sprintf("… %d more", len(bad)-6))
			}
			r.H("e2e-embed.verdict", "violation")
			r.Violate(Violation{Kind: "e2e", Suite: "e2e-embed", Input: in, Observed: bad,
				Expected: "every column holds the value of the field on the shortest selector path, and every read puts it back into that field"})
		} else {
			r.H("e2e-embed.verdict", "ok")
		}
		if i < 2 {
			r.Sample(map[string]interface{}{"embedding": in.Desc})
		}
	}
}

func init() {
	register("C03", c03EmbedOwnerSuite)
	register("C03", c03EmbedE2ESuite)
	replayers["C03/embed-owner"] = func(r *Result, input json.RawMessage) { r.Note("embed-owner replays are correspondence-only") }
	replayers["C03/e2e-embed"] = func(r *Result, input json.RawMessage) {
		var in c03EInput
		if json.Unmarshal(input, &in) != nil {
			return
		}
		if bad := c03ERunE2E(nil, in); len(bad) > 0 {
			r.Violate(Violation{Kind: "e2e", Suite: "e2e-embed", Input: in, Observed: bad})
		}
	}
}
