package main

// C09 round 4 — suite `assoc`: condition-less writes on models WITH RELATIONS, and finding F33.
//
// Dimension that was constant before: the models of the guard suites have no relations.  In the update and delete pipelines
// (callbacks/callbacks.go) gorm:save_before_associations / gorm:delete_before_associations are registered BEFORE gorm:update /
// gorm:delete — the handlers that hold checkMissingWhereConditions.  So for a condition-less write on a key-less model value
//   * Update / Updates / UpdateColumn(s) whose model value carries a non-zero BELONGS-TO value (not excluded by Select/Omit):
//     `INSERT INTO <owner> … ON CONFLICT …` is executed, THEN the UPDATE is refused;
//   * Delete with Select("<many2many relation>") or Select(clause.Associations): `DELETE FROM <join> WHERE fk IN (NULL)` is
//     executed, THEN the DELETE is refused.
// Inside the implicit transaction these statements are rolled back (a NON-empty rolled-back transaction — the property allows
// an EMPTY one); with SkipDefaultTransaction or inside a user transaction that commits, the owner row PERSISTS although the
// call returned ErrMissingWhereClause ("executes no statement … changes no row").  Listed as F33-C09-associations-before-guard
// (Lean: C09_assoc_before_guard_counterexample / C09_nothing_before_guard_partial).
//
//	e2e:  every case must be rejected with ErrMissingWhereClause, the MAIN statement (UPDATE/DELETE on r_users) never sent, r_users
//	      unchanged — anything else is a violation on every tree.  Statements sent for associations / other tables changed:
//	      the finding's pattern (KNOWN-FINDING while listed, a violation otherwise).  Cases outside the pattern (no belongs-to
//	      value, has-one / has-many / polymorphic values only, Omit(clause.Associations), Select of non-m2m relations) must send
//	      NOTHING.
//	tie:  number of statements sent before the refusal vs Lean `sentBeforeGuard` over the regenerated registration order.

import (
	"encoding/json"
	"errors"
	"fmt"
	"math/rand"
	"sort"
	"strings"

	"gorm.io/gorm"
	"gorm.io/gorm/clause"
)

const c09F33 = "F33-C09-associations-before-guard"

type c09AssocCase struct {
	Op     string   `json:"op"`                    // update | delete
	Form   string   `json:"form"`                  // update: updates-self | model-update | model-updates-map | model-updatecolumn ; delete: delete
	Assocs []string `json:"association_values"`    // update: which association fields of the model value are set
	Select []string `json:"select,omitempty"`      // Select(..) arguments
	Omit   []string `json:"omit,omitempty"`        // Omit(..) arguments
	Unsc   bool     `json:"unscoped,omitempty"`
	Full   bool     `json:"full_save_associations,omitempty"`
	Mode   string   `json:"tx_mode,omitempty"` // "" | skip-session | skip-config | begin | transaction | connection | prepare
}

var c09AssocModes = []string{"", "", "skip-session", "skip-config", "begin", "transaction", "connection", "prepare", "skiphooks", "context"}

func c09AssocUser(assocs []string) *RUser {
	u := &RUser{}
	for _, a := range assocs {
		switch a {
		case "Company":
			u.Company = &RCompany{Name: "acme"}
		case "Company(keyed)":
			u.Company = &RCompany{ID: 77, Name: "acme77"}
		case "Profile":
			u.Profile = &RProfile{Bio: "bio"}
		case "Pets":
			u.Pets = []RPet{{Name: "rex"}}
		case "Langs":
			u.Langs = []RLang{{Code: "xx", Name: "xx"}}
		case "Toys":
			u.Toys = []RToy{{Name: "ball"}}
		}
	}
	return u
}

// c09AssocExpected: the part of the input the association callbacks look at (Model/AssocGuard.lean AssocInput)
func c09AssocExpected(c c09AssocCase) (belongsTo, m2m int) {
	has := func(l []string, x string) bool {
		for _, y := range l {
			if y == x {
				return true
			}
		}
		return false
	}
	if c.Op == "update" {
		n := 0
		for _, a := range c.Assocs {
			if strings.HasPrefix(a, "Company") {
				n = 1
			}
		}
		// Select/Omit: an association is saved unless it is omitted, or a Select list exists that does not name it
		if has(c.Omit, clause.Associations) || has(c.Omit, "Company") {
			n = 0
		}
		if len(c.Select) > 0 && !has(c.Select, "Company") && !has(c.Select, clause.Associations) && !has(c.Select, "*") {
			n = 0
		}
		return n, 0
	}
	if has(c.Select, "Langs") || has(c.Select, clause.Associations) {
		return 0, 1
	}
	return 0, 0
}

type c09AssocObs struct {
	Rejected bool     `json:"rejected"`
	Err      string   `json:"error"`
	Sent     []string `json:"statements_sent"`
	MainSent bool     `json:"main_statement_sent"`
	Changed  []string `json:"tables_changed"`
}

func c09AssocExec(c c09AssocCase) c09AssocObs {
	db, rec := openRel(&gorm.Config{SkipDefaultTransaction: c.Mode == "skip-config", NowFunc: fixedNowFunc})
	if sqlDB, err := db.DB(); err == nil {
		defer sqlDB.Close()
	}
	seedRel(db, rand.New(rand.NewSource(5)), 3)
	before := dumpTables(db, rec)
	sess := &gorm.Session{SkipDefaultTransaction: c.Mode == "skip-session", PrepareStmt: c.Mode == "prepare", FullSaveAssociations: c.Full}
	c09ModeSession(c.Mode, sess)
	h := db.Session(sess)
	rec.Reset()
	body := func(h *gorm.DB) *gorm.DB {
		if c.Unsc {
			h = h.Unscoped()
		}
		if len(c.Select) > 0 {
			args := []interface{}{}
			for _, s := range c.Select[1:] {
				args = append(args, s)
			}
			h = h.Select(c.Select[0], args...)
		}
		if len(c.Omit) > 0 {
			h = h.Omit(c.Omit...)
		}
		u := c09AssocUser(c.Assocs)
		switch c.Form {
		case "updates-self":
			u.Name = "renamed"
			return h.Updates(u)
		case "model-update":
			return h.Model(u).Update("name", "renamed")
		case "model-updates-map":
			return h.Model(u).Updates(map[string]interface{}{"name": "renamed"})
		case "model-updatecolumn":
			return h.Model(u).UpdateColumn("name", "renamed")
		}
		return h.Delete(&RUser{})
	}
	var res *gorm.DB
	switch c.Mode {
	case "begin":
		tx := h.Begin()
		res = body(tx)
		tx.Commit()
	case "transaction":
		h.Transaction(func(tx *gorm.DB) error {
			res = body(tx)
			return nil
		})
	default:
		var ok bool
		if res, ok = c09ModeRun(c.Mode, h, body); !ok {
			res = body(h)
		}
	}
	o := c09AssocObs{Sent: []string{}, Changed: []string{}}
	for _, e := range rec.Snapshot() {
		if !isExecEvent(e) || e.Kind == "prepare" {
			continue
		}
		q := strings.TrimSpace(e.SQL)
		uq := strings.ToUpper(q)
		if strings.HasPrefix(uq, "SAVEPOINT") || strings.HasPrefix(uq, "ROLLBACK TO") || strings.HasPrefix(uq, "RELEASE") {
			continue
		}
		o.Sent = append(o.Sent, q)
		if strings.HasPrefix(q, "UPDATE `r_users`") || strings.HasPrefix(q, "DELETE FROM `r_users`") {
			o.MainSent = true
		}
	}
	after := dumpTables(db, rec)
	for t, rows := range before {
		if fmt.Sprint(rows) != fmt.Sprint(after[t]) {
			o.Changed = append(o.Changed, t)
		}
	}
	sort.Strings(o.Changed)
	o.Rejected = errors.Is(res.Error, gorm.ErrMissingWhereClause)
	if res.Error != nil {
		o.Err = res.Error.Error()
	}
	return o
}

func c09AssocJudge(r *Result, c c09AssocCase, o c09AssocObs) {
	mainChanged := false
	for _, t := range o.Changed {
		if t == "r_users" {
			mainChanged = true
		}
	}
	if !o.Rejected || o.MainSent || mainChanged {
		r.Violate(Violation{Kind: "e2e", Suite: "assoc", Input: c, Observed: o,
			Expected: "ErrMissingWhereClause; the UPDATE / DELETE on r_users is never sent; r_users unchanged (no condition, key-less model value)"})
		return
	}
	if len(o.Sent) == 0 && len(o.Changed) == 0 {
		r.H("assoc.outcome", "refused, nothing sent")
		return
	}
	bt, m2m := c09AssocExpected(c)
	if bt+m2m > 0 && listed(c09F33) {
		persisted := "rolled back"
		if len(o.Changed) > 0 {
			persisted = "PERSISTED in " + strings.Join(o.Changed, ",")
		}
		r.H("assoc.outcome", "F33: association statement(s) sent before the refusal, "+persisted)
		r.KnownFinding(c09F33, "association statements run before the missing-WHERE guard refuses the main statement ("+c.Op+"): "+trunc(strings.Join(o.Sent, " ; "), 90))
		return
	}
	r.Violate(Violation{Kind: "e2e", Suite: "assoc", Input: c, Observed: o,
		Expected: "a refused Update/Delete executes no statement (at most an EMPTY implicit transaction that is rolled back) and changes no row"})
}

func init() {
	register("C09", func(r *Result, rng *rand.Rand, tier string) {
		n := map[string]int{"quick": 260, "thorough": 4000, "search": 600}[tier]
		var ops [][]interface{}
		type pending struct {
			c c09AssocCase
			o c09AssocObs
		}
		var pend []pending
		run := func(c c09AssocCase) {
			o := c09AssocExec(c)
			r.Case("assoc", fmt.Sprint(c), true)
			r.H("assoc.form", c.Op+"/"+c.Form)
			r.H("assoc.txmode", "mode="+c.Mode)
			c09AssocJudge(r, c, o)
			bt, m2m := c09AssocExpected(c)
			ops = append(ops, []interface{}{"c09.sentbefore", c.Op, bt, m2m})
			pend = append(pend, pending{c, o})
		}
		// the listed witnesses first (per-run probe of F33), literally
		for _, w := range c09AssocWitnesses {
			run(w)
		}
		assocs := []string{"Company", "Company(keyed)", "Profile", "Pets", "Langs", "Toys"}
		forms := []string{"updates-self", "model-update", "model-updates-map", "model-updatecolumn"}
		rels := []string{"Langs", "Pets", "Profile", "Toys", "Company", clause.Associations}
		for i := 0; i < n && !expired(); i++ {
			c := c09AssocCase{Mode: c09AssocModes[rng.Intn(len(c09AssocModes))], Unsc: rng.Intn(5) == 0}
			avoid := listed(c09F33) && rng.Intn(3) > 0 // most cases stay outside the listed pattern
			if rng.Intn(2) == 0 {
				c.Op, c.Form = "update", forms[rng.Intn(len(forms))]
				c.Full = rng.Intn(6) == 0
				for _, a := range assocs {
					if rng.Intn(3) == 0 && !(avoid && strings.HasPrefix(a, "Company")) {
						if a == "Company(keyed)" && len(c.Assocs) > 0 && c.Assocs[len(c.Assocs)-1] == "Company" {
							continue
						}
						c.Assocs = append(c.Assocs, a)
					}
				}
				switch rng.Intn(6) {
				case 0:
					c.Omit = []string{clause.Associations}
				case 1:
					c.Omit = []string{"Company"}
				case 2:
					if c.Form != "updates-self" {
						c.Select = []string{"name"}
					}
				case 3:
					if c.Form != "updates-self" {
						c.Select = []string{"name", "Company"}
					}
				}
			} else {
				c.Op, c.Form = "delete", "delete"
				for _, s := range rels {
					if rng.Intn(3) == 0 && !(avoid && (s == "Langs" || s == clause.Associations)) {
						c.Select = append(c.Select, s)
					}
				}
			}
			run(c)
		}
		if res, err := AskLean(ops); err != nil {
			r.Violate(Violation{Kind: "correspondence", Suite: "assoc", Note: err.Error()})
		} else {
			for i, p := range pend {
				var want int
				if json.Unmarshal(res[i], &want) != nil {
					r.Violate(Violation{Kind: "correspondence", Suite: "assoc", Input: p.c, Observed: string(res[i]), Note: "model rejected the input"})
					continue
				}
				r.CorrCompared++
				if want != len(p.o.Sent) {
					r.Violate(Violation{Kind: "correspondence", Suite: "assoc", Input: p.c, Observed: p.o, Expected: want,
						Note: "statements sent before the refusal differ from Lean sentBeforeGuard (regenerated registration order of the update/delete pipeline)"})
				}
			}
		}
	})

	replayers["C09/assoc"] = func(r *Result, input json.RawMessage) {
		var c c09AssocCase
		if json.Unmarshal(input, &c) == nil {
			c09AssocJudge(r, c, c09AssocExec(c))
		}
	}
}

// c09AssocWitnesses: the witnesses listed in known_findings.d/C09.json (F33), probed on every run
var c09AssocWitnesses = []c09AssocCase{
	// db.Session(&gorm.Session{SkipDefaultTransaction: true}).Updates(&RUser{Name: "renamed", Company: &RCompany{Name: "acme"}})
	{Op: "update", Form: "updates-self", Assocs: []string{"Company"}, Mode: "skip-session"},
	// db.Model(&RUser{Company: &RCompany{Name: "acme"}}).Update("name", "renamed")   (implicit transaction: rolled back)
	{Op: "update", Form: "model-update", Assocs: []string{"Company"}},
	// db.Select("Langs").Delete(&RUser{})
	{Op: "delete", Form: "delete", Select: []string{"Langs"}},
}
