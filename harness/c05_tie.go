package main

// C05 correspondence suites for Model/TxFault.lean:
//   tx-callbacks  the real callbacks.BeginTransaction / callbacks.CommitOrRollbackTransaction (with the real
//                 DB.Begin / DB.Commit / DB.Rollback / AddError underneath) run on a scripted ConnPool whose
//                 BeginTx / Commit / Rollback return chosen error VALUES; compared with beginTransaction /
//                 commitOrRollback of the model: resulting db.Error text (nil vs non-nil, joined texts), the
//                 started flag, whether the statement runs on the transaction afterwards, the pool calls made.
//   tx-trace      real write operations on SQLite behind the recording driver with an injected error value at
//                 every driver call: trace of BEGIN / statements / COMMIT / ROLLBACK (with failure marks) and the
//                 error text, compared with runWrite of the model.

import (
	"context"
	"database/sql"
	"database/sql/driver"
	"encoding/json"
	"fmt"
	"math/rand"
	"reflect"
	"strings"

	"gorm.io/gorm"
	"gorm.io/gorm/callbacks"
)

type c05FakeBase struct{}

func (c05FakeBase) PrepareContext(ctx context.Context, query string) (*sql.Stmt, error) {
	return nil, fmt.Errorf("c05 fake pool: no statements")
}
func (c05FakeBase) ExecContext(ctx context.Context, query string, args ...interface{}) (sql.Result, error) {
	return nil, fmt.Errorf("c05 fake pool: no statements")
}
func (c05FakeBase) QueryContext(ctx context.Context, query string, args ...interface{}) (*sql.Rows, error) {
	return nil, fmt.Errorf("c05 fake pool: no statements")
}
func (c05FakeBase) QueryRowContext(ctx context.Context, query string, args ...interface{}) *sql.Row {
	return nil
}

// c05FakeTx: a transaction pool (gorm.TxCommitter)
type c05FakeTx struct {
	c05FakeBase
	log                    *[]string
	commitErr, rollbackErr error
}

func mark(e error, s string) string {
	if e != nil {
		return s + "!"
	}
	return s
}
func (t *c05FakeTx) Commit() error   { *t.log = append(*t.log, mark(t.commitErr, "C")); return t.commitErr }
func (t *c05FakeTx) Rollback() error { *t.log = append(*t.log, mark(t.rollbackErr, "R")); return t.rollbackErr }

// c05FakePool: a pool that can begin (gorm.ConnPoolBeginner)
type c05FakePool struct {
	c05FakeBase
	log      *[]string
	beginErr error
}

func (p *c05FakePool) BeginTx(ctx context.Context, opts *sql.TxOptions) (gorm.ConnPool, error) {
	*p.log = append(*p.log, mark(p.beginErr, "B"))
	if p.beginErr != nil {
		return nil, p.beginErr
	}
	return &c05FakeTx{log: p.log}, nil
}

func c05ErrJ(e error) interface{} {
	if e == nil {
		return nil
	}
	return e.Error()
}

type c05TxObs struct {
	Err     interface{} `json:"err"`
	Log     []string    `json:"log"`
	OnTx    bool        `json:"onTx"`
	Open    int         `json:"open"`
	Started bool        `json:"started"`
}

func c05TieSuite(r *Result, rng *rand.Rand, tier string) {
	bases := map[bool]*gorm.DB{}
	for _, skip := range []bool{false, true} {
		db, _, sqlDB := OpenRec(&gorm.Config{SkipDefaultTransaction: skip})
		defer sqlDB.Close()
		bases[skip] = db
	}
	// error values: nil + the alphabet of the fault suite
	vals := []error{nil}
	for _, e := range c05ErrAlphabet {
		vals = append(vals, e.Err)
	}
	type tcase struct {
		in   []interface{}
		real c05TxObs
	}
	var cases []tcase
	inst := func(skip bool) *gorm.DB { return bases[skip].Model(&RUser{}) }
	// --- BeginTransaction ---
	for _, skip := range []bool{false, true} {
		for _, pre := range []error{nil, errInjected, sql.ErrTxDone} {
			modes := []interface{}{"ok", "notBeginner"}
			for _, v := range vals[1:] {
				modes = append(modes, v)
			}
			for _, m := range modes {
				var log []string
				db := inst(skip)
				var br interface{}
				switch x := m.(type) {
				case string:
					br = x
					if x == "ok" {
						db.Statement.ConnPool = &c05FakePool{log: &log}
					} else {
						db.Statement.ConnPool = &c05FakeTx{log: &log} // a transaction: cannot begin
					}
				case error:
					db.Statement.ConnPool = &c05FakePool{log: &log, beginErr: x}
					if x == gorm.ErrInvalidTransaction {
						br = "sentinel"
					} else {
						br = []interface{}{"fail", x.Error()}
					}
				}
				before := db.Statement.ConnPool
				db.Error = pre
				callbacks.BeginTransaction(db)
				_, started := db.InstanceGet("gorm:started_transaction")
				_, onTx := db.Statement.ConnPool.(*c05FakeTx)
				if br == "notBeginner" {
					onTx = db.Statement.ConnPool != before
				}
				open := 0
				if started {
					open = 1
				}
				if log == nil {
					log = []string{}
				}
				cases = append(cases, tcase{[]interface{}{"c05.begin", skip, c05ErrJ(pre), br},
					c05TxObs{Err: c05ErrJ(db.Error), Log: log, OnTx: onTx, Open: open, Started: started}})
				r.H("tie_begin", trunc(fmt.Sprint(br), 12))
			}
		}
	}
	// --- CommitOrRollbackTransaction ---
	for _, skip := range []bool{false, true} {
		for _, started := range []bool{true, false} {
			for _, pre := range []error{nil, errInjected, sql.ErrTxDone, driver.ErrBadConn} {
				for _, ce := range vals {
					for _, re := range []error{nil, errInjected, sql.ErrTxDone, context.Canceled} {
						if pre == nil && re != nil && ce != nil && rng.Intn(3) > 0 {
							continue
						}
						var log []string
						db := inst(skip)
						ftx := &c05FakeTx{log: &log, commitErr: ce, rollbackErr: re}
						db.Statement.ConnPool = ftx
						if started {
							db.InstanceSet("gorm:started_transaction", true)
						}
						db.Error = pre
						callbacks.CommitOrRollbackTransaction(db)
						_, onTx := db.Statement.ConnPool.(*c05FakeTx)
						if !started {
							onTx = false // the model's onTx means "on the transaction opened by BeginTransaction"
						}
						open := 0
						if started && len(log) == 0 {
							open = 1
						}
						if log == nil {
							log = []string{}
						}
						cases = append(cases, tcase{[]interface{}{"c05.finish", skip, started, c05ErrJ(pre), c05ErrJ(ce), c05ErrJ(re)},
							c05TxObs{Err: c05ErrJ(db.Error), Log: log, OnTx: onTx, Open: open, Started: started}})
						r.H("tie_finish", fmt.Sprintf("skip=%v started=%v pre=%v commitErr=%v rollbackErr=%v", skip, started, pre != nil, ce != nil, re != nil))
					}
				}
			}
		}
	}
	var ops [][]interface{}
	for _, c := range cases {
		ops = append(ops, c.in)
	}
	outs, err := AskLean(ops)
	if err != nil {
		r.Violate(Violation{Kind: "correspondence", Suite: "tx-callbacks", Note: err.Error()})
		return
	}
	for i, c := range cases {
		r.CorrCompared++
		r.Case("tx-callbacks", canon(c.in), true)
		real := canon(c.real)
		if real != canonRaw(outs[i]) {
			r.Violate(Violation{Kind: "correspondence", Suite: "tx-callbacks", Input: c.in, Observed: real, Expected: canonRaw(outs[i]),
				Note: "real callbacks/transaction.go + DB.Begin/Commit/Rollback/AddError on a scripted ConnPool vs Model/TxFault.lean"})
		}
	}
}

// ---- tx-trace ---------------------------------------------------------------------------------------------

func c05TraceOf(evs []Event) []string {
	out := []string{}
	for _, e := range evs {
		t := ""
		switch e.Kind {
		case "begin":
			t = "B"
		case "commit":
			t = "C"
		case "rollback":
			t = "R"
		case "exec", "query":
			t = "S"
		default:
			continue
		}
		if e.Err != "" {
			t += "!"
		}
		out = append(out, t)
	}
	return out
}

// c05CollapseErr: a nested (association) operation's error is handed to AddError again at every nesting level, so
// the outermost text is "e; e; …"; the model describes one level: collapse a join of identical parts
func c05CollapseErr(e error) interface{} {
	if e == nil {
		return nil
	}
	parts := strings.Split(e.Error(), "; ")
	for _, p := range parts {
		if p != parts[0] {
			return e.Error()
		}
	}
	return parts[0]
}

func c05TraceSuite(r *Result, rng *rand.Rand, tier string) {
	graphs := 3
	if tier == "thorough" {
		graphs = 40
	}
	type tcase struct {
		sc   c05Scenario
		in   []interface{}
		real map[string]interface{}
	}
	var cases []tcase
	for g := 0; g < graphs && !expired(); g++ {
		for _, op := range c05Ops() {
			seed := rng.Int63()
			where := []string{"plain", "ctx"}[g%2]
			pevs, applied, perr := c05Probe(op, seed, where)
			if perr != nil {
				continue
			}
			shape := c05TraceOf(pevs)
			// the model's runWrite describes ONE implicit transaction: B S… C
			okShape := len(shape) >= 2 && shape[0] == "B" && shape[len(shape)-1] == "C"
			for i := 1; i < len(shape)-1; i++ {
				if shape[i] != "S" {
					okShape = false
				}
			}
			if !okShape {
				r.H("trace_shape_skipped", op.Name)
				continue
			}
			w := c05Build(op, seed, where)
			dump0 := w.dump()
			for k := range pevs {
				ne := c05ErrAlphabet[rng.Intn(len(c05ErrAlphabet))]
				if k == 0 || k == len(pevs)-1 || rng.Intn(3) == 0 {
					// BEGIN, COMMIT: prefer the values code is most tempted to special-case
					ne = c05ErrAlphabet[[]int{0, 1, 2, 5, 6, 7, 9, 14, 21}[rng.Intn(9)]]
				}
				if ne.Err == driver.ErrBadConn || (k == 0 && ne.Err == gorm.ErrInvalidTransaction) || ne.Err.Error() == "" {
					continue // the recorder marks a failed event by its non-empty error text; retried by database/sql / treated as "inside a transaction" (see c05ErrsFor)
				}
				sc := c05Scenario{Op: op.Name, Seed: seed, Where: where, Mech: "inject", Err: ne.Name, At: k}
				o := c05RunOne(w, sc, dump0, applied)
				if !o.Hit {
					continue
				}
				var br interface{} = "ok"
				es := []interface{}{}
				var ce interface{}
				for i := 1; i < len(pevs)-1; i++ {
					if i == k {
						es = append(es, ne.Err.Error())
					} else {
						es = append(es, nil)
					}
				}
				if k == 0 {
					br = []interface{}{"fail", ne.Err.Error()}
				}
				if k == len(pevs)-1 {
					ce = ne.Err.Error()
				}
				cases = append(cases, tcase{sc, []interface{}{"c05.run", false, br, es, ce, nil},
					map[string]interface{}{"err": c05CollapseErr(o.Err), "log": c05TraceOf(o.Events), "open": o.OpenTx}})
				switch {
				case k == 0:
					r.H("trace_fault_pos", "begin")
				case k == len(pevs)-1:
					r.H("trace_fault_pos", "commit")
				default:
					r.H("trace_fault_pos", "statement")
				}
				if o.Verdict != "" || !reflect.DeepEqual(dump0, o.Dump) {
					w.Close()
					w = c05Build(op, seed, where)
					dump0 = w.dump()
				}
			}
			w.Close()
		}
	}
	var ops [][]interface{}
	for _, c := range cases {
		ops = append(ops, c.in)
	}
	outs, err := AskLean(ops)
	if err != nil {
		r.Violate(Violation{Kind: "correspondence", Suite: "tx-trace", Note: err.Error()})
		return
	}
	for i, c := range cases {
		r.CorrCompared++
		r.Case("tx-trace", fmt.Sprint(c.sc.Op, c.sc.At, c.sc.Err), true)
		var m struct {
			Err  interface{} `json:"err"`
			Log  []string    `json:"log"`
			Open int64       `json:"open"`
		}
		if jerr := json.Unmarshal(outs[i], &m); jerr != nil {
			r.Violate(Violation{Kind: "correspondence", Suite: "tx-trace", Input: c.sc, Note: "model answer: " + string(outs[i])})
			continue
		}
		model := canon(map[string]interface{}{"err": m.Err, "log": m.Log, "open": m.Open})
		real := canon(c.real)
		if real != model {
			r.Violate(Violation{Kind: "correspondence", Suite: "tx-trace", Input: c.sc, Observed: real, Expected: model,
				Note: "BEGIN/statement/COMMIT/ROLLBACK trace and error text of the real operation vs runWrite (Model/TxFault.lean)"})
		}
	}
}

func init() {
	register("C05", c05TieSuite)
	register("C05", c05TraceSuite)
	replayers["C05/tx-trace"] = c05ReplayFault
	replayers["C05/tx-callbacks"] = func(r *Result, input json.RawMessage) {
		r.Note("tx-callbacks replays are correspondence-only: rerun the suite")
	}
	replayers["C05/pipeline-order"] = func(r *Result, input json.RawMessage) {
		r.Note("pipeline-order replays are correspondence-only: rerun the suite")
	}
}
