package main

// C19 end-to-end oracle over operation families x handle derivations x configurations.
//
// One case = (configuration, operation, derivation, data variant k, late).  The operation is run
//   1. on a DryRun SESSION handle            (late: the derivation is applied BEFORE DryRun is switched on)
//   2. on a handle opened with Config.DryRun ("by configuration")
//   3. inside DB.ToSQL
//   4. for real, inside an explicit transaction that is rolled back (restores the data)
// each time on fresh data built from k, behind the recording driver.
//
// Judged (only what the property text states):
//   S1  runs 1+2: no prepare / exec / query event (begin/commit/rollback are permitted: "a write may still open and
//       commit an empty implicit transaction"; an explicit user transaction is the user's own driver call)
//   S2  run 3: no driver event at all.  An explicit user transaction inside the callback (derivations `transaction`,
//       `begin`) that sends begin + commit/rollback and no statement is the pattern of finding F25: reported as
//       KNOWN-FINDING while that entry is listed, an ordinary VIOLATION once it is marked fixed (the case is then
//       judged like every other one: silent, and E1/E2 on the statement of the inner finisher).
//   E1  runs 1, 2, 3 expose the same statement (ToSQL's string is Explain of run 1's SQL/Vars)
//   E2  the exposed SQL/Vars equal the MAIN statement of run 4: among the statements run 4 sent with the same verb and
//       table as the exposed one (association upserts, hook statements, preloads come before/after it) one must be equal
//       in text and in normalised bound values.  Latitudes: a real run that failed before sending is not compared;
//       compound finishers whose real run legitimately takes another branch (FirstOrCreate) are compared only when a
//       candidate exists (Must=false).

import (
	"database/sql/driver"
	"encoding/json"
	"fmt"
	"math/rand"
	"reflect"
	"regexp"
	"strings"
	"time"

	"gorm.io/gorm"
)

type c19Spec struct {
	Cfg   string `json:"cfg"`
	Op    string `json:"op"`
	Deriv string `json:"deriv"`
	K     int    `json:"k"`
	Late  bool   `json:"late"`
}

type c19Stmt struct {
	Kind string   `json:"kind"`
	SQL  string   `json:"sql"`
	Args []string `json:"args"`
}

type c19RunObs struct {
	Events  []string  `json:"events"`
	Stmts   []c19Stmt `json:"stmts,omitempty"`
	HasRes  bool      `json:"has_res"`
	SQL     string    `json:"sql"`
	Vars    []string  `json:"vars"`
	Explain string    `json:"explain,omitempty"`
	Err     string    `json:"err,omitempty"`
	Panic   string    `json:"panic,omitempty"`
}

type c19CaseObs struct {
	Session c19RunObs `json:"session"`
	Config  c19RunObs `json:"config"`
	ToSQL   c19RunObs `json:"tosql"`
	Real    c19RunObs `json:"real"`
}

func c19NormArg(v interface{}) string {
	if v == nil {
		return "nil"
	}
	if vl, ok := v.(driver.Valuer); ok {
		rv := reflect.ValueOf(v)
		if rv.Kind() == reflect.Ptr && rv.IsNil() {
			return "nil"
		}
		x, err := vl.Value()
		if err != nil {
			return "valuer-error"
		}
		return c19NormArg(x)
	}
	rv := reflect.ValueOf(v)
	for rv.Kind() == reflect.Ptr {
		if rv.IsNil() {
			return "nil"
		}
		rv = rv.Elem()
	}
	if t, ok := rv.Interface().(time.Time); ok {
		return "t:" + t.UTC().Format(time.RFC3339Nano)
	}
	switch rv.Kind() {
	case reflect.Int, reflect.Int8, reflect.Int16, reflect.Int32, reflect.Int64:
		return fmt.Sprint("i:", rv.Int())
	case reflect.Uint, reflect.Uint8, reflect.Uint16, reflect.Uint32, reflect.Uint64:
		return fmt.Sprint("i:", rv.Uint())
	case reflect.String:
		return "s:" + rv.String()
	case reflect.Bool:
		return fmt.Sprint("B:", rv.Bool())
	case reflect.Float32, reflect.Float64:
		return fmt.Sprint("f:", rv.Float())
	case reflect.Slice:
		if rv.Type().Elem().Kind() == reflect.Uint8 {
			return "b:" + string(rv.Bytes())
		}
	}
	return fmt.Sprintf("?:%T:%v", v, v)
}

func c19NormArgs(vs []interface{}) []string {
	out := make([]string, len(vs))
	for i, v := range vs {
		out[i] = c19NormArg(v)
	}
	return out
}

var c19TblRe = regexp.MustCompile("(?is)^\\s*(INSERT\\s+INTO|UPDATE|DELETE\\s+FROM|SELECT\\b.*?\\bFROM)\\s+[`\"]?([A-Za-z0-9_]+)")

// c19VerbTable: ("INSERT", "c19_docs") ...; ("", "") if unrecognised
func c19VerbTable(sqlText string) (string, string) {
	m := c19TblRe.FindStringSubmatch(sqlText)
	if m == nil {
		return "", ""
	}
	return strings.ToUpper(strings.Fields(m[1])[0]), strings.ToLower(m[2])
}

func c19IsStmtKind(k string) bool {
	return k == "exec" || k == "query" || k == "stmt_exec" || k == "stmt_query"
}

func c19Collect(w *c19World, res *gorm.DB, real bool) (o c19RunObs) {
	es := w.rec.Snapshot()
	o.Events = evKinds(es)
	if real {
		for _, e := range es {
			if c19IsStmtKind(e.Kind) && !isTxEvent(e) && !strings.HasPrefix(strings.ToUpper(strings.TrimSpace(e.SQL)), "SAVEPOINT") {
				o.Stmts = append(o.Stmts, c19Stmt{Kind: e.Kind, SQL: e.SQL, Args: c19NormArgs(e.Args)})
			}
		}
	}
	if res != nil {
		o.HasRes = true
		if res.Statement != nil {
			o.SQL = res.Statement.SQL.String()
			o.Vars = c19NormArgs(res.Statement.Vars)
			if !real {
				o.Explain = w.db.Dialector.Explain(o.SQL, res.Statement.Vars...)
			}
		}
		if res.Error != nil {
			o.Err = res.Error.Error()
		}
	}
	return
}

func c19Guard(o *c19RunObs, f func()) {
	defer func() {
		if p := recover(); p != nil {
			o.Panic = fmt.Sprint(p)
			if len(o.Panic) > 200 {
				o.Panic = o.Panic[:200]
			}
		}
	}()
	f()
}

func c19RunCase(w *c19World, op c19Op, dv c19Deriv, k int, late bool) (obs c19CaseObs) {
	dryOn := func(h *gorm.DB) *gorm.DB { return h.Session(&gorm.Session{DryRun: true}) }
	// 1. DryRun session
	{
		var res *gorm.DB
		var pan c19RunObs
		w.rec.Reset()
		c19Guard(&pan, func() {
			if late {
				dv.Wrap(w.db, func(h *gorm.DB) { res = op.Run(dryOn(h), k) })
			} else {
				dv.Wrap(dryOn(w.db), func(h *gorm.DB) { res = op.Run(h, k) })
			}
		})
		obs.Session = c19Collect(w, res, false)
		obs.Session.Panic = pan.Panic
	}
	// 2. DryRun by configuration
	{
		var res *gorm.DB
		var pan c19RunObs
		w.rec.Reset()
		c19Guard(&pan, func() { dv.Wrap(w.dry, func(h *gorm.DB) { res = op.Run(h, k) }) })
		obs.Config = c19Collect(w, res, false)
		obs.Config.Panic = pan.Panic
	}
	// 3. ToSQL
	{
		var res *gorm.DB
		var pan c19RunObs
		var str string
		w.rec.Reset()
		c19Guard(&pan, func() {
			str = w.db.ToSQL(func(tx *gorm.DB) *gorm.DB {
				dv.Wrap(tx, func(h *gorm.DB) { res = op.Run(h, k) })
				if res == nil {
					return tx
				}
				return res
			})
		})
		obs.ToSQL = c19Collect(w, res, false)
		obs.ToSQL.Explain = str
		obs.ToSQL.Panic = pan.Panic
	}
	// 4. real, rolled back
	{
		var res *gorm.DB
		var pan c19RunObs
		tx := w.db.Begin()
		w.rec.Reset()
		c19Guard(&pan, func() { dv.Wrap(tx, func(h *gorm.DB) { res = op.Run(h, k) }) })
		obs.Real = c19Collect(w, res, true)
		obs.Real.Panic = pan.Panic
		tx.Rollback()
		w.rec.Reset()
	}
	return
}

type c19Verdict struct {
	Msg      string
	Finding  string // id of the known-finding pattern this verdict falls under ("" = none)
	Compared bool   // E2 was decided on a real main statement
}

// c19Batched: does the op go through finisher_api.go's batch loops (pattern of finding F26)?
func c19Batched(op, cfg string) bool {
	switch op {
	case "create_in_batches_multi", "create_in_batches_single", "create_batchsize_session", "find_in_batches":
		return true
	case "create_slice_doc", "create_slice_ptr_plain", "create_maps_plain":
		return cfg == "batch2"
	}
	return false
}

func c19Judge(op c19Op, dv c19Deriv, cfg string, obs *c19CaseObs) (vs []c19Verdict) {
	bad := func(f string, a ...interface{}) { vs = append(vs, c19Verdict{Msg: fmt.Sprintf(f, a...)}) }
	if c19Batched(op.Name, cfg) {
		// finding F26: the handle a batched finisher returns never built the batches' statements (it shows nothing, or
		// the SAVEPOINT of the batch wrapper inside a transaction): every E1/E2 verdict of these ops is in its pattern
		defer func() {
			for i := range vs {
				if vs[i].Msg != "" && !strings.Contains(vs[i].Msg, "driver") {
					vs[i].Finding = c19FBatchEmpty
				}
			}
		}()
	}
	// S1
	for _, r := range []struct {
		n string
		o *c19RunObs
	}{{"DryRun session", &obs.Session}, {"DryRun config", &obs.Config}} {
		for _, e := range r.o.Events {
			if e != "begin" && e != "commit" && e != "rollback" {
				bad("%s run reached the driver: %v", r.n, r.o.Events)
				break
			}
		}
	}
	// S2
	if len(obs.ToSQL.Events) != 0 {
		stmt := false
		for _, e := range obs.ToSQL.Events {
			if e != "begin" && e != "commit" && e != "rollback" {
				stmt = true
			}
		}
		if dv.Explicit && !stmt {
			vs = append(vs, c19Verdict{Msg: fmt.Sprintf("ToSQL made driver calls %v (explicit user transaction inside the ToSQL callback)", obs.ToSQL.Events), Finding: c19FExplicitTx})
		} else {
			bad("ToSQL made driver calls: %v", obs.ToSQL.Events)
		}
	}
	if !op.Judge || !obs.Session.HasRes || obs.Session.Panic != "" {
		return
	}
	// E1
	if obs.Config.HasRes && obs.Config.Panic == "" && (obs.Config.SQL != obs.Session.SQL || !reflect.DeepEqual(obs.Config.Vars, obs.Session.Vars)) {
		bad("DryRun by configuration exposes another statement than a DryRun session")
	}
	if obs.ToSQL.HasRes && obs.ToSQL.Panic == "" && obs.ToSQL.Explain != obs.Session.Explain {
		bad("ToSQL returns another statement than the DryRun session exposes")
	}
	// E2
	real := &obs.Real
	if real.Panic != "" {
		return
	}
	if obs.Session.SQL == "" {
		if op.Must && len(real.Stmts) > 0 && obs.Session.Err == "" {
			v := c19Verdict{Msg: "DryRun exposes no statement although the real run sends " + real.Stmts[0].SQL}
			if c19Batched(op.Name, cfg) {
				v.Finding = c19FBatchEmpty
			}
			vs = append(vs, v)
		}
		return
	}
	verb, tbl := c19rVerbTable(obs.Session.SQL) // leading white space and comments skipped
	var cands []c19Stmt
	for _, s := range real.Stmts {
		v2, t2 := c19rVerbTable(s.SQL)
		if verb != "" && v2 == verb && t2 == tbl {
			cands = append(cands, s)
		}
	}
	if len(cands) == 0 {
		if op.Must && real.Err == "" && len(real.Stmts) > 0 {
			bad("the real run sent no %s on %s; DryRun exposed %q", verb, tbl, obs.Session.SQL)
		}
		return
	}
	var sameText *c19Stmt
	for i := range cands {
		c := &cands[i]
		if c.SQL == obs.Session.SQL {
			if reflect.DeepEqual(c.Args, obs.Session.Vars) || (len(c.Args) == 0 && len(obs.Session.Vars) == 0) {
				vs = append(vs, c19Verdict{Compared: true})
				return
			}
			if sameText == nil {
				sameText = c
			}
		}
	}
	if sameText != nil {
		vs = append(vs, c19Verdict{Compared: true, Msg: fmt.Sprintf("DryRun bound values %v differ from the values sent for real %v (%s)", obs.Session.Vars, sameText.Args, sameText.SQL)})
		return
	}
	vs = append(vs, c19Verdict{Compared: true, Msg: fmt.Sprintf("DryRun statement %q differs from the main statement sent for real %q", obs.Session.SQL, cands[len(cands)-1].SQL)})
	return
}

const (
	c19FExplicitTx = "F25-C19-tosql-explicit-transaction"
	c19FBatchEmpty = "F26-C19-batched-create-exposes-nothing"
)

var c19Worlds = map[string]*c19World{}

func c19WorldOf(cfg string) *c19World {
	if w, ok := c19Worlds[cfg]; ok {
		return w
	}
	w := c19Open(cfg)
	c19Worlds[cfg] = w
	return w
}

func c19Eval(r *Result, spec c19Spec, ops map[string]c19Op, dvs map[string]c19Deriv) {
	op, ok1 := ops[spec.Op]
	dv, ok2 := dvs[spec.Deriv]
	if !ok1 || !ok2 {
		r.Note("unknown op/deriv in spec %+v", spec)
		return
	}
	w := c19WorldOf(spec.Cfg)
	obs := c19RunCase(w, op, dv, spec.K, spec.Late)
	vs := c19Judge(op, dv, spec.Cfg, &obs)
	compared := false
	for _, v := range vs {
		if v.Compared {
			compared = true
		}
	}
	r.Case("ops", spec.Op+"|"+spec.Deriv+"|"+spec.Cfg+"|"+obs.Session.SQL, len(obs.Real.Stmts) > 0)
	r.H("ops_op", spec.Op)
	r.H("ops_deriv", spec.Deriv)
	r.H("ops_cfg", spec.Cfg)
	r.H("ops_main_compared", fmt.Sprint(compared))
	r.H("ops_real_statements", fmt.Sprint(len(obs.Real.Stmts)))
	if len(obs.Session.Events) > 0 {
		r.H("ops_dry_events", strings.Join(obs.Session.Events, ","))
	}
	for _, p := range []string{obs.Session.Panic, obs.Config.Panic, obs.ToSQL.Panic, obs.Real.Panic} {
		if p != "" {
			r.H("ops_panic", spec.Op+"/"+spec.Deriv)
			break
		}
	}
	if op.Judge && obs.Session.HasRes && !compared {
		r.H("ops_not_compared", spec.Op)
	}
	for _, v := range vs {
		if v.Msg == "" {
			continue
		}
		if v.Finding != "" && listed(v.Finding) {
			r.KnownFinding(v.Finding, v.Msg)
			continue
		}
		r.Violate(Violation{Kind: "e2e", Suite: "ops", Input: spec, Observed: obs, Expected: v.Msg})
	}
}

func init() {
	opList := c19Ops()
	dvList := c19Derivs()
	ops := map[string]c19Op{}
	for _, o := range opList {
		ops[o.Name] = o
	}
	dvs := map[string]c19Deriv{}
	for _, d := range dvList {
		dvs[d.Name] = d
	}
	register("C19", func(r *Result, rng *rand.Rand, tier string) {
		// (a) every op x every derivation on the plain configuration
		for _, o := range opList {
			for _, d := range dvList {
				if expired() {
					return
				}
				c19Eval(r, c19Spec{Cfg: "plain", Op: o.Name, Deriv: d.Name, K: rng.Intn(1000), Late: rng.Intn(3) == 0}, ops, dvs)
			}
		}
		// (b) every op x every configuration, random derivation
		for _, o := range opList {
			for _, c := range c19CfgNames[1:] {
				if expired() {
					return
				}
				c19Eval(r, c19Spec{Cfg: c, Op: o.Name, Deriv: dvList[rng.Intn(len(dvList))].Name, K: rng.Intn(1000), Late: rng.Intn(3) == 0}, ops, dvs)
			}
		}
		// (c) random cases
		extra := 1500
		if tier == "thorough" {
			extra = 400000
		} else if tier == "search" {
			extra = 40000
		}
		for i := 0; i < extra && !expired(); i++ {
			c19Eval(r, c19Spec{Cfg: c19CfgNames[rng.Intn(len(c19CfgNames))], Op: opList[rng.Intn(len(opList))].Name,
				Deriv: dvList[rng.Intn(len(dvList))].Name, K: rng.Intn(100000), Late: rng.Intn(3) == 0}, ops, dvs)
		}
	})
	replayers["C19/ops"] = func(r *Result, input json.RawMessage) {
		var spec c19Spec
		if err := json.Unmarshal(input, &spec); err != nil {
			r.Note("bad replay input: %v", err)
			return
		}
		c19Eval(r, spec, ops, dvs)
	}
}
