package main

// C05, hook fault points: "… or a hook inside it fails".  Own models whose every hook reports to c05HookPoint; a plan
// makes the j-th hook invocation of the operation misbehave in one of several ways (c05HookActions).  Judged exactly
// like the driver-call faults: error reported, tables unchanged (including what the hook wrote through its tx
// handle), nothing left open; err == nil only with the fully applied state.

import (
	"context"
	"encoding/json"
	"errors"
	"fmt"
	"math/rand"
	"reflect"
	"strings"
	"sync/atomic"
	"time"

	"gorm.io/gorm"
)

type C05Owner struct {
	ID   uint `gorm:"primaryKey"`
	Name string
}

type C05Item struct {
	ID         uint `gorm:"primaryKey"`
	C05OrderID uint
	Name       string
}

type C05Tag struct {
	Code string `gorm:"primaryKey"`
}

type C05Note struct {
	ID         uint `gorm:"primaryKey"`
	C05OrderID uint
	Text       string
}

type C05Order struct {
	ID         uint `gorm:"primaryKey"`
	Name       string
	Qty        int
	C05OwnerID *uint
	Owner      *C05Owner `gorm:"foreignKey:C05OwnerID"`
	Items      []C05Item
	Note       *C05Note
	Tags       []C05Tag `gorm:"many2many:c05_order_tags"`
}

// C05Audit is written by hooks through their tx handle ("write+err"); Key is unique so that a hook can make one of
// its own statements fail ("failwrite")
type C05Audit struct {
	ID  uint   `gorm:"primaryKey"`
	Key string `gorm:"uniqueIndex"`
}

var c05HookModels = []interface{}{&C05Owner{}, &C05Item{}, &C05Tag{}, &C05Note{}, &C05Order{}, &C05Audit{}}
var c05HookTables = []string{"c05_owners", "c05_items", "c05_tags", "c05_notes", "c05_orders", "c05_order_tags", "c05_audits"}

var c05HookActions = []string{"err", "write+err", "failwrite", "cancel", "cancelwait", "rollback"}

type c05HookPlan struct {
	At     int // hook invocation index that misbehaves (-1: none)
	Action string
	Err    error
	cancel context.CancelFunc
	rec    *Recorder
	n      int
	Hit    bool
	Point  string
	Seen   []string
}

var c05Plan *c05HookPlan

func c05HookPoint(tx *gorm.DB, point string) error {
	p := c05Plan
	if p == nil {
		return nil
	}
	idx := p.n
	p.n++
	p.Seen = append(p.Seen, point)
	if idx != p.At {
		return nil
	}
	p.Hit = true
	p.Point = point
	switch p.Action {
	case "err":
		return p.Err
	case "write+err":
		// what the hook wrote through tx belongs to the operation: it must vanish with it
		if err := tx.Session(&gorm.Session{NewDB: true}).Create(&C05Audit{Key: "audit-" + point}).Error; err != nil {
			return err
		}
		return p.Err
	case "failwrite":
		// one of the hook's own statements fails (unique key "seeded" exists) and the hook passes that on
		_ = p.Err
		return tx.Session(&gorm.Session{NewDB: true}).Create(&C05Audit{Key: "seeded"}).Error
	case "cancel":
		p.cancel()
	case "cancelwait":
		// the request context ends while the hook runs; by the time the hook returns database/sql has already
		// rolled the transaction back, so the COMMIT (or the next statement) fails with sql.ErrTxDone
		p.cancel()
		dl := time.Now().Add(time.Second)
		for atomic.LoadInt64(&p.rec.OpenTx) != 0 && time.Now().Before(dl) {
			time.Sleep(100 * time.Microsecond)
		}
	case "rollback":
		// the hook finishes the operation's transaction itself
		tx.Rollback()
	}
	return nil
}

func (o *C05Order) BeforeSave(tx *gorm.DB) error   { return c05HookPoint(tx, "Order.BeforeSave") }
func (o *C05Order) BeforeCreate(tx *gorm.DB) error { return c05HookPoint(tx, "Order.BeforeCreate") }
func (o *C05Order) AfterCreate(tx *gorm.DB) error  { return c05HookPoint(tx, "Order.AfterCreate") }
func (o *C05Order) AfterSave(tx *gorm.DB) error    { return c05HookPoint(tx, "Order.AfterSave") }
func (o *C05Order) BeforeUpdate(tx *gorm.DB) error { return c05HookPoint(tx, "Order.BeforeUpdate") }
func (o *C05Order) AfterUpdate(tx *gorm.DB) error  { return c05HookPoint(tx, "Order.AfterUpdate") }
func (o *C05Order) BeforeDelete(tx *gorm.DB) error { return c05HookPoint(tx, "Order.BeforeDelete") }
func (o *C05Order) AfterDelete(tx *gorm.DB) error  { return c05HookPoint(tx, "Order.AfterDelete") }

func (o *C05Item) BeforeSave(tx *gorm.DB) error   { return c05HookPoint(tx, "Item.BeforeSave") }
func (o *C05Item) BeforeCreate(tx *gorm.DB) error { return c05HookPoint(tx, "Item.BeforeCreate") }
func (o *C05Item) AfterCreate(tx *gorm.DB) error  { return c05HookPoint(tx, "Item.AfterCreate") }
func (o *C05Item) AfterSave(tx *gorm.DB) error    { return c05HookPoint(tx, "Item.AfterSave") }
func (o *C05Item) BeforeUpdate(tx *gorm.DB) error { return c05HookPoint(tx, "Item.BeforeUpdate") }
func (o *C05Item) AfterUpdate(tx *gorm.DB) error  { return c05HookPoint(tx, "Item.AfterUpdate") }
func (o *C05Item) BeforeDelete(tx *gorm.DB) error { return c05HookPoint(tx, "Item.BeforeDelete") }
func (o *C05Item) AfterDelete(tx *gorm.DB) error  { return c05HookPoint(tx, "Item.AfterDelete") }

func (o *C05Owner) BeforeSave(tx *gorm.DB) error { return c05HookPoint(tx, "Owner.BeforeSave") }
func (o *C05Owner) AfterSave(tx *gorm.DB) error  { return c05HookPoint(tx, "Owner.AfterSave") }

func (o *C05Note) AfterCreate(tx *gorm.DB) error  { return c05HookPoint(tx, "Note.AfterCreate") }
func (o *C05Note) BeforeDelete(tx *gorm.DB) error { return c05HookPoint(tx, "Note.BeforeDelete") }

func c05GenOrder(rng *rand.Rand, tag string) *C05Order {
	o := &C05Order{Name: "o" + tag, Qty: 1 + rng.Intn(9)}
	if rng.Intn(3) > 0 {
		o.Owner = &C05Owner{Name: "w" + tag}
	}
	for i, n := 0, rng.Intn(3); i < n; i++ {
		o.Items = append(o.Items, C05Item{Name: fmt.Sprint("i", tag, i)})
	}
	if rng.Intn(2) == 0 {
		o.Note = &C05Note{Text: "n" + tag}
	}
	for i, n := 0, rng.Intn(3); i < n; i++ {
		o.Tags = append(o.Tags, C05Tag{Code: fmt.Sprint("t", tag, i)})
	}
	return o
}

func c05HookOps() []c05Op {
	loadFirst := func(db *gorm.DB) *C05Order {
		var o C05Order
		if err := db.Preload("Items").Preload("Owner").Preload("Note").Preload("Tags").Order("id").First(&o).Error; err != nil {
			panic(err)
		}
		return &o
	}
	return []c05Op{
		{"HCreate", func(db *gorm.DB, rng *rand.Rand) func(*gorm.DB) error {
			o := c05GenOrder(rng, "a")
			o.Items = append(o.Items, C05Item{Name: "ia"})
			return func(db *gorm.DB) error { c := c05CloneOrder(o); return db.Create(c).Error }
		}},
		{"HCreateSlice", func(db *gorm.DB, rng *rand.Rand) func(*gorm.DB) error {
			a, b := c05GenOrder(rng, "b"), c05GenOrder(rng, "c")
			return func(db *gorm.DB) error { os := []*C05Order{c05CloneOrder(a), c05CloneOrder(b)}; return db.Create(&os).Error }
		}},
		{"HCreateInBatches", func(db *gorm.DB, rng *rand.Rand) func(*gorm.DB) error {
			n, size := 3+rng.Intn(3), 1+rng.Intn(2)
			var os []*C05Order
			for i := 0; i < n; i++ {
				os = append(os, c05GenOrder(rng, fmt.Sprint("d", i)))
			}
			return func(db *gorm.DB) error {
				cp := make([]C05Order, len(os))
				for i := range os {
					cp[i] = *c05CloneOrder(os[i])
				}
				c05NoteBatches(len(cp), size)
				return db.CreateInBatches(&cp, size).Error
			}
		}},
		{"HSaveExistingFull", func(db *gorm.DB, rng *rand.Rand) func(*gorm.DB) error {
			o := loadFirst(db)
			return func(db *gorm.DB) error {
				c := c05CloneOrder(o)
				c.Name += "x"
				c.Items = append(c.Items, C05Item{Name: "newitem"})
				return db.Session(&gorm.Session{FullSaveAssociations: true}).Save(c).Error
			}
		}},
		{"HSaveNew", func(db *gorm.DB, rng *rand.Rand) func(*gorm.DB) error {
			o := c05GenOrder(rng, "g")
			return func(db *gorm.DB) error { c := c05CloneOrder(o); return db.Save(c).Error }
		}},
		{"HUpdatesWithAssoc", func(db *gorm.DB, rng *rand.Rand) func(*gorm.DB) error {
			o := loadFirst(db)
			return func(db *gorm.DB) error {
				c := C05Order{ID: o.ID}
				return db.Model(&c).Updates(C05Order{Qty: 77, Items: []C05Item{{Name: "ni"}}, Owner: &C05Owner{Name: "nw"}}).Error
			}
		}},
		{"HUpdateColumn", func(db *gorm.DB, rng *rand.Rand) func(*gorm.DB) error {
			o := loadFirst(db)
			return func(db *gorm.DB) error { c := C05Order{ID: o.ID}; return db.Model(&c).Update("qty", 5).Error }
		}},
		{"HUpdateMany", func(db *gorm.DB, rng *rand.Rand) func(*gorm.DB) error {
			return func(db *gorm.DB) error {
				return db.Model(&C05Order{}).Where("qty > ?", 0).Updates(map[string]interface{}{"qty": 3}).Error
			}
		}},
		{"HDeleteSelectAssoc", func(db *gorm.DB, rng *rand.Rand) func(*gorm.DB) error {
			o := loadFirst(db)
			return func(db *gorm.DB) error {
				c := C05Order{ID: o.ID}
				return db.Select("Items", "Note", "Tags").Delete(&c).Error
			}
		}},
		{"HDelete", func(db *gorm.DB, rng *rand.Rand) func(*gorm.DB) error {
			o := loadFirst(db)
			return func(db *gorm.DB) error { c := C05Order{ID: o.ID}; return db.Delete(&c).Error }
		}},
	}
}

func c05CloneOrder(o *C05Order) *C05Order {
	b, err := json.Marshal(o)
	if err != nil {
		panic(err)
	}
	var c C05Order
	if err := json.Unmarshal(b, &c); err != nil {
		panic(err)
	}
	return &c
}

func c05HookOpByName(n string) (c05Op, bool) {
	for _, o := range c05HookOps() {
		if o.Name == n {
			return o, true
		}
	}
	return c05Op{}, false
}

func c05BuildHooks(op c05Op, seed int64, where string) *c05World {
	c05Plan = nil
	db, rec, sqlDB, keep := c05OpenDB(where)
	if err := db.AutoMigrate(c05HookModels...); err != nil {
		panic(err)
	}
	rng := rand.New(rand.NewSource(seed))
	c05HookSeed(db, rng)
	w := &c05World{where: where, db: db, rec: rec, sqlDB: sqlDB, keep: keep, tables: c05HookTables}
	w.run = op.Setup(db, rng)
	rec.Reset()
	return w
}

func c05HookSeed(db *gorm.DB, rng *rand.Rand) {
	for i := 0; i < 3; i++ {
		o := c05GenOrder(rng, fmt.Sprint("s", i))
		if i == 0 {
			o.Items = append(o.Items, C05Item{Name: "is"})
		}
		if err := db.Create(o).Error; err != nil {
			panic(err)
		}
	}
	if err := db.Create(&C05Audit{Key: "seeded"}).Error; err != nil {
		panic(err)
	}
}

type c05HookScenario struct {
	Op     string `json:"op"`
	Seed   int64  `json:"graph_seed"`
	Where  string `json:"where"`
	Action string `json:"action"`
	Err    string `json:"err"`
	At     int    `json:"hook_at"`
	Point  string `json:"hook_point,omitempty"`
}

func c05RunHook(w *c05World, sc c05HookScenario, dump0, applied map[string][]string) (o c05Outcome, plan *c05HookPlan) {
	w.rec.Reset()
	ctx, cancel := context.WithCancel(WithMarker(context.Background(), "c05h"))
	defer cancel()
	ne, _ := c05ErrByName(sc.Err)
	plan = &c05HookPlan{At: sc.At, Action: sc.Action, Err: ne.Err, cancel: cancel, rec: w.rec}
	c05Plan = plan
	o.Err = w.exec(ctx)
	c05Plan = nil
	o.OpenTx, o.InUse = w.quiesce()
	o.Events = w.rec.Snapshot()
	o.Hit = plan.Hit
	if !o.Hit {
		return
	}
	o.Dump = w.dump()
	same := reflect.DeepEqual(dump0, o.Dump)
	full := applied != nil && reflect.DeepEqual(applied, o.Dump)
	atomicDemanded := w.where != "skipdefault"
	returnsErr := sc.Action == "err" || sc.Action == "write+err" || sc.Action == "failwrite"
	switch {
	case returnsErr && o.Err == nil:
		o.Verdict = "operation reported no error although hook " + plan.Point + " failed"
	case (sc.Action == "err" || sc.Action == "write+err") && !strings.Contains(o.Err.Error(), ne.Err.Error()):
		o.Verdict = "result error does not mention the hook's error " + sc.Err + ": " + o.Err.Error()
	case atomicDemanded && o.Err != nil && !same:
		o.Verdict = "database changed although the operation failed (hook " + plan.Point + ")"
	case atomicDemanded && o.Err == nil && !full:
		if same {
			o.Verdict = "operation reported success but nothing was stored (its transaction did not commit)"
		} else {
			o.Verdict = "operation reported success but was applied only partially"
		}
	case o.OpenTx != 0:
		o.Verdict = fmt.Sprintf("%d transaction(s) left open", o.OpenTx)
	case o.InUse != 0:
		o.Verdict = fmt.Sprintf("%d connection(s) left checked out", o.InUse)
	}
	return
}

func c05HookProbe(op c05Op, seed int64, where string) (points []string, applied map[string][]string, err error) {
	p := c05BuildHooks(op, seed, where)
	defer p.Close()
	plan := &c05HookPlan{At: -1}
	c05Plan = plan
	err = p.exec(WithMarker(context.Background(), "c05h"))
	c05Plan = nil
	return plan.Seen, p.dump(), err
}

// the handle shapes of the hook suite: "rollback" inside a user transaction / block would end the USER's
// transaction, which is not the operation's to finish – that action is only used with an implicit transaction
var c05HookWheres = []string{"ctx", "translate", "prepare", "usertx", "block", "skipdefault"}

func c05HookSuite(r *Result, rng *rand.Rand, tier string) {
	graphs := 6
	if tier == "thorough" {
		graphs = 80
	} else if tier == "search" {
		graphs = 12
	}
	ops := c05HookOps()
	for g := 0; g < graphs && !expired(); g++ {
		for oi, op := range ops {
			seed := rng.Int63()
			where := c05HookWheres[(g+oi)%len(c05HookWheres)]
			if g == 0 {
				where = "ctx"
			}
			points, applied, perr := c05HookProbe(op, seed, where)
			if perr != nil {
				r.Note("hook probe of %s/%s failed without fault: %v", op.Name, where, perr)
				continue
			}
			r.H("hook_points_per_op", fmt.Sprint(len(points)))
			w := c05BuildHooks(op, seed, where)
			dump0 := w.dump()
			rebuild := func() {
				w.Close()
				w = c05BuildHooks(op, seed, where)
				dump0 = w.dump()
			}
			for j := range points {
				for _, act := range c05HookActions {
					if act == "rollback" && (where == "usertx" || where == "block" || where == "skipdefault") {
						continue
					}
					en := "generic"
					if act == "err" || act == "write+err" {
						if rng.Intn(2) == 0 {
							en = c05ErrAlphabet[1+rng.Intn(len(c05ErrAlphabet)-1)].Name
						}
					}
					sc := c05HookScenario{Op: op.Name, Seed: seed, Where: where, Action: act, Err: en, At: j}
					o, plan := c05RunHook(w, sc, dump0, applied)
					sc.Point = plan.Point
					r.Case("hook", fmt.Sprint(op.Name, where, act, plan.Point, j), o.Hit)
					if !o.Hit {
						r.H("hook_not_reached", op.Name)
						continue
					}
					r.H("hook_op", op.Name)
					r.H("hook_where", where)
					r.H("hook_action", act)
					r.H("hook_point", plan.Point)
					if act == "cancel" || act == "cancelwait" || act == "rollback" {
						switch {
						case o.Err == nil:
							r.H("hook_"+act+"_outcome", "applied")
						case errors.Is(o.Err, context.Canceled):
							r.H("hook_"+act+"_outcome", "context.Canceled")
						default:
							if strings.Contains(o.Err.Error(), "transaction has already been committed or rolled back") {
								r.H("hook_"+act+"_outcome", "sql.ErrTxDone")
							} else {
								r.H("hook_"+act+"_outcome", "other error")
							}
						}
					}
					if (g*17+j)%53 == 0 && act == "err" {
						r.Sample(map[string]interface{}{"input": sc, "events": evKinds(o.Events), "error": fmt.Sprint(o.Err)})
					}
					if o.Verdict != "" {
						r.Violate(Violation{Kind: "e2e", Suite: "hook", Input: sc, Observed: c05Obs(o, dump0), Expected: o.Verdict})
						rebuild()
					} else if !reflect.DeepEqual(dump0, o.Dump) {
						rebuild()
					}
				}
			}
			w.Close()
		}
	}
}

func c05ReplayHook(r *Result, input json.RawMessage) {
	var sc c05HookScenario
	if err := json.Unmarshal(input, &sc); err != nil {
		r.Note("bad replay input: %v", err)
		return
	}
	op, ok := c05HookOpByName(sc.Op)
	if !ok {
		r.Note("unknown op %q", sc.Op)
		return
	}
	_, applied, perr := c05HookProbe(op, sc.Seed, sc.Where)
	if perr != nil {
		r.Note("probe failed: %v", perr)
	}
	w := c05BuildHooks(op, sc.Seed, sc.Where)
	defer w.Close()
	dump0 := w.dump()
	o, _ := c05RunHook(w, sc, dump0, applied)
	r.Case("hook", fmt.Sprint(sc), o.Hit)
	if o.Hit && o.Verdict != "" {
		r.Violate(Violation{Kind: "e2e", Suite: "hook", Input: sc, Observed: c05Obs(o, dump0), Expected: o.Verdict})
	}
}

func init() {
	register("C05", c05HookSuite)
	replayers["C05/hook"] = c05ReplayHook
}
