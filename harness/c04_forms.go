package main

// C04 round 5 — suite "forms": the WRITES inside transaction blocks are not only Create/Update/Delete of one row. Every write
// FORM gorm executes through a different code branch is issued through the handle of a Transaction block / nested block /
// manual Begin sequence / after a SavePoint, and the PROPERTY is judged on what is observable outside gorm:
//
//   * at the recording driver: every INSERT/UPDATE/DELETE/SAVEPOINT/ROLLBACK TO statement issued by the function of a
//     transaction arrives on the transaction's connection INSIDE its driver transaction (connection/tx tagging of c04_conn.go);
//   * the complete table contents (every column of four tables) after the program:
//        block returned an error / panicked / COMMIT failed / manual Rollback  → exactly the contents before;
//        function returned nil and COMMIT succeeded                            → exactly what the SAME forms leave when they
//                                                                                  are run without any transaction (reference run);
//        failed nested block / SavePoint … RollbackTo                          → exactly what the forms OUTSIDE the undone part leave;
//   * the error / panic value that comes back, and that no driver transaction / connection stays checked out;
//   * reads inside the transaction (Rows(), Row(), Find, Preload, FirstOrCreate's lookup, Scan of RETURNING) see the
//     transaction's own earlier writes (a form that does not returns an error of its own: "handle unusable").
//
// Tie: for forms whose statement list is written down below (`Stmts`: which rows each statement inserts / deletes and WHICH
// CALL SITE of callbacks/*.go sends it) the same program runs on Model/TxForms.lean `runFProg` with the pool selector taken
// from the REGENERATED call-site table (extract/gen_c04b.go); compared: kinds of all driver calls, the driver transaction each
// ran in, final row identities, result.
//
// Latitudes: a SELECT that escapes the transaction is not reported by itself (the property speaks about writes) — it shows
// through the read-your-writes forms and through the tie. With an injected fault a run is judged only as far as the property
// goes: a result other than nil ⇒ nothing durable; a nil result of a faulted run is not judged on contents (whether a finisher
// reports a failed statement is property C05's business). DisableNestedTransaction stays off in this suite (nested-undo under
// it is covered by the program-tree suites).

import (
	"context"
	"encoding/json"
	"errors"
	"fmt"
	"math/rand"
	"sort"
	"strings"

	"gorm.io/gorm"
	"gorm.io/gorm/clause"
)

type C04fOwner struct {
	ID   int64 `gorm:"primaryKey;autoIncrement:false"`
	Name string
	V    int64
	Pets []C04fPet `gorm:"foreignKey:OwnerID"`
	Tags []C04fTag `gorm:"many2many:c04f_owner_tags;joinForeignKey:OwnerID;joinReferences:TagID"`
}

type C04fPet struct {
	ID      int64 `gorm:"primaryKey;autoIncrement:false"`
	OwnerID *int64
	Name    string
}

type C04fTag struct {
	ID   int64 `gorm:"primaryKey;autoIncrement:false"`
	Name string
}

func (C04fOwner) TableName() string { return "c04f_owners" }
func (C04fPet) TableName() string   { return "c04f_pets" }
func (C04fTag) TableName() string   { return "c04f_tags" }

// call sites (file, function, method) as they appear in the regenerated table
var (
	c04fCE = []string{"callbacks/create.go", "Create", "ExecContext"}
	c04fCQ = []string{"callbacks/create.go", "Create", "QueryContext"}
	c04fUE = []string{"callbacks/update.go", "Update", "ExecContext"}
	c04fUQ = []string{"callbacks/update.go", "Update", "QueryContext"}
	c04fDE = []string{"callbacks/delete.go", "Delete", "ExecContext"}
	c04fDQ = []string{"callbacks/delete.go", "Delete", "QueryContext"}
	c04fQQ = []string{"callbacks/query.go", "Query", "QueryContext"}
	c04fRE = []string{"callbacks/raw.go", "RawExec", "ExecContext"}
	c04fRQ = []string{"callbacks/row.go", "RowQuery", "QueryContext"}
	c04fRR = []string{"callbacks/row.go", "RowQuery", "QueryRowContext"}
)

// one driver statement of a form for the model: K "W"/"Q"; Ws row effects (+id insert, -id delete, 0 store-neutral)
type c04fStmt struct {
	K    string
	Ws   []int64
	Site []string
}

func c04fW(site []string, ws ...int64) c04fStmt { return c04fStmt{K: "W", Ws: ws, Site: site} }
func c04fQ(site []string) c04fStmt              { return c04fStmt{K: "Q", Site: site} }

func (s c04fStmt) enc() []interface{} {
	if s.K == "Q" {
		return []interface{}{"Q", s.Site[0], s.Site[1], s.Site[2]}
	}
	ws := []interface{}{}
	for _, w := range s.Ws {
		switch {
		case w == 0:
			ws = append(ws, []interface{}{0, 0})
		case w > 0:
			ws = append(ws, []interface{}{1, w})
		default:
			ws = append(ws, []interface{}{2, -w})
		}
	}
	return []interface{}{"W", ws, s.Site[0], s.Site[1], s.Site[2]}
}

var errC04fRead = errors.New("c04f: a read inside the transaction does not see the transaction's own write")

type c04fForm struct {
	Name  string
	Run   func(h *gorm.DB) error
	Stmts []c04fStmt // nil: not compared with the model (end-to-end only)
	// SkipStmts: statement list when SkipDefaultTransaction is on, if different
}

func ip(v int64) *int64 { return &v }

// initial contents: owners 1..5, pets 1,2→o1 3→o2 4,5→o3, tags 1..3, joins (1,1) (2,1) (2,2)
func c04fForms() []c04fForm {
	ret := clause.Returning{}
	return []c04fForm{
		{"create", func(h *gorm.DB) error { return h.Create(&C04fOwner{ID: 10, Name: "c"}).Error }, []c04fStmt{c04fW(c04fCE, 10)}},
		{"create+returning", func(h *gorm.DB) error {
			o := C04fOwner{ID: 11, Name: "cr"}
			return h.Clauses(ret).Create(&o).Error
		}, []c04fStmt{c04fW(c04fCQ, 11)}},
		{"create+returning(cols)", func(h *gorm.DB) error {
			return h.Clauses(clause.Returning{Columns: []clause.Column{{Name: "id"}, {Name: "v"}}}).Create(&C04fOwner{ID: 12}).Error
		}, []c04fStmt{c04fW(c04fCQ, 12)}},
		{"create+onconflict-donothing", func(h *gorm.DB) error {
			return h.Clauses(clause.OnConflict{DoNothing: true}).Create(&[]C04fOwner{{ID: 1, Name: "dup"}, {ID: 13, Name: "new"}}).Error
		}, []c04fStmt{c04fW(c04fCE, 13)}},
		{"create+onconflict-updateall", func(h *gorm.DB) error {
			return h.Clauses(clause.OnConflict{UpdateAll: true}).Create(&C04fOwner{ID: 2, Name: "upserted", V: 9}).Error
		}, []c04fStmt{c04fW(c04fCE, 0)}},
		{"create+onconflict+returning", func(h *gorm.DB) error {
			return h.Clauses(clause.OnConflict{Columns: []clause.Column{{Name: "id"}}, DoUpdates: clause.AssignmentColumns([]string{"name"})}, ret).
				Create(&C04fOwner{ID: 4, Name: "upsert-ret"}).Error
		}, []c04fStmt{c04fW(c04fCQ, 0)}},
		{"create-in-batches", func(h *gorm.DB) error {
			return h.CreateInBatches([]C04fOwner{{ID: 14}, {ID: 15}, {ID: 16}}, 2).Error
		}, nil},
		{"create-slice", func(h *gorm.DB) error { return h.Create(&[]C04fOwner{{ID: 17}, {ID: 18}}).Error }, []c04fStmt{c04fW(c04fCE, 17, 18)}},
		{"create-map", func(h *gorm.DB) error {
			return h.Model(&C04fOwner{}).Create(map[string]interface{}{"id": 40, "name": "m", "v": 1}).Error
		}, []c04fStmt{c04fW(c04fCE, 40)}},
		{"save-insert", func(h *gorm.DB) error { return h.Save(&C04fOwner{ID: 19, Name: "s"}).Error },
			[]c04fStmt{c04fW(c04fUE, 0), c04fW(c04fCE, 19)}},
		{"save-update", func(h *gorm.DB) error { return h.Save(&C04fOwner{ID: 1, Name: "saved", V: 3}).Error }, []c04fStmt{c04fW(c04fUE, 0)}},
		{"save-slice", func(h *gorm.DB) error { return h.Save(&[]C04fOwner{{ID: 2, Name: "ss"}, {ID: 41, Name: "ss2"}}).Error },
			[]c04fStmt{c04fW(c04fCE, 41)}},
		{"update+returning", func(h *gorm.DB) error {
			return h.Model(&C04fOwner{ID: 1}).Clauses(ret).Update("v", 70).Error
		}, []c04fStmt{c04fW(c04fUQ, 0)}},
		{"updates+returning(cols)", func(h *gorm.DB) error {
			var got []C04fOwner
			if err := h.Model(&got).Clauses(clause.Returning{Columns: []clause.Column{{Name: "id"}, {Name: "v"}}}).Where("id IN ?", []int64{1, 2}).
				Updates(map[string]interface{}{"v": 71}).Error; err != nil {
				return err
			}
			if len(got) != 2 || got[0].V != 71 {
				return errC04fRead
			}
			return nil
		}, []c04fStmt{c04fW(c04fUQ, 0)}},
		{"update-column+returning", func(h *gorm.DB) error {
			return h.Model(&C04fOwner{ID: 3}).Clauses(ret).UpdateColumn("name", "ucr").Error
		}, []c04fStmt{c04fW(c04fUQ, 0)}},
		{"update-expr", func(h *gorm.DB) error {
			return h.Model(&C04fOwner{}).Where("id = ?", 1).Update("v", gorm.Expr("v + ?", 5)).Error
		}, []c04fStmt{c04fW(c04fUE, 0)}},
		{"update-subquery", func(h *gorm.DB) error {
			sub := h.Session(&gorm.Session{NewDB: true}).Model(&C04fPet{}).Select("count(*)").Where("owner_id = ?", 1)
			return h.Model(&C04fOwner{}).Where("id = ?", 2).Update("v", sub).Error
		}, []c04fStmt{c04fW(c04fUE, 0)}},
		{"updates-struct", func(h *gorm.DB) error { return h.Model(&C04fOwner{ID: 2}).Updates(C04fOwner{Name: "us", V: 4}).Error },
			[]c04fStmt{c04fW(c04fUE, 0)}},
		{"update-columns", func(h *gorm.DB) error {
			return h.Model(&C04fOwner{ID: 1}).UpdateColumns(map[string]interface{}{"name": "uc", "v": 6}).Error
		}, []c04fStmt{c04fW(c04fUE, 0)}},
		{"delete", func(h *gorm.DB) error { return h.Delete(&C04fOwner{}, 4).Error }, []c04fStmt{c04fW(c04fDE, -4)}},
		{"delete+returning", func(h *gorm.DB) error {
			var got []C04fOwner
			if err := h.Clauses(ret).Where("id = ?", 5).Delete(&got).Error; err != nil {
				return err
			}
			if len(got) != 1 {
				return errC04fRead
			}
			return nil
		}, []c04fStmt{c04fW(c04fDQ, -5)}},
		{"delete+returning(cols)", func(h *gorm.DB) error {
			var got []C04fTag
			return h.Clauses(clause.Returning{Columns: []clause.Column{{Name: "id"}}}).Where("id = ?", 3).Delete(&got).Error
		}, []c04fStmt{c04fW(c04fDQ, -2003)}},
		{"delete-select-association", func(h *gorm.DB) error { return h.Select("Pets").Delete(&C04fOwner{ID: 3}).Error },
			[]c04fStmt{c04fW(c04fDE, -1004, -1005), c04fW(c04fDE, -3)}},
		{"delete-select-all-associations", func(h *gorm.DB) error { return h.Select(clause.Associations).Delete(&C04fOwner{ID: 2}).Error }, nil},
		{"assoc-append-hasmany", func(h *gorm.DB) error {
			return h.Model(&C04fOwner{ID: 1}).Association("Pets").Append(&C04fPet{ID: 20, Name: "ap"})
		}, nil},
		{"assoc-append-m2m", func(h *gorm.DB) error {
			return h.Model(&C04fOwner{ID: 1}).Association("Tags").Append(&C04fTag{ID: 21, Name: "at"})
		}, nil},
		{"assoc-replace-m2m", func(h *gorm.DB) error {
			return h.Model(&C04fOwner{ID: 2}).Association("Tags").Replace(&C04fTag{ID: 3})
		}, nil},
		{"assoc-replace-hasmany", func(h *gorm.DB) error {
			return h.Model(&C04fOwner{ID: 1}).Association("Pets").Replace(&C04fPet{ID: 42, Name: "rp"})
		}, nil},
		{"assoc-delete-m2m", func(h *gorm.DB) error {
			return h.Model(&C04fOwner{ID: 1}).Association("Tags").Delete(&C04fTag{ID: 1})
		}, nil},
		{"assoc-clear-hasmany", func(h *gorm.DB) error { return h.Model(&C04fOwner{ID: 1}).Association("Pets").Clear() }, nil},
		{"assoc-unscoped-delete", func(h *gorm.DB) error {
			return h.Model(&C04fOwner{ID: 3}).Association("Pets").Unscoped().Delete(&C04fPet{ID: 4})
		}, nil},
		{"exec-update", func(h *gorm.DB) error { return h.Exec("UPDATE c04f_owners SET v = v + 100 WHERE id = ?", 1).Error },
			[]c04fStmt{c04fW(c04fRE, 0)}},
		{"exec-insert", func(h *gorm.DB) error { return h.Exec("INSERT INTO c04f_tags (id, name) VALUES (?, ?)", 22, "ex").Error },
			[]c04fStmt{c04fW(c04fRE, 2022)}},
		{"raw-update-returning-scan", func(h *gorm.DB) error {
			var v int64
			if err := h.Raw("UPDATE c04f_owners SET v = 55 WHERE id = 2 RETURNING v").Scan(&v).Error; err != nil {
				return err
			}
			if v != 55 {
				return errC04fRead
			}
			return nil
		}, []c04fStmt{c04fW(c04fQQ, 0)}},
		{"raw-insert-returning-row", func(h *gorm.DB) error {
			var id int64
			if err := h.Raw("INSERT INTO c04f_tags (id, name) VALUES (23, 'rr') RETURNING id").Row().Scan(&id); err != nil {
				return err
			}
			return nil
		}, []c04fStmt{c04fW(c04fRR, 2023)}},
		{"raw-delete-returning-rows", func(h *gorm.DB) error {
			rows, err := h.Raw("DELETE FROM c04f_pets WHERE id = 5 RETURNING id").Rows()
			if err != nil {
				return err
			}
			n := 0
			for rows.Next() {
				n++
			}
			if err := rows.Close(); err != nil {
				return err
			}
			if n != 1 {
				return errC04fRead
			}
			return nil
		}, []c04fStmt{c04fW(c04fRQ, -1005)}},
		{"create-then-rows", func(h *gorm.DB) error {
			if err := h.Create(&C04fTag{ID: 24, Name: "rw"}).Error; err != nil {
				return err
			}
			rows, err := h.Model(&C04fTag{}).Where("id = ?", 24).Rows()
			if err != nil {
				return err
			}
			n := 0
			for rows.Next() {
				n++
			}
			if err := rows.Close(); err != nil {
				return err
			}
			if n != 1 {
				return errC04fRead
			}
			return nil
		}, []c04fStmt{c04fW(c04fCE, 2024), c04fQ(c04fRQ)}},
		{"create-then-row", func(h *gorm.DB) error {
			if err := h.Create(&C04fTag{ID: 25, Name: "rw"}).Error; err != nil {
				return err
			}
			var n int64
			if err := h.Model(&C04fTag{}).Select("count(*)").Where("id = ?", 25).Row().Scan(&n); err != nil {
				return err
			}
			if n != 1 {
				return errC04fRead
			}
			return nil
		}, []c04fStmt{c04fW(c04fCE, 2025), c04fQ(c04fRR)}},
		{"first-or-create(new)", func(h *gorm.DB) error {
			var o C04fOwner
			return h.Where(C04fOwner{ID: 26}).Attrs(C04fOwner{Name: "foc"}).FirstOrCreate(&o).Error
		}, []c04fStmt{c04fQ(c04fQQ), c04fW(c04fCE, 26)}},
		{"create-then-first-or-create", func(h *gorm.DB) error {
			if err := h.Create(&C04fOwner{ID: 27, Name: "a"}).Error; err != nil {
				return err
			}
			var o C04fOwner
			if err := h.Where(C04fOwner{ID: 27}).Attrs(C04fOwner{Name: "b"}).FirstOrCreate(&o).Error; err != nil {
				return err
			}
			if o.Name != "a" {
				return errC04fRead
			}
			return nil
		}, []c04fStmt{c04fW(c04fCE, 27), c04fQ(c04fQQ)}},
		{"first-or-create(assign)", func(h *gorm.DB) error {
			var o C04fOwner
			return h.Where(C04fOwner{ID: 3}).Assign(C04fOwner{Name: "assigned"}).FirstOrCreate(&o).Error
		}, []c04fStmt{c04fQ(c04fQQ), c04fW(c04fUE, 0)}},
		{"create-then-find", func(h *gorm.DB) error {
			if err := h.Create(&C04fOwner{ID: 28}).Error; err != nil {
				return err
			}
			var os []C04fOwner
			if err := h.Find(&os, 28).Error; err != nil {
				return err
			}
			if len(os) != 1 {
				return errC04fRead
			}
			return nil
		}, []c04fStmt{c04fW(c04fCE, 28), c04fQ(c04fQQ)}},
		{"create-then-preload", func(h *gorm.DB) error {
			if err := h.Create(&C04fPet{ID: 29, OwnerID: ip(1), Name: "pl"}).Error; err != nil {
				return err
			}
			var o C04fOwner
			if err := h.Preload("Pets").First(&o, 1).Error; err != nil {
				return err
			}
			for _, p := range o.Pets {
				if p.ID == 29 {
					return nil
				}
			}
			return errC04fRead
		}, []c04fStmt{c04fW(c04fCE, 1029), c04fQ(c04fQQ), c04fQ(c04fQQ)}},
		{"create-with-hasmany", func(h *gorm.DB) error {
			return h.Create(&C04fOwner{ID: 30, Name: "wh", Pets: []C04fPet{{ID: 31, Name: "n1"}, {ID: 32, Name: "n2"}}}).Error
		}, []c04fStmt{c04fW(c04fCE, 30), c04fW(c04fCE, 1031, 1032)}},
		{"create-with-m2m", func(h *gorm.DB) error {
			return h.Create(&C04fOwner{ID: 33, Name: "wm", Tags: []C04fTag{{ID: 34, Name: "nt"}}}).Error
		}, []c04fStmt{c04fW(c04fCE, 33), c04fW(c04fCE, 2034), c04fW(c04fCE, 3000+33*100+34)}},
		{"updates-with-association", func(h *gorm.DB) error {
			return h.Session(&gorm.Session{FullSaveAssociations: true}).Updates(&C04fOwner{ID: 1, Name: "ua", Pets: []C04fPet{{ID: 1, OwnerID: ip(1), Name: "renamed"}}}).Error
		}, nil},
		{"find-in-batches-update", func(h *gorm.DB) error {
			var os []C04fOwner
			return h.Where("id <= ?", 3).FindInBatches(&os, 2, func(tx *gorm.DB, batch int) error {
				for i := range os {
					os[i].V += 1000
				}
				return tx.Save(&os).Error
			}).Error
		}, nil},
		{"scopes-update", func(h *gorm.DB) error {
			return h.Model(&C04fOwner{}).Scopes(func(d *gorm.DB) *gorm.DB { return d.Where("id = ?", 5) }).Clauses(ret).Update("name", "scoped").Error
		}, []c04fStmt{c04fW(c04fUQ, 0)}},
		{"table-update", func(h *gorm.DB) error {
			return h.Table("c04f_owners").Where("id = ?", 4).Updates(map[string]interface{}{"v": 44}).Error
		}, []c04fStmt{c04fW(c04fUE, 0)}},
		{"connection-free-exec-in-hook-style", func(h *gorm.DB) error {
			// a write issued through the handle a previous finisher RETURNED (a chained clone-0 handle)
			r := h.Create(&C04fTag{ID: 35, Name: "h1"})
			if r.Error != nil {
				return r.Error
			}
			return h.Model(&C04fTag{ID: 35}).Clauses(ret).Update("name", "h2").Error
		}, []c04fStmt{c04fW(c04fCE, 2035), c04fW(c04fUQ, 0)}},
	}
}

// ---------------------------------------------------------------- world

type c04fWorld struct{ *c04World }

func c04fOpen(cfg c04Cfg) *c04fWorld {
	w := c04Open(cfg)
	w.rec.mu.Lock()
	w.rec.Off = true
	w.rec.mu.Unlock()
	if err := w.db.AutoMigrate(&C04fOwner{}, &C04fPet{}, &C04fTag{}); err != nil {
		panic(err)
	}
	w.rec.mu.Lock()
	w.rec.Off = false
	w.rec.mu.Unlock()
	return &c04fWorld{w}
}

var c04fInit = []string{
	"DELETE FROM c04f_owner_tags", "DELETE FROM c04f_pets", "DELETE FROM c04f_tags", "DELETE FROM c04f_owners",
	"INSERT INTO c04f_owners (id, name, v) VALUES (1,'o1',0),(2,'o2',0),(3,'o3',0),(4,'o4',0),(5,'o5',0)",
	"INSERT INTO c04f_pets (id, owner_id, name) VALUES (1,1,'p1'),(2,1,'p2'),(3,2,'p3'),(4,3,'p4'),(5,3,'p5')",
	"INSERT INTO c04f_tags (id, name) VALUES (1,'t1'),(2,'t2'),(3,'t3')",
	"INSERT INTO c04f_owner_tags (owner_id, tag_id) VALUES (1,1),(2,1),(2,2)",
}

func (w *c04fWorld) resetForms() error {
	w.rec.mu.Lock()
	w.rec.Off = true
	w.rec.Fault = nil
	w.rec.mu.Unlock()
	for _, q := range c04fInit {
		if _, err := w.sqlDB.Exec(q); err != nil {
			return err
		}
	}
	w.rec.mu.Lock()
	w.rec.Off = false
	w.rec.Events = nil
	w.rec.mu.Unlock()
	w.tags.resetCount()
	return nil
}

// full contents (every column) and the row identities of the model's store
func (w *c04fWorld) dumpForms() (rows []string, ids []int64) {
	w.rec.mu.Lock()
	w.rec.Off = true
	w.rec.mu.Unlock()
	defer func() { w.rec.mu.Lock(); w.rec.Off = false; w.rec.mu.Unlock() }()
	q := func(sqlText string, f func(a, b int64, s string)) {
		rs, err := w.sqlDB.Query(sqlText)
		if err != nil {
			rows = append(rows, "ERR "+err.Error())
			return
		}
		defer rs.Close()
		for rs.Next() {
			var a int64
			var b *int64
			var s *string
			if err := rs.Scan(&a, &b, &s); err != nil {
				rows = append(rows, "ERR "+err.Error())
				return
			}
			bv, sv := int64(-1), "<null>"
			if b != nil {
				bv = *b
			}
			if s != nil {
				sv = *s
			}
			f(a, bv, sv)
		}
	}
	q("SELECT id, v, name FROM c04f_owners ORDER BY id", func(a, b int64, s string) {
		rows = append(rows, fmt.Sprintf("owner %d v=%d name=%s", a, b, s))
		ids = append(ids, a)
	})
	q("SELECT id, owner_id, name FROM c04f_pets ORDER BY id", func(a, b int64, s string) {
		rows = append(rows, fmt.Sprintf("pet %d owner=%d name=%s", a, b, s))
		ids = append(ids, 1000+a)
	})
	q("SELECT id, 0, name FROM c04f_tags ORDER BY id", func(a, b int64, s string) {
		rows = append(rows, fmt.Sprintf("tag %d name=%s", a, s))
		ids = append(ids, 2000+a)
	})
	q("SELECT owner_id, tag_id, '' FROM c04f_owner_tags ORDER BY owner_id, tag_id", func(a, b int64, s string) {
		rows = append(rows, fmt.Sprintf("owner_tag %d-%d", a, b))
		ids = append(ids, 3000+a*100+b)
	})
	sort.Slice(ids, func(i, j int) bool { return ids[i] < ids[j] })
	return
}

// ---------------------------------------------------------------- cases

// Site: where the forms run
//
//	blk-nil blk-err blk-panic        db.Transaction(func(tx){ forms; out })
//	man-commit man-rollback          tx := db.Begin(); forms; tx.Commit()/tx.Rollback()
//	nested-err nested-panic nested-nil   db.Transaction(func(tx){ PRE; _ = tx.Transaction(func(tx2){ forms; out }); POST; return nil })
//	sp-rb                            tx := db.Begin(); PRE; tx.SavePoint("s"); forms; tx.RollbackTo("s"); POST; tx.Commit()
//	blk-nil-nested-in-err            db.Transaction(func(tx){ _ = tx.Transaction(func(tx2){ forms; return nil }); return err })
var c04fSites = []string{"blk-nil", "blk-err", "blk-panic", "man-commit", "man-rollback", "nested-err", "nested-panic", "nested-nil", "sp-rb", "nested-nil-in-err"}

// Handle: through which derivation of the transaction handle the forms are issued
var c04fHandles = []string{"tx", "Session{}", "WithContext", "Session{PrepareStmt}", "Session{NewDB}", "Session{SkipDefaultTransaction}", "Session{SkipHooks}"}

type c04fCase struct {
	Cfg    c04Cfg   `json:"cfg"`
	Site   string   `json:"site"`
	Handle string   `json:"handle"`
	Forms  []string `json:"forms"`
	Mask   []int    `json:"mask"`
}

type c04fCall struct {
	Tok string `json:"tok"`
	Ord int    `json:"tx"`
	SQL string `json:"sql"`
	In  bool   `json:"in_fn"` // issued while the function of the transaction was running
}

type c04fObs struct {
	Calls    []c04fCall `json:"calls"`
	Res      string     `json:"res"` // "nil" | "err:<text>" | "panic:<text>"
	Rows     []string   `json:"rows"`
	IDs      []int64    `json:"ids"`
	Open     int64      `json:"open"`
	InUse    int        `json:"inuse"`
	Verdicts []string   `json:"verdicts"`
	FormErrs []string   `json:"form_errs"`
	Faulted  int        `json:"faulted"`
	sameVal  bool
}

type c04fPayload struct{ n int }

var c04fPre = c04fForm{"pre", func(h *gorm.DB) error { return h.Create(&C04fOwner{ID: 60, Name: "pre"}).Error }, []c04fStmt{c04fW(c04fCE, 60)}}
var c04fPost = c04fForm{"post", func(h *gorm.DB) error {
	return h.Exec("UPDATE c04f_owners SET name = 'post' WHERE id = ?", 60).Error
}, []c04fStmt{c04fW(c04fRE, 0)}}

func c04fDeriveHandle(tx *gorm.DB, kind string) *gorm.DB {
	switch kind {
	case "Session{}":
		return tx.Session(&gorm.Session{})
	case "WithContext":
		return tx.WithContext(context.WithValue(context.Background(), c04CtxKey{}, "forms"))
	case "Session{PrepareStmt}":
		return tx.Session(&gorm.Session{PrepareStmt: true})
	case "Session{NewDB}":
		return tx.Session(&gorm.Session{NewDB: true})
	case "Session{SkipDefaultTransaction}":
		return tx.Session(&gorm.Session{SkipDefaultTransaction: true})
	case "Session{SkipHooks}":
		return tx.Session(&gorm.Session{SkipHooks: true})
	}
	return tx
}

func c04fRun(w *c04fWorld, c *c04fCase, forms map[string]c04fForm) *c04fObs {
	o := &c04fObs{}
	if err := w.resetForms(); err != nil {
		w.close()
		*w = *c04fOpen(w.cfg)
		if err := w.resetForms(); err != nil {
			panic(err)
		}
	}
	mask := map[int]bool{}
	for _, k := range c.Mask {
		mask[k] = true
	}
	inFn, txOrd, escaped := false, 0, false
	calls := 0
	w.rec.mu.Lock()
	w.rec.Fault = func(idx int, ev *Event) error {
		t := c04Tok(ev)
		if t == "" {
			return nil
		}
		k := calls
		calls++
		_, ord := w.tags.tag()
		o.Calls = append(o.Calls, c04fCall{Tok: t, Ord: ord, SQL: ev.SQL, In: inFn})
		if inFn && txOrd > 0 && ord != txOrd && (t == "W" || t == "S" || t == "T") && !escaped {
			escaped = true
			where := "on a pool connection outside any driver transaction"
			if ord != 0 {
				where = fmt.Sprintf("inside another driver transaction (#%d)", ord)
			}
			o.Verdicts = append(o.Verdicts, fmt.Sprintf("call %d (%s %q) was issued by the function of transaction #%d but ran %s: it escapes the block's commit/rollback", k, t, ev.SQL, txOrd, where))
		}
		if mask[k] && t != "R" && t != "T" {
			o.Calls[len(o.Calls)-1].Tok = t + "!"
			o.Faulted++
			return &c04InjErr{k}
		}
		return nil
	}
	w.rec.mu.Unlock()
	userErr := &c04UserErr{tag: 77}
	payload := &c04fPayload{7}
	enter := func() {
		w.tags.mu.Lock()
		txOrd = w.tags.nBegun
		w.tags.mu.Unlock()
		inFn = true
	}
	runForms := func(tx *gorm.DB, names []string) error {
		h := c04fDeriveHandle(tx, c.Handle)
		for _, n := range names {
			f := forms[n]
			f0 := o.Faulted
			if err := f.Run(h); err != nil {
				if o.Faulted == f0 {
					o.FormErrs = append(o.FormErrs, fmt.Sprintf("%s: %v", n, err))
				}
				return err
			}
		}
		return nil
	}
	var ret error
	var pan interface{}
	panicked := false
	func() {
		done := false
		defer func() {
			if !done {
				pan = recover()
				panicked = true
			}
			inFn = false
		}()
		switch c.Site {
		case "blk-nil", "blk-err", "blk-panic":
			ret = w.db.Transaction(func(tx *gorm.DB) error {
				enter()
				defer func() { inFn = false }()
				if err := runForms(tx, c.Forms); err != nil {
					return err
				}
				switch c.Site {
				case "blk-err":
					return userErr
				case "blk-panic":
					panic(payload)
				}
				return nil
			})
		case "man-commit", "man-rollback", "sp-rb":
			tx := w.db.Begin()
			if tx.Error != nil {
				ret = tx.Error
				break
			}
			enter()
			err := func() error {
				if c.Site == "sp-rb" {
					if err := c04fPre.Run(tx); err != nil {
						return err
					}
					if err := tx.SavePoint("s1").Error; err != nil {
						return err
					}
				}
				if err := runForms(tx, c.Forms); err != nil {
					return err
				}
				if c.Site == "sp-rb" {
					if err := tx.RollbackTo("s1").Error; err != nil {
						return err
					}
					return c04fPost.Run(tx)
				}
				return nil
			}()
			inFn = false
			if err != nil {
				tx.Rollback()
				ret = err
			} else if c.Site == "man-rollback" {
				ret = tx.Rollback().Error
			} else {
				ret = tx.Commit().Error
			}
		case "nested-err", "nested-panic", "nested-nil", "nested-nil-in-err":
			ret = w.db.Transaction(func(tx *gorm.DB) error {
				enter()
				defer func() { inFn = false }()
				if c.Site != "nested-nil-in-err" {
					if err := c04fPre.Run(tx); err != nil {
						return err
					}
				}
				func() {
					defer func() {
						if c.Site == "nested-panic" {
							if r := recover(); r != nil && r != interface{}(payload) {
								o.Verdicts = append(o.Verdicts, fmt.Sprintf("nested block panicked with %v instead of the function's payload", r))
							}
						}
					}()
					nerr := tx.Transaction(func(tx2 *gorm.DB) error {
						if err := runForms(tx2, c.Forms); err != nil {
							return err
						}
						switch c.Site {
						case "nested-err":
							return userErr
						case "nested-panic":
							panic(payload)
						}
						return nil
					})
					if c.Site == "nested-err" && nerr != error(userErr) && o.Faulted == 0 {
						o.Verdicts = append(o.Verdicts, fmt.Sprintf("nested block returned %v instead of the function's error", nerr))
					}
				}()
				if c.Site == "nested-nil-in-err" {
					return userErr
				}
				return c04fPost.Run(tx)
			})
		}
		done = true
	}()
	w.rec.mu.Lock()
	w.rec.Fault = nil
	w.rec.mu.Unlock()
	switch {
	case panicked:
		o.Res = fmt.Sprintf("panic:%v", pan)
		o.sameVal = pan == interface{}(payload)
	case ret != nil:
		o.Res = "err:" + ret.Error()
		o.sameVal = ret == error(userErr)
	default:
		o.Res = "nil"
	}
	o.Open = w.rec.OpenTx
	o.InUse = w.sqlDB.Stats().InUse
	if o.Open != 0 || o.InUse != 0 {
		// do not poison the next case
		w.close()
		*w = *c04fOpen(w.cfg)
		o.Verdicts = append(o.Verdicts, fmt.Sprintf("leak: %d driver transaction(s) open, %d connection(s) in use after the program", o.Open, o.InUse))
		return o
	}
	o.Rows, o.IDs = w.dumpForms()
	return o
}

// what the property expects of the final contents: "initial", or the forms that must be durable
func c04fExpectForms(c *c04fCase) (durable []string, all bool) {
	switch c.Site {
	case "blk-nil", "man-commit":
		return c.Forms, true
	case "nested-nil":
		return append(append([]string{"pre"}, c.Forms...), "post"), true
	case "nested-err", "nested-panic", "sp-rb":
		return []string{"pre", "post"}, true
	}
	return nil, true // blk-err blk-panic man-rollback nested-nil-in-err: nothing
}

type c04fSuite struct {
	r      *Result
	forms  map[string]c04fForm
	worlds map[c04Cfg]*c04fWorld
	refs   map[string][]string // forms key -> full contents after running them WITHOUT any transaction
	refIDs map[string][]int64
	ref    *c04fWorld
	cases  []*c04fCase
	obs    []*c04fObs
}

func (s *c04fSuite) world(cfg c04Cfg) *c04fWorld {
	if w, ok := s.worlds[cfg]; ok {
		return w
	}
	w := c04fOpen(cfg)
	s.worlds[cfg] = w
	return w
}

func (s *c04fSuite) close() {
	for _, w := range s.worlds {
		w.close()
	}
	if s.ref != nil {
		s.ref.close()
	}
}

// reference: the same forms through the plain handle, no transaction at all (every statement auto-commits)
func (s *c04fSuite) reference(names []string) ([]string, []int64, error) {
	key := strings.Join(names, "|")
	if r, ok := s.refs[key]; ok {
		return r, s.refIDs[key], nil
	}
	if s.ref == nil {
		s.ref = c04fOpen(c04Cfg{Skip: true})
	}
	if err := s.ref.resetForms(); err != nil {
		return nil, nil, err
	}
	for _, n := range names {
		if err := s.forms[n].Run(s.ref.db); err != nil {
			return nil, nil, fmt.Errorf("reference run of %s: %v", n, err)
		}
	}
	rows, ids := s.ref.dumpForms()
	s.refs[key], s.refIDs[key] = rows, ids
	return rows, ids, nil
}

func (s *c04fSuite) judge(c *c04fCase, o *c04fObs) {
	r := s.r
	verdicts := append([]string{}, o.Verdicts...)
	leaked := len(o.Rows) == 0 && len(verdicts) > 0
	if !leaked {
		durable, _ := c04fExpectForms(c)
		want, _, err := s.reference(durable)
		if err != nil {
			r.Note("forms: %v", err)
			return
		}
		initial, _, _ := s.reference(nil)
		if o.Faulted == 0 {
			for _, fe := range o.FormErrs {
				verdicts = append(verdicts, "a finisher issued through the transaction's handle failed although no driver call was failed (handle unusable / does not see the transaction's own writes): "+fe)
			}
			if len(o.FormErrs) == 0 {
				// result
				switch c.Site {
				case "blk-nil", "man-commit", "man-rollback", "nested-err", "nested-panic", "nested-nil", "sp-rb":
					if o.Res != "nil" {
						verdicts = append(verdicts, fmt.Sprintf("the program must end with nil, got %s", o.Res))
					}
				case "blk-err", "nested-nil-in-err":
					if !strings.HasPrefix(o.Res, "err:") || !o.sameVal {
						verdicts = append(verdicts, fmt.Sprintf("Transaction must return the function's error unchanged, got %s", o.Res))
					}
				case "blk-panic":
					if !strings.HasPrefix(o.Res, "panic:") || !o.sameVal {
						verdicts = append(verdicts, fmt.Sprintf("Transaction must re-raise the function's panic payload unchanged, got %s", o.Res))
					}
				}
				if canon(o.Rows) != canon(want) {
					verdicts = append(verdicts, fmt.Sprintf("final contents differ from what the property demands (durable forms: %v): %s", durable, c04fDiff(o.Rows, want)))
				}
			} else if canon(o.Rows) != canon(initial) && o.Res != "nil" {
				verdicts = append(verdicts, fmt.Sprintf("the program ended with %s, yet something is durable: %s", o.Res, c04fDiff(o.Rows, initial)))
			}
		} else if o.Res != "nil" {
			// a faulted run that reports failure: nothing of the outermost transaction may be durable
			if canon(o.Rows) != canon(initial) {
				verdicts = append(verdicts, fmt.Sprintf("the program ended with %s, yet something is durable: %s", o.Res, c04fDiff(o.Rows, initial)))
			}
		}
	}
	if len(verdicts) > 0 {
		r.Violate(Violation{Kind: "e2e", Suite: "forms", Input: c, Observed: o, Expected: "see note",
			Note: strings.Join(verdicts, " || ")})
	}
}

func c04fDiff(got, want []string) string {
	g, w := map[string]bool{}, map[string]bool{}
	for _, x := range got {
		g[x] = true
	}
	for _, x := range want {
		w[x] = true
	}
	var extra, missing []string
	for _, x := range got {
		if !w[x] {
			extra = append(extra, x)
		}
	}
	for _, x := range want {
		if !g[x] {
			missing = append(missing, x)
		}
	}
	return fmt.Sprintf("unexpected rows %v, missing rows %v", extra, missing)
}

func (s *c04fSuite) run(c *c04fCase) *c04fObs {
	o := c04fRun(s.world(c.Cfg), c, s.forms)
	nontrivial := c.Site != "blk-nil" && c.Site != "man-commit" || len(c.Mask) > 0
	s.r.Case("forms", canon(c), nontrivial)
	s.r.H("forms_site", c.Site)
	s.r.H("forms_handle", c.Handle)
	s.r.H("forms_cfg", c.Cfg.String())
	for _, f := range c.Forms {
		s.r.H("forms_form", f)
	}
	s.r.H("forms_res", strings.SplitN(o.Res, ":", 2)[0])
	s.r.H("forms_faults", fmt.Sprint(o.Faulted))
	s.judge(c, o)
	s.cases, s.obs = append(s.cases, c), append(s.obs, o)
	return o
}

// model side: the program as Model/TxForms.lean FProg
func (s *c04fSuite) encode(c *c04fCase) (outer []interface{}, items []interface{}, ok bool) {
	ops := func(names []string) []interface{} {
		var out []interface{}
		for _, n := range names {
			f := s.forms[n]
			if n == "pre" {
				f = c04fPre
			} else if n == "post" {
				f = c04fPost
			}
			if f.Stmts == nil {
				ok = false
				return nil
			}
			var st []interface{}
			for _, x := range f.Stmts {
				st = append(st, x.enc())
			}
			out = append(out, []interface{}{st, true})
		}
		if out == nil {
			out = []interface{}{}
		}
		return out
	}
	ok = true
	switch c.Site {
	case "blk-nil":
		return []interface{}{"blk", 0, 77}, []interface{}{[]interface{}{"ops", ops(c.Forms)}}, ok
	case "blk-err":
		return []interface{}{"blk", 1, 77}, []interface{}{[]interface{}{"ops", ops(c.Forms)}}, ok
	case "blk-panic":
		return []interface{}{"blk", 2, 7}, []interface{}{[]interface{}{"ops", ops(c.Forms)}}, ok
	case "man-commit":
		return []interface{}{"man", 0}, []interface{}{[]interface{}{"ops", ops(c.Forms)}}, ok
	case "man-rollback":
		return []interface{}{"man", 1}, []interface{}{[]interface{}{"ops", ops(c.Forms)}}, ok
	case "sp-rb":
		return []interface{}{"man", 0}, []interface{}{[]interface{}{"ops", ops([]string{"pre"})}, []interface{}{"sp", 1},
			[]interface{}{"ops", ops(c.Forms)}, []interface{}{"rb", 1}, []interface{}{"ops", ops([]string{"post"})}}, ok
	case "nested-err", "nested-panic", "nested-nil":
		out := map[string]int{"nested-nil": 0, "nested-err": 1, "nested-panic": 2}[c.Site]
		return []interface{}{"blk", 0, 78}, []interface{}{[]interface{}{"ops", ops([]string{"pre"})},
			[]interface{}{"nested", ops(c.Forms), out, 77}, []interface{}{"ops", ops([]string{"post"})}}, ok
	case "nested-nil-in-err":
		return []interface{}{"blk", 1, 77}, []interface{}{[]interface{}{"nested", ops(c.Forms), 0, 78}}, ok
	}
	return nil, nil, false
}

func (s *c04fSuite) flush() {
	r := s.r
	var ops [][]interface{}
	var idx []int
	for i, c := range s.cases {
		if c.Handle == "Session{SkipDefaultTransaction}" && false {
			continue
		}
		outer, items, ok := s.encode(c)
		if !ok {
			r.H("forms_tie", "e2e-only")
			continue
		}
		mask := c.Mask
		if mask == nil {
			mask = []int{}
		}
		_, initIDs, _ := s.reference(nil)
		ops = append(ops, []interface{}{"tx.fprog", c.Cfg, mask, initIDs, outer, items})
		idx = append(idx, i)
	}
	defer func() { s.cases, s.obs = nil, nil }()
	if len(ops) == 0 {
		return
	}
	outs, err := AskLean(ops)
	if err != nil {
		r.Violate(Violation{Kind: "correspondence", Suite: "forms", Note: err.Error()})
		return
	}
	for j, i := range idx {
		c, o := s.cases[i], s.obs[i]
		r.CorrCompared++
		r.H("forms_tie", "compared")
		var m struct {
			Store []int64       `json:"store"`
			Res   []interface{} `json:"res"`
			Open  int64         `json:"open"`
			Trace []string      `json:"trace"`
			TxOf  []int         `json:"txof"`
		}
		if e := json.Unmarshal(outs[j], &m); e != nil {
			r.Violate(Violation{Kind: "correspondence", Suite: "forms", Input: c, Observed: o, Expected: string(outs[j]),
				Note: "the model rejects the program (a call site named by a form is missing from the regenerated call-site table?)"})
			continue
		}
		var trace []string
		var txof []int
		for _, cl := range o.Calls {
			trace = append(trace, cl.Tok)
			txof = append(txof, cl.Ord)
		}
		res := "nil"
		if len(m.Res) > 0 && m.Res[0] == "err" {
			res = "err"
		} else if len(m.Res) > 0 && m.Res[0] == "panic" {
			res = "panic"
		}
		real := map[string]interface{}{"trace": trace, "txof": txof, "ids": o.IDs, "res": strings.SplitN(o.Res, ":", 2)[0], "open": o.Open}
		model := map[string]interface{}{"trace": m.Trace, "txof": m.TxOf, "ids": m.Store, "res": res, "open": m.Open}
		if o.IDs == nil {
			real["ids"] = []int64{}
		}
		if canon(real) != canon(model) {
			r.Violate(Violation{Kind: "correspondence", Suite: "forms", Input: c, Observed: real, Expected: model,
				Note: "write forms inside a transaction: real gorm vs Model/TxForms.lean runFProg (driver-call kinds, driver transaction of every call, final row identities, result)"})
		}
	}
}

func init() {
	register("C04", func(r *Result, rng *rand.Rand, tier string) {
		if tier == "search" && false {
			return
		}
		s := &c04fSuite{r: r, forms: map[string]c04fForm{}, worlds: map[c04Cfg]*c04fWorld{}, refs: map[string][]string{}, refIDs: map[string][]int64{}}
		defer s.close()
		all := c04fForms()
		var names []string
		for _, f := range all {
			s.forms[f.Name] = f
			names = append(names, f.Name)
		}
		s.forms["pre"], s.forms["post"] = c04fPre, c04fPost
		var cfgs []c04Cfg
		for _, c := range c04Cfgs() {
			if !c.Dis {
				cfgs = append(cfgs, c)
			}
		}
		// 1. every form × every site, configuration and handle derivation rotating (offset by the run's seed)
		off := rng.Intn(1 << 16)
		n := 0
		for fi, name := range names {
			for si, site := range c04fSites {
				n++
				reps := 1
				if tier == "thorough" {
					reps = len(cfgs)
				}
				for k := 0; k < reps; k++ {
					cfg := cfgs[(off+fi+si*3+k)%len(cfgs)]
					hk := c04fHandles[(off+fi*2+si+k)%len(c04fHandles)]
					s.run(&c04fCase{Cfg: cfg, Site: site, Handle: hk, Forms: []string{name}})
				}
			}
			if expired() {
				break
			}
		}
		s.flush()
		// 2. single faults: every driver call of a form inside a committing block / manual sequence / nested block is failed once
		for fi, name := range names {
			for si, site := range []string{"blk-nil", "man-commit", "nested-nil"} {
				if tier == "quick" && (fi+si+off)%3 != 0 {
					continue
				}
				cfg := cfgs[(off+fi+si)%len(cfgs)]
				hk := c04fHandles[(off+fi+si)%len(c04fHandles)]
				base := c04fRun(s.world(cfg), &c04fCase{Cfg: cfg, Site: site, Handle: hk, Forms: []string{name}}, s.forms)
				for k := 0; k < len(base.Calls); k++ {
					s.run(&c04fCase{Cfg: cfg, Site: site, Handle: hk, Forms: []string{name}, Mask: []int{k}})
				}
			}
			if expired() {
				break
			}
		}
		s.flush()
		// 3. random sequences of 2-4 forms (distinct), random site / configuration / handle, sometimes one fault
		m := 250
		if tier == "thorough" {
			m = 6000
		} else if tier == "search" {
			m = 3000
		}
		for i := 0; i < m && !expired(); i++ {
			perm := rng.Perm(len(names))
			k := 2 + rng.Intn(3)
			var fs []string
			for _, p := range perm[:k] {
				fs = append(fs, names[p])
			}
			if !c04fCompatible(fs) {
				continue
			}
			c := &c04fCase{Cfg: cfgs[rng.Intn(len(cfgs))], Site: c04fSites[rng.Intn(len(c04fSites))], Handle: c04fHandles[rng.Intn(len(c04fHandles))], Forms: fs}
			o := s.run(c)
			if rng.Intn(3) == 0 && len(o.Calls) > 0 {
				c2 := *c
				c2.Mask = []int{rng.Intn(len(o.Calls))}
				s.run(&c2)
			}
			if i < 2 {
				r.Sample(map[string]interface{}{"case": c, "real": o})
			}
			if len(s.cases) > 4000 {
				s.flush()
			}
		}
		s.flush()
	})
	replayers["C04/forms"] = func(r *Result, input json.RawMessage) {
		var c c04fCase
		if err := json.Unmarshal(input, &c); err != nil {
			r.Note("bad replay input: %v", err)
			return
		}
		s := &c04fSuite{r: r, forms: map[string]c04fForm{}, worlds: map[c04Cfg]*c04fWorld{}, refs: map[string][]string{}, refIDs: map[string][]int64{}}
		defer s.close()
		for _, f := range c04fForms() {
			s.forms[f.Name] = f
		}
		s.forms["pre"], s.forms["post"] = c04fPre, c04fPost
		o := s.run(&c)
		s.flush()
		fmt.Printf("replayed: %s\n", canon(o))
	}
}

// forms that touch the same rows in ways whose combined effect depends on order between deleted and updated rows are still
// deterministic (the reference runs them in the same order); only combinations in which a later form's PRECONDITION is
// destroyed by an earlier one (it would fail with or without a transaction) are skipped
func c04fCompatible(fs []string) bool {
	// rows a form needs to exist / needs to be absent
	needs := map[string][]string{
		"delete": {"o4"}, "create+onconflict+returning": {"o4"}, "table-update": {"o4"},
		"delete+returning": {"o5"}, "scopes-update": {"o5"},
		"delete-select-association": {"o3"}, "update-column+returning": {"o3"}, "first-or-create(assign)": {"o3"}, "assoc-unscoped-delete": {"o3", "p4"},
		"delete-select-all-associations": {"o2"}, "raw-delete-returning-rows": {"p5"},
		"updates+returning(cols)": {"o2"}, "raw-update-returning-scan": {"o2"}, "create+onconflict-updateall": {"o2"}, "save-slice": {"o2"},
		"update-subquery": {"o2"}, "updates-struct": {"o2"}, "find-in-batches-update": {"o2", "o3"},
		"delete+returning(cols)": {"t3"}, "assoc-replace-m2m": {"t3"},
	}
	kills := map[string][]string{
		"delete": {"o4"}, "delete+returning": {"o5"}, "delete-select-association": {"o3", "p4", "p5"}, "delete-select-all-associations": {"o2"},
		"raw-delete-returning-rows": {"p5"}, "delete+returning(cols)": {"t3"}, "assoc-unscoped-delete": {"p4"},
	}
	dead := map[string]bool{}
	for _, f := range fs {
		for _, n := range needs[f] {
			if dead[n] {
				return false
			}
		}
		for _, k := range kills[f] {
			dead[k] = true
		}
	}
	return true
}
