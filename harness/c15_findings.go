package main

// C15 — probes for the three listed FindInBatches findings of the unchanged tree, and correspondence of the
// model on exactly those inputs (the model must predict the defective behaviour: same batches, same queries).
//
//	F7-C15-user-order  : a user Order that is not key-monotone → rows skipped / repeated
//	F7b-C15-or-cursor  : a chain with an Or member → the key cursor binds to the last OR-run only, the loop never
//	                     advances (bounded here by a callback that aborts after N batches; model: fuel N)
//	F7c-C15-limit-zero : effective LIMIT 0 → Find returns nothing, FindInBatches everything

import (
	"encoding/json"
	"fmt"
	"math/rand"
	"reflect"
)

// c15Facts: the regenerated facts (extract/gen_c15.go → Gen/ReadPathFacts.lean, read through the Lean driver) that
// tell whether the repairs of F7c / F7e are present in the tree under test.  They select the model's transcription
// (Lean side) and switch the generators: a repaired pattern is ordinary input space and is no longer avoided.
type c15FactsT struct {
	ZeroLimitReturn      bool `json:"zeroLimitReturn"`
	ScanNoRowResetsSlice bool `json:"scanNoRowResetsSlice"`
}

var c15FactsCache *c15FactsT

func c15Facts() c15FactsT {
	if c15FactsCache == nil {
		f := c15FactsT{}
		if outs, err := AskLean([][]interface{}{{"c15.facts"}}); err == nil && len(outs) == 1 {
			_ = json.Unmarshal(outs[0], &f)
		}
		c15FactsCache = &f
	}
	return *c15FactsCache
}

type c15Probe struct {
	Rows  []c15Row `json:"rows"`
	Chain c15Chain `json:"chain"`
	Batch int      `json:"batch"`
	Fuel  int      `json:"fuel"`
}

// pattern of the probe's chain → finding id ("" = none of the listed patterns)
func c15Pattern(p *c15Probe) string {
	if p.Chain.hasOr() {
		return "F7b-C15-or-cursor"
	}
	if !c15Batchable(c15Chain{Ords: p.Chain.Ords}) {
		return "F7-C15-user-order"
	}
	nz, has := false, false
	for _, l := range p.Chain.Lims {
		if l.Kind == "limit" {
			has = true
			if l.N != 0 {
				nz = true
			}
		}
	}
	if has && !nz {
		return "F7c-C15-limit-zero"
	}
	return ""
}

func c15RunProbe(r *Result, p *c15Probe, pend *[]*c15Pending) {
	scn := &c15Scn{Rows: p.Rows, Base: p.Chain, Handle: "fresh"}
	w := c15OpenScn(scn)
	w.maxBatches = p.Fuel
	st := c15Step{Fin: "batches", Batch: p.Batch}
	out := w.run(p.Chain.apply(w.db.Model(&C15Rec{})), st, nil, c15Chain{})
	fo := w.run(c15Chain{Atoms: p.Chain.Atoms, Ords: append(append([]c15Ord{}, p.Chain.Ords...), c15Ord{Col: "id"}), Lims: p.Chain.Lims}.apply(w.db.Model(&C15Rec{})),
		c15Step{Fin: "find"}, nil, c15Chain{})
	pat := c15Pattern(p)
	r.Case("findings", canon(p), true)
	r.H("findings.pattern", pat)
	bad := ""
	if out.Err == "abort" {
		bad = fmt.Sprintf("loop still running after %d batches: %v", p.Fuel, out.Batches)
	} else if out.Err != "" || fo.Err != "" {
		bad = "error " + out.Err + fo.Err
	} else if !reflect.DeepEqual(out.IDs, fo.IDs) {
		bad = fmt.Sprintf("batches deliver %v, Find returns %v", out.IDs, fo.IDs)
	}
	if bad != "" {
		r.H("findings.manifest", pat)
		if pat != "" && listed(pat) {
			r.KnownFinding(pat, bad)
		} else {
			r.Violate(Violation{Kind: "e2e", Suite: "findings", Input: p, Observed: out, Expected: bad})
		}
	}
	if pend != nil {
		tbl, units, ords := c15LeanChain(p.Rows, p.Chain)
		*pend = append(*pend, &c15Pending{scn: scn, ch: p.Chain, st: st, out: out, where: "probe", lenient: true,
			op: []interface{}{"batchesW", tbl, units, ords, callsJ(p.Chain.Lims), p.Batch, p.Fuel}})
	}
}

func c15Witnesses() []*c15Probe {
	six := []c15Row{}
	for i := 1; i <= 6; i++ {
		six = append(six, c15Row{ID: i, N: i, S: "a", U: 7 - i, K: i / 3})
	}
	return []*c15Probe{
		{Rows: six, Chain: c15Chain{Ords: []c15Ord{{Col: "u"}}}, Batch: 2, Fuel: 8},
		{Rows: six[:4], Chain: c15Chain{Atoms: []c15Atom{{Kind: "idin", IDs: []int{1, 2}}, {Kind: "nstruct", V: 4, Or: true}}}, Batch: 2, Fuel: 6},
		{Rows: six[:3], Chain: c15Chain{Lims: []limCall{{"limit", 0}}}, Batch: 2, Fuel: 5},
	}
}

func init() {
	register("C15", func(r *Result, rng *rand.Rand, tier string) {
		rounds := 250
		if tier == "thorough" {
			rounds = 6000
		} else if tier == "search" {
			rounds = 1500
		}
		var pend []*c15Pending
		for _, p := range c15Witnesses() {
			c15RunProbe(r, p, &pend)
		}
		for i := 0; i < rounds && !expired(); i++ {
			n := rng.Intn(10)
			p := &c15Probe{Rows: c15GenRows(rng, n), Batch: 1 + rng.Intn(4)}
			p.Fuel = n + 3
			switch rng.Intn(3) {
			case 0:
				p.Chain.Ords = c15GenOrds(rng, 1+rng.Intn(2), false)
			case 1:
				p.Chain.Atoms = []c15Atom{c15GenAtom(rng, p.Rows, false), c15GenAtom(rng, p.Rows, true)}
				if rng.Intn(2) == 0 {
					p.Chain.Atoms = append(p.Chain.Atoms, c15GenAtom(rng, p.Rows, rng.Intn(2) == 0))
				}
			default:
				p.Chain.Lims = []limCall{{"limit", 0}}
				if rng.Intn(2) == 0 {
					p.Chain.Lims = append(p.Chain.Lims, limCall{"offset", rng.Intn(3)})
				}
			}
			if rng.Intn(3) == 0 && len(p.Chain.Lims) == 0 {
				p.Chain.Lims = c15GenLims(rng, 2, n/2+2)
			}
			c15RunProbe(r, p, &pend)
		}
		c15Flush(r, &pend)
		for _, id := range []string{"F7-C15-user-order", "F7b-C15-or-cursor", "F7c-C15-limit-zero"} {
			if !listed(id) {
				r.Note("finding %s is not listed: its witness is judged as a violation", id)
			}
		}
		r.Note("regenerated facts: FindInBatches returns early on a stored LIMIT 0 = %v, Scan empties a slice destination when no row is read = %v",
			c15Facts().ZeroLimitReturn, c15Facts().ScanNoRowResetsSlice)
		r.H("facts.zeroLimitReturn", fmt.Sprint(c15Facts().ZeroLimitReturn))
		r.H("facts.scanNoRowResetsSlice", fmt.Sprint(c15Facts().ScanNoRowResetsSlice))
	})
	replayers["C15/findings"] = func(r *Result, input json.RawMessage) {
		var p c15Probe
		if err := json.Unmarshal(input, &p); err != nil {
			r.Note("bad replay input: %v", err)
			return
		}
		c15RunProbe(r, &p, nil)
	}
}
