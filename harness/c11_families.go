package main

import (
	"math/rand"
	"strings"
)

// Table / relation descriptors and world generators of the C11 model families (see c11_world.go).

func c11Pairs(xs ...string) [][2]string {
	var out [][2]string
	for i := 0; i+1 < len(xs); i += 2 {
		out = append(out, [2]string{xs[i], xs[i+1]})
	}
	return out
}

// key strings: every base comes in several letter cases; separators, the text "nil", digits, quotes, blanks
var c11StrBases = []string{"ab", "a", "b", "é", "x y", "a_b", "nil", "0", "a'b", "q%", "1"}

// a "near-equal" variant of a key string: another letter case, surrounding blanks, a numerically equal spelling —
// values that a normalising comparison (case folding, trimming, numeric parsing) would wrongly identify
func c11CaseVariant(rng *rand.Rand, s string) string {
	rs := []rune(s)
	switch rng.Intn(8) {
	case 0:
		return strings.ToUpper(s)
	case 1:
		return strings.ToUpper(string(rs[:1])) + string(rs[1:])
	case 2:
		if len(rs) > 1 {
			return string(rs[:len(rs)-1]) + strings.ToUpper(string(rs[len(rs)-1:]))
		}
	case 3:
		return s + " "
	case 4:
		if rng.Intn(2) == 0 {
			return " " + s
		}
		return s + "\t"
	case 5:
		if s == "0" || s == "1" {
			return []string{"0" + s, s + ".0", "+" + s}[rng.Intn(3)]
		}
	}
	return s
}

// n distinct key strings drawn from few bases, so that case variants of one base meet often
func c11StrKeys(rng *rand.Rand, n int) []string {
	bases := []string{c11StrBases[rng.Intn(len(c11StrBases))], c11StrBases[rng.Intn(4)]}
	seen := map[string]bool{}
	var out []string
	for tries := 0; len(out) < n && tries < 40; tries++ {
		b := bases[rng.Intn(len(bases))]
		if rng.Intn(5) == 0 {
			b = c11StrBases[rng.Intn(len(c11StrBases))]
		}
		k := c11CaseVariant(rng, b)
		if !seen[k] {
			seen[k] = true
			out = append(out, k)
		}
	}
	return out
}

// a foreign key value: one of the existing keys, NULL, or an orphan (often a case variant of an existing key)
func c11StrFK(rng *rand.Rand, keys []string, pNull, pOrphan int) interface{} {
	x := rng.Intn(100)
	if x < pNull {
		return nil
	}
	if x < pNull+pOrphan || len(keys) == 0 {
		if len(keys) > 0 && rng.Intn(2) == 0 {
			k := keys[rng.Intn(len(keys))]
			for i := 0; i < 4; i++ {
				v := c11CaseVariant(rng, strings.TrimSpace(strings.ToLower(k)))
				if !c11In(keys, v) {
					return v
				}
			}
		}
		return "zz" + c11StrBases[rng.Intn(3)]
	}
	return keys[rng.Intn(len(keys))]
}

func c11In(xs []string, x string) bool {
	for _, y := range xs {
		if x == y {
			return true
		}
	}
	return false
}

// soft-deleted?  c11DelHeavy (set per world by the suite loop): about half of all rows of every table are soft-deleted, so
// that Unscoped loads meet soft-deleted rows at every level (parent, joined relation, preloaded child, grandchild)
var c11DelHeavy bool

func c11Del(rng *rand.Rand, oneIn int) bool {
	if c11DelHeavy {
		return rng.Intn(5) < 2
	}
	return rng.Intn(oneIn) == 0
}

func init() {
	// ---------------- family S ----------------
	sOwnerRels := []c11RelD{
		{Field: "Group", Kind: "belongs_to", Child: "c11s_groups", Single: true, On: c11Pairs("group_code", "code")},
		{Field: "Card", Kind: "has_one", Child: "c11s_cards", Single: true, On: c11Pairs("code", "owner_code")},
		{Field: "Items", Kind: "has_many", Child: "c11s_items", On: c11Pairs("code", "owner_code")},
		{Field: "Tags", Kind: "many2many", Child: "c11s_tags", Via: "c11s_owner_tags", ViaP: c11Pairs("code", "owner_code"), ViaC: c11Pairs("tag_code", "code")},
		{Field: "Notes", Kind: "poly_many", Child: "c11s_notes", On: c11Pairs("code", "owner_id"), Const: c11Pairs("owner_type", "sown")},
		{Field: "Memo", Kind: "poly_one", Child: "c11s_notes", Single: true, On: c11Pairs("code", "owner_id"), Const: c11Pairs("owner_type", "smemo")},
		{Field: "Boss", Kind: "self_belongs_to", Child: "c11s_owners", Single: true, On: c11Pairs("boss_code", "code")},
		{Field: "Staff", Kind: "self_has_many", Child: "c11s_owners", On: c11Pairs("code", "boss_code")},
		{Field: "Friends", Kind: "self_many2many", Child: "c11s_owners", Via: "c11s_friends", ViaP: c11Pairs("code", "owner_code"), ViaC: c11Pairs("friend_code", "code")},
	}
	famS := &c11Family{Name: "S", Tables: []*c11Table{
		{Name: "c11s_owners", Model: &C11SOwner{}, Cols: []c11ColT{{"code", "str", false}, {"group_code", "str", true}, {"boss_code", "str", true}}, Rels: sOwnerRels},
		{Name: "c11s_groups", Model: &C11SGroup{}, Cols: []c11ColT{{"code", "str", false}}},
		{Name: "c11s_cards", Model: &C11SCard{}, Cols: []c11ColT{{"owner_code", "str", true}}},
		{Name: "c11s_items", Model: &C11SItem{}, Cols: []c11ColT{{"owner_code", "str", true}},
			Rels: []c11RelD{{Field: "Owner", Kind: "belongs_to", Child: "c11s_owners", Single: true, On: c11Pairs("owner_code", "code")}}},
		{Name: "c11s_tags", Model: &C11STag{}, Cols: []c11ColT{{"code", "code", false}}},
		{Name: "c11s_notes", Model: &C11SNote{}, Cols: []c11ColT{{"owner_id", "str", false}, {"owner_type", "str", false}}},
		{Name: "c11s_owner_tags", Cols: []c11ColT{{"owner_code", "str", false}, {"tag_code", "code", false}}},
		{Name: "c11s_friends", Cols: []c11ColT{{"owner_code", "str", false}, {"friend_code", "str", false}}},
		{Name: "c11b_owners", Model: &C11BOwner{}, Cols: []c11ColT{{"key", "bytes", false}},
			Rels: []c11RelD{{Field: "Items", Kind: "has_many", Child: "c11b_items", On: c11Pairs("key", "owner_key")}}},
		{Name: "c11b_items", Model: &C11BItem{}, Cols: []c11ColT{{"owner_key", "bytes", false}},
			Rels: []c11RelD{{Field: "Owner", Kind: "belongs_to", Child: "c11b_owners", Single: true, On: c11Pairs("owner_key", "key")}}},
	}}
	famS.Gen = func(rng *rand.Rand, mode int) c11World {
		w := c11World{Family: "S", Tables: map[string][]c11Row{}}
		add := func(t string, r c11Row) { w.Tables[t] = append(w.Tables[t], r) }
		groups := c11StrKeys(rng, 1+rng.Intn(3))
		for i, g := range groups {
			add("c11s_groups", c11Row{"code": g, "n": i + 1, "deleted_at": c11Del(rng, 4)})
		}
		owners := c11StrKeys(rng, 2+rng.Intn(4))
		for i, o := range owners {
			add("c11s_owners", c11Row{"code": o, "n": i + 1, "deleted_at": c11Del(rng, 7),
				"group_code": c11StrFK(rng, groups, 25, 20), "boss_code": c11StrFK(rng, owners, 35, 15)})
		}
		n := 0
		for _, o := range owners {
			if rng.Intn(2) == 0 {
				n++
				add("c11s_cards", c11Row{"n": n, "owner_code": o, "deleted_at": false})
			}
			for rng.Intn(3) == 0 {
				n++
				add("c11s_cards", c11Row{"n": n, "owner_code": o, "deleted_at": true})
			}
		}
		if rng.Intn(2) == 0 {
			n++
			add("c11s_cards", c11Row{"n": n, "owner_code": c11StrFK(rng, nil, 40, 60), "deleted_at": false})
		}
		for i, k := 0, rng.Intn(8); i < k; i++ {
			add("c11s_items", c11Row{"n": i + 1, "owner_code": c11StrFK(rng, owners, 10, 20), "deleted_at": c11Del(rng, 4)})
		}
		tags := c11StrKeys(rng, 1+rng.Intn(4))
		for i, t := range tags {
			add("c11s_tags", c11Row{"code": t, "n": i + 1, "deleted_at": c11Del(rng, 5)})
		}
		seenJ := map[[2]string]bool{}
		addJoin := func(tab, a, b, ca, cb string) {
			if !seenJ[[2]string{tab + a, b}] {
				seenJ[[2]string{tab + a, b}] = true
				add(tab, c11Row{ca: a, cb: b})
			}
		}
		for _, o := range owners {
			for _, t := range tags {
				if rng.Intn(3) == 0 {
					addJoin("c11s_owner_tags", o, t, "owner_code", "tag_code")
				}
			}
			for _, p := range owners {
				if rng.Intn(5) == 0 {
					addJoin("c11s_friends", o, p, "owner_code", "friend_code")
				}
			}
		}
		if rng.Intn(2) == 0 { // join rows pointing to missing owners / tags
			a, _ := c11StrFK(rng, owners, 0, 100).(string)
			addJoin("c11s_owner_tags", a, tags[0], "owner_code", "tag_code")
			b, _ := c11StrFK(rng, tags, 0, 100).(string)
			addJoin("c11s_owner_tags", owners[0], b, "owner_code", "tag_code")
		}
		memo := map[string]bool{}
		for i, k := 0, rng.Intn(7); i < k; i++ {
			o, _ := c11StrFK(rng, owners, 0, 20).(string)
			typ := []string{"sown", "sown", "smemo", "other", "SOWN"}[rng.Intn(5)]
			del := c11Del(rng, 4)
			if typ == "smemo" && !del {
				if memo[o] {
					del = true
				}
				memo[o] = true
			}
			add("c11s_notes", c11Row{"n": i + 1, "owner_id": o, "owner_type": typ, "deleted_at": del})
		}
		bkeys := c11StrKeys(rng, 1+rng.Intn(3))
		for i, k := range bkeys {
			add("c11b_owners", c11Row{"key": k, "n": i + 1, "deleted_at": c11Del(rng, 6)})
		}
		for i, k := 0, rng.Intn(5); i < k; i++ {
			add("c11b_items", c11Row{"n": i + 1, "owner_key": c11StrFK(rng, bkeys, 10, 20), "deleted_at": c11Del(rng, 4)})
		}
		return w
	}
	c11Families["S"] = famS

	// ---------------- family U ----------------
	uOwnerRels := []c11RelD{
		{Field: "Group", Kind: "belongs_to", Child: "c11u_groups", Single: true, On: c11Pairs("group_id", "id")},
		{Field: "Card", Kind: "has_one", Child: "c11u_cards", Single: true, On: c11Pairs("id", "owner_id")},
		{Field: "Items", Kind: "has_many", Child: "c11u_items", On: c11Pairs("id", "owner_id")},
		{Field: "Tags", Kind: "many2many", Child: "c11u_tags", Via: "c11u_owner_tags", ViaP: c11Pairs("id", "owner_id"), ViaC: c11Pairs("tag_id", "id")},
		{Field: "Notes", Kind: "poly_many", Child: "c11u_notes", On: c11Pairs("id", "owner_id"), Const: c11Pairs("owner_type", "uown")},
		{Field: "Memo", Kind: "poly_one", Child: "c11u_notes", Single: true, On: c11Pairs("id", "owner_id"), Const: c11Pairs("owner_type", "umemo")},
		{Field: "Boss", Kind: "self_belongs_to", Child: "c11u_owners", Single: true, On: c11Pairs("boss_id", "id")},
		{Field: "Staff", Kind: "self_has_many", Child: "c11u_owners", On: c11Pairs("id", "boss_id")},
		{Field: "Friends", Kind: "self_many2many", Child: "c11u_owners", Via: "c11u_friends", ViaP: c11Pairs("id", "owner_id"), ViaC: c11Pairs("friend_id", "id")},
	}
	famU := &c11Family{Name: "U", Tables: []*c11Table{
		{Name: "c11u_owners", Model: &C11UOwner{}, Cols: []c11ColT{{"id", "uint", false}, {"group_id", "int", true}, {"boss_id", "uint", true}}, Rels: uOwnerRels},
		{Name: "c11u_groups", Model: &C11UGroup{}, Cols: []c11ColT{{"id", "int", false}}},
		{Name: "c11u_cards", Model: &C11UCard{}, Cols: []c11ColT{{"owner_id", "uint", false}}},
		{Name: "c11u_items", Model: &C11UItem{}, Cols: []c11ColT{{"owner_id", "uint", true}},
			Rels: []c11RelD{{Field: "Owner", Kind: "belongs_to", Child: "c11u_owners", Single: true, On: c11Pairs("owner_id", "id")}}},
		{Name: "c11u_tags", Model: &C11UTag{}, Cols: []c11ColT{{"id", "int", false}}},
		{Name: "c11u_notes", Model: &C11UNote{}, Cols: []c11ColT{{"owner_id", "uint", false}, {"owner_type", "str", false}}},
		{Name: "c11u_owner_tags", Cols: []c11ColT{{"owner_id", "uint", false}, {"tag_id", "int", false}}},
		{Name: "c11u_friends", Cols: []c11ColT{{"owner_id", "uint", false}, {"friend_id", "uint", false}}},
	}}
	famU.Gen = func(rng *rand.Rand, mode int) c11World {
		w := c11World{Family: "U", Tables: map[string][]c11Row{}}
		add := func(t string, r c11Row) { w.Tables[t] = append(w.Tables[t], r) }
		intKeys := func(n int, pool []int) []int {
			perm := rng.Perm(len(pool))
			var out []int
			for i := 0; i < n && i < len(pool); i++ {
				out = append(out, pool[perm[i]])
			}
			return out
		}
		fk := func(keys []int, pNull, pOrphan int, zeroOK bool) interface{} {
			x := rng.Intn(100)
			if x < pNull {
				return nil
			}
			if x < pNull+pOrphan || len(keys) == 0 {
				if zeroOK && rng.Intn(2) == 0 {
					return 0
				}
				return 90 + rng.Intn(5)
			}
			return keys[rng.Intn(len(keys))]
		}
		groups := intKeys(1+rng.Intn(3), []int{-2, -1, 1, 2, 10, 1 << 40})
		for i, g := range groups {
			add("c11u_groups", c11Row{"id": g, "n": i + 1, "deleted_at": c11Del(rng, 4)})
		}
		owners := intKeys(2+rng.Intn(4), []int{1, 2, 3, 10, 11, 12, 100, 1 << 33})
		for i, o := range owners {
			add("c11u_owners", c11Row{"id": o, "n": i + 1, "deleted_at": c11Del(rng, 7), "group_id": fk(groups, 25, 20, true), "boss_id": fk(owners, 35, 15, true)})
		}
		n := 0
		for _, o := range owners {
			if rng.Intn(2) == 0 {
				n++
				add("c11u_cards", c11Row{"n": n, "owner_id": o, "deleted_at": false})
			}
			for rng.Intn(3) == 0 {
				n++
				add("c11u_cards", c11Row{"n": n, "owner_id": o, "deleted_at": true})
			}
		}
		if rng.Intn(2) == 0 {
			n++
			add("c11u_cards", c11Row{"n": n, "owner_id": fk(nil, 0, 100, true), "deleted_at": false})
		}
		for i, k := 0, rng.Intn(8); i < k; i++ {
			add("c11u_items", c11Row{"n": i + 1, "owner_id": fk(owners, 10, 20, true), "deleted_at": c11Del(rng, 4)})
		}
		tags := intKeys(1+rng.Intn(4), []int{-3, -1, 1, 2, 3, 21})
		for i, t := range tags {
			add("c11u_tags", c11Row{"id": t, "n": i + 1, "deleted_at": c11Del(rng, 5)})
		}
		for _, o := range owners {
			for _, t := range tags {
				if rng.Intn(3) == 0 {
					add("c11u_owner_tags", c11Row{"owner_id": o, "tag_id": t})
				}
			}
			for _, p := range owners {
				if rng.Intn(5) == 0 {
					add("c11u_friends", c11Row{"owner_id": o, "friend_id": p})
				}
			}
		}
		if rng.Intn(2) == 0 {
			add("c11u_owner_tags", c11Row{"owner_id": 95, "tag_id": tags[0]})
			add("c11u_owner_tags", c11Row{"owner_id": owners[0], "tag_id": 77})
		}
		memo := map[int]bool{}
		for i, k := 0, rng.Intn(7); i < k; i++ {
			o := c11Norm(fk(owners, 0, 20, true)).(int64)
			typ := []string{"uown", "uown", "umemo", "other", "c11u_owners"}[rng.Intn(5)]
			del := c11Del(rng, 4)
			if typ == "umemo" && !del {
				if memo[int(o)] {
					del = true
				}
				memo[int(o)] = true
			}
			add("c11u_notes", c11Row{"n": i + 1, "owner_id": o, "owner_type": typ, "deleted_at": del})
		}
		return w
	}
	c11Families["U"] = famU

	// ---------------- family C ----------------
	cOrderRels := []c11RelD{
		{Field: "Cust", Kind: "belongs_to", Child: "c11c_custs", Single: true, On: c11Pairs("cust_tenant", "tenant", "cust_id", "id", "cust_zone", "zone")},
		{Field: "Lines", Kind: "has_many", Child: "c11c_lines", On: c11Pairs("region", "o_region", "code", "o_code")},
		{Field: "Receipt", Kind: "has_one", Child: "c11c_receipts", Single: true, On: c11Pairs("region", "o_region", "code", "o_code")},
		{Field: "Labels", Kind: "many2many", Child: "c11c_labels", Via: "c11c_order_labels", ViaP: c11Pairs("region", "o_region", "code", "o_code"), ViaC: c11Pairs("l_ns", "ns", "l_num", "num")},
		{Field: "Parent", Kind: "self_belongs_to", Child: "c11c_orders", Single: true, On: c11Pairs("p_region", "region", "p_code", "code")},
		{Field: "Subs", Kind: "self_has_many", Child: "c11c_orders", On: c11Pairs("region", "p_region", "code", "p_code")},
		{Field: "Peers", Kind: "self_many2many", Child: "c11c_orders", Via: "c11c_peers", ViaP: c11Pairs("region", "a_region", "code", "a_code"), ViaC: c11Pairs("b_region", "region", "b_code", "code")},
	}
	famC := &c11Family{Name: "C", Tables: []*c11Table{
		{Name: "c11c_orders", Model: &C11COrder{}, Cols: []c11ColT{{"region", "uint", false}, {"code", "str", false}, {"cust_tenant", "int", false}, {"cust_id", "uint", false}, {"cust_zone", "str", false}, {"p_region", "uint", true}, {"p_code", "str", true}}, Rels: cOrderRels},
		{Name: "c11c_custs", Model: &C11CCust{}, Cols: []c11ColT{{"tenant", "int", false}, {"id", "uint", false}, {"zone", "str", false}}},
		{Name: "c11c_lines", Model: &C11CLine{}, Cols: []c11ColT{{"o_region", "uint", true}, {"o_code", "str", true}},
			Rels: []c11RelD{{Field: "Order", Kind: "belongs_to", Child: "c11c_orders", Single: true, On: c11Pairs("o_region", "region", "o_code", "code")}}},
		{Name: "c11c_receipts", Model: &C11CReceipt{}, Cols: []c11ColT{{"o_region", "uint", false}, {"o_code", "str", false}}},
		{Name: "c11c_labels", Model: &C11CLabel{}, Cols: []c11ColT{{"ns", "str", false}, {"num", "uint", false}}},
		{Name: "c11c_order_labels", Cols: []c11ColT{{"o_region", "uint", false}, {"o_code", "str", false}, {"l_ns", "str", false}, {"l_num", "uint", false}}},
		{Name: "c11c_peers", Cols: []c11ColT{{"a_region", "uint", false}, {"a_code", "str", false}, {"b_region", "uint", false}, {"b_code", "str", false}}},
	}}
	famC.Gen = func(rng *rand.Rand, mode int) c11World {
		w := c11World{Family: "C", Tables: map[string][]c11Row{}}
		add := func(t string, r c11Row) { w.Tables[t] = append(w.Tables[t], r) }
		codes := []string{"", "a", "A", "b", "ab", "AB", "a ", " a", "1", "01"}
		if mode == 1 {
			codes = append(codes, "a_b", "nil", "1_a")
		}
		type ok struct {
			r int
			c string
		}
		var orders []ok
		seen := map[ok]bool{}
		for i, k := 0, 2+rng.Intn(4); i < k; i++ {
			o := ok{rng.Intn(3), codes[rng.Intn(len(codes))]}
			if (o.r == 0 && o.c == "") || seen[o] {
				continue
			}
			seen[o] = true
			orders = append(orders, o)
		}
		if len(orders) == 0 {
			orders = append(orders, ok{0, "a"})
		}
		type ck struct {
			t, i int
			z    string
		}
		var custs []ck
		seenC := map[ck]bool{}
		for i, k := 0, 1+rng.Intn(4); i < k; i++ {
			c := ck{rng.Intn(2), rng.Intn(3), []string{"", "z", "Z", "z "}[rng.Intn(4)]}
			if (c.t == 0 && c.i == 0 && c.z == "") || seenC[c] {
				continue
			}
			seenC[c] = true
			custs = append(custs, c)
			add("c11c_custs", c11Row{"tenant": c.t, "id": c.i, "zone": c.z, "n": len(custs), "deleted_at": c11Del(rng, 5)})
		}
		// a composite reference: existing | all NULL | partly NULL | orphan differing in one component
		ref := func(pNull, pPart, pOrphan int) (interface{}, interface{}) {
			x := rng.Intn(100)
			o := orders[rng.Intn(len(orders))]
			switch {
			case x < pNull:
				return nil, nil
			case x < pNull+pPart:
				if rng.Intn(2) == 0 {
					return nil, o.c
				}
				return o.r, nil
			case x < pNull+pPart+pOrphan:
				for i := 0; i < 6; i++ {
					p := ok{o.r, o.c}
					if rng.Intn(2) == 0 {
						p.r = rng.Intn(3)
					} else {
						p.c = codes[rng.Intn(len(codes))]
					}
					if !seen[p] {
						return p.r, p.c
					}
				}
				return 9, "zz"
			}
			return o.r, o.c
		}
		for i, o := range orders {
			r := c11Row{"region": o.r, "code": o.c, "n": i + 1, "deleted_at": c11Del(rng, 8), "cust_tenant": 0, "cust_id": 0, "cust_zone": ""}
			switch x := rng.Intn(10); {
			case x < 6 && len(custs) > 0:
				c := custs[rng.Intn(len(custs))]
				r["cust_tenant"], r["cust_id"], r["cust_zone"] = c.t, c.i, c.z
			case x < 8:
				r["cust_tenant"], r["cust_id"], r["cust_zone"] = rng.Intn(2), rng.Intn(3), []string{"", "z", "Z", "y"}[rng.Intn(4)]
			}
			r["p_region"], r["p_code"] = ref(40, 10, 10)
			add("c11c_orders", r)
		}
		for i, k := 0, rng.Intn(9); i < k; i++ {
			a, b := ref(10, 10, 20)
			add("c11c_lines", c11Row{"n": i + 1, "o_region": a, "o_code": b, "deleted_at": c11Del(rng, 4)})
		}
		n := 0
		for _, o := range orders {
			if rng.Intn(2) == 0 {
				n++
				add("c11c_receipts", c11Row{"n": n, "o_region": o.r, "o_code": o.c, "deleted_at": false})
			}
			for rng.Intn(3) == 0 {
				n++
				add("c11c_receipts", c11Row{"n": n, "o_region": o.r, "o_code": o.c, "deleted_at": true})
			}
		}
		for i := 0; i < 2; i++ {
			if rng.Intn(2) == 0 {
				n++
				a, b := ref(0, 0, 100)
				if rng.Intn(3) == 0 {
					a, b = 0, ""
				}
				add("c11c_receipts", c11Row{"n": n, "o_region": a, "o_code": b, "deleted_at": false})
			}
		}
		type lk struct {
			ns  string
			num int
		}
		var labels []lk
		seenL := map[lk]bool{}
		nss := []string{"", "x", "X", "y", "x "}
		if mode == 1 {
			nss = append(nss, "x_1", "nil")
		}
		for i, k := 0, 1+rng.Intn(4); i < k; i++ {
			l := lk{nss[rng.Intn(len(nss))], rng.Intn(3)}
			if (l.ns == "" && l.num == 0) || seenL[l] {
				continue
			}
			seenL[l] = true
			labels = append(labels, l)
			add("c11c_labels", c11Row{"ns": l.ns, "num": l.num, "n": len(labels), "deleted_at": c11Del(rng, 5)})
		}
		for _, o := range orders {
			for _, l := range labels {
				if rng.Intn(3) == 0 {
					add("c11c_order_labels", c11Row{"o_region": o.r, "o_code": o.c, "l_ns": l.ns, "l_num": l.num})
				}
			}
			for _, p := range orders {
				if rng.Intn(5) == 0 {
					add("c11c_peers", c11Row{"a_region": o.r, "a_code": o.c, "b_region": p.r, "b_code": p.c})
				}
			}
		}
		if rng.Intn(2) == 0 && len(labels) > 0 {
			add("c11c_order_labels", c11Row{"o_region": 8, "o_code": "zz", "l_ns": labels[0].ns, "l_num": labels[0].num})
			add("c11c_order_labels", c11Row{"o_region": orders[0].r, "o_code": orders[0].c, "l_ns": "zz", "l_num": 8})
		}
		return w
	}
	c11Families["C"] = famC
}
