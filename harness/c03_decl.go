package main

// C03, round 4: FIELD DECLARATIONS.  Generated model types (reflect.StructOf) over the tag grammar of schema/field.go:
// permissions (`->`, `<-`, `<-:create`, `<-:update`, `<-:false`, `->:false`, `-`, `-:migration`, combinations) × default kinds
// (none, literal, DB expression, `default:null`) × key conventions (field named ID with / without a column rename, read-only
// ID, `primaryKey` on other names, composite with zero parts, autoIncrement true / false, autoIncrementIncrement, ID next to a
// tagged key, key inside an embedded struct, DB-generated string key, no key, NoLowerCase naming) × embedded / prefixed /
// twice-embedded structs with column tags × pointer fields, named types, Valuer/Scanner types, serializers, auto time.
//
//  * suite "attrs" (correspondence): real schema.Parse of a generated declaration (wild tag spellings, letter case, broken
//    defaults, crossing columns) vs Lean Model.SchemaAttrs.parseDecl: per field Name / DBName / BindNames / GORMDataType /
//    PrimaryKey / AutoIncrement(+Increment) / HasDefaultValue / DefaultValue(+Interface) / Creatable / Updatable / Readable /
//    auto times / IgnoreMigration; per schema DBNames, column owners, PrimaryFields, PrioritizedPrimaryField,
//    FieldsWithDefaultDBValue; and the RETURNING list + INSERT column list of the statements Create builds (DryRun) for an
//    all-zero and an all-non-zero record, struct and slice (theorems C03_db_default_returned_any_permission,
//    C03_id_field_is_key_any_column, C03_db_filled_column_read_back_partial).
//  * suite "decl" (e2e): AutoMigrate → Create (single / slice of values / slice of pointers / CreateInBatches; default, in a
//    transaction, PrepareStmt, SkipDefaultTransaction) → every record re-read with First into a fresh struct and with Take
//    into a map: loaded == what the declaration says the row holds; the in-memory record == the loaded one, INCLUDING
//    database-generated defaults of read-only columns and keys under renamed columns; generated keys non-zero and distinct.
//
// LATITUDES.  Without RETURNING a database-generated non-key value cannot be learnt: the record may keep its zero.  A field
// without create permission that was handed a non-zero value may keep it (Create does not write it).  Unreadable fields
// (`->:false`) are judged on the in-memory side only (left as given).  One INSERT never mixes given and omitted values of a
// DB-default column (SQLite dialector renders DEFAULT inside VALUES).  autoIncrementIncrement > 1 only with RETURNING or one
// record per INSERT (SQLite always steps by 1).
// FINDINGS (unchanged tree): F27 — a column without create permission whose default is a LITERAL (`->;default:42`) is
// neither written nor asked back: the row holds 42, the record keeps 0.  F28 — a field named ID that is ignored (`-`) is
// still taken for the prioritized primary key: AutoMigrate / Create build statements around an empty column name.

import (
	"encoding/json"
	"fmt"
	"math/rand"
	"reflect"
	"sort"
	"strconv"
	"strings"
	"sync"

	"gorm.io/gorm"
	"gorm.io/gorm/schema"
)

const c03F27 = "F27-C03-readonly-literal-default"
const c03F27What = "a column without create permission and with a LITERAL default is neither written nor read back by Create: the row holds the default, the in-memory record keeps its zero"
const c03F28 = "F28-C03-ignored-id-is-key"
const c03F28What = "a field named ID that carries `-` (no column) is still made the prioritized primary key: AutoMigrate and Create build SQL around an empty column name and fail"

// ---- leaf types ----

// Lean Kind class of the leaf types (reflect.Indirect(fieldValue).Kind() after Valuer unwrapping, field.go:139-233)
var c03GClass = map[string]string{
	"bool": "bool", "*bool": "bool", "int8": "int", "int16": "int", "int32": "int", "int64": "int", "int": "int", "*int64": "int", "*int": "int",
	"uint8": "uint", "uint32": "uint", "uint64": "uint", "uint": "uint", "*uint": "uint", "float64": "float", "*float64": "float",
	"string": "string", "*string": "string", "time": "time", "*time": "time", "bytes": "bytes",
	"MyStr": "string", "MyI32": "int", "MyU16": "uint", "NullInt64": "int", "NullString": "string", "NullTime": "time", "NullBool": "bool",
	"CVPair": "string", "CUpper": "string", "CShift": "int", "json:struct": "other", "json:[]string": "other", "gob:struct": "other", "self:doc": "other", "self:list": "other",
}

var c03GAtomBy = func() map[string]c03Atom {
	m := map[string]c03Atom{}
	for _, a := range c03AtomList {
		m[a.Name] = a
	}
	return m
}()

// ---- declarations ----

type c03GNode struct {
	Name string     `json:"name"`
	T    string     `json:"t,omitempty"` // leaf type ("" = embedded struct)
	Tag  string     `json:"tag"`
	Anon bool       `json:"anon,omitempty"`
	Ptr  bool       `json:"ptr,omitempty"`
	Kids []c03GNode `json:"kids,omitempty"`
	// the oracle's view of a leaf (fixed by the generator, never parsed back from Tag)
	Col    string `json:"col,omitempty"`    // explicit column ("" = default naming), without the enclosing prefixes
	Prefix string `json:"prefix,omitempty"` // embedded struct: embeddedPrefix
	NoCol  bool   `json:"nocol,omitempty"`  // `-`
	NoC    bool   `json:"noc,omitempty"`    // no create permission
	NoR    bool   `json:"nor,omitempty"`    // not readable
	NoMig  bool   `json:"nomig,omitempty"`  // `-:migration`: the harness adds the column itself
	Def    string `json:"def,omitempty"`    // "" | lit | db | dbrand | null | auto (gorm fills the time)
	Want   string `json:"want,omitempty"`   // canonical loaded value when the default applies ("" = any non-zero)
	DDLDef string `json:"ddl,omitempty"`    // DEFAULT clause for a column the harness adds itself
	GenKey bool   `json:"genkey,omitempty"` // integer key generated by the database when left zero
	AppKey bool   `json:"appkey,omitempty"` // application-assigned key part
	Inc    int64  `json:"inc,omitempty"`    // autoIncrementIncrement declared (> 1)
}

func c03GType(nodes []c03GNode) reflect.Type {
	var sf []reflect.StructField
	for _, n := range nodes {
		f := reflect.StructField{Name: n.Name, Tag: reflect.StructTag("gorm:" + strconv.Quote(n.Tag))}
		if n.T != "" {
			f.Type = c03GAtomBy[n.T].Typ
		} else {
			f.Type = c03GType(n.Kids)
			if n.Ptr {
				f.Type = reflect.PointerTo(f.Type)
			}
			f.Anonymous = n.Anon
		}
		sf = append(sf, f)
	}
	return reflect.StructOf(sf)
}

type c03GLeaf struct {
	N      *c03GNode
	Index  []int
	Ptrs   []bool // per hop: the hop goes through a pointer to an embedded struct
	Column string
	Path   string
}

func c03GFlatten(nodes []c03GNode, ns schema.NamingStrategy, index []int, ptrs []bool, prefix, path string) (out []c03GLeaf) {
	for i := range nodes {
		n := &nodes[i]
		idx := append(append([]int{}, index...), i)
		if n.T == "" {
			out = append(out, c03GFlatten(n.Kids, ns, idx, append(append([]bool{}, ptrs...), n.Ptr), prefix+n.Prefix, path+n.Name+".")...)
			continue
		}
		col := n.Col
		if col == "" {
			col = ns.ColumnName("", n.Name)
		}
		if n.NoCol {
			col = ""
		} else {
			col = prefix + col
		}
		out = append(out, c03GLeaf{N: n, Index: idx, Ptrs: append(append([]bool{}, ptrs...), false), Column: col, Path: path + n.Name})
	}
	return
}

// field of rec reached through the embedded structs (pointers allocated on the way)
func (l c03GLeaf) of(rec reflect.Value) reflect.Value {
	v := rec
	for h, i := range l.Index {
		v = v.Field(i)
		if l.Ptrs[h] {
			if v.IsNil() {
				v.Set(reflect.New(v.Type().Elem()))
			}
			v = v.Elem()
		}
	}
	return v
}

func c03GDeclJSON(nodes []c03GNode, ns schema.NamingStrategy) []interface{} {
	out := []interface{}{}
	for _, n := range nodes {
		if n.T == "" {
			out = append(out, []interface{}{"e", n.Name, n.Anon, n.Tag, c03GDeclJSON(n.Kids, ns)})
		} else {
			out = append(out, []interface{}{"f", n.Name, c03GClass[n.T], n.Tag, ns.ColumnName("", n.Name), strings.HasPrefix(n.T, "self:"), strings.HasPrefix(n.T, "*") || strings.HasPrefix(n.T, "Null")})
		}
	}
	return out
}

func c03GDesc(nodes []c03GNode) string {
	var parts []string
	for _, n := range nodes {
		if n.T == "" {
			k := "embed"
			if n.Anon {
				k = "anon"
			}
			if n.Ptr {
				k = "*" + k
			}
			parts = append(parts, fmt.Sprintf("%s:%s{%s}[%s]", n.Name, k, n.Tag, c03GDesc(n.Kids)))
		} else {
			parts = append(parts, fmt.Sprintf("%s:%s{%s}", n.Name, n.T, n.Tag))
		}
	}
	return strings.Join(parts, " ")
}

// random letter case of a tag key (ParseTagSetting upper-cases keys)
func c03GKeyCase(rng *rand.Rand, k string) string {
	switch rng.Intn(6) {
	case 0:
		return strings.ToUpper(k)
	case 1:
		return strings.ToLower(k)
	}
	return k
}

func c03GJoinTags(rng *rand.Rand, parts []string) string {
	var ps []string
	for _, p := range parts {
		if p != "" {
			ps = append(ps, p)
		}
	}
	rng.Shuffle(len(ps), func(i, j int) { ps[i], ps[j] = ps[j], ps[i] })
	return strings.Join(ps, ";")
}

// ---- suite "attrs": wild declarations, parse only ----

var c03GWildTypes = []string{"int64", "int64", "int32", "int", "uint", "uint8", "string", "string", "bool", "float64", "time", "bytes", "*int64", "*string", "*time", "MyI32", "MyStr",
	"NullInt64", "NullString", "NullTime", "CUpper", "CShift", "CVPair", "json:struct", "json:[]string", "self:doc"}
var c03GWildNames = []string{"ID", "ID", "Id", "Name", "Code", "Key", "Num", "CreatedAt", "UpdatedAt", "Note", "Rank", "Serial", "UserID", "HTTPCode"}

func c03GWildDefault(rng *rand.Rand, class string) string {
	k := c03GKeyCase(rng, "default")
	switch rng.Intn(12) {
	case 0:
		return k + ":(abs(-7))"
	case 1:
		return k + ":null"
	case 2:
		return k + ":NULL"
	case 3:
		return k + ":"
	case 4:
		return k + ": 42 "
	case 5:
		return k + ":''"
	case 6:
		return k + ":lower(hex(randomblob(4)))"
	case 7:
		return k + ":Null"
	}
	switch class {
	case "int":
		return k + ":" + []string{"42", "0", "-3", "+5", "abc", "9223372036854775808", "1.5", "0x1F", "007"}[rng.Intn(9)]
	case "uint":
		return k + ":" + []string{"42", "0", "-3", "18446744073709551615", "abc"}[rng.Intn(5)]
	case "string":
		return k + ":" + []string{"abc", "'q w'", `"dq"`, "'it''s'", "false", "(", "a:b", `x\;y`}[rng.Intn(8)]
	case "bool":
		return k + ":" + []string{"true", "false", "1", "0", "T", "yes", "TRUE"}[rng.Intn(7)]
	case "float":
		return k + ":" + []string{"1.5", "-2", "+0.25", "abc"}[rng.Intn(4)]
	case "time":
		return k + ":CURRENT_TIMESTAMP"
	}
	return k + ":x"
}

func c03GWildLeafTag(rng *rand.Rand, class string, names []string) string {
	var parts []string
	if rng.Intn(3) == 0 {
		c := []string{"c_" + strconv.Itoa(rng.Intn(4)), "id", "ID", "Id", "parcel_no", names[rng.Intn(len(names))], strings.ToLower(names[rng.Intn(len(names))]), ""}[rng.Intn(8)]
		parts = append(parts, c03GKeyCase(rng, "column")+":"+c)
	}
	if rng.Intn(4) == 0 {
		parts = append(parts, []string{"primaryKey", "primary_key", "PRIMARYKEY", "primarykey:true", "primaryKey:false", "primaryKey:FALSE", "primaryKey:yes", "primary_key:"}[rng.Intn(8)])
	}
	if rng.Intn(6) == 0 {
		parts = append(parts, c03GKeyCase(rng, "autoIncrement")+[]string{"", ":true", ":false", ":False", ":1"}[rng.Intn(5)])
	}
	if rng.Intn(10) == 0 {
		parts = append(parts, c03GKeyCase(rng, "autoIncrementIncrement")+":"+[]string{"1", "2", "10", "x", "-1"}[rng.Intn(5)])
	}
	if rng.Intn(3) == 0 {
		parts = append(parts, c03GWildDefault(rng, class))
	}
	if rng.Intn(3) == 0 {
		parts = append(parts, []string{"->", "->:false", "->:FALSE", "->:true", "<-", "<-:create", "<-:update", "<-:create,update", "<-:false", "<-:Create", "-", "-:all", "-:migration", "-:Migration", "- : -",
			"->;<-:create", "->:false;<-:create", "<-:false;->:false", "-;<-", "-:migration;->"}[rng.Intn(20)])
	}
	if rng.Intn(8) == 0 {
		parts = append(parts, c03GKeyCase(rng, "autoCreateTime")+[]string{"", ":milli", ":nano", ":NANO", ":false", ":Milli"}[rng.Intn(6)])
	}
	if rng.Intn(10) == 0 {
		parts = append(parts, c03GKeyCase(rng, "autoUpdateTime")+[]string{"", ":milli", ":nano", ":false"}[rng.Intn(4)])
	}
	if rng.Intn(12) == 0 {
		parts = append(parts, "type:"+[]string{"text", "integer", "INT", "bytes", ""}[rng.Intn(5)])
	}
	if rng.Intn(20) == 0 {
		parts = append(parts, "serializer:"+[]string{"json", "JSON", "gob", "nosuch"}[rng.Intn(4)])
	}
	if rng.Intn(15) == 0 {
		parts = append(parts, []string{"not null", "size:64", "index", "comment:a\\;b", " ", "unique"}[rng.Intn(6)])
	}
	return c03GJoinTags(rng, parts)
}

func c03GStripDefault(tag string) string {
	var keep []string
	for _, p := range strings.Split(tag, ";") {
		if !strings.HasPrefix(strings.ToUpper(strings.TrimSpace(p)), "DEFAULT:") {
			keep = append(keep, p)
		}
	}
	return strings.Join(keep, ";")
}

func c03GWildLevel(rng *rand.Rand, depth int) []c03GNode {
	names := append([]string{}, c03GWildNames...)
	rng.Shuffle(len(names), func(i, j int) { names[i], names[j] = names[j], names[i] })
	// distinct Go names per level
	seen := map[string]bool{}
	var pool []string
	for _, n := range names {
		if !seen[n] {
			seen[n] = true
			pool = append(pool, n)
		}
	}
	if rng.Intn(3) != 0 { // keep an ID around most of the time
		for i, n := range pool {
			if n == "ID" {
				pool[0], pool[i] = pool[i], pool[0]
			}
		}
	}
	nLeaf := 1 + rng.Intn(4)
	var out []c03GNode
	for i := 0; i < nLeaf && i < len(pool); i++ {
		t := c03GWildTypes[rng.Intn(len(c03GWildTypes))]
		if pool[i] == "ID" && rng.Intn(3) != 0 {
			t = []string{"int64", "uint", "int32", "string", "MyI32"}[rng.Intn(5)]
		}
		a := c03GAtomBy[t]
		tag := c03GWildLeafTag(rng, c03GClass[t], pool)
		if t == "CShift" || t == "CUpper" || t == "CVPair" {
			// custom Scanner types: what field.Set makes of a literal default is the type's own business (not modelled)
			tag = c03GStripDefault(tag)
		}
		if a.Tag != "" {
			tag = strings.TrimPrefix(a.Tag+";"+tag, ";")
			tag = strings.TrimSuffix(tag, ";")
		}
		out = append(out, c03GNode{Name: pool[i], T: t, Tag: tag})
	}
	if depth < 3 && rng.Intn(2) == 0 {
		nEmb := 1 + rng.Intn(2)
		kids := c03GWildLevel(rng, depth+1)
		for e := 0; e < nEmb; e++ {
			n := c03GNode{Name: []string{"Audit", "Base"}[e], Anon: rng.Intn(2) == 0, Ptr: rng.Intn(4) == 0, Kids: kids}
			if e == 1 && rng.Intn(2) == 0 {
				n.Kids = c03GWildLevel(rng, depth+1) // else: the SAME struct embedded twice
			}
			var parts []string
			if !n.Anon || rng.Intn(4) == 0 {
				parts = append(parts, c03GKeyCase(rng, "embedded"))
			}
			if rng.Intn(2) == 0 {
				parts = append(parts, c03GKeyCase(rng, "embeddedPrefix")+":"+[]string{"p_", "x", "Au_", ""}[rng.Intn(4)])
			}
			if rng.Intn(12) == 0 {
				parts = append(parts, []string{"primaryKey", "autoIncrement:false", "<-:false", "->"}[rng.Intn(4)])
			}
			n.Tag = c03GJoinTags(rng, parts)
			out = append(out, n)
		}
	}
	rng.Shuffle(len(out), func(i, j int) { out[i], out[j] = out[j], out[i] })
	return out
}

type c03GAttrsInput struct {
	NoLower bool       `json:"no_lower_case"`
	Nodes   []c03GNode `json:"nodes"`
	Desc    string     `json:"desc,omitempty"`
}

// one DryRun handle per naming strategy (the statement re-parses the type with the handle's own namer)
var c03GDryDB = func() func(noLower bool) *gorm.DB {
	var mu sync.Mutex
	dbs := map[bool]*gorm.DB{}
	return func(noLower bool) *gorm.DB {
		mu.Lock()
		defer mu.Unlock()
		if dbs[noLower] == nil {
			d, _ := c03Open(true, &gorm.Config{NowFunc: fixedNowFunc, NamingStrategy: schema.NamingStrategy{NoLowerCase: noLower}})
			dbs[noLower] = d.Session(&gorm.Session{DryRun: true})
		}
		return dbs[noLower]
	}
}()

func c03GIface(x interface{}) interface{} {
	switch v := x.(type) {
	case nil:
		return nil
	case bool:
		return []interface{}{"bool", v}
	case int64:
		return []interface{}{"int", strconv.FormatInt(v, 10)}
	case uint64:
		return []interface{}{"int", strconv.FormatUint(v, 10)}
	case string:
		return []interface{}{"str", v}
	case float64:
		return []interface{}{"float"}
	}
	return []interface{}{fmt.Sprintf("%T", x)}
}

// non-zero value for every column-backed leaf of rec (as far as the type's generator can produce one)
func c03GFill(rng *rand.Rand, rec reflect.Value, leaves []c03GLeaf) {
	for _, l := range leaves {
		fv := l.of(rec)
		a := c03GAtomBy[l.N.T]
		for try := 0; try < 30 && fv.IsZero(); try++ {
			fv.Set(a.Gen(rng).Convert(a.Typ))
		}
	}
}

// c03GRunAttrs: the real side of the "attrs" correspondence + the ops' arguments
func c03GRunAttrs(in c03GAttrsInput, rng *rand.Rand) (real interface{}, queries []interface{}, err error) {
	defer func() {
		if p := recover(); p != nil {
			err = fmt.Errorf("panic: %v", p)
		}
	}()
	ns := schema.NamingStrategy{NoLowerCase: in.NoLower}
	typ := c03GType(in.Nodes)
	sch, perr := schema.Parse(reflect.New(typ).Interface(), &sync.Map{}, ns)
	if perr != nil {
		return "error", nil, nil
	}
	index := map[*schema.Field]int{}
	var fields []interface{}
	for i, f := range sch.Fields {
		index[f] = i
		bn := f.BindNames
		if bn == nil {
			bn = []string{}
		}
		fields = append(fields, []interface{}{f.Name, f.DBName, bn, string(f.GORMDataType), f.DataType != "", f.PrimaryKey, f.AutoIncrement, strconv.FormatInt(f.AutoIncrementIncrement, 10),
			f.HasDefaultValue, f.DefaultValue, c03GIface(f.DefaultValueInterface), f.Creatable, f.Updatable, f.Readable, int(f.AutoCreateTime), int(f.AutoUpdateTime), f.IgnoreMigration})
	}
	idxs := func(fs []*schema.Field) []int {
		out := []int{}
		for _, f := range fs {
			out = append(out, index[f])
		}
		return out
	}
	dbNames := append([]string{}, sch.DBNames...)
	owners := []int{}
	for _, c := range sch.DBNames {
		owners = append(owners, index[sch.FieldsByDBName[c]])
	}
	var prio interface{}
	if sch.PrioritizedPrimaryField != nil {
		prio = index[sch.PrioritizedPrimaryField]
	}
	wdNames := []string{}
	for _, f := range sch.FieldsWithDefaultDBValue {
		wdNames = append(wdNames, f.DBName)
	}
	// the statements Create builds: all-zero / all-non-zero record, struct and slice
	leaves := c03GFlatten(in.Nodes, ns, nil, nil, "", "")
	inserts := []interface{}{}
	for q := 0; q < 4; q++ {
		single, fill := q < 2, q%2 == 1
		mk := func() reflect.Value {
			rec := reflect.New(typ)
			for _, l := range leaves {
				l.of(rec.Elem()) // allocate embedded pointers: their leaves are real zero values, not NULLs
			}
			if fill {
				c03GFill(rng, rec.Elem(), leaves)
			}
			return rec
		}
		var dest interface{}
		var probe reflect.Value
		if single {
			probe = mk()
			dest = probe.Interface()
		} else {
			sl := reflect.MakeSlice(reflect.SliceOf(reflect.PointerTo(typ)), 0, 2)
			probe = mk()
			sl = reflect.Append(sl, probe, probe)
			dest = sl.Interface()
		}
		mask := make([]bool, len(sch.Fields))
		for i, f := range sch.Fields {
			if f.ValueOf != nil {
				_, zero := f.ValueOf(nil, probe)
				mask[i] = !zero
			}
		}
		queries = append(queries, []interface{}{single, mask})
		var ins interface{}
		func() {
			defer func() {
				if p := recover(); p != nil {
					ins = nil
				}
			}()
			tx := c03GDryDB(in.NoLower).Table("decl_t").Create(dest)
			if tx.Error != nil {
				return
			}
			cols, ret := c03DParseSQL(tx.Statement.SQL.String())
			// the RETURNING list is the names of FieldsWithDefaultDBValue (same for all four statements)
			rl := []string{}
			if r, ok := ret.([]string); ok {
				rl = r
			}
			ins = []interface{}{cols, rl}
		}()
		inserts = append(inserts, ins)
	}
	real = []interface{}{fields, dbNames, owners, idxs(sch.PrimaryFields), prio, idxs(sch.FieldsWithDefaultDBValue), wdNames, inserts}
	return real, queries, nil
}

func c03AttrsSuite(r *Result, rng *rand.Rand, tier string) {
	n := 2500
	if tier == "thorough" {
		n = 40000
	}
	var ops [][]interface{}
	var ins []c03GAttrsInput
	var reals []interface{}
	for i := 0; i < n && !expired(); i++ {
		in := c03GAttrsInput{NoLower: rng.Intn(5) == 0, Nodes: c03GWildLevel(rng, 1)}
		switch i { // fixed probes: the witnesses of the theorems' counterexamples / non-vacuity examples
		case 0:
			in = c03GAttrsInput{Nodes: []c03GNode{{Name: "ID", T: "int64", Tag: "-"}, {Name: "Name", T: "string"}}}
		case 1:
			in = c03GAttrsInput{Nodes: []c03GNode{{Name: "ID", T: "int64", Tag: "column:parcel_no"}, {Name: "Serial", T: "string", Tag: "->;default:(lower(hex(randomblob(6))))"}, {Name: "V", T: "int64", Tag: "->;default:42"}}}
		}
		in.Desc = c03GDesc(in.Nodes)
		real, queries, err := c03GRunAttrs(in, rng)
		if err != nil {
			r.H("attrs.real", "panic(skipped)")
			continue
		}
		ns := schema.NamingStrategy{NoLowerCase: in.NoLower}
		if queries == nil {
			queries = []interface{}{}
		}
		ops = append(ops, []interface{}{"c03.attrs", c03GDeclJSON(in.Nodes, ns), queries})
		ins = append(ins, in)
		reals = append(reals, real)
	}
	if len(ops) == 0 {
		return
	}
	outs, err := AskLean(ops)
	if err != nil {
		r.Violate(Violation{Kind: "correspondence", Suite: "attrs", Note: err.Error()})
		return
	}
	for i, in := range ins {
		var ms string
		if json.Unmarshal(outs[i], &ms) == nil {
			if ms == "unmodelled" {
				r.H("attrs.verdict", "unmodelled(skipped)")
				continue
			}
		}
		real := reals[i]
		nontrivial := false
		if ra, ok := real.([]interface{}); ok {
			// INSERT / RETURNING of the four statements: compare where the real statement was built
			var model []json.RawMessage
			_ = json.Unmarshal(outs[i], &model)
			if len(model) == 8 {
				var mins []json.RawMessage
				_ = json.Unmarshal(model[7], &mins)
				rins := ra[7].([]interface{})
				wd := ra[6].([]string)
				okIns := true
				for q := range rins {
					if rins[q] == nil || q >= len(mins) {
						r.H("attrs.statement", "not-built")
						continue
					}
					pair := rins[q].([]interface{})
					r.H("attrs.statement", "built")
					if canon(pair[0]) != canonRaw(mins[q]) || (len(pair[1].([]string)) > 0 && canon(pair[1]) != canon(wd)) {
						okIns = false
					}
				}
				if !okIns {
					r.Violate(Violation{Kind: "correspondence", Suite: "attrs", Input: in, Observed: rins, Expected: json.RawMessage(model[7]),
						Note: "INSERT column list / RETURNING list of the statements Create builds differ from Model.SchemaAttrs.insertColsA / withDefaultNames"})
				}
				real = ra[:7]
				outs[i], _ = json.Marshal(model[:7])
			}
			for _, f := range ra[0].([]interface{}) {
				a := f.([]interface{})
				if a[8].(bool) || !a[11].(bool) || !a[13].(bool) || a[5].(bool) {
					nontrivial = true
				}
				r.H("attrs.field", fmt.Sprintf("pk=%v default=%v dbdefault=%v c=%v r=%v", a[5], a[8], a[8].(bool) && a[10] == nil, a[11], a[13]))
			}
			r.H("attrs.prioritized", fmt.Sprint(ra[4] != nil))
			r.H("attrs.fields-with-db-default", fmt.Sprint(minInt(len(ra[5].([]int)), 4)))
			r.H("attrs.verdict", "parsed")
		} else {
			r.H("attrs.verdict", "schema-error")
		}
		r.Case("attrs", in.Desc+fmt.Sprint(in.NoLower), nontrivial)
		r.CorrCompared++
		if canon(real) != canonRaw(outs[i]) {
			r.Violate(Violation{Kind: "correspondence", Suite: "attrs", Input: in, Observed: real, Expected: json.RawMessage(outs[i]),
				Note: "attributes of the parsed declaration (schema.Parse) differ from Model.SchemaAttrs.parseDecl: [fields[name,column,bindnames,gormtype,typed,pk,autoinc,inc,hasdefault,default,defaultiface,creatable,updatable,readable,autocreate,autoupdate,ignoremigration], DBNames, owners, PrimaryFields, Prioritized, FieldsWithDefaultDBValue, their columns]"})
		}
	}
}

// ---- suite "decl": executable declarations, end to end ----

var c03GKeyStyles = []string{"conv-id", "conv-id", "conv-id-renamed", "conv-id-renamed", "conv-id-readonly", "tagged-other", "tagged-string", "composite", "manual-int",
	"id-plus-tagged", "autoinc-tag", "dbgen-string", "embedded-id", "embedded-id", "none", "conv-id-nolower", "conv-id-named", "col-id"}

// the key styles of the tree under test: with the repair of F28 (regenerated fact Gen.priorityNeedsColumn) a field named ID
// that has no column is ordinary input space — it must simply be no key
func c03GKeyStylesNow() []string {
	if c03Facts().PriorityNeedsColumn {
		return append(append([]string{}, c03GKeyStyles...), "ignored-id", "ignored-id")
	}
	return c03GKeyStyles
}

var c03GRunTypes = []string{"int64", "int64", "int32", "uint", "string", "string", "bool", "float64", "time", "bytes", "*int64", "*string", "MyI32", "MyStr", "NullInt64", "NullString", "CUpper", "CShift", "CVPair", "json:struct", "json:[]string", "self:doc"}

var c03GRunPerms = []struct {
	Tag      string
	NoC, NoR bool
}{
	{"", false, false}, {"", false, false}, {"<-", false, false}, {"<-:create", false, false}, {"<-:create,update", false, false}, {"->;<-:create", false, false},
	{"->", true, false}, {"->", true, false}, {"<-:update", true, false}, {"<-:false", true, false},
	{"->:false;<-:create", false, true}, {"->:false", true, true},
}

func c03GLit(t reflect.Type, lit interface{}) reflect.Value {
	v := reflect.New(t).Elem()
	tgt := v
	if t.Kind() == reflect.Ptr {
		v.Set(reflect.New(t.Elem()))
		tgt = v.Elem()
	}
	switch x := lit.(type) {
	case int:
		switch tgt.Kind() {
		case reflect.Int, reflect.Int8, reflect.Int16, reflect.Int32, reflect.Int64:
			tgt.SetInt(int64(x))
		case reflect.Uint, reflect.Uint8, reflect.Uint16, reflect.Uint32, reflect.Uint64:
			tgt.SetUint(uint64(x))
		case reflect.String:
			tgt.SetString(strconv.Itoa(x))
		}
	case string:
		tgt.SetString(x)
	case bool:
		tgt.SetBool(x)
	case float64:
		tgt.SetFloat(x)
	}
	return v
}

// a non-key leaf of the executable grammar
func c03GRunLeaf(rng *rand.Rand, name string, f27 bool) c03GNode {
	t := c03GRunTypes[rng.Intn(len(c03GRunTypes))]
	n := c03GNode{Name: name, T: t}
	a := c03GAtomBy[t]
	var parts []string
	if a.Tag != "" {
		parts = append(parts, a.Tag)
	}
	p := c03GRunPerms[rng.Intn(len(c03GRunPerms))]
	n.NoC, n.NoR = p.NoC, p.NoR
	parts = append(parts, p.Tag)
	if rng.Intn(3) == 0 {
		n.Col = []string{"c_" + strings.ToLower(name), "Col" + name, name + "_x"}[rng.Intn(3)]
		parts = append(parts, c03GKeyCase(rng, "column")+":"+n.Col)
	}
	canonOf := func(lit interface{}) string { return c03Canon(c03GLit(a.Typ, lit)) }
	class := c03GClass[t]
	plain := t == "int64" || t == "int32" || t == "uint" || t == "*int64" || t == "MyI32" || t == "string" || t == "*string" || t == "MyStr" || t == "bool" || t == "float64"
	if plain && rng.Intn(2) == 0 {
		k := rng.Intn(4)
		if n.NoC && k == 0 && !f27 && rng.Intn(10) != 0 {
			k = 1 // no create permission + literal default: finding F27, generated rarely
		}
		if n.NoR && k != 0 {
			k = 0 // an unreadable column's database default cannot be observed through the model
		}
		switch {
		case class == "int" || class == "uint":
			switch k {
			case 0:
				n.Def, n.Want, n.DDLDef = "lit", canonOf(42), "DEFAULT 42"
				parts = append(parts, "default:42")
			case 1:
				n.Def, n.Want, n.DDLDef = "db", canonOf(7), "DEFAULT (abs(-7))"
				parts = append(parts, "default:(abs(-7))")
			case 2:
				n.Def, n.DDLDef = "dbrand", "DEFAULT (abs(random()) % 1000000000 + 1)"
				parts = append(parts, c03DRand)
			case 3:
				n.Def = "null"
				parts = append(parts, "default:"+[]string{"null", "NULL"}[rng.Intn(2)])
			}
		case class == "string":
			switch k {
			case 0:
				n.Def, n.Want, n.DDLDef = "lit", canonOf("q w"), "DEFAULT 'q w'"
				parts = append(parts, "default:'q w'")
			case 1:
				n.Def, n.Want, n.DDLDef = "db", canonOf("qw"), "DEFAULT (lower('QW'))"
				parts = append(parts, "default:(lower('QW'))")
			case 2:
				n.Def, n.DDLDef = "dbrand", "DEFAULT (lower(hex(randomblob(6))))"
				parts = append(parts, "default:(lower(hex(randomblob(6))))")
			case 3:
				n.Def = "null"
				parts = append(parts, "default:null")
			}
		case class == "bool" && !n.NoC:
			n.Def, n.Want, n.DDLDef = "lit", canonOf(true), "DEFAULT true"
			parts = append(parts, "default:true")
		case class == "float" && !n.NoC:
			n.Def, n.Want, n.DDLDef = "lit", canonOf(1.5), "DEFAULT 1.5"
			parts = append(parts, "default:1.5")
		}
	} else if (t == "int64" || t == "uint") && !n.NoC && rng.Intn(3) == 0 {
		n.Def = "auto"
		parts = append(parts, []string{"autoCreateTime", "autoCreateTime:milli", "autoCreateTime:nano", "autoUpdateTime:milli", "autoUpdateTime:nano"}[rng.Intn(5)])
	} else if t == "time" && !n.NoC && rng.Intn(3) == 0 {
		n.Def = "auto"
		parts = append(parts, []string{"autoCreateTime", "autoUpdateTime"}[rng.Intn(2)])
	}
	if plain && !n.NoR && (n.Def == "" || n.Def == "lit" || n.Def == "null") && rng.Intn(10) == 0 {
		n.NoMig = true // the harness adds the column itself (ADD COLUMN takes constant defaults only)
		parts = append(parts, "-:migration")
	}
	n.Tag = c03GJoinTags(rng, parts)
	return n
}

type c03GRunInput struct {
	Seed      int64      `json:"seed"`
	Key       string     `json:"key"`
	Shape     string     `json:"shape"` // single | values | pointers | batches
	N         int        `json:"n"`
	Batch     int        `json:"batch,omitempty"`
	Returning bool       `json:"returning"`
	Where     string     `json:"where"` // plain | tx | prepare | skiptx
	Probe     string     `json:"probe,omitempty"`
	Nodes     []c03GNode `json:"nodes,omitempty"`
	NoLower   bool       `json:"no_lower_case,omitempty"`
	Desc      string     `json:"desc,omitempty"`
}

// c03GGenRun builds an executable declaration (deterministic in the seed)
func c03GGenRun(rng *rand.Rand, key string, f27 bool) (nodes []c03GNode, noLower bool) {
	var keyNodes []c03GNode
	intKeyT := []string{"uint", "int64", "int32", "MyI32"}[rng.Intn(4)]
	switch key {
	case "conv-id":
		keyNodes = []c03GNode{{Name: "ID", T: intKeyT, GenKey: true}}
	case "conv-id-named":
		keyNodes = []c03GNode{{Name: "ID", T: "MyI32", GenKey: true}}
	case "conv-id-nolower":
		noLower = true
		keyNodes = []c03GNode{{Name: "ID", T: intKeyT, GenKey: true}}
	case "conv-id-renamed":
		c := []string{"parcel_no", "the_key", "Key", "pk"}[rng.Intn(4)]
		keyNodes = []c03GNode{{Name: "ID", T: intKeyT, Tag: c03GKeyCase(rng, "column") + ":" + c, Col: c, GenKey: true}}
	case "col-id":
		// not the NAME but the COLUMN is the conventional one
		c := []string{"id", "ID"}[rng.Intn(2)]
		keyNodes = []c03GNode{{Name: "Key", T: intKeyT, Tag: c03GKeyCase(rng, "column") + ":" + c, Col: c, GenKey: true}}
	case "conv-id-readonly":
		keyNodes = []c03GNode{{Name: "ID", T: intKeyT, Tag: "->", GenKey: true, NoC: true}}
	case "tagged-other":
		n := c03GNode{Name: "Code", T: intKeyT, GenKey: true}
		parts := []string{[]string{"primaryKey", "primary_key", "PRIMARYKEY", "primaryKey:true"}[rng.Intn(4)]}
		if rng.Intn(2) == 0 {
			n.Col = "code_no"
			parts = append(parts, "column:code_no")
		}
		n.Tag = c03GJoinTags(rng, parts)
		keyNodes = []c03GNode{n}
	case "tagged-string":
		keyNodes = []c03GNode{{Name: "Code", T: "string", Tag: "primaryKey", AppKey: true}}
	case "composite":
		keyNodes = []c03GNode{{Name: "K1", T: "string", Tag: "primaryKey", AppKey: true}, {Name: "K2", T: "int32", Tag: "primaryKey;autoIncrement:false", AppKey: true}}
	case "manual-int":
		keyNodes = []c03GNode{{Name: "ID", T: "int64", Tag: "primaryKey;autoIncrement:false", AppKey: true}}
	case "id-plus-tagged":
		// a tagged key next to a field named ID: ID is an ordinary column
		keyNodes = []c03GNode{{Name: "Code", T: "string", Tag: "primaryKey", AppKey: true}, {Name: "ID", T: "int64"}}
	case "autoinc-tag":
		n := c03GNode{Name: "Num", T: intKeyT, GenKey: true}
		parts := []string{"primaryKey", c03GKeyCase(rng, "autoIncrement") + []string{"", ":true"}[rng.Intn(2)]}
		switch rng.Intn(3) {
		case 0:
			parts = append(parts, "autoIncrementIncrement:1")
		case 1:
			n.Inc = 2
			parts = append(parts, "autoIncrementIncrement:2")
		}
		n.Tag = c03GJoinTags(rng, parts)
		keyNodes = []c03GNode{n}
	case "dbgen-string":
		keyNodes = []c03GNode{{Name: "Uid", T: "string", Tag: "primaryKey;default:(lower(hex(randomblob(8))))", Def: "dbrand", AppKey: false}}
	case "embedded-id":
		id := c03GNode{Name: "ID", T: intKeyT, GenKey: true}
		if rng.Intn(2) == 0 {
			id.Tag = "primaryKey"
		}
		if rng.Intn(3) == 0 {
			id.Col = "ident"
			id.Tag = c03GJoinTags(rng, []string{id.Tag, "column:ident"})
		}
		e := c03GNode{Name: "Base", Anon: rng.Intn(2) == 0, Ptr: rng.Intn(4) == 0, Kids: []c03GNode{id, c03GRunLeaf(rng, "Stamp", f27)}}
		var parts []string
		if !e.Anon {
			parts = append(parts, "embedded")
		}
		if rng.Intn(2) == 0 {
			e.Prefix = []string{"b_", "Base"}[rng.Intn(2)]
			parts = append(parts, "embeddedPrefix:"+e.Prefix)
		}
		e.Tag = strings.Join(parts, ";")
		keyNodes = []c03GNode{e}
	case "ignored-id":
		// generated only on a tree that carries the repair of F28: an ID without column is no key — alone (the model has no
		// primary key at all) or next to a tagged key
		id := c03GNode{Name: "ID", T: []string{intKeyT, "string"}[rng.Intn(2)], Tag: []string{"-", "-:all", "-;primaryKey", "->;-"}[rng.Intn(4)], NoCol: true, NoC: true, NoR: true}
		keyNodes = []c03GNode{id}
		if rng.Intn(2) == 0 {
			keyNodes = append(keyNodes, c03GNode{Name: "Code", T: intKeyT, Tag: "primaryKey", GenKey: true})
		}
	case "none":
	}
	names := []string{"Name", "Note", "Rank", "Serial", "Amount", "Flag", "Title"}
	rng.Shuffle(len(names), func(i, j int) { names[i], names[j] = names[j], names[i] })
	nLeaf := 1 + rng.Intn(4)
	var rest []c03GNode
	for i := 0; i < nLeaf; i++ {
		rest = append(rest, c03GRunLeaf(rng, names[i], f27))
	}
	if rng.Intn(3) == 0 {
		rest = append(rest, c03GNode{Name: "Hidden", T: "string", Tag: "-", NoCol: true, NoC: true, NoR: true})
	}
	if rng.Intn(4) == 0 {
		rest = append(rest, c03GNode{Name: []string{"CreatedAt", "UpdatedAt"}[rng.Intn(2)], T: []string{"int64", "time"}[rng.Intn(2)], Def: "auto"})
	}
	if rng.Intn(2) == 0 { // embedded struct(s) with tagged members; the same struct twice under different prefixes
		kids := []c03GNode{c03GRunLeaf(rng, "Zip", f27), c03GRunLeaf(rng, "Town", f27)}
		if rng.Intn(3) == 0 {
			inner := c03GNode{Name: "Geo", Anon: rng.Intn(2) == 0, Kids: []c03GNode{c03GRunLeaf(rng, "Lat", f27)}, Prefix: "g_"}
			inner.Tag = "embeddedPrefix:g_"
			if !inner.Anon {
				inner.Tag = "embedded;" + inner.Tag
			}
			kids = append(kids, inner)
		}
		e1 := c03GNode{Name: "Home", Anon: false, Ptr: rng.Intn(3) == 0, Kids: kids, Prefix: "home_", Tag: "embedded;embeddedPrefix:home_"}
		rest = append(rest, e1)
		if rng.Intn(2) == 0 {
			e2 := c03GNode{Name: "Work", Ptr: rng.Intn(3) == 0, Kids: kids, Prefix: "Work", Tag: "embeddedPrefix:Work;embedded"}
			rest = append(rest, e2)
		} else if rng.Intn(2) == 0 {
			e2 := c03GNode{Name: "Extra", Anon: true, Kids: []c03GNode{c03GRunLeaf(rng, "Memo", f27)}}
			rest = append(rest, e2)
		}
	}
	rest = append(rest, c03GNode{Name: "Payload", T: "string", Tag: "column:payload", Col: "payload"})
	rng.Shuffle(len(rest), func(i, j int) { rest[i], rest[j] = rest[j], rest[i] })
	if rng.Intn(3) == 0 {
		nodes = append(rest, keyNodes...)
	} else {
		nodes = append(keyNodes, rest...)
	}
	if rng.Intn(8) == 0 && key != "conv-id-nolower" && key != "embedded-id" {
		// (NoLowerCase with arbitrary names: columns are the Go names)
		noLower = true
	}
	return
}

type c03GBad struct {
	Code string
	Msg  string
}

func c03GRunDecl(r *Result, in c03GRunInput) (bads []c03GBad, nodes []c03GNode) {
	bad := func(code, f string, a ...interface{}) { bads = append(bads, c03GBad{code, fmt.Sprintf(f, a...)}) }
	defer func() {
		if p := recover(); p != nil {
			bad("panic", "panic: %v", p)
		}
	}()
	rng := rand.New(rand.NewSource(in.Seed))
	noLower := in.NoLower
	nodes = in.Nodes
	if nodes == nil {
		nodes, noLower = c03GGenRun(rng, in.Key, in.Probe == "F27")
	}
	ns := schema.NamingStrategy{NoLowerCase: noLower}
	typ := c03GType(nodes)
	leaves := c03GFlatten(nodes, ns, nil, nil, "", "")
	cfg := &gorm.Config{NowFunc: fixedNowFunc, NamingStrategy: ns}
	switch in.Where {
	case "prepare":
		cfg.PrepareStmt = true
	case "skiptx":
		cfg.SkipDefaultTransaction = true
	}
	db, sqlDB := c03Open(in.Returning, cfg)
	defer sqlDB.Close()
	const tbl = "decl_models"
	if err := db.Table(tbl).AutoMigrate(reflect.New(typ).Interface()); err != nil {
		bad("migrate", "AutoMigrate: %v", err)
		return
	}
	for _, l := range leaves {
		if l.N.NoMig && !l.N.NoCol {
			if err := db.Exec("ALTER TABLE `" + tbl + "` ADD COLUMN `" + l.Column + "` " + l.N.DDLDef).Error; err != nil {
				bad("migrate", "ADD COLUMN %s: %v", l.Column, err)
				return
			}
		}
	}
	// ---- values ----
	payIdx := -1
	for li, l := range leaves {
		if l.N.Name == "Payload" && len(l.Index) == 1 {
			payIdx = li
		}
	}
	perRecord := in.Shape == "single"
	given := reflect.MakeSlice(reflect.SliceOf(typ), in.N, in.N)
	colNonZero := make([]bool, len(leaves))
	for li := range leaves {
		colNonZero[li] = rng.Intn(3) != 0
	}
	presetKeys := rng.Intn(6) == 0
	for i := 0; i < in.N; i++ {
		rec := given.Index(i)
		for li, l := range leaves {
			fv := l.of(rec)
			a := c03GAtomBy[l.N.T]
			nonZero := colNonZero[li]
			dbDef := l.N.Def == "db" || l.N.Def == "dbrand" || l.N.Def == "null"
			if perRecord || !dbDef {
				nonZero = rng.Intn(3) != 0
			}
			switch {
			case li == payIdx:
				fv.SetString(fmt.Sprintf("p%d", i))
			case l.N.GenKey:
				if presetKeys && !l.N.NoC {
					fv.Set(c03GLit(a.Typ, 700+11*i))
				}
			case l.N.AppKey && l.N.T == "string":
				if !(in.Key == "composite" && i == 0) { // composite keys: a legitimate ZERO part
					fv.SetString(fmt.Sprintf("k%d", i))
				}
			case l.N.AppKey:
				if !(in.Key == "composite" && i == 1) {
					fv.Set(c03GLit(a.Typ, 900+7*i))
				}
			case in.Key == "dbgen-string" && l.N.Name == "Uid":
				// left to the database
			case l.N.NoC:
				// rarely a non-zero value in a field Create may not write (uniform per column for DB defaults: the second copy
				// of a twice-embedded struct IS written, see the latitude below)
				if (dbDef && !perRecord && colNonZero[li] && in.Seed%5 == 0) || ((perRecord || !dbDef) && rng.Intn(6) == 0) {
					for try := 0; try < 30 && fv.IsZero(); try++ {
						fv.Set(a.Gen(rng).Convert(a.Typ))
					}
				}
			case nonZero:
				for try := 0; try < 30 && fv.IsZero(); try++ {
					fv.Set(a.Gen(rng).Convert(a.Typ))
				}
			}
		}
	}
	mem := reflect.MakeSlice(reflect.SliceOf(typ), in.N, in.N)
	reflect.Copy(mem, given)
	// deep copy of reference values (pointers / slices / maps): re-generate through JSON-free reflect copy
	for i := 0; i < in.N; i++ {
		c03GDeepCopy(mem.Index(i), given.Index(i))
	}
	// ---- create ----
	create := func(tx *gorm.DB) error {
		switch in.Shape {
		case "single":
			for i := 0; i < in.N; i++ {
				if err := tx.Table(tbl).Create(mem.Index(i).Addr().Interface()).Error; err != nil {
					return err
				}
			}
		case "values":
			p := reflect.New(mem.Type())
			p.Elem().Set(mem)
			if err := tx.Table(tbl).Create(p.Interface()).Error; err != nil {
				return err
			}
			mem = p.Elem()
		case "pointers", "batches":
			ptrs := reflect.MakeSlice(reflect.SliceOf(reflect.PointerTo(typ)), in.N, in.N)
			for i := 0; i < in.N; i++ {
				ptrs.Index(i).Set(mem.Index(i).Addr())
			}
			if in.Shape == "pointers" {
				return tx.Table(tbl).Create(ptrs.Interface()).Error
			}
			return tx.Table(tbl).CreateInBatches(ptrs.Interface(), in.Batch).Error
		}
		return nil
	}
	var err error
	if in.Where == "tx" {
		err = db.Transaction(create)
	} else {
		err = create(db)
	}
	if err != nil {
		bad("create", "Create: %v", err)
		return
	}
	// ---- read back and judge ----
	keysSeen := map[string]int{}
	for i := 0; i < in.N; i++ {
		pay := fmt.Sprintf("p%d", i)
		loaded := reflect.New(typ)
		if e := db.Table(tbl).Where("payload = ?", pay).First(loaded.Interface()).Error; e != nil {
			bad("load", "rec %d: First: %v", i, e)
			continue
		}
		var row map[string]interface{}
		if e := db.Table(tbl).Where("payload = ?", pay).Take(&row).Error; e != nil {
			bad("load", "rec %d: Take(map): %v", i, e)
			continue
		}
		for _, l := range leaves {
			n := l.N
			a := c03GAtomBy[n.T]
			cn := func(v reflect.Value) string {
				if a.Canon != nil {
					return a.Canon(v)
				}
				return c03Canon(v)
			}
			gv, mv := l.of(given.Index(i)), l.of(mem.Index(i))
			lv := l.of(loaded.Elem())
			g, m, ld := cn(gv), cn(mv), cn(lv)
			zero := cn(reflect.Zero(a.Typ))
			where := fmt.Sprintf("rec %d field %s %s{%s}", i, l.Path, n.T, n.Tag)
			if n.NoCol {
				if _, ok := row[l.Column]; ok && l.Column != "" {
					bad("column", "%s: ignored field has a column", where)
				}
				if m != g {
					bad("mem", "%s: Create changed an ignored field %s -> %s", where, g, m)
				}
				continue
			}
			raw, has := row[l.Column]
			if !has {
				bad("column", "%s: the row has no column %q (columns %v)", where, l.Column, c03GKeys(row))
				continue
			}
			if n.NoR {
				// LATITUDE: unreadable — never loaded, the property has no observation of it; gorm may still fill it in memory
				// (literal default, auto time; also for a copy without create permission, see the FieldsByName latitude)
				continue
			}
			givenZero := gv.IsZero()
			generated := false // the database (not gorm) decides the stored value
			expect := ""       // canonical loaded value, "" = not determined here
			switch {
			case n.GenKey && (givenZero || n.NoC):
				generated = true
			case n.Name == "Uid" && in.Key == "dbgen-string":
				generated = true
			case n.NoC:
				switch n.Def {
				case "lit", "db":
					expect, generated = n.Want, true
				case "dbrand":
					generated = true
				default:
					expect = zero
				}
			case !givenZero:
				expect = g
			default:
				switch n.Def {
				case "lit":
					expect = n.Want
				case "db":
					expect, generated = n.Want, true
				case "dbrand":
					generated = true
				case "auto":
					generated = false
				default:
					expect = zero
				}
			}
			// (1) what First loads is what the declaration says the row holds
			if n.NoC && !givenZero && ld == g {
				// LATITUDE: the property does not demand that a missing create permission is honoured (gorm does not honour
				// it for the second copy of a twice-embedded struct: SelectAndOmitColumns goes through FieldsByName)
			} else if expect != "" && ld != expect {
				bad("load", "%s: given %s, expected to load %s, First loads %s (raw row value %v)", where, g, expect, ld, raw)
			}
			if expect == "" && (generated || n.Def == "auto") && ld == zero {
				bad("load", "%s: left zero for the database / gorm to fill, First loads the zero value (raw row value %v)", where, raw)
			}
			// (2) the map view agrees with the struct view for plainly stored kinds
			if s, ok := c03GRawCanon(raw, lv); ok && s != ld {
				bad("map", "%s: First loads %s, the map holds %v", where, ld, raw)
			}
			// (3) the in-memory record carries the row's value
			switch {
			case m == ld:
			case n.NoC && !givenZero && m == g:
				// LATITUDE: a field Create may not write keeps what the caller put there
			case generated && !in.Returning && !n.GenKey && m == g:
				// LATITUDE: no RETURNING — a database-generated non-key value cannot be learnt
			case n.NoC && n.Def == "lit" && m == g:
				bad("F27", "%s: the row holds the literal default %s, the in-memory record keeps %s", where, ld, m)
			default:
				bad("mem", "%s: the row holds %s (First), the in-memory record carries %s (given %s)", where, ld, m, g)
			}
			if n.GenKey {
				if ld == zero {
					bad("key", "%s: the generated key of the row is zero", where)
				}
				if j, dup := keysSeen[ld]; dup && j != i {
					bad("key", "%s: records %d and %d are stored under the same key %s", where, j, i, ld)
				}
				keysSeen[ld] = i
			}
			if r != nil && i == 0 {
				perm := "rw"
				if n.NoC {
					perm = "no-create"
				}
				r.H("decl.leaf", fmt.Sprintf("%s default=%s depth=%d", perm, n.Def, len(l.Index)))
				r.H("decl.type", n.T)
			}
		}
	}
	var cnt int64
	if e := db.Table(tbl).Count(&cnt).Error; e == nil && int(cnt) != in.N {
		bad("rows", "table holds %d rows, created %d", cnt, in.N)
	}
	return
}

func c03GKeys(m map[string]interface{}) []string {
	var ks []string
	for k := range m {
		ks = append(ks, k)
	}
	sort.Strings(ks)
	return ks
}

// canonical form of a raw row value, in the terms of the loaded Go value, for plainly stored kinds
func c03GRawCanon(raw interface{}, lv reflect.Value) (string, bool) {
	t := lv.Type()
	ptr := t.Kind() == reflect.Ptr
	if ptr {
		t = t.Elem()
	}
	if t.PkgPath() != "" && t.Kind() != reflect.Int32 && t.Kind() != reflect.String { // Valuer / struct kinds: not plain
		return "", false
	}
	if _, isValuer := reflect.New(t).Interface().(interface{ Scan(interface{}) error }); isValuer {
		return "", false
	}
	mk := func(set func(v reflect.Value)) string {
		v := reflect.New(t).Elem()
		set(v)
		if ptr {
			return "&" + c03Canon(v)
		}
		return c03Canon(v)
	}
	if raw == nil {
		if ptr {
			return "nil", true
		}
		return c03Canon(reflect.Zero(t)), true
	}
	switch t.Kind() {
	case reflect.Int, reflect.Int32, reflect.Int64:
		if x, ok := raw.(int64); ok {
			return mk(func(v reflect.Value) { v.SetInt(x) }), true
		}
	case reflect.Uint:
		if x, ok := raw.(int64); ok {
			return mk(func(v reflect.Value) { v.SetUint(uint64(x)) }), true
		}
	case reflect.String:
		switch x := raw.(type) {
		case string:
			return mk(func(v reflect.Value) { v.SetString(x) }), true
		case []byte:
			return mk(func(v reflect.Value) { v.SetString(string(x)) }), true
		}
	}
	return "", false
}

// c03GDeepCopy: dst = src without sharing pointers, slices or maps (so that what gorm does to the record handed to Create
// cannot leak into the reference copy)
func c03GDeepCopy(dst, src reflect.Value) {
	switch src.Kind() {
	case reflect.Ptr:
		if src.IsNil() {
			dst.Set(reflect.Zero(src.Type()))
			return
		}
		dst.Set(reflect.New(src.Type().Elem()))
		c03GDeepCopy(dst.Elem(), src.Elem())
	case reflect.Struct:
		if src.Type() == timeT {
			dst.Set(src)
			return
		}
		for i := 0; i < src.NumField(); i++ {
			if dst.Field(i).CanSet() {
				c03GDeepCopy(dst.Field(i), src.Field(i))
			} else {
				dst.Set(src)
				return
			}
		}
	case reflect.Slice:
		if src.IsNil() {
			dst.Set(reflect.Zero(src.Type()))
			return
		}
		dst.Set(reflect.MakeSlice(src.Type(), src.Len(), src.Len()))
		for i := 0; i < src.Len(); i++ {
			c03GDeepCopy(dst.Index(i), src.Index(i))
		}
	case reflect.Map:
		if src.IsNil() {
			dst.Set(reflect.Zero(src.Type()))
			return
		}
		dst.Set(reflect.MakeMap(src.Type()))
		for _, k := range src.MapKeys() {
			dst.SetMapIndex(k, src.MapIndex(k))
		}
	default:
		dst.Set(src)
	}
}

// verdict of one run: "" ok | finding id | "violation"
func c03GVerdict(in c03GRunInput, bads []c03GBad) string {
	if len(bads) == 0 {
		return ""
	}
	all := func(code string) bool {
		for _, b := range bads {
			if b.Code != code {
				return false
			}
		}
		return true
	}
	if all("F27") && listed(c03F27) {
		return c03F27
	}
	if in.Probe == "F28" && listed(c03F28) && (all("migrate") || all("create")) {
		return c03F28
	}
	return "violation"
}

func c03GMsgs(bads []c03GBad) []string {
	var out []string
	for i, b := range bads {
		if i == 6 {
			out = append(out, fmt.Sprintf("… %d more", len(bads)-6))
			break
		}
		out = append(out, b.Msg)
	}
	return out
}

func c03DeclSuite(r *Result, rng *rand.Rand, tier string) {
	n := 700
	if tier == "thorough" {
		n = 12000
	}
	for i := 0; i < n && !expired(); i++ {
		styles := c03GKeyStylesNow()
		in := c03GRunInput{Seed: rng.Int63(), Key: styles[rng.Intn(len(styles))], Shape: []string{"single", "values", "pointers", "batches"}[rng.Intn(4)],
			N: 1 + rng.Intn(4), Returning: rng.Intn(3) != 0, Where: []string{"plain", "plain", "tx", "prepare", "skiptx"}[rng.Intn(5)]}
		switch i {
		case 0: // probe of finding F27 (witness of C03_readonly_literal_default_counterexample)
			in = c03GRunInput{Seed: 1, Key: "probe", Shape: "single", N: 1, Returning: true, Where: "plain", Probe: "F27",
				Nodes: []c03GNode{{Name: "ID", T: "uint", GenKey: true}, {Name: "V", T: "int64", Tag: "->;default:42", NoC: true, Def: "lit", Want: "42"}, {Name: "Payload", T: "string", Tag: "column:payload", Col: "payload"}}}
		case 1: // probe of finding F28 (witness of C03_ignored_id_counterexample; on a repaired tree it is judged like any other
			// input: AutoMigrate and Create succeed, the table has no column for ID, the record is read back — C03_ignored_id_repaired)
			in = c03GRunInput{Seed: 2, Key: "probe", Shape: "single", N: 1, Returning: true, Where: "plain", Probe: "F28",
				Nodes: []c03GNode{{Name: "ID", T: "int64", Tag: "-", NoCol: true, NoC: true, NoR: true}, {Name: "Payload", T: "string", Tag: "column:payload", Col: "payload"}}}
		}
		if in.Shape == "batches" {
			in.Batch = 1 + rng.Intn(in.N+1)
		}
		bads, nodes := c03GRunDecl(r, in)
		in.Desc = c03GDesc(nodes)
		// autoIncrementIncrement > 1 is a promise about the database that SQLite does not keep: only where gorm does not
		// extrapolate keys from it (RETURNING, or one record per INSERT)
		if !in.Returning && in.Shape != "single" && strings.Contains(in.Desc, "autoIncrementIncrement:2") {
			r.H("decl.verdict", "skipped(increment-2 without RETURNING)")
			continue
		}
		r.H("decl.key", in.Key)
		r.H("decl.shape", in.Shape)
		r.H("decl.where", in.Where)
		r.H("decl.returning", fmt.Sprint(in.Returning))
		r.Case("decl", fmt.Sprint(in.Seed, in.Key, in.Shape, in.Returning, in.N, in.Where), true)
		switch v := c03GVerdict(in, bads); v {
		case "":
			r.H("decl.verdict", "ok")
		case c03F27:
			r.H("decl.verdict", "known-F27")
			r.KnownFinding(c03F27, c03F27What)
		case c03F28:
			r.H("decl.verdict", "known-F28")
			r.KnownFinding(c03F28, c03F28What)
		default:
			r.H("decl.verdict", "violation")
			r.Violate(Violation{Kind: "e2e", Suite: "decl", Input: in, Observed: c03GMsgs(bads),
				Expected: "after Create every in-memory record equals the row that stores it (First into a fresh struct, Take into a map), including database-generated defaults of read-only columns and keys under renamed columns"})
		}
	}
}

func init() {
	register("C03", c03AttrsSuite)
	register("C03", c03DeclSuite)
	replayers["C03/attrs"] = func(r *Result, input json.RawMessage) { r.Note("attrs replays are correspondence-only") }
	replayers["C03/decl"] = func(r *Result, input json.RawMessage) {
		var in c03GRunInput
		if json.Unmarshal(input, &in) != nil {
			return
		}
		bads, _ := c03GRunDecl(nil, in)
		switch v := c03GVerdict(in, bads); v {
		case "":
		case c03F27:
			r.KnownFinding(c03F27, c03F27What)
		case c03F28:
			r.KnownFinding(c03F28, c03F28What)
		default:
			r.Violate(Violation{Kind: "e2e", Suite: "decl", Input: in, Observed: c03GMsgs(bads)})
		}
	}
}
