package main

// C06: reusable handles are never changed by the chains and queries derived from them.
//
// A history is a list of ops over a growing list of handles (handle 0 = the handle returned by
// gorm.Open; op number i creates handle i+1).  Suites:
//   e2e  — every render (DryRun finisher) of the history is compared with the SAME chain replayed
//          alone on a fresh gorm.Open: only the ops the render depends on (its ancestors and the
//          ancestors of its group arguments) are executed.  No model involved.
//   tie  — the Lean heap model (Model/Heap.lean) runs the same history; the SQL + Vars of every
//          render, in the history and alone, must be what the model's tokens spell.
// Latitude: none needed — DryRun SQL text and Vars are deterministic for these chains.
//
// Discipline of the generator (the property's quantifier): a chain starts from a reusable handle
// (Open / Session / WithContext / Debug / Begin); an instance returned by a chain method (clone 0) is
// used at most once more (next chain call, finisher, derivation, or as an argument).

import (
	"context"
	"encoding/json"
	"fmt"
	"math/rand"
	"reflect"
	"regexp"
	"sort"
	"strings"

	"gorm.io/gorm"
	"gorm.io/gorm/clause"
)

type c06Op struct {
	Name string `json:"n"`
	Src  int    `json:"s"`
	A    int    `json:"a,omitempty"` // atom / count / argument handle / finisher
	K    int    `json:"k,omitempty"` // condition kind (0 Where, 1 Or, 2 Not) or slice prefix length
	Sl   int    `json:"sl,omitempty"`
	L    []int  `json:"l,omitempty"`
}

type c06Slice struct {
	Atoms []int `json:"atoms"`
	Cap   int   `json:"cap"`
}

type c06Hist struct {
	Slices []c06Slice `json:"slices"`
	Ops    []c06Op    `json:"ops"`
}

func c06Ints(l []int) []int {
	if l == nil {
		return []int{}
	}
	return l
}

func (o c06Op) lean() []interface{} {
	switch o.Name {
	case "cond", "condg":
		return []interface{}{o.Name, o.K, o.Src, o.A}
	case "orderc":
		return []interface{}{o.Name, o.Src, o.Sl, o.K}
	case "ret", "select", "omit":
		return []interface{}{o.Name, o.Src, c06Ints(o.L)}
	case "selects":
		return []interface{}{o.Name, o.Src, o.Sl, o.K, c06Ints(o.L)}
	case "skip":
		return []interface{}{"skip"}
	case "session", "debug", "newdb", "ctx", "begin", "retstar", "distinct", "unscoped", "model", "onconflict":
		return []interface{}{o.Name, o.Src}
	case "set", "iset", "mapcol", "errop":
		// chain calls whose effect is not part of the rendered SQL (Settings, ColumnMapping, DB.Error): for the
		// model they are getInstance + an unrendered field; their effect is judged by the e2e oracle (c06Out.Extra)
		return []interface{}{"unscoped", o.Src}
	case "render":
		if o.A >= 4 {
			return []interface{}{"render", o.Src, 0} // failing finisher: no SQL on the real code, the tie skips it
		}
		return []interface{}{o.Name, o.Src, o.A}
	default: // order group having havingg limit offset joins scopes table lock preload render
		return []interface{}{o.Name, o.Src, o.A}
	}
}

func (h c06Hist) lean(fuel int) []interface{} {
	sl := []interface{}{}
	for _, s := range h.Slices {
		sl = append(sl, []interface{}{c06Ints(s.Atoms), s.Cap})
	}
	ops := []interface{}{}
	clone := c06Clones(h)
	for _, o := range h.Ops {
		if o.Name == "debug" {
			// Debug() = getInstance() + Session(&Session{Logger}): on a chain instance it is Session, on a
			// clone-2 handle it clones the statement (= WithContext), on a clone-1 handle it starts empty (= Begin)
			o.Name = []string{"session", "begin", "ctx"}[clone[o.Src]]
		}
		ops = append(ops, o.lean())
	}
	return []interface{}{"c06.run", fuel, sl, ops}
}

func (o c06Op) args() []int {
	if o.Name == "condg" || o.Name == "havingg" {
		return []int{o.A}
	}
	return nil
}

func (o c06Op) String() string {
	switch o.Name {
	case "cond":
		return fmt.Sprintf("h%d.%s(c%d)", o.Src, []string{"Where", "Or", "Not"}[o.K], o.A)
	case "condg":
		return fmt.Sprintf("h%d.%s(h%d)", o.Src, []string{"Where", "Or", "Not"}[o.K], o.A)
	case "havingg":
		return fmt.Sprintf("h%d.Having(h%d)", o.Src, o.A)
	case "ret":
		return fmt.Sprintf("h%d.Clauses(Returning%v)", o.Src, o.L)
	case "select", "omit":
		return fmt.Sprintf("h%d.%s(%v)", o.Src, o.Name, o.L)
	case "selects":
		return fmt.Sprintf("h%d.Select(slice%d[:%d], %v)", o.Src, o.Sl, o.K, o.L)
	case "orderc":
		return fmt.Sprintf("h%d.Clauses(OrderBy{slice%d[:%d]})", o.Src, o.Sl, o.K)
	case "render":
		return fmt.Sprintf("h%d.%s()", o.Src, []string{"Find", "First", "Count", "Delete", "Find(&int)"}[o.A])
	case "errop":
		return fmt.Sprintf("h%d.%s", o.Src, []string{"Select(42)", "Select([]string{s1}, 42)", "Where((*int)(nil))", "Having((*int)(nil))", "Not((*int)(nil))", "Or((*int)(nil))"}[o.A])
	case "set", "iset":
		return fmt.Sprintf("h%d.%s(k%d, %d)", o.Src, o.Name, o.A, o.K)
	case "skip":
		return "-"
	}
	return fmt.Sprintf("h%d.%s(%d)", o.Src, o.Name, o.A)
}

func (h c06Hist) Desc() []string {
	out := []string{}
	for i, o := range h.Ops {
		out = append(out, fmt.Sprintf("h%d := %s", i+1, o.String()))
	}
	return out
}

// dependency mask of op k (the ops that must run for "the same chain alone")
func (h c06Hist) mask(k int) []bool {
	need := map[int]bool{k + 1: true}
	m := make([]bool, len(h.Ops))
	for i := k; i >= 0; i-- {
		if need[i+1] {
			m[i] = true
			need[h.Ops[i].Src] = true
			for _, a := range h.Ops[i].args() {
				need[a] = true
			}
		}
	}
	return m
}

// ---- execution on the real code --------------------------------------------------------------

type c06Out struct {
	SQL  string   `json:"sql"`
	Vars []string `json:"vars"`
	// Extra: what else of the finished chain decides its results — the error it carries, what it would preload,
	// its Settings (Set / InstanceSet), Unscoped, ColumnMapping, the clauses it holds.  Compared by the e2e oracle
	// only (the model does not speak about it).
	Extra string `json:"x,omitempty"`
}

var c06HexRe = regexp.MustCompile(`0x[0-9a-f]+`)

func c06Extra(t *gorm.DB) string {
	var parts []string
	if t.Error != nil {
		e := c06HexRe.ReplaceAllString(t.Error.Error(), "PTR")
		if len(e) > 60 {
			e = e[:60]
		}
		parts = append(parts, "err="+e)
	}
	st := t.Statement
	if len(st.Preloads) > 0 {
		var ks []string
		for k, v := range st.Preloads {
			ks = append(ks, fmt.Sprintf("%s%v", k, v))
		}
		sort.Strings(ks)
		parts = append(parts, "preloads="+strings.Join(ks, ","))
	}
	var set []string
	for k := 1; k <= 3; k++ {
		if v, ok := t.Get(fmt.Sprint("c06:k", k)); ok {
			set = append(set, fmt.Sprintf("k%d=%v", k, v))
		}
		if v, ok := t.InstanceGet(fmt.Sprint("c06:i", k)); ok {
			set = append(set, fmt.Sprintf("i%d=%v", k, v))
		}
	}
	if len(set) > 0 {
		parts = append(parts, "settings="+strings.Join(set, ","))
	}
	if st.Unscoped {
		parts = append(parts, "unscoped")
	}
	if len(st.ColumnMapping) > 0 {
		parts = append(parts, fmt.Sprintf("colmap=%v", st.ColumnMapping))
	}
	var cl []string
	for k, c := range st.Clauses {
		// EVERY entry with its shape: entries without an Expression (cleared, hint-decorated, markers) count too
		cl = append(cl, fmt.Sprintf("%s:%s%s%s%s%s", k, c06xBit(c.Expression != nil), c06xBit(c.BeforeExpression != nil),
			c06xBit(c.AfterNameExpression != nil), c06xBit(c.AfterExpression != nil), c06xBit(c.Builder != nil)))
	}
	sort.Strings(cl)
	if t.Error == nil { // a failed finisher stops at an arbitrary point of the build
		parts = append(parts, "clauses="+strings.Join(cl, ","))
	}
	return strings.Join(parts, ";")
}

var c06OmitFields = []string{"", "name", "age", "email", "z"}

type c06CtxKey struct{}

// c06Exec runs the ops selected by mask (nil = all) on a fresh gorm.Open and returns the output of
// every executed render op, keyed by op index.
func c06Exec(h c06Hist, mask []bool) map[int]c06Out {
	db, _, sqlDB := OpenRec(&gorm.Config{DryRun: true, AllowGlobalUpdate: true})
	defer sqlDB.Close()
	strs := make([][]string, len(h.Slices))
	ords := make([][]clause.OrderByColumn, len(h.Slices))
	for i, s := range h.Slices {
		c := s.Cap
		if c < len(s.Atoms) {
			c = len(s.Atoms)
		}
		strs[i] = make([]string, len(s.Atoms), c)
		ords[i] = make([]clause.OrderByColumn, len(s.Atoms), c)
		for j, a := range s.Atoms {
			strs[i][j] = fmt.Sprintf("s%d", a)
			ords[i][j] = clause.OrderByColumn{Column: clause.Column{Name: fmt.Sprintf("ob%d", a), Raw: true}}
		}
	}
	hs := []*gorm.DB{db}
	var txs []*gorm.DB
	outs := map[int]c06Out{}
	get := func(i int) *gorm.DB {
		if i < len(hs) && hs[i] != nil {
			return hs[i]
		}
		return db
	}
	condArgs := func(a int) (string, int) { return fmt.Sprintf("c%d = ?", a), a }
	for i, o := range h.Ops {
		if mask != nil && !mask[i] || o.Name == "skip" {
			hs = append(hs, nil)
			continue
		}
		s := get(o.Src)
		var t *gorm.DB
		switch o.Name {
		case "session":
			t = s.Session(&gorm.Session{})
		case "debug":
			t = s.Debug()
		case "newdb":
			t = s.Session(&gorm.Session{NewDB: true})
		case "ctx":
			t = s.WithContext(context.WithValue(context.Background(), c06CtxKey{}, i))
		case "begin":
			t = s.Begin()
			txs = append(txs, t)
		case "cond":
			q, v := condArgs(o.A)
			switch o.K {
			case 0:
				t = s.Where(q, v)
			case 1:
				t = s.Or(q, v)
			default:
				t = s.Not(q, v)
			}
		case "condg":
			g := get(o.A)
			switch o.K {
			case 0:
				t = s.Where(g)
			case 1:
				t = s.Or(g)
			default:
				t = s.Not(g)
			}
		case "order":
			t = s.Order(fmt.Sprintf("ob%d", o.A))
		case "orderc":
			k := o.K
			if k > len(ords[o.Sl]) {
				k = len(ords[o.Sl])
			}
			t = s.Clauses(clause.OrderBy{Columns: ords[o.Sl][:k]})
		case "group":
			t = s.Group(fmt.Sprintf("g%d", o.A))
		case "having":
			q, v := condArgs(o.A)
			t = s.Having(q, v)
		case "havingg":
			t = s.Having(get(o.A))
		case "ret":
			cols := make([]clause.Column, len(o.L))
			for j, a := range o.L {
				cols[j] = clause.Column{Name: fmt.Sprintf("rc%d", a)}
			}
			t = s.Clauses(clause.Returning{Columns: cols})
		case "retstar":
			t = s.Clauses(clause.Returning{})
		case "limit":
			t = s.Limit(o.A)
		case "offset":
			t = s.Offset(o.A)
		case "select":
			args := []interface{}{}
			for _, a := range o.L[1:] {
				args = append(args, fmt.Sprintf("s%d", a))
			}
			t = s.Select(fmt.Sprintf("s%d", o.L[0]), args...)
		case "selects":
			args := []interface{}{}
			for _, a := range o.L {
				args = append(args, fmt.Sprintf("s%d", a))
			}
			k := o.K
			if k > len(strs[o.Sl]) {
				k = len(strs[o.Sl])
			}
			t = s.Select(strs[o.Sl][:k], args...)
		case "omit":
			cols := []string{}
			for _, a := range o.L {
				cols = append(cols, c06OmitFields[a])
			}
			t = s.Omit(cols...)
		case "joins":
			t = s.Joins(fmt.Sprintf("JOIN j%d ON 1 = 1", o.A))
		case "scopes":
			a := o.A
			t = s.Scopes(func(d *gorm.DB) *gorm.DB { return d.Where(fmt.Sprintf("c%d = ?", a), a) })
		case "distinct":
			t = s.Distinct()
		case "table":
			t = s.Table(fmt.Sprintf("t%d", o.A))
		case "unscoped":
			t = s.Unscoped()
		case "model":
			t = s.Model(&VUser{})
		case "preload":
			t = s.Preload(fmt.Sprintf("P%d", o.A))
		case "onconflict":
			t = s.Clauses(clause.OnConflict{DoNothing: true})
		case "lock":
			t = s.Clauses(clause.Locking{Strength: []string{"", "UPDATE", "SHARE"}[o.A]})
		case "set":
			t = s.Set(fmt.Sprint("c06:k", o.A), o.K)
		case "iset":
			t = s.InstanceSet(fmt.Sprint("c06:i", o.A), o.K)
		case "mapcol":
			t = s.MapColumns(map[string]string{"name": fmt.Sprint("m", o.A)})
		case "errop":
			// chain calls that record an error — on the NEW instance, never on the receiver
			var np *int
			switch o.A {
			case 0:
				t = s.Select(42)
			case 1:
				t = s.Select([]string{"s1"}, 42)
			case 2:
				t = s.Where(np)
			case 3:
				t = s.Having(np)
			case 4:
				t = s.Not(np)
			default:
				t = s.Or(np)
			}
		case "render":
			switch o.A {
			case 0:
				var us []VUser
				t = s.Find(&us)
			case 1:
				var u VUser
				t = s.First(&u)
			case 2:
				var n int64
				t = s.Model(&VUser{}).Count(&n)
			case 3:
				t = s.Delete(&VUser{})
			default:
				var n int
				t = s.Find(&n) // fails: no model, no table (error on the finisher's own instance)
			}
			out := c06Out{SQL: t.Statement.SQL.String(), Vars: normArgs(t.Statement.Vars), Extra: c06Extra(t)}
			outs[i] = out
		default:
			panic("c06: unknown op " + o.Name)
		}
		hs = append(hs, t)
	}
	for _, t := range txs {
		t.Rollback()
	}
	return outs
}

// ---- expected SQL from the model's tokens ----------------------------------------------------

var c06DBNames = []string{"id", "name", "age", "z", "email", "updated_at"}

func c06Num(tok, prefix string) (int, bool) {
	if !strings.HasPrefix(tok, prefix) {
		return 0, false
	}
	n := 0
	rest := tok[len(prefix):]
	if rest == "" {
		return 0, false
	}
	for _, c := range rest {
		if c < '0' || c > '9' {
			return 0, false
		}
		n = n*10 + int(c-'0')
	}
	return n, true
}

// c06Spell turns the model's token list into the SQL text and Vars gorm must produce.
func c06Spell(toks []string) c06Out {
	if len(toks) == 0 {
		return c06Out{}
	}
	fin := toks[0]
	table := "v_users"
	var sel, omit, joins, cond, group, having, order, tail, ret []string
	hasGroup, hasLimit := false, false
	vars := []string{}
	distinct := false
	count := ""
	mode := ""
	omitted := map[string]bool{}
	var lateVars []string
	for _, t := range toks[1:] {
		switch {
		case t == "DISTINCT":
			distinct = true
		case t == "COUNT*":
			count = "count(*)"
		case t == "WHERE":
			mode = "where"
		case t == "GROUP":
			mode = "group"
			hasGroup = true
		case t == "HAVING":
			mode = "having"
			having = append(having, " HAVING ")
		case t == "ORDER":
			mode = "order"
		case t == "RETURNING":
			mode = "ret"
		case t == "RET*":
			ret = append(ret, "*")
		case t == "PK":
			order = append(order, "`"+table+"`.`id`")
		case t == "(" || t == ")":
			if mode == "having" {
				having = append(having, t)
			} else {
				cond = append(cond, t)
			}
		case t == "AND" || t == "OR":
			if mode == "having" {
				having = append(having, " "+t+" ")
			} else {
				cond = append(cond, " "+t+" ")
			}
		case t == "NOT":
			if mode == "having" {
				having = append(having, "NOT ")
			} else {
				cond = append(cond, "NOT ")
			}
		default:
			if n, ok := c06Num(t, "COUNTD"); ok {
				count = fmt.Sprintf("COUNT(DISTINCT(`s%d`))", n)
			} else if n, ok := c06Num(t, "COUNT"); ok {
				count = fmt.Sprintf("COUNT(`s%d`)", n)
			} else if n, ok := c06Num(t, "LIMIT"); ok {
				tail = append(tail, fmt.Sprint(" LIMIT ", n))
				hasLimit = true
			} else if n, ok := c06Num(t, "OFFSET"); ok {
				if !hasLimit {
					tail = append(tail, " LIMIT -1") // sqlite dialector: OFFSET needs a LIMIT
				}
				tail = append(tail, fmt.Sprint(" OFFSET ", n))
			} else if n, ok := c06Num(t, "LOCK"); ok {
				_ = n
				tail = append(tail, " ") // the sqlite dialector builds the FOR clause as nothing
			} else if n, ok := c06Num(t, "ob"); ok {
				order = append(order, fmt.Sprintf("ob%d", n))
			} else if n, ok := c06Num(t, "rc"); ok {
				ret = append(ret, fmt.Sprintf("`rc%d`", n))
			} else if n, ok := c06Num(t, "c"); ok {
				if mode == "having" {
					having = append(having, fmt.Sprintf("c%d = ?", n))
				} else {
					cond = append(cond, fmt.Sprintf("c%d = ?", n))
				}
				vars = append(vars, fmt.Sprint("i:", n))
			} else if n, ok := c06Num(t, "s"); ok {
				sel = append(sel, fmt.Sprintf("s%d", n))
			} else if n, ok := c06Num(t, "o"); ok {
				omit = append(omit, c06OmitFields[n])
				omitted[c06OmitFields[n]] = true
			} else if n, ok := c06Num(t, "t"); ok {
				table = fmt.Sprintf("t%d", n)
			} else if n, ok := c06Num(t, "j"); ok {
				joins = append(joins, fmt.Sprintf(" JOIN j%d ON 1 = 1", n))
			} else if n, ok := c06Num(t, "g"); ok {
				if len(group) > 0 {
					group = append(group, ",")
				}
				group = append(group, fmt.Sprintf("`g%d`", n))
			} else {
				return c06Out{SQL: "<unknown token " + t + ">"}
			}
		}
	}
	// PK was spelled with the default table; fix up when Table() was called
	for i := range order {
		order[i] = strings.Replace(order[i], "`v_users`.`id`", "`"+table+"`.`id`", 1)
	}
	vars = append(vars, lateVars...)
	var b strings.Builder
	if fin == "FIN3" {
		b.WriteString("DELETE FROM `" + table + "`")
	} else {
		b.WriteString("SELECT ")
		switch {
		case count != "":
			b.WriteString(count)
		default:
			if distinct && (len(sel) > 0 || len(omit) > 0 || len(joins) > 0) {
				b.WriteString("DISTINCT ") // clause.Select.Build: DISTINCT only in front of a column list
			}
			if len(sel) > 0 {
				b.WriteString(strings.Join(sel, ","))
			} else if len(omit) > 0 || len(joins) > 0 {
				cols := []string{}
				for _, n := range c06DBNames {
					if !omitted[n] {
						cols = append(cols, "`"+table+"`.`"+n+"`")
					}
				}
				b.WriteString(strings.Join(cols, ","))
			} else {
				b.WriteString("*")
			}
		}
		b.WriteString(" FROM `" + table + "`")
		b.WriteString(strings.Join(joins, ""))
	}
	if len(cond) > 0 {
		b.WriteString(" WHERE " + strings.Join(cond, ""))
	}
	if hasGroup {
		b.WriteString(" ")
		if len(group) > 0 {
			b.WriteString("GROUP BY " + strings.Join(group, ""))
		}
		b.WriteString(strings.Join(having, ""))
	}
	if len(order) > 0 {
		b.WriteString(" ORDER BY " + strings.Join(order, ","))
	}
	b.WriteString(strings.Join(tail, ""))
	if len(ret) > 0 {
		b.WriteString(" RETURNING " + strings.Join(ret, ","))
	}
	return c06Out{SQL: b.String(), Vars: vars}
}

// ---- generator ---------------------------------------------------------------------------------

type c06Gen struct {
	rng      *rand.Rand
	h        c06Hist
	clone    []int   // per handle: 0 chain instance, 1/2 reusable
	used     []bool  // chain instance already consumed
	where    [][]int // per handle: kinds of the elements of its WHERE list (0 plain/And, 1 single Or, 2 Not)
	retN     []int   // per handle: number of Returning merges with columns on its path (-1 = RETURNING *)
	scoped   []bool  // per handle: has pending Scopes
	ptrAlias []bool  // per handle: shares its *Statement with another reusable handle (Session / Session{NewDB} of or from a reusable handle)
	inTx     []bool  // per handle: descends from Begin (a nested Begin is an error, not a chain)
	nextAtom int
	clean    bool // avoid the shapes of the listed findings
	begins   int
}

func (g *c06Gen) atom() int { g.nextAtom++; return g.nextAtom }

func (g *c06Gen) add(o c06Op, clone int, where []int, retN int) int {
	g.h.Ops = append(g.h.Ops, o)
	g.clone = append(g.clone, clone)
	g.used = append(g.used, false)
	g.where = append(g.where, where)
	g.retN = append(g.retN, retN)
	sc := false
	if o.Src < len(g.scoped) && !(g.clone[o.Src] == 1 && clone == 0) && o.Name != "render" {
		sc = g.scoped[o.Src]
	}
	if o.Name == "scopes" {
		sc = true
	}
	g.scoped = append(g.scoped, sc)
	al := false
	if (o.Name == "session" || o.Name == "newdb") && o.Src < len(g.clone)-1 && g.clone[o.Src] > 0 {
		al = true // Session without Context shares the statement pointer with its (reusable) source
		g.ptrAlias[o.Src] = true
	}
	g.ptrAlias = append(g.ptrAlias, al)
	g.inTx = append(g.inTx, o.Name == "begin" || (o.Src < len(g.inTx) && g.inTx[o.Src]))
	return len(g.clone) - 1
}

// pickSrc: a reusable handle, or a not yet consumed chain instance (which it consumes)
func (g *c06Gen) pick(preferChain bool) int {
	var reusable, chains []int
	for i := range g.clone {
		if g.clone[i] > 0 {
			reusable = append(reusable, i)
		} else if !g.used[i] {
			chains = append(chains, i)
		}
	}
	if len(chains) > 0 && (preferChain || g.rng.Intn(3) > 0) {
		// prefer recent instances so chains get long
		i := chains[len(chains)-1-g.rng.Intn(min(len(chains), 3))]
		g.used[i] = true
		return i
	}
	// bias towards the most recently created reusable handles (shared ancestors with content)
	if g.rng.Intn(3) > 0 && len(reusable) > 1 {
		return reusable[len(reusable)-1-g.rng.Intn(min(len(reusable), 2))]
	}
	return reusable[g.rng.Intn(len(reusable))]
}

func min(a, b int) int {
	if a < b {
		return a
	}
	return b
}

func c06LeadingOr(w []int) bool {
	if len(w) < 2 || w[0] != 1 {
		return false
	}
	for _, k := range w {
		if k != 1 {
			return true
		}
	}
	return false
}

// base statement (WHERE kinds, returning count) a chain call on handle s starts from
func (g *c06Gen) base(s int) ([]int, int) {
	if g.clone[s] == 1 {
		return nil, 0
	}
	return append([]int(nil), g.where[s]...), g.retN[s]
}

func (g *c06Gen) step() {
	r := g.rng
	k := r.Intn(100)
	switch {
	case k < 14: // derive
		s := g.pick(true)
		name := []string{"session", "session", "session", "debug", "ctx", "ctx", "newdb", "begin"}[r.Intn(8)]
		if name == "begin" && (g.begins >= 2 || g.inTx[s]) {
			name = "session"
		}
		w, rn := append([]int(nil), g.where[s]...), g.retN[s]
		cl := 2
		switch name {
		case "newdb":
			cl = 1
		case "debug":
			if g.clone[s] == 1 {
				w, rn = nil, 0
			}
		case "begin":
			g.begins++
			if g.clone[s] == 1 {
				cl, w, rn = 1, nil, 0
			}
		}
		if g.clone[s] == 1 && name != "begin" {
			// Session on a clone-1 handle keeps its (empty-for-chains) statement; children start fresh
			if name == "newdb" {
				cl = 1
			}
		}
		g.add(c06Op{Name: name, Src: s}, cl, w, rn)
	case k < 30: // render
		s := g.pick(r.Intn(2) == 0)
		fin := []int{0, 0, 1, 2, 3, 3, 0, 0, 1, 2, 3, 4}[r.Intn(12)]
		w, rn := g.base(s)
		g.add(c06Op{Name: "render", Src: s, A: fin}, 0, w, rn)
		g.used[len(g.used)-1] = true
	case k < 50: // plain condition
		s := g.pick(false)
		kind := []int{0, 0, 0, 1, 1, 2}[r.Intn(6)]
		w, rn := g.base(s)
		g.add(c06Op{Name: "cond", Src: s, K: kind, A: g.atom()}, 0, append(w, kind), rn)
	case k < 58: // group argument
		arg := g.pickArg()
		if arg < 0 {
			return
		}
		s := g.pick(false)
		kind := []int{0, 0, 1, 2}[r.Intn(4)]
		w, rn := g.base(s)
		name := "condg"
		if r.Intn(5) == 0 {
			name = "havingg"
			g.add(c06Op{Name: name, Src: s, A: arg}, 0, w, rn)
			return
		}
		if g.scoped[arg] {
			// pending scopes: whether the group gets a condition depends on the tree (F24); the WHERE kinds are
			// only generator bookkeeping for the listed shapes, the argument is marked and never reused as one
			g.scoped[arg] = false
			g.add(c06Op{Name: name, Src: s, K: kind, A: arg}, 0, append(w, kind), rn)
			return
		}
		if len(g.where[arg]) == 0 && g.clone[arg] != 1 {
			// empty group: no condition added
			g.add(c06Op{Name: name, Src: s, K: kind, A: arg}, 0, w, rn)
			return
		}
		if g.clone[arg] == 1 {
			g.add(c06Op{Name: name, Src: s, K: kind, A: arg}, 0, w, rn)
			return
		}
		g.add(c06Op{Name: name, Src: s, K: kind, A: arg}, 0, append(w, kind), rn)
	case k < 68: // returning
		s := g.pick(false)
		w, rn := g.base(s)
		if g.clean && rn != 0 {
			g.add(c06Op{Name: "lock", Src: s, A: 1 + r.Intn(2)}, 0, w, rn)
			return
		}
		if r.Intn(8) == 0 {
			g.add(c06Op{Name: "retstar", Src: s}, 0, w, -1)
			return
		}
		n := 1 + r.Intn(2)
		if r.Intn(6) == 0 {
			n = 3
		}
		cols := []int{}
		for i := 0; i < n; i++ {
			cols = append(cols, g.atom())
		}
		if rn >= 0 {
			rn++
		}
		g.add(c06Op{Name: "ret", Src: s, L: cols}, 0, w, rn)
	default:
		s := g.pick(false)
		w, rn := g.base(s)
		var o c06Op
		switch r.Intn(22) {
		case 17:
			o = c06Op{Name: "preload", Src: s, A: 1 + r.Intn(3)}
		case 18:
			o = c06Op{Name: []string{"set", "iset"}[r.Intn(2)], Src: s, A: 1 + r.Intn(3), K: 1 + r.Intn(5)}
		case 19:
			o = c06Op{Name: "mapcol", Src: s, A: 1 + r.Intn(3)}
		case 20:
			o = c06Op{Name: "errop", Src: s, A: r.Intn(6)}
		case 21:
			o = c06Op{Name: []string{"unscoped", "model", "onconflict", "distinct"}[r.Intn(4)], Src: s, A: 1}
		case 0, 1:
			o = c06Op{Name: "order", Src: s, A: g.atom()}
		case 2:
			sl := g.slice(1)
			o = c06Op{Name: "orderc", Src: s, Sl: sl, K: 1 + r.Intn(len(g.h.Slices[sl].Atoms))}
		case 3:
			o = c06Op{Name: "group", Src: s, A: g.atom()}
		case 4:
			o = c06Op{Name: "having", Src: s, A: g.atom()}
		case 5:
			o = c06Op{Name: "limit", Src: s, A: 1 + r.Intn(9)}
		case 6:
			o = c06Op{Name: "offset", Src: s, A: 1 + r.Intn(9)}
		case 7:
			n := 1 + r.Intn(3)
			cols := []int{}
			for i := 0; i < n; i++ {
				cols = append(cols, g.atom())
			}
			o = c06Op{Name: "select", Src: s, L: cols}
		case 8:
			sl := g.slice(0)
			sp := g.h.Slices[sl]
			kk := 1 + r.Intn(len(sp.Atoms))
			extra := []int{}
			if !g.clean {
				for i := r.Intn(3); i > 0; i-- {
					extra = append(extra, g.atom())
				}
			}
			o = c06Op{Name: "selects", Src: s, Sl: sl, K: kk, L: extra}
		case 9:
			n := 1 + r.Intn(2)
			cols := []int{}
			for i := 0; i < n; i++ {
				cols = append(cols, 1+r.Intn(4))
			}
			o = c06Op{Name: "omit", Src: s, L: cols}
		case 10, 11:
			o = c06Op{Name: "joins", Src: s, A: g.atom()}
		case 12:
			o = c06Op{Name: "scopes", Src: s, A: g.atom()}
		case 13:
			o = c06Op{Name: "distinct", Src: s}
		case 14:
			o = c06Op{Name: "table", Src: s, A: 1 + r.Intn(3)}
		case 15:
			o = c06Op{Name: []string{"unscoped", "model", "onconflict", "preload"}[r.Intn(4)], Src: s, A: 1 + r.Intn(3)}
		default:
			o = c06Op{Name: "lock", Src: s, A: 1 + r.Intn(2)}
		}
		g.add(o, 0, w, rn)
	}
}

// a caller-owned slice of the given kind (0 = []string for Select, 1 = []OrderByColumn); kinds never mix
func (g *c06Gen) slice(kind int) int {
	var have []int
	for i := range g.h.Slices {
		if i%2 == kind {
			have = append(have, i)
		}
	}
	if len(have) > 0 && g.rng.Intn(3) > 0 {
		return have[g.rng.Intn(len(have))]
	}
	for len(g.h.Slices)%2 != kind {
		g.h.Slices = append(g.h.Slices, c06Slice{Atoms: []int{g.atom()}, Cap: 1})
	}
	n := 1 + g.rng.Intn(3)
	at := []int{}
	for i := 0; i < n; i++ {
		at = append(at, g.atom())
	}
	g.h.Slices = append(g.h.Slices, c06Slice{Atoms: at, Cap: n + g.rng.Intn(4)})
	return len(g.h.Slices) - 1
}

// pickArg: a handle to be used as group condition.  In clean mode the listed shapes are avoided:
// no argument whose WHERE is a single Or (F5) or starts with an Or followed by a non-Or (F23).
func (g *c06Gen) pickArg() int {
	var cands []int
	for i := range g.clone {
		if g.clone[i] == 0 && g.used[i] {
			continue
		}
		if i == 0 {
			continue
		}
		if g.scoped[i] && (g.clean || (g.clone[i] > 0 && g.ptrAlias[i])) {
			// BuildCondition runs executeScopes on the argument (F24): avoided in clean mode; the model keeps
			// statements by value, so a reusable argument whose *Statement is shared with another reusable
			// handle (scopes = nil hits both) is outside what the tie can follow
			continue
		}
		w := g.where[i]
		if g.clone[i] == 1 {
			w = g.where[i] // Session{NewDB} keeps the statement for argument use
		}
		if g.clean && ((len(w) == 1 && w[0] == 1) || c06LeadingOr(w)) {
			continue
		}
		cands = append(cands, i)
	}
	if len(cands) == 0 {
		return -1
	}
	i := cands[g.rng.Intn(len(cands))]
	if g.clone[i] == 0 {
		g.used[i] = true
	}
	return i
}

func c06Generate(rng *rand.Rand, maxOps int, clean bool) c06Hist {
	g := &c06Gen{rng: rng, clean: clean, clone: []int{1}, used: []bool{false}, where: [][]int{nil}, retN: []int{0}, scoped: []bool{false}, inTx: []bool{false}, ptrAlias: []bool{false}}
	n := 3 + rng.Intn(maxOps-2)
	// capacity-sensitive prefix: several merges of one clause kind on a shared ancestor
	if rng.Intn(3) == 0 {
		s := 0
		// the shared ancestor already CARRIES state of one kind (repeated: spare capacity) or of several kinds
		// (mixed) before the siblings are derived from it: every kind of builder state a chain method adds
		reps := 2 + rng.Intn(4)
		kind := rng.Intn(14)
		mixed := rng.Intn(3) == 0
		for i := 0; i < reps; i++ {
			if mixed {
				kind = rng.Intn(14)
			}
			if clean && kind == 0 {
				kind = 1
			}
			w, rn := g.base(s)
			switch kind {
			case 0:
				s = g.add(c06Op{Name: "ret", Src: s, L: []int{g.atom()}}, 0, w, rn+1)
			case 1:
				s = g.add(c06Op{Name: "order", Src: s, A: g.atom()}, 0, w, rn)
			case 2:
				s = g.add(c06Op{Name: "joins", Src: s, A: g.atom()}, 0, w, rn)
			case 3:
				s = g.add(c06Op{Name: "cond", Src: s, K: 0, A: g.atom()}, 0, append(w, 0), rn)
			case 4:
				s = g.add(c06Op{Name: "group", Src: s, A: g.atom()}, 0, w, rn)
			case 5:
				s = g.add(c06Op{Name: "having", Src: s, A: g.atom()}, 0, w, rn)
			case 6:
				s = g.add(c06Op{Name: "scopes", Src: s, A: g.atom()}, 0, w, rn)
			case 7:
				s = g.add(c06Op{Name: "preload", Src: s, A: 1 + rng.Intn(3)}, 0, w, rn)
			case 8:
				s = g.add(c06Op{Name: []string{"set", "iset"}[rng.Intn(2)], Src: s, A: 1 + rng.Intn(3), K: 1 + rng.Intn(5)}, 0, w, rn)
			case 9:
				s = g.add(c06Op{Name: "select", Src: s, L: []int{g.atom(), g.atom(), g.atom()}}, 0, w, rn)
			case 10:
				s = g.add(c06Op{Name: "omit", Src: s, L: []int{1 + rng.Intn(4)}}, 0, w, rn)
			case 11:
				s = g.add(c06Op{Name: "cond", Src: s, K: 2, A: g.atom()}, 0, append(w, 2), rn)
			case 12:
				s = g.add(c06Op{Name: []string{"limit", "offset", "table", "lock", "mapcol"}[rng.Intn(5)], Src: s, A: 1 + rng.Intn(2)}, 0, w, rn)
			default:
				if i == reps-1 && rng.Intn(4) == 0 {
					s = g.add(c06Op{Name: "errop", Src: s, A: rng.Intn(6)}, 0, w, rn) // a handle that already carries an error
				} else {
					s = g.add(c06Op{Name: "order", Src: s, A: g.atom()}, 0, w, rn)
				}
			}
			if i > 0 {
				g.used[s-1] = true
			}
		}
		g.used[s] = true
		g.add(c06Op{Name: []string{"session", "session", "ctx", "debug"}[rng.Intn(4)], Src: s}, 2, append([]int(nil), g.where[s]...), g.retN[s])
	}
	for len(g.h.Ops) < n {
		g.step()
	}
	// make sure the not yet consumed instances and a few reusable handles are rendered
	for i := range g.clone {
		if len(g.h.Ops) >= n+6 {
			break
		}
		if (g.clone[i] == 0 && !g.used[i]) || (g.clone[i] == 2 && rng.Intn(3) == 0) {
			g.used[i] = true
			w, rn := g.base(i)
			g.add(c06Op{Name: "render", Src: i, A: []int{0, 0, 1, 2, 3, 3}[rng.Intn(6)]}, 0, w, rn)
			g.used[len(g.used)-1] = true
		}
	}
	return g.h
}

// ---- findings: decidable patterns over a (minimised) history ---------------------------------------

// static shape of every handle: kinds of its WHERE elements, number of Returning merges, reusable?
type c06Shape struct {
	where    [][]int
	ret      []int
	reusable []bool
	scoped   []bool // pending Scopes on the handle's statement (static approximation)
}

func c06Shapes(h c06Hist) c06Shape {
	sh := c06Shape{where: [][]int{nil}, ret: []int{0}, reusable: []bool{true}, scoped: []bool{false}}
	clone := []int{1}
	for _, o := range h.Ops {
		s := o.Src
		var w []int
		rn := 0
		if s < len(clone) && clone[s] != 1 {
			w = append([]int(nil), sh.where[s]...)
			rn = sh.ret[s]
		}
		cl := 0
		switch o.Name {
		case "skip":
			cl, w, rn = 1, nil, 0
		case "session", "ctx":
			cl = 2
			if s < len(clone) {
				w, rn = append([]int(nil), sh.where[s]...), sh.ret[s]
			}
		case "debug":
			cl = 2
			if s < len(clone) && clone[s] != 1 {
				w, rn = append([]int(nil), sh.where[s]...), sh.ret[s]
			}
		case "newdb":
			cl = 1
			if s < len(clone) {
				w, rn = append([]int(nil), sh.where[s]...), sh.ret[s]
			}
		case "begin":
			cl = 2
			if s < len(clone) && clone[s] == 1 {
				cl = 1
			}
		case "cond":
			w = append(w, o.K)
		case "condg":
			if o.A < len(sh.where) && len(sh.where[o.A]) > 0 {
				w = append(w, o.K)
			}
		case "ret":
			if rn >= 0 {
				rn++
			}
		case "retstar":
			rn = -1
		}
		sc := false
		if s < len(clone) && o.Name != "skip" && o.Name != "render" {
			// a chain call on a clone-1 handle starts from an empty statement; derivations keep it
			if clone[s] != 1 || cl > 0 {
				sc = sh.scoped[s]
			}
		}
		if o.Name == "scopes" {
			sc = true
		}
		clone = append(clone, cl)
		sh.where = append(sh.where, w)
		sh.ret = append(sh.ret, rn)
		sh.reusable = append(sh.reusable, cl > 0)
		sh.scoped = append(sh.scoped, sc)
	}
	return sh
}

func c06Clones(h c06Hist) []int {
	clone := []int{1}
	for _, o := range h.Ops {
		cl := 0
		src := 1
		if o.Src < len(clone) {
			src = clone[o.Src]
		}
		switch o.Name {
		case "skip", "newdb":
			cl = 1
		case "session", "debug", "ctx":
			cl = 2
		case "begin":
			cl = 2
			if src == 1 {
				cl = 1
			}
		}
		clone = append(clone, cl)
	}
	return clone
}

// c06Patterns: which listed shapes occur in the history
func c06Patterns(h c06Hist) map[string]bool {
	p := map[string]bool{}
	sh := c06Shapes(h)
	for _, o := range h.Ops {
		switch o.Name {
		case "ret":
			// a Returning with columns merged onto a statement that already carries Returning columns
			if len(o.L) > 0 && o.Src < len(sh.ret) && sh.ret[o.Src] > 0 && !(o.Src == 0) {
				p["F4-C06-returning-append-alias"] = true
			}
		case "selects":
			if len(o.L) > 0 && o.Sl < len(h.Slices) && o.K < h.Slices[o.Sl].Cap {
				p["F22-C06-select-appends-caller-slice"] = true
			}
		case "condg", "havingg":
			if o.A < len(sh.where) {
				if sh.scoped[o.A] && sh.reusable[o.A] {
					p["F24-C06-group-arg-loses-scopes"] = true
				}
				w := sh.where[o.A]
				if len(w) == 1 && w[0] == 1 {
					p["F5-C06-group-arg-rewritten"] = true
				}
				if c06LeadingOr(w) {
					p["F23-C06-where-build-swap"] = true
				}
			}
		}
	}
	return p
}

// which part of the statement differs: the statement is cut at its top-level keywords (the generated
// conditions, columns and joins never contain them) and compared segment by segment
func c06Segments(q string) map[string]string {
	seg := map[string]string{}
	cur := "head"
	kws := []struct{ kw, name string }{{" WHERE ", "where"}, {" GROUP BY ", "group"}, {" HAVING ", "where2"}, {" ORDER BY ", "order"},
		{" LIMIT ", "limit"}, {" RETURNING ", "returning"}}
	for len(q) > 0 {
		best, bi := -1, -1
		for i, k := range kws {
			if j := strings.Index(q, k.kw); j >= 0 && (best < 0 || j < best) {
				best, bi = j, i
			}
		}
		if best < 0 {
			seg[cur] += q
			break
		}
		seg[cur] += q[:best]
		cur = kws[bi].name
		q = q[best+len(kws[bi].kw):]
		if seg[cur] == "" {
			seg[cur] = " "
		}
	}
	return seg
}

func c06Region(a, b string) string {
	if a == b {
		return "extra" // same SQL: error / preloads / settings / clauses differ
	}
	sa, sb := c06Segments(a), c06Segments(b)
	diff := map[string]bool{}
	for _, k := range []string{"head", "where", "group", "where2", "order", "limit", "returning"} {
		if strings.TrimSpace(sa[k]) != strings.TrimSpace(sb[k]) {
			diff[map[string]string{"head": "select", "where": "where", "where2": "where", "returning": "returning"}[k]] = true
		}
	}
	if len(diff) == 1 {
		for k := range diff {
			if k != "" {
				return k
			}
		}
	}
	return "other"
}

var c06RegionOf = map[string]string{
	"F4-C06-returning-append-alias":       "returning",
	"F22-C06-select-appends-caller-slice": "select",
	"F5-C06-group-arg-rewritten":          "where",
	"F23-C06-where-build-swap":            "where",
	"F24-C06-group-arg-loses-scopes":      "where",
}

// c06Live: the listed findings whose witness still reproduces on THIS tree (set once per run / replay).  A
// mismatch is attributed to a listed finding only while that finding is live: on a tree that carries the
// repair, the same shape differing is a violation again.
var c06Live map[string]bool

func c06LiveFindings() map[string]bool {
	if c06Live == nil {
		c06Live = map[string]bool{}
		for id, h := range c06Witnesses() {
			if _, _, bad := c06Judge(h); len(bad) > 0 && c06Patterns(h)[id] && bad[0].Region == c06RegionOf[id] {
				c06Live[id] = true
			}
		}
	}
	return c06Live
}

type c06Mismatch struct {
	Op      int    `json:"op"`
	InHist  c06Out `json:"in_history"`
	Alone   c06Out `json:"alone"`
	Region  string `json:"region"`
	Finding string `json:"finding,omitempty"`
}

func c06SameOut(a, b c06Out) bool {
	return a.SQL == b.SQL && reflect.DeepEqual(a.Vars, b.Vars) && a.Extra == b.Extra
}

// the tie compares what the model speaks about: SQL text and Vars
func c06SameSQL(a, b c06Out) bool {
	return a.SQL == b.SQL && reflect.DeepEqual(a.Vars, b.Vars)
}

// c06Judge: the e2e oracle.  Every render of the history must equal the same chain replayed alone.
func c06Judge(h c06Hist) (full map[int]c06Out, alone map[int]c06Out, bad []c06Mismatch) {
	full = c06Exec(h, nil)
	alone = map[int]c06Out{}
	for i, o := range h.Ops {
		if o.Name != "render" {
			continue
		}
		a := c06Exec(h, h.mask(i))[i]
		alone[i] = a
		if !c06SameOut(full[i], a) {
			bad = append(bad, c06Mismatch{Op: i, InHist: full[i], Alone: a, Region: c06Region(full[i].SQL, a.SQL)})
		}
	}
	return
}

// c06Shrink: greedy minimisation — drop ops (together with everything depending on them) while some
// render still differs from its replay alone.
func c06Shrink(h c06Hist) c06Hist {
	cur := h
	for changed := true; changed; {
		changed = false
		for i := len(cur.Ops) - 1; i >= 0; i-- {
			if cur.Ops[i].Name == "skip" {
				continue
			}
			cand := c06Hist{Slices: cur.Slices, Ops: append([]c06Op(nil), cur.Ops...)}
			dead := map[int]bool{i + 1: true}
			cand.Ops[i] = c06Op{Name: "skip"}
			for j := i + 1; j < len(cand.Ops); j++ {
				o := cand.Ops[j]
				dep := dead[o.Src]
				for _, a := range o.args() {
					dep = dep || dead[a]
				}
				if dep && o.Name != "skip" {
					dead[j+1] = true
					cand.Ops[j] = c06Op{Name: "skip"}
				}
			}
			if _, _, bad := c06Judge(cand); len(bad) > 0 {
				cur = cand
				changed = true
			}
		}
	}
	return cur
}

func c06Report(r *Result, suite string, h c06Hist, bad []c06Mismatch) {
	min := c06Shrink(h)
	_, _, mb := c06Judge(min)
	if len(mb) == 0 {
		min, mb = h, bad
	}
	pats := c06Patterns(min)
	for _, m := range mb[:1] {
		id := ""
		var ids []string
		for p := range pats {
			ids = append(ids, p)
		}
		sort.Strings(ids)
		for _, p := range ids {
			if c06RegionOf[p] == m.Region && listed(p) && c06LiveFindings()[p] {
				id = p
				break
			}
		}
		if id != "" {
			r.KnownFinding(id, fmt.Sprintf("render %d: in history %q, alone %q", m.Op, m.InHist.SQL, m.Alone.SQL))
			r.H("finding", id)
			continue
		}
		r.Violate(Violation{Kind: "e2e", Suite: suite, Input: min, Observed: m.InHist, Expected: m.Alone,
			Note: "a chain renders differently inside the history than replayed alone; history: " + strings.Join(min.Desc(), "; ")})
	}
}

// ---- the listed findings' witnesses (re-confirmed on every run) -------------------------------------

func c06Witnesses() map[string]c06Hist {
	return map[string]c06Hist{
		"F4-C06-returning-append-alias": {Ops: []c06Op{
			{Name: "ret", Src: 0, L: []int{1}}, {Name: "ret", Src: 1, L: []int{2}}, {Name: "ret", Src: 2, L: []int{3}},
			{Name: "session", Src: 3}, {Name: "ret", Src: 4, L: []int{4}}, {Name: "ret", Src: 4, L: []int{5}},
			{Name: "render", Src: 5, A: 3}, {Name: "render", Src: 6, A: 3}}},
		"F5-C06-group-arg-rewritten": {Ops: []c06Op{
			{Name: "cond", Src: 0, K: 1, A: 1}, {Name: "session", Src: 1}, {Name: "cond", Src: 2, K: 0, A: 2}, {Name: "render", Src: 3, A: 0},
			{Name: "condg", Src: 0, K: 0, A: 2}, {Name: "cond", Src: 2, K: 0, A: 2}, {Name: "render", Src: 6, A: 0}}},
		"F23-C06-where-build-swap": {Ops: []c06Op{
			{Name: "cond", Src: 0, K: 1, A: 1}, {Name: "cond", Src: 1, K: 0, A: 2}, {Name: "session", Src: 2},
			{Name: "render", Src: 3, A: 0},
			{Name: "cond", Src: 0, K: 0, A: 3}, {Name: "condg", Src: 5, K: 0, A: 3}, {Name: "render", Src: 6, A: 0}}},
		"F22-C06-select-appends-caller-slice": {Slices: []c06Slice{{Atoms: []int{1, 2}, Cap: 4}}, Ops: []c06Op{
			{Name: "selects", Src: 0, Sl: 0, K: 2, L: []int{3}}, {Name: "selects", Src: 0, Sl: 0, K: 2, L: []int{4}},
			{Name: "render", Src: 1, A: 0}, {Name: "render", Src: 2, A: 0}}},
		"F24-C06-group-arg-loses-scopes": {Ops: []c06Op{
			{Name: "scopes", Src: 0, A: 1}, {Name: "session", Src: 1}, {Name: "render", Src: 2, A: 0},
			{Name: "cond", Src: 0, K: 0, A: 2}, {Name: "condg", Src: 4, K: 0, A: 2}, {Name: "render", Src: 5, A: 0},
			{Name: "render", Src: 2, A: 0}}},
	}
}

// ---- tie ------------------------------------------------------------------------------------------

type c06LeanRes struct {
	Outs   [][]json.RawMessage `json:"outs"`
	Writes int                 `json:"writes"`
	Arrays int                 `json:"arrays"`
}

type c06TieCase struct {
	h     c06Hist
	full  map[int]c06Out
	alone map[int]c06Out
}

func c06Tie(r *Result, cases []c06TieCase) {
	ops := make([][]interface{}, len(cases))
	for i, c := range cases {
		ops[i] = c.h.lean(64)
	}
	res, err := AskLean(ops)
	if err != nil {
		r.Violate(Violation{Kind: "correspondence", Suite: "tie", Input: "driver", Observed: err.Error(), Expected: "answers"})
		return
	}
	for i, c := range cases {
		var lr c06LeanRes
		if err := json.Unmarshal(res[i], &lr); err != nil {
			r.Violate(Violation{Kind: "correspondence", Suite: "tie", Input: c.h, Observed: string(res[i]), Expected: "a result object"})
			continue
		}
		r.H("model_exposed_slot_writes", fmt.Sprint(min(lr.Writes, 4)))
		r.H("model_arrays", fmt.Sprint(lr.Arrays/8*8, "+"))
		nr := 0
		for _, o := range c.h.Ops {
			if o.Name == "render" {
				nr++
			}
		}
		if len(lr.Outs) != nr {
			r.Violate(Violation{Kind: "correspondence", Suite: "tie", Input: c.h, Observed: len(lr.Outs), Expected: nr, Note: "number of renderings"})
			continue
		}
		for _, o := range lr.Outs {
			var idx int
			var tin, tal []string
			_ = json.Unmarshal(o[0], &idx)
			_ = json.Unmarshal(o[1], &tin)
			_ = json.Unmarshal(o[2], &tal)
			r.CorrCompared += 2
			wantIn, wantAl := c06Spell(tin), c06Spell(tal)
			if len(tin) != len(tal) || strings.Join(tin, " ") != strings.Join(tal, " ") {
				r.H("model_interference", "yes")
			} else {
				r.H("model_interference", "no")
			}
			for _, t := range tin {
				if t == "(" || t == "OR" || t == "NOT" || t == "HAVING" || strings.HasPrefix(t, "COUNT") || t == "PK" || t == "RET*" || t == "DISTINCT" {
					r.H("model_tokens", t)
				}
			}
			if al := c.alone[idx]; (al.SQL == "" && strings.Contains(al.Extra, "err=")) || c.h.Ops[idx].A >= 4 {
				r.H("tie_skipped", "chain carries an error (no SQL) / Find(&int)")
				continue
			}
			if !c06SameSQL(c.full[idx], wantIn) {
				r.CorrDiffs++
				r.Violate(Violation{Kind: "correspondence", Suite: "tie", Input: c.h, Observed: c.full[idx], Expected: wantIn,
					Note: fmt.Sprintf("render op %d inside the history: real code vs model; %s", idx, strings.Join(c.h.Desc(), "; "))})
				break
			}
			if !c06SameSQL(c.alone[idx], wantAl) {
				r.CorrDiffs++
				r.Violate(Violation{Kind: "correspondence", Suite: "tie", Input: c.h, Observed: c.alone[idx], Expected: wantAl,
					Note: fmt.Sprintf("render op %d replayed alone: real code vs model; %s", idx, strings.Join(c.h.Desc(), "; "))})
				break
			}
		}
	}
}

// c06Linear: the hypothesis `Linear` of the Lean theorems (Lemmas/HeapQuiet.lean) — handle 0 and results of
// derivations may be used any number of times, every other handle at most once; no forward references.
func c06Linear(h c06Hist) bool {
	uses := map[int]int{}
	for j, o := range h.Ops {
		if o.Name == "skip" {
			continue
		}
		for _, u := range append([]int{o.Src}, o.args()...) {
			if u > j {
				return false
			}
			uses[u]++
		}
	}
	for i, n := range uses {
		if i == 0 || n <= 1 {
			continue
		}
		switch h.Ops[i-1].Name {
		case "session", "debug", "newdb", "ctx", "begin":
		default:
			return false
		}
	}
	return true
}

func c06Stats(r *Result, h c06Hist, full map[int]c06Out) (nontrivial bool) {
	if c06Linear(h) {
		r.H("history_is_Linear (hypothesis of C06_noninterference)", "yes")
	} else {
		r.H("history_is_Linear (hypothesis of C06_noninterference)", "NO")
		r.Violate(Violation{Kind: "correspondence", Suite: "tie", Input: h, Observed: "generated history is not Linear", Expected: "the generator obeys the property's quantifier (a chain instance is used at most once more)"})
	}
	r.H("ops", fmt.Sprint(len(h.Ops)/5*5, "+"))
	users := map[int]int{}
	renders := 0
	for _, o := range h.Ops {
		r.H("op_kind", o.Name)
		users[o.Src]++
		if o.Name == "render" {
			renders++
			r.H("finisher", []string{"Find", "First", "Count", "Delete", "Find(&int) failing"}[o.A])
		}
		if o.Name == "cond" || o.Name == "condg" {
			r.H("cond_kind", []string{"Where", "Or", "Not"}[o.K])
		}
	}
	maxShare := 0
	for s, n := range users {
		if n > maxShare && s >= 0 {
			maxShare = n
		}
	}
	r.H("max_chains_from_one_handle", fmt.Sprint(min(maxShare, 6)))
	r.H("renders", fmt.Sprint(min(renders, 8)))
	r.H("caller_slices", fmt.Sprint(len(h.Slices)))
	for p := range c06Patterns(h) {
		r.H("listed_shape_present", p)
	}
	return maxShare >= 2 && renders >= 2
}

func init() {
	register("C06", func(r *Result, rng *rand.Rand, tier string) {
		r.Rule = "histories with >= 2 chains started from one shared handle and >= 2 renderings; distinct = canonical op list"
		rounds, maxOps := 3000, 14
		if tier == "thorough" {
			rounds, maxOps = 40000, 30
		} else if tier == "search" {
			rounds, maxOps = 8000, 20
		}
		// 1. the listed findings' witnesses: re-confirm on the real code, and tie them to the model
		var ties []c06TieCase
		ws := c06Witnesses()
		var ids []string
		for id := range ws {
			ids = append(ids, id)
		}
		sort.Strings(ids)
		for _, id := range ids {
			h := ws[id]
			full, alone, bad := c06Judge(h)
			ties = append(ties, c06TieCase{h, full, alone})
			r.Case("witness", canon(h), true)
			if len(bad) == 0 {
				r.Note("witness of %s no longer reproduces on this tree", id)
				continue
			}
			if listed(id) && c06Patterns(h)[id] && bad[0].Region == c06RegionOf[id] {
				r.KnownFinding(id, fmt.Sprintf("witness: render %d in history %q, alone %q", bad[0].Op, bad[0].InHist.SQL, bad[0].Alone.SQL))
			} else {
				r.Violate(Violation{Kind: "e2e", Suite: "e2e", Input: h, Observed: bad[0].InHist, Expected: bad[0].Alone,
					Note: "witness of " + id + " (not listed): " + strings.Join(h.Desc(), "; ")})
			}
		}
		// 2. generated histories
		for i := 0; i < rounds && !expired(); i++ {
			clean := rng.Intn(10) != 0
			h := c06Generate(rng, maxOps, clean)
			full, alone, bad := c06Judge(h)
			nt := c06Stats(r, h, full)
			r.H("generator_mode", map[bool]string{true: "avoids listed shapes", false: "free"}[clean])
			r.Case("e2e", canon(h.Ops), nt)
			if len(bad) > 0 {
				r.H("e2e_mismatch_region", bad[0].Region)
				c06Report(r, "e2e", h, bad)
			}
			ties = append(ties, c06TieCase{h, full, alone})
			if i%97 == 0 {
				r.Sample(map[string]interface{}{"history": h.Desc(), "renders": full})
			}
			if len(ties) >= 500 {
				c06Tie(r, ties)
				ties = nil
			}
		}
		c06Tie(r, ties)
	})
	replayers["C06/e2e"] = func(r *Result, input json.RawMessage) {
		var h c06Hist
		if err := json.Unmarshal(input, &h); err != nil {
			r.Violate(Violation{Kind: "e2e", Suite: "e2e", Input: string(input), Observed: err.Error(), Expected: "a history"})
			return
		}
		_, _, bad := c06Judge(h)
		if len(bad) > 0 {
			c06Report(r, "e2e", h, bad)
		}
	}
	replayers["C06/tie"] = func(r *Result, input json.RawMessage) {
		var h c06Hist
		if err := json.Unmarshal(input, &h); err != nil {
			return
		}
		full, alone, bad := c06Judge(h)
		if len(bad) > 0 {
			c06Report(r, "e2e", h, bad)
		}
		c06Tie(r, []c06TieCase{{h, full, alone}})
	}
}
