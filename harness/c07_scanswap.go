package main

// C07 correspondence suite "scanswap": DB.Scan's save / replace / restore of the logger under FORCED overlap, real code vs
// Model.SharedCell in the mode the regenerated fact (Gen.cfgWriteSites → scanSwapsInPlace) says the tree uses.
//
// A callback registered after gorm:row parks every goroutine inside Scan (between the swap and the restore); a schedule
// is a sequence of goroutine numbers in which every goroutine occurs twice: first occurrence = the goroutine enters Scan and
// reaches the gate, second = it is released and Scan returns.  After every step the controller reads which logger the
// shared handle carries (its own / something else) and compares with the model's cell (0 / non-0).  Independently of the
// model (e2e): after the last step the handle must carry its own logger, every Scan returned its own value, and the
// handle's logger traced exactly one statement per Scan — what the same Scans give when run one after the other.

import (
	"encoding/json"
	"fmt"
	"math/rand"
	"path/filepath"
	"sync"
	"time"

	"gorm.io/gorm"
)

type c07SsCase struct {
	G      int    `json:"g"`
	Sched  []int  `json:"sched"`
	Handle string `json:"handle"` // db | session | where
}

func init() {
	register("C07", c07ScanSwap)
	replayers["C07/scanswap"] = func(r *Result, input json.RawMessage) {
		var c c07SsCase
		if json.Unmarshal(input, &c) != nil {
			return
		}
		if p := filepath.Join(c07Root(), "lean", ".lake", "build", "bin", "driver"); c07FileExists(p) {
			driverPath = p
		}
		c07ScanSwapBatch(r, []c07SsCase{c})
	}
}

func c07GenSsCase(rng *rand.Rand) c07SsCase {
	g := 2 + rng.Intn(3)
	// a random interleaving in which every goroutine occurs exactly twice
	left := make([]int, g)
	for i := range left {
		left[i] = 2
	}
	var sched []int
	for len(sched) < 2*g {
		t := rng.Intn(g)
		if left[t] > 0 {
			left[t]--
			sched = append(sched, t)
		}
	}
	return c07SsCase{G: g, Sched: sched, Handle: []string{"db", "session", "where"}[rng.Intn(3)]}
}

func c07ScanSwap(r *Result, rng *rand.Rand, tier string) {
	if o := c07Only(); o != "" && o != "scanswap" {
		return
	}
	n := 150
	if tier == "thorough" {
		n = 3000
	}
	cases := []c07SsCase{
		{G: 2, Sched: []int{0, 1, 0, 1}, Handle: "db"}, // the model's counterexample schedule
		{G: 2, Sched: []int{0, 1, 1, 0}, Handle: "db"},
		{G: 2, Sched: []int{0, 0, 1, 1}, Handle: "session"},
		{G: 3, Sched: []int{0, 1, 2, 0, 1, 2}, Handle: "where"},
	}
	for i := 0; i < n; i++ {
		cases = append(cases, c07GenSsCase(rng))
	}
	c07ScanSwapBatch(r, cases)
}

type c07SsLean struct {
	InPlace bool  `json:"in_place"`
	Cell    int   `json:"cell"`
	Cells   []int `json:"cells"`
}

func c07ScanSwapBatch(r *Result, cases []c07SsCase) {
	ops := make([][]interface{}, len(cases))
	for i, c := range cases {
		ops[i] = []interface{}{"cell.sched", c.Sched}
	}
	outs, err := AskLean(ops)
	if err != nil {
		r.Violate(Violation{Kind: "correspondence", Suite: "scanswap", Input: "batch", Observed: err.Error(), Expected: "lean driver answers"})
		return
	}
	bad := 0
	for i, c := range cases {
		if expired() || bad >= 3 {
			break
		}
		var l c07SsLean
		if err := json.Unmarshal(outs[i], &l); err != nil {
			r.Violate(Violation{Kind: "correspondence", Suite: "scanswap", Input: c, Observed: string(outs[i]), Expected: "model output"})
			bad++
			continue
		}
		obs, why := c07ScanSwapReal(c)
		if why != "" {
			r.H("scanswap.result", "inconclusive: "+why)
			continue
		}
		overlap := false
		open := 0
		for k, t := range c.Sched {
			first := true
			for _, u := range c.Sched[:k] {
				if u == t {
					first = false
				}
			}
			if first {
				open++
				if open >= 2 {
					overlap = true
				}
			} else {
				open--
			}
		}
		r.CorrCompared++
		r.Case("scanswap", canon(c), overlap)
		r.H("scanswap.G", fmt.Sprint(c.G))
		r.H("scanswap.handle", c.Handle)
		r.H("scanswap.overlap", fmt.Sprint(overlap))
		r.H("scanswap.model-mode", map[bool]string{true: "in place (shared Config)", false: "private copy"}[l.InPlace])
		exp := make([]bool, len(l.Cells))
		for k, v := range l.Cells {
			exp[k] = v == 0
		}
		if canon(exp) != canon(obs.own) {
			bad++
			r.Violate(Violation{Kind: "correspondence", Suite: "scanswap", Input: c, Observed: obs.own, Expected: exp,
				Note: "after each step: does the shared handle carry its own logger?  real DB.Scan vs Model.SharedCell in the mode read from Gen.cfgWriteSites"})
		}
		// e2e, independent of the model
		if !obs.own[len(obs.own)-1] || obs.traced != c.G || obs.wrong != "" {
			bad++
			r.Violate(Violation{Kind: "e2e", Suite: "scanswap", Input: c,
				Observed: fmt.Sprintf("own logger after each step: %v; statements traced by the handle's logger: %d; %s", obs.own, obs.traced, obs.wrong),
				Expected: fmt.Sprintf("the handle keeps its logger, which traces %d statements (one per Scan), every Scan returns its own value — as when the Scans run one after the other", c.G),
				Note:     "overlapping DB.Scan calls through one shared handle"})
		}
	}
}

type c07SsObs struct {
	own    []bool
	traced int
	wrong  string
}

func c07ScanSwapReal(c c07SsCase) (c07SsObs, string) {
	tlog := c07NewTraceLogger()
	db, _, sqlDB := OpenRec(&gorm.Config{NowFunc: fixedNowFunc, Logger: tlog})
	defer sqlDB.Close()
	sqlDB.SetMaxOpenConns(c.G + 2)
	var mu sync.Mutex
	gids := map[int64]int{}
	arrived := make(chan int, 16)
	release := make([]chan struct{}, c.G)
	for i := range release {
		release[i] = make(chan struct{})
	}
	err := db.Callback().Row().After("gorm:row").Register("c07:gate", func(tx *gorm.DB) {
		mu.Lock()
		t, ok := gids[c07CurGID()]
		mu.Unlock()
		if !ok {
			return
		}
		arrived <- t
		select {
		case <-release[t]:
		case <-time.After(5 * time.Second):
		}
	})
	if err != nil {
		return c07SsObs{}, "callback registration: " + err.Error()
	}
	var h *gorm.DB
	switch c.Handle {
	case "session":
		h = db.Session(&gorm.Session{})
	case "where":
		h = db.Where("1 = 1").Session(&gorm.Session{})
	default:
		h = db
	}
	own := func() bool { return c07Same(h.Config.Logger, tlog) }
	var obs c07SsObs
	done := make([]chan string, c.G)
	started := make([]bool, c.G)
	for _, t := range c.Sched {
		if t < 0 || t >= c.G {
			return obs, "bad schedule"
		}
		if !started[t] {
			started[t] = true
			done[t] = make(chan string, 1)
			go func(t int) {
				mu.Lock()
				gids[c07CurGID()] = t
				mu.Unlock()
				var v struct{ V int }
				err := h.Raw("SELECT ? AS v", 100+t).Scan(&v).Error
				if err != nil || v.V != 100+t {
					done[t] <- fmt.Sprintf("goroutine %d: Scan returned %d, %v", t, v.V, err)
					return
				}
				done[t] <- ""
			}(t)
			select {
			case <-arrived:
			case <-time.After(5 * time.Second):
				return obs, "goroutine did not reach the gate"
			}
		} else {
			close(release[t])
			select {
			case s := <-done[t]:
				if s != "" {
					obs.wrong = s
				}
			case <-time.After(5 * time.Second):
				return obs, "goroutine did not finish"
			}
		}
		obs.own = append(obs.own, own())
	}
	obs.traced = tlog.n
	return obs, ""
}
