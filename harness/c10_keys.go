package main

// C10 "exactly the targeted rows" on every primary-key SHAPE (suite key-rows; model-free oracle + row-selection tie).
//
// Table: one row per combination of the key components (2 values per component, 4 values for a single key, 4 rows
// for a model without primary key) — so rows SHARE partial keys (same ID, different Locale): a condition built from a
// subset of the key columns hits sibling rows.  Composite tables carry PRIMARY KEY(all members).
//
// Demands (property text: "only rows matching the chain's conditions and the model value's primary key change"):
//   * a row that the chain condition excludes, or that differs from the key value in a component the key value
//     gives NON-ZERO, never changes and never disappears (update, column update, Save, Delete, upsert);
//   * a row that matches the chain condition and the key value, when the key value gives EVERY component (or none at
//     all and a chain condition exists), is written with the predicted write set (same predictor as table-diff) /
//     is deleted / is the one overwritten by the upsert; RowsAffected of an UPDATE / DELETE that ran equals the number
//     of these rows;
//   * denied columns never change.
// Latitude: a key value with SOME components zero (gorm: zero = no constraint for UPDATE, tuple incl. the zero for
// DELETE): rows agreeing on the non-zero components may or may not be written; nothing but "denied never changes"
// is judged on them and RowsAffected is not judged.  Key given through Model(&m) (update1 … upd_dto), through the
// updated value itself (upd_self, save), through Delete(&v) and through Model(&m).Delete(&v).
//
// Tie (correspondence suite rowsel): Lean `selectRows (modelConds | field-loop conds | identityConds | conflictColumns)`
// on the same table vs the rows the real statement hit (RowsAffected, disappeared rows, overwritten rows).

import (
	"database/sql"
	"encoding/json"
	"fmt"
	"math/rand"
	"sort"
	"strings"
	"time"

	"gorm.io/gorm"
	"gorm.io/gorm/clause"
	"gorm.io/gorm/schema"
)

type c10K struct {
	Case   c10Case `json:"case"`
	CondKs []int   `json:"cond_ks"` // nil = no chain condition, else Where("k_ IN ?", CondKs)
	// Diag (upsert paths, composite keys): row k carries the k-th value in EVERY key member and every member column is
	// UNIQUE by itself as well — a conflict target made of a SUBSET of the key then resolves (instead of failing) and
	// overwrites a row whose full key differs
	Diag bool `json:"diag,omitempty"`
}

var c10KPaths = []string{"update1", "updcol1", "upd_map", "updcols_map", "upd_struct", "upd_dto", "updcols_struct", "upd_self", "upd_self",
	"save", "save", "delete", "delete", "delete_model", "upsert_all", "upsert_slice", "save_slice", "updmap_slicemodel", "delete_slice"}

type c10KTable struct {
	infos []c10Info
	pk    []int                 // indices of key members
	cols  []int                 // indices of fields with a column
	keys  map[int][]interface{} // k_ -> key component values (aligned with pk)
	n     int
}

// c10KInfos: c10Infos with column names / key flags taken from the REAL parsed schema (naming is not C10's business)
func c10KInfos(db *gorm.DB, s c10Sch, sch *schema.Schema, diag bool) *c10KTable {
	t := &c10KTable{infos: c10Infos(db, s), keys: map[int][]interface{}{}}
	for i := range t.infos {
		t.infos[i].Col = sch.Fields[i].DBName
		t.infos[i].PK = sch.Fields[i].PrimaryKey && sch.Fields[i].DBName != ""
		if t.infos[i].Col != "" {
			t.cols = append(t.cols, i)
		}
		if t.infos[i].PK {
			t.pk = append(t.pk, i)
		}
	}
	m := len(t.pk)
	switch m {
	case 0:
		t.n = 4
	case 1:
		t.n = 4
		for k := 1; k <= 4; k++ {
			t.keys[k] = []interface{}{c10KeyVal(s.Fields[t.pk[0]].Kind, k)}
		}
	default:
		if diag {
			t.n = 4
			for k := 1; k <= 4; k++ {
				vals := make([]interface{}, m)
				for j := 0; j < m; j++ {
					vals[j] = c10KeyVal(s.Fields[t.pk[j]].Kind, k)
				}
				t.keys[k] = vals
			}
			break
		}
		t.n = 1 << m
		for k := 1; k <= t.n; k++ {
			vals := make([]interface{}, m)
			for j := 0; j < m; j++ {
				vals[j] = c10KeyVal(s.Fields[t.pk[j]].Kind, 1+((k-1)>>j)&1)
			}
			t.keys[k] = vals
		}
	}
	return t
}

func c10KSetup(s c10Sch, diag bool) (*gorm.DB, *sql.DB, *c10KTable, *Recorder) {
	db, rec, sqlDB := OpenRec(&gorm.Config{NowFunc: fixedNowFunc})
	sch, _, err := c10Parse(db, s)
	if err != nil {
		panic(err)
	}
	t := c10KInfos(db, s, sch, diag)
	defs, pkcols := []string{}, []string{}
	for _, i := range t.cols {
		in := t.infos[i]
		typ := "integer"
		switch in.F.Kind {
		case "str":
			typ = "text"
		case "time":
			typ = "datetime"
		}
		if in.PK && diag && len(t.pk) > 1 {
			typ += " UNIQUE"
		}
		defs = append(defs, strings.TrimSpace("`"+in.Col+"` "+typ+" "+in.DefSQL))
		if in.PK {
			pkcols = append(pkcols, "`"+in.Col+"`")
		}
	}
	defs = append(defs, "k_ integer")
	if len(pkcols) > 0 {
		defs = append(defs, "PRIMARY KEY ("+strings.Join(pkcols, ",")+")")
	}
	if _, err := sqlDB.Exec("CREATE TABLE " + c10Table + " (" + strings.Join(defs, ", ") + ")"); err != nil {
		panic(fmt.Sprint(err, defs))
	}
	for k := 1; k <= t.n; k++ {
		cols, ph, args := []string{"k_"}, []string{"?"}, []interface{}{k}
		for _, i := range t.cols {
			in := t.infos[i]
			cols, ph = append(cols, "`"+in.Col+"`"), append(ph, "?")
			switch {
			case in.PK:
				for j, p := range t.pk {
					if p == i {
						args = append(args, t.keys[k][j])
					}
				}
			case in.F.Kind == "str":
				args = append(args, fmt.Sprintf("s%d_%d", k, i))
			case in.F.Kind == "time":
				args = append(args, time.Date(2000, 1, k, 0, 0, 0, 0, time.UTC))
			default:
				args = append(args, 100*k+i)
			}
		}
		if _, err := sqlDB.Exec("INSERT INTO "+c10Table+" ("+strings.Join(cols, ",")+") VALUES ("+strings.Join(ph, ",")+")", args...); err != nil {
			panic(err)
		}
	}
	return db, sqlDB, t, rec
}

// c10KKey: the key components a value gives (nil entry = zero); nz = number of non-zero components
func (t *c10KTable) keyOf(v c10Vals) (vals []interface{}, nz int) {
	vals = make([]interface{}, len(t.pk))
	for j, p := range t.pk {
		if x, ok := v[t.infos[p].F.Name]; ok {
			vals[j] = x
			nz++
		}
	}
	return
}

func c10KEq(kind string, a, b interface{}) bool {
	if kind == "str" {
		return fmt.Sprint(a) == fmt.Sprint(b)
	}
	return c10Int(a) == c10Int(b)
}

// disagrees: row k differs from the key value in a component the key value gives non-zero
func (t *c10KTable) disagrees(k int, key []interface{}) bool {
	for j, p := range t.pk {
		if key[j] != nil && !c10KEq(t.infos[p].F.Kind, key[j], t.keys[k][j]) {
			return true
		}
	}
	return false
}

// rowNamed: the row whose FULL key equals key (0 when none / key not fully given)
func (t *c10KTable) rowNamed(key []interface{}) int {
	if len(t.pk) == 0 {
		return 0
	}
	for _, x := range key {
		if x == nil {
			return 0
		}
	}
	for k := 1; k <= t.n; k++ {
		if !t.disagrees(k, key) {
			return k
		}
	}
	return 0
}

type c10KOut struct {
	verdict  string
	detail   map[string]interface{}
	executed bool  // a statement reached the database without error
	affected int64 // RowsAffected
	changed  []int // rows (k_) whose cells changed or that disappeared
	newRows  int
}

func c10KJudge(e *c10K, r *Result) (out c10KOut) {
	c := &e.Case
	db, sqlDB, t, rec := c10KSetup(c.Schema, e.Diag)
	defer sqlDB.Close()
	typ := c.Schema.Type()
	before := c10DumpTable(sqlDB, "k_")
	path := c.Path
	defer func() {
		if p := recover(); p != nil {
			if r != nil {
				r.H("c10.keys.gorm-panic", path)
				r.Note("gorm panicked (not judged, outside C10): key-rows path=%s %v", path, p)
			}
			out = c10KOut{detail: map[string]interface{}{"panic": fmt.Sprint(p)}}
		}
	}()
	rec.Reset()
	tx := c10Exec(db, typ, c, func(tx *gorm.DB) *gorm.DB {
		if e.CondKs != nil {
			tx = tx.Where("k_ IN ?", e.CondKs)
		}
		return tx
	})
	after := c10DumpTable(sqlDB, "k_")
	failed := tx.Error != nil
	sqls := []string{}
	for _, ev := range rec.Snapshot() {
		if strings.HasPrefix(ev.SQL, "UPDATE") || strings.HasPrefix(ev.SQL, "DELETE") || strings.HasPrefix(ev.SQL, "INSERT") {
			if ev.Kind == "exec" || ev.Kind == "query" || ev.Kind == "stmt_exec" || ev.Kind == "stmt_query" {
				sqls = append(sqls, fmt.Sprint(ev.SQL, " ", ev.Args))
			}
		}
	}
	out.detail = map[string]interface{}{"error": fmt.Sprint(tx.Error), "rows_affected": tx.RowsAffected, "sql": sqls}
	out.executed = !failed && len(sqls) > 0 // a statement reached the database (gorm sends none when SET is empty)
	out.affected = tx.RowsAffected
	out.newRows = len(after.New)
	for k := 1; k <= t.n; k++ {
		if after.Old[k] == nil || canon(after.Old[k]) != canon(before.Old[k]) {
			out.changed = append(out.changed, k)
		}
	}
	if r != nil {
		r.H("c10.keys.error", fmt.Sprint(failed))
	}
	bad := func(format string, a ...interface{}) c10KOut { out.verdict = fmt.Sprintf(format, a...); return out }
	condOK := func(k int) bool { return e.CondKs == nil || containsInt(e.CondKs, k) }
	m := len(t.pk)
	unchanged := func(k int, why string) string {
		b, a := before.Old[k], after.Old[k]
		if a == nil {
			return fmt.Sprintf("row %d (key %v) %s but disappeared", k, t.keys[k], why)
		}
		for _, i := range t.cols {
			col := t.infos[i].Col
			if b[col] != a[col] {
				return fmt.Sprintf("row %d (key %v) %s but column %s changed %q -> %q", k, t.keys[k], why, col, b[col], a[col])
			}
		}
		return ""
	}

	switch path {
	case "delete", "delete_model":
		key, nz := t.keyOf(c.Rows[0])
		mkey, mnz := make([]interface{}, m), 0
		if path == "delete_model" {
			mkey, mnz = t.keyOf(c.Model)
		}
		nothing := nz+mnz == 0 && e.CondKs == nil // gorm refuses a delete without any condition (C09)
		full := (nz == 0 || nz == m) && (mnz == 0 || mnz == m)
		certain := 0
		for k := 1; k <= t.n; k++ {
			if nothing || !condOK(k) || t.disagrees(k, key) || t.disagrees(k, mkey) {
				if v := unchanged(k, "is not targeted by this delete"); v != "" {
					return bad("%s", v)
				}
				continue
			}
			if !full || failed {
				continue // latitude: a key value with a zero component
			}
			certain++
			if after.Old[k] != nil {
				return bad("row %d (key %v) matches the conditions and the key of the deleted value but is still there", k, t.keys[k])
			}
		}
		if r != nil && full && out.executed {
			r.H("c10.keys.rows-affected-judged", fmt.Sprintf("delete targeted=%d", certain))
		}
		if full && out.executed && int(out.affected) != certain {
			return bad("RowsAffected = %d, but %d row(s) match the conditions and the key", out.affected, certain)
		}
		if len(after.New) != 0 {
			return bad("a delete inserted %d row(s)", len(after.New))
		}
		return out

	case "updmap_slicemodel", "delete_slice":
		// keys given through a slice value, every element with its FULL key: exactly the rows named by an element
		hit := map[int]bool{}
		for _, v := range c.Rows {
			key, _ := t.keyOf(v)
			if k := t.rowNamed(key); k != 0 && condOK(k) {
				hit[k] = true
			}
		}
		for k := 1; k <= t.n; k++ {
			if !hit[k] {
				if v := unchanged(k, "carries the full key of none of the slice elements (or fails the chain condition)"); v != "" {
					return bad("%s", v)
				}
				continue
			}
			b, a := before.Old[k], after.Old[k]
			if failed {
				continue
			}
			if path == "delete_slice" {
				if a != nil {
					return bad("row %d (key %v) is named by a slice element but is still there", k, t.keys[k])
				}
				continue
			}
			if a == nil {
				return bad("row %d disappeared", k)
			}
			for _, i := range t.cols {
				in := t.infos[i]
				was, is := b[in.Col], a[in.Col]
				if in.DenyU {
					if was != is {
						return bad("row %d: column %s of a field denying update (tag %q) changed %q -> %q", k, in.Col, in.F.Tag, was, is)
					}
					continue
				}
				inSet, accept, skip := c10PredictUpdate(in, c, "upd_map", false, was)
				if skip || in.PK {
					continue
				}
				if inSet {
					if !c10Has(accept, is) {
						return bad("row %d (key %v) is named by a slice element: column %s is in the write set, expected %v, found %q (was %q)", k, t.keys[k], in.Col, accept, is, was)
					}
				} else if was != is {
					return bad("row %d: column %s is outside the write set but changed %q -> %q", k, in.Col, was, is)
				}
			}
		}
		if out.executed && int(out.affected) != len(hit) {
			return bad("RowsAffected = %d, but %d row(s) are named by the slice elements", out.affected, len(hit))
		}
		if len(after.New) != 0 {
			return bad("%s inserted %d row(s)", path, len(after.New))
		}
		return out

	case "upsert_all", "upsert_slice", "save_slice":
		hit := map[int]c10Vals{}
		fresh := 0
		for _, v := range c.Rows {
			key, _ := t.keyOf(v)
			if k := t.rowNamed(key); k != 0 {
				hit[k] = v
			} else {
				fresh++
			}
		}
		for k := 1; k <= t.n; k++ {
			g, isHit := hit[k]
			if !isHit {
				if v := unchanged(k, "carries the full key of none of the upserted values"); v != "" {
					return bad("%s", v)
				}
				continue
			}
			b, a := before.Old[k], after.Old[k]
			if a == nil {
				return bad("row %d disappeared", k)
			}
			for _, i := range t.cols {
				in := t.infos[i]
				was, is := b[in.Col], a[in.Col]
				if in.DenyC || in.DenyU || in.PK {
					if was != is {
						return bad("upsert on row %d: column %s of a key member / a field denying create or update (tag %q) changed %q -> %q", k, in.Col, in.F.Tag, was, is)
					}
					continue
				}
				if failed || in.HasDef || in.TrackU || in.TrackC {
					continue
				}
				if v, _ := c10Given(in, g); is != v {
					return bad("upsert UpdateAll on row %d (key %v): column %s expected %q found %q", k, t.keys[k], in.Col, v, is)
				}
			}
		}
		if !failed && len(after.New) != fresh {
			return bad("upsert of %d value(s) whose full key names no existing row created %d row(s)", fresh, len(after.New))
		}
		return out
	}

	// ---- update paths ---------------------------------------------------------------------------------
	self := path == "upd_self" || path == "save"
	keySrc := c.Model
	if self {
		keySrc = c.Rows[0]
	}
	key, nz := t.keyOf(keySrc)
	if len(after.New) != 0 && path != "save" {
		return bad("an update inserted %d row(s)", len(after.New))
	}
	createRoute := path == "save" && m > 0 && nz < m // Save with a zero key component inserts
	nothing := nz == 0 && e.CondKs == nil             // gorm refuses an update without any condition (C09)
	full := nz == 0 || nz == m
	dtoDeny := map[string]bool{}
	if path == "upd_dto" && c.Dto != nil {
		for _, f := range c.Dto.Fields {
			if _, du := c10TagPerm(f.Tag); du {
				dtoDeny[f.Name] = true
			}
		}
	}
	certain := 0
	for k := 1; k <= t.n; k++ {
		if createRoute || nothing || !condOK(k) || t.disagrees(k, key) {
			if v := unchanged(k, "is not targeted (conditions / non-zero key components differ)"); v != "" {
				return bad("%s", v)
			}
			continue
		}
		b, a := before.Old[k], after.Old[k]
		if a == nil {
			return bad("row %d disappeared", k)
		}
		if full {
			certain++
		}
		for _, i := range t.cols {
			in := t.infos[i]
			was, is := b[in.Col], a[in.Col]
			if in.DenyU {
				if was != is {
					return bad("row %d: column %s of a field denying update (tag %q) changed %q -> %q", k, in.Col, in.F.Tag, was, is)
				}
				continue
			}
			if failed || !full || dtoDeny[in.F.Name] {
				continue
			}
			inSet, accept, skip := c10PredictUpdate(in, c, path, self, was)
			if skip {
				continue
			}
			if in.PK && !self {
				continue // a key member given as a VALUE to write (re-keying) is table-diff's business
			}
			if inSet {
				if !c10Has(accept, is) {
					return bad("row %d (key %v) is targeted: column %s is in the write set, expected %v, found %q (was %q)", k, t.keys[k], in.Col, accept, is, was)
				}
			} else if was != is {
				return bad("row %d: column %s is outside the write set but changed %q -> %q", k, in.Col, was, is)
			}
		}
	}
	if r != nil && full && out.executed && path != "save" {
		r.H("c10.keys.rows-affected-judged", fmt.Sprintf("update targeted=%d", certain))
	}
	if full && out.executed && path != "save" && int(out.affected) != certain {
		return bad("RowsAffected = %d, but %d row(s) match the conditions and the model key %v", out.affected, certain, key)
	}
	return out
}

// c10KDry: a DryRun handle shared by the generator and the Lean-question builder (fresh schema cache every 500 uses)
var c10KDryDB *gorm.DB
var c10KDryUses int

func c10KDry() *gorm.DB {
	if c10KDryDB == nil || c10KDryUses%500 == 499 {
		c10KDryDB = c10ParseDB()
	}
	c10KDryUses++
	return c10KDryDB
}

func genC10K(rng *rand.Rand, r *Result) *c10K {
	db := c10KDry()
	for {
		s := genC10SchemaK(rng, false)
		// no column defaults on this suite (created/conflicting rows are judged on plain columns only)
		sch, _, err := c10Parse(db, s)
		if err != nil {
			continue
		}
		t := c10KInfos(db, s, sch, false)
		if len(t.cols)-len(t.pk) < 1 {
			continue
		}
		e := &c10K{Case: c10Case{Schema: s, Path: c10KPaths[rng.Intn(len(c10KPaths))]}}
		c := &e.Case
		m := len(t.pk)
		upsert := strings.HasPrefix(c.Path, "upsert") || c.Path == "save_slice"
		if upsert {
			ok := m > 0
			for _, p := range t.pk {
				if t.infos[p].DenyC {
					ok = false // the key would not be part of the INSERT
				}
			}
			if !ok {
				c.Path = []string{"upd_map", "update1", "upd_struct"}[rng.Intn(3)]
				upsert = false
			}
		}
		if upsert && m > 1 && rng.Intn(2) == 0 {
			e.Diag = true
			t = c10KInfos(db, s, sch, true)
		}
		// a key value: per component an existing value, a value no row has (3 / 9), or zero
		genKey := func(pZero int) c10Vals {
			v := c10Vals{}
			for _, p := range t.pk {
				f := s.Fields[p]
				switch x := rng.Intn(100); {
				case x < pZero:
				case x < pZero+10:
					v[f.Name] = c10KeyVal(f.Kind, 9)
				default:
					top := 2
					if m == 1 || e.Diag {
						top = 4
					}
					v[f.Name] = c10KeyVal(f.Kind, 1+rng.Intn(top))
				}
			}
			return v
		}
		data := func(v c10Vals, pNonZero, salt int) c10Vals {
			for i, f := range s.Fields {
				if !t.infos[i].PK && rng.Intn(100) < pNonZero {
					v[f.Name] = c10NonZero(rng, f, salt*10+i)
				}
			}
			return v
		}
		pick := func(max int) []string {
			out := []string{}
			for i, n := 0, rng.Intn(max+1); i < n; i++ {
				in := t.infos[t.cols[rng.Intn(len(t.cols))]]
				switch rng.Intn(4) {
				case 0:
					out = append(out, in.F.Name)
				case 1:
					out = append(out, c10Table+"."+in.Col)
				default:
					out = append(out, in.Col)
				}
			}
			if len(out) == 0 {
				return nil
			}
			return out
		}
		if rng.Intn(6) == 0 {
			e.CondKs = []int{}
			for k := 1; k <= t.n; k++ {
				if rng.Intn(3) > 0 {
					e.CondKs = append(e.CondKs, k)
				}
			}
		}
		if m == 0 && e.CondKs == nil && rng.Intn(4) > 0 {
			e.CondKs = []int{1 + rng.Intn(t.n)}
		}
		sliceKeys := c.Path == "updmap_slicemodel" || c.Path == "delete_slice"
		if sliceKeys && m == 0 {
			c.Path, sliceKeys = "upd_map", false
		}
		switch {
		case sliceKeys:
			seen := map[string]bool{}
			for i, n := 0, 1+rng.Intn(3); i < n; i++ {
				kv := genKey(0)
				if id := canon(kv); !seen[id] {
					seen[id] = true
					c.Rows = append(c.Rows, kv)
				}
			}
			c.Model = c10Vals{}
			if c.Path == "updmap_slicemodel" {
				if rng.Intn(4) == 0 {
					c.Omits = pick(1)
				}
				c.Map = c10GenMap(rng, sch, s, false, false, 7, nil, true)
			}
		case upsert:
			n := 1
			if c.Path != "upsert_all" {
				n = 1 + rng.Intn(3)
			}
			seen := map[string]bool{}
			for i := 0; i < n; i++ {
				kv := genKey(0)
				if id := canon(kv); !seen[id] {
					seen[id] = true
					c.Rows = append(c.Rows, data(kv, 60, i+1))
				}
			}
			e.CondKs = nil
		case strings.HasPrefix(c.Path, "delete"):
			pz := 12
			if rng.Intn(8) == 0 {
				pz = 100
			}
			c.Rows = []c10Vals{genKey(pz)}
			c.Model = c10Vals{}
			if c.Path == "delete_model" {
				c.Model = genKey(30)
				if rng.Intn(2) == 0 { // the same record through both
					c.Model = c10Vals{}
					for k, v := range c.Rows[0] {
						c.Model[k] = v
					}
				}
			}
		default:
			pz := 12
			if rng.Intn(8) == 0 {
				pz = 100
			}
			self := c.Path == "upd_self" || c.Path == "save"
			c.Model = genKey(pz)
			c.Rows = []c10Vals{data(c10Vals{}, 50, 1)}
			if self {
				c.Rows = []c10Vals{data(genKey(pz), 50, 1)}
				c.Model = c10Vals{}
				if key, _ := t.keyOf(c.Rows[0]); c.Path == "save" && e.CondKs != nil {
					if k := t.rowNamed(key); k != 0 && !containsInt(e.CondKs, k) {
						e.CondKs = append(e.CondKs, k) // stay outside the pattern of the listed finding F18
						sort.Ints(e.CondKs)
					}
				}
			}
			if rng.Intn(3) == 0 {
				c.Selects = pick(2)
			}
			if rng.Intn(4) == 0 {
				c.Omits = pick(1)
			}
			if c.Path == "upd_dto" {
				c.Dto = c10DtoOf(rng, s)
				if _, _, err := c10Parse(db, *c.Dto); err != nil {
					c.Path, c.Dto = "upd_struct", nil
				}
			}
			c.Map = c10GenMap(rng, sch, s, false, c.Path == "update1" || c.Path == "updcol1", 7, nil, true)
		}
		if r != nil {
			r.H("c10.keys.shape", c10ShapeOf(sch))
			r.H("c10.keys.path", c.Path)
			r.H("c10.keys.embedded", fmt.Sprint(c10HasEmbed(s)))
			if upsert {
				r.H("c10.keys.upsert-table", fmt.Sprintf("members-unique=%v", e.Diag))
			}
			keySrc := c.Model
			if len(c.Rows) > 0 && (c.Path == "upd_self" || c.Path == "save" || strings.HasPrefix(c.Path, "delete")) {
				keySrc = c.Rows[0]
			}
			_, nz := t.keyOf(keySrc)
			r.H("c10.keys.key-given", fmt.Sprintf("%d/%d cond=%v", nz, m, e.CondKs != nil))
			for _, p := range t.pk {
				if t.infos[p].DenyC || t.infos[p].DenyU {
					r.H("c10.keys.key-member-perm", s.Fields[p].Tag)
				}
			}
		}
		return e
	}
}

// c10KLean: the row-selection question put to the Lean model for e: which rows does the key condition hit
func c10KLean(e *c10K) ([][]interface{}, []int) {
	c := &e.Case
	db := c10KDry()
	sch, _, err := c10Parse(db, c.Schema)
	if err != nil {
		return nil, nil
	}
	t := c10KInfos(db, c.Schema, sch, e.Diag)
	exp := c10Export(sch)
	rows := [][][]string{}
	for k := 1; k <= t.n; k++ {
		row := [][]string{}
		for j, p := range t.pk {
			row = append(row, []string{t.infos[p].Col, fmt.Sprint(t.keys[k][j])})
		}
		rows = append(rows, row)
	}
	op := func(kind string, v c10Vals) []interface{} {
		key := [][]string{}
		nz := []string{}
		for _, p := range t.pk {
			if x, ok := v[t.infos[p].F.Name]; ok {
				key = append(key, []string{t.infos[p].Col, fmt.Sprint(x)})
				nz = append(nz, t.infos[p].F.Name)
			}
		}
		return []interface{}{"c10.rowsel", exp, kind, nz, key, rows}
	}
	switch c.Path {
	case "updmap_slicemodel", "delete_slice":
		return nil, nil // slice model values are not modelled (e2e oracle only)
	case "delete":
		return [][]interface{}{op("delete", c.Rows[0])}, nil
	case "delete_model":
		return [][]interface{}{op("delete", c.Rows[0]), op("delete", c.Model)}, nil
	case "upd_self", "save":
		return [][]interface{}{op("self", c.Rows[0])}, nil
	case "upsert_all", "upsert_slice", "save_slice":
		ops := [][]interface{}{}
		for _, v := range c.Rows {
			ops = append(ops, op("conflict", v))
		}
		return ops, nil
	}
	return [][]interface{}{op("model", c.Model)}, nil
}

func c10KRun(r *Result, e *c10K) c10KOut {
	out := c10KJudge(e, r)
	if out.verdict != "" {
		r.Violate(Violation{Kind: "e2e", Suite: "key-rows", Input: e, Observed: out.detail, Expected: out.verdict,
			Note: "table whose rows share partial keys, diffed around one real write: only rows matching the chain's conditions and the (whole) primary key of the model / updated / deleted value may change"})
	}
	return out
}

func init() {
	register("C10", func(r *Result, rng *rand.Rand, tier string) {
		n := 1800
		if tier == "thorough" {
			n = 60000
		} else if tier == "search" {
			n = 4000
		}
		t0 := time.Now()
		defer func() { r.Note("c10 key-rows+rowsel: n=%d took %.1fs", n, time.Since(t0).Seconds()) }()
		type pend struct {
			e     *c10K
			out   c10KOut
			first int
			cnt   int
		}
		var pends []pend
		var ops [][]interface{}
		for i := 0; i < n && !expired(); i++ {
			e := genC10K(rng, r)
			c := &e.Case
			r.Case("key-rows", canon(e), len(c10KeyIdx2(c.Schema)) != 1 || e.CondKs != nil)
			if i%397 == 0 {
				r.Sample(map[string]interface{}{"suite": "key-rows", "input": e})
			}
			out := c10KRun(r, e)
			lops, _ := c10KLean(e)
			pends = append(pends, pend{e: e, out: out, first: len(ops), cnt: len(lops)})
			ops = append(ops, lops...)
		}
		// tie: Lean selectRows over the model's key condition vs the rows the real statement hit
		outs, err := AskLean(ops)
		if err != nil {
			r.Violate(Violation{Kind: "correspondence", Suite: "rowsel", Note: err.Error()})
			return
		}
		for _, p := range pends {
			if p.cnt == 0 || p.out.detail == nil || p.out.detail["panic"] != nil {
				continue
			}
			c := &p.e.Case
			sel := map[int]bool{}
			first := true
			union := strings.HasPrefix(c.Path, "upsert") || c.Path == "save_slice"
			conds := []interface{}{}
			for _, raw := range outs[p.first : p.first+p.cnt] {
				var a struct {
					Conds []string `json:"conds"`
					Rows  []int    `json:"rows"`
				}
				if err := json.Unmarshal(raw, &a); err != nil {
					r.Violate(Violation{Kind: "correspondence", Suite: "rowsel", Input: p.e, Note: "bad answer " + string(raw)})
					continue
				}
				conds = append(conds, a.Conds)
				cur := map[int]bool{}
				for _, i := range a.Rows {
					cur[i+1] = true
				}
				switch {
				case first || union:
					for k := range cur {
						sel[k] = true
					}
				default: // delete_model: both key conditions hold
					for k := range sel {
						if !cur[k] {
							delete(sel, k)
						}
					}
				}
				first = false
			}
			want := []int{}
			for k := range sel {
				if p.e.CondKs == nil || containsInt(p.e.CondKs, k) {
					want = append(want, k)
				}
			}
			sort.Ints(want)
			r.CorrCompared++
			r.Case("rowsel", canon(p.e), true)
			r.H("c10.rowsel.selected", fmt.Sprint(len(want)))
			diff := ""
			for _, k := range p.out.changed {
				if !containsInt(want, k) {
					diff = fmt.Sprintf("row %d changed / disappeared but the model's key condition does not select it", k)
				}
			}
			switch {
			case diff != "":
			case !p.out.executed || union || c.Path == "save":
			case int(p.out.affected) != len(want):
				diff = fmt.Sprintf("RowsAffected = %d but the model's key condition %v selects rows %v", p.out.affected, conds, want)
			}
			if diff != "" {
				r.Violate(Violation{Kind: "correspondence", Suite: "rowsel", Input: p.e, Observed: map[string]interface{}{"changed": p.out.changed, "rows_affected": p.out.affected, "detail": p.out.detail},
					Expected: map[string]interface{}{"conds": conds, "rows": want}, Note: "rows hit by the real statement (observed) vs Lean selectRows over the model's key condition (expected): " + diff})
			}
		}
	})
	replayers["C10/key-rows"] = func(r *Result, input json.RawMessage) {
		var e c10K
		dec := json.NewDecoder(strings.NewReader(string(input)))
		dec.UseNumber()
		if err := dec.Decode(&e); err != nil {
			r.Violate(Violation{Kind: "e2e", Suite: "key-rows", Note: "cannot decode replay input: " + err.Error()})
			return
		}
		c10KRun(r, &e)
	}
	_ = clause.Associations
}

// c10KeyIdx2: key members of a generated schema by tag (cheap, for the non-trivial flag only)
func c10KeyIdx2(s c10Sch) []int {
	out := []int{}
	for i, f := range s.Fields {
		if strings.Contains(strings.ToLower(f.Tag), "primarykey") || strings.Contains(f.Tag, "primary_key") {
			out = append(out, i)
		}
	}
	return out
}
